"""Shared runner for the solver properties (C03, C04, C05, C15, C20): model generation, watchdogged worker runs of
every built-in solver, untrusted exact certificates (z3), Coq-verified certificate checking."""
import json, os, re, select, subprocess, time
from fractions import Fraction
from . import common as C

SOLVERS = ["milp", "auto", "microlp_real", "clarabel", "slow_simplex"]
IMP = "From Rooc Require Import Base.XQ Model.Exp Model.Bounds Model.Linearize Cert.LP Cert.Bridge."
CALL_TIMEOUT = 6.0


def run_worker(binary, models_path, n_models, nsolvers, extra_args=(), call_timeout=CALL_TIMEOUT):
    """Runs the worker; a call that does not answer within call_timeout is recorded as {'status':'timeout'} and the
    worker is restarted just past it.  Returns dict (i,k) -> result.
    A timeout is a wall-clock observation and the machine may simply be busy: the first two timed-out calls are run
    again on their own with four times the limit; one that answers then is kept as its answer (marked slow).  If none of
    the re-run calls is confirmed, the remaining unconfirmed timeouts are attributed to load as well (marked
    'unconfirmed-timeout', which no check reports as a hang)."""
    results = _run_worker_once(binary, models_path, n_models, nsolvers, extra_args, call_timeout)
    timed_out = sorted(k for k, v in results.items() if v.get("status") == "timeout")
    confirmed = 0
    for key in timed_out[:2]:
        r = _run_single(binary, models_path, key, extra_args, 4 * call_timeout)
        if r is None:
            confirmed += 1
        else:
            r["slow"] = True
            results[key] = r
    if timed_out and confirmed == 0:
        for key in timed_out[2:]:
            results[key] = {"status": "unconfirmed-timeout"}
    return results


def _run_single(binary, models_path, key, extra_args, timeout):
    """one call on its own: the worker is started at `key` and killed as soon as that call has answered"""
    p = subprocess.Popen([binary, "worker", models_path, str(key[0]), str(key[1])] + list(extra_args),
                         stdout=subprocess.PIPE, stderr=subprocess.DEVNULL, env=C.env_base())
    fd = p.stdout.fileno()
    buf = b""
    started = time.time()
    out = None
    try:
        while time.time() - started < timeout and out is None:
            r, _, _ = select.select([fd], [], [], 0.25)
            if not r:
                continue
            chunk = os.read(fd, 65536)
            if not chunk:
                break
            buf += chunk
            while b"\n" in buf and out is None:
                line, buf = buf.split(b"\n", 1)
                line = line.decode("utf-8", "replace")
                if line.startswith("R "):
                    _, a, b, rest = line.split(" ", 3)
                    if (int(a), int(b)) == tuple(key):
                        out = json.loads(rest)
    finally:
        try:
            p.kill()
        except Exception:
            pass
        p.wait()
    return out


def _run_worker_once(binary, models_path, n_models, nsolvers, extra_args=(), call_timeout=CALL_TIMEOUT):
    results = {}
    i0, k0 = 0, 0
    guard = 0
    while i0 < n_models and guard < 10 * n_models + 100:
        guard += 1
        p = subprocess.Popen([binary, "worker", models_path, str(i0), str(k0)] + list(extra_args),
                             stdout=subprocess.PIPE, stderr=subprocess.DEVNULL, env=C.env_base())
        fd = p.stdout.fileno()
        buf = b""
        cur = None
        started = time.time()
        done = False
        eof = False
        while not done and not eof:
            r, _, _ = select.select([fd], [], [], 0.25)
            if r:
                chunk = os.read(fd, 65536)
                if not chunk:
                    eof = True
                buf += chunk
                while b"\n" in buf:
                    line, buf = buf.split(b"\n", 1)
                    line = line.decode("utf-8", "replace")
                    if line.startswith("S "):
                        _, a, b = line.split()[:3]
                        cur = (int(a), int(b)); started = time.time()
                    elif line.startswith("R "):
                        _, a, b, rest = line.split(" ", 3)
                        results[(int(a), int(b))] = json.loads(rest)
                        cur = None
                    elif line.startswith("DONE"):
                        done = True
            elif cur is not None and time.time() - started > call_timeout:
                break
        if done:
            p.wait()
            return results
        hung = (not eof)
        try:
            p.kill()
        except Exception:
            pass
        p.wait()
        if cur is None:
            last = max(results) if results else (i0, k0 - 1)
            cur = (last[0], last[1] + 1)
            if cur[1] >= nsolvers:
                cur = (last[0] + 1, 0)
            if cur[0] >= n_models:
                return results
        results[cur] = {"status": "timeout" if hung else "abort"}
        # a change that makes MANY calls hang would otherwise cost a watchdog period each: stop after 40, the rest is not run
        if sum(1 for v in results.values() if v.get("status") == "timeout") >= 40:
            return results
        i0, k0 = cur[0], cur[1] + 1
        if k0 >= nsolvers:
            i0, k0 = i0 + 1, 0
    return results


def fl(s):
    return float(s)


def generate(ctx, n, kind="all", name="models"):
    path = os.path.join(ctx.work, name + ".jsonl")
    rc, out = C.sh([os.path.join(C.TARGET, "debug", "c05"), "gen", str(ctx.seed), str(n), path, kind], timeout=600)
    if rc != 0:
        raise RuntimeError("c05 gen failed: " + out[-400:])
    return path, [json.loads(l) for l in open(path)]


def certify(ctx, models_path, models, name="certs"):
    """returns list of (code, Fraction|None) per model; code: 0 unknown, 1 optimal value, 2 infeasible, 3 unbounded"""
    certs_path = os.path.join(ctx.work, name + ".jsonl")
    rc, out = C.sh(["python3-vt", os.path.join(C.VERIF, "tools", "exactlp.py"), models_path, certs_path], timeout=3000)
    if rc != 0:
        raise RuntimeError("exactlp failed: " + out[-400:])
    certs = [json.loads(l) for l in open(certs_path)]
    lines = ["(mkSCase %s %s)" % (m["coq"], c["cert"]) for m, c in zip(models, certs)]
    d = os.path.join(ctx.work, name)
    os.makedirs(d, exist_ok=True)
    truths = []
    shard = 150
    jobs = []
    for k in range(0, len(lines), shard):
        p = os.path.join(d, "t%05d.v" % (k // shard))
        with open(p, "w") as f:
            f.write("From Coq Require Import QArith ZArith List String.\n%s\nImport ListNotations.\nOpen Scope string_scope.\nOpen Scope Q_scope.\n"
                    "Definition cases : list scase := [\n%s\n].\nEval vm_compute in (truths cases).\n" % (IMP, ";\n".join(lines[k:k + shard])))
        jobs.append((p, 900))
    from concurrent.futures import ThreadPoolExecutor
    with ThreadPoolExecutor(max_workers=16) as ex:
        outs = list(ex.map(C._run_shard, jobs))
    for (rc, out), (p, _) in zip(outs, jobs):
        if rc != 0:
            raise RuntimeError("certificate checking failed in Coq: " + out[-600:])
        body = out[out.index("="):]
        nums = [int(x) for x in re.findall(r"-?\d+", body.split(": list")[0])]
        for j in range(0, len(nums), 3):
            code, a, b = nums[j:j + 3]
            truths.append((code, Fraction(a, b) if code == 1 else None))
    if len(truths) != len(lines):
        raise RuntimeError("certificate checker returned %d verdicts for %d cases" % (len(truths), len(lines)))
    return truths, certs


def close(a, b, tol=1e-6):
    return abs(a - b) <= tol * max(1.0, abs(a), abs(b))


def max_violation(m, r):
    """(largest absolute violation of a row or a bound by the returned point, scale of the model and the point): floats, used only to
    assign a failure to a class of KNOWN_FINDINGS - the verdict itself comes from the verified checker"""
    def pf(x):
        return {"inf": float("inf"), "-inf": float("-inf"), "NaN": float("nan")}.get(x, None) if isinstance(x, str) and x in ("inf", "-inf", "NaN") else float(x)
    val = {a: float(v) for a, v in r["assign"]}
    xs = [val.get(n, 0.0) for n in m["vars"]]
    worst, scale = 0.0, 1.0
    for row in m["rows"]:
        lhs = sum(pf(a) * x for a, x in zip(row["a"], xs))
        b = pf(row["b"])
        scale = max(scale, abs(b))
        d = lhs - b
        worst = max(worst, {"le": max(d, 0.0), "lt": max(d, 0.0), "ge": max(-d, 0.0), "gt": max(-d, 0.0)}.get(row["cmp"], abs(d)))
    for t, x in zip(m["types"], xs):
        scale = max(scale, abs(x))
        if t["k"] == "Bool":
            lo, hi = 0.0, 1.0
        else:
            lo, hi = pf(t["lo"]), pf(t["hi"])
        worst = max(worst, lo - x if x < lo else 0.0, x - hi if x > hi else 0.0)
    return worst, scale
