"""C01 - Linearization preserves the feasible set."""
from . import common as C, core

PROOF_FILES = ["Proof/ArmLemmas.v", "Proof/LinAffine.v", "Proof/LinFrame.v", "Proof/AffineSound.v", "Proof/BoundsOfSound.v",
               "Proof/TightenSound.v", "Proof/PropagateSound.v", "Proof/PublishSound.v", "Proof/PublishedCompile.v", "Proof/ShrinkSound.v", "Proof/CompileAffine.v", "Proof/Pruning.v", "Proof/CompileAbs.v"]


def run(ctx):
    cov = C.proof_step(ctx, "Props/C01.v", PROOF_FILES)
    res = core.run_core(ctx, {"C01", "C18"})
    if res is None:
        return C.finish(ctx, "proof", cov, [])
    rep, cov2 = res
    cov.update(cov2)
    cov["trusted_base"] = core.trusted(cov)
    return C.finish(ctx, "proof", cov, [
        "the projection theorem is proved end to end through the whole of compile for the affine fragment (C01_projection_affine; premises: record affine_model in Proof/CompileAffine.v) "
        "and for the arithmetic fragment with abs, min and max (dominated-operand pruning included) together with logic assertions over Boolean variables that are lowered to one affine row (try_lower_affine) and comparisons of such formulas with constants (normalised by the logic-constraint test into an assertion, a tautology or a contradiction), where auxiliary variables, queued one-sided / big-M / selector rows and the bound analysis are involved (C01_projection_abs; premises: record abs_model in Proof/CompileAbs.v, "
        "decided by abs_modelb on every tied model); "
        "PARTIAL beyond it: for models with other logic (reified logic values inside arithmetic, assertions that need witnesses) the full theorem (C01_projection_statement) is stated but not proved; proved for them are the affine stage, "
        "every lowering arm's row pattern in both directions, soundness of every bound the rewrites read (C07), value preservation of the pre-processing "
        "rewrites (C10) and the frame property of all linearizer actions",
        "the whole compiler (all arms, logic lowering, main loop, naming) is modelled and tied structurally to Linearizer::linearize on every run; "
        "the projection equivalence itself is evaluated on the implementation at grid points incl. non-integral and out-of-range values"])
