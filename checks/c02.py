"""C02 - Linearization preserves objective values and optima."""
from . import common as C, core

PROOF_FILES = ["Proof/ArmLemmas.v", "Proof/LinAffine.v", "Proof/AffineSound.v", "Proof/CompileAffine.v", "Proof/Pruning.v", "Proof/CompileAbs.v", "Proof/CompileVerdicts.v"]


def run(ctx):
    cov = C.proof_step(ctx, "Props/C02.v", PROOF_FILES)
    res = core.run_core(ctx, {"C02"})
    if res is None:
        return C.finish(ctx, "proof", cov, [])
    rep, cov2 = res
    cov.update(cov2)
    cov["trusted_base"] = core.trusted(cov)
    return C.finish(ctx, "proof", cov, [
        "objective and optimum preservation are proved end to end through the whole of compile for the affine fragment (C02_objective_affine, C02_optimum_affine) and, in the "
        "full form of C02_objective_statement, for the arithmetic fragment with abs, min and max (C02_objective_abs, C02_optimum_abs); "
        "PARTIAL beyond it (reified logic values, witness-based assertions): the full objective theorem is stated but not proved; proved are the affine objective "
        "(coefficients and offset) and the one-sided/exact arm patterns",
        "objective map, offset and direction are part of the structural tie; best-extension objective vs source objective is compared on the implementation at every source-feasible grid point"])
