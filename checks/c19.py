"""C19 - Type checking is sound."""
import json, os, sys
from . import common as C

IMP = "From Rooc Require Import Base.XQ Model.Exp Model.Types Tie.TieC19."


def describe(f):
    return "%s [%s]: %s | program: %s" % (f.get("kind"), f.get("class"), (f.get("error") or "")[:200].replace("\n", " "), (f.get("input") or "").replace("\n", " | ")[:500])


def run(ctx):
    ok, out = C.build_harness(["c19"])
    if not ok:
        ctx.broken.append("harness does not build against /repo: " + out[-800:])
        return C.finish(ctx, "proof", {"obligations": 0, "discharged": 0, "checker_cmd": "cargo build", "trusted_base": []}, [])
    cov = C.proof_step(ctx, "Props/C19.v", ["Proof/TypesSound.v"])
    ok, out = C.coq_make(["Tie/TieC19.vo"])
    if not ok:
        ctx.broken.append("model/tie does not compile: " + out[-600:])
    corpus = os.path.join(C.BUILD, "programs.jsonl")
    rc, out = C.sh([sys.executable, os.path.join(C.VERIF, "tools", "extract_programs.py"), corpus], timeout=120)
    n = 600 if ctx.quick() else 15000
    rc, out = C.sh([os.path.join(C.TARGET, "debug", "c19"), str(ctx.seed), str(n), ctx.work, corpus], timeout=6000)
    if rc != 0:
        ctx.broken.append("harness c19 failed: " + out[-600:])
        return C.finish(ctx, "proof", cov, [])
    rep = json.load(open(os.path.join(ctx.work, "report.json")))
    lines = open(os.path.join(ctx.work, "cases.txt")).read().splitlines()
    inputs = open(os.path.join(ctx.work, "inputs.txt")).read().splitlines()
    mine = [f for f in rep["oracle_failures"] if f.get("prop") == "C19"]
    new = C.triage_failures(ctx, mine, describe)
    fails, errors = ([], [])
    if ok:
        fails, errors = C.eval_cases(ctx, "tie", IMP, "t19", lines, fn="t19_failures", shard=500)
    if errors:
        ctx.broken.append("correspondence evaluation failed in Coq: %s" % errors[0][1][-400:])
    if fails:
        i = fails[0]
        mo = C.eval_term(ctx, IMP, "t19_out %s" % lines[i])
        ctx.broken.append("correspondence of the operator tables / constant expressions (PrimitiveKind::can_apply_*, Primitive::apply_*, PreExp::get_type, type_check + transform) vs Model.Types broken on %d of %d cases; first: `%s`; case %s; model says %s"
                          % (len(fails), len(lines), inputs[i][:200], lines[i][:300], " ".join(mo.split())[:300]))
        for i in fails[:3]:
            p = C.write_replay(ctx, "counterexample", {"failure": {"kind": "operator-table-or-constant-expression-differs-from-proved-model", "input": inputs[i], "case": lines[i][:800]},
                                                        "what": "`%s`: the implementation's static table, dynamic result, static result kind or check/evaluate outcome differs from the model for which soundness is proved" % inputs[i]})
            ctx.violations.append((p, False))
    cnt = rep["counters"]
    cov.update({
        "trusted_base": C.TRUSTED_BASE_COMMON + [
            "axioms: " + (", ".join(cov.get("axioms_reported_by_Print_Assumptions", [])) or "none (closed under the global context)"),
            "harness: representative values per kind (incl. i64/u64 extremes), reading the checker's static kinds from PreModel::create_token_type_map (serde), classification of TransformError variants into type-class / data-dependent",
            "modelled, not verified: functions, iterations, destructuring, block functions, declarations and compound-variable typing are not modelled; they are exercised by the perturbed-program oracle on the implementation"],
        "evaluations": len(lines) + cnt.get("perturbed.accepted", 0) + cnt.get("corpus.accepted", 0),
        "distinct_nontrivial": min(rep["distinct"] + cnt.get("tables.dynamic_binary", 0), cnt.get("perturbed.accepted", 0) + cnt.get("tables.dynamic_binary", 0)),
        "rule": "tables: all kind/operator/kind triples (static), 25 representative values per side incl. integer extremes (dynamic), static result kinds of `let r = a op b` for 4 literal kinds; "
                "constant expressions: seeded trees of depth <= 3 over 6 typed constants and literals with all operators; "
                "programs: seeded programs with deliberately perturbed types in operand, index, bound, iterator, destructuring and argument positions (non-trivial = accepted by the checker) + every program literal of /repo",
        "samples": rep["samples"][:6],
        "input_distribution": {k: v for k, v in cnt.items() if not k.startswith("failures.")},
        "oracle_failures_unlisted": new,
        "correspondence_mismatches": len(fails),
    })
    return C.finish(ctx, "proof", cov, ["soundness is proved for constant expressions (operators, literals, constants); the rest of the language is tested on perturbed programs",
                                        "a static Any (member of a mixed-type compound family of variables) is outside the theorem: it is accepted by design and checked at run time"])
