"""C12 - Compiled output is itself a valid program with the same meaning."""
import json, os
from . import common as C

IMP = "From Rooc Require Import Model.Exp Model.Pratt Model.Printer Model.LinRow Tie.TieC11 Tie.TieC12."


def describe(f):
    return "%s [%s]: %s %s" % (f.get("kind"), f.get("class"), (f.get("difference") or f.get("error") or "")[:300],
                               ("text: " + (f.get("text") or f.get("expression") or "").replace("\n", " | "))[:400])


def run(ctx):
    ok, out = C.build_harness(["c12"])
    if not ok:
        ctx.broken.append("harness does not build against /repo: " + out[-800:])
        return C.finish(ctx, "proof", {"obligations": 0, "discharged": 0, "checker_cmd": "cargo build", "trusted_base": []}, [])
    ok, out = C.gen_srcparams()
    if not ok:
        ctx.broken.append("translator (tools/srcparams.py) cannot regenerate the operator tables (exp_parser.rs, math/operators.rs): " + out[-400:])
    cov = C.proof_step(ctx, "Props/C12.v", ["Proof/PrattSound.v", "Proof/PrattTable.v", "Proof/PrinterWf.v", "Proof/PrinterParse.v", "Proof/LinRowParse.v", "Proof/PrinterTable.v"])
    ok, out = C.coq_make(["Tie/TieC12.vo"])
    if not ok:
        ctx.broken.append("model/tie does not compile: " + out[-600:])
    n = 800 if ctx.quick() else 20000
    rc, out = C.sh([os.path.join(C.TARGET, "debug", "c12"), str(ctx.seed), str(n), ctx.work], timeout=6000)
    if rc != 0:
        ctx.broken.append("harness c12 failed: " + out[-600:])
        return C.finish(ctx, "proof", cov, [])
    rep = json.load(open(os.path.join(ctx.work, "report.json")))
    lines = open(os.path.join(ctx.work, "cases.txt")).read().splitlines()
    inputs = open(os.path.join(ctx.work, "inputs.txt")).read().splitlines()
    new = C.triage_failures(ctx, rep["oracle_failures"], describe)
    fails, errors = ([], [])
    if ok:
        fails, errors = C.eval_cases(ctx, "tie", IMP, "c12", lines, fn="c12_failures", shard=400)
    if errors:
        ctx.broken.append("correspondence evaluation failed in Coq: %s" % errors[0][1][-400:])
    if fails:
        i = fails[0]
        mo = C.eval_term(ctx, IMP, "c12_out %s" % lines[i])
        ctx.broken.append("correspondence Exp/LinearModel Display vs Model.Printer / Model.LinRow broken on %d of %d cases; first: `%s`; model (tokens, reparse) = %s"
                          % (len(fails), len(lines), inputs[i], " ".join(mo.split())[:400]))
        for i in fails[:3]:
            p = C.write_replay(ctx, "counterexample", {"failure": {"kind": "rendered-text-differs-from-proved-printer", "input": inputs[i], "case": lines[i][:800]},
                                                        "what": "rendering `%s`: the printed tokens differ from the proved printer's or are not read back with the original meaning" % inputs[i]})
            ctx.violations.append((p, False))
    cnt = rep["counters"]
    programs = sum(v for k, v in cnt.items() if k.endswith(".programs"))
    cov.update({
        "trusted_base": C.TRUSTED_BASE_COMMON + [
            "axioms: " + (", ".join(cov.get("axioms_reported_by_Print_Assumptions", [])) or "none (closed under the global context)"),
            "translator tools/srcparams.py: PRATT_PARSER chain of exp_parser.rs and BinOp::precedence / is_left_associative of math/operators.rs -> Gen/PrattTable.v on every run; the theorems (incl. compatibility of the two tables) are re-proved against the regenerated tables",
            "harness tokenisers (expression text, row left-hand sides), the generator's own source printer, f64 Display for term magnitudes",
            "modelled, not verified: number and name rendering, domains, row names, objective offset, the type checker and the re-compilation itself are evaluated on the implementation (oracle), not modelled"],
        "evaluations": len(lines) + programs + cnt.get("wide.direct_text_compiled", 0),
        "distinct_nontrivial": min(rep["distinct"], cnt.get("nontrivial.keeps_some_parentheses", 0) + cnt.get("nontrivial.rows_with_two_or_more_terms", 0)),
        "rule": "expression trees: all 16 (parent, child) pairs of + - * / in both nestings and all 64 triples, unary minus over/under every operator, seeded random trees (non-trivial = some parenthesis kept); "
                "programs: seeded models (affine / arithmetic with abs,min,max / logic / mixed) written as source by the generator's own printer, kept when they parse, type-check and transform; their Model text and LinearModel text are re-compiled and compared; "
                "wide: linear models with coefficient magnitudes 1e-9..1e9, generated and indexed names, every domain form, named/unnamed rows, offsets; "
                "rows: every rendered row's sign pattern and tokens (non-trivial = two or more terms)",
        "samples": rep["samples"][:12],
        "input_distribution": {k: v for k, v in cnt.items() if not k.startswith("failures.")},
        "failure_classes_seen": {k: v for k, v in cnt.items() if k.startswith("failures.")},
        "oracle_failures_unlisted": new,
        "correspondence_mismatches": len(fails),
    })
    return C.finish(ctx, "proof", cov, ["expression and row round trips are proved for all sizes; numbers, names, domains, type checking and equality of the re-compiled model are checked on generated programs, not proved",
                                        "four classes of harmless renormalisation on re-compilation are recorded as known findings (F24, F30, F31, F32)"])
