"""C03 - End-to-end answers are right: optimum, infeasible, or error."""
import json, os, re, collections
from fractions import Fraction
from . import common as C, solvers as S
from .c04 import qf, finite

IMP = "From Rooc Require Import Base.XQ Model.Exp Model.Sem Model.Bounds Model.Linearize Cert.Bridge Cert.RefInterp."


def describe(f):
    return "%s: `%s` (reference %s, implementation %s)" % (f.get("kind"), f.get("input", "").replace("\n", " | ")[:260], f.get("reference"), f.get("returned"))


def run_texts(binary, path, n):
    import types
    real = S.subprocess.Popen

    def popen(args, **kw):
        return real(list(args)[:5], **kw)
    S.subprocess = types.SimpleNamespace(Popen=popen, PIPE=S.subprocess.PIPE, DEVNULL=S.subprocess.DEVNULL)
    try:
        return S.run_worker(binary, path, n, 1, call_timeout=10.0)
    finally:
        import subprocess as sp
        S.subprocess = sp


def run(ctx):
    ok, out = C.build_harness(["c03"])
    if not ok:
        ctx.broken.append("harness does not build against /repo: " + out[-800:])
        return C.finish(ctx, "translation_validation", {"programs": 0, "disagreements_checked": 0, "samples": []}, [])
    cov = C.proof_step(ctx, "Props/C03.v", ["Cert/RefInterp.v"])
    ok, out = C.coq_make(["Cert/RefInterp.vo"])
    if not ok:
        ctx.broken.append("reference interpreter does not compile: " + out[-600:])
        return C.finish(ctx, "translation_validation", cov, [])
    n = 1500 if ctx.quick() else 40000
    path = os.path.join(ctx.work, "texts.jsonl")
    rc, out = C.sh([os.path.join(C.TARGET, "debug", "c03"), "gen", str(ctx.seed), str(n), path], timeout=600)
    if rc != 0:
        ctx.broken.append("c03 gen failed: " + out[-400:])
        return C.finish(ctx, "translation_validation", cov, [])
    progs = [json.loads(l) for l in open(path)]
    results = run_texts(os.path.join(C.TARGET, "debug", "c03"), path, len(progs))
    lines = []
    for i, p in enumerate(progs):
        r = results.get((i, 0)) or {}
        pt = "None"
        if r.get("status") == "ok":
            a = dict(r["assign"])
            if all(v in a and finite(a[v]) for v in p["vars"]):
                pt = "(Some [%s])" % "; ".join('("%s", %s)' % (v, qf(a[v])) for v in p["vars"])
        lines.append("(mkPCase %s %s)" % (p["coq"], pt))
    d = os.path.join(ctx.work, "ref"); os.makedirs(d, exist_ok=True)
    shard = 100
    jobs = []
    for k in range(0, len(lines), shard):
        pth = os.path.join(d, "t%05d.v" % (k // shard))
        with open(pth, "w") as f:
            f.write("From Coq Require Import QArith ZArith List String.\n%s\nImport ListNotations.\nOpen Scope string_scope.\nLocal Close Scope Q_scope.\n"
                    "Definition cases : list pcase := [\n%s\n].\nEval vm_compute in (pcodes cases).\n" % (IMP, ";\n".join(lines[k:k + shard])))
        jobs.append((pth, 1200))
    from concurrent.futures import ThreadPoolExecutor
    with ThreadPoolExecutor(max_workers=16) as ex:
        outs = list(ex.map(C._run_shard, jobs))
    codes = []
    for (rc, out), (pth, _) in zip(outs, jobs):
        if rc != 0:
            ctx.broken.append("reference interpretation failed in Coq: " + out[-500:])
            return C.finish(ctx, "translation_validation", cov, [])
        body = out[out.index("="):]
        nums = [int(x) for x in re.findall(r"-?\d+", body.split(": list")[0])]
        for j in range(0, len(nums), 6):
            codes.append((nums[j], Fraction(nums[j + 1], nums[j + 2]), nums[j + 3], Fraction(nums[j + 4], nums[j + 5])))
    fails = []
    verdicts = collections.Counter()
    for i, (p, (rc_, rv, pc, pv)) in enumerate(zip(progs, codes)):
        r = results.get((i, 0)) or {}
        st = r.get("status")
        ref = {0: "unsupported", 1: "optimum %s" % rv, 2: "no satisfying assignment", 3: "undefined somewhere"}[rc_]
        base = {"input": p["text"], "reference": ref, "returned": (st + ":" + str(r.get("value") or r.get("kind") or r.get("stage"))) if st else None}
        verdicts[(ref.split()[0], st if st != "solver-error" else r.get("kind"))] += 1
        if st in ("timeout", "abort", "panic"):
            fails.append(dict(base, kind="pipeline-did-not-return-" + st, **{"class": "unclassified"}))
            continue
        if rc_ in (0, 3):
            continue
        varfree = len(p["vars"]) == 0
        if rc_ == 2:
            if st == "ok":
                fails.append(dict(base, kind="solution-returned-for-unsatisfiable-text", **{"class": "variable-free-model" if varfree else "unclassified"}))
            elif st == "compile-error":
                fails.append(dict(base, kind="compile-error-for-unsatisfiable-text", message=r.get("message"), **{"class": "unclassified"}))
            elif st == "solver-error" and r.get("kind") != "Infeasible":
                fails.append(dict(base, kind="wrong-verdict-for-unsatisfiable-text", **{"class": "unclassified"}))
            continue
        # a satisfying assignment exists
        if st != "ok":
            fails.append(dict(base, kind="no-solution-for-satisfiable-text", message=r.get("message"), **{"class": "unclassified"}))
            continue
        if pc == 2:
            fails.append(dict(base, kind="returned-values-violate-the-text", assign=r.get("assign"), **{"class": "unclassified"}))
            continue
        if pc != 1:
            continue
        if p["dir"] != "sat":
            v = float(r["value"])
            if abs(v - float(pv)) > 1e-6 * max(1.0, abs(float(pv))):
                fails.append(dict(base, kind="reported-objective-differs-from-objective-at-returned-values", at_point=str(pv), **{"class": "unclassified"}))
            if abs(float(pv) - float(rv)) > 1e-6 * max(1.0, abs(float(rv))):
                fails.append(dict(base, kind="a-strictly-better-assignment-exists", at_point=str(pv), **{"class": "unclassified"}))
    new = C.triage_failures(ctx, fails, describe)
    samples = [{"text": progs[i]["text"], "reference": {0: "unsupported", 1: "optimum %s" % codes[i][1], 2: "no satisfying assignment", 3: "undefined"}[codes[i][0]],
                "implementation": {k: v for k, v in (results.get((i, 0)) or {}).items() if k in ("status", "value", "kind", "assign")}}
               for i in range(0, len(progs), max(1, len(progs) // 8))][:8]
    cov.update({
        "programs": len(progs),
        "disagreements_checked": len(fails),
        "samples": samples,
        "verdicts (reference, implementation)": {"%s / %s" % k: v for k, v in verdicts.items()},
        "failures_unlisted": new,
        "trusted_base": C.TRUSTED_BASE_COMMON[:1] + [
            "Cert/RefInterp.v: ref_solve proved sound and complete over the enumerated box w.r.t. the executable semantics evQ (axiom-free); evQ's agreement with the real-valued semantics ev is by construction, not proved",
            "the generator prints fully parenthesised text from its own AST and the reference evaluates that AST, so the tie does not depend on the implementation's parser (precedence is C09's subject)",
            "glue: text printer, JSON/Gallina printers, exact f64->Q conversion, Python comparison (1e-6)",
            "not modelled: pest, microlp; the compiler core is modelled (C01/C02) but this check validates the whole pipeline per program"],
    })
    return C.finish(ctx, "translation_validation", cov, ["programs are restricted to Boolean / small integer-range variables so that the reference can enumerate the box; continuous variables are covered by C01/C02/C05"])
