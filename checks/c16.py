"""C16 - All front doors agree."""
import json, os, collections
from . import common as C, solvers as S

IMP = "From Rooc Require Import Base.XQ Model.Exp Model.Sem Model.Bounds Model.Linearize Model.Builder Model.BuilderOps Tie.TieC16."


def describe(f):
    return "%s: %s %s" % (f.get("kind"), (f.get("difference") or f.get("error") or f.get("what") or "")[:300], ("text: " + (f.get("text") or "").replace("\n", " | "))[:400])


def close(a, b, tol=1e-6):
    return abs(a - b) <= tol * max(1.0, abs(a), abs(b))


def run(ctx):
    ok, out = C.build_harness(["c16"])
    if not ok:
        ctx.broken.append("harness does not build against /repo: " + out[-800:])
        return C.finish(ctx, "proof", {"obligations": 0, "discharged": 0, "checker_cmd": "cargo build", "trusted_base": []}, [])
    cov = C.proof_step(ctx, "Props/C16.v", ["Proof/XQFacts.v", "Proof/SemFacts.v", "Proof/BuilderSound.v", "Proof/BuilderOpsFacts.v"])
    ok, out = C.coq_make(["Tie/TieC16.vo"])
    if not ok:
        ctx.broken.append("model/tie does not compile: " + out[-600:])
    n = 500 if ctx.quick() else 12000
    binary = os.path.join(C.TARGET, "debug", "c16")
    rc, out = C.sh([binary, "gen", str(ctx.seed), str(n), ctx.work], timeout=6000)
    if rc != 0:
        ctx.broken.append("harness c16 failed: " + out[-600:])
        return C.finish(ctx, "proof", cov, [])
    rep = json.load(open(os.path.join(ctx.work, "report.json")))
    lines = open(os.path.join(ctx.work, "cases.txt")).read().splitlines()
    inputs = open(os.path.join(ctx.work, "inputs.txt")).read().splitlines()
    failures = list(rep["oracle_failures"])
    # ---- the same model solved through the builder, the one-shot solver and the staged pipes (watchdogged worker)
    path = os.path.join(ctx.work, "cases.jsonl")
    allcases = [json.loads(l) for l in open(path)]
    text_only = [c for c in allcases if c["case"] is None]
    built = [c for c in allcases if c["case"] is not None]
    cases = built[:(250 if ctx.quick() else 4000)] + text_only
    nsolve = len(cases)
    sub = os.path.join(ctx.work, "solve.jsonl")
    with open(sub, "w") as f:
        for c in cases:
            f.write(json.dumps(c) + "\n")
    results = S.run_worker(binary, sub, nsolve, 4, call_timeout=10.0)
    verdicts = collections.Counter()
    names = ["builder(Auto)", "RoocSolver::solve_using(auto_solver)", "PipeRunner(..., AutoSolverPipe)"]
    for i in range(nsolve):
        c = cases[i]["case"]; text = cases[i]["text"]
        rs = [results.get((i, k)) or {"status": "missing"} for k in range(3)]
        if c is None:
            # text-only probe: the one-shot solver and the staged pipes must agree on accept / reject
            if any(r["status"] in ("timeout", "abort", "missing") for r in rs[1:]):
                verdicts["watchdog/abort (not compared)"] += 1
                continue
            a, b = rs[1]["status"] == "compile-error", rs[2]["status"] == "compile-error"
            verdicts["text-only:" + ("rejected" if a else "accepted")] += 1
            if a != b:
                failures.append({"prop": "C16", "kind": "entry-points-disagree-on-verdict", "class": "unclassified", "text": text,
                                 "what": "%s says %s, %s says %s" % (names[2], rs[2], names[1], rs[1])})
            continue
        if any(r["status"] in ("timeout", "abort", "missing") for r in rs):
            verdicts["watchdog/abort (not compared)"] += 1
            continue
        key = lambda r: (r["status"], r.get("kind")) if r["status"] != "compile-error" else ("compile-error", None)
        ks = [key(r) for r in rs]
        verdicts[str(ks[1])] += 1
        for k in (0, 2):
            if ks[k] != ks[1]:
                cls = "unclassified"
                pinned = results.get((i, 3)) or {"status": "missing"}
                if k == 0 and ks[0][0] == "solver-error" and key(pinned) == ks[1]:
                    # attribution: the same builder calls with the unused unbounded variables declared Real(0, 0) agree with the text
                    # the builder keeps declared-but-unused variables; an unused variable without finite bounds makes microlp
                    # fail on a model it solves without it (finding F19 of C05, seen through the builder)
                    used = set()
                    def walk(t):
                        if isinstance(t, dict):
                            for kk, vv in t.items():
                                if kk == "Var":
                                    used.add(vv)
                                else:
                                    walk(vv)
                        elif isinstance(t, list):
                            for vv in t:
                                walk(vv)
                    walk(c["cons"]); walk(c["obj"] if c["dir"] < 2 else None)
                    if any(j not in used and d["kind"] in (2, 3) and (d["lo"] is None or d["hi"] is None) for j, d in enumerate(c["decls"])):
                        cls = "builder-keeps-unused-unbounded-variable"
                failures.append({"prop": "C16", "kind": "entry-points-disagree-on-verdict", "class": cls, "text": text,
                                 "what": "%s says %s, %s says %s" % (names[k], rs[k], names[1], rs[1])})
        if ks[1][0] != "ok" or any(k[0] != "ok" for k in ks):
            continue
        # a `solve` model has no objective: the reported value is a constant of the entry point, not compared
        if c["dir"] < 2:
            for k in (0, 2):
                if not close(rs[k]["value"], rs[1]["value"]):
                    failures.append({"prop": "C16", "kind": "entry-points-disagree-on-optimal-value", "class": "unclassified", "text": text,
                                     "what": "%s: %r, %s: %r" % (names[k], rs[k]["value"], names[1], rs[1]["value"])})
        b = rs[0]
        for j, d in enumerate(c["decls"]):
            h, nm = b["by_handle"][j], b["by_name"][j]
            if h is None or nm is None or h != nm:
                failures.append({"prop": "C16", "kind": "handle-and-name-resolve-differently", "class": "unclassified", "text": text, "what": "%s: handle %r, name %r" % (d["name"], h, nm)})
                continue
            lo, hi = (0.0, 1.0) if d["kind"] == 0 else (d["lo"] if d["lo"] is not None else float("-inf"), d["hi"] if d["hi"] is not None else float("inf"))
            if h < lo - 1e-6 or h > hi + 1e-6 or (d["kind"] in (0, 1) and abs(h - round(h)) > 1e-6):
                failures.append({"prop": "C16", "kind": "builder-variable-outside-its-domain", "class": "unclassified", "text": text, "what": "%s = %r not in its declared domain" % (d["name"], h)})
        if c["dir"] < 2 and b.get("eval_objective") is not None and not close(b["eval_objective"], b["value"], 1e-5):
            failures.append({"prop": "C16", "kind": "eval-of-objective-differs-from-reported-value", "class": "unclassified", "text": text, "what": "eval %r vs value %r" % (b["eval_objective"], b["value"])})
        for kc, (l, r) in zip(c["cons"], b.get("eval_constraints", [])):
            if l is None or r is None:
                continue
            okc = (l >= 1 - 1e-6) if kc["assertion"] else ((l <= r + 1e-5) if kc["cmp"] == 0 else (l >= r - 1e-5) if kc["cmp"] == 1 else abs(l - r) <= 1e-5)
            if not okc:
                failures.append({"prop": "C16", "kind": "eval-at-solution-violates-a-constraint", "class": "unclassified", "text": text, "what": "constraint %s: lhs %r rhs %r" % (kc["name"], l, r)})
    new = C.triage_failures(ctx, failures, describe)
    fails, errors = ([], [])
    if ok:
        fails, errors = C.eval_cases(ctx, "tie", IMP, "c16", lines, fn="c16_failures", shard=300)
    if errors:
        ctx.broken.append("correspondence evaluation failed in Coq: %s" % errors[0][1][-400:])
    if fails:
        i = fails[0]
        mo = C.eval_term(ctx, IMP, "c16_out %s" % lines[i])
        ctx.broken.append("correspondence builder (to_exp via into_model, eval_expr via BuilderSolution::eval) vs Model.Builder broken on %d of %d expressions; first: `%s`; case %s; model says %s"
                          % (len(fails), len(lines), inputs[i][:300], lines[i][:400], " ".join(mo.split())[:400]))
        for i in fails[:3]:
            p = C.write_replay(ctx, "counterexample", {"failure": {"kind": "builder-expression-translated-or-evaluated-differently", "input": inputs[i], "case": lines[i][:1200]},
                                                        "what": "builder expression `%s`: into_model's tree or BuilderSolution::eval differs from the proved translation/evaluator" % inputs[i]})
            ctx.violations.append((p, False))
    # ---- call sequences: the state machine of ModelBuilder against Model.BuilderOps
    ops_lines = open(os.path.join(ctx.work, "ops.txt")).read().splitlines()
    ops_inputs = open(os.path.join(ctx.work, "ops_inputs.txt")).read().splitlines()
    ofails = []
    if ok:
        ofails, oerr = C.eval_cases(ctx, "tieops", IMP, "opscase", ops_lines, fn="ops_failures", shard=150)
        if oerr:
            ctx.broken.append("correspondence evaluation (call sequences) failed in Coq: %s" % oerr[0][1][-400:])
    if ofails:
        i = ofails[0]
        mo = C.eval_term(ctx, IMP, "ops_out %s" % ops_lines[i])
        ctx.broken.append("correspondence ModelBuilder call sequence -> into_model vs Model.BuilderOps broken on %d of %d sequences; first: %s; model says %s"
                          % (len(ofails), len(ops_lines), ops_inputs[i][:300], " ".join(mo.split())[:500]))
        for i in ofails[:3]:
            p = C.write_replay(ctx, "counterexample", {"failure": {"kind": "builder-call-sequence-builds-a-different-model", "input": ops_inputs[i], "case": ops_lines[i][:1500]},
                                                        "what": "ModelBuilder call sequence `%s`: into_model differs from the model the proved state machine builds" % ops_inputs[i][:300]})
            ctx.violations.append((p, False))
    cnt = rep["counters"]
    cov.update({
        "trusted_base": C.TRUSTED_BASE_COMMON + [
            "axioms (standard library, via Coq.Reals): " + (", ".join(cov.get("axioms_reported_by_Print_Assumptions", [])) or "none"),
            "harness: builds every case through the public builder API (operators, helper functions, methods, with/with_all in four call orders), its own text printer, a Solver that returns a fixed assignment (to observe BuilderSolution::eval)",
            "modelled, not verified: the entry points themselves (PipeRunner, RoocSolver, ModelBuilder::solve_with) are compared on the implementation; solver calls run under a 10 s watchdog and are skipped when it fires (microlp finding F18)"],
        "evaluations": len(lines) + cnt.get("cases", 0) + 3 * nsolve,
        "distinct_nontrivial": min(rep["distinct"], cnt.get("compiled.same_rows", 0)),
        "rule": "seeded models (affine / arithmetic with abs,min,max / logic / mixed; all variable kinds; named rows) expressed through the builder API, as text, through the staged pipes and the one-shot solver; "
                "every expression of every model + two extra expressions per model are compared with the Coq model (translated tree, value at 3 assignments); non-trivial = both front ends compile and the rows agree",
        "samples": rep["samples"][:8],
        "input_distribution": {k: v for k, v in cnt.items() if not k.startswith("failures.")},
        "verdicts_of_solved_models": dict(verdicts),
        "oracle_failures_unlisted": new,
        "correspondence_mismatches": len(fails),
    })
    return C.finish(ctx, "proof", cov, ["the translation/evaluation theorem is over exact reals; division by zero and empty min/max are 'undefined' in the model and IEEE specials in the builder's f64 evaluator",
                                        "agreement of the entry points is checked on generated models, not proved"])
