"""C18 - The compiler is total: it never panics or hangs."""
import json, re, os, sys, collections, subprocess, time
from . import common as C, solvers as S

STAGES = ["parse", "render", "format", "reparse_formatted", "type_check", "transform", "model_to_string", "linearize", "linear_to_string", "standardize", "solve"]


def describe(f):
    return "%s at stage %s: %s | input: %s" % (f.get("kind"), f.get("stage"), (f.get("message") or "")[:200], json.dumps(f.get("input") or "")[:400])


def nesting_time(ctx, binary):
    """parsing time must not explode with the nesting depth (the property quantifies up to depth 64)"""
    path = os.path.join(ctx.work, "nest.jsonl")
    depths = [8, 16, 32, 64, 128]
    with open(path, "w") as f:
        for d in depths:
            for body in ["(" * d + "x" + ")" * d, "-(" * d + "x" + ")" * d, "not " * d + "p", "abs { " * d + "x" + " }" * d, "A" + "[0]" * d, "x" + "_1" * d, "2" * 1 + "(x)" * d]:
                f.write(json.dumps({"text": "min %s\ns.t.\n x >= 1\nwhere\n let A = [1]\ndefine\n x as Real\n p as Boolean" % body, "stream": "nesting-%d" % d}) + "\n")
    n = sum(1 for _ in open(path))
    t0 = time.time()
    res = S.run_worker(binary, path, n, 2, call_timeout=6.0)
    return path, res, time.time() - t0


def run(ctx):
    ok, out = C.build_harness(["c18"])
    if not ok:
        ctx.broken.append("harness does not build against /repo: " + out[-800:])
        return C.finish(ctx, "proof", {"obligations": 0, "discharged": 0, "checker_cmd": "cargo build", "trusted_base": []}, [])
    cov = C.proof_step(ctx, "Props/C18.v", ["Proof/Totality.v", "Proof/LinFuel.v"])
    corpus = os.path.join(C.BUILD, "programs.jsonl")
    C.sh([sys.executable, os.path.join(C.VERIF, "tools", "extract_programs.py"), corpus], timeout=120)
    binary = os.path.join(C.TARGET, "debug", "c18")
    n = 3000 if ctx.quick() else 120000
    path = os.path.join(ctx.work, "inputs.jsonl")
    rc, out = C.sh([binary, "gen", str(ctx.seed), str(n), path, corpus], timeout=600)
    if rc != 0:
        ctx.broken.append("harness c18 gen failed: " + out[-400:])
        return C.finish(ctx, "proof", cov, [])
    inputs = [json.loads(l) for l in open(path)]
    results = S.run_worker(binary, path, len(inputs), 2, call_timeout=8.0)
    npath, nres, _ = nesting_time(ctx, binary)
    ninputs = [json.loads(l) for l in open(npath)]
    failures, reached, streams = [], collections.Counter(), collections.Counter()
    for inp, res in ((inputs, results), (ninputs, nres)):
        for i, it in enumerate(inp):
            streams[it["stream"].split("-")[0]] += 1
            for k in (0, 1):
                r = res.get((i, k))
                if r is None:
                    failures.append({"prop": "C18", "kind": "no-answer", "class": "unclassified", "stage": "?", "input": it["text"]})
                    continue
                if r.get("status") in ("timeout", "abort"):
                    # a product of a sum with many constant sums: Exp::flatten distributes every factor (finding F55)
                    cls = "product-of-constant-sums-distributed" if (r["status"] == "timeout" and k == 0 and re.search(r"\(\w+ \+ 1\)( \* \(1 \+ 1\)){16,}", it["text"])) else "unclassified"
                    failures.append({"prop": "C18", "kind": "hang" if r["status"] == "timeout" else "abort", "class": cls, "stage": "compile stages (parse..standardize)" if k == 0 else "solve", "input": it["text"],
                                     "message": "no answer within the watchdog limit" if r["status"] == "timeout" else "the process died (abort, stack overflow or out of memory)"})
                    continue
                for st, val in r.items():
                    if not isinstance(val, str):
                        continue
                    reached[st + ":" + val.split(":")[0].split(" ")[0]] += 1
                    if val.startswith("PANIC"):
                        failures.append({"prop": "C18", "kind": "panic", "class": "unclassified", "stage": st, "input": it["text"], "message": val})
    new = C.triage_failures(ctx, failures, describe)
    cov.update({
        "trusted_base": C.TRUSTED_BASE_COMMON + [
            "axioms: " + (", ".join(cov.get("axioms_reported_by_Print_Assumptions", [])) or "none (closed under the global context)"),
            "harness: catch_unwind around every stage, process-level watchdog (8 s per input for the compile stages, 8 s for the solver) restarting the worker after a hang or an abort",
            "modelled, not verified: panics, stack depth, allocation and wall-clock behaviour are runtime facts no Gallina model exhibits; the theorems cover the step-counter logic of the two non-structural loops and checked integer arithmetic",
            "solve is exercised only on models whose variables are all bounded and at most 12: microlp does not return on some models with free variables (finding F18, recorded under C05)"],
        "evaluations": len(inputs) + len(ninputs),
        "distinct_nontrivial": reached.get("transform:ok", 0) + reached.get("transform:error", 0),
        "rule": "repository programs; fixed adversarial inputs (integer extremes, huge ranges, empty aggregations, inverted bounds, 64-deep nesting of every recursive construct); mutated programs (1-3 token deletions / duplications / swaps / insertions, numeric extremes, 1-64 extra parentheses, 1-40 index levels, 1-60 name fragments); grammar-derived programs; raw noise (printable, multi-byte and control characters, token soup) up to 4 KiB; non-trivial = reaches the transformer",
        "input_distribution": dict(streams),
        "stage_outcomes": dict(reached),
        "nesting_depths_timed": [8, 16, 32, 64, 128],
        "oracle_failures_unlisted": new,
    })
    return C.finish(ctx, "proof", cov, ["totality itself is tested (with a watchdog), not proved: it is a runtime property; the theorems are about the termination logic and checked arithmetic of the modelled parts"])
