"""C06 - Data-driven constructs expand exactly."""
import json, os
from . import common as C

IMP = "From Rooc Require Import Base.XQ Model.Exp Model.Expand Tie.TieC06."


def describe(f):
    return "%s [%s]: %s | source: %s" % (f.get("kind"), f.get("class"), (f.get("difference") or f.get("error") or "")[:300], (f.get("input") or "").replace("\n", " | ")[:500])


def run(ctx):
    ok, out = C.build_harness(["c06"])
    if not ok:
        ctx.broken.append("harness does not build against /repo: " + out[-800:])
        return C.finish(ctx, "proof", {"obligations": 0, "discharged": 0, "checker_cmd": "cargo build", "trusted_base": []}, [])
    cov = C.proof_step(ctx, "Props/C06.v", ["Proof/XQFacts.v", "Proof/SemFacts.v", "Proof/ExpandFacts.v"])
    ok, out = C.coq_make(["Tie/TieC06.vo"])
    if not ok:
        ctx.broken.append("model/tie does not compile: " + out[-600:])
    n = 400 if ctx.quick() else 8000
    rc, out = C.sh([os.path.join(C.TARGET, "debug", "c06"), str(ctx.seed), str(n), ctx.work], timeout=6000)
    if rc != 0:
        ctx.broken.append("harness c06 failed: " + out[-600:])
        return C.finish(ctx, "proof", cov, [])
    rep = json.load(open(os.path.join(ctx.work, "report.json")))
    lines = open(os.path.join(ctx.work, "cases.txt")).read().splitlines()
    inputs = open(os.path.join(ctx.work, "inputs.txt")).read().splitlines()
    mine = [f for f in rep["oracle_failures"] if f.get("prop") == "C06"]
    new = C.triage_failures(ctx, mine, describe)
    fails, errors = ([], [])
    if ok:
        fails, errors = C.eval_cases(ctx, "tie", IMP, "c6", lines, fn="c6_failures", shard=40)
    if errors:
        ctx.broken.append("correspondence evaluation failed in Coq: %s" % errors[0][1][-400:])
    if fails:
        i = fails[0]
        mo = C.eval_term(ctx, IMP, "c6_out %s" % lines[i])
        ctx.broken.append("correspondence compiler expansion vs Model.Expand.expand_prog broken on %d of %d programs; first: `%s`; model says %s"
                          % (len(fails), len(lines), inputs[i][:600], " ".join(mo.split())[:900]))
        # the reference expander is what unrolling by hand means: a disagreement is a failing input of the property
        for i in fails[:3]:
            p = C.write_replay(ctx, "counterexample", {"failure": {"kind": "expansion-differs-from-reference-expander", "input": inputs[i].replace(" | ", "\n"), "case": lines[i][-1500:]},
                                                        "what": "the compiled model of this data-driven program differs from its reference expansion (order, names, range ends, folds or types)"})
            ctx.violations.append((p, False))
    cnt = rep["counters"]
    cov.update({
        "trusted_base": C.TRUSTED_BASE_COMMON + [
            "axioms (standard library, via Coq.Reals, only in the value theorems): " + (", ".join(cov.get("axioms_reported_by_Print_Assumptions", [])) or "none"),
            "harness: program generator over its own AST (mirrors Model.Expand), three printers (source text, hand-unrolled text from the harness's own evaluator, Gallina term)",
            "modelled, not verified: the fragment is ranges (both kinds, empty, data-dependent ends), 1- and 2-dimensional arrays incl. empty rows, enumerate, len, nodes/edges/neigh_edges of graphs with and without weights, tuple destructuring incl. `_` and short tuples, "
            "nested iteration with inner iterators depending on outer variables, scoped and list forms of sum/prod/min/max/avg/all/any/xor, one- and two-index variable names incl. computed indexes, constraints and declarations with `for`; "
            "zip, set functions, strings as data and shadowing (rejected by the compiler) are not generated"],
        "evaluations": len(lines) + cnt.get("unrolled.compared", 0),
        "distinct_nontrivial": min(rep["distinct"], cnt.get("nontrivial.expands_to_two_or_more_constraints", 0)),
        "rule": "seeded data (arrays of 0-4 whole numbers, decimals, 1-3 rows of 0-3 entries, graphs of 1-4 nodes with random edges and optional weights, n in 0..4) and programs drawn from 12 scoped-expression shapes, 4 block shapes, 3 logic shapes, 7 constraint shapes, 6 declaration families; non-trivial = expands to two or more constraints",
        "samples": rep["samples"][:4],
        "input_distribution": {k: v for k, v in cnt.items() if not k.startswith("failures.")},
        "oracle_failures_unlisted": new,
        "correspondence_mismatches": len(fails),
    })
    return C.finish(ctx, "proof", cov, ["theorems are about the reference expander; its equality with the compiler's expansion is checked per program, not proved",
                                        "equality with the hand-unrolled TEXT is checked on the implementation at the level of linear models (rows, names, coefficients, right-hand sides, variable order); empty min/max/avg/logic blocks have no hand-written form and are compared with the expander only"])
