"""C17 - LP export denotes the same model."""
import json, os, re
from fractions import Fraction
from . import common as C

IMP = "From Rooc Require Import Base.XQ Model.Exp Model.Bounds Model.Linearize Model.LpFormat Tie.TieC17."
NUM = re.compile(r"^[+-]?\d+(\.\d+)?([eE][+-]?\d+)?$")


def tokens(text):
    out = []
    for line in text.split("\n"):
        if not line.strip():
            continue
        for piece in line.split():
            if NUM.match(piece):
                f = Fraction(float(piece))
                n = f.numerator
                out.append("LNum (%s # %d)%%Q" % (("(%d)" % n) if n < 0 else str(n), f.denominator))
            elif piece.endswith(":") and len(piece) > 1:
                out.append('LWord "%s"' % piece[:-1].replace('"', '""'))
                out.append('LWord ":"')
            else:
                out.append('LWord "%s"' % piece.replace('"', '""'))
        out.append("LNL")
    return "[" + "; ".join(out) + "]"


def row_names(text):
    names, on = [], False
    for line in text.split("\n"):
        s = line.strip()
        if s == "Subject To":
            on = True
            continue
        if s in ("Bounds", "Binary", "General", "End"):
            on = False
        if on and ":" in s:
            names.append(s.split(":")[0])
    return names


def run(ctx):
    ok, out = C.build_harness(["c17"])
    if not ok:
        ctx.broken.append("harness does not build against /repo: " + out[-800:])
        return C.finish(ctx, "proof", {"obligations": 0, "discharged": 0, "checker_cmd": "cargo build", "trusted_base": []}, [])
    cov = C.proof_step(ctx, "Props/C17.v", ["Proof/LpRoundtrip.v", "Proof/LpWhole.v"])
    ok, out = C.coq_make(["Tie/TieC17.vo"])
    if not ok:
        ctx.broken.append("model/tie does not compile: " + out[-600:])
    n = 2500 if ctx.quick() else 50000
    path = os.path.join(ctx.work, "models.jsonl")
    rc, out = C.sh([os.path.join(C.TARGET, "debug", "c17"), str(ctx.seed), str(n), path], timeout=3000)
    if rc != 0:
        ctx.broken.append("harness c17 failed: " + out[-600:])
        return C.finish(ctx, "proof", cov, [])
    ms = [json.loads(l) for l in open(path)]
    fails_oracle = []
    for m in ms:
        names = row_names(m["lp"])
        if len(set(names)) != len(names):
            fails_oracle.append({"kind": "duplicate-row-name-in-lp-export", "class": "unclassified", "input": m["text"], "names": names})
    lines = ["(mkC17 %s %s)" % (m["coq"], tokens(m["lp"])) for m in ms]
    fails, errors = ([], [])
    if ok:
        fails, errors = C.eval_cases(ctx, "tie", IMP, "c17", lines, fn="c17_failures", shard=250)
        unmet, e2 = C.eval_cases(ctx, "tiepre", IMP, "c17", lines, fn="c17_premise_unmet", shard=250)
        errors += e2
        cov["roundtrip_theorem_premise_unmet_on_tied_models"] = len(unmet)
    if errors:
        ctx.broken.append("correspondence evaluation failed in Coq: %s" % errors[0][1][-400:])
    if fails:
        # search for a concrete failing input: the verified independent reader, run on the real text of the models whose
        # tokens differ, either gives back the model (a harmless change of layout) or shows what the text denotes instead
        sub = fails[:200]
        rd, e3 = C.eval_cases(ctx, "tierd", IMP, "c17", [lines[i] for i in sub], fn="c17_reader_failures", shard=50)
        if not e3:
            for j in rd[:5]:
                i = sub[j]
                fails_oracle.append({"kind": "lp-text-read-back-differs-from-model", "class": "unclassified", "input": ms[i]["text"], "names": [], "lp": ms[i]["lp"][:1500]})
        i = fails[0]
        mo = C.eval_term(ctx, IMP, "c17_out %s" % lines[i])
        ctx.broken.append("correspondence to_lp_format (tokenised) vs Model.LpFormat.lp_write / independent reader broken on %d of %d models; first: `%s`; LP text: %s ; model says %s"
                          % (len(fails), len(lines), ms[i]["text"][:300], ms[i]["lp"].replace("\n", " | ")[:400], " ".join(mo.split())[:500]))
    new = C.triage_failures(ctx, fails_oracle, lambda f: "%s: `%s` names %s%s" % (f["kind"], f["input"][:200], f["names"], (" LP text: " + f["lp"].replace("\n", " | ")[:300]) if f.get("lp") else ""))
    cov.update({
        "trusted_base": C.TRUSTED_BASE_COMMON + [
            "axioms: " + (", ".join(cov.get("axioms_reported_by_Print_Assumptions", [])) or "none"),
            "tokeniser (Python, checks/c17.py): whitespace split, decimal text -> f64 -> exact rational; f64 <-> decimal text is trusted, not modelled"],
        "evaluations": len(lines),
        "distinct_nontrivial": len(set(m["lp"] for m in ms if "Bounds" in m["lp"] or "Binary" in m["lp"] or "General" in m["lp"])),
        "rule": "seeded linear models (all four variable kinds incl. free, half-bounded and negative bounds; `$`-prefixed and indexed names; <=, >=, =, < rows; user-named rows incl. names of the form c<k>; zero rows; tiny/huge coefficients; offsets; min/max/satisfy) + corpus; non-trivial = has a Bounds/Binary/General section; distinct by LP text",
        "samples": [{"model": m["text"], "lp": m["lp"]} for m in ms[:: max(1, len(ms) // 5)]][:6],
        "oracle_failures_unlisted": new,
        "correspondence_mismatches": len(fails),
    })
    return C.finish(ctx, "proof", cov, ["theorem hypothesis lp_okb: variable names that are neither relation, sign nor section words, Real / NonNegativeReal bounds that are not NaN; evaluated on every tied model (count in the coverage); "
                                        "the tokeniser (whitespace split, decimal text <-> f64) is outside the theorem"])
