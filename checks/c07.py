"""C07 - Derived variable ranges are sound."""
import json, os
from . import common as C, core

PROOF_FILES = ["Proof/XQFacts.v", "Proof/SemFacts.v", "Proof/ExpInd.v", "Proof/AListFacts.v", "Proof/IntervalSound.v",
               "Proof/BoundsOfSound.v", "Proof/TightenSound.v", "Proof/AffineSound.v", "Proof/PropagateSound.v",
               "Proof/PublishSound.v", "Proof/LinFrame.v", "Proof/WellFormed.v", "Proof/PublishedCompile.v", "Proof/ShrinkSound.v"]
TIE = "From Rooc Require Import Base.XQ Model.Exp Model.Bounds Tie.TieC07."


def run(ctx):
    cov = C.proof_step(ctx, "Props/C07.v", PROOF_FILES)
    res = core.run_core(ctx, {"C07"}, quick_n=1200, thorough_n=20000)
    if res is None:
        return C.finish(ctx, "proof", cov, [])
    rep, cov2 = res
    # --- dedicated stream: the analyser itself through the hook, several step limits, bounds_of on probes
    work7 = os.path.join(ctx.work, "c07"); os.makedirs(work7, exist_ok=True)
    n = 1500 if ctx.quick() else 25000
    rc, out = C.sh([os.path.join(C.TARGET, "debug", "c07"), str(ctx.seed), str(n), "100" if ctx.quick() else "250", work7], timeout=6000)
    if rc != 0:
        ctx.broken.append("harness c07 failed: " + out[-600:])
        return C.finish(ctx, "proof", cov, [])
    rep7 = json.load(open(os.path.join(work7, "report.json")))
    lines = open(os.path.join(work7, "cases.txt")).read().splitlines()
    inputs = open(os.path.join(work7, "inputs.txt")).read().splitlines()
    fails, errors = C.eval_cases(ctx, "tie7", TIE, "bcase", lines, fn="bfailures", shard=60, timeout=45, single_timeout=15)
    if errors:
        ctx.broken.append("correspondence evaluation failed in Coq: %s" % errors[0][1][-400:])
    # model evaluations that ran out of time (exact rationals on slowly converging propagation): unknown, tolerated while rare
    timed7 = sorted(set(getattr(ctx, "eval_timeouts", {}).get("tie7", [])))
    if timed7 and len(timed7) <= max(2, (2 * len(lines)) // 1000):
        bad_inputs = set(f.get("input") for f in rep7["oracle_failures"] if f.get("input"))
        if not any(inputs[i] in bad_inputs for i in timed7):
            fails = [i for i in fails if i not in set(timed7)]
        else:
            timed7 = []
    elif timed7:
        timed7 = []
    soft, fails = C.split_numerical_ties(fails, inputs, rep7["oracle_failures"])
    if fails:
        i = fails[0]
        mo = C.eval_term(ctx, TIE, "bmodel_out %s" % lines[i])
        ctx.broken.append("correspondence BoundsAnalyzer (hook) vs Model.Bounds.analyze_with/bounds_of broken on %d of %d cases; first: `%s`; model says %s"
                          % (len(fails), len(lines), inputs[i][:500], " ".join(mo.split())[:700]))
    new7 = C.triage_failures(ctx, rep7["oracle_failures"], core.describe)
    cov.update(cov2)
    cov["evaluations"] = cov2["evaluations"] + len(lines)
    cov["distinct_nontrivial"] = cov2["distinct_nontrivial"] + min(rep7["distinct"], rep7["counters"].get("nontrivial.box_tightened", 0))
    cov["analyser_stream"] = {"cases": len(lines), "mismatches": len(fails), "numerical_ties_accepted": [inputs[i][:300] for i in soft], "model_evaluation_timeouts_tolerated": [inputs[i][:300] for i in timed7], "counters": rep7["counters"], "oracle_failures_unlisted": new7, "samples": rep7["samples"][:3]}
    cov["trusted_base"] = core.trusted(cov)
    return C.finish(ctx, "proof", cov, [
        "theorems are over exact rational interval arithmetic; a 1-ulp over-tightening by f64 rounding of 1.0/divisor is outside the model (DESIGN.md C07)",
        "C07_published_sound assumes i32-range integer declarations (wf_domain), which the parser enforces"])
