"""C13 - Standard-form conversion preserves the problem."""
from . import common as C, simplex

def run(ctx):
    cov = C.proof_step(ctx, "Props/C13.v", ["Proof/StandardizeSound.v", "Proof/PivotSound.v"])
    res = simplex.run_simplex(ctx, {"C13"})
    if res is None:
        return C.finish(ctx, "proof", cov, [])
    rep, cov2 = res
    cov.update(cov2)
    cov["trusted_base"] = simplex.trusted(cov)
    return C.finish(ctx, "proof", cov, [
        "PARTIAL: proved are the row-level facts (rhs sign normalisation keeps the equation and yields b >= 0, slack/surplus, free-variable split, objective flip); "
        "the end-to-end transfer theorem over the positional column bookkeeping is not proved - it is tied structurally (exact equality of the whole standard form on every generated model) "
        "and evaluated on the implementation at grid points in both directions"])
