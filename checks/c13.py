"""C13 - Standard-form conversion preserves the problem."""
from . import common as C, simplex

def run(ctx):
    cov = C.proof_step(ctx, "Props/C13.v", ["Proof/StandardizeSound.v", "Proof/StandardizeEquiv.v", "Proof/StandardizeBack.v", "Proof/PivotSound.v"])
    res = simplex.run_simplex(ctx, {"C13"})
    if res is None:
        return C.finish(ctx, "proof", cov, [])
    rep, cov2 = res
    cov.update(cov2)
    cov["trusted_base"] = simplex.trusted(cov)
    return C.finish(ctx, "proof", cov, [
        "PARTIAL: the backward direction is proved end to end over to_standard_form (C13_backward: a non-negative solution of the standard form, read back by name, satisfies every row, "
        "every domain and has the reported objective value); the forward direction (every feasible point has a standard-form preimage) is proved row by row only "
        "(rhs sign normalisation, slack/surplus, free-variable split, objective flip) and is evaluated on the implementation at grid points on every run; "
        "the whole conversion is tied structurally (exact equality of the whole standard form on every generated model)"])
