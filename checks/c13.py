"""C13 - Standard-form conversion preserves the problem."""
from . import common as C, simplex

def run(ctx):
    cov = C.proof_step(ctx, "Props/C13.v", ["Proof/StandardizeSound.v", "Proof/StandardizeEquiv.v", "Proof/StandardizeBack.v", "Proof/PivotSound.v"])
    res = simplex.run_simplex(ctx, {"C13"})
    if res is None:
        return C.finish(ctx, "proof", cov, [])
    rep, cov2 = res
    cov.update(cov2)
    cov["trusted_base"] = simplex.trusted(cov)
    return C.finish(ctx, "proof", cov, [
        "both directions are proved end to end over to_standard_form (C13_backward: a non-negative solution of the standard form, read back by name, satisfies every row, "
        "every domain and has the reported objective value; C13_forward: every point satisfying rows and domains is the read-back of a non-negative standard-form solution) "
        "under the boolean premise lin_okb and, for the forward direction, pairwise distinct column names - both premises are evaluated on every tied implementation output and counted in the coverage; "
        "f64 rounding in the implementation's conversion is not modelled (outputs are compared with tolerance 1e-9)"])
