"""C08 - Compiled linear models are well-formed; no guessed or non-finite constants."""
from . import common as C, core

PROOF_FILES = ["Proof/AListFacts.v", "Proof/LinFrame.v", "Proof/WellFormed.v", "Proof/RowNames.v"]


def run(ctx):
    cov = C.proof_step(ctx, "Props/C08.v", PROOF_FILES)
    res = core.run_core(ctx, {"C08"})
    if res is None:
        return C.finish(ctx, "proof", cov, [])
    rep, cov2 = res
    cov.update(cov2)
    cov["trusted_base"] = core.trusted(cov)
    return C.finish(ctx, "proof", cov, [
        "proved for all models: sortedness, duplicate-freedom, domain key set, coefficient counts, presence of used variables, freshness of auxiliary names",
        "checked on every implementation output (not yet proved): finiteness of coefficients, uniqueness of row names, well-formed published ranges, the missing-bounds error"])
