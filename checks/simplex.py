"""Shared runner for C13 (standard form) and C14 (simplex steps): the c13 harness + TieC13."""
import json, os
from . import common as C

IMP = "From Rooc Require Import Base.XQ Model.Exp Model.Bounds Model.Linearize Model.Standardize Model.Tableau Tie.TieC13."


def describe(f):
    return "%s: `%s`%s" % (f.get("kind"), (f.get("input") or "")[:300], (" (" + str(f.get("what")) + ")") if f.get("what") else "")


def run_simplex(ctx, props):
    ok, out = C.build_harness(["c13"])
    if not ok:
        ctx.broken.append("harness does not build against /repo: " + out[-800:])
        return None
    ok, out = C.coq_make(["Tie/TieC13.vo"])
    if not ok:
        ctx.broken.append("model/tie does not compile: " + out[-700:])
    n = 2500 if ctx.quick() else 60000
    rc, out = C.sh([os.path.join(C.TARGET, "debug", "c13"), str(ctx.seed), str(n), ctx.work], timeout=6000)
    if rc != 0:
        ctx.broken.append("harness c13 failed: " + out[-600:])
        return None
    rep = json.load(open(os.path.join(ctx.work, "report.json")))
    lines = open(os.path.join(ctx.work, "cases.txt")).read().splitlines()
    inputs = open(os.path.join(ctx.work, "inputs.txt")).read().splitlines()
    fails, soft, errors = [], [], []
    if ok:
        fails, errors = C.eval_cases(ctx, "tie", IMP, "tcase", lines, fn="tfailures", shard=100)
        soft, e2 = C.eval_cases(ctx, "tiesoft", IMP, "tcase", lines, fn="tsoft", shard=100)
        errors += e2
        unmet, e3 = C.eval_cases(ctx, "tiepre", IMP, "tcase", lines, fn="tpremises_unmet", shard=100)
        errors += e3
    else:
        unmet = []
    if errors:
        ctx.broken.append("correspondence evaluation failed in Coq: %s" % errors[0][1][-400:])
    if fails:
        i = fails[0]
        mo = C.eval_term(ctx, IMP, "tmodel_out %s" % lines[i])
        ctx.broken.append("correspondence to_standard_form / pivot steps vs Model.Standardize/Model.Tableau broken on %d of %d models; first: `%s`; model says %s"
                          % (len(fails), len(lines), inputs[i][:400], " ".join(mo.split())[:600]))
    # a start tableau that differs only by phase-1 pivot choices is harmless iff the implementation's own
    # start satisfies the invariants (checked by the oracle on every case); more than a few percent is suspicious
    if len(soft) > max(20, len(lines) // 12):
        ctx.broken.append("two-phase start tableau differs from the model on %d of %d models (expected: a handful, caused by f64 noise in phase-1 ties)" % (len(soft), len(lines)))
    mine = [f for f in rep["oracle_failures"] if f.get("prop") in props]
    # finding F59: the tableau compares with an absolute tolerance of 1e-5; a model that contains a non-zero magnitude below it
    # (a cost of 5e-6, a right-hand side of 9e-6) is outside what those comparisons can tell apart
    import re as _re
    for f in mine:
        if f.get("class") == "unclassified" and f.get("kind") in ("step-invariant-broken", "stopped-at-non-optimal-point"):
            mags = [abs(float(x)) for x in _re.findall(r"(?<![A-Za-z_$])\d+\.?\d*(?:e-?\d+)?", f.get("input", ""))]
            if any(0.0 < v < 1e-5 for v in mags):
                f["class"] = "magnitude-below-tableau-tolerance-1e-5"
    new = C.triage_failures(ctx, mine, describe)
    cnt = rep["counters"]
    cov = {
        "evaluations": len(lines),
        "distinct_nontrivial": min(rep["distinct"], cnt.get("nontrivial.pivots", 0) + cnt.get("tableau.err.TInfeasible", 0)),
        "rule": "seeded small continuous linear models (1-3 variables: free, non-negative, bounded, half-bounded; 0-3 rows <=,>=,= with any rhs sign and zero coefficients; min/max) + corpus (Klee-Minty, Beale's cycling example, redundant equalities, tiny negative rhs); non-trivial = the solve performed at least one pivot or phase 1 proved infeasibility; distinct by hash of (model, outputs)",
        "samples": rep["samples"],
        "input_distribution": {k: v for k, v in cnt.items() if k.startswith("std.") or k.startswith("tableau.") or k.startswith("solve.")},
        "pivot_steps_replayed_in_model": cnt.get("c14.steps", 0),
        "two_phase_start_differs_by_pivot_choice": len(soft),
        "transfer_theorem_premises_unmet_on_impl_output": len(unmet),
        "transfer_theorem_premises": "lin_okb of the input model and pairwise distinct column names of the implementation's standard form, evaluated in Coq on every tied case",
        "grid_points_transfer_checked_on_impl": cnt.get("c13.points", 0),
        "optimality_checked_against_vertex_enumeration": cnt.get("c14.optimality_checked", 0),
        "unbounded_reports_checked_by_ray_certificate": cnt.get("c14.unbounded_checked", 0),
        "oracle_failures_for_this_property": len(mine),
        "oracle_failures_unlisted": new,
        "correspondence_mismatches": len(fails),
    }
    return rep, cov


def trusted(cov):
    return C.TRUSTED_BASE_COMMON + [
        "axioms (standard library): " + (", ".join(cov.get("axioms_reported_by_Print_Assumptions", [])) or "none"),
        "guarded hooks: StandardLinearModel::verif_parts, SimplexStep::verif_parts (read-only accessors)",
        "modelled, not verified: f64 rounding; each observed pivot is replayed in the model from the implementation's own pre-state, so rounding noise cannot accumulate; "
        "the two-phase start tableau is compared exactly, and when it differs only by phase-1 pivot choices the implementation's start is validated by invariants instead",
        "failing-input search (untrusted helpers): vertex enumeration for optimality, recession-ray check for unbounded reports, grid transfer test",
    ]
