"""C05 - Solver verdicts and optimal values are correct."""
import json, os
from fractions import Fraction
from . import common as C, solvers as S

PROOF_FILES = ["Cert/LP.v"]
SIMPLEX_BASED = {"microlp_real", "slow_simplex"}


def compare(models, results, truths):
    """yields failure dicts"""
    for i, m in enumerate(models):
        code, tval = truths[i]
        answers = {}
        for k, name in enumerate(S.SOLVERS):
            r = results.get((i, k))
            if r is None:
                continue
            st = r.get("status")
            if st in ("timeout", "abort", "panic"):
                yield {"kind": "solver-" + ("hang" if st == "timeout" else st), "solver": name, "input": m["text"], "model_kind": m["kind"],
                       "class": "hang-with-free-variable" if (st == "timeout" and any(t["k"] == "Real" and t["lo"] == "-inf" for t in m["types"]) and name in ("milp", "auto", "microlp_real")) else "unclassified"}
                continue
            if st == "err" and r["kind"] in ("InvalidDomain", "UnimplementedOpt", "UnavailableCmp"):
                continue   # the solver declines this class of model: not a verdict
            verdict = ("opt", S.fl(r["value"])) if st == "ok" else (r["kind"], None)
            answers[name] = verdict
            if st == "err" and r["kind"] not in ("Infeasible", "Unbounded"):
                if name in SIMPLEX_BASED:
                    yield {"kind": "no-verdict-through-dedicated-error-kind", "solver": name, "reported": r["kind"], "message": r.get("message", "")[:120],
                           "input": m["text"], "certified": code, "class": "unclassified"}
                continue
            if code == 0:
                continue
            truth = {1: "opt", 2: "Infeasible", 3: "Unbounded"}[code]
            if verdict[0] != truth:
                has_free = any(t["k"] == "Real" and t["lo"] == "-inf" and t["hi"] == "inf" for t in m["types"])
                cls = "unclassified"
                if name == "clarabel" and verdict[0] == "Unbounded" and truth == "Infeasible":
                    cls = "clarabel-dual-infeasible-on-infeasible-primal"
                if name in ("milp", "auto", "microlp_real") and verdict[0] == "Unbounded" and truth == "opt" and has_free:
                    cls = "microlp-unbounded-with-free-variable"
                if name == "clarabel" and verdict[0] == "opt" and truth == "Unbounded" and abs(verdict[1]) >= 1e12:
                    cls = "clarabel-solved-with-astronomic-values-on-unbounded-model"
                if name in ("milp", "auto", "microlp_real") and verdict[0] == "Infeasible" and truth == "opt" and has_free:
                    cls = "microlp-infeasible-with-free-variable"
                if name == "slow_simplex" and verdict[0] == "opt" and truth == "Infeasible" and 0.0 < S.max_violation(m, r)[0] <= 1.5e-5:
                    cls = "tableau-feasibility-tolerance-1e-5"
                yield {"kind": "wrong-verdict", "solver": name, "reported": verdict[0], "certified": truth, "certified_value": str(tval) if tval is not None else None,
                       "input": m["text"], "class": cls}
            elif truth == "opt" and m["dir"] != "sat":
                if not S.close(verdict[1], float(tval)):
                    yield {"kind": "wrong-optimal-value", "solver": name, "reported": verdict[1], "certified_value": str(tval), "input": m["text"], "class": "unclassified"}
        # all solvers that answer agree with each other (also where no certificate exists)
        vs = [(n, v) for n, v in answers.items() if v[0] in ("opt", "Infeasible", "Unbounded")]
        if code == 0 and len(set(v[0] for _, v in vs)) > 1:
            yield {"kind": "solvers-disagree", "answers": {n: v[0] for n, v in vs}, "input": m["text"], "class": "uncertified-disagreement"}


def describe(f):
    return "%s: %s on `%s` (reported %s, certified %s)" % (f.get("kind"), f.get("solver"), f.get("input", "")[:200], f.get("reported"), f.get("certified"))


def run(ctx):
    ok, out = C.build_harness(["c05"])
    if not ok:
        ctx.broken.append("harness does not build against /repo: " + out[-800:])
        return C.finish(ctx, "translation_validation", {"programs": 0, "disagreements_checked": 0, "samples": []}, [])
    cov = C.proof_step(ctx, "Props/C05.v", PROOF_FILES)
    ok, out = C.coq_make(["Cert/Bridge.vo"])
    if not ok:
        ctx.broken.append("certificate checker does not compile: " + out[-600:])
        return C.finish(ctx, "translation_validation", cov, [])
    n = 1600 if ctx.quick() else 30000
    path, models = S.generate(ctx, n)
    results = S.run_worker(os.path.join(C.TARGET, "debug", "c05"), path, len(models), len(S.SOLVERS))
    truths, certs = S.certify(ctx, path, models)
    fails = list(compare(models, results, truths))
    new = C.triage_failures(ctx, fails, describe)
    import collections
    cnt = collections.Counter(t[0] for t in truths)
    samples = []
    for i in range(0, len(models), max(1, len(models) // 6)):
        samples.append({"model": models[i]["text"], "certificate": certs[i]["cert"][:200], "certified": {0: "uncertified", 1: "optimal " + str(truths[i][1]), 2: "infeasible", 3: "unbounded"}[truths[i][0]],
                        "solver_answers": {S.SOLVERS[k]: (results.get((i, k)) or {}).get("value", (results.get((i, k)) or {}).get("kind", (results.get((i, k)) or {}).get("status"))) for k in range(len(S.SOLVERS))}})
    cov.update({
        "programs": len(models),
        "disagreements_checked": len(fails),
        "samples": samples[:8],
        "solver_calls": len(results),
        "certified": {"optimal": cnt[1], "infeasible": cnt[2], "unbounded": cnt[3], "uncertified": cnt[0]},
        "model_kinds": dict(collections.Counter(m["kind"] for m in models)),
        "timeouts": sum(1 for r in results.values() if r.get("status") == "timeout"),
        "failures_unlisted": new,
        "trusted_base": C.TRUSTED_BASE_COMMON[:1] + [
            "Cert/LP.v: certificate checkers proved sound over Q (axiom-free); Cert/Bridge.v: translation of a linear model to the LP (bounds as rows) and exhaustive enumeration of all-integer boxes (executed by vm_compute; its soundness is by inspection, not yet proved)",
            "untrusted: z3 4.8.12 (exact LRA) as certificate producer via tools/exactlp.py - a wrong certificate is rejected by the checker",
            "glue: harness model generator and JSON/Gallina printers, Python comparison of solver answers with certified verdicts (1e-6 relative)",
            "not modelled: microlp, Clarabel, good_lp (external crates) - their outputs are validated, never proved"],
    })
    return C.finish(ctx, "translation_validation", cov, [
        "quantifier over models is explored (seeded generator), not proved: the code under test is an external floating-point solver",
        "mixed integer/continuous models are certified only when their LP relaxation is infeasible; otherwise solvers are compared with each other"])
