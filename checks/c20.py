"""C20 - Shadow prices are the sensitivities of the optimum."""
import json, os, re, collections
from fractions import Fraction
from . import common as C, solvers as S

IMP = "From Rooc Require Import Base.XQ Model.Exp Model.Bounds Model.Linearize Cert.LP Cert.Bridge Cert.Sensitivity Cert.SensBridge."


def describe(f):
    return "%s: row `%s` of `%s` (reported %s, certified slope %s)" % (f.get("kind"), f.get("row"), f.get("input", "")[:220], f.get("reported"), f.get("certified"))


def run(ctx):
    ok, out = C.build_harness(["c05"])
    if not ok:
        ctx.broken.append("harness does not build against /repo: " + out[-800:])
        return C.finish(ctx, "translation_validation", {"programs": 0, "disagreements_checked": 0, "samples": []}, [])
    cov = C.proof_step(ctx, "Props/C20.v", ["Cert/Sensitivity.v", "Cert/LP.v"])
    ok, out = C.coq_make(["Cert/SensBridge.vo"])
    if not ok:
        ctx.broken.append("sensitivity checker does not compile: " + out[-600:])
        return C.finish(ctx, "translation_validation", cov, [])
    n = 500 if ctx.quick() else 12000
    path, models = S.generate(ctx, n, kind="shadow", name="shadow")
    results = S.run_worker(os.path.join(C.TARGET, "debug", "c05"), path, len(models), len(S.SOLVERS))
    sens_path = os.path.join(ctx.work, "sens.jsonl")
    rc, out = C.sh(["python3-vt", os.path.join(C.VERIF, "tools", "exactlp.py"), "--sens", path, sens_path], timeout=3000)
    if rc != 0:
        ctx.broken.append("exactlp --sens failed: " + out[-400:])
        return C.finish(ctx, "translation_validation", cov, [])
    sens = [json.loads(l) for l in open(sens_path)]
    lines, meta = [], []
    for m, s in zip(models, sens):
        if s.get("claim") != "opt":
            continue
        for r in s["rows"]:
            lines.append("(mkLSens %s %s %s %d%%nat %s %s %s)" % (m["coq"], s["x"], s["y"], r["row"], r["delta"], r["xp"], r["xm"]))
            meta.append((m, r))
    # evaluate the certificates in Coq
    d = os.path.join(ctx.work, "sens"); os.makedirs(d, exist_ok=True)
    slopes = []
    shard = 150
    jobs = []
    for k in range(0, len(lines), shard):
        p = os.path.join(d, "t%05d.v" % (k // shard))
        with open(p, "w") as f:
            f.write("From Coq Require Import QArith ZArith List String.\n%s\nImport ListNotations.\nOpen Scope string_scope.\nOpen Scope Q_scope.\n"
                    "Definition cases : list lsens := [\n%s\n].\nEval vm_compute in (lsens_codes cases).\n" % (IMP, ";\n".join(lines[k:k + shard])))
        jobs.append((p, 900))
    from concurrent.futures import ThreadPoolExecutor
    with ThreadPoolExecutor(max_workers=16) as ex:
        outs = list(ex.map(C._run_shard, jobs))
    for (rc, out), (p, _) in zip(outs, jobs):
        if rc != 0:
            ctx.broken.append("sensitivity certificate checking failed in Coq: " + out[-500:])
            return C.finish(ctx, "translation_validation", cov, [])
        body = out[out.index("="):]
        nums = [int(x) for x in re.findall(r"-?\d+", body.split(": list")[0])]
        for j in range(0, len(nums), 3):
            code, a, b = nums[j:j + 3]
            slopes.append(Fraction(a, b) if code == 1 else None)
    fails = []
    checked = 0
    CL = S.SOLVERS.index("clarabel")
    seen_models = set()
    for (m, r), slope in zip(meta, slopes):
        i = m["id"]
        res = results.get((i, CL)) or {}
        if res.get("status") != "ok":
            continue
        shadow = dict(res.get("shadow", []))
        if i not in seen_models:
            seen_models.add(i)
            named = set(row["name"] for row in m["rows"] if row["name"])
            if set(shadow) - named:
                fails.append({"kind": "shadow-price-for-unnamed-or-unknown-row", "input": m["text"], "row": sorted(set(shadow) - named), "class": "unclassified"})
            if named - set(shadow):
                fails.append({"kind": "named-row-without-shadow-price", "input": m["text"], "row": sorted(named - set(shadow)), "class": "unclassified"})
        if slope is None:
            continue   # not a unique non-degenerate optimum in this row (no two-sided certificate): outside the property
        dup = sum(1 for row in m["rows"] if row["name"] == r["name"])
        if dup != 1 or r["name"] not in shadow:
            continue
        checked += 1
        rep = float(shadow[r["name"]])
        # an interior-point dual is accurate relative to the scale of the costs: 1e-5 of max(1, |slope|, largest cost)
        cmax = max([abs(float(c)) for c in m.get("obj", [])] + [0.0])
        if abs(rep - float(slope)) > 1e-5 * max(1.0, abs(float(slope)), cmax):
            fails.append({"kind": "shadow-price-is-not-the-sensitivity", "input": m["text"], "row": r["name"], "reported": rep, "certified": str(slope), "class": "unclassified"})
    new = C.triage_failures(ctx, fails, describe)
    samples = []
    for (m, r), slope in list(zip(meta, slopes))[:: max(1, len(meta) // 8)]:
        res = results.get((m["id"], CL)) or {}
        samples.append({"model": m["text"], "row": r["name"], "certified_slope": str(slope) if slope is not None else "no two-sided certificate", "clarabel_shadow_price": dict(res.get("shadow", [])).get(r["name"])})
    cov.update({
        "programs": len(models),
        "disagreements_checked": len(fails),
        "samples": samples[:8],
        "rows_with_two_sided_certificate": sum(1 for s in slopes if s is not None),
        "shadow_prices_compared": checked,
        "directions": dict(collections.Counter(m["dir"] for m in models)),
        "relations": dict(collections.Counter(row["cmp"] for m in models for row in m["rows"])),
        "failures_unlisted": new,
        "trusted_base": C.TRUSTED_BASE_COMMON[:1] + [
            "Cert/Sensitivity.v sensitivity_cert_sound (axiom-free, over Q): one dual vector certifying the optimum for b and for b +- delta fixes the slope of the optimal value",
            "untrusted: z3 (exact LRA) via tools/exactlp.py --sens; glue: JSON/Gallina printers, Python comparison (1e-5 of max(1, |slope|, largest objective coefficient))",
            "not modelled: Clarabel / good_lp; only solve_real_lp_problem_clarabel reports duals among the built-in solvers"],
    })
    return C.finish(ctx, "translation_validation", cov, ["uniqueness/non-degeneracy is established per row by the two-sided certificate; rows without one are outside the property and are skipped (counted)"])
