"""Shared runner for the compiler-core properties (C01, C02, C07, C08): the c01 harness + the compile tie."""
import json, os
from . import common as C

IMPORTS = "From Rooc Require Import Base.XQ Model.Exp Model.Bounds Model.Linearize Tie.TieC01."


def describe(f):
    return "%s: `%s` at %s%s" % (f.get("kind"), (f.get("input") or "")[:300], json.dumps(f.get("assignment")), (" (" + f["what"] + ")") if f.get("what") else "")


def run_core(ctx, props, quick_n=2400, thorough_n=40000, points=(100, 250)):
    """Runs the c01 harness + correspondence.  Returns (report, n_cases, mismatches) or None if the build broke."""
    ok, out = C.build_harness(["c01", "c07"])
    if not ok:
        ctx.broken.append("harness does not build against /repo: " + out[-800:])
        return None
    ok, out = C.gen_srcparams()
    if not ok:
        ctx.broken.append("translator (tools/srcparams.py) cannot regenerate source facts: " + out[-400:])
    ok, out = C.coq_make(["Tie/TieC01.vo", "Tie/TieC07.vo", "Tie/ParamsOk.vo"])
    if not ok:
        ctx.broken.append("model/tie does not compile (or a regenerated source constant differs from the model's): " + out[-700:])
    n = quick_n if ctx.quick() else thorough_n
    pts = points[0] if ctx.quick() else points[1]
    rc, out = C.sh([os.path.join(C.TARGET, "debug", "c01"), str(ctx.seed), str(n), str(pts), ctx.work], timeout=6000)
    if rc != 0:
        ctx.broken.append("harness c01 failed: " + out[-600:])
        return None
    rep = json.load(open(os.path.join(ctx.work, "report.json")))
    lines = open(os.path.join(ctx.work, "cases.txt")).read().splitlines()
    inputs = open(os.path.join(ctx.work, "inputs.txt")).read().splitlines()
    fails, errors = ([], [])
    if ok:
        fails, errors = C.eval_cases(ctx, "tie", IMPORTS, "lcase", lines, fn="lfailures", shard=60, timeout=45, single_timeout=15)
    if errors:
        ctx.broken.append("correspondence evaluation failed in Coq: %s" % errors[0][1][-400:])
    in_fragment = None
    in_either = None
    if ok and ({"C01", "C02"} & set(props)):
        ok2, out2 = C.coq_make(["Tie/TieAffine.vo"])
        if ok2:
            frag, e2 = C.eval_cases(ctx, "tiefrag", IMPORTS.replace("Tie.TieC01.", "Tie.TieC01 Tie.TieAffine."), "lcase", lines, fn="in_affine_fragment", shard=60, timeout=30, bisect=False)
            # a shard that does not finish (exact rationals blow up on slowly converging propagation) is simply not counted
            in_fragment = len(frag)
            frag2, e3 = C.eval_cases(ctx, "tiefrag2", IMPORTS.replace("Tie.TieC01.", "Tie.TieC01 Tie.TieAffine."), "lcase", lines, fn="in_either_fragment", shard=60, timeout=45, bisect=False)
            in_either = len(frag2)
    # a model evaluation that ran out of time is "unknown", not a mismatch: tolerated while rare (at most 2 or 0.2 % of the
    # stream) and only if the implementation's output on that input passes every implementation-side oracle
    timed_out = sorted(set(getattr(ctx, "eval_timeouts", {}).get("tie", [])))
    if timed_out and len(timed_out) <= max(2, (2 * len(lines)) // 1000):
        bad_inputs = set(f.get("input") for f in rep["oracle_failures"] if f.get("input"))
        if not any(inputs[i] in bad_inputs or inputs[i].split(" | ", 1)[-1] in bad_inputs for i in timed_out):
            fails = [i for i in fails if i not in set(timed_out)]
        else:
            timed_out = []
    else:
        timed_out = [] if len(timed_out) > max(2, (2 * len(lines)) // 1000) else timed_out
    soft, fails = C.split_numerical_ties(fails, inputs, rep["oracle_failures"])
    if soft and ok:
        # a numerical tie of the bound analysis changes numbers, never the shape of the output: a candidate whose variables, rows
        # (names, relations) or verdict kind differ is a real mismatch
        sd, e3 = C.eval_cases(ctx, "tieshape", IMPORTS, "lcase", [lines[i] for i in soft], fn="shape_differs", shard=60, timeout=45, single_timeout=15)
        if sd and not e3:
            # ... except on models the implementation's own analysis found infeasible (over-determined boxes are exactly where a
            # tie decides which branch, and with it which operands are pruned, comes first)
            try:
                flags = open(os.path.join(ctx.work, "flags.txt")).read().splitlines()
            except OSError:
                flags = []
            hard = [soft[j] for j in sd if not (soft[j] < len(flags) and flags[soft[j]] == "I")]
            fails = sorted(set(fails) | set(hard))
            soft = [i for i in soft if i not in set(hard)]
    if fails:
        i = fails[0]
        mo = C.eval_term(ctx, IMPORTS, "lmodel_out %s" % lines[i])
        ctx.broken.append("correspondence Linearizer::linearize vs Model.Linearize.compile broken on %d of %d models; first: `%s`; model says %s"
                          % (len(fails), len(lines), inputs[i][:500], " ".join(mo.split())[:700]))
    mine = [f for f in rep["oracle_failures"] if f.get("prop") in props]
    new = C.triage_failures(ctx, mine, describe)
    cnt = rep["counters"]
    cov = {
        "evaluations": len(lines),
        "distinct_nontrivial": min(rep["distinct"], cnt.get("nontrivial.with_aux", 0) + cnt.get("nontrivial.has_feasible_point", 0)),
        "rule": "seeded structured source models (4 streams: arithmetic abs/min/max, mixed, logic, affine; 1-6 variables of all four kinds with finite/half-infinite/infinite ranges; 1-4 constraints; named/duplicate names) + fixed corpus; non-trivial = compiles with auxiliary variables or has a source-feasible grid point; distinct by hash of (model, output)",
        "samples": rep["samples"],
        "input_distribution": {k: v for k, v in cnt.items() if k.startswith("stream.") or k.startswith("compiled.") or k.startswith("aux.")},
        "points_evaluated_on_impl": cnt.get("points.evaluated", 0),
        "objective_comparisons_on_impl": cnt.get("points.objective_compared", 0),
        "oracle_failures_for_this_property": len(mine),
        "oracle_failures_unlisted": new,
        "correspondence_mismatches": len(fails),
        "numerical_ties_accepted": [inputs[i][:300] for i in soft],
        "model_evaluation_timeouts_tolerated": [inputs[i][:300] for i in timed_out],
        "oracle_skipped_too_large": cnt.get("oracle.skipped_too_large", 0),
    }
    if in_fragment is not None:
        cov["tied_models_inside_the_affine_fragment_of_the_end_to_end_theorem"] = in_fragment
    if in_either is not None:
        cov["tied_models_inside_the_affine_or_abs_fragment_of_the_end_to_end_theorems"] = in_either
    return rep, cov


def trusted(cov):
    return C.TRUSTED_BASE_COMMON + [
        "axioms (standard library): " + (", ".join(cov.get("axioms_reported_by_Print_Assumptions", [])) or "none"),
        "translator tools/srcparams.py (DEFAULT_TOLERANCE, DEFAULT_MAX_STEPS, aux-name formats regenerated from source and checked against the model in Tie/ParamsOk.v)",
        "guarded hook rooc::bounds_verif_hooks (read-only accessor to BoundsAnalyzer)",
        "modelled, not verified: f64 rounding (exact dyadic generator, 1e-9 relative compare); propagation that overflows f64 or reaches the default step limit is checked by the implementation-side oracle only",
        "failing-input search (untrusted helper): grid projection test with Boolean enumeration + Fourier-Motzkin over continuous auxiliaries in the harness",
    ]
