"""Shared machinery of the checks: build steps, Coq evaluation of case files, evidence, verdicts."""
import json, os, re, subprocess, sys, time, hashlib, shutil
from concurrent.futures import ThreadPoolExecutor

VERIF = os.path.dirname(os.path.dirname(os.path.abspath(__file__)))
REPO = "/repo"
ROOC = os.path.join(REPO, "packages", "rooc")
BUILD = os.path.join(VERIF, ".build")
COQ = os.path.join(VERIF, "coq")
TARGET = os.path.join(BUILD, "target")
GUARD = "rooc_verif"

ALLOWED_AXIOMS = {
    # standard-library axioms (Coq.Reals and functional extensionality); named in DESIGN.md 2.8
    "ClassicalDedekindReals.sig_forall_dec",
    "ClassicalDedekindReals.sig_not_dec",
    "FunctionalExtensionality.functional_extensionality_dep",
    "Classical_Prop.classic",
}

FORBIDDEN = re.compile(r"\b(Admitted|admit|Axiom|Parameter|Conjecture|Unset Guard|bypass_check|type-in-type|Admit Obligations)\b")


def env_base():
    e = dict(os.environ)
    e["CARGO_NET_OFFLINE"] = "true"
    e["RUSTFLAGS"] = "--cfg " + GUARD
    e["CARGO_TARGET_DIR"] = TARGET
    return e


def sh(cmd, cwd=None, timeout=None, env=None, check=False):
    p = subprocess.run(cmd, shell=isinstance(cmd, str), cwd=cwd, timeout=timeout, env=env or env_base(),
                       stdout=subprocess.PIPE, stderr=subprocess.STDOUT, text=True)
    if check and p.returncode != 0:
        raise RuntimeError("command failed: %s\n%s" % (cmd, p.stdout[-4000:]))
    return p.returncode, p.stdout


class Ctx:
    def __init__(self, prop, tier, seed):
        self.prop, self.tier, self.seed = prop, tier, seed
        self.t0 = time.time()
        self.work = os.path.join(BUILD, prop.lower())
        shutil.rmtree(self.work, ignore_errors=True)
        os.makedirs(self.work, exist_ok=True)
        self.violations = []          # (replay_path, no_input_found: bool)
        self.known = []               # strings
        self.notes = []
        self.coverage = {}
        self.assumptions = []
        self.broken = []              # names of broken obligations / correspondences

    def quick(self):
        return self.tier == "quick"


# ---------------------------------------------------------------- build steps

def build_harness(bins=None):
    """cargo build of the harness against /repo's working tree with the hook cfg on."""
    os.makedirs(BUILD, exist_ok=True)
    lock = os.path.join(VERIF, "harness", "Cargo.lock")
    if not os.path.exists(lock):
        shutil.copy(os.path.join(ROOC, "Cargo.lock"), lock)
    cmd = ["cargo", "build", "--offline", "--quiet"]
    if bins:
        for b in bins:
            cmd += ["--bin", b]
    rc, out = sh(cmd, cwd=os.path.join(VERIF, "harness"), timeout=1800)
    return rc == 0, out


def gen_srcparams():
    rc, out = sh([sys.executable, os.path.join(VERIF, "tools", "srcparams.py")], timeout=120)
    return rc == 0, out


def coq_makefile():
    mk = os.path.join(COQ, "Makefile")
    cp = os.path.join(COQ, "_CoqProject")
    if (not os.path.exists(mk)) or os.path.getmtime(mk) < os.path.getmtime(cp):
        sh("coq_makefile -f _CoqProject -o Makefile", cwd=COQ, check=True)


def coq_make(targets, timeout=3000):
    """full .vo build of the given targets (and their dependencies); returns (ok, output)."""
    coq_makefile()
    rc, out = sh(["make", "-j16"] + targets, cwd=COQ, timeout=timeout)
    return rc == 0, out


def coq_props(prop_file):
    """(re)compile a Props file and return (ok, output, axioms:set)."""
    vo = os.path.join(COQ, prop_file + "o")
    if os.path.exists(vo):
        os.remove(vo)
    ok, out = coq_make([prop_file + "o"])
    axioms = set()
    in_ax = False
    for line in out.splitlines():
        if line.startswith("Axioms:"):
            in_ax = True
            continue
        if in_ax:
            # an axiom is printed as `Name : type`, the type wrapped onto indented lines when long
            m = re.match(r"^([A-Za-z_][A-Za-z0-9_.']*)\s*(:.*)?$", line)
            if m and not line.startswith(("Closed under", "COQC", "COQDEP", "File ")):
                axioms.add(m.group(1))
            elif line and not line[0].isspace():
                in_ax = False
    return ok, out, axioms


def count_obligations(files):
    n = 0
    names = []
    for f in files:
        src = open(os.path.join(COQ, f)).read()
        src = re.sub(r"\(\*.*?\*\)", "", src, flags=re.S)
        for m in re.finditer(r"^\s*(Theorem|Lemma|Corollary|Example|Fact|Proposition)\s+([A-Za-z0-9_']+)", src, flags=re.M):
            n += 1
            names.append(m.group(2))
    return n, names


def grep_forbidden():
    bad = []
    for root, _, files in os.walk(COQ):
        for f in files:
            if f.endswith(".v"):
                p = os.path.join(root, f)
                src = open(p).read()
                src = re.sub(r"\(\*.*?\*\)", "", src, flags=re.S)
                for i, line in enumerate(src.splitlines()):
                    if FORBIDDEN.search(line):
                        bad.append("%s:%d:%s" % (os.path.relpath(p, COQ), i + 1, line.strip()))
    return bad


# ---------------------------------------------------------------- Coq evaluation of case files

def _run_shard(args):
    path, timeout = args
    try:
        p = subprocess.run(["coqc", "-noglob", "-Q", COQ, "Rooc", path], stdout=subprocess.PIPE, stderr=subprocess.STDOUT,
                           text=True, timeout=timeout, cwd=os.path.dirname(path))
        return p.returncode, p.stdout
    except subprocess.TimeoutExpired:
        return 124, "timeout"


def eval_cases(ctx, name, imports, case_type, lines, fn="failures", shard=400, timeout=90, bisect=True, single_timeout=25):
    """Write shards of `Definition cases : list <case_type> := [...]. Eval vm_compute in (fn cases).`
    and return the list of failing global indices (None on a Coq error)."""
    d = os.path.join(ctx.work, name)
    os.makedirs(d, exist_ok=True)
    jobs = []
    for k in range(0, len(lines), shard):
        chunk = lines[k:k + shard]
        p = os.path.join(d, "s%05d.v" % (k // shard))
        with open(p, "w") as f:
            f.write("From Coq Require Import QArith ZArith List String.\n%s\nImport ListNotations.\n"
                    "Local Close Scope Q_scope.\nOpen Scope string_scope.\nOpen Scope Z_scope.\n"
                    "Definition cases : list %s := [\n" % (imports, case_type))
            f.write(";\n".join(chunk))
            f.write("\n].\nEval vm_compute in (%s cases).\n" % fn)
        jobs.append((p, timeout))
    fails = []
    errors = []
    header = ("From Coq Require Import QArith ZArith List String.\n%s\nImport ListNotations.\n"
              "Local Close Scope Q_scope.\nOpen Scope string_scope.\nOpen Scope Z_scope.\n" % imports)
    with ThreadPoolExecutor(max_workers=16) as ex:
        results = list(ex.map(_run_shard, jobs))
        for idx, (rc, out) in enumerate(results):
            if rc == 124 and not bisect:
                errors.append((jobs[idx][0], "timeout"))
                continue
            if rc == 124:
                # a shard ran out of time: evaluate its cases one by one with a short limit; a case the model cannot
                # evaluate in that time counts as a mismatch (the implementation produced its answer long ago)
                base = idx * shard
                single = []
                for j, ln in enumerate(lines[base:base + shard]):
                    sp = os.path.join(d, "s%05d_%04d.v" % (idx, j))
                    with open(sp, "w") as f:
                        f.write(header + "Definition cases : list %s := [\n%s\n].\nEval vm_compute in (%s cases).\n" % (case_type, ln, fn))
                    single.append((sp, single_timeout))
                for j, (rc2, out2) in enumerate(ex.map(_run_shard, single)):
                    m2 = re.search(r"=\s*\[(.*?)\]\s*:\s*list", out2, flags=re.S) if rc2 == 0 else None
                    if rc2 == 124:
                        # the exact-rational model did not finish (denominators blow up on slowly converging propagation)
                        fails.append(base + j)
                        timeouts = getattr(ctx, "eval_timeouts", None)
                        if timeouts is None:
                            timeouts = ctx.eval_timeouts = {}
                        timeouts.setdefault(name, []).append(base + j)
                    elif m2 and re.findall(r"-?\d+", m2.group(1)):
                        fails.append(base + j)
                    elif rc2 != 0 or not m2:
                        errors.append((single[j][0], out2[-2000:]))
                    try:
                        os.remove(single[j][0])
                    except OSError:
                        pass
                continue
            if rc != 0:
                errors.append((jobs[idx][0], out[-2000:]))
                continue
            m = re.search(r"=\s*\[(.*?)\]\s*:\s*list", out, flags=re.S)
            if not m:
                errors.append((jobs[idx][0], out[-2000:]))
                continue
            body = m.group(1).replace("%Z", "")
            for tok in re.findall(r"-?\d+", body):
                fails.append(idx * shard + int(tok))
    for f in os.listdir(d):
        if f.endswith(".vo") or f.endswith(".aux") or f.endswith(".glob") or f.endswith(".vok") or f.endswith(".vos"):
            os.remove(os.path.join(d, f))
    return fails, errors


def eval_term(ctx, imports, term, timeout=60):
    """Evaluate one term by vm_compute and return Coq's printed output (for replay files)."""
    p = os.path.join(ctx.work, "term_%s.v" % hashlib.sha1(term.encode()).hexdigest()[:10])
    with open(p, "w") as f:
        f.write("From Coq Require Import QArith ZArith List String.\n%s\nImport ListNotations.\nLocal Close Scope Q_scope.\n"
                "Open Scope string_scope.\nOpen Scope Z_scope.\nEval vm_compute in (%s).\n" % (imports, term))
    rc, out = _run_shard((p, timeout))
    return out.strip()


# ---------------------------------------------------------------- known findings, replays, verdict

def load_known():
    p = os.path.join(VERIF, "KNOWN_FINDINGS.json")
    if not os.path.exists(p):
        return []
    return json.load(open(p))


def known_match(prop, failure):
    """A failure is known iff an *open* entry for this property matches its class signature
    (every key of entry['match'] equals the failure's value for that key)."""
    for k in load_known():
        if k.get("status") != "open" or k.get("property") != prop:
            continue
        m = k.get("match", {})
        if m and all(failure.get(a) == b for a, b in m.items()):
            return k
    return None


def split_numerical_ties(fails, inputs, oracle_failures):
    """Correspondence mismatches of the bound-inference model that are accepted as numerical ties.
    Two mathematically equal bounds computed along different paths tie exactly in the rational model but differ by
    rounding noise in f64 (first test of Bounds.b_intersection); after such a tie the two propagations legitimately
    take different, equally sound branches.  It only happens on over-determined models, a fraction of a percent of
    the stream.  A mismatch is accepted as such a tie only if the implementation's output on that very input passes
    every implementation-side property oracle, and only while such cases stay below 0.3% of the stream (at most 2 on
    small streams); otherwise all mismatches count as a broken correspondence."""
    if not fails or len(fails) > max(2, (3 * len(inputs)) // 1000):
        return [], fails
    bad = set()
    for f in oracle_failures:
        t = f.get("input")
        if t:
            bad.add(t)
    for i in fails:
        t = inputs[i]
        if t in bad or t.split(" | ", 1)[-1] in bad:
            return [], fails
    return fails, []


def write_replay(ctx, kind, payload):
    d = os.path.join(VERIF, "evidence", "replays")
    os.makedirs(d, exist_ok=True)
    body = {"property": ctx.prop, "kind": kind, "seed": ctx.seed, "tier": ctx.tier}
    body.update(payload)
    blob = json.dumps(body, indent=1, sort_keys=True, default=str)
    p = os.path.join(d, "%s-%s.json" % (ctx.prop, hashlib.sha1(blob.encode()).hexdigest()[:12]))
    open(p, "w").write(blob)
    return p


def triage_failures(ctx, failures, describe):
    """Split oracle failures into known findings and new violations (one replay per new class, max 5)."""
    seen_known = {}
    new = []
    for f in failures:
        k = known_match(ctx.prop, f)
        if k:
            seen_known.setdefault(k["id"], (k, f))
        else:
            new.append(f)
    for kid, (k, f) in seen_known.items():
        ctx.known.append(" ".join(("KNOWN-FINDING: property=%s %s %s (e.g. %s)" % (ctx.prop, kid, k["what_fails"], describe(f))).split()))
    for f in new[:5]:
        p = write_replay(ctx, "counterexample", {"failure": f, "what": describe(f)})
        ctx.violations.append((p, False))
    return len(new)


def finish(ctx, level, coverage, assumptions):
    """Write evidence, print verdict lines, return exit code."""
    for k in ctx.known:
        print(k)
    # broken obligations/correspondences without a concrete counterexample
    if ctx.broken and not any(not nf for _, nf in ctx.violations):
        p = write_replay(ctx, "broken-obligation", {"broken": ctx.broken})
        ctx.violations.append((p, True))
    elif ctx.broken:
        # counterexample(s) exist; still record what broke
        write_replay(ctx, "broken-obligation", {"broken": ctx.broken})
    for p, nf in ctx.violations:
        print("VIOLATION property=%s replay=%s%s" % (ctx.prop, p, " no-failing-input-found" if nf else ""))
    cov = dict(coverage)
    cov["known_findings_reproduced"] = len(ctx.known)
    cov["broken"] = ctx.broken
    ev = {
        "property_id": ctx.prop, "tier": ctx.tier, "seed": ctx.seed, "level": level,
        "coverage": cov, "assumptions": assumptions, "wall_s": round(time.time() - ctx.t0, 2),
        "violations": len(ctx.violations),
    }
    os.makedirs(os.path.join(VERIF, "evidence"), exist_ok=True)
    json.dump(ev, open(os.path.join(VERIF, "evidence", ctx.prop + ".json"), "w"), indent=1, default=str)
    rc = 1 if ctx.violations else 0
    print("%s: %s (%.1fs)" % (ctx.prop, "FAIL" if rc else "ok", time.time() - ctx.t0))
    return rc


TRUSTED_BASE_COMMON = [
    "Coq 8.16.1 kernel and coqc; vm_compute (correspondence evaluation, finite sweeps); no native_compute",
    "hand-written Gallina model under /verif/coq/Model (exact rationals + IEEE specials; f64 rounding is not modelled)",
    "correspondence check: Rust harness (/verif/harness) linked against /repo working tree, exact f64->rational printer, Python driver (/verif/checks)",
]


def proof_step(ctx, props_file, proof_files, extra_allowed=()):
    """Compile the property's theorems; record broken obligations; return coverage fragment."""
    bad = grep_forbidden()
    if bad:
        ctx.broken.append("forbidden construct in development: " + "; ".join(bad[:5]))
    ok, out, axioms = coq_props(props_file)
    if not ok:
        m = re.search(r'File "([^"]+)", line (\d+).*?\n(Error:.*?)(?:\n\n|\Z)', out, flags=re.S)
        where = ("%s:%s %s" % (m.group(1), m.group(2), " ".join(m.group(3).split())[:300])) if m else out[-600:]
        ctx.broken.append("proof obligation no longer checks: " + where)
    unexpected = sorted(a for a in axioms if a not in ALLOWED_AXIOMS and a not in extra_allowed)
    if unexpected:
        ctx.broken.append("theorem depends on axioms outside the allow-list: " + ", ".join(unexpected))
    n, names = count_obligations([props_file] + list(proof_files))
    return {
        "obligations": n,
        "discharged": n if ok and not bad else 0,
        "checker_cmd": "cd /verif/coq && coq_makefile -f _CoqProject -o Makefile && make -j16 %so  (full .vo build; Print Assumptions parsed from its output)" % props_file,
        "axioms_reported_by_Print_Assumptions": sorted(axioms),
        "theorems": names[:60],
    }
