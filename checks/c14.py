"""C14 - Every simplex step preserves equivalence, feasibility and monotonicity."""
from . import common as C, simplex

def run(ctx):
    cov = C.proof_step(ctx, "Props/C14.v", ["Proof/PivotSound.v", "Proof/TableauStart.v"])
    res = simplex.run_simplex(ctx, {"C14"})
    if res is None:
        return C.finish(ctx, "proof", cov, [])
    rep, cov2 = res
    cov.update(cov2)
    cov["trusted_base"] = simplex.trusted(cov)
    return C.finish(ctx, "proof", cov, [
        "theorems assume a finite rectangular tableau (twf) and a non-zero pivot inside it; the tolerant ratio test is related to the exact one only on gap-separated data",
        "termination within the iteration limit (no cycling) is NOT proved: exercised on degenerate examples incl. Beale's cycling example as a test over histories",
        "canonicity of the basis columns and genuineness of unbounded reports are checked on every implementation tableau (invariant oracle, ray certificate), not proved"])
