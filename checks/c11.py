"""C11 - Formatting preserves meaning and is idempotent."""
import json, os, sys
from . import common as C

IMP = "From Rooc Require Import Model.Exp Model.Pratt Model.Printer Tie.TieC11."


def describe(f):
    return "%s: `%s` formats to `%s` %s" % (f.get("kind"), (f.get("input") or "")[:300], (f.get("formatted") or "")[:300], (f.get("error") or f.get("difference") or "")[:200])


def corpus(ctx):
    path = os.path.join(C.BUILD, "programs.jsonl")
    rc, out = C.sh([sys.executable, os.path.join(C.VERIF, "tools", "extract_programs.py"), path], timeout=120)
    if rc != 0:
        ctx.broken.append("tools/extract_programs.py failed: " + out[-400:])
    return path


def run(ctx):
    ok, out = C.build_harness(["c11"])
    if not ok:
        ctx.broken.append("harness does not build against /repo: " + out[-800:])
        return C.finish(ctx, "proof", {"obligations": 0, "discharged": 0, "checker_cmd": "cargo build", "trusted_base": []}, [])
    ok, out = C.gen_srcparams()
    if not ok:
        ctx.broken.append("translator (tools/srcparams.py) cannot regenerate the operator table from exp_parser.rs: " + out[-400:])
    cov = C.proof_step(ctx, "Props/C11.v", ["Proof/PrattSound.v", "Proof/PrattTable.v", "Proof/PrinterWf.v", "Proof/PrinterParse.v", "Proof/PrinterTable.v"])
    ok, out = C.coq_make(["Tie/TieC11.vo"])
    if not ok:
        ctx.broken.append("model/tie does not compile: " + out[-600:])
    n = 600 if ctx.quick() else 20000
    rc, out = C.sh([os.path.join(C.TARGET, "debug", "c11"), str(ctx.seed), str(n), corpus(ctx), ctx.work], timeout=6000)
    if rc != 0:
        ctx.broken.append("harness c11 failed: " + out[-600:])
        return C.finish(ctx, "proof", cov, [])
    rep = json.load(open(os.path.join(ctx.work, "report.json")))
    lines = open(os.path.join(ctx.work, "cases.txt")).read().splitlines()
    inputs = open(os.path.join(ctx.work, "inputs.txt")).read().splitlines()
    new = C.triage_failures(ctx, rep["oracle_failures"], describe)
    fails, errors = ([], [])
    if ok:
        fails, errors = C.eval_cases(ctx, "tie", IMP, "c11", lines, fn="c11_failures", shard=400)
    if errors:
        ctx.broken.append("correspondence evaluation failed in Coq: %s" % errors[0][1][-400:])
    if fails:
        i = fails[0]
        mo = C.eval_term(ctx, IMP, "c11_out %s" % lines[i])
        ctx.broken.append("correspondence RoocParser::format vs Model.Printer (render with the regenerated table) broken on %d of %d trees; first: %s; model (tokens, reparse) = %s"
                          % (len(fails), len(lines), inputs[i], " ".join(mo.split())[:400]))
        # the model printer is proved to round-trip; a text the model parser does not read back as the tree is a failing input
        for i in fails[:3]:
            p = C.write_replay(ctx, "counterexample", {"failure": {"kind": "formatted-expression-differs-from-proved-printer", "input": inputs[i], "case": lines[i][:800]},
                                                        "what": "formatting `%s`: the printed tokens differ from the proved printer's or are not read back as the original grouping" % inputs[i]})
            ctx.violations.append((p, False))
    cnt = rep["counters"]
    cov.update({
        "trusted_base": C.TRUSTED_BASE_COMMON + [
            "axioms: " + (", ".join(cov.get("axioms_reported_by_Print_Assumptions", [])) or "none (closed under the global context)"),
            "translator tools/srcparams.py: PRATT_PARSER .op(...) chain of exp_parser.rs -> Gen/PrattTable.v on every run; the theorems are re-proved against the regenerated table",
            "harness tokeniser of the formatted objective line (spaces, parentheses, operator words) and the fully parenthesised input printer",
            "modelled, not verified: only the expression printer's parenthesisation is modelled; rendering of blocks, iterations, declarations, names and constants is evaluated on the implementation (format parses / is idempotent / compiles to the same model)"],
        "evaluations": len(lines) + cnt.get("snippet.formatted", 0) + cnt.get("corpus.formatted", 0),
        "distinct_nontrivial": min(rep["distinct"], cnt.get("nontrivial.keeps_some_parentheses", 0)),
        "rule": "trees: all 81 (parent, child) operator pairs in both nestings, every prefix over/under every binary operator, seeded random trees of depth 2-5 (non-trivial = the formatter keeps at least one parenthesis); "
                "snippets: arithmetic shapes named by the property (a / 2x, -(-2), negative constants, escaped/indexed names, blocks, array access) combined under + - * / in every nesting; "
                "corpus: every ROOC program literal in /repo's tests, examples and docs",
        "samples": rep["samples"],
        "input_distribution": {k: v for k, v in cnt.items()},
        "oracle_failures_unlisted": new,
        "correspondence_mismatches": len(fails),
    })
    return C.finish(ctx, "proof", cov, ["expression-level round trip is proved for all trees; whole-program clauses (blocks, iterations, declarations) are checked on generated and repository programs, not proved"])
