"""C09 - Expressions parse with the documented precedence and associativity."""
import json, os
from . import common as C

IMP = "From Rooc Require Import Base.XQ Model.Exp Model.Pratt Tie.TieC09."


def describe(f):
    return "%s: `%s` compiled to `%s`, expected `%s`" % (f.get("kind"), f.get("input"), f.get("compiled"), f.get("expected"))


def run(ctx):
    ok, out = C.build_harness(["c09"])
    if not ok:
        ctx.broken.append("harness does not build against /repo: " + out[-800:])
        return C.finish(ctx, "proof", {"obligations": 0, "discharged": 0, "checker_cmd": "cargo build", "trusted_base": []}, [])
    ok, out = C.gen_srcparams()
    if not ok:
        ctx.broken.append("translator (tools/srcparams.py) cannot regenerate the operator table from exp_parser.rs: " + out[-400:])
    cov = C.proof_step(ctx, "Props/C09.v", ["Proof/PrattSound.v", "Proof/PrattTable.v"])
    ok, out = C.coq_make(["Tie/TieC09.vo"])
    if not ok:
        ctx.broken.append("model/tie does not compile: " + out[-600:])
    n = 3000 if ctx.quick() else 60000
    rc, out = C.sh([os.path.join(C.TARGET, "debug", "c09"), str(ctx.seed), str(n), "0" if ctx.quick() else "1", ctx.work], timeout=6000)
    if rc != 0:
        ctx.broken.append("harness c09 failed: " + out[-600:])
        return C.finish(ctx, "proof", cov, [])
    rep = json.load(open(os.path.join(ctx.work, "report.json")))
    lines = open(os.path.join(ctx.work, "cases.txt")).read().splitlines()
    inputs = open(os.path.join(ctx.work, "inputs.txt")).read().splitlines()
    new = C.triage_failures(ctx, rep["oracle_failures"], describe)
    fails, errors = ([], [])
    if ok:
        fails, errors = C.eval_cases(ctx, "tie", IMP, "c9", lines, fn="c9_failures", shard=400)
    if errors:
        ctx.broken.append("correspondence evaluation failed in Coq: %s" % errors[0][1][-400:])
    if fails:
        i = fails[0]
        mo = C.eval_term(ctx, IMP, "c9_out %s" % lines[i])
        ctx.broken.append("correspondence RoocParser (pest Pratt stage) vs Model.Pratt with the regenerated table broken on %d of %d texts; first: `%s`; implementation compiled %s; model says %s"
                          % (len(fails), len(lines), inputs[i], lines[i].split("] ")[-1][:300], " ".join(mo.split())[:300]))
        # a disagreement here IS a failing input of the property: the model's tree is the documented grouping (C09_pratt_sound/complete)
        for i in fails[:3]:
            p = C.write_replay(ctx, "counterexample", {"failure": {"kind": "text-not-grouped-as-documented", "input": inputs[i], "case": lines[i][:800]}, "what": "the expression `%s` is not compiled with the documented precedence/associativity" % inputs[i]})
            ctx.violations.append((p, False))
    cnt = rep["counters"]
    cov.update({
        "trusted_base": C.TRUSTED_BASE_COMMON + [
            "axioms: " + (", ".join(cov.get("axioms_reported_by_Print_Assumptions", [])) or "none (closed under the global context)"),
            "translator tools/srcparams.py: PRATT_PARSER .op(...) chain of exp_parser.rs -> Gen/PrattTable.v on every run; the theorems are re-proved against the regenerated table",
            "modelled, not verified: pest's PEG matching (whitespace, atomic rules) - only the operator-precedence stage is modelled; the lexer-level sentences (aliases, keyword-prefixed identifiers, implicit multiplication) are evaluated on the implementation"],
        "evaluations": len(lines),
        "distinct_nontrivial": min(rep["distinct"], cnt.get("nontrivial.two_or_more_operators", 0)),
        "rule": "operator sequences: all 81 operator pairs%s + seeded sequences of 1-9 operators with random prefixes (- / not / !), every alias spelling (and/&&, or/||, not/!, implies/->, iff/<->) and keyword-prefixed identifiers (andy, orb, notx, inx, xorz, iffy, impliesq, trueish, minx, asb, forz); non-trivial = at least two operators" % (" + all 729 triples + all prefix placements on pairs" if not ctx.quick() else ""),
        "samples": rep["samples"],
        "input_distribution": {k: v for k, v in cnt.items() if k.startswith("len.")},
        "rejected_by_type_checker_or_parser (not compared)": cnt.get("rejected_by_type_checker_or_parser", 0),
        "documented_sentences_checked_on_impl": cnt.get("sentences.checked", 0),
        "oracle_failures_unlisted": new,
        "correspondence_mismatches": len(fails),
    })
    return C.finish(ctx, "proof", cov, ["theorems hold for any operator table in which prefix operators bind tighter than every infix; that side condition is re-checked for the regenerated table"])
