"""C15 - Limits and tolerances never turn into wrong answers."""
import json, os, collections
from fractions import Fraction
from . import common as C, solvers as S
from .c04 import qf, finite

IMP_SOL = "From Rooc Require Import Base.XQ Model.Exp Model.Bounds Model.Linearize Cert.LP Cert.Bridge Cert.Solution."
IMP_MAP = "From Coq Require Import QArith.\nFrom Rooc Require Import Model.StatusMap."
RAW = {"Optimal": "RawOptimal", "Feasible": "RawFeasible", "Interrupted": "RawInterrupted"}


def outcome_of(r):
    if r.get("status") == "ok":
        return {"Optimal": "OutOptimal", "Feasible": "OutFeasible"}.get(r.get("label"), "OutOptimal")
    return {"LimitReached": "OutErrLimitReached", "Infeasible": "OutErrInfeasible", "Unbounded": "OutErrUnbounded"}.get(r.get("kind"), "OutErrOther")


def describe(f):
    return "%s: `%s` through %s with time_limit=%s ns gap=%s (raw %s, returned %s)" % (f.get("kind"), f.get("input", "")[:200], f.get("entry"), f.get("time_limit_ns"), f.get("gap"), f.get("raw"), f.get("returned"))


def run(ctx):
    ok, out = C.build_harness(["c05"])
    if not ok:
        ctx.broken.append("harness does not build against /repo: " + out[-800:])
        return C.finish(ctx, "translation_validation", {"programs": 0, "disagreements_checked": 0, "samples": []}, [])
    cov = C.proof_step(ctx, "Props/C15.v", ["Model/StatusMap.v", "Cert/Solution.v"])
    ok, out = C.coq_make(["Cert/Solution.vo", "Model/StatusMap.vo"])
    if not ok:
        ctx.broken.append("model/checker does not compile: " + out[-600:])
        return C.finish(ctx, "translation_validation", cov, [])
    n = 60 if ctx.quick() else 1200
    path, models = S.generate(ctx, n, kind="bigint", name="lim")
    binary = os.path.join(C.TARGET, "debug", "c05")
    nopt = 55
    # reuse the watchdog runner in `limits` mode
    import subprocess
    orig = subprocess.Popen
    results = run_limits(binary, path, len(models), nopt)
    truths, certs = S.certify(ctx, path, models, name="limcert")
    fails, pairs, pair_meta, sol_lines, sol_meta = [], [], [], [], []
    for (i, k), r in sorted(results.items()):
        m = models[i]
        st = r.get("status")
        base = {"input": m["text"], "time_limit_ns": r.get("time_limit_ns"), "gap": r.get("gap"), "raw": r.get("raw"), "returned": r.get("label") or r.get("kind") or st, "entry": r.get("entry")}
        if st in ("timeout", "abort", "panic"):
            fails.append(dict(base, kind="call-did-not-return-" + st, **{"class": "unclassified"}))
            continue
        gap = r.get("gap")
        invalid_gap = gap is not None and (gap in ("NaN", "inf", "-inf") or float(gap) < 0)
        if invalid_gap and st == "ok":
            fails.append(dict(base, kind="invalid-option-accepted", **{"class": "unclassified"}))
        if r.get("raw") in RAW:
            g = None if gap is None or gap in ("NaN", "inf", "-inf") else gap
            obs = "(mkObs %s %s %s)" % ("None" if g is None else "(Some %s)" % qf(g), qf(r["value"]) if st == "ok" and finite(r.get("value", "NaN")) else "0%Q",
                                        "None" if r.get("bound") is None else "(Some %s)" % qf(r["bound"]))
            pairs.append("(%s, %s, %s)" % (RAW[r["raw"]], obs, outcome_of(r)))
            pair_meta.append(base)
        if r.get("raw") == "Interrupted" and st == "ok":
            fails.append(dict(base, kind="solution-returned-although-search-was-interrupted", **{"class": "unclassified"}))
        if st == "ok":
            vals = [v for _, v in r["assign"]] + [r["value"]]
            if not all(finite(v) for v in vals):
                fails.append(dict(base, kind="non-finite-value-in-solution", **{"class": "unclassified"}))
                continue
            sol = "(mkSol [%s] %s [])" % ("; ".join('("%s", %s)' % (a, qf(v)) for a, v in r["assign"]), qf(r["value"]))
            sol_lines.append("(mkSolCase %s %s)" % (m["coq"], sol))
            sol_meta.append(base)
            code, tval = truths[i]
            if r.get("label") == "Optimal" and code == 1 and m["dir"] != "sat":
                g = 0.0 if gap is None else float(gap)
                v, t = float(r["value"]), float(tval)
                if abs(v - t) > g * max(abs(v), abs(t)) + 1e-6 * max(1.0, abs(t)):
                    fails.append(dict(base, kind="labelled-optimal-outside-requested-gap", value=v, certified_optimum=str(tval), **{"class": "unclassified"}))
            if code == 1 and m["dir"] != "sat" and r.get("bound") is not None and finite(r["bound"]):
                # the hypothesis of optimal_label_within_gap_of_optimum: the proven bound and the value bracket the true optimum
                v, t, b = float(r["value"]), float(tval), float(r["bound"])
                tol = 1e-6 * max(1.0, abs(t), abs(v))
                lo, hi = (b, v) if m["dir"] == "min" else (v, b)
                if not (lo - tol <= t <= hi + tol):
                    fails.append(dict(base, kind="proven-bound-does-not-bracket-the-optimum", value=v, bound=b, certified_optimum=str(tval), **{"class": "unclassified"}))
            if code == 2:
                fails.append(dict(base, kind="solution-returned-for-infeasible-model", **{"class": "unclassified"}))
    bad, errors = C.eval_cases(ctx, "sol", IMP_SOL, "solcase", sol_lines, fn="sol_failures", shard=300)
    for j in bad:
        fails.append(dict(sol_meta[j], kind="returned-point-infeasible", **{"class": "unclassified"}))
    badp, e2 = C.eval_cases(ctx, "map", IMP_MAP, "(raw * obs * outcome)", pairs, fn="pair_failures", shard=2000)
    errors += e2
    if errors:
        ctx.broken.append("evaluation failed in Coq: %s" % errors[0][1][-400:])
    if badp:
        b = pair_meta[badp[0]]
        ctx.broken.append("correspondence solve_milp_lp_problem_with status mapping vs Model.StatusMap.wrap broken on %d of %d calls; first: raw %s returned %s on `%s`"
                          % (len(badp), len(pairs), b["raw"], b["returned"], b["input"][:200]))
        for j in badp[:50]:
            b = pair_meta[j]
            if (b["raw"] == "Interrupted" and b["returned"] in ("Optimal", "Feasible")) or (b["raw"] == "Feasible" and b["returned"] == "Optimal"):
                fails.append(dict(b, kind="raw-status-mislabelled", **{"class": "unclassified"}))
    new = C.triage_failures(ctx, fails, describe)
    dist = collections.Counter((r.get("raw"), r.get("label") or r.get("kind") or r.get("status")) for r in results.values())
    samples = [{"model": models[i]["text"], "time_limit_ns": r.get("time_limit_ns"), "gap": r.get("gap"), "raw_status": r.get("raw"), "returned": r.get("label") or r.get("kind"), "value": r.get("value")}
               for (i, k), r in list(sorted(results.items()))[:: max(1, len(results) // 8)]][:8]
    cov.update({
        "programs": len(results),
        "disagreements_checked": len(fails),
        "samples": samples,
        "models": len(models), "option_settings_per_model": nopt,
        "raw_status_vs_returned": {"%s -> %s" % k: v for k, v in dist.items()},
        "status_pairs_checked_against_model": len(pairs),
        "returned_points_checked": len(sol_lines),
        "failures_unlisted": new,
        "trusted_base": C.TRUSTED_BASE_COMMON[:1] + [
            "Model/StatusMap.v (decision table of rooc's wrapper including the re-measured gap; theorems wrap_never_mislabels, optimal_label_within_gap_of_optimum) tied to the code by comparing every observed (raw status, requested gap, reported value, shifted bound, returned label) tuple; a relabelling decision within 1e-9 of its threshold may fall either way (f64)",
            "guarded hooks rooc::milp_verif_hooks::take_raw_status / take_raw_bound (thread-local record of microlp's status and proven bound)",
            "assumed of microlp, not proved: its proven bound and the returned value bracket the true optimum (hypothesis of optimal_label_within_gap_of_optimum); checked on every run against the certified optimum",
            "Cert/Solution.v check_solution (proved sound) for every returned point; certified optimum by exhaustive enumeration in Coq (Cert/Bridge.v enum_truth, executed)",
            "not modelled: wall-clock time and microlp's search - WHICH raw status a given limit produces is runtime behaviour; only time_limit=0 and generous limits are deterministic"],
    })
    return C.finish(ctx, "translation_validation", cov, ["the quantifier over models x option settings is explored (seeded), not proved"])


def run_limits(binary, path, n_models, nopt):
    """same watchdog protocol as solvers.run_worker but with the `limits` sub-command"""
    import types
    real = S.subprocess.Popen

    def popen(args, **kw):
        args = list(args)
        args[1] = "limits"
        return real(args, **kw)
    S.subprocess = types.SimpleNamespace(Popen=popen, PIPE=S.subprocess.PIPE, DEVNULL=S.subprocess.DEVNULL)
    try:
        return S.run_worker(binary, path, n_models, nopt, call_timeout=20.0)
    finally:
        import subprocess as sp
        S.subprocess = sp
