"""C10 - Algebraic rewrites and constant spelling preserve meaning."""
import json, os
from . import common as C

PROOF_FILES = ["Proof/XQFacts.v", "Proof/SemFacts.v", "Proof/SimplifySound.v", "Proof/SimplifyNary.v",
               "Proof/SimplifyMain.v", "Proof/FlattenSound.v"]


def run(ctx):
    ok, out = C.build_harness(["c10"])
    if not ok:
        ctx.broken.append("harness does not build against /repo: " + out[-800:])
        return C.finish(ctx, "proof", {"obligations": 0, "discharged": 0, "checker_cmd": "cargo build", "trusted_base": []}, [])
    cov = C.proof_step(ctx, "Props/C10.v", PROOF_FILES)
    ok, out = C.coq_make(["Tie/TieC10.vo"])
    if not ok:
        ctx.broken.append("model/tie does not compile: " + out[-600:])
    # --- implementation run
    n_random, ex_ops, sample_next = (2500, 1, 6000) if ctx.quick() else (30000, 2, 60000)
    rc, out = C.sh([os.path.join(C.TARGET, "debug", "c10"), str(ctx.seed), str(n_random), str(ex_ops), str(sample_next), ctx.work], timeout=3000)
    if rc != 0:
        ctx.broken.append("harness c10 failed: " + out[-600:])
        return C.finish(ctx, "proof", cov, [])
    rep = json.load(open(os.path.join(ctx.work, "report.json")))
    lines = open(os.path.join(ctx.work, "cases.txt")).read().splitlines()
    inputs = open(os.path.join(ctx.work, "inputs.txt")).read().splitlines()
    # --- the property itself evaluated on the implementation (failing-input search)
    def describe(f):
        if f.get("twin"):
            return "%s: `%s` versus `%s` at %s: %s / %s %s" % (f.get("kind"), f.get("input", "").replace("\n", " | ")[:300], f.get("twin", "").replace("\n", " | ")[:300],
                                                           json.dumps(f.get("assignment")), f.get("first"), f.get("second"), f.get("error", ""))
        return "%s: input `%s` at %s" % (f.get("kind"), f.get("input"), json.dumps(f.get("assignment")))
    new = C.triage_failures(ctx, rep["oracle_failures"], describe)
    # --- correspondence model vs implementation
    fails, errors = ([], [])
    if ok:
        fails, errors = C.eval_cases(ctx, "tie", "From Rooc Require Import Base.XQ Model.Exp Tie.TieC10.", "case", lines)
    if errors:
        ctx.broken.append("correspondence evaluation failed in Coq: %s" % errors[0][1][-400:])
    if fails:
        i = fails[0]
        mo = C.eval_term(ctx, "From Rooc Require Import Base.XQ Model.Exp Tie.TieC10.", "model_out %s" % lines[i])
        ctx.broken.append("correspondence Exp::simplify/Exp::flatten vs Model.Simplify/Model.Flatten broken on %d of %d inputs; first: `%s`; case %s; model says %s"
                          % (len(fails), len(lines), inputs[i], lines[i][:600], mo[:600]))
    cnt = rep["counters"]
    cov.update({
        "trusted_base": C.TRUSTED_BASE_COMMON + [
            "axioms (standard library, via Coq.Reals): " + ", ".join(cov.get("axioms_reported_by_Print_Assumptions", [])),
            "modelled, not verified: IEEE rounding of folded constants (generator uses exactly representable dyadics; numbers compared to 1e-9 relative)"],
        "evaluations": len(lines),
        "distinct_nontrivial": min(rep["distinct"], cnt.get("nontrivial.simplify_changed", 0) + cnt.get("nontrivial.flatten_changed", 0)),
        "rule": "inputs = fixed corpus + all trees with <= %d internal nodes over leaves {0,1,2,-0,x,y} + %d sampled trees of the next level + %d seeded random trees (depth<=7, all 13 constructors); non-trivial = simplify or flatten changed the tree; distinct = distinct (input,outputs) triples by hash" % (ex_ops, sample_next, n_random + n_random // 2),
        "samples": rep["samples"],
        "exhaustive": False,
        "input_distribution": {k: v for k, v in cnt.items() if k.startswith("size.") or k.startswith("stream.")},
        "respelled_twin_programs": {k: v for k, v in cnt.items() if k.startswith("twins.")},
        "points_evaluated_on_impl": cnt.get("points_evaluated", 0),
        "oracle_failures_total": cnt.get("oracle_failures_total", 0),
        "oracle_failures_unlisted": new,
        "correspondence_mismatches": len(fails),
    })
    assumptions = ["typed-semantics hypothesis of C10_simplify_sound (non-literal and/or operands are 0/1-valued); the unconditional statement is refuted (F17)",
                   "respelling clause: pairs of programs that differ only in how constants are written (literal, sum, difference, named, negated, product; constant on either side of *; implicit product; divisor; right-hand side) go through the whole compiler and their linear models are compared point by point on a grid (feasibility of the projection and best objective of an extension); the compiler core itself is tied to the model by C01"]
    return C.finish(ctx, "proof", cov, assumptions)
