"""C04 - Returned solutions are feasible and self-consistent."""
import json, os, collections
from fractions import Fraction
from . import common as C, solvers as S

IMP = "From Rooc Require Import Base.XQ Model.Exp Model.Bounds Model.Linearize Cert.LP Cert.Bridge Cert.Solution."


def qf(s):
    f = Fraction(float(s))
    n = f.numerator
    return "((%d) # %d)%%Q" % (n, f.denominator) if n < 0 else "(%d # %d)%%Q" % (n, f.denominator)


def finite(s):
    return s not in ("inf", "-inf", "NaN")


def describe(f):
    return "%s: %s on `%s`" % (f.get("kind"), f.get("solver"), f.get("input", "")[:220])


def run(ctx):
    ok, out = C.build_harness(["c05"])
    if not ok:
        ctx.broken.append("harness does not build against /repo: " + out[-800:])
        return C.finish(ctx, "translation_validation", {"programs": 0, "disagreements_checked": 0, "samples": []}, [])
    cov = C.proof_step(ctx, "Props/C04.v", ["Cert/Solution.v", "Cert/LP.v"])
    ok, out = C.coq_make(["Cert/Solution.vo"])
    if not ok:
        ctx.broken.append("solution checker does not compile: " + out[-600:])
        return C.finish(ctx, "translation_validation", cov, [])
    n = 1400 if ctx.quick() else 30000
    path, models = S.generate(ctx, n)
    results = S.run_worker(os.path.join(C.TARGET, "debug", "c05"), path, len(models), len(S.SOLVERS))
    lines, meta, fails = [], [], []
    for (i, k), r in sorted(results.items()):
        if r.get("status") != "ok":
            continue
        m = models[i]
        vals = [v for _, v in r["assign"]] + [r["value"]] + [v for _, v in r["constraints"]]
        if not all(finite(v) for v in vals):
            fails.append({"kind": "non-finite-value-in-solution", "solver": S.SOLVERS[k], "input": m["text"], "class": "unclassified", "solution": r})
            continue
        sol = "(mkSol [%s] %s [%s])" % ("; ".join('("%s", %s)' % (a, qf(v)) for a, v in r["assign"]), qf(r["value"]),
                                          "; ".join('("%s", %s)' % (a, qf(v)) for a, v in r["constraints"]))
        lines.append("(mkSolCase %s %s)" % (m["coq"], sol))
        meta.append((i, k, r))
    bad, errors = C.eval_cases(ctx, "sol", IMP, "solcase", lines, fn="sol_failures", shard=200)
    if errors:
        ctx.broken.append("solution checking failed in Coq: %s" % errors[0][1][-400:])
    for j in bad:
        i, k, r = meta[j]
        m = models[i]
        degenerate = any((t["k"] in ("NN", "Real") and (t["lo"] == "inf" or t["hi"] == "-inf" or t["lo"] == "NaN" or t["hi"] == "NaN")) for t in m["types"])
        astronomic = S.SOLVERS[k] == "clarabel" and any(abs(float(v)) >= 1e12 for _, v in r["assign"])
        viol, scale = S.max_violation(m, r)
        # the tableau decides feasibility with its 1e-5 tolerance (F57); Clarabel's accuracy is relative to the scale of the model (F58)
        tableau_tol = S.SOLVERS[k] == "slow_simplex" and 0.0 < viol <= 1.5e-5
        clarabel_scale = S.SOLVERS[k] == "clarabel" and scale >= 1e5 and 0.0 < viol <= 1e-9 * scale
        fails.append({"kind": "solution-rejected-by-verified-checker", "solver": S.SOLVERS[k], "input": m["text"], "solution": r, "largest_violation": viol,
                      "class": "degenerate-domain" if degenerate else ("clarabel-solved-with-astronomic-values-on-unbounded-model" if astronomic else
                               ("tableau-feasibility-tolerance-1e-5" if tableau_tol else ("clarabel-accuracy-relative-to-model-scale" if clarabel_scale else "unclassified")))})
    new = C.triage_failures(ctx, fails, describe)
    by_solver = collections.Counter(S.SOLVERS[k] for (_, k, _) in meta)
    samples = [{"model": models[i]["text"], "solver": S.SOLVERS[k], "solution": {"value": r["value"], "assign": r["assign"], "constraints": r["constraints"]}, "checker": "accepted" if j not in bad else "rejected"}
               for j, (i, k, r) in list(enumerate(meta))[:: max(1, len(meta) // 6)]][:8]
    cov.update({
        "programs": len(lines),
        "disagreements_checked": len(fails),
        "samples": samples,
        "models": len(models),
        "solutions_checked_per_entry_point": dict(by_solver),
        "failures_unlisted": new,
        "trusted_base": C.TRUSTED_BASE_COMMON[:1] + [
            "Cert/Solution.v: check_solution proved sound (rows, bounds, integrality, 0/1, objective incl. offset, one value per variable) over Q, axiom-free; named-row activities are checked by the same function (that clause of the soundness theorem is not stated)",
            "glue: exact f64->Q conversion of every returned number (Python Fraction), JSON/Gallina printers, worker watchdog",
            "not modelled: the solvers (external crates); every returned solution is validated"],
    })
    return C.finish(ctx, "translation_validation", cov, ["quantifier over models x entry points is explored (seeded generator), not proved"])
