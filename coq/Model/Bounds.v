(* Bounds: interval arithmetic, affine forms and bound propagation of transformers/bounds.rs. *)
From Coq Require Import QArith ZArith Bool List String.
From Rooc Require Import Base.XQ Model.Exp.
Import ListNotations.
Local Close Scope Q_scope.
Local Open Scope string_scope.
Local Open Scope list_scope.

Record bounds := mkB { lo : xq; hi : xq }.

Definition b_unbounded : bounds := mkB NInf PInf.
Definition b_singleton (v : xq) : bounds := mkB v v.
Definition b01 : bounds := mkB (Fin 0%Q) (Fin 1%Q).

(* bounds.rs:29-37 *)
Definition b_of_vtype (t : vtype) : bounds :=
  match t with
  | TBoolean => b01
  | TIntegerRange l u => mkB (xq_of_Z l) (xq_of_Z u)
  | TNonNegativeReal l u | TReal l u => mkB l u
  end.

(* bounds.rs:96-108 *)
Definition lower_sum (a b : xq) : xq := let v := xq_add a b in if xq_is_nan v then NInf else v.
Definition upper_sum (a b : xq) : xq := let v := xq_add a b in if xq_is_nan v then PInf else v.

(* bounds.rs:39-49 *)
(* `ties`: how an exact tie lower = upper is resolved.  In f64 two mathematically equal bounds computed along
   different paths differ by rounding noise in either direction, so the implementation may take the first branch
   (false, the exact reading) or fall into the tolerance branch and keep the current box (true).  Both are sound;
   the correspondence check accepts either resolution (Tie/TieC07.v). *)
Definition b_intersection (ties : bool) (tol : xq) (a b : bounds) : option bounds :=
  let lower := xq_max (lo a) (lo b) in
  let upper := xq_min (hi a) (hi b) in
  if (if ties then xq_ltb lower upper else xq_leb lower upper) then Some (mkB lower upper)
  else if xq_leb (xq_sub lower upper) tol then Some a
  else None.

Definition b_add (a b : bounds) : bounds := mkB (lower_sum (lo a) (lo b)) (upper_sum (hi a) (hi b)).
Definition b_neg (a : bounds) : bounds := mkB (xq_neg (hi a)) (xq_neg (lo a)).
Definition b_sub (a b : bounds) : bounds := b_add a (b_neg b).
(* bounds.rs:66-75 *)
Definition b_scale (a : bounds) (c : xq) : bounds :=
  if xq_is_zero c then b_singleton (Fin 0%Q)
  else if xq_gtb c (Fin 0%Q) then mkB (xq_mul (lo a) c) (xq_mul (hi a) c)
  else mkB (xq_mul (hi a) c) (xq_mul (lo a) c).
(* bounds.rs:77-83 *)
Definition b_div_by (a : bounds) (d : xq) : bounds :=
  if xq_is_zero d then b_unbounded else b_scale a (xq_div (Fin 1%Q) d).
(* bounds.rs:85-93 *)
Definition b_abs (a : bounds) : bounds :=
  if xq_geb (lo a) (Fin 0%Q) then a
  else if xq_leb (hi a) (Fin 0%Q) then b_neg a
  else mkB (Fin 0%Q) (xq_max (xq_neg (lo a)) (hi a)).

(* ---------- insertion-ordered maps (IndexMap) as association lists *)
Section AList.
  Context {V : Type}.
  Fixpoint al_get (m : list (string * V)) (k : string) : option V :=
    match m with
    | [] => None
    | (k', v) :: r => if String.eqb k k' then Some v else al_get r k
    end.
  (* IndexMap::insert: replace in place or append *)
  Fixpoint al_insert (m : list (string * V)) (k : string) (v : V) : list (string * V) :=
    match m with
    | [] => [(k, v)]
    | (k', v') :: r => if String.eqb k k' then (k, v) :: r else (k', v') :: al_insert r k v
    end.
  (* IndexMap::shift_remove *)
  Fixpoint al_remove (m : list (string * V)) (k : string) : list (string * V) :=
    match m with
    | [] => []
    | (k', v') :: r => if String.eqb k k' then r else (k', v') :: al_remove r k
    end.
  Definition al_mem (m : list (string * V)) (k : string) : bool :=
    match al_get m k with Some _ => true | None => false end.
  Definition al_keys (m : list (string * V)) : list string := map fst m.
End AList.

(* IndexSet<String> *)
Definition set_mem (s : list string) (k : string) : bool := existsb (String.eqb k) s.
Definition set_add (s : list string) (k : string) : list string := if set_mem s k then s else s ++ [k].

(* ---------- AffineForm, bounds.rs:147-249 *)
Record aform := mkAF { af_coeffs : list (string * xq); af_const : xq }.

Definition af_merge_step (mult : xq) (acc : list (string * xq)) (p : string * xq) : list (string * xq) :=
  let cur := match al_get acc (fst p) with Some v => v | None => Fin 0%Q end in
  let c' := xq_add cur (xq_mul (snd p) mult) in
  if xq_is_zero c' then al_remove acc (fst p) else al_insert acc (fst p) c'.

Definition af_merge (self other : aform) (mult : xq) : aform :=
  mkAF (fold_left (af_merge_step mult) (af_coeffs other) (af_coeffs self))
       (xq_add (af_const self) (xq_mul (af_const other) mult)).

Definition af_scale (self : aform) (c : xq) : aform :=
  mkAF (filter (fun p => negb (xq_is_zero (snd p))) (map (fun p => (fst p, xq_mul (snd p) c)) (af_coeffs self)))
       (xq_mul (af_const self) c).

Fixpoint af_from_exp (e : exp) : option aform :=
  match e with
  | Num v => Some (mkAF [] v)
  | Var n => Some (mkAF [(n, Fin 1%Q)] (Fin 0%Q))
  | BinOp Add l r =>
      match af_from_exp l, af_from_exp r with Some a, Some b => Some (af_merge a b (Fin 1%Q)) | _, _ => None end
  | BinOp Sub l r =>
      match af_from_exp l, af_from_exp r with Some a, Some b => Some (af_merge a b (Fin (-1)%Q)) | _, _ => None end
  (* a factor is a coefficient when it has no variable part (one number, or an expression of constants) *)
  | BinOp Mul l r =>
      match af_from_exp l, af_from_exp r with
      | Some a, Some b =>
          match af_coeffs a with
          | [] => Some (af_scale b (af_const a))
          | _ => match af_coeffs b with [] => Some (af_scale a (af_const b)) | _ => None end
          end
      | _, _ => None
      end
  | BinOp Div l r =>
      match af_from_exp r with
      | Some b =>
          match af_coeffs b with
          | [] => if xq_is_zero (af_const b) then None
                  else option_map (fun a => af_scale a (xq_div (Fin 1%Q) (af_const b))) (af_from_exp l)
          | _ => None
          end
      | None => None
      end
  | BinOp _ _ _ => None
  | UnOp Neg x => option_map (fun a => af_scale a (Fin (-1)%Q)) (af_from_exp x)
  | UnOp UNot _ => None
  | _ => None
  end.

Definition af_from_constraint (c : constr) : option aform :=
  match af_from_exp (c_lhs c), af_from_exp (c_rhs c) with
  | Some l, Some r => Some (af_merge l r (Fin (-1)%Q))
  | _, _ => None
  end.

(* ---------- analyser state *)
Record astate := mkA {
  a_vb : list (string * bounds);
  a_limit : bool;
  a_infeasible : bool;
  a_ties : bool }.

(* the tolerance is a field of the Rust struct, but every construction site sets DEFAULT_TOLERANCE *)
Definition default_tolerance : xq := Fin (1 # 1000000000)%Q.
Definition a_tol (a : astate) : xq := default_tolerance.
Definition default_max_steps : nat := Z.to_nat 10000%Z.

Definition a_get (a : astate) (n : string) : bounds :=
  match al_get (a_vb a) n with Some b => b | None => b_unbounded end.
Definition a_set_vb (a : astate) (vb : list (string * bounds)) : astate :=
  mkA vb (a_limit a) (a_infeasible a) (a_ties a).
Definition a_mark_infeasible (a : astate) : astate := mkA (a_vb a) (a_limit a) true (a_ties a).
Definition a_mark_limit (a : astate) : astate := mkA (a_vb a) true (a_infeasible a) (a_ties a).
Definition a_insert_variable (a : astate) (n : string) (t : vtype) : astate :=
  a_set_vb a (al_insert (a_vb a) n (b_of_vtype t)).

(* bounds.rs:287-378 *)
Fixpoint bounds_of (a : astate) (e : exp) : bounds :=
  let fold2 (f : xq -> xq -> xq) (l : list exp) : bounds :=
    match l with
    | [] => b_unbounded
    | x :: xs => fold_left (fun cur nx => let b := bounds_of a nx in mkB (f (lo cur) (lo b)) (f (hi cur) (hi b)))
                           xs (bounds_of a x)
    end in
  match e with
  | Num v => b_singleton v
  | Var n => a_get a n
  | Abs x => b_abs (bounds_of a x)
  | Min l => fold2 xq_min l
  | Max l => fold2 xq_max l
  | And _ | Or _ | Not _ | Xor _ _ | Implies _ _ | Iff _ _ => b01
  | BinOp Add l r => b_add (bounds_of a l) (bounds_of a r)
  | BinOp Sub l r => b_sub (bounds_of a l) (bounds_of a r)
  | BinOp Mul l r =>
      match l with
      | Num v => b_scale (bounds_of a r) v
      | _ => match r with Num v => b_scale (bounds_of a l) v | _ => b_unbounded end
      end
  | BinOp Div l r =>
      match r with
      | Num v => if xq_is_zero v then b_unbounded else b_div_by (bounds_of a l) v
      | _ => b_unbounded
      end
  | BinOp _ _ _ => b01
  | UnOp Neg x => b_neg (bounds_of a x)
  | UnOp UNot _ => b01
  end.

(* bounds.rs:649-659 *)
Definition required_bounds (c : cmp) : bounds :=
  match c with
  | Le | Lt => mkB NInf (Fin 0%Q)
  | Ge | Gt => mkB (Fin 0%Q) PInf
  | Eq => b_singleton (Fin 0%Q)
  end.

(* bounds.rs:630-646 ; returns (state, changed) *)
Definition tighten_variable (a : astate) (n : string) (cand : bounds) : astate * bool :=
  let cur := a_get a n in
  match b_intersection (a_ties a) (a_tol a) cur cand with
  | None => (a_mark_infeasible a, false)
  | Some t =>
      let changed := xq_gtb (lo t) (xq_add (lo cur) (a_tol a)) || xq_ltb (hi t) (xq_sub (hi cur) (a_tol a)) in
      if changed then (a_set_vb a (al_insert (a_vb a) n t), true) else (a, false)
  end.

(* prefix sums: prefixes[0] = singleton const, prefixes[i+1] = prefixes[i] + terms[i] *)
Fixpoint prefixes_from (cur : bounds) (terms : list bounds) : list bounds :=
  match terms with
  | [] => [cur]
  | t :: ts => cur :: prefixes_from (b_add cur t) ts
  end.
(* suffixes[i] = terms[i] + suffixes[i+1], suffixes[n] = singleton 0 *)
Fixpoint suffixes_of (terms : list bounds) : list bounds :=
  match terms with
  | [] => [b_singleton (Fin 0%Q)]
  | t :: ts => let rest := suffixes_of ts in
               b_add t (hd (b_singleton (Fin 0%Q)) rest) :: rest
  end.

(* bounds.rs:472-517 *)
Definition tighten_affine_form (a : astate) (f : aform) (c : cmp) : astate * list string :=
  let required := required_bounds c in
  let terms := map (fun p : string * xq => b_scale (a_get a (fst p)) (snd p)) (af_coeffs f) in
  let prefixes := prefixes_from (b_singleton (af_const f)) terms in
  let suffixes := suffixes_of terms in
  let fix go (i : nat) (cs : list (string * xq)) (a : astate) (changed : list string) : astate * list string :=
    match cs with
    | [] => (a, changed)
    | (name, coef) :: rest =>
        let others := b_add (nth i prefixes b_unbounded) (nth (S i) suffixes b_unbounded) in
        let cand := b_div_by (b_sub required others) coef in
        let (a', ch) := tighten_variable a name cand in
        let changed' := if ch then set_add changed name else changed in
        if a_infeasible a' then (a', changed') else go (S i) rest a' changed'
    end in
  let (a1, changed) := go O (af_coeffs f) a [] in
  let current := last prefixes b_unbounded in
  let a2 := match b_intersection (a_ties a1) (a_tol a1) current required with
            | None => a_mark_infeasible a1
            | Some _ => a1 end in
  (a2, changed).

(* bounds.rs:537-628 *)
Fixpoint tighten_expression (e : exp) (required : bounds) (st : astate * list string) {struct e}
  : astate * list string :=
  let (a, changed) := st in
  if a_infeasible a then st else
  match b_intersection (a_ties a) (a_tol a) (bounds_of a e) required with
  | None => (a_mark_infeasible a, changed)
  | Some required =>
    let fix each (l : list exp) (r : bounds) (st : astate * list string) : astate * list string :=
      match l with
      | [] => st
      | x :: xs => each xs r (tighten_expression x r st)
      end in
    match e with
    | Num _ => st
    | Var n => let (a', ch) := tighten_variable a n required in
               (a', if ch then set_add changed n else changed)
    | Abs x => if xq_is_finite (hi required)
               then tighten_expression x (mkB (xq_neg (hi required)) (hi required)) st else st
    | Min l => if xq_is_finite (lo required) then each l (mkB (lo required) PInf) st else st
    | Max l => if xq_is_finite (hi required) then each l (mkB NInf (hi required)) st else st
    | And _ | Or _ | Not _ | Xor _ _ | Implies _ _ | Iff _ _ => st
    | BinOp Add l r =>
        let lb := bounds_of a l in let rb := bounds_of a r in
        tighten_expression r (b_sub required lb) (tighten_expression l (b_sub required rb) st)
    | BinOp Sub l r =>
        let lb := bounds_of a l in let rb := bounds_of a r in
        tighten_expression r (b_sub lb required) (tighten_expression l (b_add required rb) st)
    | BinOp Mul l r =>
        match l with
        | Num c => if xq_is_zero c then st else tighten_expression r (b_div_by required c) st
        | _ => match r with
               | Num c => if xq_is_zero c then st else tighten_expression l (b_div_by required c) st
               | _ => st
               end
        end
    | BinOp Div l r =>
        match r with
        | Num d => if xq_is_zero d then st else tighten_expression l (b_scale required d) st
        | _ => st
        end
    | BinOp _ _ _ => st
    | UnOp Neg x => tighten_expression x (b_neg required) st
    | UnOp UNot _ => st
    end
  end.

(* bounds.rs:519-535 *)
Definition tighten_constraint_expression (a : astate) (c : constr) (required : bounds) : astate * list string :=
  let lb := bounds_of a (c_lhs c) in
  let rb := bounds_of a (c_rhs c) in
  let current := b_sub lb rb in
  match b_intersection (a_ties a) (a_tol a) current required with
  | None => (a_mark_infeasible a, [])
  | Some required =>
      tighten_expression (c_rhs c) (b_sub lb required)
        (tighten_expression (c_lhs c) (b_add required rb) (a, []))
  end.

(* bounds.rs:661-683 *)
Fixpoint collect_variables (e : exp) (acc : list string) : list string :=
  let fix each (l : list exp) (acc : list string) : list string :=
    match l with [] => acc | x :: xs => each xs (collect_variables x acc) end in
  match e with
  | Num _ => acc
  | Var n => set_add acc n
  | Abs x | Not x | UnOp _ x => collect_variables x acc
  | Min l | Max l | And l | Or l => each l acc
  | Xor a b | Implies a b | Iff a b | BinOp _ a b => collect_variables b (collect_variables a acc)
  end.

Definition constraint_names (c : constr) (f : option aform) : list string :=
  match f with
  | Some f => al_keys (af_coeffs f)
  | None => collect_variables (c_rhs c) (collect_variables (c_lhs c) [])
  end.

Fixpoint set_nth_bool (l : list bool) (i : nat) (v : bool) : list bool :=
  match l, i with
  | [], _ => []
  | _ :: r, O => v :: r
  | x :: r, S i => x :: set_nth_bool r i v
  end.

(* dependents of a name: indices (ascending) of the constraints mentioning it *)
Definition dependents (names : list (list string)) (n : string) : list nat :=
  let fix go (i : nat) (l : list (list string)) : list nat :=
    match l with
    | [] => []
    | ns :: r => if set_mem ns n then i :: go (S i) r else go (S i) r
    end in go O names.

(* bounds.rs:415-470 ; fuel bounds the while loop, steps counts as the Rust counter does *)
Fixpoint propagate_loop (fuel : nat) (cs : list constr) (forms : list (option aform)) (names : list (list string))
         (max_steps steps : nat) (queue : list nat) (queued : list bool) (a : astate) : astate :=
  match fuel with
  | O => a_mark_limit a
  | S fuel =>
    match queue with
    | [] => a
    | index :: queue =>
      let queued := set_nth_bool queued index false in
      if Nat.leb max_steps steps then a_mark_limit a else
      let c := nth index cs (mkConstr "" (Num (Fin 0%Q)) Eq (Num (Fin 0%Q)) false) in
      let (a', changed) :=
        match nth index forms None with
        | Some f => tighten_affine_form a f (c_cmp c)
        | None => tighten_constraint_expression a c (required_bounds (c_cmp c))
        end in
      if a_infeasible a' then a' else
      let '(queue', queued') :=
        fold_left (fun (qq : list nat * list bool) (name : string) =>
          fold_left (fun (qq : list nat * list bool) (d : nat) =>
            let (q, qd) := qq in
            if nth d qd true then qq else (q ++ [d], set_nth_bool qd d true))
            (dependents names name) qq)
          changed (queue, queued) in
      propagate_loop fuel cs forms names max_steps (S steps) queue' queued' a'
    end
  end.

Definition from_domain_t (ties : bool) (dom : list (string * vtype)) : astate :=
  mkA (map (fun p => (fst p, b_of_vtype (snd p))) dom) false false ties.
Definition from_domain := from_domain_t false.

Definition analyze_with_t (ties : bool) (dom : list (string * vtype)) (cs : list constr) (max_steps : nat) : astate :=
  let a := from_domain_t ties dom in
  let forms := map af_from_constraint cs in
  let names := map (fun p => constraint_names (fst p) (snd p)) (combine cs forms) in
  let n := List.length cs in
  propagate_loop (S (S max_steps)) cs forms names max_steps O (seq O n) (repeat true n) a.
Definition analyze_with := analyze_with_t false.

Definition analyze (dom : list (string * vtype)) (cs : list constr) : astate :=
  analyze_with dom cs default_max_steps.

Definition b_degenerate (b : bounds) : bool :=
  xq_gtb (lo b) (hi b) || xq_eqb (lo b) PInf || xq_eqb (hi b) NInf.

(* bounds.rs apply_to_domain *)
Definition tighten_type (a : astate) (n : string) (t : vtype) : vtype :=
  match al_get (a_vb a) n with
  | None => t
  | Some b =>
    if b_degenerate b then t else
    match t with
    | TBoolean => TBoolean
    | TIntegerRange _ _ =>
        let lower := xq_ceil (xq_sub (lo b) (a_tol a)) in
        let upper := xq_floor (xq_add (hi b) (a_tol a)) in
        if xq_gtb lower upper then t
        else TIntegerRange (xq_as_i32 lower) (xq_as_i32 upper)
    | TNonNegativeReal _ _ => TNonNegativeReal (xq_max (lo b) (Fin 0%Q)) (hi b)
    | TReal _ _ => TReal (lo b) (hi b)
    end
  end.

(* bounds.rs sync_with_domain: the rewrites may only rely on ranges the emitted domain enforces *)
Definition sync_with_domain (a : astate) (dom : list (string * vtype)) : astate :=
  fold_left (fun a p =>
    let degenerate := match al_get (a_vb a) (fst p) with Some b => b_degenerate b | None => false end in
    let reset := a_set_vb a (al_insert (a_vb a) (fst p) (b_of_vtype (snd p))) in
    if degenerate then reset else
    match snd p with
    | TBoolean | TIntegerRange _ _ => reset
    | _ => a
    end) dom a.
