(* Flatten: Exp::flatten (model.rs:324-398).  The Rust code re-enters on rebuilt trees, so the
   model recurses on fuel. *)
From Coq Require Import QArith ZArith Bool List String.
Local Close Scope Q_scope.
From Rooc Require Import Base.XQ Model.Exp.
Import ListNotations.

Definition as_addsub (e : exp) : option (binop * exp * exp) :=
  match e with
  | BinOp Add l r => Some (Add, l, r)
  | BinOp Sub l r => Some (Sub, l, r)
  | _ => None
  end.
Definition as_neg (e : exp) : option exp :=
  match e with UnOp Neg x => Some x | _ => None end.

Fixpoint flatten_f (n : nat) (e : exp) {struct n} : option exp :=
  match n with
  | O => None
  | S n =>
    let bin op a b :=
      match flatten_f n a, flatten_f n b with
      | Some fa, Some fb => Some (BinOp op fa fb)
      | _, _ => None
      end in
    match e with
    | BinOp Mul a b =>
      match as_addsub a with
      | Some (iop, l, r) => flatten_f n (BinOp iop (BinOp Mul l b) (BinOp Mul r b))
      | None =>
        match as_addsub b with
        | Some (iop, l, r) => flatten_f n (BinOp iop (BinOp Mul a l) (BinOp Mul a r))
        | None =>
          match as_neg a with
          | Some l => option_map (UnOp Neg) (flatten_f n (BinOp Mul l b))
          | None =>
            match as_neg b with
            | Some r => option_map (UnOp Neg) (flatten_f n (BinOp Mul a r))
            | None => bin Mul a b
            end
          end
        end
      end
    | BinOp Div a b =>
      match as_addsub a with
      | Some (iop, l, r) =>
        match flatten_f n (BinOp Div l b), flatten_f n (BinOp Div r b) with
        | Some x, Some y => Some (BinOp iop x y)
        | _, _ => None
        end
      | None => bin Div a b
      end
    | BinOp op a b => bin op a b
    | _ => Some e
    end
  end.

Definition flatten_fuel (e : exp) : nat := exp_size e * exp_size e + 2.
Definition flatten (e : exp) : option exp := flatten_f (flatten_fuel e) e.
