(* LinRow: the left-hand side of a row (and the objective) of LinearModel's Display (linear_model.rs, format_var in
   standard_linear_model.rs) at token level.  A term is printed as its sign, then the magnitude (omitted when it is 1)
   glued to the variable name: `- 2x + y - 0.5z`.  The grammar reads `2x` as one operand (implicit multiplication), so
   each term is ONE atom for the precedence parser; atom i stands for |c_i| * v_i. *)
From Coq Require Import Bool List Arith QArith String.
From Rooc Require Import Model.Exp Model.Pratt Model.Printer.
Import ListNotations.
Local Close Scope Q_scope.
Local Open Scope list_scope.

(* one flag per non-zero term, in column order: true = negative coefficient *)
Fixpoint row_rest (i : nat) (signs : list bool) : list ptoken :=
  match signs with
  | [] => []
  | s :: ss => PT (TInfix (if s then Sub else Add)) :: PT (TAtom i) :: row_rest (S i) ss
  end.
Definition row_tokens (signs : list bool) : list ptoken :=
  match signs with
  | [] => []                       (* the printer writes the literal 0 instead; not an expression of terms *)
  | s :: ss => (if s then [PT (TPrefix Neg)] else []) ++ PT (TAtom 0) :: row_rest 1 ss
  end.

(* the tree the text is meant to denote: ((+-t0 +- t1) +- t2) ... *)
Fixpoint row_tree_rest (i : nat) (acc : tree) (signs : list bool) : tree :=
  match signs with
  | [] => acc
  | s :: ss => row_tree_rest (S i) (Bin (if s then Sub else Add) acc (Leaf i)) ss
  end.
Definition row_tree (signs : list bool) : option tree :=
  match signs with
  | [] => None
  | s :: ss => Some (row_tree_rest 1 (if s then Pre Neg (Leaf 0) else Leaf 0) ss)
  end.

(* value of an arithmetic tree, atoms valued by av *)
Fixpoint teval (av : nat -> Q) (t : tree) : Q :=
  match t with
  | Leaf a => av a
  | Pre Neg u => Qopp (teval av u)
  | Pre UNot u => teval av u
  | Bin Add l r => Qplus (teval av l) (teval av r)
  | Bin Sub l r => Qminus (teval av l) (teval av r)
  | Bin Mul l r => Qmult (teval av l) (teval av r)
  | Bin Div l r => Qdiv (teval av l) (teval av r)
  | Bin _ l r => teval av l
  end.
(* the linear form the row stands for: sum of (+-1) * av i *)
Fixpoint row_sum (av : nat -> Q) (i : nat) (signs : list bool) : Q :=
  match signs with
  | [] => 0%Q
  | s :: ss => Qplus (if s then Qopp (av i) else av i) (row_sum av (S i) ss)
  end.
