(* Spec: what it means for a real assignment to satisfy a source model / lie in a range.
   Statements of the compiler-core properties (C01, C02, C07, C08) are phrased with these. *)
From Coq Require Import QArith Qreals Reals ZArith Bool List String.
From Rooc Require Import Base.XQ Model.Exp Model.Sem Model.Bounds.
Import ListNotations.
Local Close Scope Q_scope.
Local Open Scope R_scope.

(* membership excludes NaN bounds: soundness therefore also says that no NaN bound is ever derived *)
Definition xq_le_R (a : xq) (v : R) : Prop :=
  match a with Fin q => Q2R q <= v | NInf => True | PInf => False | NaN => False end.
Definition R_le_xq (v : R) (b : xq) : Prop :=
  match b with Fin q => v <= Q2R q | PInf => True | NInf => False | NaN => False end.
Definition in_b (b : bounds) (v : R) : Prop := xq_le_R (lo b) v /\ R_le_xq v (hi b).

(* a value lies in a variable type (NonNegativeReal lo hi means max lo 0 <= x <= hi, as apply_to_domain reads it) *)
Definition in_dom (t : vtype) (v : R) : Prop :=
  match t with
  | TBoolean => v = 0 \/ v = 1
  | TIntegerRange l u => exists z : Z, v = IZR z /\ (l <= z <= u)%Z
  | TNonNegativeReal l u => 0 <= v /\ xq_le_R l v /\ R_le_xq v u
  | TReal l u => xq_le_R l v /\ R_le_xq v u
  end.

Definition cmp_holds (c : cmp) (l r : R) : Prop :=
  match c with Le => l <= r | Ge => l >= r | Eq => l = r | Lt => l < r | Gt => l > r end.

(* a constraint holds at rho: both sides are defined and compare as stated.  A bare logic assertion is
   stored as `lhs = 1` (Constraint::new_logic_assertion), which is what wf_constr records. *)
Definition sat_constr (rho : string -> R) (c : constr) : Prop :=
  exists l r, ev rho (c_lhs c) = Some l /\ ev rho (c_rhs c) = Some r /\ cmp_holds (c_cmp c) l r.
Definition wf_constr (c : constr) : Prop :=
  c_assert c = true -> c_cmp c = Eq /\ c_rhs c = Num (Fin 1%Q).

Definition in_domains (dom : list (string * vtype)) (rho : string -> R) : Prop :=
  forall n t, In (n, t) dom -> in_dom t (rho n).

Definition feasible (dom : list (string * vtype)) (cs : list constr) (rho : string -> R) : Prop :=
  in_domains dom rho /\ forall c, In c cs -> sat_constr rho c.

Definition box_sound (a : astate) (rho : string -> R) : Prop :=
  forall n, in_b (a_get a n) (rho n).

(* ---------- the linear side *)
From Rooc Require Import Model.Linearize.
Definition xval (x : xq) : R := match x with Fin q => Q2R q | _ => 0 end.
Fixpoint dot (coeffs : list xq) (vars : list string) (sigma : string -> R) : R :=
  match coeffs, vars with
  | c :: cs, v :: vs => xval c * sigma v + dot cs vs sigma
  | _, _ => 0
  end.
Definition row_holds (vars : list string) (sigma : string -> R) (r : lrow) : Prop :=
  cmp_holds (lr_cmp r) (dot (lr_coeffs r) vars sigma) (xval (lr_rhs r)).
Definition sat_linear (L : linmodel) (sigma : string -> R) : Prop :=
  (forall r, In r (lm_rows L) -> row_holds (lm_vars L) sigma r) /\
  (forall n t, In (n, t) (lm_domain L) -> in_dom t (sigma n)).
Definition lin_objective (L : linmodel) (sigma : string -> R) : R :=
  dot (lm_objective L) (lm_vars L) sigma + xval (lm_offset L).
Definition agree_on (names : list string) (f g : string -> R) : Prop := forall n, In n names -> f n = g n.
