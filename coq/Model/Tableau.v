(* Tableau: solvers/simplex/tableau.rs (step, entering/leaving rules, pivot, solve loop with stall counter and
   Bland switch) and standard_linear_model.rs:49-263 into_tableau (direct basis, two-phase with drive-out). *)
From Coq Require Import QArith ZArith NArith Bool List String.
From Rooc Require Import Base.XQ Model.Exp Model.Bounds Model.Linearize Model.Standardize.
Import ListNotations.
Local Close Scope Q_scope.
Local Open Scope list_scope.

Record tableau := mkT {
  t_c : list xq; t_a : list (list xq); t_b : list xq; t_basis : list nat;
  t_value : xq; t_offset : xq; t_flip : bool; t_nvars : nat }.

Definition x0 : xq := Fin 0%Q.
Definition nthx (l : list xq) (i : nat) : xq := nth i l NaN.
Definition nthr (a : list (list xq)) (i : nat) : list xq := nth i a [].
Fixpoint set_nth {A} (l : list A) (i : nat) (v : A) : list A :=
  match l, i with
  | [], _ => []
  | _ :: r, O => v :: r
  | x :: r, S i => x :: set_nth r i v
  end.

(* tableau.rs:227-229 *)
Definition is_optimal (t : tableau) : bool := forallb (fun c => f_ge c x0) (t_c t).

(* tableau.rs:237-254 *)
Definition find_h (t : tableau) (use_bland : bool) : option nat :=
  let eligible := filter (fun p : nat * xq => negb (existsb (Nat.eqb (fst p)) (t_basis t)) && f_lt (snd p) x0)
                         (combine (seq 0 (List.length (t_c t))) (t_c t)) in
  match eligible with
  | [] => None
  | first :: rest =>
      if use_bland then Some (fold_left (fun m p => Nat.min m (fst p)) rest (fst first))
      else Some (fst (fold_left (fun m p => if xq_ltb (snd p) (snd m) then p else m) rest first))
  end.

(* tableau.rs:257-290 *)
Definition find_t (t : tableau) (h : nat) (prefer : list nat) : option (nat * xq) :=
  let valid := map (fun p : nat * list xq => (fst p, xq_div (nthx (t_b t) (fst p)) (nthx (snd p) h)))
                   (filter (fun p : nat * list xq => f_gt (nthx (snd p) h) x0)
                           (combine (seq 0 (List.length (t_a t))) (t_a t))) in
  let inb (l : list nat) (x : nat) := existsb (Nat.eqb x) l in
  match valid with
  | [] => None
  | first :: rest =>
      Some (fold_left (fun (mn : nat * xq) (p : nat * xq) =>
        if f_eq (snd p) (snd mn) then
          let bi := nth (fst p) (t_basis t) O in
          let bm := nth (fst mn) (t_basis t) O in
          let to_prefer := inb prefer bi && negb (inb prefer bm) in
          if Nat.ltb bi bm || to_prefer then p else mn
        else if f_lt (snd p) (snd mn) then p else mn) rest first)
  end.

(* tableau.rs:300-333.  Row operations written row by row: the pivot row is divided by the pivot, every other
   row i gets  row_i - (a[i][h] / pivot) * pivot_row  (and likewise for b, c and the value). *)
Definition mapi {A B} (f : nat -> A -> B) (l : list A) : list B :=
  map (fun p => f (fst p) (snd p)) (combine (seq 0 (List.length l)) l).
Definition row_sub (r prow : list xq) (f : xq) : list xq :=
  map (fun q : xq * xq => xq_sub (fst q) (xq_mul f (snd q))) (combine r prow).

Definition pivot (t : tableau) (tr h : nat) : tableau :=
  let prow := nthr (t_a t) tr in
  let pv := nthx prow h in
  let bt := nthx (t_b t) tr in
  let a' := mapi (fun i r => if Nat.eqb i tr then map (fun x => xq_div x pv) prow
                             else row_sub r prow (xq_div (nthx r h) pv)) (t_a t) in
  let b' := mapi (fun i (p : xq * list xq) =>
                    if Nat.eqb i tr then xq_div bt pv
                    else xq_sub (fst p) (xq_mul (xq_div (nthx (snd p) h) pv) bt)) (combine (t_b t) (t_a t)) in
  let factor := xq_div (nthx (t_c t) h) pv in
  mkT (row_sub (t_c t) prow factor) a' b' (set_nth (t_basis t) tr h)
      (xq_sub (t_value t) (xq_mul factor bt)) (t_offset t) (t_flip t) (t_nvars t).

Inductive step_result := SPivot (t : tableau) (entering leaving : nat) | SFinished | SUnbounded.

(* tableau.rs:197-225 *)
Definition step_inner (t : tableau) (avoid : list nat) (use_bland : bool) : step_result :=
  if is_optimal t then SFinished else
  match find_h t use_bland with
  | None => SFinished
  | Some h => match find_t t h avoid with
              | None => SUnbounded
              | Some (tr, _) => SPivot (pivot t tr h) h tr
              end
  end.

Inductive solve_result := ROptimal (t : tableau) | RUnbounded (t : tableau) | RLimit (t : tableau).

(* tableau.rs:162-193 ; returns the trace of (entering, leaving) too *)
Fixpoint solve_loop (fuel : nat) (t : tableau) (avoid : list nat) (limit iteration : nat) (stalls : nat) (last_value : xq)
                    (trace : list (nat * nat)) : solve_result * list (nat * nat) :=
  match fuel with
  | O => (RLimit t, trace)
  | S fuel =>
    if Nat.leb limit iteration then (RLimit t, trace) else
    let stall_limit := List.length (t_c t) + List.length (t_a t) + 1 in
    let use_bland := Nat.ltb stall_limit stalls in
    match step_inner t avoid use_bland with
    | SFinished => (ROptimal t, trace)
    | SUnbounded => (RUnbounded t, trace)
    | SPivot t' h tr =>
        if f_eq (t_value t') last_value
        then solve_loop fuel t' avoid limit (S iteration) (S stalls) last_value (trace ++ [(h, tr)])
        else solve_loop fuel t' avoid limit (S iteration) O (t_value t') (trace ++ [(h, tr)])
    end
  end.
Definition solve_avoiding (t : tableau) (limit : nat) (avoid : list nat) : solve_result * list (nat * nat) :=
  solve_loop (S limit) t avoid limit O O (t_value t) [].

(* ---------- into_tableau *)
Inductive terr := TInfeasible | TInvalidBasis | TSimplexError.

Definition a_matrix (s : stdmodel) := map eq_coeffs (sm_cons s).
Definition b_vec (s : stdmodel) := map eq_rhs (sm_cons s).

(* standard_linear_model.rs:51-72 : usable independent variables (row, column, value) *)
Definition independent_vars (s : stdmodel) : list (nat * nat * xq) :=
  flat_map (fun column =>
    let hits := filter (fun p : nat * eqcon => negb (xq_is_zero (nthx (eq_coeffs (snd p)) column)))   (* exact: `coeff != 0.0` *)
                       (combine (seq 0 (List.length (sm_cons s))) (sm_cons s)) in
    match rev hits with
    | last :: _ =>
        if Nat.eqb (List.length hits) 1 && f_gt (nthx (eq_coeffs (snd last)) column) x0
        then [(fst last, column, nthx (eq_coeffs (snd last)) column)] else []
    | [] => []
    end) (seq 0 (List.length (sm_vars s))).

(* restore an objective in canonical form w.r.t. a basis: for each (row, column) subtract *)
Definition canon_objective (c : list xq) (a : list (list xq)) (b : list xq) (basis_rows : list (nat * nat)) : list xq * xq :=
  fold_left (fun (st : list xq * xq) (rc : nat * nat) =>
    let (c, value) := st in
    let amount := nthx c (snd rc) in
    (map (fun q : xq * xq => xq_sub (fst q) (xq_mul amount (snd q))) (combine c (nthr a (fst rc))),
     xq_sub value (xq_mul amount (nthx b (fst rc))))) basis_rows (c, x0).

Definition two_phase (s : stdmodel) : terr + tableau :=
  let m := List.length (sm_cons s) in
  let n := List.length (sm_vars s) in
  let a := map (fun p : nat * list xq =>
              set_nth (resize (snd p) (n + m)) (fst p + n) (Fin 1%Q)) (combine (seq 0 m) (a_matrix s)) in
  let b := b_vec s in
  let c0 := repeat x0 n ++ repeat (Fin 1%Q) m in
  let basis := map (fun i => n + i) (seq 0 m) in
  (* c[j] -= coefficient for every row; value -= b[i] *)
  let c := fold_left (fun c row => map (fun q : xq * xq => xq_sub (fst q) (snd q)) (combine c row)) a c0 in
  let value := fold_left (fun v bi => xq_sub v bi) b x0 in
  let t0 := mkT c a b basis value (sm_offset s) (sm_flip s) (n + m) in
  let artificial := map (fun i => n + i) (seq 0 m) in
  match solve_avoiding t0 (Z.to_nat 10000) artificial with
  | (RUnbounded _, _) | (RLimit _, _) => inl TSimplexError
  | (ROptimal t, _) =>
    if f_ne (t_value t) x0 then inl TInfeasible else
    (* drive the artificial variables out of the basis *)
    let '(a1, b1, basis1, drop) :=
      fold_left (fun (st : list (list xq) * list xq * list nat * list nat) (row : nat) =>
        let '(a, b, basis, drop) := st in
        if Nat.ltb (nth row basis O) n then st else
        let r := nthr a row in
        match filter (fun j => f_ne (nthx r j) x0) (seq 0 n) with
        | [] => (a, b, basis, drop ++ [row])
        | col :: _ =>
            let pv := nthx r col in
            let prow := map (fun x => xq_div x pv) r in
            let brow := xq_div (nthx b row) pv in
            let a' := map (fun p : nat * list xq =>
                        if Nat.eqb (fst p) row then prow else
                        let factor := nthx (snd p) col in
                        if xq_is_zero factor then snd p
                        else map (fun q : xq * xq => xq_sub (fst q) (xq_mul factor (snd q))) (combine (snd p) prow))
                        (combine (seq 0 (List.length a)) a) in
            let b' := map (fun p : nat * (xq * list xq) =>
                        if Nat.eqb (fst p) row then brow else
                        let factor := nthx (snd (snd p)) col in
                        if xq_is_zero factor then fst (snd p)
                        else xq_sub (fst (snd p)) (xq_mul factor brow))
                        (combine (seq 0 (List.length b)) (combine b a)) in
            (a', b', set_nth basis row col, drop)
        end) (seq 0 (List.length (t_basis t))) (t_a t, t_b t, t_basis t, []) in
    let keep := filter (fun row => negb (existsb (Nat.eqb row) drop)) (seq 0 (List.length a1)) in
    let new_a := map (fun row => firstn n (nthr a1 row)) keep in
    let new_b := map (fun row => nthx b1 row) keep in
    let new_basis := map (fun row => nth row basis1 O) keep in
    if negb (forallb (fun i => Nat.ltb i n) new_basis) then inl TInvalidBasis else
    let (new_c, value) := canon_objective (sm_obj s) new_a new_b (combine (seq 0 (List.length new_basis)) new_basis) in
    inr (mkT new_c new_a new_b new_basis value (sm_offset s) (sm_flip s) n)
  end.

(* standard_linear_model.rs:49-115 *)
Definition into_tableau (s : stdmodel) : terr + tableau :=
  let ind := independent_vars s in
  let m := List.length (sm_cons s) in
  if Nat.leb m (List.length ind) then
    (* one per row, first occurrence kept *)
    let selected := flat_map (fun row =>
        match filter (fun v : nat * nat * xq => Nat.eqb (fst (fst v)) row) ind with
        | v :: _ => [v] | [] => [] end) (seq 0 m) in
    if Nat.ltb (List.length selected) m then two_phase s else
    let '(a, b, c, value) :=
      fold_left (fun (st : list (list xq) * list xq * list xq * xq) (v : nat * nat * xq) =>
        let '(a, b, c, value) := st in
        let '(row, column, val) := v in
        let arow := map (fun x => xq_div x val) (nthr a row) in
        let a' := set_nth a row arow in
        let b' := set_nth b row (xq_div (nthx b row) val) in
        let amount := nthx c column in
        let c' := map (fun q : xq * xq => xq_sub (fst q) (xq_mul amount (snd q))) (combine c arow) in
        (a', b', c', xq_sub value (xq_mul amount (nthx b' row))))
      selected (a_matrix s, b_vec s, sm_obj s, x0) in
    inr (mkT c a b (map (fun v : nat * nat * xq => snd (fst v)) selected) value (sm_offset s) (sm_flip s) (List.length (sm_vars s)))
  else two_phase s.

(* optimal_tableau.rs:28-33 *)
Definition optimal_value (t : tableau) : xq :=
  xq_add (xq_mul (xq_neg (t_value t)) (if t_flip t then Fin (-1)%Q else Fin 1%Q)) (t_offset t).
Definition variables_values (t : tableau) : list xq :=
  fold_left (fun vals p => set_nth vals (snd p) (nthx (t_b t) (fst p)))
            (combine (seq 0 (List.length (t_basis t))) (t_basis t)) (repeat x0 (List.length (t_c t))).
