(* Expand: the data-driven constructs of the source language and their expansion into the compiled model
   (parser/recursive_set_resolver.rs, il/il_exp.rs into_exp for block and scoped-block functions, il/iterable_set.rs,
   il/il_problem.rs compute_indexes, model_transformer/transformer_context.rs flatten_variable_name,
   domain_declaration.rs compute_domain, runtime_builtin/functions: range, len, enumerate, nodes, edges, neigh_edges).
   A reference unroller in Gallina: iteration order, range ends, scoping, destructuring, index flattening, folds. *)
From Coq Require Import QArith Qround ZArith Bool List String Decimal DecimalString.
From Rooc Require Import Base.XQ Model.Exp.
Import ListNotations.
Local Close Scope Q_scope.
Open Scope string_scope.

(* ---------- data *)
Inductive dval :=
| DNum (x : xq)
| DStr (s : string)
| DBool (b : bool)
| DList (l : list dval)
| DTuple (l : list dval)
| DNode (name : string) (edges : list (string * string * option xq))
| DGraph (nodes : list (string * list (string * string * option xq))).
Definition denv := list (string * dval).
Fixpoint lookup (env : denv) (n : string) : option dval :=
  match env with [] => None | (k, v) :: r => if String.eqb k n then Some v else lookup r n end.
(* inner scopes shadow outer ones: new bindings are pushed in front *)
Definition bind (env : denv) (n : string) (v : dval) : denv := (n, v) :: env.

(* value expressions: what the compiler evaluates at expansion time *)
Inductive setk := SUnion | SInter | SDiff.
Inductive iex :=
| INum (x : xq)
| IVar (n : string)
| IBin (op : binop) (a b : iex)          (* Add, Sub, Mul on whole numbers *)
| IAt (a : iex) (i : iex)
| ILen (a : iex)
| IRange (lo hi : iex) (inclusive : bool)
| IEnumerate (a : iex)
| INodes (g : iex)
| IEdges (g : iex)
| INeighEdges (v : iex)
| ISet (k : setk) (a b : iex).              (* union / intersection / difference of two arrays of numbers *)

Definition whole (x : xq) : option Z :=
  match x with Fin q => if Qeq_bool (inject_Z (Qfloor q)) q then Some (Qfloor q) else None | _ => None end.
Definition znum (z : Z) : dval := DNum (Fin (inject_Z z)).
Definition edge_val (e : string * string * option xq) : dval :=
  let '(f, t, w) := e in DTuple [DStr f; DStr t; DNum (match w with Some x => x | None => Fin 1%Q end)].

Fixpoint zrange (n : nat) (lo : Z) : list dval :=
  match n with O => [] | S k => znum lo :: zrange k (lo + 1)%Z end.
Fixpoint enum_from (i : Z) (l : list dval) : list dval :=
  match l with [] => [] | x :: xs => DTuple [x; znum i] :: enum_from (i + 1)%Z xs end.

(* array_functions.rs: union keeps the first occurrence of every value of a ++ b; intersection / difference filter a *)
Definition num_mem (x : xq) (l : list dval) : bool :=
  existsb (fun d => match d with DNum y => xq_eqb x y | _ => false end) l.
Fixpoint dedup_nums (l acc : list dval) : list dval :=
  match l with
  | [] => acc
  | DNum x :: r => if num_mem x acc then dedup_nums r acc else dedup_nums r (acc ++ [DNum x])
  | d :: r => dedup_nums r (acc ++ [d])
  end.
Definition all_nums (l : list dval) : bool := forallb (fun d => match d with DNum _ => true | _ => false end) l.
Fixpoint ieval (env : denv) (e : iex) : option dval :=
  match e with
  | INum x => Some (DNum x)
  | IVar n => lookup env n
  | IBin op a b =>
      match ieval env a, ieval env b with
      | Some (DNum x), Some (DNum y) =>
          match op with
          | Add => Some (DNum (xq_add x y)) | Sub => Some (DNum (xq_sub x y)) | Mul => Some (DNum (xq_mul x y))
          | _ => None end
      | _, _ => None
      end
  | IAt a i =>
      match ieval env a, ieval env i with
      | Some (DList l), Some (DNum x) =>
          match whole x with Some z => if (0 <=? z)%Z then nth_error l (Z.to_nat z) else None | None => None end
      | _, _ => None
      end
  | ILen a => match ieval env a with Some (DList l) => Some (znum (Z.of_nat (List.length l))) | _ => None end
  | IRange lo hi incl =>
      match ieval env lo, ieval env hi with
      | Some (DNum x), Some (DNum y) =>
          match whole x, whole y with
          | Some a, Some b => let last := if incl then (b + 1)%Z else b in Some (DList (zrange (Z.to_nat (last - a)) a))
          | _, _ => None end
      | _, _ => None
      end
  | IEnumerate a => match ieval env a with Some (DList l) => Some (DList (enum_from 0 l)) | _ => None end
  | INodes g => match ieval env g with Some (DGraph ns) => Some (DList (map (fun p => DNode (fst p) (snd p)) ns)) | _ => None end
  | IEdges g => match ieval env g with Some (DGraph ns) => Some (DList (map edge_val (flat_map snd ns))) | _ => None end
  | INeighEdges v => match ieval env v with Some (DNode _ es) => Some (DList (map edge_val es)) | _ => None end
  | ISet k a b =>
      match ieval env a, ieval env b with
      | Some (DList la), Some (DList lb) =>
          if all_nums la && all_nums lb then
            Some (DList (match k with
                         | SUnion => dedup_nums (la ++ lb) []
                         | SInter => filter (fun d => match d with DNum x => num_mem x lb | _ => false end) la
                         | SDiff => filter (fun d => match d with DNum x => negb (num_mem x lb) | _ => false end) la
                         end))
          else None
      | _, _ => None
      end
  end.

(* ---------- iteration: `for p1 in it1, p2 in it2, ...` ; the first is the outermost loop *)
Inductive pat := PSingle (n : string) | PTuple (ns : list string).    (* "_" is an ordinary name nobody reads *)
(* a loop variable may not reuse a name bound in an enclosing scope (declare_variable is strict: AlreadyDeclaredVariable) *)
Definition bind_fresh (outer env : denv) (n : string) (v : dval) : option denv :=
  match lookup outer n with Some _ => None | None => Some (bind env n v) end.
Fixpoint bind_tuple (outer env : denv) (ns : list string) (vs : list dval) : option denv :=
  match ns, vs with
  | [], _ => Some env                          (* a tuple shorter than the value ignores the rest *)
  | n :: ns', v :: vs' => match bind_fresh outer env n v with Some e => bind_tuple outer e ns' vs' | None => None end
  | _ :: _, [] => None                         (* cannot destructure *)
  end.
Definition spread (v : dval) : option (list dval) :=
  match v with DTuple l => Some l | DList l => Some l | _ => None end.
Definition bind_pat (env : denv) (p : pat) (v : dval) : option denv :=
  match p with
  | PSingle n => bind_fresh env env n v
  | PTuple ns => match spread v with Some vs => bind_tuple env env ns vs | None => None end
  end.
Fixpoint iter_envs (binds : list (pat * iex)) (env : denv) : option (list denv) :=
  match binds with
  | [] => Some [env]
  | (p, it) :: rest =>
      match ieval env it with
      | Some (DList vs) =>
          let step (acc : option (list denv)) (v : dval) :=
            match acc, bind_pat env p v with
            | Some done, Some env' => match iter_envs rest env' with Some inner => Some (done ++ inner)%list | None => None end
            | _, _ => None
            end in
          fold_left step vs (Some [])
      | _ => None
      end
  end.

(* ---------- names *)
Definition show_Z (z : Z) : string := NilZero.string_of_int (Z.to_int z).
Definition show_idx (v : dval) : option string :=
  match v with
  | DNum x => option_map show_Z (whole x)
  | DStr s => Some s
  | DBool b => Some (if b then "T" else "F")
  | DNode n _ => Some n
  | _ => None
  end.
Fixpoint join (sep : string) (l : list string) : string :=
  match l with [] => "" | [x] => x | x :: xs => x ++ sep ++ join sep xs end.
(* an identifier index with no bound value is a literal name fragment (il_problem.rs compute_indexes) *)
Definition idx_value (env : denv) (i : iex) : option dval :=
  match i with
  | IVar n => match lookup env n with Some v => Some v | None => Some (DStr n) end
  | _ => ieval env i
  end.
Definition flat_name (env : denv) (n : string) (idx : list iex) : option string :=
  match idx with
  | [] => Some n
  | _ => match mapM (fun i => match idx_value env i with Some v => show_idx v | None => None end) idx with
         | Some parts => Some (n ++ "_" ++ join "_" parts)
         | None => None end
  end.

(* ---------- expressions with aggregation constructs *)
Inductive akind := KSum | KProd | KMin | KMax | KAvg | KAll | KAny | KXor.
Inductive pexp :=
| PNum (x : xq)
| PVal (v : iex)                       (* a constant, an array element, len(..), a loop variable: becomes a number *)
| PDec (n : string)                    (* a decision variable *)
| PComp (n : string) (idx : list iex)  (* an indexed decision variable x_i, x_{i+1}_j *)
| PBin (op : binop) (a b : pexp)
| PNeg (a : pexp)
| PNot (a : pexp)
| PAbs (a : pexp)
| PBlock (k : akind) (l : list pexp)                       (* min { a, b }, avg { .. }, all { .. } *)
| PScoped (k : akind) (binds : list (pat * iex)) (body : pexp).   (* sum(i in A, j in 0..n) { body } *)

Definition logic_exp (op : binop) (a b : exp) : exp :=
  match op with
  | BAnd => And [a; b] | BOr => Or [a; b] | BXor => Xor a b | BImplies => Implies a b | BIff => Iff a b
  | _ => BinOp op a b
  end.
(* r1 op (r2 op (... op rn)), the neutral element when empty *)
Fixpoint fold_right_op (op : binop) (neutral : exp) (l : list exp) : exp :=
  match l with
  | [] => neutral
  | [x] => x
  | x :: xs => BinOp op x (fold_right_op op neutral xs)
  end.
Definition fold_xor (l : list exp) : exp :=
  match l with [] => Num (Fin 0%Q) | x :: xs => fold_left (fun acc e => Xor acc e) xs x end.
Definition aggregate (k : akind) (l : list exp) : exp :=
  match k with
  | KSum => fold_right_op Add (Num (Fin 0%Q)) l
  | KProd => fold_right_op Mul (Num (Fin 1%Q)) l
  | KMin => Min l
  | KMax => Max l
  | KAvg => BinOp Div (fold_right_op Add (Num (Fin 0%Q)) l) (Num (Fin (inject_Z (Z.of_nat (List.length l)))))
  | KAll => And l
  | KAny => Or l
  | KXor => fold_xor l
  end.
Definition as_number (v : dval) : option xq :=
  match v with DNum x => Some x | DBool b => Some (Fin (if b then 1%Q else 0%Q)) | _ => None end.

(* a value expression in an expression position keeps its operators (into_exp recurses through BinaryOperation);
   names, array elements and function results become numbers *)
Fixpoint expand_val (env : denv) (v : iex) : option exp :=
  match v with
  | IBin op a b => match expand_val env a, expand_val env b with Some x, Some y => Some (BinOp op x y) | _, _ => None end
  | _ => match ieval env v with Some d => option_map Num (as_number d) | None => None end
  end.

Fixpoint expand (p : pexp) (env : denv) {struct p} : option exp :=
  let fix expand_list (l : list pexp) : option (list exp) :=
    match l with
    | [] => Some []
    | x :: xs => match expand x env, expand_list xs with Some e, Some es => Some (e :: es) | _, _ => None end
    end in
  match p with
  | PNum x => Some (Num x)
  | PVal v => expand_val env v
  | PDec n => Some (Var n)
  | PComp n idx => option_map Var (flat_name env n idx)
  | PBin op a b => match expand a env, expand b env with Some x, Some y => Some (logic_exp op x y) | _, _ => None end
  | PNeg a => match expand a env with
              | Some (Num x) => Some (Num (xq_neg x))        (* a negative literal is the constant itself *)
              | Some x => Some (UnOp Neg x) | None => None end
  | PNot a => option_map Not (expand a env)
  | PAbs a => option_map Abs (expand a env)
  | PBlock k l => option_map (aggregate k) (expand_list l)
  | PScoped k binds body =>
      match iter_envs binds env with
      | Some envs => option_map (aggregate k) (mapM (expand body) envs)
      | None => None
      end
  end.

(* ---------- constraints and declarations with `for` *)
Record pcon := mkPCon { pc_name : string; pc_idx : list iex; pc_lhs : pexp; pc_cmp : cmp; pc_rhs : pexp; pc_assert : bool; pc_iters : list (pat * iex) }.
Definition expand_con (env : denv) (c : pcon) : option (list constr) :=
  match iter_envs (pc_iters c) env with
  | Some envs =>
      mapM (fun e =>
        match flat_name e (pc_name c) (pc_idx c), expand (pc_lhs c) e, expand (pc_rhs c) e with
        | Some n, Some l, Some r => Some (mkConstr n l (pc_cmp c) r (pc_assert c))
        | _, _, _ => None end) envs
  | None => None
  end.

Inductive ptype := QBool | QReal (lo hi : option iex) | QNonNeg (lo hi : option iex) | QIntRange (lo hi : iex).
Record pdecl := mkPDecl { pd_vars : list (string * list iex); pd_type : ptype; pd_iters : list (pat * iex) }.
Definition bound_of (env : denv) (b : option iex) (default : xq) : option xq :=
  match b with None => Some default | Some e => match ieval env e with Some d => as_number d | None => None end end.
Definition type_of (env : denv) (t : ptype) : option vtype :=
  match t with
  | QBool => Some TBoolean
  | QReal lo hi => match bound_of env lo NInf, bound_of env hi PInf with Some a, Some b => Some (TReal a b) | _, _ => None end
  | QNonNeg lo hi => match bound_of env lo (Fin 0%Q), bound_of env hi PInf with Some a, Some b => Some (TNonNegativeReal a b) | _, _ => None end
  | QIntRange lo hi =>
      match ieval env lo, ieval env hi with
      | Some (DNum a), Some (DNum b) => match whole a, whole b with Some x, Some y => Some (TIntegerRange x y) | _, _ => None end
      | _, _ => None end
  end.
Definition expand_decl (env : denv) (d : pdecl) : option (list (string * vtype)) :=
  match iter_envs (pd_iters d) env with
  | Some envs =>
      option_map (@List.concat _)
        (mapM (fun e => mapM (fun v => match flat_name e (fst v) (snd v), type_of e (pd_type d) with
                                      | Some n, Some t => Some (n, t) | _, _ => None end) (pd_vars d)) envs)
  | None => None
  end.

Record pprog := mkPProg { pp_env : denv; pp_dir : direction; pp_obj : pexp; pp_cons : list pcon; pp_decls : list pdecl }.
Definition expand_prog (p : pprog) : option (exp * list constr * list (string * vtype)) :=
  match expand (pp_obj p) (pp_env p), mapM (expand_con (pp_env p)) (pp_cons p), mapM (expand_decl (pp_env p)) (pp_decls p) with
  | Some o, Some cs, Some ds => Some (o, List.concat cs, List.concat ds)
  | _, _, _ => None
  end.
