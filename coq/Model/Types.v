(* Types: the primitive layer of the type system.
   - kinds (primitives/primitive.rs PrimitiveKind; element types of Iterable/Tuple are not distinguished here)
   - static operator tables: PrimitiveKind::can_apply_binary_op / can_apply_unary_op (primitive.rs) dispatching to the
     per-type tables of builtin_primitive_traits_impl.rs, graph.rs, tuple.rs, iterable.rs
   - static result kinds: PreExp::get_type for BinaryOperation / UnaryOperation (il_exp.rs)
   - dynamic semantics: Primitive::apply_binary_op / apply_unary_op, with checked i64/u64 arithmetic and checked division
   - constant expressions (PreExp::as_primitive on literals, constants and operators) with their checker. *)
From Coq Require Import QArith ZArith Bool List String.
From Rooc Require Import Model.Exp.
Import ListNotations.
Local Close Scope Q_scope.
Local Open Scope Z_scope.

Inductive kind := KNumber | KInteger | KPosInt | KString | KIterable | KGraph | KEdge | KNode | KTuple | KBoolean | KUndefined | KAny.

Definition kind_eqb (a b : kind) : bool :=
  match a, b with
  | KNumber, KNumber | KInteger, KInteger | KPosInt, KPosInt | KString, KString | KIterable, KIterable | KGraph, KGraph
  | KEdge, KEdge | KNode, KNode | KTuple, KTuple | KBoolean, KBoolean | KUndefined, KUndefined | KAny, KAny => true
  | _, _ => false
  end.
Definition is_numeric (k : kind) : bool := match k with KNumber | KInteger | KPosInt | KBoolean => true | _ => false end.
Definition is_arith (op : binop) : bool := match op with Add | Sub | Mul | Div => true | _ => false end.

(* per-type tables *)
Definition can_bin_own (k : kind) (op : binop) (to : kind) : bool :=
  match k with
  | KString => match op with Add => kind_eqb to KString | _ => false end
  | KBoolean => if is_arith op then is_numeric to else kind_eqb to KBoolean
  | KNumber | KInteger | KPosInt => is_arith op && is_numeric to
  | _ => false
  end.
(* PrimitiveKind::can_apply_binary_op *)
Definition can_bin (k : kind) (op : binop) (to : kind) : bool :=
  match to, k with
  | KAny, KUndefined => false
  | KAny, _ => true                      (* an operand typed only at runtime is accepted on either side *)
  | _, KAny => true
  | _, KUndefined => false
  | _, _ => can_bin_own k op to
  end.
Definition can_un (k : kind) (op : unop) : bool :=
  match k with
  | KAny => true
  | KBoolean => true
  | KNumber | KInteger | KPosInt => match op with Neg => true | UNot => false end
  | _ => false
  end.

(* static result kinds (get_type) *)
Definition res_bin (l : kind) (op : binop) (r : kind) : kind :=
  if is_arith op then
    if is_numeric l && is_numeric r then
      let number := kind_eqb l KNumber || kind_eqb r KNumber || kind_eqb l KBoolean in
      match op with
      | Add | Mul => if number then KNumber else if kind_eqb l KInteger || kind_eqb r KInteger then KInteger else KPosInt
      | Sub => if number then KNumber else KInteger
      | _ => KNumber
      end
    else l
  else KBoolean.
Definition res_un (op : unop) (k : kind) : kind :=
  match op with UNot => KBoolean | Neg => match k with KBoolean => KNumber | o => o end end.

(* ---------- values and the dynamic semantics *)
Inductive value :=
| VNum (q : Q) | VInt (z : Z) | VPos (n : Z) | VStr (s : string) | VBool (b : bool)
| VOpaque (k : kind)          (* iterables, graphs, edges, nodes, tuples: no operator applies to them *)
| VUndef.
Definition kind_of (v : value) : kind :=
  match v with
  | VNum _ => KNumber | VInt _ => KInteger | VPos _ => KPosInt | VStr _ => KString | VBool _ => KBoolean
  | VOpaque k => k | VUndef => KUndefined
  end.

Inductive oerr := EIncompatible | EUnsupported | EUndefinedUse | EDivZero | EOverflow.
(* the type-class errors of the property; division by zero and overflow are data-dependent *)
Definition type_class (e : oerr) : bool := match e with EIncompatible | EUnsupported | EUndefinedUse => true | _ => false end.

Definition i64_min := (- 9223372036854775808)%Z.
Definition i64_max := 9223372036854775807%Z.
Definition u64_max := 18446744073709551615%Z.
Definition chk_i64 (z : Z) : value + oerr := if (i64_min <=? z) && (z <=? i64_max) then inl (VInt z) else inr EOverflow.
Definition chk_u64 (z : Z) : value + oerr := if (0 <=? z) && (z <=? u64_max) then inl (VPos z) else inr EOverflow.
Definition chk_div (a b : Q) : value + oerr := if Qeq_bool b 0 then inr EDivZero else inl (VNum (a / b)%Q).
Definition b2z (b : bool) : Z := if b then 1 else 0.
(* `n as i64` for a u64 *)
Definition as_i64 (n : Z) : Z := if n <=? i64_max then n else n - 18446744073709551616.

Definition num_bin (a : Q) (op : binop) (b : Q) : value + oerr :=
  match op with
  | Add => inl (VNum (a + b)%Q) | Sub => inl (VNum (a - b)%Q) | Mul => inl (VNum (a * b)%Q) | Div => chk_div a b
  | _ => inr EUnsupported
  end.
(* f64::apply_binary_op *)
Definition f64_bin (a : Q) (op : binop) (to : value) : value + oerr :=
  match to with
  | VNum n => num_bin a op n
  | VInt n | VPos n => num_bin a op (inject_Z n)
  | VBool b => num_bin a op (inject_Z (b2z b))
  | _ => inr EIncompatible
  end.
Definition int_arith (a : Z) (op : binop) (b : Z) : value + oerr :=
  match op with
  | Add => chk_i64 (a + b) | Sub => chk_i64 (a - b) | Mul => chk_i64 (a * b)
  | Div => chk_div (inject_Z a) (inject_Z b)
  | _ => inr EUnsupported
  end.
Definition apply_bin (v : value) (op : binop) (to : value) : value + oerr :=
  match v with
  | VBool a =>
      if is_arith op then f64_bin (inject_Z (b2z a)) op to
      else match to with
           | VBool b => inl (VBool (match op with BAnd => a && b | BOr => a || b | BXor => xorb a b
                                               | BImplies => negb a || b | _ => Bool.eqb a b end))
           | _ => inr EIncompatible
           end
  | VStr a => match to with
              | VStr b => match op with Add => inl (VStr (a ++ b)) | _ => inr EUnsupported end
              | _ => inr EIncompatible
              end
  | VNum a => f64_bin a op to
  | VInt a =>
      match to with
      | VInt b => int_arith a op b
      | VNum b => num_bin (inject_Z a) op b
      | VPos b => match op with Div => chk_div (inject_Z a) (inject_Z b) | _ => int_arith a op (as_i64 b) end
      | VBool b => int_arith a op (b2z b)
      | _ => inr EIncompatible
      end
  | VPos a =>
      match to with
      | VPos b => match op with
                  | Add => chk_u64 (a + b) | Mul => chk_u64 (a * b)
                  | Sub => chk_i64 (as_i64 a - as_i64 b)
                  | Div => chk_div (inject_Z a) (inject_Z b)
                  | _ => inr EUnsupported end
      | VInt b => match op with Div => chk_div (inject_Z a) (inject_Z b) | _ => int_arith (as_i64 a) op b end
      | VNum b => num_bin (inject_Z a) op b
      | VBool b => match op with
                   | Add => chk_u64 (a + b2z b) | Mul => chk_u64 (a * b2z b)
                   | Sub => chk_i64 (as_i64 a - b2z b)
                   | Div => chk_div (inject_Z a) (inject_Z (b2z b))
                   | _ => inr EUnsupported end
      | _ => inr EIncompatible
      end
  | VOpaque _ => inr EUnsupported
  | VUndef => inr EUndefinedUse
  end.
Definition apply_un (op : unop) (v : value) : value + oerr :=
  match v with
  | VBool b => match op with UNot => inl (VBool (negb b)) | Neg => inl (VNum (- inject_Z (b2z b))%Q) end
  | VNum q => match op with Neg => inl (VNum (- q)%Q) | UNot => inr EUnsupported end
  | VInt z => match op with Neg => chk_i64 (- z) | UNot => inr EUnsupported end       (* checked_neg *)
  | VPos n => match op with Neg => chk_i64 (- n) | UNot => inr EUnsupported end       (* i64::try_from then checked_neg *)
  | VStr _ | VOpaque _ => inr EUnsupported
  | VUndef => inr EUndefinedUse
  end.

(* ---------- constant expressions: literals, named constants, operators *)
Inductive cexp := CLit (v : value) | CConst (name : string) | CBin (op : binop) (a b : cexp) | CUn (op : unop) (a : cexp).

Section Env.
  Variable tenv : string -> option kind.      (* what the checker knows: the declared kind of each constant *)
  Variable venv : string -> option value.     (* the constants' values at transform time *)

  Fixpoint ctype (e : cexp) : kind :=
    match e with
    | CLit v => kind_of v
    | CConst n => match tenv n with Some k => k | None => KUndefined end
    | CBin op a b => res_bin (ctype a) op (ctype b)
    | CUn op a => res_un op (ctype a)
    end.
  Fixpoint ccheck (e : cexp) : bool :=
    match e with
    | CLit _ => true
    | CConst n => match tenv n with Some _ => true | None => false end
    | CBin op a b => ccheck a && ccheck b && can_bin (ctype a) op (ctype b)
    | CUn op a => ccheck a && can_un (ctype a) op
    end.
  Inductive cres := ROk (v : value) | ROp (e : oerr) | RUndeclared.
  Fixpoint ceval (e : cexp) : cres :=
    match e with
    | CLit v => ROk v
    | CConst n => match venv n with Some v => ROk v | None => RUndeclared end
    | CBin op a b =>
        match ceval a with
        | ROk x => match ceval b with
                   | ROk y => match apply_bin x op y with inl v => ROk v | inr e => ROp e end
                   | r => r end
        | r => r
        end
    | CUn op a =>
        match ceval a with
        | ROk x => match apply_un op x with inl v => ROk v | inr e => ROp e end
        | r => r
        end
    end.
End Env.

(* a dynamic kind is acceptable for a static kind: equal, or both numeric (the static result kind of an arithmetic
   operator is one numeric kind, the dynamic one may be a neighbouring numeric kind: -n for a PositiveInteger n is an
   Integer).  A static Any (member of a mixed compound family of VARIABLES) promises nothing - "fails at runtime" by
   design - and never is the kind of a constant, so it fits no run-time kind here. *)
Definition is_number_kind (k : kind) : bool := match k with KNumber | KInteger | KPosInt => true | _ => false end.
Definition fits (static dynamic : kind) : bool :=
  kind_eqb static dynamic || (is_number_kind static && is_number_kind dynamic).
