(* Builder: the fluent front door (builder/expr.rs, builder/model.rs, builder/solution.rs).
   - bexpr: the index-based expression tree the builder's methods, operators and macros construct (Expr)
   - to_exp: its translation to the name-based tree the rest of the compiler consumes (expr.rs to_exp)
   - beval: the builder's own evaluator of expressions at a solution (expr.rs eval_expr), over the reals; None where
     the f64 code produces an IEEE special instead of a number (division by zero, empty min/max, non-finite constant)
   - handle resolution: a handle is an index into the list of declared names (solution.rs var_value) *)
From Coq Require Import QArith Qreals Reals ZArith Bool List String.
From Rooc Require Import Base.XQ Model.Exp Model.Sem.
Import ListNotations.
Local Close Scope Q_scope.
Local Open Scope R_scope.

Inductive bexpr :=
| ENum (x : xq)
| EVar (i : nat)
| EAbs (e : bexpr)
| EMin (l : list bexpr)
| EMax (l : list bexpr)
| EAnd (l : list bexpr)
| EOr (l : list bexpr)
| ENot (e : bexpr)
| EXor (a b : bexpr)
| EImplies (a b : bexpr)
| EIff (a b : bexpr)
| EBin (op : binop) (a b : bexpr)
| EUn (op : unop) (e : bexpr).

Definition name_of (names : list string) (i : nat) : string := nth i names ""%string.

Fixpoint to_exp (names : list string) (e : bexpr) : exp :=
  match e with
  | ENum x => Num x
  | EVar i => Var (name_of names i)
  | EAbs x => Abs (to_exp names x)
  | EMin l => Min (map (to_exp names) l)
  | EMax l => Max (map (to_exp names) l)
  | EAnd l => And (map (to_exp names) l)
  | EOr l => Or (map (to_exp names) l)
  | ENot x => Not (to_exp names x)
  | EXor a b => Xor (to_exp names a) (to_exp names b)
  | EImplies a b => Implies (to_exp names a) (to_exp names b)
  | EIff a b => Iff (to_exp names a) (to_exp names b)
  | EBin op a b => BinOp op (to_exp names a) (to_exp names b)
  | EUn op x => UnOp op (to_exp names x)
  end.

Section BEval.
  Variable var : nat -> R.
  Fixpoint beval (e : bexpr) : option R :=
    let fix bl (l : list bexpr) : option (list R) :=
      match l with
      | [] => Some []
      | x :: xs => match beval x, bl xs with Some v, Some vs => Some (v :: vs) | _, _ => None end
      end in
    match e with
    | ENum (Fin q) => Some (Q2R q)
    | ENum _ => None
    | EVar i => Some (var i)
    | EAbs x => option_map Rabs (beval x)
    | EMin l => match bl l with Some vs => fold_min vs | None => None end
    | EMax l => match bl l with Some vs => fold_max vs | None => None end
    | EAnd l => option_map (fun vs => bnR (forallb truthyR vs)) (bl l)
    | EOr l => option_map (fun vs => bnR (existsb truthyR vs)) (bl l)
    | ENot x => option_map (fun v => bnR (negb (truthyR v))) (beval x)
    | EXor a b => match beval a, beval b with Some x, Some y => Some (bnR (xorb (truthyR x) (truthyR y))) | _, _ => None end
    | EImplies a b => match beval a, beval b with Some x, Some y => Some (bnR (negb (truthyR x) || truthyR y)) | _, _ => None end
    | EIff a b => match beval a, beval b with Some x, Some y => Some (bnR (Bool.eqb (truthyR x) (truthyR y))) | _, _ => None end
    | EBin op a b => match beval a, beval b with Some x, Some y => ev_binop op x y | _, _ => None end
    | EUn Neg x => option_map Ropp (beval x)
    | EUn UNot x => option_map (fun v => bnR (negb (truthyR v))) (beval x)
    end.
End BEval.

(* computable twin over rationals, for the correspondence check *)
Section BEvalQ.
  Variable var : nat -> Q.
  Fixpoint bevalQ (e : bexpr) : option Q :=
    let fix bl (l : list bexpr) : option (list Q) :=
      match l with
      | [] => Some []
      | x :: xs => match bevalQ x, bl xs with Some v, Some vs => Some (v :: vs) | _, _ => None end
      end in
    match e with
    | ENum (Fin q) => Some q
    | ENum _ => None
    | EVar i => Some (var i)
    | EAbs x => option_map q_abs (bevalQ x)
    | EMin l => match bl l with Some (v :: vs) => Some (fold_left q_min vs v) | _ => None end
    | EMax l => match bl l with Some (v :: vs) => Some (fold_left q_max vs v) | _ => None end
    | EAnd l => option_map (fun vs => bnQ (forallb truthyQ vs)) (bl l)
    | EOr l => option_map (fun vs => bnQ (existsb truthyQ vs)) (bl l)
    | ENot x => option_map (fun v => bnQ (negb (truthyQ v))) (bevalQ x)
    | EXor a b => match bevalQ a, bevalQ b with Some x, Some y => Some (bnQ (xorb (truthyQ x) (truthyQ y))) | _, _ => None end
    | EImplies a b => match bevalQ a, bevalQ b with Some x, Some y => Some (bnQ (negb (truthyQ x) || truthyQ y)) | _, _ => None end
    | EIff a b => match bevalQ a, bevalQ b with Some x, Some y => Some (bnQ (Bool.eqb (truthyQ x) (truthyQ y))) | _, _ => None end
    | EBin op a b =>
        match bevalQ a, bevalQ b with
        | Some x, Some y =>
            match op with
            | Add => Some (x + y)%Q | Sub => Some (x - y)%Q | Mul => Some (x * y)%Q
            | Div => if Qeq_bool y 0 then None else Some (x / y)%Q
            | BAnd => Some (bnQ (truthyQ x && truthyQ y))
            | BOr => Some (bnQ (truthyQ x || truthyQ y))
            | BXor => Some (bnQ (xorb (truthyQ x) (truthyQ y)))
            | BImplies => Some (bnQ (negb (truthyQ x) || truthyQ y))
            | BIff => Some (bnQ (Bool.eqb (truthyQ x) (truthyQ y)))
            end
        | _, _ => None
        end
    | EUn Neg x => option_map Qopp (bevalQ x)
    | EUn UNot x => option_map (fun v => bnQ (negb (truthyQ v))) (bevalQ x)
    end.
End BEvalQ.

(* reading a value back: through a handle, and by name; names are unique (add_var panics on a duplicate) *)
Definition handle_value {V} (names : list string) (sol : string -> option V) (h : nat) : option V :=
  match nth_error names h with Some n => sol n | None => None end.
