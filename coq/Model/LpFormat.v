(* LpFormat: token-level model of LinearModel::to_lp_format (linear_model.rs lp_terms, lp_num, lp_bound, section
   logic) and an INDEPENDENTLY written reader of the CPLEX-LP subset it targets. *)
From Coq Require Import QArith ZArith NArith Bool List String.
From Rooc Require Import Base.XQ Model.Exp Model.Bounds Model.Linearize.
Import ListNotations.
Local Close Scope Q_scope.
Local Open Scope string_scope.
Local Open Scope list_scope.
Infix "+++" := String.append (at level 60, right associativity).

(* words are whitespace-separated pieces of the text; a piece that is a decimal number becomes LNum *)
Inductive ltok := LWord (s : string) | LNum (q : Q) | LNL.

Definition q_is_zero (q : Q) : bool := Qeq_bool q 0.
Definition q_is_neg (q : Q) : bool := negb (Qle_bool 0 q).
Definition q_absv (q : Q) : Q := if q_is_neg q then Qopp q else q.

(* ---------- writer *)
Definition qv (x : xq) : Q := match x with Fin q => q | _ => 0%Q end.

(* linear_model.rs lp_terms *)
Fixpoint lp_terms_from (first : bool) (coeffs : list xq) (vars : list string) : list ltok * bool :=
  match coeffs, vars with
  | c :: cs, v :: vs =>
      let q := qv c in
      if q_is_zero q then lp_terms_from first cs vs else
      let mag := q_absv q in
      let coeff := if Qeq_bool mag 1 then [] else [LNum mag] in
      let here := if first then (if q_is_neg q then [LWord "-"] else []) ++ coeff ++ [LWord v]
                  else [LWord (if q_is_neg q then "-" else "+")] ++ coeff ++ [LWord v] in
      let (rest, _) := lp_terms_from false cs vs in (here ++ rest, false)
  | _, _ => ([], first)
  end.
Definition lp_terms (coeffs : list xq) (vars : list string) : list ltok :=
  let (ts, empty) := lp_terms_from true coeffs vars in if empty then [LNum 0%Q] else ts.

Definition lp_bound (x : xq) : ltok :=
  match x with PInf => LWord "+infinity" | NInf => LWord "-infinity" | Fin q => LNum q | NaN => LWord "NaN" end.

Definition cmp_word (c : cmp) : string := match c with Le | Lt => "<=" | Ge | Gt => ">=" | Eq => "=" end.

Fixpoint fresh_name (fuel : nat) (cand : string) (taken : list string) : string :=
  match fuel with
  | O => cand
  | S fuel => if set_mem taken cand then fresh_name fuel (cand +++ "_") taken else cand
  end.

Definition lp_row_names (rows : list lrow) : list string :=
  let user := filter (fun n => negb (String.eqb n "")) (map lr_name rows) in
  let fix go (i : nat) (rows : list lrow) (taken : list string) : list string :=
    match rows with
    | [] => []
    | r :: rest =>
        if String.eqb (lr_name r) "" then
          let n := fresh_name (List.length taken + 2) ("c" +++ n_to_string (N.of_nat (S i))) taken in
          n :: go (S i) rest (taken ++ [n])
        else lr_name r :: go (S i) rest taken
    end in go O rows user.

Definition lp_write (L : linmodel) : list ltok :=
  let vars := lm_vars L in
  let off := qv (lm_offset L) in
  [LWord (match lm_dir L with DMax => "Maximize" | _ => "Minimize" end); LNL]
  ++ [LWord "obj"; LWord ":"] ++ lp_terms (lm_objective L) vars
  ++ (if q_is_zero off then [] else [LWord (if q_is_neg off then "-" else "+"); LNum (q_absv off)]) ++ [LNL]
  ++ [LWord "Subject"; LWord "To"; LNL]
  ++ flat_map (fun p : string * lrow =>
        [LWord (fst p); LWord ":"] ++ lp_terms (lr_coeffs (snd p)) vars ++ [LWord (cmp_word (lr_cmp (snd p))); LNum (qv (lr_rhs (snd p))); LNL])
      (combine (lp_row_names (lm_rows L)) (lm_rows L))
  ++ (let bounds := flat_map (fun p : string * vtype =>
          match snd p with
          | TBoolean => []
          | TIntegerRange lo hi => [LNum (inject_Z lo); LWord "<="; LWord (fst p); LWord "<="; LNum (inject_Z hi); LNL]
          | TNonNegativeReal lo hi =>
              if xq_is_zero lo && xq_eqb hi PInf then []
              else [lp_bound lo; LWord "<="; LWord (fst p); LWord "<="; lp_bound hi; LNL]
          | TReal lo hi =>
              if xq_eqb lo NInf && xq_eqb hi PInf then [LWord (fst p); LWord "free"; LNL]
              else [lp_bound lo; LWord "<="; LWord (fst p); LWord "<="; lp_bound hi; LNL]
          end) (lm_domain L) in
      match bounds with [] => [] | _ => [LWord "Bounds"; LNL] ++ bounds end)
  ++ (let bins := map fst (filter (fun p => match snd p with TBoolean => true | _ => false end) (lm_domain L)) in
      match bins with [] => [] | _ => [LWord "Binary"; LNL] ++ map LWord bins ++ [LNL] end)
  ++ (let gens := map fst (filter (fun p => match snd p with TIntegerRange _ _ => true | _ => false end) (lm_domain L)) in
      match gens with [] => [] | _ => [LWord "General"; LNL] ++ map LWord gens ++ [LNL] end)
  ++ [LWord "End"; LNL].

(* ---------- an independent reader of the subset *)
Inductive bnd := BInf (neg : bool) | BNum (q : Q).
Record lprow := mkLpRow { pr_name : string; pr_terms : list (string * Q); pr_op : string; pr_rhs : Q }.
Record lpfile := mkLpFile {
  pf_max : bool; pf_obj : list (string * Q); pf_const : Q; pf_rows : list lprow;
  pf_bounds : list (string * option (bnd * bnd));    (* None = free *)
  pf_binary : list string; pf_general : list string }.

Definition is_op (s : string) : bool := String.eqb s "<=" || String.eqb s ">=" || String.eqb s "=".

(* linear expression up to the end of the line or a relation: terms and a constant *)
Definition is_sign (s : string) : bool := String.eqb s "+" || String.eqb s "-".

Fixpoint read_terms (fuel : nat) (sign : Q) (ts : list ltok) (acc : list (string * Q)) (const : Q)
  : option (list (string * Q) * Q * list ltok) :=
  match fuel with
  | O => None
  | S fuel =>
    match ts with
    | LWord w :: rest =>
        if String.eqb w "+" then read_terms fuel 1%Q rest acc const
        else if String.eqb w "-" then read_terms fuel (-1)%Q rest acc const
        else if is_op w then Some (acc, const, ts)
        else read_terms fuel 1%Q rest (acc ++ [(w, sign)]) const
    | LNum q :: rest =>
        match rest with
        | LWord v :: rest' =>
            if is_op v || is_sign v
            then read_terms fuel 1%Q rest acc (const + sign * q)%Q      (* a bare number is a constant term *)
            else read_terms fuel 1%Q rest' (acc ++ [(v, (sign * q)%Q)]) const
        | _ => read_terms fuel 1%Q rest acc (const + sign * q)%Q
        end
    | LNL :: _ | [] => Some (acc, const, ts)
    end
  end.

Definition is_section (s : string) : bool :=
  String.eqb s "Bounds" || String.eqb s "Binary" || String.eqb s "General" || String.eqb s "End".

Fixpoint read_rows (fuel : nat) (ts : list ltok) (acc : list lprow) : option (list lprow * list ltok) :=
  match fuel with
  | O => None
  | S fuel =>
    match ts with
    | LWord name :: LWord ":" :: rest =>
        match read_terms (List.length rest + 1) 1%Q rest [] 0%Q with
        | Some (terms, c, LWord op :: LNum rhs :: LNL :: rest') =>
            if is_op op then read_rows fuel rest' (acc ++ [mkLpRow name terms op (rhs - c)%Q]) else None
        | _ => None
        end
    | LWord w :: _ => if is_section w then Some (acc, ts) else None
    | _ => None
    end
  end.

Definition read_bnd (t : ltok) : option bnd :=
  match t with
  | LNum q => Some (BNum q)
  | LWord "+infinity" | LWord "infinity" | LWord "+inf" | LWord "inf" => Some (BInf false)
  | LWord "-infinity" | LWord "-inf" => Some (BInf true)
  | _ => None
  end.

Fixpoint read_bounds (fuel : nat) (ts : list ltok) (acc : list (string * option (bnd * bnd)))
  : option (list (string * option (bnd * bnd)) * list ltok) :=
  match fuel with
  | O => None
  | S fuel =>
    match ts with
    | LWord v :: LWord "free" :: LNL :: rest => if is_section v then Some (acc, ts) else read_bounds fuel rest (acc ++ [(v, None)])
    | lo :: LWord "<=" :: LWord v :: LWord "<=" :: hi :: LNL :: rest =>
        match read_bnd lo, read_bnd hi with
        | Some l, Some h => read_bounds fuel rest (acc ++ [(v, Some (l, h))])
        | _, _ => None
        end
    | _ => Some (acc, ts)
    end
  end.

Fixpoint read_names (ts : list ltok) (acc : list string) : list string * list ltok :=
  match ts with
  | LWord v :: rest => read_names rest (acc ++ [v])
  | LNL :: rest => (acc, rest)
  | _ => (acc, ts)
  end.

Definition lp_read (ts : list ltok) : option lpfile :=
  match ts with
  | LWord sense :: LNL :: LWord "obj" :: LWord ":" :: rest =>
      let mx := String.eqb sense "Maximize" in
      if negb (mx || String.eqb sense "Minimize") then None else
      match read_terms (List.length rest + 1) 1%Q rest [] 0%Q with
      | Some (obj, c, LNL :: LWord "Subject" :: LWord "To" :: LNL :: rest1) =>
          match read_rows (List.length rest1 + 1) rest1 [] with
          | Some (rows, rest2) =>
              let '(bounds, rest3) :=
                match rest2 with
                | LWord "Bounds" :: LNL :: r =>
                    match read_bounds (List.length r + 1) r [] with Some (b, r') => (Some b, r') | None => (None, r) end
                | _ => (Some [], rest2)
                end in
              match bounds with
              | None => None
              | Some bounds =>
                  let '(bins, rest4) := match rest3 with LWord "Binary" :: LNL :: r => read_names r [] | _ => ([], rest3) end in
                  let '(gens, rest5) := match rest4 with LWord "General" :: LNL :: r => read_names r [] | _ => ([], rest4) end in
                  match rest5 with
                  | [LWord "End"; LNL] => Some (mkLpFile mx obj c rows bounds bins gens)
                  | _ => None
                  end
              end
          | None => None
          end
      | _ => None
      end
  | _ => None
  end.

(* ---------- what the file must denote *)
Definition nonzero_terms (coeffs : list xq) (vars : list string) : list (string * Q) :=
  map (fun p : xq * string => (snd p, qv (fst p))) (filter (fun p : xq * string => negb (q_is_zero (qv (fst p)))) (combine coeffs vars)).

Definition to_bnd (x : xq) : bnd := match x with PInf => BInf false | NInf => BInf true | Fin q => BNum q | NaN => BNum 0 end.

Definition denote (L : linmodel) : lpfile :=
  mkLpFile (match lm_dir L with DMax => true | _ => false end)
    (nonzero_terms (lm_objective L) (lm_vars L)) (qv (lm_offset L))
    (map (fun p : string * lrow => mkLpRow (fst p) (nonzero_terms (lr_coeffs (snd p)) (lm_vars L)) (cmp_word (lr_cmp (snd p))) (qv (lr_rhs (snd p))))
         (combine (lp_row_names (lm_rows L)) (lm_rows L)))
    (flat_map (fun p : string * vtype =>
        match snd p with
        | TBoolean => []
        | TIntegerRange lo hi => [(fst p, Some (BNum (inject_Z lo), BNum (inject_Z hi)))]
        | TNonNegativeReal lo hi => if xq_is_zero lo && xq_eqb hi PInf then [] else [(fst p, Some (to_bnd lo, to_bnd hi))]
        | TReal lo hi => if xq_eqb lo NInf && xq_eqb hi PInf then [(fst p, None)] else [(fst p, Some (to_bnd lo, to_bnd hi))]
        end) (lm_domain L))
    (map fst (filter (fun p => match snd p with TBoolean => true | _ => false end) (lm_domain L)))
    (map fst (filter (fun p => match snd p with TIntegerRange _ _ => true | _ => false end) (lm_domain L))).

(* ---------- comparisons for the tie *)
Definition ltok_eqb (a b : ltok) : bool :=
  match a, b with
  | LWord s, LWord t => String.eqb s t
  | LNum p, LNum q => Qeq_bool p q
  | LNL, LNL => true
  | _, _ => false
  end.
Definition bnd_eqb (a b : bnd) : bool :=
  match a, b with BInf x, BInf y => Bool.eqb x y | BNum p, BNum q => Qeq_bool p q | _, _ => false end.
Fixpoint leqb {A} (f : A -> A -> bool) (a b : list A) : bool :=
  match a, b with [], [] => true | x :: xs, y :: ys => f x y && leqb f xs ys | _, _ => false end.
Definition term_eqb (a b : string * Q) : bool := String.eqb (fst a) (fst b) && Qeq_bool (snd a) (snd b).
Definition lprow_eqb (a b : lprow) : bool :=
  String.eqb (pr_name a) (pr_name b) && leqb term_eqb (pr_terms a) (pr_terms b) && String.eqb (pr_op a) (pr_op b) && Qeq_bool (pr_rhs a) (pr_rhs b).
Definition lpfile_eqb (a b : lpfile) : bool :=
  Bool.eqb (pf_max a) (pf_max b) && leqb term_eqb (pf_obj a) (pf_obj b) && Qeq_bool (pf_const a) (pf_const b)
  && leqb lprow_eqb (pf_rows a) (pf_rows b)
  && leqb (fun x y : string * option (bnd * bnd) => String.eqb (fst x) (fst y) &&
           match snd x, snd y with None, None => true | Some (l1, h1), Some (l2, h2) => bnd_eqb l1 l2 && bnd_eqb h1 h2 | _, _ => false end)
          (pf_bounds a) (pf_bounds b)
  && leqb String.eqb (pf_binary a) (pf_binary b) && leqb String.eqb (pf_general a) (pf_general b).

(* ---------- admissible input (the premise of the C17 round-trip theorem): names are not relation, sign or section
   words; Real / NonNegativeReal bounds are not NaN *)
Definition name_ok (v : string) : bool := negb (is_op v || is_sign v).
Definition word_ok (v : string) : bool := name_ok v && negb (is_section v).
Definition bound_ok (x : xq) : bool := match x with NaN => false | _ => true end.
Definition dom_entry_ok (p : string * vtype) : bool :=
  word_ok (fst p) &&
  match snd p with TNonNegativeReal lo hi | TReal lo hi => bound_ok lo && bound_ok hi | _ => true end.
Definition lp_okb (L : linmodel) : bool := forallb word_ok (lm_vars L) && forallb dom_entry_ok (lm_domain L).

