(* Printer: the parenthesisation rule of the expression printers (PreExp::to_string_with_precedence in il_exp.rs,
   used by RoocParser::format; the same rule is used for Exp in model.rs), at token level. *)
From Coq Require Import Bool List Arith String.
From Rooc Require Import Model.Exp Gen.PrattTable Model.Pratt.
Import ListNotations.

Inductive ptree := PLeaf (a : nat) | PBin (op : binop) (l r : ptree) | PPre (op : unop) (u : ptree) | PPar (t : ptree).
Inductive ptoken := PT (t : token) | PLP | PRP.

Fixpoint strip (p : ptree) : tree :=
  match p with
  | PLeaf a => Leaf a
  | PBin op l r => Bin op (strip l) (strip r)
  | PPre op u => Pre op (strip u)
  | PPar t => strip t
  end.
Fixpoint pflatten (p : ptree) : list ptoken :=
  match p with
  | PLeaf a => [PT (TAtom a)]
  | PBin op l r => pflatten l ++ PT (TInfix op) :: pflatten r
  | PPre op u => PT (TPrefix op) :: pflatten u
  | PPar t => PLP :: pflatten t ++ [PRP]
  end.

Section Table.
  Variable prec : binop -> nat.
  Variable rassoc : binop -> bool.
  Variable pprec : unop -> nat.

  (* il_exp.rs to_string_with_precedence: wrap a binary child that binds looser than its parent, or equally tight
     on the side where re-parsing would regroup it *)
  Definition needs_parens (child parent : binop) (is_rhs : bool) : bool :=
    Nat.ltb (prec child) (prec parent)
    || (Nat.eqb (prec child) (prec parent) && (if is_rhs then negb (rassoc parent) else rassoc child)).

  Fixpoint render (t : tree) : ptree :=
    match t with
    | Leaf a => PLeaf a
    | Pre op u => PPre op (match u with Leaf _ => render u | _ => PPar (render u) end)
    | Bin op l r =>
        let wrap (side : bool) (c : tree) :=
          match c with
          | Bin cop _ _ => if needs_parens cop op side then PPar (render c) else render c
          | _ => render c
          end in
        PBin op (wrap false l) (wrap true r)
    end.

  (* well-formedness with explicit parentheses: a parenthesised sub-expression is a primary and starts afresh *)
  Fixpoint wfp (rbp : nat) (p : ptree) : Prop :=
    match p with
    | PLeaf _ => True
    | PPar t => wfp 0 t
    | PPre op u => wfp (pprec op - 1) u
    | PBin op l r =>
        rbp < prec op /\ wfp rbp l /\ wfp (rb prec rassoc op) r /\
        match l with PBin op' _ _ => prec op <= rb prec rassoc op' | _ => True end
    end.
End Table.

(* the table the printers consult (BinOp::precedence / is_left_associative, regenerated from math/operators.rs);
   it is NOT the parser's table: Proof/PrinterTable.v shows the two order the operators the same way *)
Definition name_of_binop (op : binop) : string :=
  match op with
  | Add => "Add" | Sub => "Sub" | Mul => "Mul" | Div => "Div" | BAnd => "And" | BOr => "Or"
  | BXor => "Xor" | BImplies => "Implies" | BIff => "Iff" end.
Definition lookup_printer (n : string) : option (nat * bool) :=
  match filter (fun e : string * nat * bool => String.eqb (fst (fst e)) n) printer_table with
  | (_, p, l) :: _ => Some (p, l)
  | [] => None
  end.
Definition prt_prec (op : binop) : nat := match lookup_printer (name_of_binop op) with Some (p, _) => p | None => 0 end.
Definition prt_rassoc (op : binop) : bool := match lookup_printer (name_of_binop op) with Some (_, l) => negb l | None => false end.

Definition src_render := render prt_prec prt_rassoc.

(* ---------- the parser on text with parentheses: the grammar's `parenthesis = "(" exp ")"` is a primary whose
   content is parsed by a fresh precedence climb (PreExp parsing calls parse_exp recursively on the inner pair) *)
Section PTable.
  Variable prec : binop -> nat.
  Variable rassoc : binop -> bool.
  Variable pprec : unop -> nat.

  Definition plbp (ts : list ptoken) : nat :=
    match ts with PT (TInfix op) :: _ => prec op | _ => 0 end.

  Fixpoint pexpr (fuel : nat) (rbp : nat) (ts : list ptoken) : option (tree * list ptoken) :=
    match fuel with
    | O => None
    | S fuel =>
      let nud :=
        match ts with
        | PT (TAtom a) :: rest => Some (Leaf a, rest)
        | PT (TPrefix op) :: rest =>
            match pexpr fuel (pprec op - 1) rest with
            | Some (t, rest') => Some (Pre op t, rest')
            | None => None
            end
        | PLP :: rest =>
            match pexpr fuel 0 rest with
            | Some (t, PRP :: rest') => Some (t, rest')
            | _ => None
            end
        | _ => None
        end in
      match nud with
      | None => None
      | Some (lhs, rest) => pled_loop fuel rbp lhs rest
      end
    end
  with pled_loop (fuel : nat) (rbp : nat) (lhs : tree) (ts : list ptoken) : option (tree * list ptoken) :=
    match fuel with
    | O => None
    | S fuel =>
      match ts with
      | PT (TInfix op) :: rest =>
          if Nat.ltb rbp (prec op) then
            match pexpr fuel (rb prec rassoc op) rest with
            | Some (rhs, rest') => pled_loop fuel rbp (Bin op lhs rhs) rest'
            | None => None
            end
          else Some (lhs, ts)
      | _ => Some (lhs, ts)
      end
    end.

  Definition pparse (ts : list ptoken) : option tree :=
    match pexpr (2 * List.length ts + 2) 0 ts with
    | Some (t, []) => Some t
    | _ => None
    end.
End PTable.

Definition src_pparse := pparse src_prec src_rassoc src_pprec.
