(* Standardize: transformers/standardizer.rs to_standard_form + EqualityConstraint::new
   (standard_linear_model.rs:279-287) + remove_many (utils.rs:325). *)
From Coq Require Import QArith ZArith NArith Bool List String.
From Rooc Require Import Base.XQ Model.Exp Model.Bounds Model.Linearize.
Import ListNotations.
Local Close Scope Q_scope.
Local Open Scope string_scope.
Local Open Scope list_scope.
Infix "+++" := String.append (at level 60, right associativity).

Record eqcon := mkEQ { eq_coeffs : list xq; eq_rhs : xq }.
Record stdmodel := mkSM {
  sm_vars : list string; sm_offset : xq; sm_obj : list xq; sm_flip : bool; sm_cons : list eqcon }.
Inductive serr := EInvalidDomain | EUnimplementedOpt | EUnavailableCmp | EMissingDomain.

Definition eps5 : Q := (1 # 100000)%Q.
Definition f_lt := xq_float_lt eps5.
Definition f_gt := xq_float_gt eps5.
Definition f_le := xq_float_le eps5.
Definition f_ge := xq_float_ge eps5.
Definition f_eq := xq_float_eq eps5.
Definition f_ne (a b : xq) := negb (f_eq a b).

(* standard_linear_model.rs:279-287 *)
Definition eq_new (coeffs : list xq) (rhs : xq) : eqcon :=
  if xq_ltb rhs (Fin 0%Q) then mkEQ (map (fun c => xq_mul c (Fin (-1)%Q)) coeffs) (xq_neg rhs)
  else mkEQ coeffs rhs.

(* Vec::resize *)
Definition resize (l : list xq) (n : nat) : list xq :=
  firstn n l ++ repeat (Fin 0%Q) (n - List.length l).

(* utils.rs remove_many: drop the elements whose index is listed *)
Definition remove_many {A} (l : list A) (idx : list nat) : list A :=
  map snd (filter (fun p => negb (existsb (Nat.eqb (fst p)) idx)) (combine (seq 0 (List.length l)) l)).

Definition unit_vec (n i : nat) : list xq := map (fun j => if Nat.eqb j i then Fin 1%Q else Fin 0%Q) (seq 0 n).

Definition is_real_kind (t : vtype) : bool := match t with TReal _ _ | TNonNegativeReal _ _ => true | _ => false end.
Definition is_free_kind (t : vtype) : bool := match t with TReal _ _ => true | _ => false end.

(* standardizer.rs:71-122 bound rows *)
Definition bound_rows (vars : list string) (dom : list (string * vtype)) : option (list lrow) :=
  let n := List.length vars in
  fold_left (fun (acc : option (list lrow)) (p : nat * string) =>
    match acc with
    | None => None
    | Some rows =>
      match al_get dom (snd p) with
      | None => None
      | Some (TReal mn mx) =>
          if xq_eqb mn NInf && xq_eqb mx PInf then Some rows
          else Some (rows
                 ++ (if negb (xq_eqb mn NInf) then [mkLRow "" (unit_vec n (fst p)) Ge mn] else [])
                 ++ (if negb (xq_eqb mx PInf) then [mkLRow "" (unit_vec n (fst p)) Le mx] else []))
      | Some (TNonNegativeReal mn mx) =>
          if xq_is_zero mn && xq_eqb mx PInf then Some rows
          else Some (rows
                 ++ (if negb (xq_is_zero mn) then [mkLRow "" (unit_vec n (fst p)) Ge mn] else [])
                 ++ (if negb (xq_eqb mx PInf) then [mkLRow "" (unit_vec n (fst p)) Le mx] else []))
      | Some _ => Some rows
      end
    end) (combine (seq 0 n) vars) (Some []).

(* one row through normalize_constraint; ctx = (surplus_index, slack_index, total_variables) *)
Definition normalize_row (r : lrow) (ctx : nat * nat * nat) : serr + (eqcon * option string * (nat * nat * nat)) :=
  let '(su, sl, tot) := ctx in
  match lr_cmp r with
  | Eq => inr (eq_new (lr_coeffs r) (lr_rhs r), None, ctx)
  | Le => inr (eq_new (resize (lr_coeffs r) tot ++ [Fin 1%Q]) (lr_rhs r),
               Some ("$sl_" +++ n_to_string (N.of_nat (S sl))), (su, S sl, tot))
  | Ge => inr (eq_new (resize (lr_coeffs r) tot ++ [Fin (-1)%Q]) (lr_rhs r),
               Some ("$su_" +++ n_to_string (N.of_nat (S su))), (S su, sl, tot))
  | _ => inl EUnavailableCmp
  end.

Fixpoint normalize_all (rows : list lrow) (ctx : nat * nat * nat) (vars : list string) (acc : list eqcon)
  : serr + (list eqcon * list string * nat) :=
  match rows with
  | [] => inr (acc, vars, snd ctx)
  | r :: rest =>
      match normalize_row r ctx with
      | inl e => inl e
      | inr (eqc, added, (su, sl, tot)) =>
          match added with
          | Some v => normalize_all rest (su, sl, S tot) (vars ++ [v]) (acc ++ [eqc])
          | None => normalize_all rest (su, sl, tot) vars (acc ++ [eqc])
          end
      end
  end.

(* standardizer.rs:42-229 *)
Definition to_standard_form (L : linmodel) : serr + stdmodel :=
  if negb (forallb (fun p => is_real_kind (snd p)) (lm_domain L)) then inl EInvalidDomain else
  match bound_rows (lm_vars L) (lm_domain L) with
  | None => inl EMissingDomain
  | Some brows =>
    let vars := lm_vars L in
    let rows := lm_rows L ++ brows in
    let free := map fst (filter (fun p => match al_get (lm_domain L) (snd p) with Some t => is_free_kind t | None => false end)
                                (combine (seq 0 (List.length vars)) vars)) in
    (* append two columns per free variable, in order, to every row and to the objective *)
    let ext (coeffs : list xq) : list xq :=
      fold_left (fun acc i => let c := nth i coeffs NaN in acc ++ [c; xq_neg c]) free coeffs in
    let vars1 := fold_left (fun acc i => let v := nth i vars "" in acc ++ ["$p" +++ v; "$m" +++ v]) free vars in
    let rows1 := map (fun r => mkLRow (lr_name r) (remove_many (ext (lr_coeffs r)) free) (lr_cmp r) (lr_rhs r)) rows in
    let vars2 := remove_many vars1 free in
    let obj2 := remove_many (ext (lm_objective L)) free in
    let total := List.length vars + List.length free in
    match normalize_all rows1 (O, O, total) vars2 [] with
    | inl e => inl e
    | inr (eqs0, vars3, total') =>
      let eqs := map (fun c => mkEQ (resize (eq_coeffs c) total') (eq_rhs c)) eqs0 in
      match lm_dir L with
      | DSatisfy => inl EUnimplementedOpt
      | d =>
        let flip := match d with DMax => true | _ => false end in
        let obj3 := if flip then map (fun c => xq_mul c (Fin (-1)%Q)) obj2 else obj2 in
        let nv := List.length vars3 in
        inr (mkSM vars3 (lm_offset L) (resize obj3 nv) flip
                  (map (fun c => mkEQ (resize (eq_coeffs c) nv) (eq_rhs c)) eqs))
      end
    end
  end.

(* ---------- well-formedness of the input as a boolean (the premise of the C13 transfer theorems): every row and the
   objective have one finite coefficient per variable, right-hand sides are finite, Real bounds are numbers or the
   matching infinity, NonNegativeReal lower bounds are numbers *)
Definition lo_okb (x : xq) : bool := match x with Fin _ | NInf => true | _ => false end.
Definition hi_okb (x : xq) : bool := match x with Fin _ | PInf => true | _ => false end.
Definition dom_okb (dom : list (string * vtype)) : bool :=
  forallb (fun p => match snd p with TReal a b => lo_okb a && hi_okb b | TNonNegativeReal a b => xq_is_finite a && hi_okb b | _ => true end) dom.
Definition coeffs_okb (n : nat) (cs : list xq) : bool := Nat.eqb (List.length cs) n && forallb xq_is_finite cs.
Definition lin_okb (L : linmodel) : bool :=
  forallb (fun r => coeffs_okb (List.length (lm_vars L)) (lr_coeffs r) && xq_is_finite (lr_rhs r)) (lm_rows L)
  && coeffs_okb (List.length (lm_vars L)) (lm_objective L) && dom_okb (lm_domain L).

