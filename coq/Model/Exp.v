(* Exp: the expression tree of parser/model_transformer/model.rs:32-59, constraints, objective,
   variable types and the source model. *)
From Coq Require Import QArith ZArith Bool List String.
Local Close Scope Q_scope.
From Rooc Require Import Base.XQ.
Import ListNotations.
Open Scope string_scope.

Inductive binop := Add | Sub | Mul | Div | BAnd | BOr | BXor | BImplies | BIff.
Inductive unop := Neg | UNot.

Inductive exp :=
| Num (x : xq)
| Var (s : string)
| Abs (e : exp)
| Min (l : list exp)
| Max (l : list exp)
| And (l : list exp)
| Or (l : list exp)
| Not (e : exp)
| Xor (a b : exp)
| Implies (a b : exp)
| Iff (a b : exp)
| BinOp (op : binop) (a b : exp)
| UnOp (op : unop) (e : exp).

Inductive cmp := Le | Ge | Eq | Lt | Gt.

Record constr := mkConstr {
  c_name : string; c_lhs : exp; c_cmp : cmp; c_rhs : exp; c_assert : bool }.

Inductive vtype :=
| TBoolean
| TIntegerRange (lo hi : Z)
| TNonNegativeReal (lo hi : xq)
| TReal (lo hi : xq).

Inductive direction := DMin | DMax | DSatisfy.

Definition binop_eqb (a b : binop) : bool :=
  match a, b with
  | Add, Add | Sub, Sub | Mul, Mul | Div, Div | BAnd, BAnd | BOr, BOr
  | BXor, BXor | BImplies, BImplies | BIff, BIff => true
  | _, _ => false
  end.
Definition unop_eqb (a b : unop) : bool :=
  match a, b with Neg, Neg | UNot, UNot => true | _, _ => false end.
Definition cmp_eqb (a b : cmp) : bool :=
  match a, b with Le, Le | Ge, Ge | Eq, Eq | Lt, Lt | Gt, Gt => true | _, _ => false end.

(* structural comparison used by the correspondence check; numbers up to xq_close *)
Fixpoint exp_close (a b : exp) {struct a} : bool :=
  let fix list_close (l1 l2 : list exp) {struct l1} : bool :=
    match l1, l2 with
    | [], [] => true
    | x :: xs, y :: ys => exp_close x y && list_close xs ys
    | _, _ => false
    end in
  match a, b with
  | Num x, Num y => xq_close x y
  | Var s, Var t => String.eqb s t
  | Abs x, Abs y => exp_close x y
  | Min l1, Min l2 | Max l1, Max l2 | And l1, And l2 | Or l1, Or l2 => list_close l1 l2
  | Not x, Not y => exp_close x y
  | Xor a1 b1, Xor a2 b2 | Implies a1 b1, Implies a2 b2 | Iff a1 b1, Iff a2 b2 =>
      exp_close a1 a2 && exp_close b1 b2
  | BinOp o1 a1 b1, BinOp o2 a2 b2 => binop_eqb o1 o2 && exp_close a1 a2 && exp_close b1 b2
  | UnOp o1 x, UnOp o2 y => unop_eqb o1 o2 && exp_close x y
  | _, _ => false
  end.

Fixpoint exp_size (e : exp) : nat :=
  let fix lsize (l : list exp) : nat :=
    match l with [] => 0 | x :: xs => exp_size x + lsize xs end in
  match e with
  | Num _ | Var _ => 1
  | Abs x | Not x | UnOp _ x => S (exp_size x)
  | Min l | Max l | And l | Or l => S (lsize l)
  | Xor a b | Implies a b | Iff a b | BinOp _ a b => S (exp_size a + exp_size b)
  end.

Fixpoint exp_depth (e : exp) : nat :=
  let fix ldepth (l : list exp) : nat :=
    match l with [] => 0 | x :: xs => Nat.max (exp_depth x) (ldepth xs) end in
  match e with
  | Num _ | Var _ => 1
  | Abs x | Not x | UnOp _ x => S (exp_depth x)
  | Min l | Max l | And l | Or l => S (ldepth l)
  | Xor a b | Implies a b | Iff a b | BinOp _ a b => S (Nat.max (exp_depth a) (exp_depth b))
  end.

Definition as_num (e : exp) : option xq := match e with Num x => Some x | _ => None end.

(* option-monad map *)
Fixpoint mapM {A B} (f : A -> option B) (l : list A) : option (list B) :=
  match l with
  | [] => Some []
  | x :: xs => match f x with
               | None => None
               | Some y => match mapM f xs with None => None | Some ys => Some (y :: ys) end
               end
  end.
