(* Linearize: transformers/linearizer.rs, arm by arm.
   State monad with errors; recursion on fuel where the Rust code recurses (EFuel = out of fuel,
   excluded by the theorems and exposed by the correspondence check). *)
From Coq Require Import QArith ZArith NArith Bool List String DecimalString.
From Rooc Require Import Base.XQ Model.Exp Model.Simplify Model.Flatten Model.Bounds.
Import ListNotations.
Local Close Scope Q_scope.
Local Open Scope string_scope.
Local Open Scope list_scope.
Infix "+++" := String.append (at level 60, right associativity).

(* ---------- linearizer.rs:13-65 *)
Inductive req := PreferLower | PreferHigher | Exact.
Definition req_reversed (r : req) : req :=
  match r with PreferLower => PreferHigher | PreferHigher => PreferLower | Exact => Exact end.
Definition through_scale (r : req) (c : xq) : req := if xq_ltb c (Fin 0%Q) then req_reversed r else r.
Inductive ekind := KMin | KMax.

Inductive lerr :=
| ENonLinear | EDivZero | EEmptyAgg | EVarDeclared (s : string) | EUnimplemented | ENonBinary
| EMissingBounds (vars : list string) | EFuel.

(* ---------- LinearizationContext, linearizer.rs:1731-1858 *)
Record lctx := mkL { l_vars : list (string * xq); l_rhs : xq }.

Definition l_add_var (c : lctx) (n : string) (m : xq) : lctx :=
  match al_get (l_vars c) n with
  | Some v => mkL (al_insert (l_vars c) n (xq_add v m)) (l_rhs c)
  | None => mkL (l_vars c ++ [(n, m)]) (l_rhs c)
  end.
Definition l_add_rhs (c : lctx) (r : xq) : lctx := mkL (l_vars c) (xq_add (l_rhs c) r).
Definition l_new : lctx := mkL [] (Fin 0%Q).
Definition l_from_var (n : string) (m : xq) : lctx := l_add_var l_new n m.
Definition l_from_rhs (r : xq) : lctx := l_add_rhs l_new r.
Definition l_merge_add (a b : lctx) : lctx :=
  l_add_rhs (fold_left (fun acc p => l_add_var acc (fst p) (snd p)) (l_vars b) a) (l_rhs b).
Definition l_merge_sub (a b : lctx) : lctx :=
  l_add_rhs (fold_left (fun acc p => l_add_var acc (fst p) (xq_neg (snd p))) (l_vars b) a) (xq_neg (l_rhs b)).
Definition l_mul_by (a : lctx) (m : xq) : lctx :=
  mkL (map (fun p => (fst p, xq_mul (snd p) m)) (l_vars a)) (xq_mul (l_rhs a) m).
Definition l_div_by (a : lctx) (d : xq) : lctx :=
  mkL (map (fun p => (fst p, xq_div (snd p) d)) (l_vars a)) (xq_div (l_rhs a) d).

(* linearizer.rs:1207-1218 *)
Definition context_to_exp (c : lctx) : exp :=
  fold_left (fun e p => BinOp Add e (BinOp Mul (Num (snd p)) (Var (fst p)))) (l_vars c) (Num (l_rhs c)).

Definition add_exp (a b : exp) := BinOp Add a b.
Definition sub_exp (a b : exp) := BinOp Sub a b.
Definition mul_exp (a b : exp) := BinOp Mul a b.
Definition sum_exps (l : list exp) : exp :=
  match l with [] => Num (Fin 0%Q) | x :: xs => fold_left add_exp xs x end.

(* ---------- Linearizer state, linearizer.rs:1415-1435 *)
Record dvar := mkDV { dv_type : vtype; dv_used : bool }.
Record midrow := mkRow { r_name : string; r_lhs : list (string * xq); r_rhs : xq; r_cmp : cmp }.
Record lst := mkS {
  s_queue : list constr;
  s_rows : list midrow;              (* in emission order *)
  s_cnt : list (string * N);         (* the nine counters, keyed by name prefix *)
  s_dom : list (string * dvar);
  s_an : astate }.

Definition M (A : Type) : Type := lst -> lerr + (A * lst).
Definition ret {A} (x : A) : M A := fun s => inr (x, s).
Definition fail {A} (e : lerr) : M A := fun _ => inl e.
Definition bind {A B} (m : M A) (f : A -> M B) : M B :=
  fun s => match m s with inl e => inl e | inr (x, s') => f x s' end.
Notation "x <- m ;; k" := (bind m (fun x => k)) (at level 61, m at next level, right associativity).
Notation "m ;;; k" := (bind m (fun _ => k)) (at level 61, right associativity).
Definition get_st : M lst := fun s => inr (s, s).

Fixpoint mapMM {A B} (f : A -> M B) (l : list A) : M (list B) :=
  match l with
  | [] => ret []
  | x :: xs => y <- f x ;; ys <- mapMM f xs ;; ret (y :: ys)
  end.
Fixpoint iterM {A} (f : A -> M unit) (l : list A) : M unit :=
  match l with
  | [] => ret tt
  | x :: xs => f x ;;; iterM f xs
  end.

Definition n_to_string (n : N) : string := NilZero.string_of_uint (N.to_uint n).

Definition next_id (key : string) : M N :=
  fun s =>
    let id := match al_get (s_cnt s) key with Some v => v | None => 0%N end in
    inr (id, mkS (s_queue s) (s_rows s) (al_insert (s_cnt s) key (id + 1)%N) (s_dom s) (s_an s)).

(* linearizer.rs:1474-1476 : push_front *)
Definition add_constraint (c : constr) : M unit :=
  fun s => inr (tt, mkS (c :: s_queue s) (s_rows s) (s_cnt s) (s_dom s) (s_an s)).
Definition mk_c (l : exp) (c : cmp) (r : exp) : constr := mkConstr "" l c r false.

(* linearizer.rs:1516-1529 *)
Definition declare_variable (n : string) (t : vtype) : M unit :=
  fun s =>
    if al_mem (s_dom s) n then inl (EVarDeclared n)
    else inr (tt, mkS (s_queue s) (s_rows s) (s_cnt s) (s_dom s ++ [(n, mkDV t true)])
                      (a_insert_variable (s_an s) n t)).

Definition push_row (r : midrow) : M unit :=
  fun s => inr (tt, mkS (s_queue s) (s_rows s ++ [r]) (s_cnt s) (s_dom s) (s_an s)).

Definition is_boolean_var (s : lst) (n : string) : bool :=
  match al_get (s_dom s) n with Some (mkDV TBoolean _) => true | _ => false end.

(* linearizer.rs:1224-1242 *)
Definition is_binary_context (c : lctx) (s : lst) : bool :=
  match l_vars c with
  | [] => xq_is_zero (l_rhs c) || xq_is_one (l_rhs c)
  | [(n, coeff)] =>
      is_boolean_var s n &&
      ((xq_is_one coeff && xq_is_zero (l_rhs c)) || (xq_eqb coeff (Fin (-1)%Q) && xq_is_one (l_rhs c)))
  | _ => false
  end.

(* sorting of names (Rust: Vec<String>::sort, bytewise) *)
Fixpoint insert_sorted (x : string) (l : list string) : list string :=
  match l with
  | [] => [x]
  | y :: r => if String.leb x y then x :: l else y :: insert_sorted x r
  end.
Definition sort_strings (l : list string) : list string := fold_right insert_sorted [] l.

(* linearizer.rs:1301-1335 *)
Definition variables_without_finite_bounds (e : exp) (a : astate) : list string :=
  sort_strings (filter (fun n => let b := a_get a n in
                                 negb (xq_is_finite (lo b)) || negb (xq_is_finite (hi b)))
                       (collect_variables e [])).

(* dominated-operand pruning, linearizer.rs:398-425 *)
Definition retained_indices (k : ekind) (obs : list bounds) : list nat :=
  let n := List.length obs in
  filter (fun index =>
    let b := nth index obs b_unbounded in
    negb (existsb (fun other =>
      if Nat.eqb index other then false else
      let ob := nth other obs b_unbounded in
      let dominates := match k with
                       | KMax => xq_geb (lo ob) (hi b)
                       | KMin => xq_leb (hi ob) (lo b) end in
      if negb dominates then false else
      let equal_fixed := xq_eqb (lo b) (hi b) && xq_eqb (lo ob) (hi ob) && xq_eqb (lo b) (lo ob) in
      negb equal_fixed || Nat.ltb other index) (seq O n))) (seq O n).

Section Lin.
  (* the recursive call, tied below *)
  Variable rec : exp -> req -> M lctx.

  (* linearizer.rs:1246-1262 *)
  Definition linearize_binary_operands (exps : list exp) (r : req) : M (list exp) :=
    mapMM (fun e => c <- rec e r ;; s <- get_st ;;
                    if is_binary_context c s then ret (context_to_exp c) else fail ENonBinary) exps.

  (* linearizer.rs:1266-1281 *)
  Definition reify_logic_variable (name : string) (cs : list (cmp * exp)) : M lctx :=
    iterM (fun p => add_constraint (mk_c (Var name) (fst p) (snd p))) cs ;;;
    declare_variable name TBoolean ;;;
    ret (l_from_var name (Fin 1%Q)).

  (* linearizer.rs:380-592 *)
  Definition linearize_extreme (k : ekind) (exps : list exp) (r : req) : M lctx :=
    let kind_name := match k with KMin => "min" | KMax => "max" end in
    match exps with
    | [] => fail EEmptyAgg
    | _ =>
      s0 <- get_st ;;
      let obs := map (bounds_of (s_an s0)) exps in
      let retained := retained_indices k obs in
      match retained with
      | [] => fail EEmptyAgg
      | [i] => rec (nth i exps (Num NaN)) r
      | _ =>
        let rexps := map (fun i => nth i exps (Num NaN)) retained in
        let rbounds := map (fun i => nth i obs b_unbounded) retained in
        let extreme_exp := match k with KMin => Min rexps | KMax => Max rexps end in
        let eb := bounds_of (s_an s0) extreme_exp in
        let one_sided := match k, r with
                         | KMax, PreferLower | KMin, PreferHigher => true
                         | _, _ => false end in
        let has_finite := match k with
                          | KMax => xq_is_finite (hi eb) && forallb (fun b => xq_is_finite (lo b)) rbounds
                          | KMin => xq_is_finite (lo eb) && forallb (fun b => xq_is_finite (hi b)) rbounds
                          end in
        if negb one_sided && negb has_finite
        then fail (EMissingBounds (variables_without_finite_bounds extreme_exp (s_an s0)))
        else
        id <- next_id kind_name ;;
        let var_name := "$" +++ kind_name +++ "_" +++ n_to_string id in
        declare_variable var_name (TReal (lo eb) (hi eb)) ;;;
        let oreq := match k, one_sided with
                    | KMax, true => PreferLower | KMin, true => PreferHigher | _, false => Exact end in
        operands <- mapMM (fun e => v <- rec e oreq ;; ret (context_to_exp v)) rexps ;;
        if one_sided then
          iterM (fun o => add_constraint (mk_c (Var var_name) (match k with KMin => Le | KMax => Ge end) o)) operands ;;;
          ret (l_from_var var_name (Fin 1%Q))
        else
          let sel_name (i : nat) := "$" +++ kind_name +++ "_" +++ n_to_string id +++ "_select_" +++ n_to_string (N.of_nat i) in
          iterM (fun i => declare_variable (sel_name i) TBoolean) (seq O (List.length operands)) ;;;
          let selectors := map (fun i => Var (sel_name i)) (seq O (List.length operands)) in
          iterM (fun t : (exp * bounds) * exp =>
                   let '((operand, b), selector) := t in
                   match k with
                   | KMax =>
                       add_constraint (mk_c (Var var_name) Ge operand) ;;;
                       add_constraint (mk_c (Var var_name) Le
                         (add_exp operand (mul_exp (Num (xq_sub (hi eb) (lo b))) (sub_exp (Num (Fin 1%Q)) selector))))
                   | KMin =>
                       add_constraint (mk_c (Var var_name) Le operand) ;;;
                       add_constraint (mk_c (Var var_name) Ge
                         (sub_exp operand (mul_exp (Num (xq_sub (hi b) (lo eb))) (sub_exp (Num (Fin 1%Q)) selector))))
                   end)
                (combine (combine operands rbounds) selectors) ;;;
          add_constraint (mk_c (sum_exps selectors) Eq (Num (Fin 1%Q))) ;;;
          ret (l_from_var var_name (Fin 1%Q))
      end
    end.

  (* linearizer.rs:76-377, one step of Exp::linearize *)
  Definition lin_step (e : exp) (r : req) : M lctx :=
    match e with
    | BinOp Add a b => la <- rec a r ;; lb <- rec b r ;; ret (l_merge_add la lb)
    | BinOp Sub a b => la <- rec a r ;; lb <- rec b (req_reversed r) ;; ret (l_merge_sub la lb)
    | BinOp Mul a b =>
        match a with
        | Num c => if xq_is_zero c then ret (l_from_rhs (Fin 0%Q))
                   else v <- rec b (through_scale r c) ;; ret (l_mul_by v c)
        | _ => match b with
               | Num c => if xq_is_zero c then ret (l_from_rhs (Fin 0%Q))
                          else v <- rec a (through_scale r c) ;; ret (l_mul_by v c)
               | _ => fail ENonLinear
               end
        end
    | BinOp Div a b =>
        match b with
        | Num d => if xq_is_zero d then fail EDivZero
                   else v <- rec a (through_scale r (xq_div (Fin 1%Q) d)) ;; ret (l_div_by v d)
        | _ => fail ENonLinear
        end
    | BinOp _ _ _ => fail EUnimplemented
    | UnOp Neg x => v <- rec x (req_reversed r) ;; ret (l_mul_by v (Fin (-1)%Q))
    | UnOp UNot _ => fail EUnimplemented
    | Num v => ret (l_from_rhs v)
    | Var n => ret (l_from_var n (Fin 1%Q))
    | Min l => linearize_extreme KMin l r
    | Max l => linearize_extreme KMax l r
    | Not x =>
        c <- rec x Exact ;; s <- get_st ;;
        if is_binary_context c s then ret (l_add_rhs (l_mul_by c (Fin (-1)%Q)) (Fin 1%Q)) else fail ENonBinary
    | And l =>
        match l with
        | [] => ret (l_from_rhs (Fin 1%Q))
        | _ =>
          ops <- linearize_binary_operands l Exact ;;
          id <- next_id "and" ;;
          let cs := map (fun o => (Le, o)) ops ++
                    [(Ge, sub_exp (sum_exps ops) (Num (xq_of_Z (Z.of_nat (List.length ops) - 1))))] in
          reify_logic_variable ("$and_" +++ n_to_string id) cs
        end
    | Or l =>
        match l with
        | [] => ret (l_from_rhs (Fin 0%Q))
        | _ =>
          ops <- linearize_binary_operands l Exact ;;
          id <- next_id "or" ;;
          let cs := map (fun o => (Ge, o)) ops ++ [(Le, sum_exps ops)] in
          reify_logic_variable ("$or_" +++ n_to_string id) cs
        end
    | Implies x y =>
        ops <- linearize_binary_operands [x; y] Exact ;;
        let a := nth 0 ops (Num NaN) in let b := nth 1 ops (Num NaN) in
        id <- next_id "implies" ;;
        reify_logic_variable ("$implies_" +++ n_to_string id)
          [(Ge, sub_exp (Num (Fin 1%Q)) a); (Ge, b); (Le, add_exp (sub_exp (Num (Fin 1%Q)) a) b)]
    | Iff x y =>
        ops <- linearize_binary_operands [x; y] Exact ;;
        let a := nth 0 ops (Num NaN) in let b := nth 1 ops (Num NaN) in
        id <- next_id "iff" ;;
        reify_logic_variable ("$iff_" +++ n_to_string id)
          [(Ge, sub_exp (add_exp a b) (Num (Fin 1%Q)));
           (Ge, sub_exp (sub_exp (Num (Fin 1%Q)) a) b);
           (Le, add_exp (sub_exp (Num (Fin 1%Q)) a) b);
           (Le, sub_exp (add_exp (Num (Fin 1%Q)) a) b)]
    | Xor x y =>
        ops <- linearize_binary_operands [x; y] Exact ;;
        let a := nth 0 ops (Num NaN) in let b := nth 1 ops (Num NaN) in
        id <- next_id "xor" ;;
        reify_logic_variable ("$xor_" +++ n_to_string id)
          [(Le, add_exp a b); (Ge, sub_exp a b); (Ge, sub_exp b a); (Le, sub_exp (sub_exp (Num (Fin 2%Q)) a) b)]
    | Abs x =>
        s0 <- get_st ;;
        let ib := bounds_of (s_an s0) x in
        if xq_geb (lo ib) (Fin 0%Q) then rec x r
        else if xq_leb (hi ib) (Fin 0%Q) then v <- rec x (req_reversed r) ;; ret (l_mul_by v (Fin (-1)%Q))
        else
        let needs_exact := match r with PreferLower => false | _ => true end in
        if needs_exact && (negb (xq_is_finite (lo ib)) || negb (xq_is_finite (hi ib)))
        then fail (EMissingBounds (variables_without_finite_bounds x (s_an s0)))
        else
        inner_c <- rec x Exact ;;
        let inner := context_to_exp inner_c in
        id <- next_id "abs" ;;
        let var_name := "$abs_" +++ n_to_string id in
        declare_variable var_name (TNonNegativeReal (Fin 0%Q) (xq_max (xq_neg (lo ib)) (hi ib))) ;;;
        add_constraint (mk_c (Var var_name) Ge inner) ;;;
        add_constraint (mk_c (Var var_name) Ge (UnOp Neg inner)) ;;;
        (if needs_exact then
           let pname := "$abs_" +++ n_to_string id +++ "_positive" in
           declare_variable pname TBoolean ;;;
           add_constraint (mk_c (Var var_name) Le
             (sub_exp inner (mul_exp (Num (xq_mul (Fin 2%Q) (lo ib))) (sub_exp (Num (Fin 1%Q)) (Var pname))))) ;;;
           add_constraint (mk_c (Var var_name) Le
             (add_exp (UnOp Neg inner) (mul_exp (Num (xq_mul (Fin 2%Q) (hi ib))) (Var pname))))
         else ret tt) ;;;
        ret (l_from_var var_name (Fin 1%Q))
    end.
End Lin.

Fixpoint lin (n : nat) (e : exp) (r : req) {struct n} : M lctx :=
  match n with
  | O => fail EFuel
  | S n => lin_step (lin n) e r
  end.

Definition lin_fuel (e : exp) : nat := exp_depth e + 2.
Definition linearize_exp (e : exp) (r : req) : M lctx := lin (lin_fuel e) e r.

Definition flatten_simplify (e : exp) : M exp :=
  match flatten e with
  | None => fail EFuel
  | Some f => match simplify f with None => fail EFuel | Some s => ret s end
  end.

(* linearizer.rs:1488-1509 *)
Definition emit_constraint (l : exp) (c : cmp) (r : exp) (name : string) : M unit :=
  e <- flatten_simplify (BinOp Sub l r) ;;
  let rq := match c with Le | Lt => PreferLower | Ge | Gt => PreferHigher | Eq => Exact end in
  v <- linearize_exp e rq ;;
  push_row (mkRow name (l_vars v) (xq_neg (l_rhs v)) c).

(* ---------- logic lowering, linearizer.rs:594-1203 *)
Definition comparison_holds (l : xq) (c : cmp) (r : xq) : bool :=
  match c with
  | Le => xq_leb l r | Ge => xq_geb l r | Eq => xq_eqb l r | Lt => xq_ltb l r | Gt => xq_gtb l r end.
Definition reversed_comparison (c : cmp) : cmp :=
  match c with Le => Ge | Ge => Le | Eq => Eq | Lt => Gt | Gt => Lt end.

Fixpoint is_logic_value (s : lst) (e : exp) : bool :=
  match e with
  | Num v => xq_is_zero v || xq_is_one v
  | Var n => is_boolean_var s n
  | And _ | Or _ | Xor _ _ | Implies _ _ | Iff _ _ => true
  | Not x => is_logic_value s x
  | BinOp (BAnd | BOr | BXor | BImplies | BIff) _ _ => true
  | BinOp _ _ _ => false
  | UnOp UNot x => is_logic_value s x
  | UnOp Neg _ => false
  | Abs _ | Min _ | Max _ => false
  end.

Inductive normalized := NAssertion (e : exp) (must_be_true : bool) | NTautology | NContradiction.

(* linearizer.rs:638-679 *)
Definition try_normalize_logic_constraint (s : lst) (l : exp) (c : cmp) (r : exp) : option normalized :=
  let go (e : exp) (c : cmp) (k : xq) : option normalized :=
    match e with
    | Num v => Some (if comparison_holds v c k then NTautology else NContradiction)
    | _ => match comparison_holds (Fin 0%Q) c k, comparison_holds (Fin 1%Q) c k with
           | false, true => Some (NAssertion e true)
           | true, false => Some (NAssertion e false)
           | true, true => Some NTautology
           | false, false => Some NContradiction
           end
    end in
  match r with
  | Num k => if is_logic_value s l then go l c k else None
  | _ => match l with
         | Num k => if is_logic_value s r then go r (reversed_comparison c) k else None
         | _ => None
         end
  end.

(* linearizer.rs:681-734 *)
Fixpoint binary_affine_value (s : lst) (e : exp) : option lctx :=
  match e with
  | Num v => if xq_is_zero v || xq_is_one v then Some (l_from_rhs v) else None
  | Var n => if is_boolean_var s n then Some (l_from_var n (Fin 1%Q)) else None
  | Not x | UnOp UNot x =>
      option_map (fun c => l_add_rhs (l_mul_by c (Fin (-1)%Q)) (Fin 1%Q)) (binary_affine_value s x)
  | _ => None
  end.

Definition bav_exp (s : lst) (e : exp) : option exp := option_map context_to_exp (binary_affine_value s e).

(* linearizer.rs:736-889 ; returns whether it handled the assertion *)
Fixpoint try_lower_affine (e : exp) (must : bool) (name : string) {struct e} : M bool :=
  match e with
  | Not x | UnOp UNot x => try_lower_affine x (negb must) name
  | And l =>
      s <- get_st ;;
      match mapM (bav_exp s) l with
      | None => ret false
      | Some ops =>
          let n := xq_of_Z (Z.of_nat (List.length ops)) in
          (if must then emit_constraint (sum_exps ops) Eq (Num n) name
           else emit_constraint (sum_exps ops) Le (Num (xq_sub n (Fin 1%Q))) name) ;;; ret true
      end
  | Or l =>
      s <- get_st ;;
      match mapM (bav_exp s) l with
      | None => ret false
      | Some ops =>
          emit_constraint (sum_exps ops) (if must then Ge else Eq) (Num (if must then Fin 1%Q else Fin 0%Q)) name ;;; ret true
      end
  | Implies a b =>
      s <- get_st ;;
      match bav_exp s a, bav_exp s b with
      | Some l, Some r =>
          (if must then emit_constraint l Le r name
           else emit_constraint (sub_exp l r) Eq (Num (Fin 1%Q)) name) ;;; ret true
      | _, _ => ret false
      end
  | Iff a b =>
      s <- get_st ;;
      match bav_exp s a, bav_exp s b with
      | Some l, Some r =>
          (if must then emit_constraint l Eq r name
           else emit_constraint (add_exp l r) Eq (Num (Fin 1%Q)) name) ;;; ret true
      | _, _ => ret false
      end
  | Xor a b =>
      s <- get_st ;;
      match bav_exp s a, bav_exp s b with
      | Some l, Some r =>
          (if must then emit_constraint (add_exp l r) Eq (Num (Fin 1%Q)) name
           else emit_constraint l Eq r name) ;;; ret true
      | _, _ => ret false
      end
  | Num _ | Var _ =>
      s <- get_st ;;
      match bav_exp s e with
      | None => ret false
      | Some v => emit_constraint v Eq (Num (if must then Fin 1%Q else Fin 0%Q)) name ;;; ret true
      end
  | UnOp Neg _ => ret false
  | BinOp _ _ _ => ret false
  | Abs _ | Min _ | Max _ => ret false
  end.

Definition fresh_witness : M string :=
  id <- next_id "logic_witness" ;;
  let name := "$logic_witness_" +++ n_to_string id in
  declare_variable name TBoolean ;;; ret name.

(* linearizer.rs:1058-1203 *)
Fixpoint witness (n : nat) (e : exp) (truth : bool) {struct n} : M exp :=
  match n with
  | O => fail EFuel
  | S n =>
    s <- get_st ;;
    match binary_affine_value s e with
    | Some v =>
        ret (context_to_exp (if truth then v else l_add_rhs (l_mul_by v (Fin (-1)%Q)) (Fin 1%Q)))
    | None =>
      match e with
      | And l =>
          children <- mapMM (fun x => witness n x truth) l ;;
          w <- fresh_witness ;;
          (if truth then iterM (fun c => emit_constraint (Var w) Le c "") children
           else emit_constraint (Var w) Le (sum_exps children) "") ;;;
          ret (Var w)
      | Or l =>
          children <- mapMM (fun x => witness n x truth) l ;;
          w <- fresh_witness ;;
          (if truth then emit_constraint (Var w) Le (sum_exps children) ""
           else iterM (fun c => emit_constraint (Var w) Le c "") children) ;;;
          ret (Var w)
      | Not x => witness n x (negb truth)
      | Implies a b => witness n (Or [Not a; b]) truth
      | Iff a b =>
          ops <- linearize_binary_operands (fun e r => linearize_exp e r) [a; b] Exact ;;
          let x := nth 0 ops (Num NaN) in let y := nth 1 ops (Num NaN) in
          w <- fresh_witness ;;
          let ubs := if truth
                     then [add_exp (sub_exp (Num (Fin 1%Q)) x) y; sub_exp (add_exp (Num (Fin 1%Q)) x) y]
                     else [add_exp x y; sub_exp (sub_exp (Num (Fin 2%Q)) x) y] in
          iterM (fun ub => emit_constraint (Var w) Le ub "") ubs ;;;
          ret (Var w)
      | Xor a b => witness n (Iff a b) (negb truth)
      | UnOp UNot x => witness n x (negb truth)
      | UnOp Neg _ => fail ENonBinary
      | BinOp _ _ _ => fail ENonBinary
      | Num _ | Var _ | Abs _ | Min _ | Max _ => fail ENonBinary
      end
    end
  end.
Definition witness_fuel (e : exp) : nat := 3 * exp_depth e + 3.
Definition directional_logic_witness (e : exp) (truth : bool) : M exp := witness (witness_fuel e) e truth.

(* linearizer.rs:891-1056 *)
Fixpoint lower_assert (n : nat) (e : exp) (must : bool) (name : string) {struct n} : M unit :=
  match n with
  | O => fail EFuel
  | S n =>
    match e with
    | Num v =>
        if negb (xq_is_zero v) && negb (xq_is_one v) then fail ENonBinary
        else if negb (Bool.eqb (xq_is_one v) must)
             then emit_constraint (Num (Fin 0%Q)) Eq (Num (Fin 1%Q)) name
             else ret tt
    | _ =>
      handled <- try_lower_affine e must name ;;
      if handled then ret tt else
      match e with
      | And l =>
          if must then iterM (fun x => lower_assert n x true name) l
          else ws <- mapMM (fun x => directional_logic_witness x false) l ;;
               emit_constraint (sum_exps ws) Ge (Num (Fin 1%Q)) name
      | Or l =>
          if must then ws <- mapMM (fun x => directional_logic_witness x true) l ;;
                       emit_constraint (sum_exps ws) Ge (Num (Fin 1%Q)) name
          else iterM (fun x => lower_assert n x false name) l
      | Not x => lower_assert n x (negb must) name
      | Implies a b =>
          if must then
            wa <- directional_logic_witness a false ;;
            wb <- directional_logic_witness b true ;;
            emit_constraint (sum_exps [wa; wb]) Ge (Num (Fin 1%Q)) name
          else lower_assert n a true name ;;; lower_assert n b false name
      | Iff a b =>
          ops <- linearize_binary_operands (fun e r => linearize_exp e r) [a; b] Exact ;;
          let x := nth 0 ops (Num NaN) in let y := nth 1 ops (Num NaN) in
          if must then emit_constraint x Eq y name
          else emit_constraint (add_exp x y) Eq (Num (Fin 1%Q)) name
      | Xor a b =>
          ops <- linearize_binary_operands (fun e r => linearize_exp e r) [a; b] Exact ;;
          let x := nth 0 ops (Num NaN) in let y := nth 1 ops (Num NaN) in
          if must then emit_constraint (add_exp x y) Eq (Num (Fin 1%Q)) name
          else emit_constraint x Eq y name
      | UnOp UNot x => lower_assert n x (negb must) name
      | UnOp Neg _ => fail ENonBinary
      | Var _ =>
          s <- get_st ;;
          match bav_exp s e with
          | None => fail ENonBinary
          | Some v => emit_constraint v Eq (Num (if must then Fin 1%Q else Fin 0%Q)) name
          end
      | BinOp _ _ _ => fail ENonBinary
      | Num _ | Abs _ | Min _ | Max _ => fail ENonBinary
      end
    end
  end.
Definition lower_logic_assertion (e : exp) (must : bool) (name : string) : M unit :=
  lower_assert (exp_depth e + 2) e must name.

(* ---------- main loop, linearizer.rs:1561-1593 *)
Definition process_constraint (c : constr) : M unit :=
  l <- flatten_simplify (c_lhs c) ;;
  r <- flatten_simplify (c_rhs c) ;;
  if c_assert c then lower_logic_assertion l true (c_name c) else
  s <- get_st ;;
  match try_normalize_logic_constraint s l (c_cmp c) r with
  | Some NTautology => ret tt
  | Some NContradiction => emit_constraint (Num (Fin 0%Q)) Eq (Num (Fin 1%Q)) (c_name c)
  | Some (NAssertion e must) => lower_logic_assertion e must (c_name c)
  | None => emit_constraint l (c_cmp c) r (c_name c)
  end.

Fixpoint main_loop (fuel : nat) : M unit :=
  match fuel with
  | O => fail EFuel
  | S fuel =>
    fun s =>
      match s_queue s with
      | [] => inr (tt, s)
      | c :: rest =>
          match process_constraint c (mkS rest (s_rows s) (s_cnt s) (s_dom s) (s_an s)) with
          | inl e => inl e
          | inr (_, s') => main_loop fuel s'
          end
      end
  end.

(* ---------- output *)
Record lrow := mkLRow { lr_name : string; lr_coeffs : list xq; lr_cmp : cmp; lr_rhs : xq }.
Record linmodel := mkLM {
  lm_vars : list string;
  lm_domain : list (string * vtype);
  lm_rows : list lrow;
  lm_objective : list xq;
  lm_offset : xq;
  lm_dir : direction }.

Record model := mkModel {
  m_dir : direction; m_obj : exp; m_constraints : list constr; m_domain : list (string * dvar) }.

(* linearizer.rs:1649-1659 *)
Definition extract_coeffs (m : list (string * xq)) (vars : list string) : list xq :=
  map (fun v => match al_get m v with Some c => c | None => Fin 0%Q end) vars.

(* name de-duplication, linearizer.rs:1599-1619 *)
Fixpoint find_candidate (fuel : nat) (base : string) (counter : N) (src assigned : list string) : string :=
  let cand := base +++ "__" +++ n_to_string counter in
  match fuel with
  | O => cand
  | S fuel => if set_mem src cand || set_mem assigned cand
              then find_candidate fuel base (counter + 1)%N src assigned else cand
  end.
Definition dedup_names (rows : list midrow) : list midrow :=
  let src := fold_left (fun acc r => if String.eqb (r_name r) "" then acc else set_add acc (r_name r)) rows [] in
  let fuel := 2 * List.length rows + 4 in
  fst (fold_left (fun (st : list midrow * list string) r =>
         let (out, assigned) := st in
         if String.eqb (r_name r) "" then (out ++ [r], assigned)
         else if negb (set_mem assigned (r_name r)) then (out ++ [r], assigned ++ [r_name r])
         else let cand := find_candidate fuel (r_name r) 2%N src assigned in
              (out ++ [mkRow cand (r_lhs r) (r_rhs r) (r_cmp r)], assigned ++ [cand]))
       rows ([], [])).

Definition total_size (m : model) : nat :=
  exp_size (m_obj m) + fold_left (fun acc c => acc + exp_size (c_lhs c) + exp_size (c_rhs c) + 1) (m_constraints m) 0.

(* linearizer.rs:1548-1646 *)
Definition compile (m : model) : lerr + linmodel :=
  let dom_types := map (fun p => (fst p, dv_type (snd p))) (m_domain m) in
  let an := analyze dom_types (m_constraints m) in
  let dom := map (fun p => (fst p, mkDV (tighten_type an (fst p) (dv_type (snd p))) (dv_used (snd p)))) (m_domain m) in
  let an := sync_with_domain an (map (fun p => (fst p, dv_type (snd p))) dom) in
  let s0 := mkS (m_constraints m) [] [] dom an in
  let rq := match m_dir m with DMin => PreferLower | DMax => PreferHigher | DSatisfy => Exact end in
  match (obj <- flatten_simplify (m_obj m) ;; linearize_exp obj rq) s0 with
  | inl e => inl e
  | inr (lobj, s1) =>
    match main_loop (16 * total_size m + 64) s1 with
    | inl e => inl e
    | inr (_, s2) =>
      let rows := dedup_names (s_rows s2) in
      let vars := sort_strings (map fst (filter (fun p => dv_used (snd p)) (s_dom s2))) in
      let domain := map (fun p => (fst p, dv_type (snd p))) (filter (fun p => set_mem vars (fst p)) (s_dom s2)) in
      inr (mkLM vars domain
             (map (fun r => mkLRow (r_name r) (extract_coeffs (r_lhs r) vars) (r_cmp r) (r_rhs r)) rows)
             (extract_coeffs (l_vars lobj) vars) (l_rhs lobj) (m_dir m))
    end
  end.
