(* StatusMap: the decision logic of solve_milp_lp_problem_with (milp_solver.rs) that turns microlp's raw outcome
   into rooc's result - the part of C15 that is rooc's own code. *)
From Coq Require Import Bool List.
Import ListNotations.

Inductive raw := RawOptimal | RawFeasible | RawInterrupted
               | RawErrInfeasible | RawErrUnbounded | RawErrInvalidOptions | RawErrInvalidOperation | RawErrInternal.
Inductive outcome := OutOptimal | OutFeasible
                   | OutErrLimitReached | OutErrInfeasible | OutErrUnbounded | OutErrOther.

(* milp_solver.rs: Ok(s) => match s.status() {..} ; Err(e) => match e {..} *)
Definition wrap (r : raw) : outcome :=
  match r with
  | RawOptimal => OutOptimal
  | RawFeasible => OutFeasible
  | RawInterrupted => OutErrLimitReached
  | RawErrInfeasible => OutErrInfeasible
  | RawErrUnbounded => OutErrUnbounded
  | RawErrInvalidOptions | RawErrInvalidOperation | RawErrInternal => OutErrOther
  end.

Definition is_solution (o : outcome) : bool := match o with OutOptimal | OutFeasible => true | _ => false end.

(* the property's labelling rules *)
Definition labelling_ok (r : raw) (o : outcome) : Prop :=
  match r with
  | RawOptimal => o = OutOptimal                      (* proven within the requested gap: may be called optimal *)
  | RawFeasible => o = OutFeasible                    (* incumbent only: merely feasible, never optimal *)
  | RawInterrupted => is_solution o = false           (* stopped before any feasible point: an error, not a solution *)
  | RawErrInvalidOptions => is_solution o = false     (* invalid option values are rejected with an error *)
  | RawErrInfeasible => o = OutErrInfeasible
  | RawErrUnbounded => o = OutErrUnbounded
  | RawErrInvalidOperation | RawErrInternal => is_solution o = false
  end.

Theorem wrap_never_mislabels : forall r, labelling_ok r (wrap r).
Proof. destruct r; reflexivity. Qed.

Definition raw_eqb (a b : raw) : bool :=
  match a, b with
  | RawOptimal, RawOptimal | RawFeasible, RawFeasible | RawInterrupted, RawInterrupted
  | RawErrInfeasible, RawErrInfeasible | RawErrUnbounded, RawErrUnbounded | RawErrInvalidOptions, RawErrInvalidOptions
  | RawErrInvalidOperation, RawErrInvalidOperation | RawErrInternal, RawErrInternal => true
  | _, _ => false end.
Definition outcome_eqb (a b : outcome) : bool :=
  match a, b with
  | OutOptimal, OutOptimal | OutFeasible, OutFeasible | OutErrLimitReached, OutErrLimitReached
  | OutErrInfeasible, OutErrInfeasible | OutErrUnbounded, OutErrUnbounded | OutErrOther, OutErrOther => true
  | _, _ => false end.

(* correspondence: observed (raw, outcome) pairs must be what the model's wrap produces *)
Definition pair_failures (l : list (raw * outcome)) : list nat :=
  map fst (filter (fun p : nat * (raw * outcome) => negb (outcome_eqb (wrap (fst (snd p))) (snd (snd p))))
                  (combine (seq 0 (length l)) l)).
