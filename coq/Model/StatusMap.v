(* StatusMap: the decision logic of solve_milp_lp_problem_with (milp_solver.rs) that turns microlp's raw outcome
   into rooc's result - the part of C15 that is rooc's own code. *)
From Coq Require Import QArith Qabs Qminmax Bool List.
Import ListNotations.
Local Open Scope Q_scope.

Inductive raw := RawOptimal | RawFeasible | RawInterrupted
               | RawErrInfeasible | RawErrUnbounded | RawErrInvalidOptions | RawErrInvalidOperation | RawErrInternal.
Inductive outcome := OutOptimal | OutFeasible
                   | OutErrLimitReached | OutErrInfeasible | OutErrUnbounded | OutErrOther.

(* what rooc looks at besides the status when the search reports Optimal: the requested gap, the value it is about to
   report (the model's constant term included) and microlp's proven bound shifted by the same constant *)
Record obs := mkObs { o_gap : option Q; o_value : Q; o_bound : option Q }.
Definition gap_guard : Q := 1 # 10000000000.
Definition gap_room (g value : Q) : Q := g * Qmax (Qabs value) gap_guard.
Definition within_gap (g value bound : Q) : bool := Qle_bool (Qabs (value - bound)) (gap_room g value).

(* milp_solver.rs, arm microlp::Status::Optimal: microlp measured the gap on an objective without the constant term;
   it is measured again on the reported value *)
Definition label_optimal (o : obs) : outcome :=
  match o_gap o, o_bound o with
  | Some g, Some b => if Qle_bool g 0 then OutOptimal else if within_gap g (o_value o) b then OutOptimal else OutFeasible
  | _, _ => OutOptimal
  end.

(* milp_solver.rs: Ok(s) => match s.status() {..} ; Err(e) => match e {..} *)
Definition wrap (r : raw) (o : obs) : outcome :=
  match r with
  | RawOptimal => label_optimal o
  | RawFeasible => OutFeasible
  | RawInterrupted => OutErrLimitReached
  | RawErrInfeasible => OutErrInfeasible
  | RawErrUnbounded => OutErrUnbounded
  | RawErrInvalidOptions | RawErrInvalidOperation | RawErrInternal => OutErrOther
  end.

Definition is_solution (o : outcome) : bool := match o with OutOptimal | OutFeasible => true | _ => false end.

(* the property's labelling rules *)
Definition labelling_ok (r : raw) (ob : obs) (o : outcome) : Prop :=
  match r with
  | RawOptimal =>                                     (* proven by the search: optimal, or - outside the gap once the constant is counted - feasible *)
      (o = OutOptimal \/ o = OutFeasible) /\
      (o = OutOptimal -> forall g b, o_gap ob = Some g -> 0 < g -> o_bound ob = Some b ->
         Qabs (o_value ob - b) <= gap_room g (o_value ob))
  | RawFeasible => o = OutFeasible                    (* incumbent only: merely feasible, never optimal *)
  | RawInterrupted => is_solution o = false           (* stopped before any feasible point: an error, not a solution *)
  | RawErrInvalidOptions => is_solution o = false     (* invalid option values are rejected with an error *)
  | RawErrInfeasible => o = OutErrInfeasible
  | RawErrUnbounded => o = OutErrUnbounded
  | RawErrInvalidOperation | RawErrInternal => is_solution o = false
  end.

Theorem wrap_never_mislabels : forall r ob, labelling_ok r ob (wrap r ob).
Proof.
  destruct r; intros ob; cbn [wrap labelling_ok]; try reflexivity. unfold label_optimal. split.
  - destruct (o_gap ob) as [g|]; [|left; reflexivity]. destruct (o_bound ob) as [b|]; [|left; reflexivity].
    destruct (Qle_bool g 0); [left; reflexivity|]. destruct (within_gap g (o_value ob) b); [left|right]; reflexivity.
  - intros H g b Hg Pg Hb. rewrite Hg, Hb in H. destruct (Qle_bool g 0) eqn:G.
    + apply Qle_bool_iff in G. exfalso. exact (Qlt_not_le _ _ Pg G).
    + destruct (within_gap g (o_value ob) b) eqn:W; [|discriminate H]. apply Qle_bool_iff in W. exact W.
Qed.

(* the label against the TRUE optimum: whenever the proven bound and the reported value bracket it (what a bound is),
   a result labelled optimal under a positive gap is within that gap of it *)
Theorem optimal_label_within_gap_of_optimum : forall r ob g b opt,
  wrap r ob = OutOptimal -> r = RawOptimal -> o_gap ob = Some g -> 0 < g -> o_bound ob = Some b ->
  (b <= opt <= o_value ob \/ o_value ob <= opt <= b) ->
  Qabs (o_value ob - opt) <= gap_room g (o_value ob).
Proof.
  intros r ob g b opt H -> Hg Pg Hb Br.
  destruct (wrap_never_mislabels RawOptimal ob) as [_ K]. specialize (K H g b Hg Pg Hb).
  eapply Qle_trans; [|exact K].
  destruct Br as [[B1 B2]|[B1 B2]].
  - rewrite !Qabs_pos.
    + apply Qplus_le_r. apply Qopp_le_compat. exact B1.
    + apply -> Qle_minus_iff. eapply Qle_trans; [exact B1|exact B2].
    + apply -> Qle_minus_iff. exact B2.
  - rewrite !Qabs_neg.
    + apply Qopp_le_compat. apply Qplus_le_r. apply Qopp_le_compat. exact B2.
    + apply Qle_minus_iff. setoid_replace (0 - (o_value ob - b)) with (b + - o_value ob) by ring. apply -> Qle_minus_iff. eapply Qle_trans; [exact B1|exact B2].
    + apply Qle_minus_iff. setoid_replace (0 - (o_value ob - opt)) with (opt + - o_value ob) by ring. apply -> Qle_minus_iff. exact B1.
Qed.

Definition raw_eqb (a b : raw) : bool :=
  match a, b with
  | RawOptimal, RawOptimal | RawFeasible, RawFeasible | RawInterrupted, RawInterrupted
  | RawErrInfeasible, RawErrInfeasible | RawErrUnbounded, RawErrUnbounded | RawErrInvalidOptions, RawErrInvalidOptions
  | RawErrInvalidOperation, RawErrInvalidOperation | RawErrInternal, RawErrInternal => true
  | _, _ => false end.
Definition outcome_eqb (a b : outcome) : bool :=
  match a, b with
  | OutOptimal, OutOptimal | OutFeasible, OutFeasible | OutErrLimitReached, OutErrLimitReached
  | OutErrInfeasible, OutErrInfeasible | OutErrUnbounded, OutErrUnbounded | OutErrOther, OutErrOther => true
  | _, _ => false end.

(* correspondence: observed (raw, outcome) pairs must be what the model's wrap produces *)
(* a relabelling decision taken within 1e-9 (relative) of the threshold may fall either way in f64 *)
Definition near_threshold (o : obs) : bool :=
  match o_gap o, o_bound o with
  | Some g, Some b => let d := Qabs (o_value o - b) in let t := gap_room g (o_value o) in
                      Qle_bool (Qabs (d - t)) ((1 # 1000000000) * Qmax t 1)
  | _, _ => false
  end.
Definition pair_ok (p : raw * obs * outcome) : bool :=
  let '(r, o, out) := p in
  outcome_eqb (wrap r o) out
  || (match r with RawOptimal => near_threshold o && is_solution out | _ => false end).
Definition pair_failures (l : list (raw * obs * outcome)) : list nat :=
  map fst (filter (fun p : nat * (raw * obs * outcome) => negb (pair_ok (snd p))) (combine (seq 0 (length l)) l)).
