(* BuilderOps: ModelBuilder as a state machine (builder/model.rs): add_var, with, with_all, minimize, maximize, satisfy
   in any order, then into_model.  Constraints are index-based trees until into_model names them. *)
From Coq Require Import QArith Bool List String.
From Rooc Require Import Base.XQ Model.Exp Model.Bounds Model.Linearize Model.Builder.
Import ListNotations.
Local Close Scope Q_scope.

Record bcon := mkBC { bc_name : string; bc_lhs : bexpr; bc_cmp : cmp; bc_rhs : bexpr; bc_assert : bool }.
Inductive bop :=
| OVar (name : string) (t : vtype)
| OWith (c : bcon)
| OWithAll (cs : list bcon)
| OMin (e : bexpr) | OMax (e : bexpr) | OSat.

Record bstate := mkBS {
  b_names : list string;                       (* variable_names: handle i is the i-th entry *)
  b_dom : list (string * vtype);               (* domain, in declaration order *)
  b_cons : list bcon;
  b_obj : option (direction * bexpr) }.
Definition b_init : bstate := mkBS [] [] [] None.

(* add_var panics on a duplicate name: None *)
Definition bstep (s : bstate) (o : bop) : option bstate :=
  match o with
  | OVar n t => if al_mem (b_dom s) n then None
                else Some (mkBS (b_names s ++ [n]) (b_dom s ++ [(n, t)]) (b_cons s) (b_obj s))
  | OWith c => Some (mkBS (b_names s) (b_dom s) (b_cons s ++ [c]) (b_obj s))
  | OWithAll cs => Some (mkBS (b_names s) (b_dom s) (b_cons s ++ cs) (b_obj s))
  | OMin e => Some (mkBS (b_names s) (b_dom s) (b_cons s) (Some (DMin, e)))
  | OMax e => Some (mkBS (b_names s) (b_dom s) (b_cons s) (Some (DMax, e)))
  | OSat => Some (mkBS (b_names s) (b_dom s) (b_cons s) (Some (DSatisfy, ENum (Fin 0%Q))))
  end.
Fixpoint brun (s : bstate) (ops : list bop) : option bstate :=
  match ops with
  | [] => Some s
  | o :: rest => match bstep s o with Some s' => brun s' rest | None => None end
  end.

(* BuilderConstraint::to_constraint: a logic assertion is stored as `lhs = 1` *)
Definition to_constr (names : list string) (c : bcon) : constr :=
  if bc_assert c then mkConstr (bc_name c) (to_exp names (bc_lhs c)) Eq (Num (Fin 1%Q)) true
  else mkConstr (bc_name c) (to_exp names (bc_lhs c)) (bc_cmp c) (to_exp names (bc_rhs c)) false.

(* into_model: every declared variable is marked used; no objective means satisfy *)
Definition into_model (s : bstate) : model :=
  let (d, e) := match b_obj s with Some p => p | None => (DSatisfy, ENum (Fin 0%Q)) end in
  mkModel d (to_exp (b_names s) e) (map (to_constr (b_names s)) (b_cons s))
          (map (fun p => (fst p, mkDV (snd p) true)) (b_dom s)).

(* ---------- the canonical description of what a call sequence means *)
Definition vars_of_ops (ops : list bop) : list (string * vtype) :=
  flat_map (fun o => match o with OVar n t => [(n, t)] | _ => [] end) ops.
Definition cons_of_ops (ops : list bop) : list bcon :=
  flat_map (fun o => match o with OWith c => [c] | OWithAll cs => cs | _ => [] end) ops.
Fixpoint last_obj (ops : list bop) (cur : option (direction * bexpr)) : option (direction * bexpr) :=
  match ops with
  | [] => cur
  | OMin e :: r => last_obj r (Some (DMin, e))
  | OMax e :: r => last_obj r (Some (DMax, e))
  | OSat :: r => last_obj r (Some (DSatisfy, ENum (Fin 0%Q)))
  | _ :: r => last_obj r cur
  end.
