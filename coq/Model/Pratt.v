(* Pratt: pest's PrattParserMap::{expr, nud, led, lbp} (pest::pratt_parser) over the token stream that the
   grammar rule  exp = unary_op? exp_leaf (binary_op unary_op? exp_leaf)*  delivers to it, parametrised by an
   operator table (instantiated with the table regenerated from exp_parser.rs in Gen/PrattTable.v). *)
From Coq Require Import Bool List Arith Lia String.
From Rooc Require Import Model.Exp Gen.PrattTable.
Import ListNotations.

Inductive token := TAtom (a : nat) | TInfix (op : binop) | TPrefix (op : unop).
Inductive tree := Leaf (a : nat) | Bin (op : binop) (l r : tree) | Pre (op : unop) (t : tree).

Section Table.
  (* binding power of an infix operator, whether it is right-associative, binding power of a prefix operator *)
  Variable prec : binop -> nat.
  Variable rassoc : binop -> bool.
  Variable pprec : unop -> nat.

  (* the right binding power passed to the recursive call for the right operand *)
  Definition rb (op : binop) : nat := if rassoc op then prec op - 1 else prec op.

  Definition lbp (ts : list token) : nat :=
    match ts with TInfix op :: _ => prec op | _ => 0 end.

  (* expr with fuel; returns the tree and the unconsumed tokens *)
  Fixpoint expr (fuel : nat) (rbp : nat) (ts : list token) : option (tree * list token) :=
    match fuel with
    | O => None
    | S fuel =>
      let nud :=
        match ts with
        | TAtom a :: rest => Some (Leaf a, rest)
        | TPrefix op :: rest =>
            match expr fuel (pprec op - 1) rest with
            | Some (t, rest') => Some (Pre op t, rest')
            | None => None
            end
        | _ => None
        end in
      match nud with
      | None => None
      | Some (lhs, rest) => led_loop fuel rbp lhs rest
      end
    end
  with led_loop (fuel : nat) (rbp : nat) (lhs : tree) (ts : list token) : option (tree * list token) :=
    match fuel with
    | O => None
    | S fuel =>
      match ts with
      | TInfix op :: rest =>
          if Nat.ltb rbp (prec op) then
            match expr fuel (rb op) rest with
            | Some (rhs, rest') => led_loop fuel rbp (Bin op lhs rhs) rest'
            | None => None
            end
          else Some (lhs, ts)
      | _ => Some (lhs, ts)
      end
    end.

  Definition parse (ts : list token) : option tree :=
    match expr (2 * List.length ts + 2) 0 ts with
    | Some (t, []) => Some t
    | _ => None
    end.

  Fixpoint flatten (t : tree) : list token :=
    match t with
    | Leaf a => [TAtom a]
    | Bin op l r => flatten l ++ TInfix op :: flatten r
    | Pre op u => TPrefix op :: flatten u
    end.

  (* the declarative reading of precedence climbing: t can be produced by expr at right binding power rbp *)
  Fixpoint wfr (rbp : nat) (t : tree) : Prop :=
    match t with
    | Leaf _ => True
    | Pre op u => wfr (pprec op - 1) u
    | Bin op l r =>
        rbp < prec op /\ wfr rbp l /\ wfr (rb op) r /\
        match l with Bin op' _ _ => prec op <= rb op' | _ => True end
    end.
  Definition wf (t : tree) : Prop := wfr 0 t.

  Fixpoint wfrb (rbp : nat) (t : tree) : bool :=
    match t with
    | Leaf _ => true
    | Pre op u => wfrb (pprec op - 1) u
    | Bin op l r =>
        Nat.ltb rbp (prec op) && wfrb rbp l && wfrb (rb op) r &&
        match l with Bin op' _ _ => Nat.leb (prec op) (rb op') | _ => true end
    end.
End Table.

(* ---------- the table regenerated from the source *)
Definition rule_of_binop (op : binop) : string :=
  match op with
  | Add => "add" | Sub => "sub" | Mul => "mul" | Div => "div" | BAnd => "and_op" | BOr => "or_op"
  | BXor => "xor_op" | BImplies => "implies_op" | BIff => "iff_op" end.
Definition rule_of_unop (op : unop) : string := match op with Neg => "neg" | UNot => "not_op" end.

Definition lookup_rule (r : string) : option (affix * assoc * nat) :=
  match filter (fun e : string * affix * assoc * nat => String.eqb (fst (fst (fst e))) r) pratt_table with
  | (_, af, asc, lvl) :: _ => Some (af, asc, lvl)
  | [] => None
  end.
Definition PREC_STEP : nat := 10.
Definition src_prec (op : binop) : nat :=
  match lookup_rule (rule_of_binop op) with Some (_, _, lvl) => PREC_STEP * lvl | None => 0 end.
Definition src_rassoc (op : binop) : bool :=
  match lookup_rule (rule_of_binop op) with Some (_, ARight, _) => true | _ => false end.
Definition src_pprec (op : unop) : nat :=
  match lookup_rule (rule_of_unop op) with Some (_, _, lvl) => PREC_STEP * lvl | None => 0 end.

Definition src_parse := parse src_prec src_rassoc src_pprec.
Definition src_wfb := wfrb src_prec src_rassoc src_pprec 0.

(* the expression tree a parse tree denotes (atoms are variables v0, v1, ...), in the shape PreExp::into_exp produces *)
Definition atom_name (a : nat) : string :=
  String (Ascii.ascii_of_nat (Nat.add 97 (Nat.modulo a 26))) (if Nat.ltb a 26 then EmptyString else "x"%string).
Fixpoint tree_exp (t : tree) : exp :=
  match t with
  | Leaf a => Var (atom_name a)
  | Pre Neg u => UnOp Neg (tree_exp u)
  | Pre UNot u => Not (tree_exp u)
  | Bin op l r =>
      match op with
      | BAnd => And [tree_exp l; tree_exp r]
      | BOr => Or [tree_exp l; tree_exp r]
      | BXor => Xor (tree_exp l) (tree_exp r)
      | BImplies => Implies (tree_exp l) (tree_exp r)
      | BIff => Iff (tree_exp l) (tree_exp r)
      | _ => BinOp op (tree_exp l) (tree_exp r)
      end
  end.
