(* Sem: the language's semantics as the repository defines it (builder/expr.rs eval_expr, the test
   suite's eval_exp): numbers are truthy iff non-zero, logic operators return 0/1, strict evaluation,
   None exactly for a division by zero, an empty numeric min/max, or a non-finite constant.
   [ev] is over real assignments (what the theorems quantify over); [evQ] is its computable twin. *)
From Coq Require Import QArith Qreals Reals ZArith Bool List String.
From Rooc Require Import Base.XQ Model.Exp.
Import ListNotations.
Local Close Scope Q_scope.
Local Open Scope R_scope.

Definition truthyR (x : R) : bool := if Req_EM_T x 0 then false else true.
Definition bnR (b : bool) : R := if b then 1 else 0.
Definition is_binR (x : R) : bool := if Req_EM_T x 0 then true else if Req_EM_T x 1 then true else false.
Definition is_num (e : exp) : bool := match e with Num _ => true | _ => false end.

Definition fold_min (l : list R) : option R :=
  match l with [] => None | x :: xs => Some (fold_left Rmin xs x) end.
Definition fold_max (l : list R) : option R :=
  match l with [] => None | x :: xs => Some (fold_left Rmax xs x) end.

Definition ev_binop (op : binop) (l r : R) : option R :=
  match op with
  | Add => Some (l + r) | Sub => Some (l - r) | Mul => Some (l * r)
  | Div => if Req_EM_T r 0 then None else Some (l / r)
  | BAnd => Some (bnR (truthyR l && truthyR r))
  | BOr => Some (bnR (truthyR l || truthyR r))
  | BXor => Some (bnR (xorb (truthyR l) (truthyR r)))
  | BImplies => Some (bnR (negb (truthyR l) || truthyR r))
  | BIff => Some (bnR (Bool.eqb (truthyR l) (truthyR r)))
  end.

Section Ev.
  Variable rho : string -> R.
  (* [typed]: additionally require every non-literal operand of and/or to evaluate to 0 or 1
     (what the type checker guarantees for programs; see C10 and finding F17) *)
  Variable typed : bool.

  Definition operand_ok (e : exp) (v : R) : bool := negb typed || is_num e || is_binR v.

  Fixpoint evg (e : exp) : option R :=
    let fix evl (l : list exp) : option (list R) :=
      match l with
      | [] => Some []
      | x :: xs => match evg x, evl xs with Some v, Some vs => Some (v :: vs) | _, _ => None end
      end in
    let fix evl_ok (l : list exp) : option (list R) :=
      match l with
      | [] => Some []
      | x :: xs => match evg x, evl_ok xs with
                   | Some v, Some vs => if operand_ok x v then Some (v :: vs) else None
                   | _, _ => None end
      end in
    match e with
    | Num (Fin q) => Some (Q2R q)
    | Num _ => None
    | Var s => Some (rho s)
    | Abs x => option_map Rabs (evg x)
    | Min l => match evl l with Some vs => fold_min vs | None => None end
    | Max l => match evl l with Some vs => fold_max vs | None => None end
    | And l => option_map (fun vs => bnR (forallb truthyR vs)) (evl_ok l)
    | Or l => option_map (fun vs => bnR (existsb truthyR vs)) (evl_ok l)
    | Not x => option_map (fun v => bnR (negb (truthyR v))) (evg x)
    | Xor a b => match evg a, evg b with Some x, Some y => Some (bnR (xorb (truthyR x) (truthyR y))) | _, _ => None end
    | Implies a b => match evg a, evg b with Some x, Some y => Some (bnR (negb (truthyR x) || truthyR y)) | _, _ => None end
    | Iff a b => match evg a, evg b with Some x, Some y => Some (bnR (Bool.eqb (truthyR x) (truthyR y))) | _, _ => None end
    | BinOp op a b =>
        match evg a, evg b with
        | Some x, Some y =>
            match op with
            | BAnd | BOr => if operand_ok a x && operand_ok b y then ev_binop op x y else None
            | _ => ev_binop op x y
            end
        | _, _ => None
        end
    | UnOp Neg x => option_map Ropp (evg x)
    | UnOp UNot x => option_map (fun v => bnR (negb (truthyR v))) (evg x)
    end.
End Ev.

Definition ev (rho : string -> R) : exp -> option R := evg rho false.
Definition evT (rho : string -> R) : exp -> option R := evg rho true.

(* ---------- computable twin over rational assignments (used by oracles; not by the theorems) *)
Definition truthyQ (x : Q) : bool := negb (Qeq_bool x 0).
Definition bnQ (b : bool) : Q := if b then 1%Q else 0%Q.

Fixpoint evQ (rho : string -> Q) (e : exp) : option Q :=
  let fix evl (l : list exp) : option (list Q) :=
    match l with
    | [] => Some []
    | x :: xs => match evQ rho x, evl xs with Some v, Some vs => Some (v :: vs) | _, _ => None end
    end in
  match e with
  | Num (Fin q) => Some q
  | Num _ => None
  | Var s => Some (rho s)
  | Abs x => option_map q_abs (evQ rho x)
  | Min l => match evl l with Some (v :: vs) => Some (fold_left q_min vs v) | _ => None end
  | Max l => match evl l with Some (v :: vs) => Some (fold_left q_max vs v) | _ => None end
  | And l => option_map (fun vs => bnQ (forallb truthyQ vs)) (evl l)
  | Or l => option_map (fun vs => bnQ (existsb truthyQ vs)) (evl l)
  | Not x => option_map (fun v => bnQ (negb (truthyQ v))) (evQ rho x)
  | Xor a b => match evQ rho a, evQ rho b with Some x, Some y => Some (bnQ (xorb (truthyQ x) (truthyQ y))) | _, _ => None end
  | Implies a b => match evQ rho a, evQ rho b with Some x, Some y => Some (bnQ (negb (truthyQ x) || truthyQ y)) | _, _ => None end
  | Iff a b => match evQ rho a, evQ rho b with Some x, Some y => Some (bnQ (Bool.eqb (truthyQ x) (truthyQ y))) | _, _ => None end
  | BinOp op a b =>
      match evQ rho a, evQ rho b with
      | Some x, Some y =>
          match op with
          | Add => Some (x + y)%Q | Sub => Some (x - y)%Q | Mul => Some (x * y)%Q
          | Div => if Qeq_bool y 0 then None else Some (x / y)%Q
          | BAnd => Some (bnQ (truthyQ x && truthyQ y))
          | BOr => Some (bnQ (truthyQ x || truthyQ y))
          | BXor => Some (bnQ (xorb (truthyQ x) (truthyQ y)))
          | BImplies => Some (bnQ (negb (truthyQ x) || truthyQ y))
          | BIff => Some (bnQ (Bool.eqb (truthyQ x) (truthyQ y)))
          end
      | _, _ => None
      end
  | UnOp Neg x => option_map Qopp (evQ rho x)
  | UnOp UNot x => option_map (fun v => bnQ (negb (truthyQ v))) (evQ rho x)
  end.
