(* Simplify: Exp::simplify (model.rs:154-312) and simplify_logic_nary (model.rs:472-508),
   arm by arm.  The Rust code re-enters simplify on rebuilt trees (BinOp::And => And[..].simplify()),
   so the model recurses on fuel; None = out of fuel (excluded by the theorems, exposed by the tie). *)
From Coq Require Import QArith ZArith Bool List String.
Local Close Scope Q_scope.
From Rooc Require Import Base.XQ Model.Exp.
Import ListNotations.

Definition num_truthy (x : xq) : bool := negb (xq_is_zero x).   (* value != 0.0 ; NaN is truthy *)
Definition logic_number (b : bool) : xq := if b then Fin 1%Q else Fin 0%Q.

Definition all_nums (l : list exp) : option (list xq) := mapM as_num l.

(* second loop + final match of simplify_logic_nary over the flattened children *)
Fixpoint nary_scan (is_and : bool) (l : list exp) (acc : list exp) : exp + list exp :=
  match l with
  | [] => inr (rev acc)
  | e :: rest =>
      match as_num e with
      | Some v =>
        let t := num_truthy v in
        if andb is_and (negb t) then inl (Num (Fin 0%Q))
        else if andb (negb is_and) t then inl (Num (Fin 1%Q))
        else nary_scan is_and rest acc
      | None => nary_scan is_and rest (e :: acc)
      end
  end.

Definition nary_finish (is_and : bool) (flat : list exp) : exp :=
  match nary_scan is_and flat [] with
  | inl e => e
  | inr [] => Num (logic_number is_and)
  | inr [e] => e
  | inr l => if is_and then And l else Or l
  end.

Definition nary_splice (is_and : bool) (e : exp) : list exp :=
  match is_and, e with
  | true, And inner => inner
  | false, Or inner => inner
  | _, e => [e]
  end.

Definition is_num_zero (e : exp) : bool := match e with Num x => xq_is_zero x | _ => false end.
Definition is_num_one (e : exp) : bool := match e with Num x => xq_is_one x | _ => false end.

(* the non-recursive top-level rule of each arm, applied to already simplified children *)
Definition simp_add (l r : exp) : exp :=
  match as_num l, as_num r with
  | Some x, Some y => Num (xq_add x y)
  | _, _ => if is_num_zero l then r else if is_num_zero r then l else BinOp Add l r
  end.
Definition simp_sub (l r : exp) : exp :=
  match as_num l, as_num r with
  | Some x, Some y => Num (xq_sub x y)
  | _, _ => if is_num_zero r then l else BinOp Sub l r
  end.
Definition simp_mul (l r : exp) : exp :=
  match as_num l, as_num r with
  | Some x, Some y => Num (xq_mul x y)
  | _, _ => if is_num_zero l || is_num_zero r then Num (Fin 0%Q)
            else if is_num_one l then r else if is_num_one r then l else BinOp Mul l r
  end.
Definition simp_div (l r : exp) : exp :=
  match as_num l, as_num r with
  | Some x, Some y => if xq_is_zero y then BinOp Div (Num x) (Num y) else Num (xq_div x y)
  | _, _ => if is_num_one r then l else BinOp Div l r
  end.
Definition simp_neg (s : exp) : exp := match as_num s with Some v => Num (xq_neg v) | None => UnOp Neg s end.
Definition simp_not (s : exp) : exp :=
  match as_num s with Some v => Num (logic_number (negb (num_truthy v))) | None => Not s end.
Definition simp_abs (s : exp) : exp := match as_num s with Some v => Num (xq_abs v) | None => Abs s end.
Definition simp_xor (l r : exp) : exp :=
  match as_num l, as_num r with
  | Some x, Some y => Num (logic_number (xorb (num_truthy x) (num_truthy y)))
  | _, _ => Xor l r end.
Definition simp_implies (l r : exp) : exp :=
  match as_num l, as_num r with
  | Some x, Some y => Num (logic_number (negb (num_truthy x) || num_truthy y))
  | _, _ => Implies l r end.
Definition simp_iff (l r : exp) : exp :=
  match as_num l, as_num r with
  | Some x, Some y => Num (logic_number (Bool.eqb (num_truthy x) (num_truthy y)))
  | _, _ => Iff l r end.
Definition simp_max (sl : list exp) : exp :=
  match all_nums sl with Some nums => Num (fold_left xq_max nums NInf) | None => Max sl end.
Definition simp_min (sl : list exp) : exp :=
  match all_nums sl with Some nums => Num (fold_left xq_min nums PInf) | None => Min sl end.
Definition simp_nary (is_and : bool) (sl : list exp) : exp :=
  nary_finish is_and (flat_map (nary_splice is_and) sl).

Fixpoint simplify_f (n : nat) (e : exp) {struct n} : option exp :=
  match n with
  | O => None
  | S n =>
    let sub2 (f : exp -> exp -> exp) (a b : exp) : option exp :=
      match simplify_f n a, simplify_f n b with
      | Some l, Some r => Some (f l r)
      | _, _ => None
      end in
    match e with
    | BinOp op a b =>
      match op with
      | Add => sub2 simp_add a b
      | Sub => sub2 simp_sub a b
      | Mul => sub2 simp_mul a b
      | Div => sub2 simp_div a b
      | BAnd => match sub2 (fun l r => And [l; r]) a b with Some t => simplify_f n t | None => None end
      | BOr => match sub2 (fun l r => Or [l; r]) a b with Some t => simplify_f n t | None => None end
      | BXor => match sub2 Xor a b with Some t => simplify_f n t | None => None end
      | BImplies => match sub2 Implies a b with Some t => simplify_f n t | None => None end
      | BIff => match sub2 Iff a b with Some t => simplify_f n t | None => None end
      end
    | UnOp Neg a => option_map simp_neg (simplify_f n a)
    | UnOp UNot a => option_map simp_not (simplify_f n a)
    | Abs a => option_map simp_abs (simplify_f n a)
    | And l => option_map (simp_nary true) (mapM (simplify_f n) l)
    | Or l => option_map (simp_nary false) (mapM (simplify_f n) l)
    | Not a => option_map simp_not (simplify_f n a)
    | Xor a b => sub2 simp_xor a b
    | Implies a b => sub2 simp_implies a b
    | Iff a b => sub2 simp_iff a b
    | Max [] => Some (Max [])
    | Max l => option_map simp_max (mapM (simplify_f n) l)
    | Min [] => Some (Min [])
    | Min l => option_map simp_min (mapM (simplify_f n) l)
    | Num _ | Var _ => Some e
    end
  end.

Definition simplify_fuel (e : exp) : nat := 2 * exp_depth e + 2.
Definition simplify (e : exp) : option exp := simplify_f (simplify_fuel e) e.
