(* Cert/Bridge: from a compiled linear model (xq coefficients) to the rational LP the checkers work on,
   certificates as produced by the untrusted exact solver, and the certified verdict.
   Row order agreed with tools/exactlp.py: the model's rows in order, then for every variable in order its
   lower-bound row (if finite) and its upper-bound row (if finite). *)
From Coq Require Import QArith ZArith Bool List String.
From Rooc Require Import Base.XQ Model.Exp Model.Bounds Model.Linearize Cert.LP.
Import ListNotations.
Local Open Scope Q_scope.
Local Open Scope list_scope.

Definition q_of (x : xq) : option Q := match x with Fin q => Some q | _ => None end.

Definition qrow_of (r : lrow) : option qrow :=
  match mapM q_of (lr_coeffs r), q_of (lr_rhs r) with
  | Some a, Some b => match lr_cmp r with Le | Ge | Eq => Some (mkQRow a (lr_cmp r) b) | _ => None end
  | _, _ => None
  end.

Definition unitq (n i : nat) : list Q := map (fun j => if Nat.eqb j i then 1 else 0) (seq 0 n).

(* lower / upper bound of a variable type as option-of-finite (None = no bound); error = ill-formed *)
Inductive obound := BNone | BVal (q : Q) | BBad.
Definition lower_of (t : vtype) : obound :=
  match t with
  | TBoolean => BVal 0
  | TIntegerRange l _ => BVal (inject_Z l)
  | TNonNegativeReal l _ => match l with Fin q => BVal (if Qle_bool q 0 then 0 else q) | NInf => BVal 0 | _ => BBad end
  | TReal l _ => match l with Fin q => BVal q | NInf => BNone | _ => BBad end
  end.
Definition upper_of (t : vtype) : obound :=
  match t with
  | TBoolean => BVal 1
  | TIntegerRange _ u => BVal (inject_Z u)
  | TNonNegativeReal _ u | TReal _ u => match u with Fin q => BVal q | PInf => BNone | _ => BBad end
  end.

Definition bound_rows_of (L : linmodel) : option (list qrow) :=
  let n := List.length (lm_vars L) in
  fold_left (fun (acc : option (list qrow)) (p : nat * string) =>
    match acc, al_get (lm_domain L) (snd p) with
    | Some rows, Some t =>
        match lower_of t, upper_of t with
        | BBad, _ | _, BBad => None
        | lo, hi =>
            Some (rows ++ (match lo with BVal q => [mkQRow (unitq n (fst p)) Ge q] | _ => [] end)
                       ++ (match hi with BVal q => [mkQRow (unitq n (fst p)) Le q] | _ => [] end))
        end
    | _, _ => None
    end) (combine (seq 0 n) (lm_vars L)) (Some []).

Definition is_continuous (L : linmodel) : bool :=
  forallb (fun p => match snd p with TReal _ _ | TNonNegativeReal _ _ => true | _ => false end) (lm_domain L).
Definition is_integral (L : linmodel) : bool :=
  forallb (fun p => match snd p with TBoolean | TIntegerRange _ _ => true | _ => false end) (lm_domain L).

(* the LP relaxation (integrality dropped); Satisfy is minimisation of the zero objective *)
Definition lp_of (L : linmodel) : option qlp :=
  match mapM qrow_of (lm_rows L), bound_rows_of L, mapM q_of (lm_objective L) with
  | Some rows, Some brows, Some obj =>
      let n := List.length (lm_vars L) in
      Some (mkQLP n (rows ++ brows)
                  (match lm_dir L with DSatisfy => repeat 0 n | _ => obj end)
                  (match lm_dir L with DMax => true | _ => false end))
  | _, _, _ => None
  end.

Inductive cert := COpt (x y : list Q) | CInf (y : list Q) | CUnb (x d : list Q) | CEnum | CNone.
Inductive truth := TOpt (v : Q) | TInf | TUnb | TUnknown.

Definition offset_of (L : linmodel) : Q :=
  match lm_dir L, q_of (lm_offset L) with DSatisfy, _ => 0 | _, Some q => q | _, None => 0 end.

(* ---------- exhaustive enumeration for all-integer models with small boxes *)
Definition range_Z (lo hi : Z) : list Z := map (fun k => (lo + Z.of_nat k)%Z) (seq 0 (Z.to_nat (hi - lo + 1))).
Definition int_range (t : vtype) : list Q :=
  match t with
  | TBoolean => [0; 1]
  | TIntegerRange l u => map inject_Z (range_Z l u)
  | _ => []
  end.
Fixpoint box (ranges : list (list Q)) : list (list Q) :=
  match ranges with
  | [] => [[]]
  | r :: rest => flat_map (fun v => map (fun tl => v :: tl) (box rest)) r
  end.
Definition box_size (ranges : list (list Q)) : nat := fold_left (fun a r => a * List.length r)%nat ranges 1%nat.

Definition enum_truth (L : linmodel) (P : qlp) : truth :=
  let ranges := map (fun v => match al_get (lm_domain L) v with Some t => int_range t | None => [] end) (lm_vars L) in
  if Nat.ltb (Z.to_nat 20000) (box_size ranges) then TUnknown else
  let pts := filter (feasibleb P) (box ranges) in
  match pts with
  | [] => TInf
  | p :: rest =>
      let best := fold_left (fun b x => let v := qdot (ql_obj P) x in
                                        if (if ql_max P then Qle_bool b v else Qle_bool v b) then v else b)
                            rest (qdot (ql_obj P) p) in
      TOpt (best + offset_of L)
  end.

Definition certified (L : linmodel) (c : cert) : truth :=
  match lp_of L with
  | None => TUnknown
  | Some P =>
    match c with
    | CEnum => if is_integral L then enum_truth L P else TUnknown
    | CNone => TUnknown
    | COpt x y => if is_continuous L && check_opt_cert P x y then TOpt (qdot (ql_obj P) x + offset_of L) else TUnknown
    | CInf y => if check_infeasible_cert P y then TInf else TUnknown    (* LP relaxation infeasible => model infeasible *)
    | CUnb x d => if is_continuous L && check_unbounded_cert P x d then TUnb else TUnknown
    end
  end.

Record scase := mkSCase { sc_model : linmodel; sc_cert : cert }.
Definition truth_code (t : truth) : Z * Z * Z :=
  match t with
  | TUnknown => (0, 0, 1)%Z | TInf => (2, 0, 1)%Z | TUnb => (3, 0, 1)%Z
  | TOpt v => let r := Qred v in (1, Qnum r, Zpos (Qden r))%Z
  end.
Definition truths (l : list scase) : list (Z * Z * Z) := map (fun c => truth_code (certified (sc_model c) (sc_cert c))) l.
