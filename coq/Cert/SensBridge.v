(* Sensitivity cases expressed on compiled linear models. *)
From Coq Require Import QArith ZArith Bool List String.
From Rooc Require Import Base.XQ Model.Exp Model.Bounds Model.Linearize Cert.LP Cert.Bridge Cert.Sensitivity.
Import ListNotations.
Local Open Scope Q_scope.

Record lsens := mkLSens { ls_model : linmodel; ls_x : list Q; ls_y : list Q; ls_i : nat; ls_delta : Q; ls_xp : list Q; ls_xm : list Q }.
Definition lsens_code (c : lsens) : Z * Z * Z :=
  match lp_of (ls_model c) with
  | Some P => if is_continuous (ls_model c) && Nat.ltb (ls_i c) (List.length (lm_rows (ls_model c)))
              then sens_code (mkSens P (ls_x c) (ls_y c) (ls_i c) (ls_delta c) (ls_xp c) (ls_xm c)) else (0, 0, 1)%Z
  | None => (0, 0, 1)%Z
  end.
Definition lsens_codes (l : list lsens) : list (Z * Z * Z) := map lsens_code l.
