(* Cert/Solution: verified checker for C04 - a returned solution is feasible and self-consistent within 1e-6. *)
From Coq Require Import QArith Qabs Qround Lqa ZArith Bool List String Lia.
From Rooc Require Import Base.XQ Model.Exp Model.Bounds Model.Linearize Cert.LP Cert.Bridge.
Import ListNotations.
Local Open Scope Q_scope.
Local Open Scope list_scope.

Record sol := mkSol { so_assign : list (string * Q); so_value : Q; so_acts : list (string * Q) }.
Definition tol6 : Q := 1 # 1000000.

Definition qabs_le (a : Q) (t : Q) : bool := Qle_bool a t && Qle_bool (- t) a.
Definition near (a b : Q) : bool := qabs_le (a - b) tol6.

Definition count_name (n : string) (l : list (string * Q)) : nat :=
  List.length (filter (fun p => String.eqb n (fst p)) l).
(* every variable of the model has exactly one value, and nothing else is reported *)
Definition names_once (vars : list string) (a : list (string * Q)) : bool :=
  Nat.eqb (List.length a) (List.length vars) && forallb (fun v => Nat.eqb (count_name v a) 1) vars.

Definition value_of (a : list (string * Q)) (v : string) : Q := match al_get a v with Some q => q | None => 0 end.
Definition vector_of (vars : list string) (a : list (string * Q)) : list Q := map (value_of a) vars.

Definition row_tol (x : list Q) (r : qrow) : bool :=
  match qr_cmp r with
  | Le => Qle_bool (qdot (qr_a r) x) (qr_b r + tol6)
  | Ge => Qle_bool (qr_b r - tol6) (qdot (qr_a r) x)
  | Eq => near (qdot (qr_a r) x) (qr_b r)
  | _ => false
  end.

Definition near_int (v : Q) : bool := near v (inject_Z (Qfloor (v + (1 # 2)))).
Definition dom_tol (t : vtype) (v : Q) : bool :=
  (match lower_of t with BVal lo => Qle_bool (lo - tol6) v | BNone => true | BBad => false end)
  && (match upper_of t with BVal hi => Qle_bool v (hi + tol6) | BNone => true | BBad => false end)
  && (match t with
      | TBoolean => near v 0 || near v 1
      | TIntegerRange _ _ => near_int v
      | _ => true end).

Definition qmax1 (a : Q) : Q := if Qle_bool 1 a then a else if Qle_bool a (-1) then - a else 1.

Definition check_solution (L : linmodel) (s : sol) : bool :=
  names_once (lm_vars L) (so_assign s) &&
  match mapM qrow_of (lm_rows L), mapM q_of (lm_objective L), q_of (lm_offset L) with
  | Some rows, Some obj, Some off =>
      let x := vector_of (lm_vars L) (so_assign s) in
      forallb (row_tol x) rows
      && forallb (fun v => match al_get (lm_domain L) v with Some t => dom_tol t (value_of (so_assign s) v) | None => false end) (lm_vars L)
      && (match lm_dir L with
          | DSatisfy => true
          | _ => let o := qdot obj x + off in qabs_le (so_value s - o) (tol6 * qmax1 o) end)
      && forallb (fun p : string * Q =>
            String.eqb (fst p) "" ||
            existsb (fun r : lrow * qrow => String.eqb (lr_name (fst r)) (fst p) && near (snd p) (qdot (qr_a (snd r)) x))
                    (combine (lm_rows L) rows)) (so_acts s)
  | _, _, _ => false
  end.

(* ---------- soundness *)
Lemma qabs_le_sound a t : qabs_le a t = true -> - t <= a <= t.
Proof. unfold qabs_le. intros H. apply andb_true_iff in H as [H1 H2]. apply Qle_bool_iff in H1, H2. split; assumption. Qed.
Lemma near_sound a b : near a b = true -> - tol6 <= a - b <= tol6.
Proof. apply qabs_le_sound. Qed.

Definition row_holds_tol (x : list Q) (r : qrow) : Prop :=
  match qr_cmp r with
  | Le => qdot (qr_a r) x <= qr_b r + tol6
  | Ge => qr_b r - tol6 <= qdot (qr_a r) x
  | Eq => - tol6 <= qdot (qr_a r) x - qr_b r <= tol6
  | _ => False
  end.
Lemma row_tol_sound x r : row_tol x r = true -> row_holds_tol x r.
Proof.
  unfold row_tol, row_holds_tol. destruct (qr_cmp r); intros H; try discriminate.
  - apply Qle_bool_iff; exact H. - apply Qle_bool_iff; exact H. - apply near_sound; exact H.
Qed.

Definition dom_holds_tol (t : vtype) (v : Q) : Prop :=
  (forall lo, lower_of t = BVal lo -> lo - tol6 <= v) /\
  (forall hi, upper_of t = BVal hi -> v <= hi + tol6) /\
  match t with
  | TBoolean => (- tol6 <= v <= tol6) \/ (- tol6 <= v - 1 <= tol6)
  | TIntegerRange _ _ => exists z : Z, - tol6 <= v - inject_Z z <= tol6
  | _ => True
  end.
Lemma dom_tol_sound t v : dom_tol t v = true -> dom_holds_tol t v.
Proof.
  unfold dom_tol, dom_holds_tol. intros H. apply andb_true_iff in H as [H H3]. apply andb_true_iff in H as [H1 H2].
  split; [|split].
  - intros lo E. rewrite E in H1. apply Qle_bool_iff. exact H1.
  - intros hi E. rewrite E in H2. apply Qle_bool_iff. exact H2.
  - destruct t; try exact I.
    + apply orb_true_iff in H3 as [N|N]; apply near_sound in N; [left|right]; [|exact N].
      destruct N. split; lra.
    + exists (Qfloor (v + (1 # 2))). apply near_sound. exact H3.
Qed.

Theorem check_solution_sound L s :
  check_solution L s = true ->
  exists rows obj off,
    mapM qrow_of (lm_rows L) = Some rows /\ mapM q_of (lm_objective L) = Some obj /\ q_of (lm_offset L) = Some off /\
    let x := vector_of (lm_vars L) (so_assign s) in
    (* every variable of the model has exactly one value *)
    (List.length (so_assign s) = List.length (lm_vars L) /\ forall v, In v (lm_vars L) -> count_name v (so_assign s) = 1%nat) /\
    (* every row and every variable domain (bounds, integrality, 0/1) holds within 1e-6 *)
    Forall (row_holds_tol x) rows /\
    (forall v, In v (lm_vars L) -> exists t, al_get (lm_domain L) v = Some t /\ dom_holds_tol t (value_of (so_assign s) v)) /\
    (* the reported objective is the objective function at the returned values, offset included *)
    (lm_dir L <> DSatisfy -> let o := qdot obj x + off in - (tol6 * qmax1 o) <= so_value s - o <= tol6 * qmax1 o).
Proof.
  unfold check_solution. intros H. apply andb_true_iff in H as [Hn H].
  destruct (mapM qrow_of (lm_rows L)) as [rows|]; [|discriminate].
  destruct (mapM q_of (lm_objective L)) as [obj|]; [|discriminate].
  destruct (q_of (lm_offset L)) as [off|]; [|discriminate].
  exists rows, obj, off. repeat split; try reflexivity.
  - unfold names_once in Hn. apply andb_true_iff in Hn as [Hl _]. apply Nat.eqb_eq. exact Hl.
  - intros v Hv. unfold names_once in Hn. apply andb_true_iff in Hn as [_ Hc]. rewrite forallb_forall in Hc.
    apply Nat.eqb_eq. exact (Hc v Hv).
  - apply andb_true_iff in H as [H _]. apply andb_true_iff in H as [H _]. apply andb_true_iff in H as [Hr _].
    apply Forall_forall. intros r Hin. apply row_tol_sound. rewrite forallb_forall in Hr. exact (Hr r Hin).
  - intros v Hv. apply andb_true_iff in H as [H _]. apply andb_true_iff in H as [H _]. apply andb_true_iff in H as [_ Hd].
    rewrite forallb_forall in Hd. specialize (Hd v Hv). destruct (al_get (lm_domain L) v) as [t|]; [|discriminate].
    exists t; split; [reflexivity|apply dom_tol_sound; exact Hd].
  - apply andb_true_iff in H as [H _]. apply andb_true_iff in H as [_ Ho]. destruct (lm_dir L); try contradiction;
      apply qabs_le_sound in Ho; exact (proj1 Ho).
  - apply andb_true_iff in H as [H _]. apply andb_true_iff in H as [_ Ho]. destruct (lm_dir L); try contradiction;
      apply qabs_le_sound in Ho; exact (proj2 Ho).
Qed.

Record solcase := mkSolCase { so_model : linmodel; so_sol : sol }.
Definition sol_failures (l : list solcase) : list Z :=
  map fst (filter (fun p : Z * solcase => negb (check_solution (so_model (snd p)) (so_sol (snd p))))
                  (combine (map Z.of_nat (seq 0 (List.length l))) l)).
