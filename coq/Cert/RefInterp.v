(* Cert/RefInterp: a verified exhaustive reference interpreter for source models over bounded integer / Boolean
   variables: it enumerates the whole box and evaluates the text's own semantics (evQ) exactly. *)
From Coq Require Import QArith ZArith Bool List String Lia.
From Rooc Require Import Base.XQ Model.Exp Model.Sem Model.Bounds Model.Linearize Cert.Bridge.
Import ListNotations.
Local Open Scope Q_scope.
Local Open Scope list_scope.

Definition env := list (string * Q).
Definition lookup (r : env) (n : string) : Q := match al_get r n with Some q => q | None => 0 end.

Definition cmpQ (c : cmp) (l r : Q) : bool :=
  match c with
  | Le => Qle_bool l r | Ge => Qle_bool r l | Eq => Qeq_bool l r
  | Lt => negb (Qle_bool r l) | Gt => negb (Qle_bool l r) end.

(* a constraint holds at rho; None = some expression is undefined there *)
Definition holdsQ (rho : env) (c : constr) : option bool :=
  match evQ (lookup rho) (c_lhs c), evQ (lookup rho) (c_rhs c) with
  | Some l, Some r => Some (if c_assert c then Qeq_bool l 1 else cmpQ (c_cmp c) l r)
  | _, _ => None
  end.
Definition satQ (cs : list constr) (rho : env) : bool :=
  forallb (fun c => match holdsQ rho c with Some true => true | _ => false end) cs.
Definition definedQ (cs : list constr) (obj : exp) (rho : env) : bool :=
  forallb (fun c => match holdsQ rho c with Some _ => true | None => false end) cs
  && match evQ (lookup rho) obj with Some _ => true | None => false end.

Definition var_range (t : vtype) : option (list Q) :=
  match t with
  | TBoolean => Some [0; 1]
  | TIntegerRange l u => Some (map inject_Z (range_Z l u))
  | _ => None
  end.
Fixpoint envs (decls : list (string * vtype)) : option (list env) :=
  match decls with
  | [] => Some [[]]
  | (n, t) :: rest =>
      match var_range t, envs rest with
      | Some r, Some es => Some (flat_map (fun v => map (fun e => (n, v) :: e) es) r)
      | _, _ => None
      end
  end.

Inductive rres := RBest (v : Q) (rho : env) | RNoPoint | RUndefined | RUnsupported.

Definition better (d : direction) (a b : Q) : bool :=   (* a at least as good as b *)
  match d with DMin => Qle_bool a b | DMax => Qle_bool b a | DSatisfy => true end.

Definition ref_solve (m : model) : rres :=
  let decls := map (fun p => (fst p, dv_type (snd p))) (filter (fun p => dv_used (snd p)) (m_domain m)) in
  match envs decls with
  | None => RUnsupported
  | Some es =>
      if negb (forallb (definedQ (m_constraints m) (m_obj m)) es) then RUndefined else
      let feas := filter (satQ (m_constraints m)) es in
      match feas with
      | [] => RNoPoint
      | r0 :: rest =>
          let val r := match evQ (lookup r) (m_obj m) with Some v => v | None => 0 end in
          let best := fold_left (fun b r => if better (m_dir m) (val b) (val r) then b else r) rest r0 in
          RBest (val best) best
      end
  end.

(* ---------- soundness and completeness over the box *)
Lemma fold_best_spec d (val : env -> Q) : forall rest r0,
  let best := fold_left (fun b r => if better d (val b) (val r) then b else r) rest r0 in
  In best (r0 :: rest) /\ forall r, In r (r0 :: rest) -> better d (val best) (val r) = true.
Proof.
  assert (Refl : forall a, better d a a = true) by (intros a; destruct d; cbn; try apply Qle_bool_iff; try reflexivity; apply Qle_refl).
  assert (Trans : forall a b c, better d a b = true -> better d b c = true -> better d a c = true).
  { intros a b c; destruct d; cbn; intros H1 H2; try reflexivity; apply Qle_bool_iff in H1, H2; apply Qle_bool_iff; eapply Qle_trans; eauto. }
  assert (Total : forall a b, better d a b = false -> better d b a = true).
  { intros a b; destruct d; cbn; intros H; try discriminate; apply Qle_bool_iff.
    - destruct (Qlt_le_dec b a) as [L|L]; [apply Qlt_le_weak; exact L|]. apply Qle_bool_iff in L. congruence.
    - destruct (Qlt_le_dec a b) as [L|L]; [apply Qlt_le_weak; exact L|]. apply Qle_bool_iff in L. congruence. }
  induction rest as [|r rest IH]; intros r0; cbn [fold_left].
  - split; [left; reflexivity|]. intros r [<-|[]]. apply Refl.
  - destruct (better d (val r0) (val r)) eqn:B.
    + destruct (IH r0) as [I1 I2]. split.
      * destruct I1 as [E|I1]; [left; exact E|right; right; exact I1].
      * intros x [<-|[<-|Hx]]; [apply I2; left; reflexivity| |apply I2; right; exact Hx].
        eapply Trans; [apply I2; left; reflexivity|exact B].
    + destruct (IH r) as [I1 I2]. split.
      * right. exact I1.
      * intros x [<-|[<-|Hx]]; [|apply I2; left; reflexivity|apply I2; right; exact Hx].
        eapply Trans; [apply I2; left; reflexivity|apply Total; exact B].
Qed.

Theorem ref_solve_best m v rho :
  ref_solve m = RBest v rho ->
  exists es, envs (map (fun p => (fst p, dv_type (snd p))) (filter (fun p => dv_used (snd p)) (m_domain m))) = Some es /\
    In rho es /\ satQ (m_constraints m) rho = true /\ evQ (lookup rho) (m_obj m) = Some v /\
    forall rho' v', In rho' es -> satQ (m_constraints m) rho' = true -> evQ (lookup rho') (m_obj m) = Some v' ->
      better (m_dir m) v v' = true.
Proof.
  unfold ref_solve. destruct (envs _) as [es|] eqn:E; [|discriminate]. exists es. split; [reflexivity|].
  destruct (forallb (definedQ (m_constraints m) (m_obj m)) es) eqn:D; cbn [negb] in H; [|discriminate].
  destruct (filter (satQ (m_constraints m)) es) as [|r0 rest] eqn:F; [discriminate|].
  set (val := fun r : env => match evQ (lookup r) (m_obj m) with Some v => v | None => 0 end) in *.
  destruct (fold_best_spec (m_dir m) val rest r0) as [Hin Hbest].
  inversion H; subst v rho; clear H.
  assert (Hfeas : In (fold_left (fun b r => if better (m_dir m) (val b) (val r) then b else r) rest r0) (filter (satQ (m_constraints m)) es))
    by (rewrite F; exact Hin).
  apply filter_In in Hfeas as [Hes Hsat].
  split; [exact Hes|]. split; [exact Hsat|]. split.
  - rewrite forallb_forall in D. specialize (D _ Hes). unfold definedQ in D. apply andb_true_iff in D as [_ D].
    unfold val. destruct (evQ _ (m_obj m)); [reflexivity|discriminate].
  - intros rho' v' Hin' Hsat' Hv'. assert (In rho' (r0 :: rest)) by (rewrite <- F; apply filter_In; auto).
    specialize (Hbest _ H). unfold val in Hbest. rewrite Hv' in Hbest. exact Hbest.
Qed.

Theorem ref_solve_nopoint m :
  ref_solve m = RNoPoint ->
  exists es, envs (map (fun p => (fst p, dv_type (snd p))) (filter (fun p => dv_used (snd p)) (m_domain m))) = Some es /\
    forall rho, In rho es -> satQ (m_constraints m) rho = false.
Proof.
  unfold ref_solve. destruct (envs _) as [es|] eqn:E; [|discriminate]. exists es. split; [reflexivity|].
  destruct (forallb _ es); cbn [negb] in H; [|discriminate].
  destruct (filter (satQ (m_constraints m)) es) as [|r0 rest] eqn:F; [|discriminate].
  intros rho Hin. destruct (satQ (m_constraints m) rho) eqn:S; [|reflexivity].
  assert (In rho (filter (satQ (m_constraints m)) es)) by (apply filter_In; auto). rewrite F in H0. destruct H0.
Qed.

(* ---------- cases for the per-program validation of C03 *)
Record pcase := mkPCase { pc_model : model; pc_point : option env }.
(* code: 1 best (value), 2 no point, 3 undefined somewhere, 0 unsupported ; and whether the implementation's returned
   point satisfies the text and what the text's objective is there *)
Definition point_code (m : model) (p : option env) : Z * Z * Z :=
  match p with
  | None => (0, 0, 1)%Z
  | Some rho =>
      if satQ (m_constraints m) rho
      then match evQ (lookup rho) (m_obj m) with
           | Some v => let r := Qred v in (1, Qnum r, Zpos (Qden r))%Z
           | None => (3, 0, 1)%Z end
      else (2, 0, 1)%Z
  end.
Definition ref_code (m : model) : Z * Z * Z :=
  match ref_solve m with
  | RBest v _ => let r := Qred v in (1, Qnum r, Zpos (Qden r))%Z
  | RNoPoint => (2, 0, 1)%Z
  | RUndefined => (3, 0, 1)%Z
  | RUnsupported => (0, 0, 1)%Z
  end.
Definition pcodes (l : list pcase) : list ((Z * Z * Z) * (Z * Z * Z)) :=
  map (fun c => (ref_code (pc_model c), point_code (pc_model c) (pc_point c))) l.
