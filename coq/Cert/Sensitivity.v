(* Cert/Sensitivity: when ONE dual vector y certifies the optimum of an LP and of the same LP with the right-hand
   side of row i moved by delta, the optimal value moves by exactly y_i * delta - i.e. y_i is the sensitivity
   (shadow price) of row i, in the sense of the user's own objective (min or max). *)
From Coq Require Import QArith Lqa ZArith Bool List Lia.
From Rooc Require Import Model.Exp Cert.LP.
Import ListNotations.
Local Open Scope Q_scope.

Fixpoint perturb_rows (rows : list qrow) (i : nat) (delta : Q) : list qrow :=
  match rows, i with
  | [], _ => []
  | r :: rest, O => mkQRow (qr_a r) (qr_cmp r) (qr_b r + delta) :: rest
  | r :: rest, S i => r :: perturb_rows rest i delta
  end.
Definition perturb (P : qlp) (i : nat) (delta : Q) : qlp :=
  mkQLP (ql_n P) (perturb_rows (ql_rows P) i delta) (ql_obj P) (ql_max P).

Lemma combb_perturb : forall rows y i delta, (i < List.length rows)%nat -> List.length y = List.length rows ->
  combb y (perturb_rows rows i delta) == combb y rows + nth i y 0 * delta.
Proof.
  induction rows as [|r rows IH]; intros y i delta Hi Hl; cbn in Hi; [lia|].
  destruct y as [|k y]; [discriminate|]. destruct i as [|i]; cbn.
  - lra.
  - rewrite IH; [lra|lia|cbn in Hl; lia].
Qed.

Definition check_sensitivity (P : qlp) (x y : list Q) (i : nat) (delta : Q) (x' : list Q) : bool :=
  Nat.ltb i (List.length (ql_rows P)) && check_opt_cert P x y && check_opt_cert (perturb P i delta) x' y.

Theorem sensitivity_cert_sound P x y i delta x' :
  check_sensitivity P x y i delta x' = true ->
  (* x is optimal for P, x' is optimal for the perturbed problem ... *)
  (feasible P x /\ forall z, feasible P z -> better_eq P (qdot (ql_obj P) x) (qdot (ql_obj P) z)) /\
  (feasible (perturb P i delta) x' /\
   forall z, feasible (perturb P i delta) z -> better_eq P (qdot (ql_obj P) x') (qdot (ql_obj P) z)) /\
  (* ... and the optimal value moved by exactly y_i * delta *)
  qdot (ql_obj P) x' - qdot (ql_obj P) x == nth i y 0 * delta.
Proof.
  unfold check_sensitivity. intros H. apply andb_true_iff in H as [H H2]. apply andb_true_iff in H as [Hi H1].
  apply Nat.ltb_lt in Hi.
  split; [apply (opt_cert_sound P x y); exact H1|]. split; [apply (opt_cert_sound (perturb P i delta) x' y); exact H2|].
  unfold check_opt_cert in H1, H2.
  apply andb_true_iff in H1 as [H1 V1]. apply andb_true_iff in H2 as [H2 V2].
  apply andb_true_iff in H1 as [H1 _]. apply andb_true_iff in H1 as [_ S1].
  apply Qeq_bool_iff in V1, V2. cbn [ql_obj ql_rows perturb] in V2.
  unfold signs_ok in S1. apply andb_true_iff in S1 as [L _]. apply Nat.eqb_eq in L.
  rewrite V1, V2, combb_perturb by assumption. lra.
Qed.

Record senscase := mkSens { se_lp : qlp; se_x : list Q; se_y : list Q; se_i : nat; se_delta : Q; se_xp : list Q; se_xm : list Q }.
(* a two-sided certificate: the same dual certifies +delta and -delta, so the optimum is differentiable in b_i
   with slope y_i.  Output per case: (1, num, den) with the slope, or (0, 0, 1). *)
Definition sens_code (c : senscase) : Z * Z * Z :=
  if check_sensitivity (se_lp c) (se_x c) (se_y c) (se_i c) (se_delta c) (se_xp c)
     && check_sensitivity (se_lp c) (se_x c) (se_y c) (se_i c) (- se_delta c) (se_xm c)
  then let r := Qred (nth (se_i c) (se_y c) 0) in (1, Qnum r, Zpos (Qden r))%Z
  else (0, 0, 1)%Z.
Definition sens_codes (l : list senscase) : list (Z * Z * Z) := map sens_code l.
