(* Cert/LP: verified certificate checkers for linear programs over the rationals (axiom-free).
   A certificate is produced by an untrusted exact solver; the checker accepts it only if it proves the claim:
     optimal      : a feasible point x and a dual vector y with matching objective (weak duality)
     infeasible   : a Farkas vector y
     unbounded    : a feasible point x and an improving recession direction d.  *)
From Coq Require Import QArith Qminmax Lqa ZArith Bool List Lia.
From Rooc Require Import Model.Exp.
Import ListNotations.
Local Open Scope Q_scope.

Fixpoint qdot (a x : list Q) : Q :=
  match a, x with
  | p :: a', v :: x' => p * v + qdot a' x'
  | _, _ => 0
  end.
Fixpoint vadd (u v : list Q) : list Q :=
  match u, v with
  | p :: u', q :: v' => (p + q) :: vadd u' v'
  | _, _ => []
  end.
Definition vscale (k : Q) (u : list Q) : list Q := map (fun p => k * p) u.
Definition vzero (n : nat) : list Q := repeat 0 n.

Record qrow := mkQRow { qr_a : list Q; qr_cmp : cmp; qr_b : Q }.
Record qlp := mkQLP { ql_n : nat; ql_rows : list qrow; ql_obj : list Q; ql_max : bool }.

Definition row_holds (x : list Q) (r : qrow) : Prop :=
  match qr_cmp r with
  | Le => qdot (qr_a r) x <= qr_b r
  | Ge => qr_b r <= qdot (qr_a r) x
  | Eq => qdot (qr_a r) x == qr_b r
  | _ => False
  end.
Definition row_holdsb (x : list Q) (r : qrow) : bool :=
  match qr_cmp r with
  | Le => Qle_bool (qdot (qr_a r) x) (qr_b r)
  | Ge => Qle_bool (qr_b r) (qdot (qr_a r) x)
  | Eq => Qeq_bool (qdot (qr_a r) x) (qr_b r)
  | _ => false
  end.
Definition wf_lp (P : qlp) : bool :=
  forallb (fun r => Nat.eqb (List.length (qr_a r)) (ql_n P)) (ql_rows P) && Nat.eqb (List.length (ql_obj P)) (ql_n P).
Definition feasible (P : qlp) (x : list Q) : Prop :=
  List.length x = ql_n P /\ Forall (row_holds x) (ql_rows P).
Definition feasibleb (P : qlp) (x : list Q) : bool :=
  Nat.eqb (List.length x) (ql_n P) && forallb (row_holdsb x) (ql_rows P).

(* a <= b in the direction of optimisation: a is at least as good as b *)
Definition better_eq (P : qlp) (a b : Q) : Prop := if ql_max P then b <= a else a <= b.

Lemma row_holdsb_sound x r : row_holdsb x r = true -> row_holds x r.
Proof.
  unfold row_holdsb, row_holds. destruct (qr_cmp r); intros H; try discriminate.
  - apply Qle_bool_iff; exact H. - apply Qle_bool_iff; exact H. - apply Qeq_bool_iff; exact H.
Qed.
Lemma feasibleb_sound P x : feasibleb P x = true -> feasible P x.
Proof.
  unfold feasibleb, feasible. intros H. apply andb_true_iff in H as [H1 H2]. split; [apply Nat.eqb_eq; exact H1|].
  apply Forall_forall. intros r Hr. apply row_holdsb_sound. rewrite forallb_forall in H2. exact (H2 r Hr).
Qed.

(* ---------- linear algebra on lists *)
Lemma qdot_vadd u : forall v x, List.length u = List.length x -> List.length v = List.length x ->
  qdot (vadd u v) x == qdot u x + qdot v x.
Proof.
  induction u as [|p u IH]; intros v x L1 L2; destruct x as [|w x]; cbn in *; try discriminate.
  - destruct v; cbn in *; [lra|discriminate].
  - destruct v as [|q v]; cbn in *; [discriminate|]. rewrite IH by lia. lra.
Qed.
Lemma qdot_vscale k u : forall x, qdot (vscale k u) x == k * qdot u x.
Proof.
  induction u as [|p u IH]; intros x; cbn; [lra|]. destruct x as [|w x]; cbn; [lra|]. rewrite IH. lra.
Qed.
Lemma qdot_vzero n : forall x, qdot (vzero n) x == 0.
Proof. induction n as [|n IH]; intros x; cbn; [lra|]. destruct x; cbn; [lra|]. rewrite IH. lra. Qed.
Lemma vadd_length u : forall v n, List.length u = n -> List.length v = n -> List.length (vadd u v) = n.
Proof.
  induction u as [|p u IH]; intros v n L1 L2; destruct v; cbn in *; subst; try discriminate; [reflexivity|].
  f_equal. apply IH; lia.
Qed.
Lemma vscale_length k u : List.length (vscale k u) = List.length u.
Proof. apply map_length. Qed.
Lemma vzero_length n : List.length (vzero n) = n.
Proof. apply repeat_length. Qed.

(* sum_i y_i * a_i  and  sum_i y_i * b_i *)
Fixpoint comb (n : nat) (y : list Q) (rows : list qrow) : list Q :=
  match y, rows with
  | k :: y', r :: rows' => vadd (vscale k (qr_a r)) (comb n y' rows')
  | _, _ => vzero n
  end.
Fixpoint combb (y : list Q) (rows : list qrow) : Q :=
  match y, rows with
  | k :: y', r :: rows' => k * qr_b r + combb y' rows'
  | _, _ => 0
  end.
Fixpoint comb_ax (y : list Q) (rows : list qrow) (x : list Q) : Q :=
  match y, rows with
  | k :: y', r :: rows' => k * qdot (qr_a r) x + comb_ax y' rows' x
  | _, _ => 0
  end.

Lemma comb_length n y : forall rows, Forall (fun r => List.length (qr_a r) = n) rows -> List.length (comb n y rows) = n.
Proof.
  induction y as [|k y IH]; intros rows HF; cbn; [apply vzero_length|].
  destruct rows as [|r rows]; [apply vzero_length|]. apply Forall_cons_iff in HF as [Hr HF'].
  apply vadd_length; [rewrite vscale_length; assumption|apply IH; assumption].
Qed.
Lemma qdot_comb n y : forall rows x, Forall (fun r => List.length (qr_a r) = n) rows -> List.length x = n ->
  qdot (comb n y rows) x == comb_ax y rows x.
Proof.
  induction y as [|k y IH]; intros rows x HF Hx; cbn; [apply qdot_vzero|].
  destruct rows as [|r rows]; [apply qdot_vzero|]. apply Forall_cons_iff in HF as [Hr HF'].
  rewrite qdot_vadd; [|rewrite vscale_length; lia|rewrite comb_length by assumption; lia].
  rewrite qdot_vscale, IH by assumption. lra.
Qed.

(* sign condition making  y_i * (a_i.x)  >=  y_i * b_i  on every feasible x  (for minimisation) *)
Definition sign_ok_min (c : cmp) (k : Q) : bool :=
  match c with Ge => Qle_bool 0 k | Le => Qle_bool k 0 | Eq => true | _ => false end.
Definition signs_ok (mx : bool) (y : list Q) (rows : list qrow) : bool :=
  Nat.eqb (List.length y) (List.length rows) &&
  forallb (fun p : Q * qrow => sign_ok_min (qr_cmp (snd p)) (if mx then - fst p else fst p)) (combine y rows).

Lemma comb_ge_min y : forall rows x,
  forallb (fun p : Q * qrow => sign_ok_min (qr_cmp (snd p)) (fst p)) (combine y rows) = true ->
  Forall (row_holds x) rows -> combb y rows <= comb_ax y rows x.
Proof.
  induction y as [|k y IH]; intros rows x Hs HF; cbn; [lra|]. destruct rows as [|r rows]; [lra|].
  cbn in Hs. apply andb_true_iff in Hs as [S1 S2]. inversion HF as [|? ? Hr HF']; subst.
  specialize (IH rows x S2 HF'). unfold sign_ok_min in S1. unfold row_holds in Hr.
  destruct (qr_cmp r); try discriminate.
  - apply Qle_bool_iff in S1. nra.
  - apply Qle_bool_iff in S1. nra.
  - rewrite Hr. lra.
Qed.
Lemma comb_le_max y : forall rows x,
  forallb (fun p : Q * qrow => sign_ok_min (qr_cmp (snd p)) (- fst p)) (combine y rows) = true ->
  Forall (row_holds x) rows -> comb_ax y rows x <= combb y rows.
Proof.
  induction y as [|k y IH]; intros rows x Hs HF; cbn; [lra|]. destruct rows as [|r rows]; [lra|].
  cbn in Hs. apply andb_true_iff in Hs as [S1 S2]. inversion HF as [|? ? Hr HF']; subst.
  specialize (IH rows x S2 HF'). unfold sign_ok_min in S1. unfold row_holds in Hr.
  destruct (qr_cmp r); try discriminate.
  - apply Qle_bool_iff in S1. nra.
  - apply Qle_bool_iff in S1. nra.
  - rewrite Hr. lra.
Qed.

Definition veqb (u v : list Q) : bool :=
  Nat.eqb (List.length u) (List.length v) && forallb (fun p : Q * Q => Qeq_bool (fst p) (snd p)) (combine u v).
Lemma veqb_qdot u : forall v x, veqb u v = true -> qdot u x == qdot v x.
Proof.
  unfold veqb. induction u as [|p u IH]; intros v x H; apply andb_true_iff in H as [L E].
  - destruct v; [reflexivity|discriminate].
  - destruct v as [|q v]; [discriminate|]. cbn in E. apply andb_true_iff in E as [E1 E2].
    apply Qeq_bool_iff in E1. destruct x as [|w x]; cbn; [lra|].
    rewrite (IH v x); [rewrite E1; lra|]. apply andb_true_iff; split; [exact L|exact E2].
Qed.

(* ---------- optimality *)
Definition check_opt_cert (P : qlp) (x y : list Q) : bool :=
  wf_lp P && feasibleb P x && signs_ok (ql_max P) y (ql_rows P)
  && veqb (comb (ql_n P) y (ql_rows P)) (ql_obj P)
  && Qeq_bool (qdot (ql_obj P) x) (combb y (ql_rows P)).

Lemma wf_rows P : wf_lp P = true -> Forall (fun r => List.length (qr_a r) = ql_n P) (ql_rows P).
Proof.
  unfold wf_lp. intros H. apply andb_true_iff in H as [H _]. apply Forall_forall. intros r Hr.
  rewrite forallb_forall in H. apply Nat.eqb_eq. exact (H r Hr).
Qed.

Theorem opt_cert_sound P x y :
  check_opt_cert P x y = true ->
  feasible P x /\ forall x', feasible P x' -> better_eq P (qdot (ql_obj P) x) (qdot (ql_obj P) x').
Proof.
  unfold check_opt_cert. intros H.
  apply andb_true_iff in H as [H Hval]. apply andb_true_iff in H as [H Hdual].
  apply andb_true_iff in H as [H Hsign]. apply andb_true_iff in H as [Hwf Hfeas].
  split; [apply feasibleb_sound; exact Hfeas|]. intros x' [Lx' Fx'].
  pose proof (wf_rows P Hwf) as Hrows. apply Qeq_bool_iff in Hval.
  pose proof (veqb_qdot _ _ x' Hdual) as E. rewrite qdot_comb in E by assumption.
  unfold signs_ok in Hsign. apply andb_true_iff in Hsign as [_ Hs]. unfold better_eq.
  destruct (ql_max P).
  - pose proof (comb_le_max y (ql_rows P) x' Hs Fx'). rewrite Hval, <- E. exact H.
  - pose proof (comb_ge_min y (ql_rows P) x' Hs Fx'). rewrite Hval, <- E. exact H.
Qed.

(* ---------- infeasibility (Farkas, easy direction): a combination of the rows reading 0 >= positive *)
Definition check_infeasible_cert (P : qlp) (y : list Q) : bool :=
  wf_lp P && signs_ok false y (ql_rows P)
  && veqb (comb (ql_n P) y (ql_rows P)) (vzero (ql_n P))
  && negb (Qle_bool (combb y (ql_rows P)) 0).

Theorem infeasible_cert_sound P y : check_infeasible_cert P y = true -> forall x, ~ feasible P x.
Proof.
  unfold check_infeasible_cert. intros H x [Lx Fx].
  apply andb_true_iff in H as [H Hpos]. apply andb_true_iff in H as [H Hzero]. apply andb_true_iff in H as [Hwf Hsign].
  pose proof (wf_rows P Hwf) as Hrows.
  pose proof (veqb_qdot _ _ x Hzero) as E. rewrite qdot_comb, qdot_vzero in E by assumption.
  unfold signs_ok in Hsign. apply andb_true_iff in Hsign as [_ Hs].
  pose proof (comb_ge_min y (ql_rows P) x Hs Fx) as G. rewrite E in G.
  apply negb_true_iff in Hpos. destruct (Qle_bool (combb y (ql_rows P)) 0) eqn:Q; [discriminate|].
  assert (combb y (ql_rows P) <= 0) by exact G. apply Qle_bool_iff in H. congruence.
Qed.

(* ---------- unboundedness: feasible x and a recession direction d that strictly improves the objective *)
Definition dir_row_ok (d : list Q) (r : qrow) : bool :=
  match qr_cmp r with
  | Le => Qle_bool (qdot (qr_a r) d) 0
  | Ge => Qle_bool 0 (qdot (qr_a r) d)
  | Eq => Qeq_bool (qdot (qr_a r) d) 0
  | _ => false
  end.
Definition check_unbounded_cert (P : qlp) (x d : list Q) : bool :=
  wf_lp P && feasibleb P x && Nat.eqb (List.length d) (ql_n P) && forallb (dir_row_ok d) (ql_rows P)
  && (if ql_max P then negb (Qle_bool (qdot (ql_obj P) d) 0) else negb (Qle_bool 0 (qdot (ql_obj P) d))).

Lemma qdot_add_scaled a : forall x d k, List.length x = List.length d ->
  qdot a (vadd x (vscale k d)) == qdot a x + k * qdot a d.
Proof.
  induction a as [|p a IH]; intros x d k L; [cbn; lra|].
  destruct x as [|v x], d as [|w d]; cbn [length] in L; try discriminate; cbn [qdot vadd vscale map]; [lra|].
  fold (vscale k d). rewrite IH by lia. lra.
Qed.

Theorem unbounded_cert_sound P x d :
  check_unbounded_cert P x d = true ->
  feasible P x /\ forall k, 0 <= k ->
    feasible P (vadd x (vscale k d)) /\
    qdot (ql_obj P) (vadd x (vscale k d)) == qdot (ql_obj P) x + k * qdot (ql_obj P) d /\
    (if ql_max P then 0 < qdot (ql_obj P) d else qdot (ql_obj P) d < 0).
Proof.
  unfold check_unbounded_cert. intros H.
  apply andb_true_iff in H as [H Himp]. apply andb_true_iff in H as [H Hdir].
  apply andb_true_iff in H as [H Ld]. apply andb_true_iff in H as [Hwf Hfeas].
  pose proof (feasibleb_sound P x Hfeas) as [Lx Fx]. apply Nat.eqb_eq in Ld.
  split; [split; assumption|]. intros k Hk. split; [|split].
  - split; [apply vadd_length; [exact Lx|rewrite vscale_length; exact Ld]|].
    apply Forall_forall. intros r Hr. rewrite Forall_forall in Fx. specialize (Fx r Hr).
    rewrite forallb_forall in Hdir. specialize (Hdir r Hr). unfold row_holds in *. unfold dir_row_ok in Hdir.
    pose proof (qdot_add_scaled (qr_a r) x d k) as A. destruct (qr_cmp r); try discriminate.
    + apply Qle_bool_iff in Hdir. rewrite A by lia. nra.
    + apply Qle_bool_iff in Hdir. rewrite A by lia. nra.
    + apply Qeq_bool_iff in Hdir. rewrite A by lia. rewrite Hdir, Fx. lra.
  - apply qdot_add_scaled. lia.
  - destruct (ql_max P); apply negb_true_iff in Himp.
    + destruct (Qlt_le_dec 0 (qdot (ql_obj P) d)) as [L|L]; [exact L|]. apply Qle_bool_iff in L. congruence.
    + destruct (Qlt_le_dec (qdot (ql_obj P) d) 0) as [L|L]; [exact L|]. apply Qle_bool_iff in L. congruence.
Qed.
