(* C02 - Linearization preserves objective values and optima.  Statements, `exact`, Print Assumptions only.
   STATUS: proved end to end for the affine fragment (C02_objective_affine, C02_optimum_affine: through the whole of
   `compile` the linear objective equals the source objective at every assignment, so optimal points and values
   coincide) and for the arithmetic fragment with abs, min and max (C02_objective_abs: exactly the statement below; C02_optimum_abs:
   an optimal point of the compiled model is, on the used variables, a feasible and optimal point of the source with the same value - under a
   minimised abs or max the linear objective only over-estimates, and the optimum is where the two meet); for models with
   logic nodes the target statement is kept visible and the proved parts are *_partial. *)
From Coq Require Import QArith Reals List String.
From Rooc Require Import Base.XQ Model.Exp Model.Sem Model.Bounds Model.Linearize Model.Spec
  Proof.PublishedCompile Proof.LinAffine Proof.ArmLemmas Proof.CompileAffine Proof.CompileAbs Proof.CompileVerdicts.
Import ListNotations.
Local Close Scope Q_scope.
Local Open Scope R_scope.

Definition better_eq (d : direction) (a b : R) : Prop :=
  match d with DMin => a <= b | DMax => a >= b | DSatisfy => True end.

(* ---- the full statement (target; NOT proved in full) *)
Definition C02_objective_statement : Prop :=
  forall (m : model) (L : linmodel), wf_domain m -> compile m = inr L ->
    forall rho v, sat_model m rho -> ev rho (m_obj m) = Some v ->
      (forall sigma, agree_on (map fst (m_domain m)) rho sigma -> sat_linear L sigma -> better_eq (m_dir m) v (lin_objective L sigma))
      /\ (exists sigma, agree_on (map fst (m_domain m)) rho sigma /\ sat_linear L sigma /\ lin_objective L sigma = v).

(* ---- proved end to end on the affine fragment *)
Theorem C02_objective_affine :
  forall (m : model) (L : linmodel), affine_model m -> compile m = inr L ->
    forall rho v, ev rho (m_obj m) = Some v -> lin_objective L rho = v.
Proof. intros m L AM HC. exact (proj2 (compile_affine_equiv m L AM HC)). Qed.
(* a source-optimal point is linear-optimal with the same value, and conversely *)
Theorem C02_optimum_affine :
  forall (m : model) (L : linmodel), affine_model m -> compile m = inr L ->
    forall rho v, ev rho (m_obj m) = Some v ->
      ((sat_model m rho /\ forall rho' v', sat_model m rho' -> ev rho' (m_obj m) = Some v' -> better_eq (m_dir m) v v')
       <-> (sat_linear L rho /\ forall sigma, sat_linear L sigma -> better_eq (m_dir m) (lin_objective L rho) (lin_objective L sigma))).
Proof.
  intros m L AM HC rho v Ev. destruct (compile_affine_equiv m L AM HC) as [Eq Ob].
  pose proof (am_plain_o m AM) as Po.
  split.
  - intros [S Best]. split; [apply Eq; exact S|]. intros sigma Ss. rewrite (Ob rho v Ev).
    destruct (plain_total sigma _ Po) as [v' [_ Ev']]. rewrite (Ob sigma v' Ev'). apply (Best sigma v'); [apply Eq; exact Ss|exact Ev'].
  - intros [S Best]. split; [apply Eq; exact S|]. intros rho' v' S' Ev'.
    rewrite <- (Ob rho v Ev), <- (Ob rho' v' Ev'). apply Best. apply Eq. exact S'.
Qed.

(* ---- proved end to end on the arithmetic fragment with abs, min and max (premises: Props/C01.v, abs_model): the full statement *)
Theorem C02_objective_abs :
  forall (m : model) (L : linmodel), abs_model m -> compile m = inr L ->
    forall rho v, sat_model m rho -> ev rho (m_obj m) = Some v ->
      (forall sigma, agree_on (map fst (m_domain m)) rho sigma -> sat_linear L sigma -> better_eq (m_dir m) v (lin_objective L sigma))
      /\ (exists sigma, agree_on (map fst (m_domain m)) rho sigma /\ sat_linear L sigma /\ lin_objective L sigma = v).
Proof. exact compile_abs_objective. Qed.
Theorem C02_optimum_abs :
  forall (m : model) (L : linmodel) (sigma : string -> R), abs_model m -> compile m = inr L ->
    sat_linear L sigma -> (forall tau, sat_linear L tau -> better_eq (m_dir m) (lin_objective L sigma) (lin_objective L tau)) ->
    m_dir m <> DSatisfy ->
    exists sigma', agree_on (unames m) sigma sigma' /\
      sat_model m sigma' /\ ev sigma' (m_obj m) = Some (lin_objective L sigma) /\
      forall rho v, sat_model m rho -> ev rho (m_obj m) = Some v -> better_eq (m_dir m) (lin_objective L sigma) v.
Proof. exact compile_abs_optimum. Qed.

(* ---- the three answers of a solver (same fragment): the source and the compiled model are feasible together, unbounded
   together, and have the same optimal value; an optimal point of the source extends to an optimal point of the compiled model *)
Theorem C02_optimum_abs_converse :
  forall (m : model) (L : linmodel) (rho : string -> R) (v : R), abs_model m -> compile m = inr L ->
    sat_model m rho -> ev rho (m_obj m) = Some v ->
    (forall rho' w, sat_model m rho' -> ev rho' (m_obj m) = Some w -> better_eq (m_dir m) v w) ->
    exists sigma, agree_on (map fst (m_domain m)) rho sigma /\ sat_linear L sigma /\ lin_objective L sigma = v /\
      forall tau, sat_linear L tau -> better_eq (m_dir m) v (lin_objective L tau).
Proof. exact compile_abs_optimum_rev. Qed.
Theorem C02_optimal_value_abs :
  forall (m : model) (L : linmodel) (v : R), abs_model m -> compile m = inr L -> m_dir m <> DSatisfy ->
    (((exists rho, sat_model m rho /\ ev rho (m_obj m) = Some v) /\
      forall rho w, sat_model m rho -> ev rho (m_obj m) = Some w -> better_eq (m_dir m) v w)
     <->
     ((exists sigma, sat_linear L sigma /\ lin_objective L sigma = v) /\
      forall tau, sat_linear L tau -> better_eq (m_dir m) v (lin_objective L tau))).
Proof. exact compile_abs_optimal_value. Qed.
Theorem C02_feasible_together_abs :
  forall (m : model) (L : linmodel), abs_model m -> compile m = inr L ->
    ((exists rho, sat_model m rho) <-> (exists sigma, sat_linear L sigma)).
Proof. exact compile_abs_feasible_iff. Qed.
Theorem C02_unbounded_together_abs :
  forall (m : model) (L : linmodel), abs_model m -> compile m = inr L ->
    ((forall K, exists rho w, sat_model m rho /\ ev rho (m_obj m) = Some w /\ strictly_better (m_dir m) w K)
     <-> (forall K, exists sigma, sat_linear L sigma /\ strictly_better (m_dir m) (lin_objective L sigma) K)).
Proof. exact compile_abs_unbounded_iff. Qed.

(* ---- the same three answers on the affine fragment *)
Theorem C02_answers_affine :
  forall (m : model) (L : linmodel), affine_model m -> compile m = inr L ->
    ((exists rho, sat_model m rho) <-> (exists sigma, sat_linear L sigma)) /\
    ((forall K, exists rho w, sat_model m rho /\ ev rho (m_obj m) = Some w /\ strictly_better (m_dir m) w K)
     <-> (forall K, exists sigma, sat_linear L sigma /\ strictly_better (m_dir m) (lin_objective L sigma) K)) /\
    forall v,
    (((exists rho, sat_model m rho /\ ev rho (m_obj m) = Some v) /\
      forall rho w, sat_model m rho -> ev rho (m_obj m) = Some w -> better_eq (m_dir m) v w)
     <->
     ((exists sigma, sat_linear L sigma /\ lin_objective L sigma = v) /\
      forall tau, sat_linear L tau -> better_eq (m_dir m) v (lin_objective L tau))).
Proof.
  intros m L AM HC. split; [exact (compile_affine_feasible_iff m L AM HC)|]. split; [exact (compile_affine_unbounded_iff m L AM HC)|].
  intros v. exact (compile_affine_optimal_value m L v AM HC).
Qed.

(* ---- proved: for an affine objective the linear objective (coefficients and constant offset) equals the
   source objective at every real assignment, whatever the direction *)
Theorem C02_affine_objective_partial :
  forall (rho : string -> R) (n : nat) (e : exp) (r : req) (s : lst) (c : lctx) (s' : lst),
    affine e = true -> lin n e r s = inr (c, s') ->
    s' = s /\ forall v, ev rho e = Some v -> ctx_fin c /\ ctx_val rho c = v.
Proof. exact lin_affine_sound. Qed.

(* ---- proved: one-sided lowering relaxes in the direction of the requirement and is tight *)
Theorem C02_abs_onesided_partial : forall t v, v >= t -> v >= - t -> v >= Rabs t.
Proof. exact abs_onesided_relax. Qed.
Theorem C02_abs_onesided_tight_partial : forall t, Rabs t >= t /\ Rabs t >= - t.
Proof. exact abs_onesided_tight. Qed.
Theorem C02_max_onesided_partial : forall a b v, v >= a -> v >= b -> v >= Rmax a b.
Proof. exact max_onesided_relax. Qed.
Theorem C02_min_onesided_partial : forall a b v, v <= a -> v <= b -> v <= Rmin a b.
Proof. exact min_onesided_relax. Qed.

Print Assumptions C02_objective_affine.
Print Assumptions C02_optimum_affine.
Print Assumptions C02_objective_abs.
Print Assumptions C02_optimum_abs.
Print Assumptions C02_optimum_abs_converse.
Print Assumptions C02_optimal_value_abs.
Print Assumptions C02_feasible_together_abs.
Print Assumptions C02_unbounded_together_abs.
Print Assumptions C02_answers_affine.
Print Assumptions C02_affine_objective_partial.
Print Assumptions C02_abs_onesided_partial.
