(* C11 - Formatting preserves meaning and is idempotent.
   Statements, `exact`, Print Assumptions only.  The operator table (src_prec, src_rassoc, src_pprec) is REGENERATED
   from exp_parser.rs on every run; the printer's parenthesisation rule (Printer.needs_parens) is tied to
   PreExp::to_string_with_precedence by the correspondence check on every (parent, child, side) triple.

   What is proved, for expression trees of ANY size and shape: the text the formatter prints for a tree is read back
   by the parser (precedence climbing with parenthesised primaries) as exactly that tree, so no parenthesis that
   changes grouping is ever dropped; and printing is idempotent at tree level.  The whole-program clauses
   (blocks, iterations, declarations, names, constants) are decided on the implementation by the oracle in
   checks/c11.py (partial: see C11_full_statement). *)
From Coq Require Import Bool List Arith String.
From Rooc Require Import Model.Exp Gen.PrattTable Model.Pratt Model.Printer Proof.PrattSound Proof.PrattTable
  Proof.PrinterWf Proof.PrinterParse Proof.PrinterTable.
Import ListNotations.

(* parse (format e) = e *)
Theorem C11_parse_format_partial : forall t, src_pparse (pflatten (src_render t)) = Some t.
Proof. exact src_parse_render. Qed.

(* format (parse (format e)) = format e *)
Theorem C11_format_idempotent_partial :
  forall t t', src_pparse (pflatten (src_render t)) = Some t' -> pflatten (src_render t') = pflatten (src_render t).
Proof. exact src_format_idempotent. Qed.

(* the formatted text has the grouping of the tree in the declarative sense of C09, and removing the
   parentheses the formatter kept gives back the tree *)
Theorem C11_render_wellformed :
  forall t, wfp src_prec src_rassoc src_pprec 0 (src_render t) /\ strip (src_render t) = t.
Proof. exact src_render_wf. Qed.

(* ANY parenthesised text that is well-formed reads back as the tree with the parentheses removed *)
Theorem C11_pparse_complete :
  forall p, wfp src_prec src_rassoc src_pprec 0 p -> src_pparse (pflatten p) = Some (strip p).
Proof. exact src_pparse_complete. Qed.

(* on parenthesis-free text the parser with parentheses is the parser of C09 *)
Theorem C11_pparse_extends_C09 : forall ts, src_pparse (map PT ts) = src_parse ts.
Proof. exact src_pparse_embeds. Qed.

(* the cases the property names: a - (b - c), a / (b * c), a - (b + c) keep their parentheses; (a - b) - c, a + (b * c) drop them *)
Theorem C11_named_cases :
  pflatten (src_render (Bin Sub (Leaf 0) (Bin Sub (Leaf 1) (Leaf 2)))) =
    [PT (TAtom 0); PT (TInfix Sub); PLP; PT (TAtom 1); PT (TInfix Sub); PT (TAtom 2); PRP] /\
  pflatten (src_render (Bin Div (Leaf 0) (Bin Mul (Leaf 1) (Leaf 2)))) =
    [PT (TAtom 0); PT (TInfix Div); PLP; PT (TAtom 1); PT (TInfix Mul); PT (TAtom 2); PRP] /\
  pflatten (src_render (Bin Sub (Leaf 0) (Bin Add (Leaf 1) (Leaf 2)))) =
    [PT (TAtom 0); PT (TInfix Sub); PLP; PT (TAtom 1); PT (TInfix Add); PT (TAtom 2); PRP] /\
  pflatten (src_render (Bin Sub (Bin Sub (Leaf 0) (Leaf 1)) (Leaf 2))) =
    [PT (TAtom 0); PT (TInfix Sub); PT (TAtom 1); PT (TInfix Sub); PT (TAtom 2)] /\
  pflatten (src_render (Bin Add (Leaf 0) (Bin Mul (Leaf 1) (Leaf 2)))) =
    [PT (TAtom 0); PT (TInfix Add); PT (TAtom 1); PT (TInfix Mul); PT (TAtom 2)] /\
  pflatten (src_render (Bin BImplies (Bin BImplies (Leaf 0) (Leaf 1)) (Leaf 2))) =
    [PLP; PT (TAtom 0); PT (TInfix BImplies); PT (TAtom 1); PRP; PT (TInfix BImplies); PT (TAtom 2)].
Proof. exact src_named_cases. Qed.

(* The full property, as a statement about the implementation's entry points (an opaque program type with parse,
   format and compile): it is what checks/c11.py evaluates on generated and repository programs.  It is a
   Definition, not a theorem: only its expression-level core above is proved. *)
Definition C11_full_statement (program model : Type) (parse : string -> option program) (format : program -> string)
    (compile : program -> option model) : Prop :=
  forall s p, parse s = Some p ->
    exists p', parse (format p) = Some p' /\ format p' = format p /\ compile p' = compile p.

Print Assumptions C11_parse_format_partial.
Print Assumptions C11_format_idempotent_partial.
Print Assumptions C11_render_wellformed.
Print Assumptions C11_pparse_complete.
Print Assumptions C11_pparse_extends_C09.
Print Assumptions C11_named_cases.
