(* C19 - Type checking is sound.
   Statements, `exact`, Print Assumptions only.

   Proved, for constant expressions of ANY size over literals, named constants and all binary and unary operators -
   the expressions the compiler evaluates at transform time (indexes, bounds, arguments, `let` constants): if the
   checker accepts the expression (ccheck: PreExp::type_check with PrimitiveKind::can_apply_*_op on the static kinds of
   PreExp::get_type), then evaluating it (PreExp::as_primitive with Primitive::apply_*_op, checked integer arithmetic
   and checked division) never fails with a type-class error nor an undeclared name; it either yields a value whose
   kind fits the static kind, or stops with a data-dependent error (division by zero, overflow).
   The tables are tied to the implementation exhaustively on every run (all 12 x 9 x 12 kind/operator/kind triples
   statically; 25 x 9 x 25 representative value pairs dynamically; the static result kinds through the checker's token
   map).  The rest of the language (functions, iterations, destructuring, blocks, declarations) is covered on the
   implementation by the oracle of checks/c19.py (partial: see C19_full_statement). *)
From Coq Require Import QArith ZArith Bool List String.
From Rooc Require Import Model.Exp Model.Types Proof.TypesSound.
Import ListNotations.
Local Close Scope Q_scope.

Theorem C19_constant_expressions_partial :
  forall (tenv : string -> option kind) (venv : string -> option value),
    (forall n k, tenv n = Some k -> exists v, venv n = Some v /\ wf_value v = true /\ fits k (kind_of v) = true) ->
    forall e, wf_cexp e = true -> ccheck tenv e = true ->
      match ceval venv e with
      | ROk v => wf_value v = true /\ fits (ctype tenv e) (kind_of v) = true
      | ROp err => type_class err = false
      | RUndeclared => False
      end.
Proof. exact ccheck_sound. Qed.

(* the operator tables themselves: accepted kinds never lead to a type-class error, for ALL values of those kinds *)
Theorem C19_binary_operator_table :
  forall v op w, wf_value v = true -> wf_value w = true -> can_bin (kind_of v) op (kind_of w) = true ->
    match apply_bin v op w with
    | inl r => fits (res_bin (kind_of v) op (kind_of w)) (kind_of r) = true /\ wf_value r = true
    | inr e => type_class e = false
    end.
Proof. exact apply_bin_sound. Qed.
Theorem C19_unary_operator_table :
  forall op v, wf_value v = true -> can_un (kind_of v) op = true ->
    match apply_un op v with
    | inl r => fits (res_un op (kind_of v)) (kind_of r) = true /\ wf_value r = true
    | inr e => type_class e = false
    end.
Proof. exact apply_un_sound. Qed.

(* non-vacuity: an accepted expression with a data-dependent failure, and one that evaluates *)
Example C19_instances :
  let tenv := fun n : string => if String.eqb n "n" then Some KInteger else None in
  let venv := fun n : string => if String.eqb n "n" then Some (VInt 3) else None in
  ccheck tenv (CBin Div (CLit (VNum 1)) (CBin Sub (CConst "n") (CLit (VInt 3)))) = true /\
  ceval venv (CBin Div (CLit (VNum 1)) (CBin Sub (CConst "n") (CLit (VInt 3)))) = ROp EDivZero /\
  ccheck tenv (CBin Add (CConst "n") (CLit (VBool true))) = true /\
  ceval venv (CBin Add (CConst "n") (CLit (VBool true))) = ROk (VInt 4) /\
  ccheck tenv (CBin BAnd (CConst "n") (CLit (VBool true))) = false.
Proof. vm_compute. repeat split; reflexivity. Qed.

(* the full property over the implementation's entry points; evaluated by checks/c19.py, not proved *)
Definition C19_full_statement (program error : Type) (type_check : program -> bool) (transform : program -> option error)
    (type_class_error : error -> bool) : Prop :=
  forall p e, type_check p = true -> transform p = Some e -> type_class_error e = false.

Print Assumptions C19_constant_expressions_partial.
Print Assumptions C19_binary_operator_table.
Print Assumptions C19_unary_operator_table.
