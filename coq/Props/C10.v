(* C10 - Algebraic rewrites preserve meaning.  Only statements, `exact`, and Print Assumptions. *)
From Coq Require Import QArith Reals List String.
From Rooc Require Import Base.XQ Model.Exp Model.Sem Model.Simplify Model.Flatten
  Proof.SimplifyMain Proof.FlattenSound.
Import ListNotations.
Local Close Scope Q_scope.

(* simplify: for every expression and every real assignment at which the original is defined under the
   typed semantics (non-literal operands of and/or are 0/1-valued), the rewritten expression is defined and
   has the same value - under the typed and under the plain semantics. *)
Theorem C10_simplify_sound :
  forall (rho : string -> R) (e e' : exp) (v : R),
    simplify e = Some e' -> evT rho e = Some v -> evT rho e' = Some v /\ ev rho e' = Some v.
Proof. exact simplify_sound_typed. Qed.

(* flatten: value preserved at every real assignment, no typing hypothesis needed *)
Theorem C10_flatten_sound :
  forall (rho : string -> R) (e e' : exp) (v : R),
    flatten e = Some e' -> ev rho e = Some v -> ev rho e' = Some v.
Proof. exact flatten_sound. Qed.

Theorem C10_flatten_sound_typed :
  forall (rho : string -> R) (e e' : exp) (v : R),
    flatten e = Some e' -> evT rho e = Some v -> evT rho e' = Some v.
Proof. exact flatten_sound_typed. Qed.

(* The hypothesis-free statement is false of the faithful model (finding F17): `0 or x` at x = 2. *)
Theorem C10_simplify_sound_untyped_refuted :
  exists rho e e' v, simplify e = Some e' /\ ev rho e = Some v /\ ev rho e' <> Some v.
Proof. exact simplify_sound_untyped_refuted. Qed.

(* "a division by zero is never rewritten away" is false of the faithful model (finding F3): 0 * (y / 0). *)
Theorem C10_div_zero_kept_refuted :
  exists rho e e', simplify e = Some e' /\ ev rho e = None /\ ev rho e' <> None.
Proof. exact div_zero_kept_refuted. Qed.

(* non-vacuity: the typed semantics is defined on a non-trivial expression that simplify rewrites *)
Example C10_nonvacuous :
  exists e e', simplify e = Some e' /\ e' <> e /\ evT (fun _ => 1%R) e = Some 1%R.
Proof. exact simplify_nonvacuous. Qed.

Check C10_simplify_sound : forall (rho : string -> R) (e e' : exp) (v : R),
    simplify e = Some e' -> evT rho e = Some v -> evT rho e' = Some v /\ ev rho e' = Some v.
Check C10_flatten_sound : forall (rho : string -> R) (e e' : exp) (v : R),
    flatten e = Some e' -> ev rho e = Some v -> ev rho e' = Some v.

Print Assumptions C10_simplify_sound.
Print Assumptions C10_flatten_sound.
Print Assumptions C10_flatten_sound_typed.
Print Assumptions C10_simplify_sound_untyped_refuted.
Print Assumptions C10_div_zero_kept_refuted.
