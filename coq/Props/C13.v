(* C13 - Standard-form conversion preserves the problem.  Statements, `exact`, Print Assumptions only.
   STATUS: partial.  The end-to-end forward/backward transfer theorem over to_standard_form (positional
   bookkeeping of appended/removed columns) is the target and is not proved; proved are the row-level facts the
   conversion is made of.  The whole conversion is tied structurally to the implementation on every run and the
   transfer itself is evaluated on the implementation at grid points. *)
From Coq Require Import QArith Reals List String.
From Rooc Require Import Base.XQ Model.Exp Model.Bounds Model.Linearize Model.Spec Model.Standardize
  Proof.PivotSound Proof.StandardizeSound.
Import ListNotations.
Local Close Scope Q_scope.
Local Open Scope R_scope.

Theorem C13_rhs_normalised_partial :
  forall cs rhs x, Forall finx cs -> finx rhs ->
    0 <= xval (eq_rhs (eq_new cs rhs)) /\
    (dotx (eq_coeffs (eq_new cs rhs)) x = xval (eq_rhs (eq_new cs rhs)) <-> dotx cs x = xval rhs).
Proof. exact eq_new_sound. Qed.
Theorem C13_row_rhs_nonneg_partial :
  forall r ctx e added ctx', normalize_row r ctx = inr (e, added, ctx') ->
    Forall finx (lr_coeffs r) -> finx (lr_rhs r) -> 0 <= xval (eq_rhs e).
Proof. exact normalize_row_rhs. Qed.
Theorem C13_slack_partial : forall lhs rhs : R, lhs <= rhs <-> exists s, 0 <= s /\ lhs + 1 * s = rhs.
Proof. exact slack_sound. Qed.
Theorem C13_surplus_partial : forall lhs rhs : R, lhs >= rhs <-> exists s, 0 <= s /\ lhs + -1 * s = rhs.
Proof. exact surplus_sound. Qed.
Theorem C13_free_split_partial :
  forall c v : R, exists p m, 0 <= p /\ 0 <= m /\ v = p - m /\ c * p + - c * m = c * v.
Proof. exact free_split_sound. Qed.
Theorem C13_flip_partial : forall f1 f2 off : R, (- f1 <= - f2) <-> (f1 + off >= f2 + off).
Proof. exact flip_sound. Qed.

Print Assumptions C13_rhs_normalised_partial.
Print Assumptions C13_row_rhs_nonneg_partial.
