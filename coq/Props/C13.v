(* C13 - Standard-form conversion preserves the problem.  Statements, `exact`, Print Assumptions only.
   STATUS: both directions are proved end to end over to_standard_form.
   C13_backward: every non-negative solution of the standard form, read back by name with a free variable v as
   $p v - $m v, satisfies every row of the linear model, lies in every variable's domain, and the standard form's
   objective row evaluates to the model's objective there (negated for max).
   C13_forward: every point of the model that satisfies its rows and domains is the read-back of a non-negative
   solution of the standard form (hypothesis: the standard form's column names are pairwise distinct, which the
   per-run tie checks on every implementation output).
   The _partial lemmas are the row-level facts the two theorems are built from.  The whole conversion is tied
   structurally to the implementation on every run. *)
From Coq Require Import QArith Reals List String.
From Rooc Require Import Base.XQ Model.Exp Model.Bounds Model.Linearize Model.Spec Model.Standardize
  Proof.PivotSound Proof.StandardizeSound Proof.StandardizeEquiv Proof.StandardizeBack Proof.StandardizeFwd.
Import ListNotations.
Local Close Scope Q_scope.
Local Open Scope R_scope.

Theorem C13_rhs_normalised_partial :
  forall cs rhs x, Forall finx cs -> finx rhs ->
    0 <= xval (eq_rhs (eq_new cs rhs)) /\
    (dotx (eq_coeffs (eq_new cs rhs)) x = xval (eq_rhs (eq_new cs rhs)) <-> dotx cs x = xval rhs).
Proof. exact eq_new_sound. Qed.
Theorem C13_row_rhs_nonneg_partial :
  forall r ctx e added ctx', normalize_row r ctx = inr (e, added, ctx') ->
    Forall finx (lr_coeffs r) -> finx (lr_rhs r) -> 0 <= xval (eq_rhs e).
Proof. exact normalize_row_rhs. Qed.
Theorem C13_slack_partial : forall lhs rhs : R, lhs <= rhs <-> exists s, 0 <= s /\ lhs + 1 * s = rhs.
Proof. exact slack_sound. Qed.
Theorem C13_surplus_partial : forall lhs rhs : R, lhs >= rhs <-> exists s, 0 <= s /\ lhs + -1 * s = rhs.
Proof. exact surplus_sound. Qed.
Theorem C13_free_split_partial :
  forall c v : R, exists p m, 0 <= p /\ 0 <= m /\ v = p - m /\ c * p + - c * m = c * v.
Proof. exact free_split_sound. Qed.
Theorem C13_flip_partial : forall f1 f2 off : R, (- f1 <= - f2) <-> (f1 + off >= f2 + off).
Proof. exact flip_sound. Qed.


(* full backward transfer.  lin_okb is the boolean well-formedness of the input: every row and the objective have one
   finite coefficient per variable, finite right-hand sides, Real bounds are numbers or the matching infinity,
   NonNegativeReal lower bounds are numbers. *)
Theorem C13_backward :
  forall (L : linmodel) (S : stdmodel), to_standard_form L = inr S -> lin_okb L = true ->
  forall tau : string -> R, sat_std S tau ->
    (forall r, In r (lm_rows L) -> row_holds (lm_vars L) (back_point (lm_domain L) tau) r) /\
    (forall v t, In v (lm_vars L) -> al_get (lm_domain L) v = Some t -> in_dom t (back_point (lm_domain L) tau v)) /\
    dot (sm_obj S) (sm_vars S) tau
      = (if sm_flip S then -1 else 1) * dot (lm_objective L) (lm_vars L) (back_point (lm_domain L) tau).
Proof. exact standard_form_backward. Qed.
Theorem C13_backward_nonvacuous :
  exists S, to_standard_form L0 = inr S /\ lin_okb L0 = true /\ sat_std S tau0 /\ back_point (lm_domain L0) tau0 "x"%string = 2.
Proof. exact backward_premises_meet. Qed.
(* full forward transfer *)
Theorem C13_forward :
  forall (L : linmodel) (S : stdmodel), to_standard_form L = inr S -> lin_okb L = true -> NoDup (sm_vars S) ->
  forall sigma : string -> R,
    (forall r, In r (lm_rows L) -> row_holds (lm_vars L) sigma r) ->
    (forall v t, In v (lm_vars L) -> al_get (lm_domain L) v = Some t -> in_dom t (sigma v)) ->
    exists tau, sat_std S tau /\ forall v, In v (lm_vars L) -> back_point (lm_domain L) tau v = sigma v.
Proof. exact standard_form_forward. Qed.
Theorem C13_forward_nonvacuous :
  exists S, to_standard_form L0 = inr S /\ lin_okb L0 = true /\ NoDup (sm_vars S) /\
    (forall r, In r (lm_rows L0) -> row_holds (lm_vars L0) sigma0 r) /\
    (forall v t, In v (lm_vars L0) -> al_get (lm_domain L0) v = Some t -> in_dom t (sigma0 v)).
Proof. exact forward_premises_meet. Qed.
(* the objective row alone, for any point (no feasibility needed) *)
Theorem C13_objective_row :
  forall (L : linmodel) (S : stdmodel), to_standard_form L = inr S ->
  List.length (lm_objective L) = List.length (lm_vars L) -> Forall finx (lm_objective L) ->
  forall tau, dot (sm_obj S) (sm_vars S) tau
    = (if sm_flip S then -1 else 1) * dot (lm_objective L) (lm_vars L) (back_point (lm_domain L) tau).
Proof.
  intros L S HS Lo Fo tau. rewrite (std_objective_value L S HS Lo Fo tau).
  rewrite <- (dot_back_is_dot (lm_domain L) tau (lm_vars L)). reflexivity.
Qed.

Print Assumptions C13_backward.
Print Assumptions C13_forward.
Print Assumptions C13_objective_row.
Print Assumptions C13_rhs_normalised_partial.
Print Assumptions C13_row_rhs_nonneg_partial.
