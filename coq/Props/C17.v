(* C17 - LP export denotes the same model.  Statements, `exact`, Print Assumptions only.
   STATUS: proved for the whole file: for every linear model whose names are admissible (not a relation, sign or
   section word) and whose Real / NonNegativeReal bounds are not NaN, the independently written reader applied to the
   writer's tokens succeeds and returns the model's denotation (sense, objective terms and constant, every row with
   its name, relation and right-hand side, bounds, binary and general sections), numbers up to Qeq.
   The writer and the reader are run against the REAL text on every check (token equality and
   lp_read(real text) = denote L), and the premise lp_okb is evaluated on every tied model. *)
From Coq Require Import QArith List String.
From Rooc Require Import Base.XQ Model.Exp Model.Bounds Model.Linearize Model.LpFormat Proof.LpRoundtrip Proof.LpWhole.
Import ListNotations.
Local Close Scope Q_scope.

Theorem C17_roundtrip :
  forall L : linmodel, lp_okb L = true ->
    exists f, lp_read (lp_write L) = Some f /\ lpfile_eqb f (denote L) = true.
Proof. exact lp_roundtrip. Qed.

(* the row-level fact the theorem is built from *)
Theorem C17_row_body_roundtrip_partial :
  forall coeffs vars c rhs rest, Forall (fun v => name_ok v = true) vars ->
    let tail := LWord (cmp_word c) :: LNum rhs :: LNL :: rest in
    exists terms k,
      read_terms (List.length (lp_terms coeffs vars ++ tail) + 1) 1%Q (lp_terms coeffs vars ++ tail) [] 0%Q = Some (terms, k, tail)
      /\ leqb term_eqb terms (nonzero_terms coeffs vars) = true /\ Qeq_bool k 0 = true.
Proof. exact row_body_roundtrip. Qed.

(* non-vacuity and a whole-file instance: the reader inverts the writer on a concrete model with every section *)
Example C17_roundtrip_instance :
  let L := mkLM ["x"; "y"; "z"]%string [("x", TBoolean); ("y", TIntegerRange (-1) 3); ("z", TReal NInf PInf)]%string
                [mkLRow "cap"%string [Fin 1%Q; Fin (-2)%Q; Fin 0%Q] Le (Fin 3%Q); mkLRow ""%string [Fin 0%Q; Fin 0%Q; Fin 0%Q] Ge (Fin (-1)%Q)]
                [Fin 0%Q; Fin (5 # 2)%Q; Fin (-1)%Q] (Fin (-4)%Q) DMax in
  lp_okb L = true /\ match lp_read (lp_write L) with Some f => lpfile_eqb f (denote L) | None => false end = true.
Proof. split; vm_compute; reflexivity. Qed.

Print Assumptions C17_roundtrip.
Print Assumptions C17_row_body_roundtrip_partial.
