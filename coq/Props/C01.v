(* C01 - Linearization preserves the feasible set.  Statements, `exact`, Print Assumptions only.
   STATUS: the full projection theorem is PROVED END TO END
   (1) FOR THE AFFINE FRAGMENT (C01_projection_affine, C01_projection_affine_statement_form): for a model whose
       constraints are affine after the pre-processing rewrites, through every stage of `compile` - domain tightening,
       flatten / simplify, the logic-constraint test, Exp::linearize, the main loop with its step bound, row-name
       de-duplication, variable sorting, coefficient extraction, published domains;
   (2) FOR THE ARITHMETIC FRAGMENT WITH ABS, MIN AND MAX (C01_projection_abs): constraints and objective built from
       + - * / (by constants), unary minus, abs(.), min{..} and max{..} nested to any depth, the dominated-operand pruning
       of min / max included (Proof/Pruning.v).  Here the compiler creates auxiliary variables ($abs_k, $abs_k_positive, $max_k,
       $max_k_select_i, ...), pushes one-sided, big-M or selector rows back into its queue and relies on the bound
       analysis (whose box must be, and is proved to be, implied by the domains the compiler emits); the statement is
       a genuine projection: extensions on the auxiliary names exist in one direction and are forgotten in the other.
       The same theorem covers logic ASSERTIONS over Boolean variables that the compiler lowers to one affine row
       (try_lower_affine: a conjunction, disjunction, implication, equivalence, exclusive or or literal over Boolean
       variables, constants and their negations, asserted true or false): C01_affine_assertion_row says that the row
       holds exactly when the formula has the asserted value.  Comparisons of such a formula with a constant, which the
       logic-constraint test turns into an assertion, a tautology or a contradiction, are covered as well.
   For models with other logic (reified logic values inside arithmetic, assertions that need witnesses) the statement
   below is the target; machine-checked for them are the
   *_partial theorems (every lowering arm's row pattern in both directions, the soundness of all facts the rewrites
   rely on, the frame property of the main loop). *)
From Coq Require Import QArith Reals List String.
From Rooc Require Import Base.XQ Model.Exp Model.Sem Model.Bounds Model.Linearize Model.Spec
  Proof.BoundsOfSound Proof.PropagateSound Proof.PublishedCompile Proof.LinAffine Proof.ArmLemmas
  Proof.SimplifyMain Proof.FlattenSound Proof.LinFrame Proof.CompileAffine Proof.Pruning Proof.CompileAbs.
Import ListNotations.
Local Close Scope Q_scope.
Local Open Scope R_scope.

(* ---- the full statement (target; kept visible, NOT proved in full) *)
Definition declared_used (m : model) : list string :=
  map fst (filter (fun p => dv_used (snd p)) (m_domain m)).
Definition C01_projection_statement : Prop :=
  forall (m : model) (L : linmodel), wf_domain m -> (forall c, In c (m_constraints m) -> wf_constr c) ->
    compile m = inr L ->
    forall rho : string -> R,
      (exists rho', agree_on (declared_used m) rho rho' /\ sat_model m rho')
      <-> (exists sigma, agree_on (declared_used m) rho sigma /\ sat_linear L sigma).

(* ---- proved end to end on the affine fragment: the compiled linear model has exactly the source's feasible set
   (over the same assignment: no auxiliary variable is created), hence the projection statement above.
   affine_model m: well-formed domains, every declared variable used, sides and objective plain arithmetic (no
   division by zero), every constraint affine after flatten/simplify and not taken by the logic-constraint test,
   declared bounds not NaN and integer ranges within i32. *)
Theorem C01_projection_affine :
  forall (m : model) (L : linmodel), affine_model m -> compile m = inr L ->
    forall rho : string -> R, sat_model m rho <-> sat_linear L rho.
Proof. intros m L AM HC. exact (proj1 (compile_affine_equiv m L AM HC)). Qed.
Theorem C01_projection_affine_statement_form :
  forall (m : model) (L : linmodel), affine_model m -> compile m = inr L ->
    forall rho : string -> R,
      (exists rho', agree_on (declared_used m) rho rho' /\ sat_model m rho')
      <-> (exists sigma, agree_on (declared_used m) rho sigma /\ sat_linear L sigma).
Proof. intros m L AM HC. exact (compile_affine_projection m L (declared_used m) AM HC). Qed.
Theorem C01_projection_affine_nonvacuous : affine_model m0 /\ exists L, compile m0 = inr L.
Proof. split; [exact m0_affine|exact m0_compiles]. Qed.

(* ---- proved end to end on the arithmetic fragment with abs, min and max.  abs_model m: well-formed domains, a declared variable
   that occurs nowhere (it is dropped by the compiler) has a non-empty range, declared bounds not NaN and integer ranges within i32, sides and objective total arithmetic with abs over declared
   names, and the trace condition compile_trace m = true: the objective and every constraint the main loop takes from
   its queue (source constraints and the rows the arms pushed back) is either an assertion over Boolean variables that
   try_lower_affine lowers to one row, or a comparison that the logic-constraint test turns into such an assertion, a
   tautology or a contradiction, or is not taken by that test and, once rewritten by flatten / simplify, has only arithmetic, abs, min and max nodes over names
   declared so far.  abs_modelb decides abs_model and is evaluated on every tied model. *)
Theorem C01_projection_abs :
  forall (m : model) (L : linmodel), abs_model m -> compile m = inr L ->
    forall rho : string -> R,
      (exists rho', agree_on (declared_used m) rho rho' /\ sat_model m rho')
      <-> (exists sigma, agree_on (declared_used m) rho sigma /\ sat_linear L sigma).
Proof. intros m L BM HC. exact (compile_abs_projection_used m L BM HC). Qed.
(* both halves separately, with the objective: what a point of the compiled model says about the source, and how a
   source point extends *)
Theorem C01_abs_both_directions :
  forall (m : model) (L : linmodel), abs_model m -> compile m = inr L ->
    (forall sigma, sat_linear L sigma ->
       exists sigma', agree_on (declared_used m) sigma sigma' /\ sat_model m sigma' /\
         forall v, ev sigma' (m_obj m) = Some v -> rel (req_of_dir (m_dir m)) (lin_objective L sigma) v) /\
    (forall rho v, sat_model m rho -> ev rho (m_obj m) = Some v ->
       exists sigma, agree_on (map fst (m_domain m)) rho sigma /\ sat_linear L sigma /\ lin_objective L sigma = v).
Proof. exact compile_abs_equiv. Qed.
Theorem C01_abs_decidable_premise : forall m, abs_modelb m = true -> abs_model m.
Proof. exact abs_modelb_sound. Qed.
(* the premises are met by a model with nested abs in a >= row, in a <= row and in a minimised objective, which is not
   affine and compiles to more variables than it declares *)
Theorem C01_projection_abs_nonvacuous :
  abs_model m1 /\ affine_modelb m1 = false /\ exists L, compile m1 = inr L /\ (List.length (lm_vars L) > 2)%nat.
Proof. split; [exact m1_abs_model|split; [exact m1_not_affine|exact m1_compiles]]. Qed.
(* ... and by a model with min and max in all three positions (one-sided rows and selector rows; nine variables) *)
Theorem C01_projection_minmax_nonvacuous :
  abs_model m2 /\ exists L, compile m2 = inr L /\ (List.length (lm_vars L) > 6)%nat.
Proof. split; [exact (abs_modelb_sound m2 m2_in_fragment)|exact m2_compiles]. Qed.
(* ... and by a model with a declared variable that occurs nowhere *)
Theorem C01_projection_unused_nonvacuous : abs_model m4.
Proof. exact (abs_modelb_sound m4 m4_in_fragment). Qed.
(* ... and by a model in which operands are pruned as dominated (max{x, -20, y - 30} keeps x alone) *)
Theorem C01_projection_pruning_nonvacuous :
  abs_model m3 /\
  retained_indices KMax (map (bounds_of (s_an (init_state m3))) [Var "x"; Num (Fin (-20)%Q); BinOp Sub (Var "y") (Num (Fin 30%Q))]) = [0%nat].
Proof. split; [exact (abs_modelb_sound m3 m3_in_fragment)|exact m3_prunes]. Qed.
(* the pruning rule on its own: at every point of the box some retained operand attains the maximum / minimum *)
Theorem C01_pruning_keeps_the_maximum :
  forall (obs : list bounds) (vs : list R) (M : R),
    (forall i, (i < List.length obs)%nat -> in_b (nth i obs b_unbounded) (nth i vs 0)) ->
    (forall i, (i < List.length obs)%nat -> nth i vs 0 <= M) ->
    (exists i, (i < List.length obs)%nat /\ nth i vs 0 = M) ->
    exists r, In r (retained_indices KMax obs) /\ nth r vs 0 = M.
Proof. exact prune_max. Qed.
Theorem C01_pruning_keeps_the_minimum :
  forall (obs : list bounds) (vs : list R) (M : R),
    (forall i, (i < List.length obs)%nat -> in_b (nth i obs b_unbounded) (nth i vs 0)) ->
    (forall i, (i < List.length obs)%nat -> M <= nth i vs 0) ->
    (exists i, (i < List.length obs)%nat /\ nth i vs 0 = M) ->
    exists r, In r (retained_indices KMin obs) /\ nth r vs 0 = M.
Proof. exact prune_min. Qed.
(* one call of Exp::linearize on this fragment, at any state satisfying the invariant: the specification that the
   induction carries (auxiliaries fresh, queue and rows only grow, the context is finite, over declared names, related to
   the value as the requirement says, and every point of the old state extends to the new one with the exact value) *)
Theorem C01_linearize_abs_spec :
  forall n e r s c s', okexp e = true -> INV s -> incl (xvars e) (ukeys s) -> tot e ->
    lin n e r s = inr (c, s') -> lin_spec e r s c s'.
Proof. exact lin_ok. Qed.

(* ---- proved: the row that replaces an affine logic assertion says exactly that the formula has the asserted truth value,
   at every assignment giving the Boolean variables of the state 0/1 values; and try_lower_affine is that row *)
Theorem C01_affine_assertion_row :
  forall (s : lst) (e : exp) (must : bool) (A : exp) (c : cmp) (B : exp), tla_row s e must = Some (A, c, B) ->
    plainA A = true /\ plainA B = true /\
    forall sigma, dom_sat (s_dom s) sigma ->
      exists b a0 b0, evT sigma e = Some (bnR b) /\ ev sigma e = Some (bnR b) /\ ev sigma A = Some a0 /\ ev sigma B = Some b0 /\
                      (cmp_holds c a0 b0 <-> b = must).
Proof. exact tla_row_sem. Qed.
Theorem C01_try_lower_affine_is_that_row :
  forall (e : exp) (must : bool) (name : string) (s : lst),
    try_lower_affine e must name s =
    match tla_row s e must with
    | Some (A, c, B) => bind (emit_constraint A c B name) (fun _ => ret true) s
    | None => inr (false, s)
    end.
Proof. exact tla_as_row. Qed.
(* the premises of the end-to-end theorem are met by a model with four logic assertions next to arithmetic with abs *)
Theorem C01_projection_logic_nonvacuous : abs_model m5 /\ abs_model m6.
Proof. split; [exact (abs_modelb_sound m5 m5_in_fragment)|exact (abs_modelb_sound m6 m6_in_fragment)]. Qed.

(* ---- proved: affine stage.  On the affine fragment Exp::linearize emits no row, declares no variable and
   returns a context whose value equals the expression's value at every real assignment. *)
Theorem C01_affine_partial :
  forall (rho : string -> R) (n : nat) (e : exp) (r : req) (s : lst) (c : lctx) (s' : lst),
    affine e = true -> lin n e r s = inr (c, s') ->
    s' = s /\ forall v, ev rho e = Some v -> ctx_fin c /\ ctx_val rho c = v.
Proof. exact lin_affine_sound. Qed.

(* ---- proved: the auxiliary expressions pushed back into the queue denote the contexts they came from *)
Theorem C01_context_to_exp_partial :
  forall (rho : string -> R) (c : lctx), ctx_fin c -> ev rho (context_to_exp c) = Some (ctx_val rho c).
Proof. exact context_to_exp_sound. Qed.

(* ---- proved: every fact the rewrites rely on is true of every feasible point (C07), and the
   pre-processing rewrites preserve values (C10) *)
Theorem C01_relied_bounds_partial :
  forall (dom : list (string * vtype)) (cs : list constr) (rho : string -> R) (e : exp) (v : R),
    feasible dom cs rho -> ev rho e = Some v -> in_b (bounds_of (analyze dom cs) e) v.
Proof. exact relied_bounds_sound. Qed.

(* ---- proved: the exact big-M abs pair, in both directions *)
Theorem C01_abs_exact_partial :
  forall t v p lo hi, lo <= t <= hi -> bin p ->
    v >= t -> v >= - t -> v <= t - 2 * lo * (1 - p) -> v <= - t + 2 * hi * p -> v = Rabs t.
Proof. exact abs_exact_relax. Qed.
Theorem C01_abs_exact_tight_partial :
  forall t lo hi, lo <= t <= hi -> lo <= 0 -> 0 <= hi ->
    exists p, bin p /\ Rabs t >= t /\ Rabs t >= - t /\ Rabs t <= t - 2 * lo * (1 - p) /\ Rabs t <= - t + 2 * hi * p
              /\ 0 <= Rabs t <= Rmax (- lo) hi.
Proof. exact abs_exact_tight. Qed.

(* ---- proved: selector rows for max / min *)
Theorem C01_max_select_partial :
  forall a b v sa sb la lb U,
    la <= a -> lb <= b -> a <= U -> b <= U -> bin sa -> bin sb -> sa + sb = 1 ->
    v >= a -> v >= b -> v <= a + (U - la) * (1 - sa) -> v <= b + (U - lb) * (1 - sb) -> v = Rmax a b.
Proof. exact max_select_relax. Qed.
Theorem C01_min_select_partial :
  forall a b v sa sb ua ub L,
    a <= ua -> b <= ub -> L <= a -> L <= b -> bin sa -> bin sb -> sa + sb = 1 ->
    v <= a -> v <= b -> v >= a - (ua - L) * (1 - sa) -> v >= b - (ub - L) * (1 - sb) -> v = Rmin a b.
Proof. exact min_select_relax. Qed.

(* ---- proved: reified truth tables (and/or/implies/iff/xor) over binary operands *)
Theorem C01_and_nary_reify_partial :
  forall l z, Forall bin l -> bin z ->
    ((Forall (fun x => z <= x) l /\ z >= ArmLemmas.rsum l - (INR (List.length l) - 1)) <-> (z = 1 <-> all1 l)).
Proof. exact and_nary_reify. Qed.
Theorem C01_iff_reify_partial :
  forall a b z, bin a -> bin b -> bin z ->
    (z >= a + b - 1 /\ z >= 1 - a - b /\ z <= 1 - a + b /\ z <= 1 + a - b) <-> z = 1 - a - b + 2 * a * b.
Proof. exact iff_reify. Qed.
Theorem C01_xor_reify_partial :
  forall a b z, bin a -> bin b -> bin z ->
    (z <= a + b /\ z >= a - b /\ z >= b - a /\ z <= 2 - a - b) <-> z = a + b - 2 * a * b.
Proof. exact xor_reify. Qed.

(* ---- proved: no action of the linearizer touches the type or the box of an existing name *)
Theorem C01_frame_partial : forall fuel, pres (main_loop fuel).
Proof. exact pres_main_loop. Qed.

Print Assumptions C01_projection_affine.
Print Assumptions C01_projection_abs.
Print Assumptions C01_abs_both_directions.
Print Assumptions C01_affine_partial.
Print Assumptions C01_relied_bounds_partial.
Print Assumptions C01_abs_exact_partial.
Print Assumptions C01_and_nary_reify_partial.
Print Assumptions C01_frame_partial.
