(* C20 - Shadow prices are the sensitivities of the optimum: the verified sensitivity certificate.
   Statements, `exact`, Print Assumptions only.  (Rational arithmetic; no axioms.) *)
From Coq Require Import QArith List.
From Rooc Require Import Model.Exp Cert.LP Cert.Sensitivity.
Import ListNotations.
Local Open Scope Q_scope.

Theorem C20_sensitivity_cert_sound :
  forall (P : qlp) (x y : list Q) (i : nat) (delta : Q) (x' : list Q),
    check_sensitivity P x y i delta x' = true ->
    (feasible P x /\ forall z, feasible P z -> better_eq P (qdot (ql_obj P) x) (qdot (ql_obj P) z)) /\
    (feasible (perturb P i delta) x' /\
     forall z, feasible (perturb P i delta) z -> better_eq P (qdot (ql_obj P) x') (qdot (ql_obj P) z)) /\
    qdot (ql_obj P) x' - qdot (ql_obj P) x == nth i y 0 * delta.
Proof. exact sensitivity_cert_sound. Qed.

Print Assumptions C20_sensitivity_cert_sound.
