(* C03 - End-to-end answers are right: the verified reference interpreter every program is compared with.
   Statements, `exact`, Print Assumptions only. *)
From Coq Require Import QArith List String.
From Rooc Require Import Base.XQ Model.Exp Model.Sem Model.Bounds Model.Linearize Cert.Bridge Cert.RefInterp.
Import ListNotations.

(* when the reference reports a best value, it is attained at a satisfying assignment of the box and no satisfying
   assignment of the box is strictly better *)
Theorem C03_ref_solve_best :
  forall (m : model) (v : Q) (rho : env), ref_solve m = RBest v rho ->
  exists es, envs (map (fun p => (fst p, dv_type (snd p))) (filter (fun p => dv_used (snd p)) (m_domain m))) = Some es /\
    In rho es /\ satQ (m_constraints m) rho = true /\ evQ (lookup rho) (m_obj m) = Some v /\
    forall rho' v', In rho' es -> satQ (m_constraints m) rho' = true -> evQ (lookup rho') (m_obj m) = Some v' ->
      better (m_dir m) v v' = true.
Proof. exact ref_solve_best. Qed.

(* when the reference reports no point, no assignment of the box satisfies the text *)
Theorem C03_ref_solve_nopoint :
  forall m : model, ref_solve m = RNoPoint ->
  exists es, envs (map (fun p => (fst p, dv_type (snd p))) (filter (fun p => dv_used (snd p)) (m_domain m))) = Some es /\
    forall rho, In rho es -> satQ (m_constraints m) rho = false.
Proof. exact ref_solve_nopoint. Qed.

Print Assumptions C03_ref_solve_best.
Print Assumptions C03_ref_solve_nopoint.
