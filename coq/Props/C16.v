(* C16 - All front doors agree.
   Statements, `exact`, Print Assumptions only.

   Proved, for every expression the builder can construct and every real assignment: the builder's translation to the
   name-based tree commutes with evaluation - the value the builder's own evaluator (eval_expr) computes is the value
   the language's semantics gives to the translated tree, defined exactly when it is.  Hence an expression read back at
   a solution through the builder (BuilderSolution::eval) is the language's value of what was compiled, and a handle
   resolves to the value of the variable of that name.
   Proved, for every sequence of public ModelBuilder calls (add_var, with, with_all, minimize, maximize, satisfy in any
   order): the model into_model returns is determined by the declared variables in order, the constraints in order
   (however grouped) and the last objective call; it exists exactly when no name is declared twice; handles keep naming
   their variable; every declared variable is marked used.
   The agreement of the entry points themselves (builder / text / staged pipes / one-shot solver: same linear model,
   same verdict, same optimum) is evaluated on the implementation by checks/c16.py (partial: see C16_full_statement). *)
From Coq Require Import QArith Qreals Reals ZArith Bool List String.
From Rooc Require Import Base.XQ Model.Exp Model.Sem Model.Bounds Model.Linearize Model.Builder Model.BuilderOps Proof.BuilderSound Proof.BuilderOpsFacts.
Import ListNotations.
Local Close Scope Q_scope.

Theorem C16_translation_commutes_with_evaluation_partial :
  forall (names : list string) (rho : string -> R) (e : bexpr),
    ev rho (to_exp names e) = beval (fun i => rho (name_of names i)) e.
Proof. exact to_exp_commutes. Qed.

Theorem C16_handle_is_name :
  forall (V : Type) (names : list string) (sol : string -> option V) h n,
    nth_error names h = Some n -> handle_value names sol h = sol n.
Proof. intros V names sol h n. exact (handle_is_name names sol h n). Qed.

(* ---- ModelBuilder as a state machine: the calls may come in any order *)
Theorem C16_call_order_irrelevant :
  forall (ops1 ops2 : list bop) (s1 s2 : bstate),
    brun b_init ops1 = Some s1 -> brun b_init ops2 = Some s2 ->
    vars_of_ops ops1 = vars_of_ops ops2 -> cons_of_ops ops1 = cons_of_ops ops2 -> last_obj ops1 None = last_obj ops2 None ->
    into_model s1 = into_model s2.
Proof. exact call_order_irrelevant. Qed.
Theorem C16_with_all_is_a_sequence_of_with : forall (s : bstate) (cs : list bcon), brun s [OWithAll cs] = brun s (map OWith cs).
Proof. exact with_all_is_withs. Qed.
Theorem C16_builds_iff_names_distinct :
  forall ops : list bop, (exists s', brun b_init ops = Some s') <-> NoDup (map fst (vars_of_ops ops)).
Proof. intros ops. exact (brun_succeeds_iff_names_distinct ops b_init (NoDup_nil _)). Qed.
Theorem C16_handle_stable :
  forall (ops1 ops2 : list bop) (s1 s2 : bstate) (n : string) (t : vtype),
    brun b_init ops1 = Some s1 -> brun s1 (OVar n t :: ops2) = Some s2 ->
    name_of (b_names s2) (List.length (b_names s1)) = n.
Proof. exact handle_stable. Qed.
Theorem C16_every_declared_variable_marked_used :
  forall (s : bstate) (n : string) (d : dvar), In (n, d) (m_domain (into_model s)) -> dv_used d = true.
Proof. exact into_model_marks_all_used. Qed.
Example C16_order_instance :   (* objective first / last, constraints one by one / together: the same model *)
  let c1 := mkBC "a"%string (EVar 0) Le (ENum (Fin 3%Q)) false in let c2 := mkBC ""%string (EVar 1) Eq (ENum (Fin 1%Q)) true in
  option_map into_model (brun b_init [OVar "x"%string TBoolean; OVar "y"%string TBoolean; OMax (EVar 0); OWith c1; OWith c2])
  = option_map into_model (brun b_init [OVar "x"%string TBoolean; OVar "y"%string TBoolean; OSat; OWithAll [c1; c2]; OMax (EVar 0)]).
Proof. vm_compute. reflexivity. Qed.

(* non-vacuity: x_0 - 2 * (x_1 and not x_0) at x_0 = 3, x_1 = 1 is defined on both sides and equals 3 *)
Example C16_instance :
  let e := EBin Sub (EVar 0) (EBin Mul (ENum (Fin 2%Q)) (EAnd [EVar 1; ENot (EVar 0)])) in
  bevalQ (fun i => nth i [3%Q; 1%Q] 0%Q) e = Some (3 - 2 * 0)%Q /\
  to_exp ["x"; "y"]%string e = BinOp Sub (Var "x") (BinOp Mul (Num (Fin 2%Q)) (And [Var "y"; Not (Var "x")])).
Proof. split; vm_compute; reflexivity. Qed.

(* the full property over the implementation's entry points; evaluated by checks/c16.py, not proved *)
Definition C16_full_statement (src linear answer : Type)
    (via_builder via_text via_pipes : src -> option linear) (solve_builder solve_oneshot solve_pipes : src -> answer)
    (same : linear -> linear -> Prop) : Prop :=
  forall m, (forall a b, via_builder m = Some a -> via_text m = Some b -> same a b) /\
            via_pipes m = via_text m /\
            solve_builder m = solve_oneshot m /\ solve_pipes m = solve_oneshot m.

Print Assumptions C16_translation_commutes_with_evaluation_partial.
Print Assumptions C16_call_order_irrelevant.
Print Assumptions C16_builds_iff_names_distinct.
Print Assumptions C16_handle_is_name.
