(* C16 - All front doors agree.
   Statements, `exact`, Print Assumptions only.

   Proved, for every expression the builder can construct and every real assignment: the builder's translation to the
   name-based tree commutes with evaluation - the value the builder's own evaluator (eval_expr) computes is the value
   the language's semantics gives to the translated tree, defined exactly when it is.  Hence an expression read back at
   a solution through the builder (BuilderSolution::eval) is the language's value of what was compiled, and a handle
   resolves to the value of the variable of that name.
   The agreement of the entry points themselves (builder / text / staged pipes / one-shot solver: same linear model,
   same verdict, same optimum) is evaluated on the implementation by checks/c16.py (partial: see C16_full_statement). *)
From Coq Require Import QArith Qreals Reals ZArith Bool List String.
From Rooc Require Import Base.XQ Model.Exp Model.Sem Model.Builder Proof.BuilderSound.
Import ListNotations.
Local Close Scope Q_scope.

Theorem C16_translation_commutes_with_evaluation_partial :
  forall (names : list string) (rho : string -> R) (e : bexpr),
    ev rho (to_exp names e) = beval (fun i => rho (name_of names i)) e.
Proof. exact to_exp_commutes. Qed.

Theorem C16_handle_is_name :
  forall (V : Type) (names : list string) (sol : string -> option V) h n,
    nth_error names h = Some n -> handle_value names sol h = sol n.
Proof. intros V names sol h n. exact (handle_is_name names sol h n). Qed.

(* non-vacuity: x_0 - 2 * (x_1 and not x_0) at x_0 = 3, x_1 = 1 is defined on both sides and equals 3 *)
Example C16_instance :
  let e := EBin Sub (EVar 0) (EBin Mul (ENum (Fin 2%Q)) (EAnd [EVar 1; ENot (EVar 0)])) in
  bevalQ (fun i => nth i [3%Q; 1%Q] 0%Q) e = Some (3 - 2 * 0)%Q /\
  to_exp ["x"; "y"]%string e = BinOp Sub (Var "x") (BinOp Mul (Num (Fin 2%Q)) (And [Var "y"; Not (Var "x")])).
Proof. split; vm_compute; reflexivity. Qed.

(* the full property over the implementation's entry points; evaluated by checks/c16.py, not proved *)
Definition C16_full_statement (src linear answer : Type)
    (via_builder via_text via_pipes : src -> option linear) (solve_builder solve_oneshot solve_pipes : src -> answer)
    (same : linear -> linear -> Prop) : Prop :=
  forall m, (forall a b, via_builder m = Some a -> via_text m = Some b -> same a b) /\
            via_pipes m = via_text m /\
            solve_builder m = solve_oneshot m /\ solve_pipes m = solve_oneshot m.

Print Assumptions C16_translation_commutes_with_evaluation_partial.
Print Assumptions C16_handle_is_name.
