(* C15 - Limits and tolerances never turn into wrong answers.  Statements, `exact`, Print Assumptions only. *)
From Coq Require Import QArith List String.
From Rooc Require Import Model.StatusMap Base.XQ Model.Exp Model.Bounds Model.Linearize Cert.LP Cert.Bridge Cert.Solution.
Import ListNotations.

(* rooc's own labelling logic never mislabels what the search reported: optimal only when proven AND, under a positive
   requested gap, the reported value (constant term included) is within that gap of the proven bound; merely feasible
   for an incumbent; an error (never a solution) when stopped before any feasible point or when the options are invalid *)
Theorem C15_wrap_never_mislabels : forall (r : raw) (ob : obs), labelling_ok r ob (wrap r ob).
Proof. exact wrap_never_mislabels. Qed.
(* against the true optimum: the proven bound and the reported value bracket it, so a result labelled optimal under a
   positive gap g is within g * max(|value|, 1e-10) of it *)
Theorem C15_optimal_label_within_gap_of_optimum :
  forall (r : raw) (ob : obs) (g b opt : Q),
  wrap r ob = OutOptimal -> r = RawOptimal -> o_gap ob = Some g -> (0 < g)%Q -> o_bound ob = Some b ->
  ((b <= opt <= o_value ob)%Q \/ (o_value ob <= opt <= b)%Q) ->
  (Qabs.Qabs (o_value ob - opt) <= gap_room g (o_value ob))%Q.
Proof. exact optimal_label_within_gap_of_optimum. Qed.
Example C15_relabel_example :   (* value 3, bound 1 (constant -3 included), gap 1/2: outside -> feasible; bound 2: inside -> optimal *)
  wrap RawOptimal (mkObs (Some (1#2)%Q) 3%Q (Some 1%Q)) = OutFeasible /\ wrap RawOptimal (mkObs (Some (1#2)%Q) 3%Q (Some 2%Q)) = OutOptimal.
Proof. split; vm_compute; reflexivity. Qed.

(* every returned point goes through the verified feasibility checker of C04 *)
Theorem C15_returned_points_feasible :
  forall (L : linmodel) (s : sol), check_solution L s = true ->
  exists rows obj off,
    mapM qrow_of (lm_rows L) = Some rows /\ mapM q_of (lm_objective L) = Some obj /\ q_of (lm_offset L) = Some off /\
    let x := vector_of (lm_vars L) (so_assign s) in
    (List.length (so_assign s) = List.length (lm_vars L) /\ forall v, In v (lm_vars L) -> count_name v (so_assign s) = 1%nat) /\
    Forall (row_holds_tol x) rows /\
    (forall v, In v (lm_vars L) -> exists t, al_get (lm_domain L) v = Some t /\ dom_holds_tol t (value_of (so_assign s) v)) /\
    (lm_dir L <> DSatisfy -> let o := (qdot obj x + off)%Q in (- (tol6 * qmax1 o) <= so_value s - o <= tol6 * qmax1 o)%Q).
Proof. exact check_solution_sound. Qed.

Print Assumptions C15_wrap_never_mislabels.
Print Assumptions C15_optimal_label_within_gap_of_optimum.
Print Assumptions C15_returned_points_feasible.
