(* C15 - Limits and tolerances never turn into wrong answers.  Statements, `exact`, Print Assumptions only. *)
From Coq Require Import QArith List String.
From Rooc Require Import Model.StatusMap Base.XQ Model.Exp Model.Bounds Model.Linearize Cert.LP Cert.Bridge Cert.Solution.
Import ListNotations.

(* rooc's own labelling logic never mislabels what the search reported: optimal only when proven within the gap,
   merely feasible for an incumbent, an error (never a solution) when stopped before any feasible point or when the
   options are invalid *)
Theorem C15_wrap_never_mislabels : forall r : raw, labelling_ok r (wrap r).
Proof. exact wrap_never_mislabels. Qed.

(* every returned point goes through the verified feasibility checker of C04 *)
Theorem C15_returned_points_feasible :
  forall (L : linmodel) (s : sol), check_solution L s = true ->
  exists rows obj off,
    mapM qrow_of (lm_rows L) = Some rows /\ mapM q_of (lm_objective L) = Some obj /\ q_of (lm_offset L) = Some off /\
    let x := vector_of (lm_vars L) (so_assign s) in
    (List.length (so_assign s) = List.length (lm_vars L) /\ forall v, In v (lm_vars L) -> count_name v (so_assign s) = 1%nat) /\
    Forall (row_holds_tol x) rows /\
    (forall v, In v (lm_vars L) -> exists t, al_get (lm_domain L) v = Some t /\ dom_holds_tol t (value_of (so_assign s) v)) /\
    (lm_dir L <> DSatisfy -> let o := (qdot obj x + off)%Q in (- (tol6 * qmax1 o) <= so_value s - o <= tol6 * qmax1 o)%Q).
Proof. exact check_solution_sound. Qed.

Print Assumptions C15_wrap_never_mislabels.
Print Assumptions C15_returned_points_feasible.
