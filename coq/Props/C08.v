(* C08 - Compiled linear models are well-formed.  Only statements, `exact`, and Print Assumptions. *)
From Coq Require Import QArith List String Sorting.Sorted.
From Rooc Require Import Base.XQ Model.Exp Model.Bounds Model.Linearize Proof.WellFormed Proof.RowNames.
Import ListNotations.
Local Close Scope Q_scope.

(* sorted, duplicate-free variable list equal to the domain's key set; one coefficient per variable in every
   row and in the objective; every used declared variable is present *)
Theorem C08_wellformed :
  forall (m : model) (L : linmodel),
    compile m = inr L -> NoDup (map fst (m_domain m)) ->
    Sorted sle (lm_vars L)
    /\ NoDup (lm_vars L)
    /\ (forall x, In x (lm_vars L) <-> In x (map fst (lm_domain L)))
    /\ NoDup (map fst (lm_domain L))
    /\ (forall r, In r (lm_rows L) -> List.length (lr_coeffs r) = List.length (lm_vars L))
    /\ List.length (lm_objective L) = List.length (lm_vars L)
    /\ (forall n d, In (n, d) (m_domain m) -> dv_used d = true -> In n (lm_vars L)).
Proof. exact compile_wellformed. Qed.

(* auxiliary names cannot collide with user names *)
Theorem C08_aux_fresh :
  forall (m : model) (L : linmodel),
    compile m = inr L -> NoDup (map fst (m_domain m)) ->
    exists aux : list (string * vtype),
      (forall x, In x (map fst (lm_domain L)) -> In x (map fst (m_domain m)) \/ In x (map fst aux)) /\
      (forall x, In x (map fst aux) -> ~ In x (map fst (m_domain m))).
Proof. exact compile_aux_fresh. Qed.

(* row names are pairwise distinct, unnamed rows aside: the de-duplication loop of Linearizer::linearize always finds a
   free `name__k` within its step bound (pigeonhole over the candidates; decimal names of distinct numbers differ) *)
Theorem C08_row_names_unique :
  forall (m : model) (L : linmodel), compile m = inr L ->
    NoDup (map lr_name (filter (fun r => negb (String.eqb (lr_name r) "")) (lm_rows L))).
Proof. exact compile_row_names_unique. Qed.

Print Assumptions C08_wellformed.
Print Assumptions C08_row_names_unique.
Print Assumptions C08_aux_fresh.
