(* C18 - The compiler is total: it never panics or hangs.
   Statements, `exact`, Print Assumptions only.

   Panics, aborts and hangs live in the runtime; what a theorem can carry is the LOGIC that is supposed to prevent
   them, on the models tied to the code by the other checks:
   - the two loops of the compiler whose termination is not structural stop because of their step counters: bound
     propagation visits at most max_steps constraints, the tableau simplex makes at most `limit` pivots - the fuel of
     the Gallina models is provably never what stops them (so `out of fuel` is not a behaviour of the code);
   - Exp::linearize recurses on strict sub-expressions: with fuel above the depth of the expression the model of the
     linearizer never reports exhaustion, at any state and for every expression (logic arms included);
   - the precedence parser always returns within the fuel it is given by the C09 theorems on well-formed input
     (C09_pratt_complete) - and the harness measures the parsing time on nesting depth 64 and beyond;
   - integer arithmetic on constants is checked: every integer result lies inside i64 / u64, for all operands.
   The property itself - no stage panics, aborts or hangs on any input, every error renders against its source - is
   evaluated on the implementation under a process-level watchdog by checks/c18.py (partial). *)
From Coq Require Import QArith ZArith Bool List String.
From Rooc Require Import Base.XQ Model.Exp Model.Bounds Model.Linearize Model.Tableau Model.Types Proof.Totality Proof.LinFuel.
Import ListNotations.
Local Close Scope Q_scope.

Theorem C18_bound_propagation_stops_at_the_step_limit_partial :
  forall ties dom cs max_steps extra,
    let a := from_domain_t ties dom in
    let forms := map af_from_constraint cs in
    let names := map (fun p => constraint_names (fst p) (snd p)) (combine cs forms) in
    let n := List.length cs in
    propagate_loop (S (S max_steps) + extra) cs forms names max_steps O (seq O n) (repeat true n) a =
    analyze_with_t ties dom cs max_steps.
Proof. exact analysis_terminates_by_step_limit. Qed.

Theorem C18_simplex_stops_at_the_iteration_limit_partial :
  forall t limit avoid extra,
    solve_loop (S limit + extra) t avoid limit O O (t_value t) [] = solve_avoiding t limit avoid.
Proof. exact simplex_terminates_by_iteration_limit. Qed.

Theorem C18_linearize_recursion_is_structural :
  forall (n : nat) (e : exp) (r : req), (exp_depth e <= n)%nat -> forall s : lst, lin n e r s <> inl EFuel.
Proof. exact lin_never_out_of_fuel. Qed.
Theorem C18_linearize_exp_never_out_of_fuel : forall e r s, linearize_exp e r s <> inl EFuel.
Proof. exact linearize_exp_never_out_of_fuel. Qed.

Theorem C18_integer_arithmetic_is_checked :
  (forall v op w r, apply_bin v op w = inl r -> in_range r) /\
  (forall op v r, apply_un op v = inl r -> in_range r).
Proof. split; [exact integer_results_stay_in_range|exact negation_stays_in_range]. Qed.

(* the cases that used to panic or wrap: now errors of the data-dependent kind *)
Example C18_extremes :
  apply_un Neg (VInt i64_min) = inr EOverflow /\
  apply_un Neg (VPos u64_max) = inr EOverflow /\
  apply_bin (VInt i64_max) Add (VInt 1) = inr EOverflow /\
  apply_bin (VInt i64_max) Mul (VInt i64_max) = inr EOverflow /\
  apply_bin (VNum 1) Div (VInt 0) = inr EDivZero.
Proof. vm_compute. repeat split; reflexivity. Qed.

Definition C18_full_statement (input result : Type) (stages : list (input -> option result)) : Prop :=
  forall (i : input) f, In f stages -> exists r, f i = Some r.   (* every stage returns: a value or a structured error *)

Print Assumptions C18_bound_propagation_stops_at_the_step_limit_partial.
Print Assumptions C18_simplex_stops_at_the_iteration_limit_partial.
Print Assumptions C18_integer_arithmetic_is_checked.
Print Assumptions C18_linearize_recursion_is_structural.
