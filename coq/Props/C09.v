(* C09 - Expressions parse with the documented precedence and associativity.
   Statements, `exact`, Print Assumptions only.  The table (src_prec, src_rassoc, src_pprec) is REGENERATED from
   exp_parser.rs on every run (Gen/PrattTable.v), so every statement below is re-checked against the current source. *)
From Coq Require Import Bool List Arith String.
From Rooc Require Import Model.Exp Gen.PrattTable Model.Pratt Proof.PrattSound Proof.PrattTable.
Import ListNotations.

(* the Pratt loop, for token lists of ANY length: it returns exactly the unique well-formed tree spelling the tokens *)
Theorem C09_pratt_sound :
  forall ts t, src_parse ts = Some t -> flatten t = ts /\ wfr src_prec src_rassoc src_pprec 0 t.
Proof. exact src_pratt_sound. Qed.
Theorem C09_pratt_complete :
  forall t, wfr src_prec src_rassoc src_pprec 0 t -> src_parse (flatten t) = Some t.
Proof. exact src_pratt_complete. Qed.
Theorem C09_wf_unique :
  forall t1 t2, wfr src_prec src_rassoc src_pprec 0 t1 -> wfr src_prec src_rassoc src_pprec 0 t2 ->
    flatten t1 = flatten t2 -> t1 = t2.
Proof. exact src_wf_unique. Qed.

(* the documented level order: unary minus and not bind tightest, then * /, then + -, then and, xor, or, then
   implies (right-associative) and iff (left-associative) on one shared lowest level *)
Theorem C09_level_order :
  src_pprec Neg = src_pprec UNot /\
  src_prec Mul = src_prec Div /\ src_prec Add = src_prec Sub /\ src_prec BImplies = src_prec BIff /\
  src_prec BIff < src_prec BOr /\ src_prec BOr < src_prec BXor /\ src_prec BXor < src_prec BAnd /\
  src_prec BAnd < src_prec Add /\ src_prec Add < src_prec Mul /\ src_prec Mul < src_pprec Neg /\
  src_rassoc BImplies = true /\
  forallb (fun op => negb (src_rassoc op)) [Add; Sub; Mul; Div; BAnd; BOr; BXor; BIff] = true.
Proof. exact src_level_order. Qed.

(* a -> b <-> c is a -> (b <-> c) ; a <-> b -> c is (a <-> b) -> c *)
Theorem C09_implies_iff :
  src_parse [TAtom 0; TInfix BImplies; TAtom 1; TInfix BIff; TAtom 2] = Some (Bin BImplies (Leaf 0) (Bin BIff (Leaf 1) (Leaf 2))) /\
  src_parse [TAtom 0; TInfix BIff; TAtom 1; TInfix BImplies; TAtom 2] = Some (Bin BImplies (Bin BIff (Leaf 0) (Leaf 1)) (Leaf 2)).
Proof. exact src_implies_iff. Qed.

(* other binary operators of equal precedence group to the left *)
Theorem C09_equal_level_left :
  forall op1 op2, src_prec op1 = src_prec op2 -> src_rassoc op1 = false -> src_rassoc op2 = false ->
    src_parse [TAtom 0; TInfix op1; TAtom 1; TInfix op2; TAtom 2] = Some (Bin op2 (Bin op1 (Leaf 0) (Leaf 1)) (Leaf 2)).
Proof. exact src_equal_level_left. Qed.

Print Assumptions C09_pratt_sound.
Print Assumptions C09_pratt_complete.
Print Assumptions C09_wf_unique.
Print Assumptions C09_level_order.
Print Assumptions C09_equal_level_left.
