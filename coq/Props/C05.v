(* C05 - Solver verdicts and optimal values are correct: the verified certificate checkers.
   Statements, `exact`, Print Assumptions only.  (Rational arithmetic; no axioms.) *)
From Coq Require Import QArith List.
From Rooc Require Import Model.Exp Cert.LP.
Import ListNotations.
Local Open Scope Q_scope.

(* an accepted optimality certificate proves feasibility of x and that no feasible point is better *)
Theorem C05_opt_cert_sound :
  forall (P : qlp) (x y : list Q), check_opt_cert P x y = true ->
    feasible P x /\ forall x', feasible P x' -> better_eq P (qdot (ql_obj P) x) (qdot (ql_obj P) x').
Proof. exact opt_cert_sound. Qed.

(* an accepted Farkas certificate proves that no point satisfies the rows and bounds *)
Theorem C05_infeasible_cert_sound :
  forall (P : qlp) (y : list Q), check_infeasible_cert P y = true -> forall x, ~ feasible P x.
Proof. exact infeasible_cert_sound. Qed.

(* an accepted ray certificate proves a non-empty feasible set on which the objective improves without bound *)
Theorem C05_unbounded_cert_sound :
  forall (P : qlp) (x d : list Q), check_unbounded_cert P x d = true ->
    feasible P x /\ forall k, 0 <= k ->
      feasible P (vadd x (vscale k d)) /\
      qdot (ql_obj P) (vadd x (vscale k d)) == qdot (ql_obj P) x + k * qdot (ql_obj P) d /\
      (if ql_max P then 0 < qdot (ql_obj P) d else qdot (ql_obj P) d < 0).
Proof. exact unbounded_cert_sound. Qed.

(* non-vacuity: the checker accepts a genuine certificate *)
Example C05_nonvacuous :
  check_opt_cert (mkQLP 2 [mkQRow [1; 1] Ge 2; mkQRow [1; 0] Ge 0; mkQRow [0; 1] Ge 0] [2; 1] false) [0; 2] [1; 1; 0] = true.
Proof. vm_compute. reflexivity. Qed.

Print Assumptions C05_opt_cert_sound.
Print Assumptions C05_infeasible_cert_sound.
Print Assumptions C05_unbounded_cert_sound.
