(* C06 - Data-driven constructs expand exactly.
   Statements, `exact`, Print Assumptions only.

   The reference expander (Model.Expand: ranges, arrays, enumerate, graph functions, nested iteration with scoping and
   destructuring, index flattening, the folds of every aggregation block, constraints and declarations with `for`) is
   tied to the compiler on every run: each generated data-driven program is compiled by the implementation and
   expanded by the model, and objective tree, constraints (names, sides, relations, order) and declared variables
   (names, types, order) must coincide.  Proved about the expander, for data of ANY size:
   - a range yields exactly the whole numbers from its first end up to (or including) its second, in increasing
     order, and is empty exactly when it should be;
   - nested iteration is the lexicographic product with the first binder outermost;
   - a sum / product / average block denotes the sum / product / mean of its operands at every real assignment, and
     the right-nested tree the compiler builds has the value of the left-nested tree of the hand-written `a + b + c`
     (so unrolling by hand denotes the same thing); the empty sum is 0, the empty product 1;
   - index flattening is injective: x_1_23 and x_12_3 are different variables.
   The comparison with the hand-unrolled TEXT (written by the harness's own evaluator) is evaluated on the
   implementation by checks/c06.py (partial: see C06_full_statement). *)
From Coq Require Import QArith Qreals Reals ZArith Bool List String.
From Rooc Require Import Base.XQ Model.Exp Model.Sem Model.Expand Proof.XQFacts Proof.SemFacts Proof.ExpandFacts.
Import ListNotations.
Local Close Scope Q_scope.

Theorem C06_range_exact :
  forall env lo hi (incl : bool) (a b : Z),
    ieval env lo = Some (znum a) -> ieval env hi = Some (znum b) ->
    let last := if incl then (b + 1)%Z else b in
    exists l, ieval env (IRange lo hi incl) = Some (DList l) /\
              List.length l = Z.to_nat (last - a) /\
              forall k, (k < Z.to_nat (last - a))%nat -> nth_error l k = Some (znum (a + Z.of_nat k)).
Proof. exact range_spec. Qed.

Theorem C06_nested_iteration_is_lexicographic :
  forall p it rest env v vs e' inner tail,
    ieval env it = Some (DList (v :: vs)) -> bind_pat env p v = Some e' -> iter_envs rest e' = Some inner ->
    fold_left (step_of rest env p) vs (Some []) = Some tail ->
    iter_envs ((p, it) :: rest) env = Some (inner ++ tail)%list.
Proof. exact iter_envs_lexicographic. Qed.

Theorem C06_sum_block_partial :
  forall rho l, ev rho (aggregate KSum l) = ev rho (left_nested Add (Num (Fin 0%Q)) l).
Proof. exact sum_fold_direction. Qed.
Theorem C06_prod_block_partial :
  forall rho l, ev rho (aggregate KProd l) = ev rho (left_nested Mul (Num (Fin 1%Q)) l).
Proof. exact prod_fold_direction. Qed.
Theorem C06_sum_denotes :
  forall rho l vs, evlist rho false l = Some vs -> ev rho (aggregate KSum l) = Some (sumR vs).
Proof. exact sum_denotes. Qed.
Theorem C06_avg_denotes :
  forall rho l vs, evlist rho false l = Some vs -> l <> [] ->
    ev rho (aggregate KAvg l) = Some (sumR vs / INR (List.length l))%R.
Proof. exact avg_denotes. Qed.

Theorem C06_index_flattening_injective :
  forall n (zs zs' : list Z), List.length zs = List.length zs' ->
    (n ++ "_" ++ join "_" (map show_Z zs) = n ++ "_" ++ join "_" (map show_Z zs'))%string -> zs = zs'.
Proof. exact flat_name_injective. Qed.

(* non-vacuity: a concrete program with nested iteration, enumerate and an empty range *)
Example C06_instance :
  let env := [("A", DList [znum 4; znum 7])]%string in
  expand (PScoped KSum [(PTuple ["a"; "i"], IEnumerate (IVar "A")); (PSingle "j", IRange (INum (Fin 0%Q)) (IVar "i") true)]
            (PBin Mul (PVal (IVar "a")) (PComp "x" [IVar "i"; IVar "j"])))%string env
  = Some (BinOp Add (BinOp Mul (Num (Fin 4%Q)) (Var "x_0_0"))
            (BinOp Add (BinOp Mul (Num (Fin 7%Q)) (Var "x_1_0")) (BinOp Mul (Num (Fin 7%Q)) (Var "x_1_1"))))%string /\
  expand (PScoped KSum [(PSingle "i", IRange (INum (Fin 3%Q)) (INum (Fin 3%Q)) false)] (PComp "x" [IVar "i"]))%string env = Some (Num (Fin 0%Q)).
Proof. split; vm_compute; reflexivity. Qed.

(* the full property over the implementation; evaluated by checks/c06.py, not proved *)
Definition C06_full_statement (text model : Type) (compile : text -> option model) (unroll_by_hand : text -> text) : Prop :=
  forall t, compile (unroll_by_hand t) = compile t.

(* set functions: the union of two arrays of numbers holds every value of either exactly once *)
Theorem C06_union_is_a_set :
  forall env a b la lb,
    ieval env a = Some (DList la) -> ieval env b = Some (DList lb) -> all_nums la = true -> all_nums lb = true ->
    exists u, ieval env (ISet SUnion a b) = Some (DList u) /\ nums_distinct u /\
      forall x, num_mem x u = (num_mem x la || num_mem x lb)%bool.
Proof. exact union_is_a_set. Qed.

Print Assumptions C06_range_exact.
Print Assumptions C06_union_is_a_set.
Print Assumptions C06_nested_iteration_is_lexicographic.
Print Assumptions C06_sum_block_partial.
Print Assumptions C06_avg_denotes.
Print Assumptions C06_index_flattening_injective.
