(* C04 - Returned solutions are feasible and self-consistent: the verified checker every solver output goes through.
   Statements, `exact`, Print Assumptions only.  (Rational arithmetic; no axioms.) *)
From Coq Require Import QArith List String.
From Rooc Require Import Base.XQ Model.Exp Model.Bounds Model.Linearize Cert.LP Cert.Bridge Cert.Solution.
Import ListNotations.
Local Open Scope Q_scope.

Theorem C04_check_solution_sound :
  forall (L : linmodel) (s : sol), check_solution L s = true ->
  exists rows obj off,
    mapM qrow_of (lm_rows L) = Some rows /\ mapM q_of (lm_objective L) = Some obj /\ q_of (lm_offset L) = Some off /\
    let x := vector_of (lm_vars L) (so_assign s) in
    (List.length (so_assign s) = List.length (lm_vars L) /\ forall v, In v (lm_vars L) -> count_name v (so_assign s) = 1%nat) /\
    Forall (row_holds_tol x) rows /\
    (forall v, In v (lm_vars L) -> exists t, al_get (lm_domain L) v = Some t /\ dom_holds_tol t (value_of (so_assign s) v)) /\
    (lm_dir L <> DSatisfy -> let o := qdot obj x + off in - (tol6 * qmax1 o) <= so_value s - o <= tol6 * qmax1 o).
Proof. exact check_solution_sound. Qed.

Print Assumptions C04_check_solution_sound.
