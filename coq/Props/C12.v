(* C12 - Compiled output is itself a valid program with the same meaning.
   Statements, `exact`, Print Assumptions only.  Both operator tables are REGENERATED from the source on every run
   (the parser's from exp_parser.rs, the printers' from math/operators.rs).

   Proved, for inputs of ANY size:
   - the text Exp's Display prints for an arithmetic expression of the compiled model (parenthesisation rule
     needs_parens over the printers' table) is read back by the parser as exactly that expression;
   - the text LinearModel's Display prints for the left-hand side of a row (signs, magnitudes glued to names) is read
     back as a tree whose value is the row's linear form at every assignment;
   - the printers' table and the parser's table order all 81 operator pairs alike.
   The remaining clauses (numbers, names, domains, the type checker, equality of the re-compiled linear model) are
   decided on the implementation by the oracle in checks/c12.py (partial: see C12_full_statement). *)
From Coq Require Import Bool List Arith QArith String.
From Rooc Require Import Model.Exp Gen.PrattTable Model.Pratt Model.Printer Model.LinRow Proof.PrattSound Proof.PrattTable
  Proof.PrinterWf Proof.PrinterParse Proof.LinRowParse Proof.PrinterTable.
Import ListNotations.
Local Close Scope Q_scope.

Theorem C12_model_expression_roundtrip_partial : forall t, src_pparse (pflatten (src_render t)) = Some t.
Proof. exact src_parse_render. Qed.

Theorem C12_linear_row_roundtrip_partial :
  forall signs t, row_tree signs = Some t ->
    src_pparse (row_tokens signs) = Some t /\ forall av, Qeq (teval av t) (row_sum av 0 signs).
Proof. exact src_row_parses. Qed.

(* non-vacuity: a row with three terms, - 2x + y - 0.5z, is a tree and is read back *)
Example C12_row_instance :
  row_tree [true; false; true] = Some (Bin Sub (Bin Add (Pre Neg (Leaf 0)) (Leaf 1)) (Leaf 2)) /\
  src_pparse (row_tokens [true; false; true]) = Some (Bin Sub (Bin Add (Pre Neg (Leaf 0)) (Leaf 1)) (Leaf 2)).
Proof. split; vm_compute; reflexivity. Qed.

Theorem C12_tables_compatible :
  forallb (fun a => forallb (fun b =>
     Bool.eqb (Nat.ltb (prt_prec a) (prt_prec b)) (Nat.ltb (src_prec a) (src_prec b)) &&
     Bool.eqb (Nat.eqb (prt_prec a) (prt_prec b)) (Nat.eqb (src_prec a) (src_prec b))) all_binops &&
     Bool.eqb (prt_rassoc a) (src_rassoc a)) all_binops = true.
Proof. exact tables_compatible. Qed.

(* the full property over the implementation's entry points; evaluated by checks/c12.py, not proved *)
Definition C12_full_statement (model linear : Type) (render_m : model -> string) (render_l : linear -> string)
    (accepts : string -> bool) (compile_text : string -> option linear) (compile : model -> option linear)
    (same : linear -> linear -> Prop) : Prop :=
  (forall m l, compile m = Some l ->
     accepts (render_m m) = true /\ exists l', compile_text (render_m m) = Some l' /\ same l l') /\
  (forall m l, compile m = Some l ->
     accepts (render_l l) = true /\ exists l', compile_text (render_l l) = Some l' /\ same l l' /\ render_l l' = render_l l).

Print Assumptions C12_model_expression_roundtrip_partial.
Print Assumptions C12_linear_row_roundtrip_partial.
Print Assumptions C12_tables_compatible.
