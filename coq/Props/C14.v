(* C14 - Every simplex step preserves equivalence, feasibility and monotonicity.
   Statements, `exact`, Print Assumptions only.  Termination within the iteration limit (anti-cycling of the
   hybrid Dantzig/Bland rule) is NOT proved; it is exercised as a test over histories (DESIGN.md C14). *)
From Coq Require Import QArith Reals List String.
From Rooc Require Import Base.XQ Model.Exp Model.Bounds Model.Linearize Model.Spec Model.Standardize Model.Tableau
  Proof.PivotSound.
Import ListNotations.
Local Close Scope Q_scope.
Local Open Scope R_scope.

(* one pivot on a non-zero element: the equation system keeps exactly the same solutions *)
Theorem C14_pivot_equiv :
  forall (t : tableau) (n tr h : nat) (x : list R), twf t n -> List.length x = n ->
    forall (prow : list xq) (bt : xq), nth_error (t_a t) tr = Some prow -> nth_error (t_b t) tr = Some bt ->
    (h < n)%nat -> xval (nthx prow h) <> 0 -> (sat t x <-> sat (pivot t tr h) x).
Proof. exact pivot_equiv. Qed.

(* the objective row stays consistent *)
Theorem C14_pivot_cost :
  forall (t : tableau) (n tr h : nat) (x : list R), twf t n -> List.length x = n ->
    forall (prow : list xq) (bt : xq), nth_error (t_a t) tr = Some prow -> nth_error (t_b t) tr = Some bt ->
    (h < n)%nat -> xval (nthx prow h) <> 0 -> sat t x -> objective (pivot t tr h) x = objective t x.
Proof. exact pivot_cost. Qed.

(* along every sequence of pivots (every prefix of every trace): same solutions, same objective, still well-formed *)
Theorem C14_every_prefix :
  forall steps t n x, twf t n -> List.length x = n -> pivots_ok t n steps ->
    (sat t x <-> sat (run_pivots t steps) x) /\
    (sat t x -> objective (run_pivots t steps) x = objective t x) /\
    twf (run_pivots t steps) n.
Proof. exact pivots_equiv. Qed.

(* the ratio test keeps the basic solution non-negative *)
Theorem C14_pivot_feasible :
  forall (t : tableau) (n tr h : nat) (x : list R), twf t n -> List.length x = n ->
    forall (prow : list xq) (bt : xq), nth_error (t_a t) tr = Some prow -> nth_error (t_b t) tr = Some bt ->
    (h < n)%nat -> xval (nthx prow h) <> 0 ->
    0 < xval (nthx prow h) -> 0 <= xval bt ->
    (forall i r bi, nth_error (t_a t) i = Some r -> nth_error (t_b t) i = Some bi ->
       0 <= xval bi /\ (0 < xval (nthx r h) -> xval bt / xval (nthx prow h) <= xval bi / xval (nthx r h))) ->
    forall i bi', nth_error (t_b (pivot t tr h)) i = Some bi' -> 0 <= xval bi'.
Proof. exact pivot_feasible. Qed.

(* the objective of the basic solution never gets worse *)
Theorem C14_pivot_monotone :
  forall (t : tableau) (n tr h : nat) (x : list R), twf t n -> List.length x = n ->
    forall (prow : list xq) (bt : xq), nth_error (t_a t) tr = Some prow -> nth_error (t_b t) tr = Some bt ->
    (h < n)%nat -> xval (nthx prow h) <> 0 ->
    0 <= xval bt -> 0 < xval (nthx prow h) -> xval (nthx (t_c t) h) <= 0 ->
    - xval (t_value (pivot t tr h)) <= - xval (t_value t).
Proof. exact pivot_monotone. Qed.

(* when the method stops (all reduced costs non-negative), no non-negative solution is better than -value *)
Theorem C14_finished_optimal :
  forall t n x, twf t n -> List.length x = n -> sat t x ->
    Forall (fun c => 0 <= xval c) (t_c t) -> Forall (fun v => 0 <= v) x -> - xval (t_value t) <= objective t x.
Proof. exact finished_optimal. Qed.

Print Assumptions C14_pivot_equiv.
Print Assumptions C14_every_prefix.
Print Assumptions C14_pivot_feasible.
Print Assumptions C14_pivot_monotone.
Print Assumptions C14_finished_optimal.
