(* C14 - Every simplex step preserves equivalence, feasibility and monotonicity.
   Statements, `exact`, Print Assumptions only.  Termination within the iteration limit (anti-cycling of the
   hybrid Dantzig/Bland rule) is NOT proved; it is exercised as a test over histories (DESIGN.md C14). *)
From Coq Require Import QArith Reals List String.
From Rooc Require Import Base.XQ Model.Exp Model.Bounds Model.Linearize Model.Spec Model.Standardize Model.Tableau
  Proof.PivotSound Proof.TableauStart.
Import ListNotations.
Local Close Scope Q_scope.
Local Open Scope R_scope.

(* one pivot on a non-zero element: the equation system keeps exactly the same solutions *)
Theorem C14_pivot_equiv :
  forall (t : tableau) (n tr h : nat) (x : list R), twf t n -> List.length x = n ->
    forall (prow : list xq) (bt : xq), nth_error (t_a t) tr = Some prow -> nth_error (t_b t) tr = Some bt ->
    (h < n)%nat -> xval (nthx prow h) <> 0 -> (sat t x <-> sat (pivot t tr h) x).
Proof. exact pivot_equiv. Qed.

(* the objective row stays consistent *)
Theorem C14_pivot_cost :
  forall (t : tableau) (n tr h : nat) (x : list R), twf t n -> List.length x = n ->
    forall (prow : list xq) (bt : xq), nth_error (t_a t) tr = Some prow -> nth_error (t_b t) tr = Some bt ->
    (h < n)%nat -> xval (nthx prow h) <> 0 -> sat t x -> objective (pivot t tr h) x = objective t x.
Proof. exact pivot_cost. Qed.

(* along every sequence of pivots (every prefix of every trace): same solutions, same objective, still well-formed *)
Theorem C14_every_prefix :
  forall steps t n x, twf t n -> List.length x = n -> pivots_ok t n steps ->
    (sat t x <-> sat (run_pivots t steps) x) /\
    (sat t x -> objective (run_pivots t steps) x = objective t x) /\
    twf (run_pivots t steps) n.
Proof. exact pivots_equiv. Qed.

(* the ratio test keeps the basic solution non-negative *)
Theorem C14_pivot_feasible :
  forall (t : tableau) (n tr h : nat) (x : list R), twf t n -> List.length x = n ->
    forall (prow : list xq) (bt : xq), nth_error (t_a t) tr = Some prow -> nth_error (t_b t) tr = Some bt ->
    (h < n)%nat -> xval (nthx prow h) <> 0 ->
    0 < xval (nthx prow h) -> 0 <= xval bt ->
    (forall i r bi, nth_error (t_a t) i = Some r -> nth_error (t_b t) i = Some bi ->
       0 <= xval bi /\ (0 < xval (nthx r h) -> xval bt / xval (nthx prow h) <= xval bi / xval (nthx r h))) ->
    forall i bi', nth_error (t_b (pivot t tr h)) i = Some bi' -> 0 <= xval bi'.
Proof. exact pivot_feasible. Qed.

(* the objective of the basic solution never gets worse *)
Theorem C14_pivot_monotone :
  forall (t : tableau) (n tr h : nat) (x : list R), twf t n -> List.length x = n ->
    forall (prow : list xq) (bt : xq), nth_error (t_a t) tr = Some prow -> nth_error (t_b t) tr = Some bt ->
    (h < n)%nat -> xval (nthx prow h) <> 0 ->
    0 <= xval bt -> 0 < xval (nthx prow h) -> xval (nthx (t_c t) h) <= 0 ->
    - xval (t_value (pivot t tr h)) <= - xval (t_value t).
Proof. exact pivot_monotone. Qed.

(* when the method stops (all reduced costs non-negative), no non-negative solution is better than -value *)
Theorem C14_finished_optimal :
  forall t n x, twf t n -> List.length x = n -> sat t x ->
    Forall (fun c => 0 <= xval c) (t_c t) -> Forall (fun v => 0 <= v) x -> - xval (t_value t) <= objective t x.
Proof. exact finished_optimal. Qed.

(* the direct start of into_tableau: every column it makes basic is a unit column - its entry in its row is positive and
   every other entry is exactly zero (the repair of F56); with the solver's 1e-5 tolerance in that test the statement is
   false, witness: max x + y, 0.000004x + y <= 1, x <= 100000 *)
Theorem C14_direct_start_takes_unit_columns :
  forall (s : stdmodel) (row col : nat) (v : xq), In (row, col, v) (independent_vars s) ->
    exists c, nth_error (sm_cons s) row = Some c /\ v = nthx (eq_coeffs c) col /\ f_gt v x0 = true /\
      forall row' c', nth_error (sm_cons s) row' = Some c' -> row' <> row -> xq_is_zero (nthx (eq_coeffs c') col) = true.
Proof. exact independent_vars_unit_column. Qed.
Theorem C14_tolerant_unit_column_test_refuted :
  exists s row col v, In (row, col, v) (independent_vars_tolerant s) /\
    exists row' c', nth_error (sm_cons s) row' = Some c' /\ row' <> row /\ xq_is_zero (nthx (eq_coeffs c') col) = false.
Proof. exact independent_vars_tolerant_refuted. Qed.

(* ---- the absolute tolerance inside the pivoting rules (findings F59 / F59b): on badly scaled tableaux the model of the
   code - like the code - loses feasibility in one step, and stops at a point that is not optimal *)
Theorem C14_tolerant_ratio_test_refuted :
  exists t, all_nonneg (t_b t) = true /\
    exists t' h tr, step_inner t [] false = SPivot t' h tr /\ existsb (fun b => xq_ltb b (Fin (-8)%Q)) (t_b t') = true.
Proof. exact tolerant_ratio_test_loses_feasibility_refuted. Qed.
Theorem C14_tolerant_optimality_test_refuted :
  exists t x, all_nonneg (t_b t) = true /\ is_optimal t = true /\
    xsat t x = true /\ all_nonneg x = true /\ xq_ltb (xdot (t_c t) x) (Fin (-49)%Q) = true /\ t_value t = Fin 0%Q.
Proof. exact tolerant_optimality_test_refuted. Qed.

(* finding F57: the phase-one verdict of the two-phase start accepts a residual below 1e-5 *)
Theorem C14_two_phase_accepts_near_infeasible_refuted :
  exists s, (exists t, into_tableau s = inr t) /\
    sm_cons s = [mkEQ [Fin 1%Q; Fin 1%Q; Fin 1%Q; Fin 0%Q] (Fin 1%Q); mkEQ [Fin 1%Q; Fin 1%Q; Fin 0%Q; Fin (-1)%Q] (Fin (1000005 # 1000000)%Q)] /\
    forall a b s1 s2 : Q, (0 <= a -> 0 <= b -> 0 <= s1 -> 0 <= s2 -> ~ (a + b + s1 == 1 /\ a + b - s2 == 1000005 # 1000000))%Q.
Proof. exact two_phase_accepts_infeasible_refuted. Qed.

Print Assumptions C14_pivot_equiv.
Print Assumptions C14_two_phase_accepts_near_infeasible_refuted.
Print Assumptions C14_tolerant_ratio_test_refuted.
Print Assumptions C14_tolerant_optimality_test_refuted.
Print Assumptions C14_direct_start_takes_unit_columns.
Print Assumptions C14_tolerant_unit_column_test_refuted.
Print Assumptions C14_every_prefix.
Print Assumptions C14_pivot_feasible.
Print Assumptions C14_pivot_monotone.
Print Assumptions C14_finished_optimal.
