(* C07 - Derived variable ranges are sound.  Only statements, `exact`, and Print Assumptions. *)
From Coq Require Import QArith Reals List String.
From Rooc Require Import Base.XQ Model.Exp Model.Sem Model.Bounds Model.Linearize Model.Spec
  Proof.BoundsOfSound Proof.PropagateSound Proof.PublishSound Proof.PublishedCompile Proof.ShrinkSound.
Import ListNotations.
Local Close Scope Q_scope.

(* every range the compiler derives for a sub-expression contains that sub-expression's value at every
   real assignment inside the variable ranges *)
Theorem C07_bounds_of_sound :
  forall (a : astate) (rho : string -> R) (e : exp) (v : R),
    box_sound a rho -> ev rho e = Some v -> in_b (bounds_of a e) v.
Proof. exact bounds_of_sound. Qed.

(* bound propagation: every real assignment satisfying the declared domains and all constraints lies in the
   derived box - for any step limit (incl. stopping at it), for infeasible models, with infinite declared ranges *)
Theorem C07_analyze_sound :
  forall (dom : list (string * vtype)) (cs : list constr) (max_steps : nat) (rho : string -> R),
    feasible dom cs rho -> box_sound (analyze_with dom cs max_steps) rho.
Proof. exact analyze_with_sound. Qed.

(* publication: every range published in a compiled linear model for a declared variable contains the value
   that variable takes in every assignment satisfying the source model (integer rounding included) *)
Theorem C07_published_sound :
  forall (m : model) (L : linmodel) (rho : string -> R),
    compile m = inr L -> wf_domain m -> sat_model m rho ->
    forall n d t, In (n, d) (m_domain m) -> al_get (lm_domain L) n = Some t -> in_dom t (rho n).
Proof. exact published_sound. Qed.

Check C07_bounds_of_sound : forall (a : astate) (rho : string -> R) (e : exp) (v : R),
    box_sound a rho -> ev rho e = Some v -> in_b (bounds_of a e) v.
Check C07_analyze_sound : forall (dom : list (string * vtype)) (cs : list constr) (max_steps : nat) (rho : string -> R),
    feasible dom cs rho -> box_sound (analyze_with dom cs max_steps) rho.
Check C07_published_sound : forall (m : model) (L : linmodel) (rho : string -> R),
    compile m = inr L -> wf_domain m -> sat_model m rho ->
    forall n d t, In (n, d) (m_domain m) -> al_get (lm_domain L) n = Some t -> in_dom t (rho n).

(* the other inclusion: the analysis only ever shrinks the boxes it starts from, so the published (tightened) type of a
   declared variable lies inside its declared type (decl_ok: declared bounds are not NaN, integer ranges fit i32) *)
Theorem C07_published_inside_declared :
  forall (dom : list (string * vtype)) (cs : list constr) (n : string) (t : vtype) (x : R),
    NoDup (map fst dom) -> (forall k t', In (k, t') dom -> decl_ok t') -> In (n, t) dom ->
    in_dom (tighten_type (analyze dom cs) n t) x -> in_dom t x.
Proof. exact published_inside_declared. Qed.

Print Assumptions C07_bounds_of_sound.
Print Assumptions C07_published_inside_declared.
Print Assumptions C07_analyze_sound.
Print Assumptions C07_published_sound.
