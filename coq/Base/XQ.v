(* XQ: the number model.  Exact rationals plus the three IEEE-754 special values.
   Faithful to f64 on infinities and NaN, exact (no rounding) on finite values,
   -0.0 identified with 0.  See DESIGN.md section 2.2. *)
From Coq Require Import QArith Qabs Qminmax Qround ZArith Bool List Lia.
Import ListNotations.
Local Open Scope Q_scope.

Inductive xq := Fin (q : Q) | PInf | NInf | NaN.

Definition qn (q : Q) : Q := Qred q.

Definition q_ltb (a b : Q) : bool := negb (Qle_bool b a).
Definition q_leb (a b : Q) : bool := Qle_bool a b.
Definition q_eqb (a b : Q) : bool := Qeq_bool a b.

Definition q_min (a b : Q) : Q := if q_leb a b then a else b.
Definition q_max (a b : Q) : Q := if q_leb a b then b else a.
Definition q_abs (a : Q) : Q := if q_leb 0 a then a else Qopp a.

Definition xq_neg (a : xq) : xq :=
  match a with Fin q => Fin (qn (- q)) | PInf => NInf | NInf => PInf | NaN => NaN end.

Definition xq_add (a b : xq) : xq :=
  match a, b with
  | NaN, _ | _, NaN => NaN
  | Fin x, Fin y => Fin (qn (x + y))
  | PInf, NInf | NInf, PInf => NaN
  | PInf, _ | _, PInf => PInf
  | NInf, _ | _, NInf => NInf
  end.

Definition xq_sub (a b : xq) : xq := xq_add a (xq_neg b).

(* sign of a finite rational: -1, 0, 1 *)
Definition q_sgn (q : Q) : Z := Z.sgn (Qnum q).

Definition xq_mul (a b : xq) : xq :=
  match a, b with
  | NaN, _ | _, NaN => NaN
  | Fin x, Fin y => Fin (qn (x * y))
  | Fin x, PInf | PInf, Fin x =>
      match q_sgn x with Z0 => NaN | Zpos _ => PInf | Zneg _ => NInf end
  | Fin x, NInf | NInf, Fin x =>
      match q_sgn x with Z0 => NaN | Zpos _ => NInf | Zneg _ => PInf end
  | PInf, PInf | NInf, NInf => PInf
  | PInf, NInf | NInf, PInf => NInf
  end.

(* x / y as IEEE defines it, with -0.0 identified with +0.0 (every Rust site that
   divides by a possibly-zero value guards it; the model keeps the arm anyway). *)
Definition xq_div (a b : xq) : xq :=
  match a, b with
  | NaN, _ | _, NaN => NaN
  | Fin x, Fin y =>
      if q_eqb y 0 then
        match q_sgn x with Z0 => NaN | Zpos _ => PInf | Zneg _ => NInf end
      else Fin (qn (x / y))
  | Fin _, PInf | Fin _, NInf => Fin 0
  | PInf, Fin y => match q_sgn y with Zneg _ => NInf | _ => PInf end
  | NInf, Fin y => match q_sgn y with Zneg _ => PInf | _ => NInf end
  | _, _ => NaN
  end.

Definition xq_abs (a : xq) : xq :=
  match a with Fin q => Fin (q_abs q) | PInf | NInf => PInf | NaN => NaN end.

Definition xq_ltb (a b : xq) : bool :=
  match a, b with
  | NaN, _ | _, NaN => false
  | Fin x, Fin y => q_ltb x y
  | NInf, NInf => false | NInf, _ => true
  | _, NInf => false
  | PInf, _ => false
  | Fin _, PInf => true
  end.

Definition xq_eqb (a b : xq) : bool :=
  match a, b with
  | Fin x, Fin y => q_eqb x y
  | PInf, PInf | NInf, NInf => true
  | _, _ => false
  end.

Definition xq_leb (a b : xq) : bool := xq_ltb a b || xq_eqb a b.
Definition xq_gtb (a b : xq) : bool := xq_ltb b a.
Definition xq_geb (a b : xq) : bool := xq_leb b a.

(* f64::min / f64::max: a NaN operand is ignored *)
Definition xq_min (a b : xq) : xq :=
  match a, b with
  | NaN, _ => b | _, NaN => a
  | _, _ => if xq_leb a b then a else b
  end.
Definition xq_max (a b : xq) : xq :=
  match a, b with
  | NaN, _ => b | _, NaN => a
  | _, _ => if xq_leb a b then b else a
  end.

Definition xq_is_nan (a : xq) : bool := match a with NaN => true | _ => false end.
Definition xq_is_finite (a : xq) : bool := match a with Fin _ => true | _ => false end.
Definition xq_is_infinite (a : xq) : bool := match a with PInf | NInf => true | _ => false end.
Definition xq_is_zero (a : xq) : bool := xq_eqb a (Fin 0).
Definition xq_is_one (a : xq) : bool := xq_eqb a (Fin 1).

Definition xq_floor (a : xq) : xq := match a with Fin q => Fin (inject_Z (Qfloor q)) | _ => a end.
Definition xq_ceil (a : xq) : xq := match a with Fin q => Fin (inject_Z (Qceiling q)) | _ => a end.

Definition xq_of_Z (z : Z) : xq := Fin (inject_Z z).

(* `x as i32`: truncation toward zero, saturating, NaN -> 0 *)
Definition i32_min : Z := (-2147483648)%Z.
Definition i32_max : Z := 2147483647%Z.
Definition q_trunc (q : Q) : Z := if q_leb 0 q then Qfloor q else Qceiling q.
Definition xq_as_i32 (a : xq) : Z :=
  match a with
  | NaN => 0%Z
  | PInf => i32_max
  | NInf => i32_min
  | Fin q => Z.max i32_min (Z.min i32_max (q_trunc q))
  end.

(* tolerant comparisons of math_utils.rs, precision p decimal digits *)
Definition tol_of (p : nat) : Q := 1 # (Pos.of_nat (Nat.pow 10 p)).

Section Tolerant.
  Variable eps : Q.
  Definition xq_float_eq (a b : xq) : bool :=
    (* (a - b).abs() < eps ; NaN and inf-inf compare false ; inf - fin = inf, not < eps *)
    match xq_abs (xq_sub a b) with Fin d => q_ltb d eps | _ => false end.
  Definition xq_float_lt (a b : xq) : bool := xq_ltb a b && negb (xq_float_eq a b).
  Definition xq_float_gt (a b : xq) : bool := xq_gtb a b && negb (xq_float_eq a b).
  Definition xq_float_le (a b : xq) : bool := xq_ltb a b || xq_float_eq a b.
  Definition xq_float_ge (a b : xq) : bool := xq_gtb a b || xq_float_eq a b.
End Tolerant.

(* comparison used by the correspondence check: relative 1e-9 on finite values *)
Definition q_close (a b : Q) : bool :=
  let d := q_abs (a - b) in
  let m := q_max 1 (q_max (q_abs a) (q_abs b)) in
  q_leb d (m * (1 # 1000000000)).
Definition xq_close (a b : xq) : bool :=
  match a, b with
  | Fin x, Fin y => q_close x y
  | PInf, PInf | NInf, NInf | NaN, NaN => true
  | _, _ => false
  end.

(* exact decoding of an f64 printed by the harness as mantissa * 2^exponent *)
Definition F (m e : Z) : xq :=
  Fin (qn (if (0 <=? e)%Z then inject_Z (m * 2 ^ e) else (m # (Z.to_pos (2 ^ (- e)))))).

Arguments qn : simpl never.
Arguments q_ltb : simpl never.
Arguments q_leb : simpl never.
Arguments q_eqb : simpl never.
Arguments q_abs : simpl never.
Arguments q_min : simpl never.
Arguments q_max : simpl never.
Arguments q_sgn : simpl never.
