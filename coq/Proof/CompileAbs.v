(* C01 / C02 end to end beyond the affine fragment: models whose constraints and objective are built from
   + - * / (by constants), unary minus and abs(.), with abs nested to any depth.  Here the linearizer creates
   auxiliary variables ($abs_k, $abs_k_positive), pushes big-M rows back into its queue and relies on the bound
   analysis; the theorem is therefore a genuine projection statement: the feasible set of the compiled linear model,
   projected on the declared variables, is the feasible set of the source model.

   The fragment is delimited by a decidable trace condition (trace_ok): every constraint the main loop takes from its
   queue - source constraints and the rows the abs arm pushes back - goes down the arithmetic path (not an assertion,
   not taken by the logic-constraint test) and, once rewritten by flatten/simplify, contains only arithmetic and abs
   nodes over declared names.  The condition is evaluated on every tied model by the correspondence check. *)
From Coq Require Import QArith Qreals Reals ZArith Bool List String Lra Lia Permutation Sorting.Sorted.
From Rooc Require Import Base.XQ Model.Exp Model.Sem Model.Flatten Model.Simplify Model.Bounds Model.Linearize Model.Spec
  Proof.XQFacts Proof.SemFacts Proof.AListFacts Proof.IntervalSound Proof.BoundsOfSound Proof.AffineSound Proof.LinAffine
  Proof.LinFrame Proof.WellFormed Proof.SimplifyMain Proof.FlattenSound Proof.PropagateSound Proof.PublishSound
  Proof.PublishedCompile Proof.TightenSound Proof.ShrinkSound Proof.ArmLemmas Proof.CompileAffine.
Import ListNotations.
Local Close Scope Q_scope.
Local Open Scope R_scope.
Local Open Scope list_scope.

(* ---------- the expression fragment *)
Fixpoint okexp (e : exp) : bool :=
  match e with
  | Num _ | Var _ => true
  | BinOp (Add | Sub | Mul | Div) a b => okexp a && okexp b
  | UnOp Neg x => okexp x
  | Abs x => okexp x
  | _ => false
  end.
Fixpoint xvars (e : exp) : list string :=
  match e with
  | Var n => [n]
  | BinOp _ a b => xvars a ++ xvars b
  | UnOp _ x | Abs x => xvars x
  | _ => []
  end.
(* source expressions: total (no division by zero, finite literals) *)
Fixpoint plainA (e : exp) : bool :=
  match e with
  | Num (Fin _) => true
  | Var _ => true
  | BinOp Add a b | BinOp Sub a b | BinOp Mul a b => plainA a && plainA b
  | BinOp Div a (Num (Fin q)) => plainA a && negb (q_eqb q 0)
  | UnOp Neg x => plainA x
  | Abs x => plainA x
  | _ => false
  end.

Lemma plainA_okexp : forall e, plainA e = true -> okexp e = true.
Proof.
  induction e; cbn [plainA okexp]; intros H; try discriminate; try reflexivity.
  - exact (IHe H).
  - destruct op; try discriminate.
    + apply andb_true_iff in H as [H1 H2]. rewrite IHe1, IHe2 by assumption. reflexivity.
    + apply andb_true_iff in H as [H1 H2]. rewrite IHe1, IHe2 by assumption. reflexivity.
    + apply andb_true_iff in H as [H1 H2]. rewrite IHe1, IHe2 by assumption. reflexivity.
    + destruct e2; try discriminate. destruct x; try discriminate. apply andb_true_iff in H as [H1 H2].
      rewrite IHe1 by assumption. reflexivity.
  - destruct op; try discriminate. exact (IHe H).
Qed.

Lemma plainA_total rho : forall e, plainA e = true -> exists v, evT rho e = Some v /\ ev rho e = Some v.
Proof.
  induction e; cbn [plainA]; intros H; try discriminate.
  - destruct x; try discriminate. eexists. split; reflexivity.
  - eexists. split; reflexivity.
  - destruct (IHe H) as [a [Ta Ea]]. exists (Rabs a). unfold evT, ev in *. rewrite !evg_Abs, Ta, Ea. split; reflexivity.
  - destruct op; try discriminate.
    + apply andb_true_iff in H as [H1 H2]. destruct (IHe1 H1) as [a [Ta Ea]]. destruct (IHe2 H2) as [b [Tb Eb]].
      exists (a + b). unfold evT, ev in *. rewrite !evg_BinOp, Ta, Tb, Ea, Eb. split; reflexivity.
    + apply andb_true_iff in H as [H1 H2]. destruct (IHe1 H1) as [a [Ta Ea]]. destruct (IHe2 H2) as [b [Tb Eb]].
      exists (a - b). unfold evT, ev in *. rewrite !evg_BinOp, Ta, Tb, Ea, Eb. split; reflexivity.
    + apply andb_true_iff in H as [H1 H2]. destruct (IHe1 H1) as [a [Ta Ea]]. destruct (IHe2 H2) as [b [Tb Eb]].
      exists (a * b). unfold evT, ev in *. rewrite !evg_BinOp, Ta, Tb, Ea, Eb. split; reflexivity.
    + destruct e2; try discriminate. destruct x; try discriminate. apply andb_true_iff in H as [H1 H2].
      destruct (IHe1 H1) as [a [Ta Ea]]. apply negb_true_iff in H2. apply q_eqb_false in H2. rewrite Q2R_0 in H2.
      exists (a / Q2R q). unfold evT, ev in *. rewrite !evg_BinOp, Ta, Ea. cbn [evg ev_binop].
      destruct (Req_EM_T (Q2R q) 0) as [Z|Z]; [contradiction|]. split; reflexivity.
  - destruct op; try discriminate. destruct (IHe H) as [a [Ta Ea]]. exists (- a). unfold evT, ev in *.
    cbn [evg]. rewrite Ta, Ea. split; reflexivity.
Qed.

(* the value depends on the listed variables only *)
Lemma ev_agree rho sigma : forall e, okexp e = true -> (forall n, In n (xvars e) -> rho n = sigma n) -> ev rho e = ev sigma e.
Proof.
  induction e; cbn [okexp xvars]; intros H A; try discriminate.
  - reflexivity.
  - unfold ev. cbn [evg]. rewrite (A s (or_introl eq_refl)). reflexivity.
  - unfold ev in *. rewrite !evg_Abs, (IHe H A). reflexivity.
  - assert (H12 : okexp e1 = true /\ okexp e2 = true) by (destruct op; try discriminate; apply andb_true_iff in H; exact H).
    destruct H12 as [H1 H2]. unfold ev in *. rewrite !evg_BinOp.
    rewrite (IHe1 H1) by (intros n Hn; apply A; apply in_or_app; left; exact Hn).
    rewrite (IHe2 H2) by (intros n Hn; apply A; apply in_or_app; right; exact Hn).
    destruct (evg sigma false e1); [|reflexivity]. destruct (evg sigma false e2); [|reflexivity].
    destruct op; try discriminate; reflexivity.
  - destruct op; try discriminate. unfold ev in *. rewrite !evg_Neg, (IHe H A). reflexivity.
Qed.

Definition tot (e : exp) : Prop := forall sigma, exists v, ev sigma e = Some v.
Lemma tot_binop op a b : tot (BinOp op a b) -> tot a /\ tot b.
Proof.
  intros H. split; intros sigma; destruct (H sigma) as [v Hv]; unfold ev in *; rewrite evg_BinOp in Hv.
  - destruct (evg sigma false a) as [x|]; [eauto|discriminate].
  - destruct (evg sigma false a) as [x|]; [|discriminate]. destruct (evg sigma false b) as [y|]; [eauto|discriminate].
Qed.
Lemma tot_neg x : tot (UnOp Neg x) -> tot x.
Proof. intros H sigma. destruct (H sigma) as [v Hv]. unfold ev in *. rewrite evg_Neg in Hv. destruct (evg sigma false x); [eauto|discriminate]. Qed.
Lemma tot_abs x : tot (Abs x) -> tot x.
Proof. intros H sigma. destruct (H sigma) as [v Hv]. unfold ev in *. rewrite evg_Abs in Hv. destruct (evg sigma false x); [eauto|discriminate]. Qed.

(* ---------- bounds_of is sound as soon as the box is right on the variables of the expression *)
Lemma bounds_of_on a rho : forall e v, okexp e = true ->
  (forall n, In n (xvars e) -> in_b (a_get a n) (rho n)) -> ev rho e = Some v -> in_b (bounds_of a e) v.
Proof.
  unfold ev. induction e; cbn [okexp xvars]; intros v H A Hv; try discriminate.
  - apply evg_Num_inv in Hv as [q [-> ->]]. apply in_b_singleton.
  - cbn in Hv. inversion Hv; subst. cbn [bounds_of]. apply A. left. reflexivity.
  - rewrite evg_Abs in Hv. destruct (evg rho false e) as [w|] eqn:E; [|discriminate]. inversion Hv; subst.
    cbn [bounds_of]. apply b_abs_sound. apply IHe; [exact H|exact A|reflexivity].
  - assert (H12 : okexp e1 = true /\ okexp e2 = true) by (destruct op; try discriminate; apply andb_true_iff in H; exact H).
    destruct H12 as [H1 H2].
    rewrite evg_BinOp in Hv. destruct (evg rho false e1) as [x|] eqn:E1; [|discriminate].
    destruct (evg rho false e2) as [y|] eqn:E2; [|discriminate].
    assert (B1 : in_b (bounds_of a e1) x) by (apply IHe1; [exact H1|intros n Hn; apply A; apply in_or_app; left; exact Hn|reflexivity]).
    assert (B2 : in_b (bounds_of a e2) y) by (apply IHe2; [exact H2|intros n Hn; apply A; apply in_or_app; right; exact Hn|reflexivity]).
    destruct op; try discriminate; cbn [operand_ok negb orb andb ev_binop] in Hv.
    + inversion Hv; subst. cbn [bounds_of]. apply b_add_sound; assumption.
    + inversion Hv; subst. cbn [bounds_of]. apply b_sub_sound; assumption.
    + inversion Hv; subst. cbn [bounds_of].
      destruct e1; try (destruct e2; cbn [bounds_of]; try apply in_b_unbounded;
                        apply evg_Num_inv in E2 as [q [-> ->]]; apply b_scale_sound; exact B1).
      apply evg_Num_inv in E1 as [q [-> ->]]. rewrite Rmult_comm. cbn [bounds_of]. apply b_scale_sound. exact B2.
    + destruct (Req_EM_T y 0) as [Z|NZ]; [discriminate|]. inversion Hv; subst. cbn [bounds_of].
      destruct e2; try apply in_b_unbounded.
      apply evg_Num_inv in E2 as [q [-> ->]].
      destruct (xq_is_zero (Fin q)) eqn:Zq; [apply in_b_unbounded|].
      apply b_div_by_sound; assumption.
  - destruct op; try discriminate. rewrite evg_Neg in Hv. destruct (evg rho false e) as [w|] eqn:E; [|discriminate].
    inversion Hv; subst. cbn [bounds_of]. apply b_neg_sound. apply IHe; [exact H|exact A|reflexivity].
Qed.

(* ---------- what a linearization requirement promises *)
Definition rel (r : req) (cv v : R) : Prop :=
  match r with Exact => cv = v | PreferLower => cv >= v | PreferHigher => cv <= v end.
Lemma rel_eq r x : rel r x x.
Proof. destruct r; cbn; lra. Qed.
Lemma rel_add r x y vx vy : rel r x vx -> rel r y vy -> rel r (x + y) (vx + vy).
Proof. destruct r; cbn; lra. Qed.
Lemma rel_sub r x y vx vy : rel r x vx -> rel (req_reversed r) y vy -> rel r (x - y) (vx - vy).
Proof. destruct r; cbn; lra. Qed.
Lemma rel_neg r x vx : rel (req_reversed r) x vx -> rel r (- x) (- vx).
Proof. destruct r; cbn; lra. Qed.
Lemma rel_scale r q x vx : Q2R q <> 0 -> rel (through_scale r (Fin q)) x vx -> rel r (Q2R q * x) (Q2R q * vx).
Proof.
  intros NZ. unfold through_scale. cbn [xq_ltb]. destruct (q_ltb q 0) eqn:L.
  - apply q_ltb_true in L. rewrite Q2R_0 in L. destruct r; cbn; intros H; try (subst; reflexivity); nra.
  - apply q_ltb_false in L. rewrite Q2R_0 in L. destruct r; cbn; intros H; try (subst; reflexivity); nra.
Qed.

(* ---------- assignments *)
Definition updR (sigma : string -> R) (k : string) (x : R) : string -> R :=
  fun n => if String.eqb n k then x else sigma n.
Lemma updR_same sigma k x : updR sigma k x k = x.
Proof. unfold updR. rewrite String.eqb_refl. reflexivity. Qed.
Lemma updR_other sigma k x n : n <> k -> updR sigma k x n = sigma n.
Proof. intros H. unfold updR. apply String.eqb_neq in H. rewrite H. reflexivity. Qed.

Lemma cs_val_agree rho sigma : forall l, (forall n, In n (map fst l) -> rho n = sigma n) -> cs_val rho l = cs_val sigma l.
Proof.
  induction l as [|[n c] l IH]; intros A; [reflexivity|]. cbn [cs_val]. rewrite (A n (or_introl eq_refl)).
  rewrite IH by (intros k Hk; apply A; right; exact Hk). reflexivity.
Qed.
Lemma ctx_val_agree rho sigma c : (forall n, In n (ckeys c) -> rho n = sigma n) -> ctx_val rho c = ctx_val sigma c.
Proof. intros A. unfold ctx_val. rewrite (cs_val_agree rho sigma _ A). reflexivity. Qed.

(* ---------- what a linearizer state means, and when it is well formed *)
Definition mrow_holds (sigma : string -> R) (r : midrow) : Prop :=
  cmp_holds (r_cmp r) (cs_val sigma (r_lhs r)) (cval (r_rhs r)).
Definition dom_sat (D : list (string * dvar)) (sigma : string -> R) : Prop :=
  forall n d, In (n, d) D -> in_dom (dv_type d) (sigma n).
Definition st_sat (s : lst) (sigma : string -> R) : Prop :=
  (forall c, In c (s_queue s) -> sat_constr sigma c) /\
  (forall r, In r (s_rows s) -> mrow_holds sigma r) /\
  dom_sat (s_dom s) sigma.

Definition cgood (K : list string) (c : constr) : Prop :=
  c_assert c = false /\ plainA (c_lhs c) = true /\ plainA (c_rhs c) = true /\
  incl (xvars (c_lhs c)) K /\ incl (xvars (c_rhs c)) K.
Definition rgood (K : list string) (r : midrow) : Prop :=
  NoDup (map fst (r_lhs r)) /\ incl (map fst (r_lhs r)) K /\ cs_fin (r_lhs r) /\ fin (r_rhs r).
Definition dom_box (s : lst) : Prop :=
  forall sigma, dom_sat (s_dom s) sigma -> forall n, In n (keys s) -> in_b (a_get (s_an s) n) (sigma n).
Record INV (s : lst) : Prop := mkINV {
  inv_nd : NoDup (keys s);
  inv_used : forall n d, In (n, d) (s_dom s) -> dv_used d = true;
  inv_q : Forall (cgood (keys s)) (s_queue s);
  inv_r : Forall (rgood (keys s)) (s_rows s);
  inv_box : dom_box s }.

Lemma cgood_mono K K' c : incl K K' -> cgood K c -> cgood K' c.
Proof. intros I [A [B [C [D E]]]]. repeat split; try assumption; intros k Hk; apply I; auto. Qed.
Lemma rgood_mono K K' r : incl K K' -> rgood K r -> rgood K' r.
Proof. intros I [A [B [C D]]]. repeat split; try assumption. intros k Hk; apply I; auto. Qed.
Lemma ctx_ok_mono K K' c : incl K K' -> ctx_ok K c -> ctx_ok K' c.
Proof. intros I [A B]. split; [exact A|]. intros k Hk; apply I; auto. Qed.

Lemma sat_constr_agree K rho sigma c : cgood K c -> (forall n, In n K -> rho n = sigma n) -> sat_constr rho c -> sat_constr sigma c.
Proof.
  intros [_ [Pl [Pr [Il Ir]]]] A [l [r [El [Er H]]]]. exists l, r.
  rewrite <- (ev_agree rho sigma _ (plainA_okexp _ Pl)) by (intros n Hn; apply A, Il, Hn).
  rewrite <- (ev_agree rho sigma _ (plainA_okexp _ Pr)) by (intros n Hn; apply A, Ir, Hn).
  auto.
Qed.
Lemma mrow_agree K rho sigma r : rgood K r -> (forall n, In n K -> rho n = sigma n) -> mrow_holds rho r -> mrow_holds sigma r.
Proof.
  intros [_ [I _]] A H. unfold mrow_holds in *. rewrite <- (cs_val_agree rho sigma) by (intros n Hn; apply A, I, Hn). exact H.
Qed.
Lemma dom_sat_agree D rho sigma : (forall n, In n (map fst D) -> rho n = sigma n) -> dom_sat D rho -> dom_sat D sigma.
Proof.
  intros A H n d Hin. rewrite <- A; [apply (H n d Hin)|]. apply in_map_iff. exists (n, d). split; [reflexivity|exact Hin].
Qed.
(* a well-formed state means the same thing to two assignments that agree on its names *)
Lemma st_sat_agree s rho sigma : INV s -> (forall n, In n (keys s) -> rho n = sigma n) -> st_sat s rho -> st_sat s sigma.
Proof.
  intros I A [Q [Rw D]]. split; [|split].
  - intros c Hc. eapply sat_constr_agree; [exact (proj1 (Forall_forall _ _) (inv_q s I) c Hc)|exact A|exact (Q c Hc)].
  - intros r Hr. eapply mrow_agree; [exact (proj1 (Forall_forall _ _) (inv_r s I) r Hr)|exact A|exact (Rw r Hr)].
  - eapply dom_sat_agree; [exact A|exact D].
Qed.

(* dropping what an action added *)
Definition grows (s s' : lst) : Prop :=
  ext s s' /\ s_rows s' = s_rows s /\ exists newq, s_queue s' = newq ++ s_queue s.
Lemma grows_refl s : grows s s.
Proof. split; [apply ext_refl|]. split; [reflexivity|]. exists []. reflexivity. Qed.
Lemma grows_trans a b c : grows a b -> grows b c -> grows a c.
Proof.
  intros [E1 [R1 [q1 Q1]]] [E2 [R2 [q2 Q2]]]. split; [eapply ext_trans; eassumption|]. split; [congruence|].
  exists (q2 ++ q1). rewrite Q2, Q1, app_assoc. reflexivity.
Qed.
Lemma ext_keys s s' : ext s s' -> incl (keys s) (keys s').
Proof. intros [[extra D] _ _] k Hk. unfold keys in *. rewrite D, map_app. apply in_or_app. left. exact Hk. Qed.
Lemma grows_keys s s' : grows s s' -> incl (keys s) (keys s').
Proof. intros [E _]. apply ext_keys. exact E. Qed.
Lemma st_sat_back s s' sigma : grows s s' -> st_sat s' sigma -> st_sat s sigma.
Proof.
  intros [[[extra D] _ _] [Rw [newq Q]]] [HQ [HR HD]]. split; [|split].
  - intros c Hc. apply HQ. rewrite Q. apply in_or_app. right. exact Hc.
  - intros r Hr. apply HR. rewrite Rw. exact Hr.
  - intros n d Hin. apply (HD n d). rewrite D. apply in_or_app. left. exact Hin.
Qed.

(* ---------- the primitive state changes *)
Definition set_cnt (s : lst) (cnt : list (string * N)) : lst := mkS (s_queue s) (s_rows s) cnt (s_dom s) (s_an s).
Definition decl (s : lst) (n : string) (t : vtype) : lst :=
  mkS (s_queue s) (s_rows s) (s_cnt s) (s_dom s ++ [(n, mkDV t true)]) (a_insert_variable (s_an s) n t).
Definition addc (s : lst) (c : constr) : lst := mkS (c :: s_queue s) (s_rows s) (s_cnt s) (s_dom s) (s_an s).

Lemma INV_set_cnt s cnt : INV s -> INV (set_cnt s cnt).
Proof. intros [A B C D E]. constructor; assumption. Qed.
Lemma grows_set_cnt s cnt : grows s (set_cnt s cnt).
Proof. split; [apply ext_same_dom; reflexivity|]. split; [reflexivity|]. exists []. reflexivity. Qed.
Lemma st_sat_set_cnt s cnt sigma : st_sat s sigma -> st_sat (set_cnt s cnt) sigma.
Proof. intros H. exact H. Qed.

Lemma keys_decl s n t : keys (decl s n t) = keys s ++ [n].
Proof. unfold keys, decl. cbn [s_dom]. rewrite map_app. reflexivity. Qed.
Lemma grows_decl s n t : al_mem (s_dom s) n = false -> grows s (decl s n t).
Proof.
  intros M. split; [|split; [reflexivity|exists []; reflexivity]].
  apply (pres_declare n t s tt). unfold declare_variable. rewrite M. reflexivity.
Qed.
Lemma INV_decl s n t : INV s -> al_mem (s_dom s) n = false -> INV (decl s n t).
Proof.
  intros [A B C D E] M. pose proof (grows_decl s n t M) as G. pose proof (grows_keys _ _ G) as IK.
  constructor.
  - destruct G as [[_ ND _] _]. apply ND. exact A.
  - intros k d Hin. unfold decl in Hin. cbn [s_dom] in Hin. apply in_app_or in Hin as [Hin|[Eq|[]]]; [exact (B k d Hin)|].
    inversion Eq; subst. reflexivity.
  - eapply Forall_impl; [|exact C]. intros c. apply cgood_mono. exact IK.
  - eapply Forall_impl; [|exact D]. intros r. apply rgood_mono. exact IK.
  - intros sigma HD k Hk. rewrite keys_decl in Hk. unfold decl in *. cbn [s_dom s_an] in *.
    destruct (String.eqb k n) eqn:Ek.
    + apply String.eqb_eq in Ek. subst k. unfold a_insert_variable. rewrite a_get_set_this.
      apply in_b_of_vtype. apply (HD n (mkDV t true)). apply in_or_app. right. left. reflexivity.
    + apply String.eqb_neq in Ek. unfold a_insert_variable. rewrite a_get_set_other by exact Ek.
      apply in_app_or in Hk as [Hk|[Hk|[]]]; [|congruence].
      apply E; [|exact Hk]. intros m d Hin. apply (HD m d). apply in_or_app. left. exact Hin.
Qed.
Lemma st_sat_decl s n t sigma x : INV s -> al_mem (s_dom s) n = false -> in_dom t x -> st_sat s sigma ->
  st_sat (decl s n t) (updR sigma n x) /\ forall k, In k (keys s) -> updR sigma n x k = sigma k.
Proof.
  intros I M Hx S. assert (NI : ~ In n (keys s)) by (apply al_mem_false_notin; exact M).
  assert (A : forall k, In k (keys s) -> sigma k = updR sigma n x k).
  { intros k Hk. rewrite updR_other; [reflexivity|]. intros ->. contradiction. }
  split; [|intros k Hk; symmetry; apply A; exact Hk].
  pose proof (st_sat_agree s sigma _ I A S) as [Q [Rw D]]. split; [exact Q|]. split; [exact Rw|].
  intros k d Hin. unfold decl in Hin. cbn [s_dom] in Hin. apply in_app_or in Hin as [Hin|[Eq|[]]]; [exact (D k d Hin)|].
  inversion Eq; subst. cbn [dv_type]. rewrite updR_same. exact Hx.
Qed.

Lemma grows_addc s c : grows s (addc s c).
Proof. split; [apply ext_same_dom; reflexivity|]. split; [reflexivity|]. exists [c]. reflexivity. Qed.
Lemma INV_addc s c : INV s -> cgood (keys s) c -> INV (addc s c).
Proof. intros [A B C D E] G. constructor; try assumption. constructor; assumption. Qed.
Lemma st_sat_addc s c sigma : st_sat s sigma -> sat_constr sigma c -> st_sat (addc s c) sigma.
Proof. intros [Q [Rw D]] H. split; [|split; assumption]. intros c' [<-|Hc]; [exact H|exact (Q c' Hc)]. Qed.

(* ---------- the specification of one call of Exp::linearize *)
Definition lin_spec (e : exp) (r : req) (s : lst) (c : lctx) (s' : lst) : Prop :=
  INV s' /\ grows s s' /\ ctx_ok (keys s') c /\ ctx_fin c /\
  (forall sigma v, st_sat s' sigma -> ev sigma e = Some v -> rel r (ctx_val sigma c) v) /\
  (forall rho v, st_sat s rho -> ev rho e = Some v ->
     exists sigma, (forall n, In n (keys s) -> sigma n = rho n) /\ st_sat s' sigma /\ ctx_val sigma c = v).

(* a leaf: nothing is emitted and the context has the expression's value *)
Lemma spec_leaf e r s c : INV s -> ctx_ok (keys s) c -> ctx_fin c ->
  (forall sigma v, ev sigma e = Some v -> ctx_val sigma c = v) -> lin_spec e r s c s.
Proof.
  intros I K F V. split; [exact I|]. split; [apply grows_refl|]. split; [exact K|]. split; [exact F|]. split.
  - intros sigma v _ Hv. rewrite (V sigma v Hv). apply rel_eq.
  - intros rho v S Hv. exists rho. split; [reflexivity|]. split; [exact S|apply V; exact Hv].
Qed.

(* one operand *)
Lemma spec_un e a r ra (f : lctx -> lctx) (g : R -> R) s la s1 :
  okexp a = true -> incl (xvars a) (keys s) ->
  (forall sigma v, st_sat s sigma -> ev sigma e = Some v -> exists x, ev sigma a = Some x /\ v = g x) ->
  (forall A x, ctx_ok A x -> ctx_ok A (f x)) ->
  (forall x, ctx_fin x -> ctx_fin (f x) /\ forall sigma, ctx_val sigma (f x) = g (ctx_val sigma x)) ->
  (forall x vx, rel ra x vx -> rel r (g x) (g vx)) ->
  lin_spec a ra s la s1 -> lin_spec e r s (f la) s1.
Proof.
  intros Oa Ia Hev Hok Hfin Hrel [I1 [G1 [K1 [F1 [S1 C1]]]]].
  destruct (Hfin la F1) as [Ff Vf].
  split; [exact I1|]. split; [exact G1|]. split; [apply Hok; exact K1|]. split; [exact Ff|]. split.
  - intros sigma v S Hv. destruct (Hev sigma v (st_sat_back _ _ _ G1 S) Hv) as [x [Ex ->]].
    rewrite Vf. apply Hrel. apply S1; assumption.
  - intros rho v S Hv. destruct (Hev rho v S Hv) as [x [Ex ->]].
    destruct (C1 rho x S Ex) as [sigma [A [S' V]]]. exists sigma. split; [exact A|]. split; [exact S'|].
    rewrite Vf, V. reflexivity.
Qed.

(* two operands, left to right *)
Lemma spec_bin e a b r ra rb (f : lctx -> lctx -> lctx) (g : R -> R -> R) s la s1 lb s2 :
  INV s -> okexp b = true -> incl (xvars b) (keys s) ->
  (forall sigma v, ev sigma e = Some v -> exists x y, ev sigma a = Some x /\ ev sigma b = Some y /\ v = g x y) ->
  (forall A x y, ctx_ok A x -> ctx_ok A y -> ctx_ok A (f x y)) ->
  (forall x y, ctx_fin x -> ctx_fin y -> ctx_fin (f x y) /\ forall sigma, ctx_val sigma (f x y) = g (ctx_val sigma x) (ctx_val sigma y)) ->
  (forall x y vx vy, rel ra x vx -> rel rb y vy -> rel r (g x y) (g vx vy)) ->
  lin_spec a ra s la s1 -> lin_spec b rb s1 lb s2 -> lin_spec e r s (f la lb) s2.
Proof.
  intros I Ob Ib Hev Hok Hfin Hrel [I1 [G1 [K1 [F1 [S1 C1]]]]] [I2 [G2 [K2 [F2 [S2 C2]]]]].
  destruct (Hfin la lb F1 F2) as [Ff Vf]. pose proof (grows_keys _ _ G1) as IK1. pose proof (grows_keys _ _ G2) as IK2.
  split; [exact I2|]. split; [eapply grows_trans; eassumption|].
  split; [apply Hok; [eapply ctx_ok_mono; [exact IK2|exact K1]|exact K2]|]. split; [exact Ff|]. split.
  - intros sigma v S Hv. destruct (Hev sigma v Hv) as [x [y [Ex [Ey ->]]]]. rewrite Vf. apply Hrel.
    + apply S1; [exact (st_sat_back _ _ _ G2 S)|exact Ex].
    + apply S2; assumption.
  - intros rho v S Hv. destruct (Hev rho v Hv) as [x [y [Ex [Ey ->]]]].
    destruct (C1 rho x S Ex) as [sg1 [A1 [S1' V1]]].
    assert (Ey1 : ev sg1 b = Some y).
    { rewrite <- Ey. apply ev_agree; [exact Ob|]. intros n Hn. apply A1, Ib, Hn. }
    destruct (C2 sg1 y S1' Ey1) as [sg2 [A2 [S2' V2]]]. exists sg2.
    split; [intros n Hn; rewrite A2 by (apply IK1; exact Hn); apply A1; exact Hn|]. split; [exact S2'|].
    rewrite Vf, V2. f_equal. rewrite <- V1. apply ctx_val_agree. intros n Hn. apply A2. destruct K1 as [_ K1]. apply K1. exact Hn.
Qed.

Lemma through_scale_div r q : Q2R q <> 0 ->
  through_scale r (xq_div (Fin 1%Q) (Fin q)) = through_scale r (Fin q).
Proof.
  intros NZ. unfold through_scale. f_equal.
  assert (Zq : q_eqb q 0 = false).
  { destruct (q_eqb q 0) eqn:E; [|reflexivity]. apply q_eqb_true in E. rewrite Q2R_0 in E. contradiction. }
  assert (Nq : ~ (q == 0)%Q) by (intro E; apply Qeq_bool_iff in E; unfold q_eqb in Zq; congruence).
  cbn [xq_div]. rewrite Zq. cbn [xq_ltb].
  destruct (q_ltb q 0) eqn:L.
  - apply q_ltb_true in L. rewrite Q2R_0 in L.
    destruct (q_ltb (qn (1 / q)) 0) eqn:L2; [reflexivity|]. apply q_ltb_false in L2.
    rewrite Q2R_0, Q2R_qn, Q2R_div, Q2R_1 in L2 by exact Nq. exfalso.
    assert (1 / Q2R q < 0) by (unfold Rdiv; rewrite Rmult_1_l; apply Rinv_lt_0_compat; exact L). lra.
  - apply q_ltb_false in L. rewrite Q2R_0 in L.
    destruct (q_ltb (qn (1 / q)) 0) eqn:L2; [|reflexivity]. apply q_ltb_true in L2.
    rewrite Q2R_0, Q2R_qn, Q2R_div, Q2R_1 in L2 by exact Nq. exfalso.
    assert (0 < 1 / Q2R q) by (unfold Rdiv; rewrite Rmult_1_l; apply Rinv_0_lt_compat; lra). lra.
Qed.

(* ---------- the expressions the abs arm pushes back into the queue *)
Lemma fold_ctx_plain : forall l e, cs_fin l -> plainA e = true ->
  plainA (fold_left (fun e p => BinOp Add e (BinOp Mul (Num (snd p)) (Var (fst p)))) l e) = true.
Proof.
  induction l as [|[n x] l IH]; intros e Hl He; cbn [fold_left fst snd]; [exact He|].
  inversion Hl as [|? ? Hx Hl']; subst. cbn [snd] in Hx. destruct (fin_inv _ Hx) as [q ->].
  apply IH; [exact Hl'|]. cbn [plainA]. rewrite He. reflexivity.
Qed.
Lemma plainA_ctx c : ctx_fin c -> plainA (context_to_exp c) = true.
Proof. intros [F1 F2]. destruct (fin_inv _ F2) as [k Ek]. unfold context_to_exp. rewrite Ek. apply fold_ctx_plain; [exact F1|reflexivity]. Qed.
Lemma fold_ctx_vars : forall l e,
  xvars (fold_left (fun e p => BinOp Add e (BinOp Mul (Num (snd p)) (Var (fst p)))) l e) = xvars e ++ map fst l.
Proof.
  induction l as [|[n x] l IH]; intros e; cbn [fold_left fst snd map]; [rewrite app_nil_r; reflexivity|].
  rewrite IH. cbn [xvars app]. rewrite <- app_assoc. reflexivity.
Qed.
Lemma xvars_ctx c : xvars (context_to_exp c) = ckeys c.
Proof. unfold context_to_exp, ckeys. rewrite fold_ctx_vars. reflexivity. Qed.

Lemma ev_var sigma n : ev sigma (Var n) = Some (sigma n).
Proof. reflexivity. Qed.
Lemma ev_neg sigma e t : ev sigma e = Some t -> ev sigma (UnOp Neg e) = Some (- t).
Proof. unfold ev. intros H. rewrite evg_Neg, H. reflexivity. Qed.
Lemma ev_bigm_lo sigma inner t k p : ev sigma inner = Some t ->
  ev sigma (sub_exp inner (mul_exp (Num (Fin k)) (sub_exp (Num (Fin 1%Q)) (Var p)))) = Some (t - Q2R k * (1 - sigma p)).
Proof.
  unfold ev, sub_exp, mul_exp. intros H. rewrite !evg_BinOp, H, !evg_Num_Fin, evg_Var. cbn [ev_binop]. rewrite Q2R_1. reflexivity.
Qed.
Lemma ev_bigm_hi sigma inner t k p : ev sigma inner = Some t ->
  ev sigma (add_exp (UnOp Neg inner) (mul_exp (Num (Fin k)) (Var p))) = Some (- t + Q2R k * sigma p).
Proof.
  unfold ev, add_exp, mul_exp. intros H. rewrite !evg_BinOp, evg_Neg, H, !evg_Num_Fin, evg_Var. cbn [ev_binop option_map]. reflexivity.
Qed.

Lemma from_var_one sigma n : ctx_fin (l_from_var n (Fin 1%Q)) /\ ctx_val sigma (l_from_var n (Fin 1%Q)) = sigma n.
Proof. destruct (from_var_sound sigma n 1%Q) as [F V]. split; [exact F|]. rewrite V, Q2R_1. lra. Qed.
Lemma from_var_ok A n m : In n A -> ctx_ok A (l_from_var n m).
Proof. intros H. unfold l_from_var. apply add_var_ok; [apply new_ok|exact H]. Qed.

Lemma abs_dom_ok ib t : in_b ib t ->
  in_dom (TNonNegativeReal (Fin 0%Q) (xq_max (xq_neg (lo ib)) (hi ib))) (Rabs t).
Proof.
  intros [B1 B2]. cbn [in_dom xq_le_R]. rewrite Q2R_0. pose proof (Rabs_pos t) as P. split; [exact P|]. split; [exact P|].
  apply xq_max_ub. unfold Rabs. destruct (Rcase_abs t) as [N|N]; [left; apply xq_neg_ge; exact B1|right; exact B2].
Qed.

Lemma not_geb0 q : xq_geb (Fin q) (Fin 0%Q) = false -> Q2R q < 0.
Proof.
  unfold xq_geb, xq_leb. cbn [xq_ltb xq_eqb]. intros H. apply orb_false_iff in H as [H1 H2].
  apply q_ltb_false in H1. apply q_eqb_false in H2. rewrite Q2R_0 in *. lra.
Qed.
Lemma not_leb0 q : xq_leb (Fin q) (Fin 0%Q) = false -> 0 < Q2R q.
Proof.
  unfold xq_leb. cbn [xq_ltb xq_eqb]. intros H. apply orb_false_iff in H as [H1 H2].
  apply q_ltb_false in H1. apply q_eqb_false in H2. rewrite Q2R_0 in *. lra.
Qed.

Section AbsArm.
  Variables (x : exp) (s0 s1 : lst) (inner_c : lctx) (cnt : list (string * N)) (v : string).
  Let ib := bounds_of (s_an s0) x.
  Let inner := context_to_exp inner_c.
  Let T := TNonNegativeReal (Fin 0%Q) (xq_max (xq_neg (lo ib)) (hi ib)).
  Let c1 := mk_c (Var v) Ge inner.
  Let c2 := mk_c (Var v) Ge (UnOp Neg inner).
  Let sA := addc (addc (decl (set_cnt s1 cnt) v T) c1) c2.
  Hypothesis Ox : okexp x = true.
  Hypothesis I0 : INV s0.
  Hypothesis Ix : incl (xvars x) (keys s0).
  Hypothesis Sx : lin_spec x Exact s0 inner_c s1.
  Hypothesis Mv : al_mem (s_dom s1) v = false.

  Lemma abs_bounds sigma t : st_sat s0 sigma -> ev sigma x = Some t -> in_b ib t.
  Proof.
    intros [_ [_ D]] Hv. apply (bounds_of_on (s_an s0) sigma x t Ox); [|exact Hv].
    intros n Hn. apply (inv_box s0 I0 sigma D). apply Ix. exact Hn.
  Qed.

  Lemma abs_core :
    INV sA /\ grows s1 sA /\ In v (keys sA) /\ incl (keys s1) (keys sA) /\
    (forall sigma t, st_sat sA sigma -> ev sigma x = Some t ->
       sigma v >= t /\ sigma v >= - t /\ in_b ib t /\ ev sigma inner = Some t) /\
    (forall rho t, st_sat s0 rho -> ev rho x = Some t ->
       exists sigma, (forall n, In n (keys s0) -> sigma n = rho n) /\ st_sat sA sigma /\ sigma v = Rabs t /\
                     ev sigma inner = Some t /\ in_b ib t).
  Proof.
    destruct Sx as [I1 [G1 [K1 [F1 [S1 C1]]]]].
    set (sB := decl (set_cnt s1 cnt) v T).
    assert (IB : INV sB) by (apply INV_decl; [apply INV_set_cnt; exact I1|exact Mv]).
    assert (GB : grows s1 sB) by (eapply grows_trans; [apply grows_set_cnt|apply grows_decl; exact Mv]).
    assert (KB : keys sB = keys s1 ++ [v]) by (unfold sB; rewrite keys_decl; reflexivity).
    assert (Hv : In v (keys sB)) by (rewrite KB; apply in_or_app; right; left; reflexivity).
    assert (Hin : incl (ckeys inner_c) (keys sB)) by (intros k Hk; rewrite KB; apply in_or_app; left; destruct K1 as [_ K1]; apply K1; exact Hk).
    assert (Pin : plainA inner = true) by (apply plainA_ctx; exact F1).
    assert (G1c : cgood (keys sB) c1).
    { unfold c1, mk_c, cgood. cbn [c_assert c_lhs c_rhs plainA xvars]. repeat split; try assumption; try reflexivity.
      - intros k [<-|[]]. exact Hv.
      - unfold inner. rewrite xvars_ctx. exact Hin. }
    assert (G2c : cgood (keys sB) c2).
    { unfold c2, mk_c, cgood. cbn [c_assert c_lhs c_rhs plainA xvars]. repeat split; try assumption; try reflexivity.
      - intros k [<-|[]]. exact Hv.
      - unfold inner. rewrite xvars_ctx. exact Hin. }
    assert (IA : INV sA) by (apply INV_addc; [apply INV_addc; [exact IB|exact G1c]|exact G2c]).
    assert (GA : grows s1 sA) by (eapply grows_trans; [exact GB|eapply grows_trans; apply grows_addc]).
    split; [exact IA|]. split; [exact GA|]. split; [exact Hv|]. split; [apply grows_keys; exact GA|]. split.
    - intros sigma t S Hx.
      assert (S1s : st_sat s1 sigma) by (exact (st_sat_back _ _ _ GA S)).
      assert (S0s : st_sat s0 sigma) by (exact (st_sat_back _ _ _ G1 S1s)).
      pose proof (S1 sigma t S1s Hx) as Ht. cbn [rel] in Ht.
      assert (Ei : ev sigma inner = Some t) by (unfold inner; rewrite (context_to_exp_sound sigma inner_c F1), Ht; reflexivity).
      destruct S as [Q _].
      destruct (Q c1) as [l [r [El [Er H]]]]; [right; left; reflexivity|].
      destruct (Q c2) as [l2 [r2 [El2 [Er2 H2]]]]; [left; reflexivity|].
      unfold c1, c2, mk_c in *. cbn [c_lhs c_rhs c_cmp] in *. rewrite ev_var in El, El2. rewrite Ei in Er. rewrite (ev_neg _ _ _ Ei) in Er2.
      injection El as <-. injection Er as <-. injection El2 as <-. injection Er2 as <-. cbn [cmp_holds] in H, H2.
      split; [exact H|]. split; [exact H2|]. split; [exact (abs_bounds sigma t S0s Hx)|exact Ei].
    - intros rho t S Hx. destruct (C1 rho t S Hx) as [sg1 [A1 [S1' V1]]].
      pose proof (abs_bounds rho t S Hx) as Bt.
      destruct (st_sat_decl (set_cnt s1 cnt) v T sg1 (Rabs t) (INV_set_cnt _ _ I1) Mv (abs_dom_ok ib t Bt) S1') as [SB AB].
      set (sigma := updR sg1 v (Rabs t)) in *.
      assert (Ei : ev sigma inner = Some t).
      { unfold inner. rewrite (context_to_exp_sound sigma inner_c F1). f_equal. rewrite <- V1. apply ctx_val_agree.
        intros n Hn. apply AB. destruct K1 as [_ K1]. apply K1. exact Hn. }
      assert (Ev : sigma v = Rabs t) by (unfold sigma; apply updR_same).
      destruct (abs_onesided_tight t) as [T1 T2].
      exists sigma. split; [intros n Hn; rewrite AB by (apply (grows_keys _ _ G1); exact Hn); apply A1; exact Hn|].
      split; [|split; [exact Ev|split; [exact Ei|exact Bt]]].
      apply st_sat_addc; [apply st_sat_addc; [exact SB|]|].
      + exists (sigma v), t. unfold c1, mk_c. cbn [c_lhs c_rhs c_cmp cmp_holds]. split; [rewrite ev_var; reflexivity|]. rewrite Ev. split; [exact Ei|exact T1].
      + exists (sigma v), (- t). unfold c2, mk_c. cbn [c_lhs c_rhs c_cmp cmp_holds]. split; [rewrite ev_var; reflexivity|]. rewrite Ev, (ev_neg _ _ _ Ei). split; [reflexivity|exact T2].
  Qed.
End AbsArm.

Lemma ev_abs_inv sigma x v : ev sigma (Abs x) = Some v -> exists t, ev sigma x = Some t /\ v = Rabs t.
Proof. unfold ev. rewrite evg_Abs. destruct (evg sigma false x) as [t|]; [|discriminate]. intros H. inversion H. eauto. Qed.
Lemma Q2R_two_mul q : Q2R (qn (2 * q)) = 2 * Q2R q.
Proof. rewrite Q2R_qn, Q2R_mult. replace (Q2R 2) with 2 by (unfold Q2R; cbn; lra). reflexivity. Qed.

Section AbsArm2.
  Variables (x : exp) (s0 s1 : lst) (inner_c : lctx) (cnt : list (string * N)) (v : string).
  Let ib := bounds_of (s_an s0) x.
  Let inner := context_to_exp inner_c.
  Let T := TNonNegativeReal (Fin 0%Q) (xq_max (xq_neg (lo ib)) (hi ib)).
  Let c1 := mk_c (Var v) Ge inner.
  Let c2 := mk_c (Var v) Ge (UnOp Neg inner).
  Let sA := addc (addc (decl (set_cnt s1 cnt) v T) c1) c2.
  Hypothesis Ox : okexp x = true.
  Hypothesis I0 : INV s0.
  Hypothesis Ix : incl (xvars x) (keys s0).
  Hypothesis Sx : lin_spec x Exact s0 inner_c s1.
  Hypothesis Mv : al_mem (s_dom s1) v = false.

  (* one-sided: v >= t, v >= -t *)
  Lemma abs_lower : lin_spec (Abs x) PreferLower s0 (l_from_var v (Fin 1%Q)) sA.
  Proof.
    destruct (abs_core x s0 s1 inner_c cnt v Ox I0 Ix Sx Mv) as [IA [GA [HvA [IKA [SA CA]]]]].
    fold ib inner T c1 c2 sA in IA, GA, HvA, IKA, SA, CA.
    destruct Sx as [I1 [G1 _]].
    split; [exact IA|]. split; [eapply grows_trans; eassumption|]. split; [apply from_var_ok; exact HvA|].
    split; [exact (proj1 (from_var_one (fun _ => 0) v))|]. split.
    - intros sigma v0 S Hv. destruct (ev_abs_inv _ _ _ Hv) as [t [Et ->]].
      destruct (SA sigma t S Et) as [H1 [H2 _]]. rewrite (proj2 (from_var_one sigma v)). cbn [rel].
      apply abs_onesided_relax; assumption.
    - intros rho v0 S Hv. destruct (ev_abs_inv _ _ _ Hv) as [t [Et ->]].
      destruct (CA rho t S Et) as [sigma [A [S' [Ev _]]]]. exists sigma. split; [exact A|]. split; [exact S'|].
      rewrite (proj2 (from_var_one sigma v)). exact Ev.
  Qed.

  (* exact: the big-M pair with the selector p *)
  Variables (p : string) (ql qh : Q).
  Hypothesis Elo : lo ib = Fin ql.
  Hypothesis Ehi : hi ib = Fin qh.
  Hypothesis Nlo : xq_geb (lo ib) (Fin 0%Q) = false.
  Hypothesis Nhi : xq_leb (hi ib) (Fin 0%Q) = false.
  Hypothesis Mp : al_mem (s_dom sA) p = false.
  Let c3 := mk_c (Var v) Le (sub_exp inner (mul_exp (Num (xq_mul (Fin 2%Q) (lo ib))) (sub_exp (Num (Fin 1%Q)) (Var p)))).
  Let c4 := mk_c (Var v) Le (add_exp (UnOp Neg inner) (mul_exp (Num (xq_mul (Fin 2%Q) (hi ib))) (Var p))).
  Let sE := addc (addc (decl sA p TBoolean) c3) c4.

  Lemma abs_exact r : lin_spec (Abs x) r s0 (l_from_var v (Fin 1%Q)) sE.
  Proof.
    destruct (abs_core x s0 s1 inner_c cnt v Ox I0 Ix Sx Mv) as [IA [GA [HvA [IKA [SA CA]]]]].
    fold ib inner T c1 c2 sA in IA, GA, HvA, IKA, SA, CA.
    destruct Sx as [I1 [G1 [K1 [F1 _]]]].
    assert (Llo : Q2R ql < 0) by (apply not_geb0; rewrite <- Elo; exact Nlo).
    assert (Lhi : 0 < Q2R qh) by (apply not_leb0; rewrite <- Ehi; exact Nhi).
    set (sP := decl sA p TBoolean).
    assert (IP : INV sP) by (apply INV_decl; assumption).
    assert (GP : grows sA sP) by (apply grows_decl; exact Mp).
    assert (KP : keys sP = keys sA ++ [p]) by (unfold sP; rewrite keys_decl; reflexivity).
    assert (HvP : In v (keys sP)) by (rewrite KP; apply in_or_app; left; exact HvA).
    assert (HpP : In p (keys sP)) by (rewrite KP; apply in_or_app; right; left; reflexivity).
    assert (Hin : incl (ckeys inner_c) (keys sP)).
    { intros k Hk. rewrite KP. apply in_or_app. left. apply IKA. destruct K1 as [_ K1]. apply K1. exact Hk. }
    assert (Pin : plainA inner = true) by (apply plainA_ctx; exact F1).
    assert (G3 : cgood (keys sP) c3).
    { unfold c3, mk_c, cgood, sub_exp, mul_exp. rewrite Elo. cbn [xq_mul c_assert c_lhs c_rhs plainA xvars]. rewrite Pin.
      repeat split; try reflexivity.
      - intros k [<-|[]]. exact HvP.
      - intros k Hk. apply in_app_or in Hk as [Hk|Hk]; [unfold inner in Hk; rewrite xvars_ctx in Hk; apply Hin; exact Hk|].
        cbn in Hk. destruct Hk as [<-|[]]. exact HpP. }
    assert (G4 : cgood (keys sP) c4).
    { unfold c4, mk_c, cgood, add_exp, mul_exp. rewrite Ehi. cbn [xq_mul c_assert c_lhs c_rhs plainA xvars]. rewrite Pin.
      repeat split; try reflexivity.
      - intros k [<-|[]]. exact HvP.
      - intros k Hk. apply in_app_or in Hk as [Hk|Hk]; [unfold inner in Hk; rewrite xvars_ctx in Hk; apply Hin; exact Hk|].
        cbn in Hk. destruct Hk as [<-|[]]. exact HpP. }
    assert (IE : INV sE) by (apply INV_addc; [apply INV_addc; [exact IP|exact G3]|exact G4]).
    assert (GE : grows sA sE) by (eapply grows_trans; [exact GP|eapply grows_trans; apply grows_addc]).
    split; [exact IE|]. split; [eapply grows_trans; [exact G1|eapply grows_trans; [exact GA|exact GE]]|].
    split; [apply from_var_ok; exact HvP|]. split; [exact (proj1 (from_var_one (fun _ => 0) v))|]. split.
    - intros sigma v0 S Hv. destruct (ev_abs_inv _ _ _ Hv) as [t [Et ->]].
      destruct (SA sigma t (st_sat_back _ _ _ GE S) Et) as [H1 [H2 [[B1 B2] Ei]]].
      rewrite Elo in B1. rewrite Ehi in B2. cbn [xq_le_R R_le_xq] in B1, B2.
      destruct S as [Q [_ D]].
      assert (Bp : bin (sigma p)).
      { apply (D p (mkDV TBoolean true)). unfold sE, addc, sP, decl. cbn [s_dom]. apply in_or_app. right. left. reflexivity. }
      destruct (Q c3) as [l3 [r3 [El3 [Er3 H3]]]]; [right; left; reflexivity|].
      destruct (Q c4) as [l4 [r4 [El4 [Er4 H4]]]]; [left; reflexivity|].
      unfold c3, c4, mk_c in *. cbn [c_lhs c_rhs c_cmp] in *. rewrite ev_var in El3, El4.
      rewrite Elo in Er3. rewrite Ehi in Er4. cbn [xq_mul] in Er3, Er4.
      rewrite (ev_bigm_lo _ _ _ _ _ Ei) in Er3. rewrite (ev_bigm_hi _ _ _ _ _ Ei) in Er4.
      injection El3 as <-. injection Er3 as <-. injection El4 as <-. injection Er4 as <-.
      cbn [cmp_holds] in H3, H4. rewrite Q2R_two_mul in H3, H4.
      rewrite (proj2 (from_var_one sigma v)).
      assert (E : sigma v = Rabs t).
      { apply (abs_exact_relax t (sigma v) (sigma p) (Q2R ql) (Q2R qh)); try assumption; try lra. }
      rewrite E. apply rel_eq.
    - intros rho v0 S Hv. destruct (ev_abs_inv _ _ _ Hv) as [t [Et ->]].
      destruct (CA rho t S Et) as [sgA [A [SA' [Ev [Ei [B1 B2]]]]]].
      rewrite Elo in B1. rewrite Ehi in B2. cbn [xq_le_R R_le_xq] in B1, B2.
      destruct (abs_exact_tight t (Q2R ql) (Q2R qh)) as [pv [Bp [_ [_ [T3 [T4 _]]]]]]; [split; assumption|lra|lra|].
      destruct (st_sat_decl sA p TBoolean sgA pv IA Mp Bp SA') as [SP AP].
      set (sigma := updR sgA p pv) in *.
      assert (Evs : sigma v = Rabs t) by (rewrite AP by exact HvA; exact Ev).
      assert (Eis : ev sigma inner = Some t).
      { rewrite <- Ei. apply ev_agree; [apply plainA_okexp; exact Pin|]. intros n Hn. unfold inner in Hn. rewrite xvars_ctx in Hn.
        apply AP. apply IKA. destruct K1 as [_ K1]. apply K1. exact Hn. }
      assert (Eps : sigma p = pv) by (unfold sigma; apply updR_same).
      exists sigma. split; [intros n Hn; rewrite AP by (apply IKA; apply (grows_keys _ _ G1); exact Hn); apply A; exact Hn|].
      split; [|rewrite (proj2 (from_var_one sigma v)); exact Evs].
      apply st_sat_addc; [apply st_sat_addc; [exact SP|]|].
      + eexists _, _. unfold c3, mk_c. cbn [c_lhs c_rhs c_cmp]. rewrite Elo. cbn [xq_mul].
        split; [apply ev_var|]. split; [apply ev_bigm_lo; exact Eis|]. cbn [cmp_holds]. rewrite Q2R_two_mul, Evs, Eps. lra.
      + eexists _, _. unfold c4, mk_c. cbn [c_lhs c_rhs c_cmp]. rewrite Ehi. cbn [xq_mul].
        split; [apply ev_var|]. split; [apply ev_bigm_hi; exact Eis|]. cbn [cmp_holds]. rewrite Q2R_two_mul, Evs, Eps. lra.
  Qed.
End AbsArm2.

Lemma rel_div r q x vx : Q2R q <> 0 -> rel (through_scale r (Fin q)) x vx -> rel r (x / Q2R q) (vx / Q2R q).
Proof.
  intros NZ. unfold through_scale, Rdiv. cbn [xq_ltb]. destruct (q_ltb q 0) eqn:L.
  - apply q_ltb_true in L. rewrite Q2R_0 in L. pose proof (Rinv_lt_0_compat _ L) as K.
    destruct r; cbn; intros H; try (subst; reflexivity); nra.
  - apply q_ltb_false in L. rewrite Q2R_0 in L. assert (P : 0 < Q2R q) by lra. pose proof (Rinv_0_lt_compat _ P) as K.
    destruct r; cbn; intros H; try (subst; reflexivity); nra.
Qed.
Lemma ev_binop_inv sigma op a b v : ev sigma (BinOp op a b) = Some v ->
  exists x y, ev sigma a = Some x /\ ev sigma b = Some y /\
    match op with BAnd | BOr => True | _ => ev_binop op x y = Some v end.
Proof.
  unfold ev. rewrite evg_BinOp. destruct (evg sigma false a) as [x|]; [|discriminate]. destruct (evg sigma false b) as [y|]; [|discriminate].
  intros H. exists x, y. split; [reflexivity|]. split; [reflexivity|]. destruct op; try exact H; exact I.
Qed.

Lemma ev_Num_inv sigma x v : ev sigma (Num x) = Some v -> exists q, x = Fin q /\ v = Q2R q.
Proof. apply evg_Num_inv. Qed.

Theorem lin_ok : forall n e r s c s', okexp e = true -> INV s -> incl (xvars e) (keys s) -> tot e ->
  lin n e r s = inr (c, s') -> lin_spec e r s c s'.
Proof.
  induction n as [|n IH]; intros e r s c s' Ok I Ix Tt H; [discriminate|].
  cbn [lin] in H. destruct e; cbn [okexp] in Ok; try discriminate; cbn [lin_step] in H.
  - (* Num *)
    inversion H; subst c s'; clear H. destruct (Tt (fun _ => 0)) as [v0 Hv0]. apply ev_Num_inv in Hv0 as [q [-> _]].
    apply spec_leaf; [exact I|unfold l_from_rhs; apply add_rhs_ok, new_ok|exact (proj1 (from_rhs_sound (fun _ => 0) q))|].
    intros sigma v Hv. apply ev_Num_inv in Hv as [q' [E ->]]. inversion E; subst q'. exact (proj2 (from_rhs_sound sigma q)).
  - (* Var *)
    inversion H; subst c s'; clear H.
    apply spec_leaf; [exact I|apply from_var_ok; apply Ix; left; reflexivity|exact (proj1 (from_var_one (fun _ => 0) s0))|].
    intros sigma v Hv. rewrite ev_var in Hv. inversion Hv; subst v. exact (proj2 (from_var_one sigma s0)).
  - (* Abs *)
    cbn [xvars] in Ix. pose proof (tot_abs _ Tt) as Tx.
    unfold bind at 1, get_st at 1 in H. cbv zeta in H.
    set (ib := bounds_of (s_an s) e) in *.
    assert (Bnd : forall sigma t, st_sat s sigma -> ev sigma e = Some t -> in_b ib t).
    { intros sigma t [_ [_ D]] Ht. apply (bounds_of_on (s_an s) sigma e t Ok); [|exact Ht].
      intros k Hk. apply (inv_box s I sigma D). apply Ix. exact Hk. }
    destruct (xq_geb (lo ib) (Fin 0%Q)) eqn:G1.
    { (* the argument is known to be non-negative *)
      pose proof (IH _ _ _ _ _ Ok I Ix Tx H) as Sp.
      apply (spec_un (Abs e) e r r (fun x => x) (fun x => x) s c s' Ok Ix); [| | | |exact Sp].
      - intros sigma v S Hv. destruct (ev_abs_inv _ _ _ Hv) as [t [Et ->]]. exists t. split; [exact Et|].
        destruct (Bnd sigma t S Et) as [B1 _]. apply Rabs_right. apply Rle_ge. exact (xq_geb_Fin0 _ _ G1 B1).
      - intros A x Hx. exact Hx.
      - intros x Fx. split; [exact Fx|reflexivity].
      - intros x vx Hr. exact Hr. }
    destruct (xq_leb (hi ib) (Fin 0%Q)) eqn:G2.
    { (* the argument is known to be non-positive *)
      unfold bind in H. destruct (lin n e (req_reversed r) s) as [er|[lv s1]] eqn:E1; [discriminate|].
      inversion H; subst c s'; clear H.
      pose proof (IH _ _ _ _ _ Ok I Ix Tx E1) as Sp.
      apply (spec_un (Abs e) e r (req_reversed r) (fun x => l_mul_by x (Fin (-1)%Q)) Ropp s lv s1 Ok Ix); [| | | |exact Sp].
      - intros sigma v S Hv. destruct (ev_abs_inv _ _ _ Hv) as [t [Et ->]]. exists t. split; [exact Et|].
        destruct (Bnd sigma t S Et) as [_ B2]. apply Rabs_left1. exact (xq_leb_Fin0 _ _ G2 B2).
      - intros A x Hx. apply mul_by_ok. exact Hx.
      - intros x Fx. split; [exact (proj1 (mul_by_sound (fun _ => 0) x (-1)%Q Fx))|].
        intros sigma. rewrite (proj2 (mul_by_sound sigma x (-1)%Q Fx)). replace (Q2R (-1)) with (-1) by (unfold Q2R; cbn; lra). lra.
      - intros x vx Hr. apply rel_neg. exact Hr. }
    (* the general case *)
    destruct ((match r with PreferLower => false | _ => true end) && (negb (xq_is_finite (lo ib)) || negb (xq_is_finite (hi ib)))) eqn:NE;
      [discriminate|].
    unfold bind at 1 in H. destruct (lin n e Exact s) as [er|[inner_c s1]] eqn:E1; [discriminate|].
    pose proof (IH _ _ _ _ _ Ok I Ix Tx E1) as Sp.
    cbv beta iota zeta delta [bind next_id declare_variable add_constraint ret] in H. cbn [s_dom s_queue s_rows s_cnt s_an] in H.
    match type of H with context [al_mem (s_dom s1) ?v] => set (vn := v) in *; destruct (al_mem (s_dom s1) vn) eqn:Mv; [destruct r; discriminate|] end.
    destruct r.
    + (* PreferLower: one-sided rows *)
      inversion H; subst c s'; clear H.
      exact (abs_lower e s s1 inner_c _ vn Ok I Ix Sp Mv).
    + (* PreferHigher: exact *)
      cbn [andb] in NE. apply orb_false_iff in NE as [N1 N2]. apply negb_false_iff in N1, N2.
      destruct (fin_inv _ N1) as [ql Elo]. destruct (fin_inv _ N2) as [qh Ehi].
      match type of H with context [al_mem ?d ?p] => set (pn := p) in *; destruct (al_mem d pn) eqn:Mp; [discriminate|] end.
      inversion H; subst c s'; clear H.
      exact (abs_exact e s s1 inner_c _ vn Ok I Ix Sp Mv pn ql qh Elo Ehi G1 G2 Mp PreferHigher).
    + (* Exact *)
      cbn [andb] in NE. apply orb_false_iff in NE as [N1 N2]. apply negb_false_iff in N1, N2.
      destruct (fin_inv _ N1) as [ql Elo]. destruct (fin_inv _ N2) as [qh Ehi].
      match type of H with context [al_mem ?d ?p] => set (pn := p) in *; destruct (al_mem d pn) eqn:Mp; [discriminate|] end.
      inversion H; subst c s'; clear H.
      exact (abs_exact e s s1 inner_c _ vn Ok I Ix Sp Mv pn ql qh Elo Ehi G1 G2 Mp Exact).
  - (* BinOp *)
    assert (O12 : okexp e1 = true /\ okexp e2 = true) by (destruct op; try discriminate; apply andb_true_iff in Ok; exact Ok).
    destruct O12 as [O1 O2]. destruct (tot_binop _ _ _ Tt) as [T1 T2]. cbn [xvars] in Ix.
    assert (Ix1 : incl (xvars e1) (keys s)) by (intros k Hk; apply Ix; apply in_or_app; left; exact Hk).
    assert (Ix2 : incl (xvars e2) (keys s)) by (intros k Hk; apply Ix; apply in_or_app; right; exact Hk).
    destruct op; try discriminate.
    + (* Add *)
      unfold bind in H. destruct (lin n e1 r s) as [er|[la s1]] eqn:E1; [discriminate|].
      destruct (lin n e2 r s1) as [er|[lb s2]] eqn:E2; [discriminate|]. inversion H; subst c s'; clear H.
      pose proof (IH _ _ _ _ _ O1 I Ix1 T1 E1) as Sp1. destruct Sp1 as [I1 [G1 Rest1]].
      pose proof (IH _ _ _ _ _ O2 I1 (fun k Hk => grows_keys _ _ G1 k (Ix2 k Hk)) T2 E2) as Sp2.
      apply (spec_bin (BinOp Add e1 e2) e1 e2 r r r l_merge_add Rplus s la s1 lb s2 I O2 Ix2); [| | | |exact (conj I1 (conj G1 Rest1))|exact Sp2].
      * intros sigma v Hv. destruct (ev_binop_inv _ _ _ _ _ Hv) as [x [y [Ex [Ey Hop]]]]. cbn in Hop. inversion Hop. eauto.
      * intros A x y. apply merge_add_ok.
      * intros x y Fx Fy. split; [exact (proj1 (merge_add_sound (fun _ => 0) x y Fx Fy))|intros sigma; exact (proj2 (merge_add_sound sigma x y Fx Fy))].
      * intros x y vx vy. apply rel_add.
    + (* Sub *)
      unfold bind in H. destruct (lin n e1 r s) as [er|[la s1]] eqn:E1; [discriminate|].
      destruct (lin n e2 (req_reversed r) s1) as [er|[lb s2]] eqn:E2; [discriminate|]. inversion H; subst c s'; clear H.
      pose proof (IH _ _ _ _ _ O1 I Ix1 T1 E1) as Sp1. destruct Sp1 as [I1 [G1 Rest1]].
      pose proof (IH _ _ _ _ _ O2 I1 (fun k Hk => grows_keys _ _ G1 k (Ix2 k Hk)) T2 E2) as Sp2.
      apply (spec_bin (BinOp Sub e1 e2) e1 e2 r r (req_reversed r) l_merge_sub Rminus s la s1 lb s2 I O2 Ix2); [| | | |exact (conj I1 (conj G1 Rest1))|exact Sp2].
      * intros sigma v Hv. destruct (ev_binop_inv _ _ _ _ _ Hv) as [x [y [Ex [Ey Hop]]]]. cbn in Hop. inversion Hop. eauto.
      * intros A x y. apply merge_sub_ok.
      * intros x y Fx Fy. split; [exact (proj1 (merge_sub_sound (fun _ => 0) x y Fx Fy))|intros sigma; exact (proj2 (merge_sub_sound sigma x y Fx Fy))].
      * intros x y vx vy. apply rel_sub.
    + (* Mul *)
      destruct (as_num e1) as [c1|] eqn:N1.
      * apply as_num_Some in N1; subst e1. destruct (T1 (fun _ => 0)) as [v0 Hv0]. apply ev_Num_inv in Hv0 as [q [-> _]].
        destruct (xq_is_zero (Fin q)) eqn:Z.
        -- inversion H; subst c s'; clear H. apply xq_is_zero_Fin in Z.
           apply spec_leaf; [exact I|unfold l_from_rhs; apply add_rhs_ok, new_ok|exact (proj1 (from_rhs_sound (fun _ => 0) 0%Q))|].
           intros sigma v Hv. destruct (ev_binop_inv _ _ _ _ _ Hv) as [x [y [Ex [Ey Hop]]]]. cbn in Hop. inversion Hop.
           apply ev_Num_inv in Ex as [q' [E ->]]. inversion E; subst q'. rewrite (proj2 (from_rhs_sound sigma 0%Q)), Q2R_0, Z. lra.
        -- apply xq_is_zero_Fin_false in Z. unfold bind in H.
           destruct (lin n e2 (through_scale r (Fin q)) s) as [er|[lv s1]] eqn:E2; [discriminate|]. inversion H; subst c s'; clear H.
           pose proof (IH _ _ _ _ _ O2 I Ix2 T2 E2) as Sp.
           apply (spec_un (BinOp Mul (Num (Fin q)) e2) e2 r (through_scale r (Fin q)) (fun x => l_mul_by x (Fin q)) (fun y => Q2R q * y) s lv s1 O2 Ix2); [| | | |exact Sp].
           ++ intros sigma v _ Hv. destruct (ev_binop_inv _ _ _ _ _ Hv) as [x [y [Ex [Ey Hop]]]]. cbn in Hop. inversion Hop.
              apply ev_Num_inv in Ex as [q' [E ->]]. inversion E; subst q'. eauto.
           ++ intros A x Hx. apply mul_by_ok. exact Hx.
           ++ intros x Fx. split; [exact (proj1 (mul_by_sound (fun _ => 0) x q Fx))|intros sigma; exact (proj2 (mul_by_sound sigma x q Fx))].
           ++ intros x vx. apply rel_scale. exact Z.
      * assert (Hstep : (match e2 with
                         | Num c0 => if xq_is_zero c0 then ret (l_from_rhs (Fin 0%Q))
                                     else bind (lin n e1 (through_scale r c0)) (fun v => ret (l_mul_by v c0))
                         | _ => fail ENonLinear end) s = inr (c, s')).
        { destruct e1; try exact H. cbn in N1. discriminate. }
        clear H. destruct e2; try discriminate.
        destruct (T2 (fun _ => 0)) as [v0 Hv0]. apply ev_Num_inv in Hv0 as [q [-> _]].
        destruct (xq_is_zero (Fin q)) eqn:Z.
        -- inversion Hstep; subst c s'; clear Hstep. apply xq_is_zero_Fin in Z.
           apply spec_leaf; [exact I|unfold l_from_rhs; apply add_rhs_ok, new_ok|exact (proj1 (from_rhs_sound (fun _ => 0) 0%Q))|].
           intros sigma v Hv. destruct (ev_binop_inv _ _ _ _ _ Hv) as [x [y [Ex [Ey Hop]]]]. cbn in Hop. inversion Hop.
           apply ev_Num_inv in Ey as [q' [E ->]]. inversion E; subst q'. rewrite (proj2 (from_rhs_sound sigma 0%Q)), Q2R_0, Z. lra.
        -- apply xq_is_zero_Fin_false in Z. unfold bind in Hstep.
           destruct (lin n e1 (through_scale r (Fin q)) s) as [er|[lv s1]] eqn:E1; [discriminate|]. inversion Hstep; subst c s'; clear Hstep.
           pose proof (IH _ _ _ _ _ O1 I Ix1 T1 E1) as Sp.
           apply (spec_un (BinOp Mul e1 (Num (Fin q))) e1 r (through_scale r (Fin q)) (fun x => l_mul_by x (Fin q)) (fun y => Q2R q * y) s lv s1 O1 Ix1); [| | | |exact Sp].
           ++ intros sigma v _ Hv. destruct (ev_binop_inv _ _ _ _ _ Hv) as [x [y [Ex [Ey Hop]]]]. cbn in Hop. inversion Hop.
              apply ev_Num_inv in Ey as [q' [E ->]]. inversion E; subst q'. exists x. split; [exact Ex|ring].
           ++ intros A x Hx. apply mul_by_ok. exact Hx.
           ++ intros x Fx. split; [exact (proj1 (mul_by_sound (fun _ => 0) x q Fx))|intros sigma; exact (proj2 (mul_by_sound sigma x q Fx))].
           ++ intros x vx. apply rel_scale. exact Z.
    + (* Div *)
      destruct e2; try discriminate.
      destruct (Tt (fun _ => 0)) as [v0 Hv0]. destruct (ev_binop_inv _ _ _ _ _ Hv0) as [x0 [y0 [Ex0 [Ey0 Hop0]]]].
      apply ev_Num_inv in Ey0 as [q [-> ->]]. cbn [ev_binop] in Hop0. destruct (Req_EM_T (Q2R q) 0) as [Zq|NZ]; [discriminate|]. clear Hop0 Ex0.
      destruct (xq_is_zero (Fin q)) eqn:Z; [discriminate|]. unfold bind in H.
      rewrite (through_scale_div r q NZ) in H.
      destruct (lin n e1 (through_scale r (Fin q)) s) as [er|[lv s1]] eqn:E1; [discriminate|]. inversion H; subst c s'; clear H.
      pose proof (IH _ _ _ _ _ O1 I Ix1 T1 E1) as Sp.
      apply (spec_un (BinOp Div e1 (Num (Fin q))) e1 r (through_scale r (Fin q)) (fun x => l_div_by x (Fin q)) (fun y => y / Q2R q) s lv s1 O1 Ix1); [| | | |exact Sp].
      * intros sigma v _ Hv. destruct (ev_binop_inv _ _ _ _ _ Hv) as [x [y [Ex [Ey Hop]]]].
        apply ev_Num_inv in Ey as [q' [E ->]]. inversion E; subst q'. cbn [ev_binop] in Hop.
        destruct (Req_EM_T (Q2R q) 0) as [Zq|_]; [contradiction|]. inversion Hop. eauto.
      * intros A x Hx. apply div_by_ok. exact Hx.
      * intros x Fx. split; [exact (proj1 (div_by_sound (fun _ => 0) x q Fx NZ))|intros sigma; exact (proj2 (div_by_sound sigma x q Fx NZ))].
      * intros x vx. apply rel_div. exact NZ.
  - (* UnOp Neg *)
    destruct op; [|discriminate]. cbn [xvars] in Ix. pose proof (tot_neg _ Tt) as Tx.
    unfold bind in H. destruct (lin n e (req_reversed r) s) as [er|[lv s1]] eqn:E1; [discriminate|]. inversion H; subst c s'; clear H.
    pose proof (IH _ _ _ _ _ Ok I Ix Tx E1) as Sp.
    apply (spec_un (UnOp Neg e) e r (req_reversed r) (fun x => l_mul_by x (Fin (-1)%Q)) Ropp s lv s1 Ok Ix); [| | | |exact Sp].
    + intros sigma v _ Hv. unfold ev in *. rewrite evg_Neg in Hv. destruct (evg sigma false e) as [t|]; [|discriminate]. inversion Hv. eauto.
    + intros A x Hx. apply mul_by_ok. exact Hx.
    + intros x Fx. split; [exact (proj1 (mul_by_sound (fun _ => 0) x (-1)%Q Fx))|].
      intros sigma. rewrite (proj2 (mul_by_sound sigma x (-1)%Q Fx)). replace (Q2R (-1)) with (-1) by (unfold Q2R; cbn; lra). lra.
    + intros x vx Hr. apply rel_neg. exact Hr.
Qed.

(* ---------- one step of the main loop on the arithmetic path *)
Definition step_ok (c : constr) (s : lst) : bool :=
  match fs_pure (c_lhs c), fs_pure (c_rhs c) with
  | Some l, Some r =>
      match try_normalize_logic_constraint s l (c_cmp c) r with
      | Some _ => false
      | None => match fs_pure (BinOp Sub l r) with
                | Some e => okexp e && forallb (set_mem (keys s)) (xvars e)
                | None => false
                end
      end
  | _, _ => false
  end.

Definition req_of_cmp (c : cmp) : req :=
  match c with Le | Lt => PreferLower | Ge | Gt => PreferHigher | Eq => Exact end.
Lemma row_back c X k a b : rel (req_of_cmp c) X (a - b) -> cmp_holds c (X - k) (- k) -> cmp_holds c a b.
Proof. destruct c; cbn; lra. Qed.
Lemma row_fwd c k a b : cmp_holds c a b -> cmp_holds c ((a - b) - k) (- k).
Proof. destruct c; cbn; lra. Qed.

Definition pushr (s : lst) (r : midrow) : lst := mkS (s_queue s) (s_rows s ++ [r]) (s_cnt s) (s_dom s) (s_an s).

Lemma process_ok c s u s' : INV s -> cgood (keys s) c -> step_ok c s = true -> process_constraint c s = inr (u, s') ->
  INV s' /\ ext s s' /\
  (forall sigma, st_sat s' sigma -> st_sat s sigma /\ sat_constr sigma c) /\
  (forall rho, st_sat s rho -> sat_constr rho c -> exists sigma, (forall n, In n (keys s) -> sigma n = rho n) /\ st_sat s' sigma).
Proof.
  intros I [NA [Pl [Pr [Il Ir]]]] SO H. unfold step_ok in SO.
  destruct (fs_pure (c_lhs c)) as [l|] eqn:Fl; [|discriminate]. destruct (fs_pure (c_rhs c)) as [r|] eqn:Fr; [|discriminate].
  destruct (try_normalize_logic_constraint s l (c_cmp c) r) eqn:TN; [discriminate|].
  destruct (fs_pure (BinOp Sub l r)) as [e|] eqn:Fe; [|discriminate]. apply andb_true_iff in SO as [Oe Ve].
  apply forallb_mem_incl in Ve.
  unfold process_constraint, bind in H. rewrite flatten_simplify_eq, Fl in H. rewrite flatten_simplify_eq, Fr in H.
  rewrite NA in H. unfold get_st in H. rewrite TN in H.
  unfold emit_constraint, bind in H. rewrite flatten_simplify_eq, Fe in H. unfold linearize_exp in H.
  fold (req_of_cmp (c_cmp c)) in H.
  match type of H with context [lin ?n e ?rq s] => destruct (lin n e rq s) as [er|[v s2]] eqn:EL; [discriminate|] end.
  unfold push_row in H. inversion H; subst s'; clear H.
  assert (Vals : forall sigma, exists a b, ev sigma (c_lhs c) = Some a /\ ev sigma (c_rhs c) = Some b /\ ev sigma e = Some (a - b)).
  { intros sigma. destruct (plainA_total sigma _ Pl) as [a [Ta Ea]]. destruct (plainA_total sigma _ Pr) as [b [Tb Eb]].
    exists a, b. split; [exact Ea|]. split; [exact Eb|].
    destruct (fs_pure_sound sigma _ _ _ Fl Ta) as [Tl _]. destruct (fs_pure_sound sigma _ _ _ Fr Tb) as [Tr _].
    assert (Ts : evT sigma (BinOp Sub l r) = Some (a - b)) by (unfold evT in *; rewrite evg_BinOp, Tl, Tr; reflexivity).
    exact (proj2 (fs_pure_sound sigma _ _ _ Fe Ts)). }
  assert (Te : tot e) by (intros sigma; destruct (Vals sigma) as [a [b [_ [_ E]]]]; eauto).
  destruct (lin_ok _ _ _ _ _ _ Oe I Ve Te EL) as [I2 [G2 [K2 [F2 [S2 C2]]]]].
  set (row := mkRow (c_name c) (l_vars v) (xq_neg (l_rhs v)) (c_cmp c)).
  change (mkS (s_queue s2) (s_rows s2 ++ [row]) (s_cnt s2) (s_dom s2) (s_an s2)) with (pushr s2 row).
  destruct F2 as [Fv Fr2]. destruct (fin_neg (l_rhs v) Fr2) as [Fn Vn].
  assert (Hrow : forall sigma, mrow_holds sigma row <-> cmp_holds (c_cmp c) (ctx_val sigma v - cval (l_rhs v)) (- cval (l_rhs v))).
  { intros sigma. unfold mrow_holds, row. cbn [r_cmp r_lhs r_rhs]. rewrite Vn. unfold ctx_val.
    replace (cs_val sigma (l_vars v) + cval (l_rhs v) - cval (l_rhs v)) with (cs_val sigma (l_vars v)) by lra. reflexivity. }
  split; [|split; [|split]].
  - destruct I2 as [A B C D E]. constructor; try assumption. cbn [pushr s_rows]. apply Forall_app. split; [exact D|].
    constructor; [|constructor]. unfold rgood, row. cbn [r_lhs r_rhs]. destruct K2 as [K2a K2b].
    split; [exact K2a|]. split; [exact K2b|]. split; [exact Fv|exact Fn].
  - destruct G2 as [E2 _]. eapply ext_trans; [exact E2|apply ext_same_dom; reflexivity].
  - intros sigma [Q [Rw D]].
    assert (S2s : st_sat s2 sigma).
    { split; [exact Q|]. split; [|exact D]. intros r0 Hr0. apply Rw. cbn [pushr s_rows]. apply in_or_app. left. exact Hr0. }
    split; [exact (st_sat_back _ _ _ G2 S2s)|].
    destruct (Vals sigma) as [a [b [Ea [Eb Ee]]]]. exists a, b. split; [exact Ea|]. split; [exact Eb|].
    assert (Hr : mrow_holds sigma row) by (apply Rw; cbn [pushr s_rows]; apply in_or_app; right; left; reflexivity).
    apply Hrow in Hr. eapply row_back; [exact (S2 sigma _ S2s Ee)|exact Hr].
  - intros rho S [a [b [Ea [Eb Hab]]]]. destruct (Vals rho) as [a' [b' [Ea' [Eb' Ee]]]].
    rewrite Ea in Ea'. rewrite Eb in Eb'. inversion Ea'; inversion Eb'; subst a' b'.
    destruct (C2 rho _ S Ee) as [sigma [A [S2' V]]]. exists sigma. split; [exact A|].
    destruct S2' as [Q [Rw D]]. split; [exact Q|]. split; [|exact D].
    intros r0 Hr0. cbn [pushr s_rows] in Hr0. apply in_app_or in Hr0 as [Hr0|[<-|[]]]; [exact (Rw r0 Hr0)|].
    apply Hrow. rewrite V. apply row_fwd. exact Hab.
Qed.

(* ---------- the main loop *)
Definition popq (s : lst) (rest : list constr) : lst := mkS rest (s_rows s) (s_cnt s) (s_dom s) (s_an s).
Fixpoint trace_ok (fuel : nat) (s : lst) : bool :=
  match fuel with
  | O => false
  | S fuel =>
    match s_queue s with
    | [] => true
    | c :: rest =>
        step_ok c (popq s rest) &&
        match process_constraint c (popq s rest) with
        | inr (_, s') => trace_ok fuel s'
        | inl _ => false
        end
    end
  end.

Lemma main_loop_ok : forall fuel s u s2, INV s -> trace_ok fuel s = true -> main_loop fuel s = inr (u, s2) ->
  INV s2 /\ ext s s2 /\ s_queue s2 = [] /\
  (forall sigma, st_sat s2 sigma -> st_sat s sigma) /\
  (forall rho, st_sat s rho -> exists sigma, (forall n, In n (keys s) -> sigma n = rho n) /\ st_sat s2 sigma).
Proof.
  induction fuel as [|fuel IH]; intros s u s2 I T H; [discriminate|].
  cbn [main_loop] in H. cbn [trace_ok] in T. destruct (s_queue s) as [|c rest] eqn:Q.
  - injection H as _ Es. subst s2. split; [exact I|]. split; [apply ext_refl|]. split; [exact Q|]. split; [auto|].
    intros rho S. exists rho. split; [reflexivity|exact S].
  - apply andb_true_iff in T as [SO T]. fold (popq s rest) in H.
    destruct (process_constraint c (popq s rest)) as [er|[u1 s1]] eqn:P; [discriminate|].
    assert (Ip : INV (popq s rest)).
    { destruct I as [A B C D E]. constructor; try assumption. cbn [popq s_queue]. rewrite Q in C. inversion C; assumption. }
    assert (Gc : cgood (keys (popq s rest)) c).
    { destruct I as [_ _ C _ _]. rewrite Q in C. inversion C; assumption. }
    destruct (process_ok c (popq s rest) u1 s1 Ip Gc SO P) as [I1 [E1 [S1 C1]]].
    destruct (IH s1 u s2 I1 T H) as [I2 [E2 [Q2 [S2 C2]]]].
    split; [exact I2|]. split; [eapply ext_trans; [|eapply ext_trans; [exact E1|exact E2]]; apply ext_same_dom; reflexivity|].
    split; [exact Q2|]. split.
    + intros sigma S. destruct (S1 sigma (S2 sigma S)) as [[Qp [Rp Dp]] Sc]. split; [|split; assumption].
      intros c' Hc'. rewrite Q in Hc'. destruct Hc' as [<-|Hc']; [exact Sc|exact (Qp c' Hc')].
    + intros rho [Qr [Rr Dr]].
      assert (Sp : st_sat (popq s rest) rho).
      { split; [|split; assumption]. intros c' Hc'. apply Qr. rewrite Q. right. exact Hc'. }
      assert (Hc : In c (s_queue s)) by (rewrite Q; left; reflexivity).
      destruct (C1 rho Sp (Qr c Hc)) as [sg1 [A1 S1']].
      destruct (C2 sg1 S1') as [sg2 [A2 S2']]. exists sg2. split; [|exact S2'].
      intros n Hn. rewrite A2 by (apply (ext_keys _ _ E1); exact Hn). apply A1. exact Hn.
Qed.

(* ---------- the initial state: the synchronised box is implied by the emitted (tightened) domains *)
Definition sync_step (a : astate) (p : string * vtype) : astate :=
  let degenerate := match al_get (a_vb a) (fst p) with Some b => b_degenerate b | None => false end in
  let reset := a_set_vb a (al_insert (a_vb a) (fst p) (b_of_vtype (snd p))) in
  if degenerate then reset else
  match snd p with
  | TBoolean | TIntegerRange _ _ => reset
  | _ => a
  end.
Lemma sync_is_fold a D : sync_with_domain a D = fold_left sync_step D a.
Proof. reflexivity. Qed.
Lemma sync_step_other a p n : n <> fst p -> al_get (a_vb (sync_step a p)) n = al_get (a_vb a) n.
Proof.
  intros Hn. unfold sync_step. cbv zeta.
  assert (R : al_get (a_vb (a_set_vb a (al_insert (a_vb a) (fst p) (b_of_vtype (snd p))))) n = al_get (a_vb a) n).
  { unfold a_set_vb. cbn [a_vb]. apply al_get_insert_other. exact Hn. }
  destruct (match al_get (a_vb a) (fst p) with Some b => b_degenerate b | None => false end); [exact R|].
  destruct (snd p); try exact R; reflexivity.
Qed.
Lemma sync_other : forall D a n, ~ In n (map fst D) -> al_get (a_vb (fold_left sync_step D a)) n = al_get (a_vb a) n.
Proof.
  induction D as [|p D IH]; intros a n Hn; cbn [fold_left]; [reflexivity|].
  rewrite IH by (intros K; apply Hn; right; exact K). apply sync_step_other. intros ->. apply Hn. left. reflexivity.
Qed.
Lemma sync_get : forall D a n t, NoDup (map fst D) -> In (n, t) D ->
  al_get (a_vb (fold_left sync_step D a)) n = al_get (a_vb (sync_step a (n, t))) n.
Proof.
  induction D as [|p D IH]; intros a n t ND Hin; [destruct Hin|]. cbn [map] in ND. inversion ND as [|? ? Np ND']; subst.
  cbn [fold_left]. destruct Hin as [->|Hin].
  - apply sync_other. exact Np.
  - assert (Hne : n <> fst p) by (intros ->; apply Np; apply in_map_iff; exists (fst p, t); split; [reflexivity|exact Hin]).
    rewrite (IH (sync_step a p) n t ND' Hin).
    unfold sync_step at 1 3. cbv zeta. cbn [fst snd]. rewrite (sync_step_other a p n Hne).
    assert (R : forall a1 a2, al_get (a_vb a1) n = al_get (a_vb a2) n ->
                al_get (a_vb (a_set_vb a1 (al_insert (a_vb a1) n (b_of_vtype t)))) n = al_get (a_vb (a_set_vb a2 (al_insert (a_vb a2) n (b_of_vtype t)))) n).
    { intros a1 a2 _. unfold a_set_vb. cbn [a_vb]. rewrite !al_get_insert_same. reflexivity. }
    pose proof (sync_step_other a p n Hne) as E.
    destruct (match al_get (a_vb a) n with Some b => b_degenerate b | None => false end); [apply R; exact E|].
    destruct t; try (apply R; exact E); exact E.
Qed.

Lemma tightened_in_box an n t0 v : nn (a_get an n) ->
  let t := tighten_type an n t0 in
  in_dom t v -> in_b (match al_get (a_vb (sync_step an (n, t))) n with Some b => b | None => b_unbounded end) v.
Proof.
  intros NN t Hv. unfold sync_step. cbv zeta. cbn [fst snd].
  assert (R : in_b (match al_get (a_vb (a_set_vb an (al_insert (a_vb an) n (b_of_vtype t)))) n with Some b => b | None => b_unbounded end) v).
  { unfold a_set_vb. cbn [a_vb]. rewrite al_get_insert_same. apply in_b_of_vtype. exact Hv. }
  destruct (al_get (a_vb an) n) as [b|] eqn:G.
  - destruct (b_degenerate b) eqn:Dg; [exact R|].
    assert (Et : t = tighten_type an n t0) by reflexivity. unfold tighten_type in Et. rewrite G, Dg in Et.
    destruct t as [|l u|l u|l u]; try exact R.
    + (* NonNegativeReal: the box is looser than the type *)
      rewrite G. destruct t0 as [|l0 u0|l0 u0|l0 u0]; try discriminate.
      * destruct (xq_gtb _ _); discriminate.
      * inversion Et; subst l u. destruct Hv as [H0 [H1 H2]]. split; [|exact H2].
        unfold a_get in NN. rewrite G in NN. destruct NN as [N1 _]. exact (xq_max_lo_inv _ _ _ N1 H1).
    + rewrite G. destruct t0 as [|l0 u0|l0 u0|l0 u0]; try discriminate.
      * destruct (xq_gtb _ _); discriminate.
      * inversion Et; subst l u. exact Hv.
  - destruct t; try exact R; rewrite G; apply in_b_unbounded.
Qed.

(* ---------- reading the linear model off the final state *)
Definition lm_of_state (s2 : lst) (lobj : lctx) (dir : direction) : linmodel :=
  let rows := dedup_names (s_rows s2) in
  let vars := sort_strings (map fst (filter (fun p => dv_used (snd p)) (s_dom s2))) in
  let domain := map (fun p => (fst p, dv_type (snd p))) (filter (fun p => set_mem vars (fst p)) (s_dom s2)) in
  mkLM vars domain
    (map (fun r => mkLRow (r_name r) (extract_coeffs (r_lhs r) vars) (r_cmp r) (r_rhs r)) rows)
    (extract_coeffs (l_vars lobj) vars) (l_rhs lobj) dir.

Lemma lm_of_state_sat s2 lobj dir sigma : INV s2 -> s_queue s2 = [] -> ctx_ok (keys s2) lobj ->
  (sat_linear (lm_of_state s2 lobj dir) sigma <-> st_sat s2 sigma) /\
  lin_objective (lm_of_state s2 lobj dir) sigma = ctx_val sigma lobj.
Proof.
  intros [ND Hu _ Hr _] Q [NDo INo]. unfold lm_of_state. cbv zeta.
  assert (Hfil : filter (fun p : string * dvar => dv_used (snd p)) (s_dom s2) = s_dom s2).
  { apply filter_all. intros [n d] Hin. exact (Hu n d Hin). }
  rewrite Hfil. fold (keys s2). set (vars := sort_strings (keys s2)).
  assert (Pv : Permutation (keys s2) vars) by apply sort_strings_perm.
  assert (NDv : NoDup vars) by (eapply Permutation_NoDup; [exact Pv|exact ND]).
  assert (Kv : incl (keys s2) vars) by (intros k Hk; eapply Permutation_in; [exact Pv|exact Hk]).
  assert (Hfd : filter (fun p : string * dvar => set_mem vars (fst p)) (s_dom s2) = s_dom s2).
  { apply filter_all. intros [n d] Hin. cbn [fst]. apply set_mem_In. apply Kv. apply in_map_iff. exists (n, d). split; [reflexivity|exact Hin]. }
  rewrite Hfd.
  assert (Hsem : forall mr, In mr (s_rows s2) ->
            (cmp_holds (r_cmp mr) (dot (extract_coeffs (r_lhs mr) vars) vars sigma) (xval (r_rhs mr)) <-> mrow_holds sigma mr)).
  { intros mr Hmr. destruct (proj1 (Forall_forall _ _) Hr mr Hmr) as [NDk [INk _]].
    rewrite (dot_extract sigma _ vars NDk (fun k Hk => Kv k (INk k Hk)) NDv), xval_cval. reflexivity. }
  split.
  - unfold sat_linear, st_sat. cbn [lm_rows lm_vars lm_domain]. rewrite Q. split.
    + intros [Hrows Hdom]. split; [intros c []|]. split.
      * intros mr Hmr. apply (Hsem mr Hmr).
        assert (Hc : In (core mr) (map core (dedup_names (s_rows s2)))) by (rewrite dedup_names_cores; apply in_map; exact Hmr).
        apply in_map_iff in Hc as [dr [Ec Hdr]]. unfold core in Ec. injection Ec as E1 E2 E3.
        pose proof (Hrows _ (in_map _ _ _ Hdr)) as Hh. unfold row_holds in Hh. cbn [lr_cmp lr_coeffs lr_rhs] in Hh.
        rewrite E1, E2, E3 in Hh. exact Hh.
      * intros n d Hin. apply (Hdom n (dv_type d)). apply in_map_iff. exists (n, d). split; [reflexivity|exact Hin].
    + intros [_ [Hrows Hdom]]. split.
      * intros r Hr0. apply in_map_iff in Hr0 as [dr [<- Hdr]]. unfold row_holds. cbn [lr_cmp lr_coeffs lr_rhs].
        assert (Hc : In (core dr) (map core (s_rows s2))) by (rewrite <- dedup_names_cores; apply in_map; exact Hdr).
        apply in_map_iff in Hc as [mr [Ec Hmr]]. unfold core in Ec. injection Ec as E1 E2 E3.
        rewrite <- E1, <- E2, <- E3. apply (Hsem mr Hmr). exact (Hrows mr Hmr).
      * intros n t Hin. apply in_map_iff in Hin as [[n0 d] [E Hin]]. cbn [fst snd] in E. inversion E; subst n0 t. exact (Hdom n d Hin).
  - unfold lin_objective. cbn [lm_objective lm_vars lm_offset].
    rewrite (dot_extract sigma _ vars NDo (fun k Hk => Kv k (INo k Hk)) NDv), xval_cval. reflexivity.
Qed.

(* ---------- the whole of compile *)
Definition init_state (m : model) : lst :=
  mkS (m_constraints m) [] [] (cdom m)
      (sync_with_domain (analyze (decl_types m) (m_constraints m)) (map (fun p => (fst p, dv_type (snd p))) (cdom m))).
Definition req_of_dir (d : direction) : req :=
  match d with DMin => PreferLower | DMax => PreferHigher | DSatisfy => Exact end.
Definition loop_fuel (m : model) : nat := 16 * total_size m + 64.

Lemma compile_unfold m :
  compile m =
  match fs_pure (m_obj m) with
  | None => inl EFuel
  | Some o =>
    match linearize_exp o (req_of_dir (m_dir m)) (init_state m) with
    | inl e => inl e
    | inr (lobj, s1) =>
      match main_loop (loop_fuel m) s1 with
      | inl e => inl e
      | inr (_, s2) => inr (lm_of_state s2 lobj (m_dir m))
      end
    end
  end.
Proof.
  unfold compile, init_state, lm_of_state, cdom, decl_types, loop_fuel, req_of_dir. cbv zeta. unfold bind.
  rewrite flatten_simplify_eq. destruct (fs_pure (m_obj m)) as [o|]; reflexivity.
Qed.

(* the trace condition: the objective and every constraint taken from the queue stay on the arithmetic path *)
Definition compile_trace (m : model) : bool :=
  match fs_pure (m_obj m) with
  | None => false
  | Some o =>
      okexp o && forallb (set_mem (keys (init_state m))) (xvars o) &&
      match linearize_exp o (req_of_dir (m_dir m)) (init_state m) with
      | inr (_, s1) => trace_ok (loop_fuel m) s1
      | inl _ => false
      end
  end.

Record abs_model (m : model) : Prop := mkBM {
  bm_wf : wf_domain m;
  bm_used : forall n d, In (n, d) (m_domain m) -> dv_used d = true;
  bm_decl : forall n d, In (n, d) (m_domain m) -> decl_ok (dv_type d);
  bm_cs : Forall (cgood (map fst (m_domain m))) (m_constraints m);
  bm_obj : plainA (m_obj m) = true;
  bm_obj_vars : incl (xvars (m_obj m)) (map fst (m_domain m));
  bm_trace : compile_trace m = true }.

Lemma keys_init m : keys (init_state m) = map fst (m_domain m).
Proof. unfold keys, init_state, cdom. cbn [s_dom]. rewrite map_map. reflexivity. Qed.

Lemma INV_init m : abs_model m -> INV (init_state m).
Proof.
  intros [[ND Hwf] Hused Hdecl Hcs _ _ _]. constructor.
  - rewrite keys_init. exact ND.
  - intros n d Hin. unfold init_state, cdom in Hin. cbn [s_dom] in Hin. apply in_map_iff in Hin as [[n0 d0] [E Hin]].
    inversion E; subst. cbn [dv_used snd]. exact (Hused _ _ Hin).
  - rewrite keys_init. exact Hcs.
  - constructor.
  - intros sigma HD n Hn. rewrite keys_init in Hn. apply in_map_iff in Hn as [[n0 d0] [E Hin]]. cbn [fst] in E. subst n0.
    set (an := analyze (decl_types m) (m_constraints m)).
    set (D := map (fun p : string * dvar => (fst p, dv_type (snd p))) (cdom m)).
    set (t := tighten_type an n (dv_type d0)).
    assert (HinD : In (n, t) D).
    { unfold D, cdom. rewrite map_map. apply in_map_iff. exists (n, d0). split; [reflexivity|exact Hin]. }
    assert (NDD : NoDup (map fst D)).
    { unfold D, cdom. rewrite !map_map. cbn [fst]. exact ND. }
    assert (NN : nn (a_get an n)).
    { assert (NS : nnst (from_domain (decl_types m))).
      { apply from_domain_nn. intros k t' Hk. unfold decl_types in Hk. apply in_map_iff in Hk as [[k0 dk] [E Hk]]. inversion E; subst.
        exact (proj1 (Hdecl _ _ Hk)). }
      exact (proj1 (analyze_shrinks (decl_types m) (m_constraints m) NS) n). }
    unfold init_state. cbn [s_an]. fold an D. unfold a_get. rewrite sync_is_fold, (sync_get D an n t NDD HinD).
    apply (tightened_in_box an n (dv_type d0) (sigma n) NN).
    apply (HD n (mkDV t (dv_used d0))). unfold init_state, cdom. cbn [s_dom]. apply in_map_iff. exists (n, d0). split; [reflexivity|exact Hin].
Qed.

Lemma init_sat m rho : abs_model m -> (sat_model m rho <-> st_sat (init_state m) rho).
Proof.
  intros [[ND Hwf] Hused Hdecl Hcs _ _ _]. unfold sat_model, feasible, st_sat, init_state. cbn [s_queue s_rows s_dom]. split.
  - intros [Hd Hc]. split; [exact Hc|]. split; [intros r []|].
    intros n d Hin. unfold cdom in Hin. apply in_map_iff in Hin as [[n0 d0] [E Hin]]. cbn [fst snd] in E. injection E as <- <-. cbn [dv_type].
    apply tighten_type_sound.
    + reflexivity.
    + exact (Hwf _ _ Hin).
    + apply (Hd n0 (dv_type d0)). unfold decl_types. apply in_map_iff. exists (n0, d0). split; [reflexivity|exact Hin].
    + apply analyze_sound. split; assumption.
  - intros [Hc [_ Hd]]. split; [|exact Hc].
    intros n t Hin. unfold decl_types in Hin. apply in_map_iff in Hin as [[n0 d0] [E Hin]]. cbn [fst snd] in E. inversion E; subst n0 t.
    apply (published_inside_declared (decl_types m) (m_constraints m) n (dv_type d0) (rho n)).
    + unfold decl_types. rewrite map_map. exact ND.
    + intros k t' Hk. unfold decl_types in Hk. apply in_map_iff in Hk as [[k0 dk] [E' Hk]]. inversion E'; subst. exact (Hdecl _ _ Hk).
    + unfold decl_types. apply in_map_iff. exists (n, d0). split; [reflexivity|exact Hin].
    + apply (Hd n (mkDV (tighten_type (analyze (decl_types m) (m_constraints m)) n (dv_type d0)) (dv_used d0))).
      unfold cdom. apply in_map_iff. exists (n, d0). split; [reflexivity|exact Hin].
Qed.

Theorem compile_abs_equiv m L : abs_model m -> compile m = inr L ->
  (forall sigma, sat_linear L sigma ->
     sat_model m sigma /\ forall v, ev sigma (m_obj m) = Some v -> rel (req_of_dir (m_dir m)) (lin_objective L sigma) v) /\
  (forall rho v, sat_model m rho -> ev rho (m_obj m) = Some v ->
     exists sigma, agree_on (map fst (m_domain m)) rho sigma /\ sat_linear L sigma /\ lin_objective L sigma = v).
Proof.
  intros BM HC. pose proof (INV_init m BM) as I0. pose proof (fun rho => init_sat m rho BM) as Hinit.
  destruct BM as [_ _ _ _ Pobj _ Tr]. rewrite compile_unfold in HC. unfold compile_trace in Tr.
  destruct (fs_pure (m_obj m)) as [o|] eqn:Fo; [|discriminate].
  apply andb_true_iff in Tr as [Tr Tl]. apply andb_true_iff in Tr as [Oo Vo]. apply forallb_mem_incl in Vo.
  destruct (linearize_exp o (req_of_dir (m_dir m)) (init_state m)) as [er|[lobj s1]] eqn:EL; [discriminate|].
  destruct (main_loop (loop_fuel m) s1) as [er|[u s2]] eqn:EM; [discriminate|]. injection HC as <-.
  assert (Vobj : forall sigma v, ev sigma (m_obj m) = Some v -> ev sigma o = Some v).
  { intros sigma v Hv. destruct (plainA_total sigma _ Pobj) as [v' [Tv Ev]]. rewrite Hv in Ev. inversion Ev; subst v'.
    exact (proj2 (fs_pure_sound sigma _ _ _ Fo Tv)). }
  assert (To : tot o).
  { intros sigma. destruct (plainA_total sigma _ Pobj) as [v [_ Ev]]. exists v. apply Vobj. exact Ev. }
  unfold linearize_exp in EL.
  destruct (lin_ok _ _ _ _ _ _ Oo I0 Vo To EL) as [I1 [G1 [K1 [F1 [S1 C1]]]]].
  destruct (main_loop_ok _ _ _ _ I1 Tl EM) as [I2 [E2 [Q2 [S2 C2]]]].
  assert (K2 : ctx_ok (keys s2) lobj) by (eapply ctx_ok_mono; [apply ext_keys; exact E2|exact K1]).
  split.
  - intros sigma SL. destruct (lm_of_state_sat s2 lobj (m_dir m) sigma I2 Q2 K2) as [Hs Ho].
    apply Hs in SL. pose proof (S2 sigma SL) as Ss1. split; [apply Hinit; exact (st_sat_back _ _ _ G1 Ss1)|].
    intros v Hv. rewrite Ho. apply S1; [exact Ss1|apply Vobj; exact Hv].
  - intros rho v SM Hv. apply Hinit in SM. destruct (C1 rho v SM (Vobj rho v Hv)) as [sg1 [A1 [Ss1 V1]]].
    destruct (C2 sg1 Ss1) as [sg2 [A2 Ss2]]. exists sg2.
    destruct (lm_of_state_sat s2 lobj (m_dir m) sg2 I2 Q2 K2) as [Hs Ho].
    split; [|split; [apply Hs; exact Ss2|]].
    + intros n Hn. rewrite <- keys_init in Hn. rewrite A2 by (apply (grows_keys _ _ G1); exact Hn). symmetry. apply A1. exact Hn.
    + rewrite Ho, <- V1. apply ctx_val_agree. intros n Hn. apply A2. destruct K1 as [_ K1]. apply K1. exact Hn.
Qed.

(* the projection form of Props/C01.v *)
Corollary compile_abs_projection m L : abs_model m -> compile m = inr L ->
  forall rho : string -> R,
    (exists rho', agree_on (map fst (m_domain m)) rho rho' /\ sat_model m rho') <->
    (exists sigma, agree_on (map fst (m_domain m)) rho sigma /\ sat_linear L sigma).
Proof.
  intros BM HC rho. destruct (compile_abs_equiv m L BM HC) as [A B]. split.
  - intros [rho' [Ag S]]. destruct (plainA_total rho' _ (bm_obj m BM)) as [v [_ Ev]].
    destruct (B rho' v S Ev) as [sigma [Ag2 [SL _]]]. exists sigma. split; [|exact SL].
    intros n Hn. rewrite (Ag n Hn). apply Ag2. exact Hn.
  - intros [sigma [Ag SL]]. exists sigma. split; [exact Ag|exact (proj1 (A sigma SL))].
Qed.

(* optima: a point that is optimal for the compiled model is feasible and optimal for the source, with the same value *)
Definition better (d : direction) (a b : R) : Prop :=
  match d with DMin => a <= b | DMax => a >= b | DSatisfy => True end.
Corollary compile_abs_optimum m L sigma : abs_model m -> compile m = inr L ->
  sat_linear L sigma -> (forall tau, sat_linear L tau -> better (m_dir m) (lin_objective L sigma) (lin_objective L tau)) ->
  m_dir m <> DSatisfy ->
  sat_model m sigma /\ ev sigma (m_obj m) = Some (lin_objective L sigma) /\
  forall rho v, sat_model m rho -> ev rho (m_obj m) = Some v -> better (m_dir m) (lin_objective L sigma) v.
Proof.
  intros BM HC SL Opt ND. destruct (compile_abs_equiv m L BM HC) as [A B].
  destruct (A sigma SL) as [SM Hrel]. destruct (plainA_total sigma _ (bm_obj m BM)) as [v [_ Ev]].
  pose proof (Hrel v Ev) as R1. destruct (B sigma v SM Ev) as [tau [_ [SLt Vt]]]. pose proof (Opt tau SLt) as R2. rewrite Vt in R2.
  assert (E : lin_objective L sigma = v) by (destruct (m_dir m); cbn in R1, R2; try lra; contradiction).
  split; [exact SM|]. split; [rewrite E; exact Ev|].
  intros rho w SMr Ew. destruct (B rho w SMr Ew) as [tau' [_ [SLt' Vt']]]. rewrite <- Vt'. apply Opt. exact SLt'.
Qed.

(* the objective in the form of Props/C02.v: no extension of a source point does better than its source value, and one
   extension attains it *)
Corollary compile_abs_objective m L : abs_model m -> compile m = inr L ->
  forall rho v, sat_model m rho -> ev rho (m_obj m) = Some v ->
    (forall sigma, agree_on (map fst (m_domain m)) rho sigma -> sat_linear L sigma -> better (m_dir m) v (lin_objective L sigma)) /\
    (exists sigma, agree_on (map fst (m_domain m)) rho sigma /\ sat_linear L sigma /\ lin_objective L sigma = v).
Proof.
  intros BM HC rho v SM Ev. destruct (compile_abs_equiv m L BM HC) as [A B]. split; [|exact (B rho v SM Ev)].
  intros sigma Ag SL. destruct (A sigma SL) as [_ Hrel].
  assert (Es : ev sigma (m_obj m) = Some v).
  { rewrite <- Ev. symmetry. apply ev_agree; [apply plainA_okexp; exact (bm_obj m BM)|]. intros n Hn. apply Ag. apply (bm_obj_vars m BM). exact Hn. }
  pose proof (Hrel v Es) as R1. destruct (m_dir m); cbn in *; try lra; exact I.
Qed.
Lemma declared_used_all m : abs_model m -> map fst (filter (fun p : string * dvar => dv_used (snd p)) (m_domain m)) = map fst (m_domain m).
Proof. intros BM. f_equal. apply filter_all. intros [n d] Hin. exact (bm_used m BM n d Hin). Qed.
Corollary compile_abs_projection_used m L : abs_model m -> compile m = inr L ->
  forall rho : string -> R,
    (exists rho', agree_on (map fst (filter (fun p : string * dvar => dv_used (snd p)) (m_domain m))) rho rho' /\ sat_model m rho') <->
    (exists sigma, agree_on (map fst (filter (fun p : string * dvar => dv_used (snd p)) (m_domain m))) rho sigma /\ sat_linear L sigma).
Proof. intros BM HC. rewrite (declared_used_all m BM). exact (compile_abs_projection m L BM HC). Qed.

(* ---------- a boolean decision of the premises (evaluated on every tied model) *)
Definition cgoodb (K : list string) (c : constr) : bool :=
  negb (c_assert c) && plainA (c_lhs c) && plainA (c_rhs c) &&
  forallb (set_mem K) (xvars (c_lhs c)) && forallb (set_mem K) (xvars (c_rhs c)).
Lemma cgoodb_sound K c : cgoodb K c = true -> cgood K c.
Proof.
  unfold cgoodb. intros H. apply andb_true_iff in H as [H H5]. apply andb_true_iff in H as [H H4].
  apply andb_true_iff in H as [H H3]. apply andb_true_iff in H as [H1 H2]. apply negb_true_iff in H1.
  repeat split; try assumption; apply forallb_mem_incl; assumption.
Qed.
Definition abs_modelb (m : model) : bool :=
  let U := map fst (m_domain m) in
  nodup_names U
  && forallb (fun p : string * dvar => wf_vtypeb (dv_type (snd p)) && dv_used (snd p) && decl_okb (dv_type (snd p))) (m_domain m)
  && forallb (cgoodb U) (m_constraints m)
  && plainA (m_obj m)
  && forallb (set_mem U) (xvars (m_obj m))
  && compile_trace m.
Theorem abs_modelb_sound m : abs_modelb m = true -> abs_model m.
Proof.
  unfold abs_modelb. cbv zeta. intros H.
  apply andb_true_iff in H as [H Ht]. apply andb_true_iff in H as [H Hov]. apply andb_true_iff in H as [H Hpo]. apply andb_true_iff in H as [H Hc].
  apply andb_true_iff in H as [Hnd Hd].
  assert (Hd' : forall n d, In (n, d) (m_domain m) ->
            wf_vtypeb (dv_type d) = true /\ dv_used d = true /\ decl_okb (dv_type d) = true).
  { intros n d Hin. pose proof (proj1 (forallb_forall _ _) Hd (n, d) Hin) as K. cbn [fst snd] in K.
    apply andb_true_iff in K as [K K3]. apply andb_true_iff in K as [K1 K2]. auto. }
  constructor.
  - split; [apply nodup_names_sound; exact Hnd|]. intros n d Hin. destruct (Hd' n d Hin) as [W _].
    unfold PublishSound.wf_vtype. destruct (dv_type d); try exact I. cbn [wf_vtypeb] in W. apply andb_true_iff in W as [W1 W2].
    apply Z.leb_le in W1. apply Z.leb_le in W2. split; assumption.
  - intros n d Hin. exact (proj1 (proj2 (Hd' n d Hin))).
  - intros n d Hin. destruct (Hd' n d Hin) as [_ [_ T]]. exact (decl_okb_sound _ T).
  - apply Forall_forall. intros c Hin. apply cgoodb_sound. exact (proj1 (forallb_forall _ _) Hc c Hin).
  - exact Hpo.
  - apply forallb_mem_incl. exact Hov.
  - exact Ht.
Qed.

(* ---------- the premises are met: nested abs in a constraint (exact, big-M rows) and in a minimised objective
   (one-sided rows); three auxiliary variables are created *)
Local Open Scope string_scope.
Definition m1 : model :=
  mkModel DMin (BinOp Add (Abs (BinOp Sub (Var "x") (Num (Fin 3%Q)))) (Var "y"))
    [mkConstr "lim" (BinOp Add (Abs (Var "x")) (BinOp Mul (Num (Fin 2%Q)) (Var "y"))) Ge (Num (Fin 4%Q)) false;
     mkConstr "" (Abs (BinOp Sub (Abs (Var "x")) (Var "y"))) Le (Num (Fin 5%Q)) false]
    [("x", mkDV (TReal (Fin (-10)%Q) (Fin 10%Q)) true); ("y", mkDV (TReal (Fin 0%Q) (Fin 6%Q)) true)].
Example m1_in_fragment : abs_modelb m1 = true.
Proof. vm_compute. reflexivity. Qed.
Example m1_abs_model : abs_model m1.
Proof. apply abs_modelb_sound. exact m1_in_fragment. Qed.
Example m1_compiles : exists L, compile m1 = inr L /\ (List.length (lm_vars L) > 2)%nat.
Proof. eexists. split; [vm_compute; reflexivity|]. cbn. lia. Qed.
Example m1_not_affine : affine_modelb m1 = false.
Proof. vm_compute. reflexivity. Qed.
