(* C01 / C02 end to end beyond the affine fragment: models whose constraints and objective are built from
   + - * / (by constants), unary minus, abs(.), min{..} and max{..}, nested to any depth.  Here the linearizer creates
   auxiliary variables ($abs_k, $abs_k_positive, $max_k, $max_k_select_i, ...), pushes one-sided, big-M or selector rows
   back into its queue and relies on the bound analysis; the theorem is therefore a genuine projection statement: the
   feasible set of the compiled linear model, projected on the declared variables, is the feasible set of the source.

   The fragment is delimited by a decidable trace condition (compile_trace): the objective and every constraint the main
   loop takes from its queue - source constraints and the rows the arms pushed back - goes down the arithmetic path (not an
   assertion, not taken by the logic-constraint test) and, once rewritten by flatten/simplify, contains only arithmetic,
   abs, min and max nodes over names declared so far.  The dominated-operand pruning of min / max is covered
   (Proof/Pruning.v: the extreme over the retained operands is the extreme over all of them at every point of the box).
   The condition is evaluated on every tied model by the correspondence check.  The file name is historical: the
   development started with abs. *)
From Coq Require Import QArith Qreals Qround Reals ZArith Bool List String Lra Lia Permutation Sorting.Sorted.
From Rooc Require Import Base.XQ Model.Exp Model.Sem Model.Flatten Model.Simplify Model.Bounds Model.Linearize Model.Spec
  Proof.XQFacts Proof.SemFacts Proof.AListFacts Proof.IntervalSound Proof.BoundsOfSound Proof.AffineSound Proof.LinAffine
  Proof.ExpInd Proof.LinFrame Proof.WellFormed Proof.SimplifyMain Proof.FlattenSound Proof.PropagateSound Proof.PublishSound
  Proof.PublishedCompile Proof.TightenSound Proof.ShrinkSound Proof.ArmLemmas Proof.CompileAffine Proof.Pruning.
Import ListNotations.
Local Close Scope Q_scope.
Local Open Scope R_scope.
Local Open Scope list_scope.

(* ---------- the expression fragment *)
Fixpoint okexp (e : exp) : bool :=
  match e with
  | Num _ | Var _ => true
  | BinOp (Add | Sub | Mul | Div) a b => okexp a && okexp b
  | UnOp Neg x => okexp x
  | Abs x => okexp x
  | Min l | Max l =>
      match l with [] => false | _ => (fix all (l : list exp) : bool := match l with [] => true | x :: xs => okexp x && all xs end) l end
  | _ => false
  end.
Fixpoint xvars (e : exp) : list string :=
  match e with
  | Var n => [n]
  | BinOp _ a b => xvars a ++ xvars b
  | UnOp _ x | Abs x => xvars x
  | Min l | Max l => (fix fm (l : list exp) : list string := match l with [] => [] | x :: xs => xvars x ++ fm xs end) l
  | _ => []
  end.
(* source expressions: total (no division by zero, finite literals) *)
Fixpoint plainA (e : exp) : bool :=
  match e with
  | Num (Fin _) => true
  | Var _ => true
  | BinOp Add a b | BinOp Sub a b | BinOp Mul a b => plainA a && plainA b
  | BinOp Div a (Num (Fin q)) => plainA a && negb (q_eqb q 0)
  | UnOp Neg x => plainA x
  | Abs x => plainA x
  | Min l | Max l =>
      match l with [] => false | _ => (fix all (l : list exp) : bool := match l with [] => true | x :: xs => plainA x && all xs end) l end
  | _ => false
  end.

(* the nested fixpoints as list functions *)
Lemma okexp_list l : (fix all (l : list exp) : bool := match l with [] => true | x :: xs => okexp x && all xs end) l = forallb okexp l.
Proof. induction l as [|x xs IH]; [reflexivity|]. cbn [forallb]. rewrite <- IH. reflexivity. Qed.
Lemma plainA_list l : (fix all (l : list exp) : bool := match l with [] => true | x :: xs => plainA x && all xs end) l = forallb plainA l.
Proof. induction l as [|x xs IH]; [reflexivity|]. cbn [forallb]. rewrite <- IH. reflexivity. Qed.
Lemma xvars_list l : (fix fm (l : list exp) : list string := match l with [] => [] | x :: xs => xvars x ++ fm xs end) l = flat_map xvars l.
Proof. induction l as [|x xs IH]; [reflexivity|]. cbn [flat_map]. rewrite <- IH. reflexivity. Qed.
Lemma okexp_Max l : okexp (Max l) = match l with [] => false | _ => forallb okexp l end.
Proof. cbn [okexp]. destruct l as [|x xs]; [reflexivity|]. rewrite <- (okexp_list (x :: xs)). reflexivity. Qed.
Lemma okexp_Min l : okexp (Min l) = match l with [] => false | _ => forallb okexp l end.
Proof. cbn [okexp]. destruct l as [|x xs]; [reflexivity|]. rewrite <- (okexp_list (x :: xs)). reflexivity. Qed.
Lemma plainA_Max l : plainA (Max l) = match l with [] => false | _ => forallb plainA l end.
Proof. cbn [plainA]. destruct l as [|x xs]; [reflexivity|]. rewrite <- (plainA_list (x :: xs)). reflexivity. Qed.
Lemma plainA_Min l : plainA (Min l) = match l with [] => false | _ => forallb plainA l end.
Proof. cbn [plainA]. destruct l as [|x xs]; [reflexivity|]. rewrite <- (plainA_list (x :: xs)). reflexivity. Qed.
Lemma xvars_Max l : xvars (Max l) = flat_map xvars l.
Proof. cbn [xvars]. apply xvars_list. Qed.
Lemma xvars_Min l : xvars (Min l) = flat_map xvars l.
Proof. cbn [xvars]. apply xvars_list. Qed.

Lemma forallb_imp (p q : exp -> bool) l : Forall (fun e => p e = true -> q e = true) l -> forallb p l = true -> forallb q l = true.
Proof.
  induction 1 as [|x l Hx _ IH]; [reflexivity|]. cbn [forallb]. intros H. apply andb_true_iff in H as [H1 H2].
  rewrite (Hx H1), (IH H2). reflexivity.
Qed.

Lemma plainA_okexp : forall e, plainA e = true -> okexp e = true.
Proof.
  induction e using exp_ind'; intros Hp; try discriminate; try reflexivity.
  - cbn [plainA okexp] in *. auto.
  - rewrite plainA_Min in Hp. rewrite okexp_Min. destruct l; [discriminate|]. exact (forallb_imp _ _ _ H Hp).
  - rewrite plainA_Max in Hp. rewrite okexp_Max. destruct l; [discriminate|]. exact (forallb_imp _ _ _ H Hp).
  - cbn [plainA okexp] in *. destruct op; try discriminate.
    + apply andb_true_iff in Hp as [H1 H2]. rewrite IHe1, IHe2 by assumption. reflexivity.
    + apply andb_true_iff in Hp as [H1 H2]. rewrite IHe1, IHe2 by assumption. reflexivity.
    + apply andb_true_iff in Hp as [H1 H2]. rewrite IHe1, IHe2 by assumption. reflexivity.
    + destruct e2; try discriminate. destruct x; try discriminate. apply andb_true_iff in Hp as [H1 H2].
      rewrite IHe1 by assumption. reflexivity.
  - cbn [plainA okexp] in *. destruct op; try discriminate. auto.
Qed.

(* values of a list of total expressions *)
Lemma evlist_total rho t l : Forall (fun e => exists v, evg rho t e = Some v) l -> exists vs, evlist rho t l = Some vs /\ List.length vs = List.length l.
Proof.
  induction 1 as [|x l [v Hv] _ [vs [IH1 IH2]]]; [exists []; split; reflexivity|].
  exists (v :: vs). cbn [evlist]. rewrite Hv, IH1. split; [reflexivity|cbn; rewrite IH2; reflexivity].
Qed.
Lemma evlist_same rho l : Forall (fun e => exists v, evT rho e = Some v /\ ev rho e = Some v) l ->
  exists vs, evlist rho true l = Some vs /\ evlist rho false l = Some vs /\ List.length vs = List.length l.
Proof.
  induction 1 as [|x l [v [Tv Ev]] _ [vs [IH1 [IH2 IH3]]]]; [exists []; repeat split; reflexivity|].
  exists (v :: vs). unfold evT, ev in *. cbn [evlist]. rewrite Tv, Ev, IH1, IH2. repeat split; try reflexivity. cbn. rewrite IH3. reflexivity.
Qed.

Lemma plainA_total rho : forall e, plainA e = true -> exists v, evT rho e = Some v /\ ev rho e = Some v.
Proof.
  induction e using exp_ind'; intros H0; try discriminate.
  - cbn [plainA] in H0. destruct x; try discriminate. eexists. split; reflexivity.
  - eexists. split; reflexivity.
  - cbn [plainA] in H0. destruct (IHe H0) as [a [Ta Ea]]. exists (Rabs a). unfold evT, ev in *. rewrite !evg_Abs, Ta, Ea. split; reflexivity.
  - rewrite plainA_Min in H0. destruct l as [|x l]; [discriminate|].
    assert (F : Forall (fun e => exists v, evT rho e = Some v /\ ev rho e = Some v) (x :: l)).
    { apply Forall_forall. intros e He. apply (proj1 (Forall_forall _ _) H e He). exact (proj1 (forallb_forall _ _) H0 e He). }
    destruct (evlist_same rho _ F) as [vs [E1 [E2 E3]]]. destruct vs as [|v vs]; [discriminate|].
    exists (fold_left Rmin vs v). unfold evT, ev. rewrite !evg_Min, E1, E2. split; reflexivity.
  - rewrite plainA_Max in H0. destruct l as [|x l]; [discriminate|].
    assert (F : Forall (fun e => exists v, evT rho e = Some v /\ ev rho e = Some v) (x :: l)).
    { apply Forall_forall. intros e He. apply (proj1 (Forall_forall _ _) H e He). exact (proj1 (forallb_forall _ _) H0 e He). }
    destruct (evlist_same rho _ F) as [vs [E1 [E2 E3]]]. destruct vs as [|v vs]; [discriminate|].
    exists (fold_left Rmax vs v). unfold evT, ev. rewrite !evg_Max, E1, E2. split; reflexivity.
  - cbn [plainA] in H0. destruct op; try discriminate.
    + apply andb_true_iff in H0 as [H1 H2]. destruct (IHe1 H1) as [a [Ta Ea]]. destruct (IHe2 H2) as [b [Tb Eb]].
      exists (a + b). unfold evT, ev in *. rewrite !evg_BinOp, Ta, Tb, Ea, Eb. split; reflexivity.
    + apply andb_true_iff in H0 as [H1 H2]. destruct (IHe1 H1) as [a [Ta Ea]]. destruct (IHe2 H2) as [b [Tb Eb]].
      exists (a - b). unfold evT, ev in *. rewrite !evg_BinOp, Ta, Tb, Ea, Eb. split; reflexivity.
    + apply andb_true_iff in H0 as [H1 H2]. destruct (IHe1 H1) as [a [Ta Ea]]. destruct (IHe2 H2) as [b [Tb Eb]].
      exists (a * b). unfold evT, ev in *. rewrite !evg_BinOp, Ta, Tb, Ea, Eb. split; reflexivity.
    + destruct e2; try discriminate. destruct x; try discriminate. apply andb_true_iff in H0 as [H1 H2].
      destruct (IHe1 H1) as [a [Ta Ea]]. apply negb_true_iff in H2. apply q_eqb_false in H2. rewrite Q2R_0 in H2.
      exists (a / Q2R q). unfold evT, ev in *. rewrite !evg_BinOp, Ta, Ea. cbn [evg ev_binop].
      destruct (Req_EM_T (Q2R q) 0) as [Z|Z]; [contradiction|]. split; reflexivity.
  - cbn [plainA] in H0. destruct op; try discriminate. destruct (IHe H0) as [a [Ta Ea]]. exists (- a). unfold evT, ev in *.
    cbn [evg]. rewrite Ta, Ea. split; reflexivity.
Qed.

(* the value depends on the listed variables only *)
Lemma evlist_agree rho sigma l : Forall (fun e => ev rho e = ev sigma e) l -> evlist rho false l = evlist sigma false l.
Proof. induction 1 as [|x l Hx _ IH]; [reflexivity|]. unfold ev in Hx. cbn [evlist]. rewrite Hx, IH. reflexivity. Qed.
Lemma ev_agree rho sigma : forall e, okexp e = true -> (forall n, In n (xvars e) -> rho n = sigma n) -> ev rho e = ev sigma e.
Proof.
  induction e using exp_ind'; intros H0 A; try discriminate.
  - reflexivity.
  - unfold ev. cbn [evg]. rewrite (A s (or_introl eq_refl)). reflexivity.
  - cbn [okexp xvars] in *. unfold ev in *. rewrite !evg_Abs, (IHe H0 A). reflexivity.
  - rewrite okexp_Min in H0. rewrite xvars_Min in A. destruct l as [|x l]; [discriminate|]. unfold ev. rewrite !evg_Min.
    rewrite (evlist_agree rho sigma (x :: l)); [reflexivity|]. apply Forall_forall. intros e He.
    apply (proj1 (Forall_forall _ _) H e He); [exact (proj1 (forallb_forall _ _) H0 e He)|].
    intros n Hn. apply A. apply in_flat_map. exists e. split; assumption.
  - rewrite okexp_Max in H0. rewrite xvars_Max in A. destruct l as [|x l]; [discriminate|]. unfold ev. rewrite !evg_Max.
    rewrite (evlist_agree rho sigma (x :: l)); [reflexivity|]. apply Forall_forall. intros e He.
    apply (proj1 (Forall_forall _ _) H e He); [exact (proj1 (forallb_forall _ _) H0 e He)|].
    intros n Hn. apply A. apply in_flat_map. exists e. split; assumption.
  - cbn [okexp xvars] in *.
    assert (H12 : okexp e1 = true /\ okexp e2 = true) by (destruct op; try discriminate; apply andb_true_iff in H0; exact H0).
    destruct H12 as [H1 H2]. unfold ev in *. rewrite !evg_BinOp.
    rewrite (IHe1 H1) by (intros n Hn; apply A; apply in_or_app; left; exact Hn).
    rewrite (IHe2 H2) by (intros n Hn; apply A; apply in_or_app; right; exact Hn).
    destruct (evg sigma false e1); [|reflexivity]. destruct (evg sigma false e2); [|reflexivity].
    destruct op; try discriminate; reflexivity.
  - cbn [okexp xvars] in *. destruct op; try discriminate. unfold ev in *. rewrite !evg_Neg, (IHe H0 A). reflexivity.
Qed.

Definition tot (e : exp) : Prop := forall sigma, exists v, ev sigma e = Some v.
Lemma tot_binop op a b : tot (BinOp op a b) -> tot a /\ tot b.
Proof.
  intros H. split; intros sigma; destruct (H sigma) as [v Hv]; unfold ev in *; rewrite evg_BinOp in Hv.
  - destruct (evg sigma false a) as [x|]; [eauto|discriminate].
  - destruct (evg sigma false a) as [x|]; [|discriminate]. destruct (evg sigma false b) as [y|]; [eauto|discriminate].
Qed.
Lemma tot_neg x : tot (UnOp Neg x) -> tot x.
Proof. intros H sigma. destruct (H sigma) as [v Hv]. unfold ev in *. rewrite evg_Neg in Hv. destruct (evg sigma false x); [eauto|discriminate]. Qed.
Lemma tot_abs x : tot (Abs x) -> tot x.
Proof. intros H sigma. destruct (H sigma) as [v Hv]. unfold ev in *. rewrite evg_Abs in Hv. destruct (evg sigma false x); [eauto|discriminate]. Qed.

(* ---------- bounds_of is sound as soon as the box is right on the variables of the expression *)
Lemma bounds_of_on a rho : forall e v, okexp e = true ->
  (forall n, In n (xvars e) -> in_b (a_get a n) (rho n)) -> ev rho e = Some v -> in_b (bounds_of a e) v.
Proof.
  unfold ev. induction e using exp_ind'; intros v H0 A Hv; try discriminate.
  - apply evg_Num_inv in Hv as [q [-> ->]]. apply in_b_singleton.
  - cbn in Hv. inversion Hv; subst. cbn [bounds_of]. apply A. left. reflexivity.
  - cbn [okexp xvars] in *. rewrite evg_Abs in Hv. destruct (evg rho false e) as [w|] eqn:E; [|discriminate]. inversion Hv; subst.
    cbn [bounds_of]. apply b_abs_sound. apply IHe; [exact H0|exact A|reflexivity].
  - rewrite okexp_Min in H0. rewrite xvars_Min in A. destruct l as [|x l]; [discriminate|].
    assert (F : Forall (fun e => forall v, evg rho false e = Some v -> in_b (bounds_of a e) v) (x :: l)).
    { apply Forall_forall. intros e He w Hw. apply (proj1 (Forall_forall _ _) H e He); [exact (proj1 (forallb_forall _ _) H0 e He)| |exact Hw].
      intros n Hn. apply A. apply in_flat_map. exists e. split; assumption. }
    rewrite evg_Min in Hv. cbn [evlist] in Hv. destruct (evg rho false x) as [vx|] eqn:Ex; [|discriminate].
    destruct (evlist rho false l) as [vs'|] eqn:El; [|discriminate]. cbn [fold_min] in Hv. inversion Hv; subst v; clear Hv.
    inversion F as [|? ? Fx Fl]; subst. cbn [bounds_of]. apply (fold_min_sound a rho); [exact Fl|exact El|apply Fx; exact Ex].
  - rewrite okexp_Max in H0. rewrite xvars_Max in A. destruct l as [|x l]; [discriminate|].
    assert (F : Forall (fun e => forall v, evg rho false e = Some v -> in_b (bounds_of a e) v) (x :: l)).
    { apply Forall_forall. intros e He w Hw. apply (proj1 (Forall_forall _ _) H e He); [exact (proj1 (forallb_forall _ _) H0 e He)| |exact Hw].
      intros n Hn. apply A. apply in_flat_map. exists e. split; assumption. }
    rewrite evg_Max in Hv. cbn [evlist] in Hv. destruct (evg rho false x) as [vx|] eqn:Ex; [|discriminate].
    destruct (evlist rho false l) as [vs'|] eqn:El; [|discriminate]. cbn [fold_max] in Hv. inversion Hv; subst v; clear Hv.
    inversion F as [|? ? Fx Fl]; subst. cbn [bounds_of]. apply (fold_max_sound a rho); [exact Fl|exact El|apply Fx; exact Ex].
  - cbn [okexp xvars] in *.
    assert (H12 : okexp e1 = true /\ okexp e2 = true) by (destruct op; try discriminate; apply andb_true_iff in H0; exact H0).
    destruct H12 as [H1 H2].
    rewrite evg_BinOp in Hv. destruct (evg rho false e1) as [x|] eqn:E1; [|discriminate].
    destruct (evg rho false e2) as [y|] eqn:E2; [|discriminate].
    assert (B1 : in_b (bounds_of a e1) x) by (apply IHe1; [exact H1|intros n Hn; apply A; apply in_or_app; left; exact Hn|reflexivity]).
    assert (B2 : in_b (bounds_of a e2) y) by (apply IHe2; [exact H2|intros n Hn; apply A; apply in_or_app; right; exact Hn|reflexivity]).
    destruct op; try discriminate; cbn [operand_ok negb orb andb ev_binop] in Hv.
    + inversion Hv; subst. cbn [bounds_of]. apply b_add_sound; assumption.
    + inversion Hv; subst. cbn [bounds_of]. apply b_sub_sound; assumption.
    + inversion Hv; subst. cbn [bounds_of].
      destruct e1; try (destruct e2; cbn [bounds_of]; try apply in_b_unbounded;
                        apply evg_Num_inv in E2 as [q [-> ->]]; apply b_scale_sound; exact B1).
      apply evg_Num_inv in E1 as [q [-> ->]]. rewrite Rmult_comm. cbn [bounds_of]. apply b_scale_sound. exact B2.
    + destruct (Req_EM_T y 0) as [Z|NZ]; [discriminate|]. inversion Hv; subst. cbn [bounds_of].
      destruct e2; try apply in_b_unbounded.
      apply evg_Num_inv in E2 as [q [-> ->]].
      destruct (xq_is_zero (Fin q)) eqn:Zq; [apply in_b_unbounded|].
      apply b_div_by_sound; assumption.
  - cbn [okexp xvars] in *. destruct op; try discriminate. rewrite evg_Neg in Hv. destruct (evg rho false e) as [w|] eqn:E; [|discriminate].
    inversion Hv; subst. cbn [bounds_of]. apply b_neg_sound. apply IHe; [exact H0|exact A|reflexivity].
Qed.

(* ---------- bounds_of reads the box on the variables of the expression only *)
Lemma fold_bounds_ext (f : xq -> xq -> xq) a a' : forall l cur,
  Forall (fun e => bounds_of a e = bounds_of a' e) l ->
  fold_left (fun cur nx => let b := bounds_of a nx in mkB (f (lo cur) (lo b)) (f (hi cur) (hi b))) l cur =
  fold_left (fun cur nx => let b := bounds_of a' nx in mkB (f (lo cur) (lo b)) (f (hi cur) (hi b))) l cur.
Proof.
  induction l as [|x l IH]; intros cur F; [reflexivity|]. inversion F as [|? ? Fx Fl]; subst. cbn [fold_left]. cbv zeta. rewrite Fx. apply IH. exact Fl.
Qed.
Lemma bounds_of_ext a a' : forall e, (forall n, In n (xvars e) -> a_get a n = a_get a' n) -> bounds_of a e = bounds_of a' e.
Proof.
  induction e using exp_ind'; intros A; try reflexivity.
  - cbn [bounds_of]. apply A. left. reflexivity.
  - cbn [bounds_of xvars] in *. rewrite (IHe A). reflexivity.
  - rewrite xvars_Min in A. destruct l as [|x l]; [reflexivity|].
    assert (F : Forall (fun e => bounds_of a e = bounds_of a' e) (x :: l)).
    { apply Forall_forall. intros e He. apply (proj1 (Forall_forall _ _) H e He). intros n Hn. apply A. apply in_flat_map. exists e. split; assumption. }
    inversion F as [|? ? Fx Fl]; subst. cbn [bounds_of]. rewrite Fx. apply fold_bounds_ext. exact Fl.
  - rewrite xvars_Max in A. destruct l as [|x l]; [reflexivity|].
    assert (F : Forall (fun e => bounds_of a e = bounds_of a' e) (x :: l)).
    { apply Forall_forall. intros e He. apply (proj1 (Forall_forall _ _) H e He). intros n Hn. apply A. apply in_flat_map. exists e. split; assumption. }
    inversion F as [|? ? Fx Fl]; subst. cbn [bounds_of]. rewrite Fx. apply fold_bounds_ext. exact Fl.
  - cbn [xvars] in A.
    assert (E1 : bounds_of a e1 = bounds_of a' e1) by (apply IHe1; intros n Hn; apply A; apply in_or_app; left; exact Hn).
    assert (E2 : bounds_of a e2 = bounds_of a' e2) by (apply IHe2; intros n Hn; apply A; apply in_or_app; right; exact Hn).
    destruct op; cbn [bounds_of]; try reflexivity; try (rewrite E1, E2; reflexivity).
    all: try (destruct e2; try reflexivity; rewrite E1; reflexivity).
    all: try (destruct e1; try (destruct e2; try reflexivity; rewrite E1; reflexivity); try (rewrite E2; reflexivity)).
  - destruct op; [|reflexivity]. cbn [bounds_of xvars] in *. rewrite (IHe A). reflexivity.
Qed.

(* ---------- n-ary extremes *)
Lemma fold_max_ge : forall vs v x, In x (v :: vs) -> x <= fold_left Rmax vs v.
Proof.
  induction vs as [|y vs IH]; intros v x Hin; cbn [fold_left].
  - destruct Hin as [->|[]]. lra.
  - destruct Hin as [->|[->|Hin]].
    + apply Rle_trans with (Rmax x y); [apply Rmax_l|]. apply IH. left. reflexivity.
    + apply Rle_trans with (Rmax v x); [apply Rmax_r|]. apply IH. left. reflexivity.
    + apply IH. right. exact Hin.
Qed.
Lemma fold_max_in : forall vs v, In (fold_left Rmax vs v) (v :: vs).
Proof.
  induction vs as [|y vs IH]; intros v; cbn [fold_left]; [left; reflexivity|].
  destruct (IH (Rmax v y)) as [E|Hin]; [|right; right; exact Hin].
  rewrite <- E. unfold Rmax. destruct (Rle_dec v y); [right; left; reflexivity|left; reflexivity].
Qed.
Lemma fold_min_le : forall vs v x, In x (v :: vs) -> fold_left Rmin vs v <= x.
Proof.
  induction vs as [|y vs IH]; intros v x Hin; cbn [fold_left].
  - destruct Hin as [->|[]]. lra.
  - destruct Hin as [->|[->|Hin]].
    + apply Rle_trans with (Rmin x y); [|apply Rmin_l]. apply IH. left. reflexivity.
    + apply Rle_trans with (Rmin v x); [|apply Rmin_r]. apply IH. left. reflexivity.
    + apply IH. right. exact Hin.
Qed.
Lemma fold_min_in : forall vs v, In (fold_left Rmin vs v) (v :: vs).
Proof.
  induction vs as [|y vs IH]; intros v; cbn [fold_left]; [left; reflexivity|].
  destruct (IH (Rmin v y)) as [E|Hin]; [|right; right; exact Hin].
  rewrite <- E. unfold Rmin. destruct (Rle_dec v y); [left; reflexivity|right; left; reflexivity].
Qed.

(* ---------- what a linearization requirement promises *)
Definition rel (r : req) (cv v : R) : Prop :=
  match r with Exact => cv = v | PreferLower => cv >= v | PreferHigher => cv <= v end.
Lemma rel_eq r x : rel r x x.
Proof. destruct r; cbn; lra. Qed.
Lemma rel_add r x y vx vy : rel r x vx -> rel r y vy -> rel r (x + y) (vx + vy).
Proof. destruct r; cbn; lra. Qed.
Lemma rel_sub r x y vx vy : rel r x vx -> rel (req_reversed r) y vy -> rel r (x - y) (vx - vy).
Proof. destruct r; cbn; lra. Qed.
Lemma rel_neg r x vx : rel (req_reversed r) x vx -> rel r (- x) (- vx).
Proof. destruct r; cbn; lra. Qed.
Lemma rel_scale r q x vx : Q2R q <> 0 -> rel (through_scale r (Fin q)) x vx -> rel r (Q2R q * x) (Q2R q * vx).
Proof.
  intros NZ. unfold through_scale. cbn [xq_ltb]. destruct (q_ltb q 0) eqn:L.
  - apply q_ltb_true in L. rewrite Q2R_0 in L. destruct r; cbn; intros H; try (subst; reflexivity); nra.
  - apply q_ltb_false in L. rewrite Q2R_0 in L. destruct r; cbn; intros H; try (subst; reflexivity); nra.
Qed.

(* ---------- assignments *)
Definition updR (sigma : string -> R) (k : string) (x : R) : string -> R :=
  fun n => if String.eqb n k then x else sigma n.
Lemma updR_same sigma k x : updR sigma k x k = x.
Proof. unfold updR. rewrite String.eqb_refl. reflexivity. Qed.
Lemma updR_other sigma k x n : n <> k -> updR sigma k x n = sigma n.
Proof. intros H. unfold updR. apply String.eqb_neq in H. rewrite H. reflexivity. Qed.

Lemma cs_val_agree rho sigma : forall l, (forall n, In n (map fst l) -> rho n = sigma n) -> cs_val rho l = cs_val sigma l.
Proof.
  induction l as [|[n c] l IH]; intros A; [reflexivity|]. cbn [cs_val]. rewrite (A n (or_introl eq_refl)).
  rewrite IH by (intros k Hk; apply A; right; exact Hk). reflexivity.
Qed.
Lemma ctx_val_agree rho sigma c : (forall n, In n (ckeys c) -> rho n = sigma n) -> ctx_val rho c = ctx_val sigma c.
Proof. intros A. unfold ctx_val. rewrite (cs_val_agree rho sigma _ A). reflexivity. Qed.

(* ---------- what a linearizer state means, and when it is well formed *)
(* the names that reach the linear model: declared variables marked used, and every auxiliary *)
Definition ukeys (s : lst) : list string := map fst (filter (fun p : string * dvar => dv_used (snd p)) (s_dom s)).
Notation akeys := LinFrame.keys.
Lemma ukeys_sub s : incl (ukeys s) (akeys s).
Proof. intros k Hk. unfold ukeys in Hk. apply in_map_iff in Hk as [p [<- Hp]]. apply filter_In in Hp as [Hp _]. apply in_map. exact Hp. Qed.

Definition mrow_holds (sigma : string -> R) (r : midrow) : Prop :=
  cmp_holds (r_cmp r) (cs_val sigma (r_lhs r)) (cval (r_rhs r)).
Definition dom_sat (D : list (string * dvar)) (sigma : string -> R) : Prop :=
  forall n d, In (n, d) D -> in_dom (dv_type d) (sigma n).
Definition st_sat (s : lst) (sigma : string -> R) : Prop :=
  (forall c, In c (s_queue s) -> sat_constr sigma c) /\
  (forall r, In r (s_rows s) -> mrow_holds sigma r) /\
  dom_sat (s_dom s) sigma.


(* ---------- formulas over Boolean variables (the assertions of the logic fragment covered here) *)
Fixpoint lvars (e : exp) : list string :=
  match e with
  | Var n => [n]
  | Not x | UnOp _ x => lvars x
  | And l | Or l => (fix fm (l : list exp) : list string := match l with [] => [] | x :: xs => lvars x ++ fm xs end) l
  | Xor a b | Implies a b | Iff a b => lvars a ++ lvars b
  | _ => []
  end.
Fixpoint blogic (s : lst) (e : exp) : bool :=
  match e with
  | Num v => xq_is_zero v || xq_is_one v
  | Var n => is_boolean_var s n
  | Not x | UnOp UNot x => blogic s x
  | And l | Or l => (fix all (l : list exp) : bool := match l with [] => true | x :: xs => blogic s x && all xs end) l
  | Xor a b | Implies a b | Iff a b => blogic s a && blogic s b
  | _ => false
  end.
Lemma lvars_list l : (fix fm (l : list exp) : list string := match l with [] => [] | x :: xs => lvars x ++ fm xs end) l = flat_map lvars l.
Proof. induction l as [|x xs IH]; [reflexivity|]. cbn [flat_map]. rewrite <- IH. reflexivity. Qed.
Lemma blogic_list s l : (fix all (l : list exp) : bool := match l with [] => true | x :: xs => blogic s x && all xs end) l = forallb (blogic s) l.
Proof. induction l as [|x xs IH]; [reflexivity|]. cbn [forallb]. rewrite <- IH. reflexivity. Qed.
Lemma bvar_bin s sigma n : is_boolean_var s n = true -> dom_sat (s_dom s) sigma -> bin (sigma n).
Proof.
  unfold is_boolean_var. destruct (al_get (s_dom s) n) as [[t u]|] eqn:G; [|discriminate]. destruct t; try discriminate. intros _ D.
  apply al_get_In in G. exact (D n _ G).
Qed.
Lemma bin_bnR x : bin x -> exists b, x = bnR b.
Proof. intros [->| ->]; [exists false|exists true]; reflexivity. Qed.

Lemma blogic_values s sigma : dom_sat (s_dom s) sigma -> forall l,
  Forall (fun e => blogic s e = true -> exists b, evT sigma e = Some (bnR b) /\ ev sigma e = Some (bnR b)) l -> forallb (blogic s) l = true ->
  exists bs, evlist_ok sigma true l = Some (map bnR bs) /\ evlist_ok sigma false l = Some (map bnR bs).
Proof.
  intros D l F. induction F as [|e l He _ IH]; intros H; [exists []; split; reflexivity|]. cbn [forallb] in H. apply andb_true_iff in H as [H1 H2].
  destruct (He H1) as [b [T E]]. destruct (IH H2) as [bs [Tl El]]. exists (b :: bs). unfold evT, ev in *. cbn [evlist_ok map].
  rewrite T, E, Tl, El. unfold operand_ok. cbn [negb orb]. rewrite is_binR_bnR, orb_true_r. split; reflexivity.
Qed.
Lemma blogic_total s sigma : dom_sat (s_dom s) sigma -> forall e, blogic s e = true -> exists b, evT sigma e = Some (bnR b) /\ ev sigma e = Some (bnR b).
Proof.
  intros D. induction e using exp_ind'; intros Hb; try discriminate.
  - cbn [blogic] in Hb. destruct x as [q| | |]; try discriminate. apply orb_true_iff in Hb as [Z|Z].
    + apply xq_is_zero_Fin in Z. exists false. unfold evT, ev. cbn [evg]. rewrite Z. split; reflexivity.
    + apply xq_is_one_Fin in Z. exists true. unfold evT, ev. cbn [evg]. rewrite Z. split; reflexivity.
  - cbn [blogic] in Hb. destruct (bin_bnR _ (bvar_bin s sigma s0 Hb D)) as [b Eb]. exists b. unfold evT, ev. cbn [evg]. rewrite Eb. split; reflexivity.
  - cbn [blogic] in Hb. rewrite blogic_list in Hb. destruct (blogic_values s sigma D l H Hb) as [bs [T E]].
    exists (forallb truthyR (map bnR bs)). unfold evT, ev. rewrite !evg_And, T, E. split; reflexivity.
  - cbn [blogic] in Hb. rewrite blogic_list in Hb. destruct (blogic_values s sigma D l H Hb) as [bs [T E]].
    exists (existsb truthyR (map bnR bs)). unfold evT, ev. rewrite !evg_Or, T, E. split; reflexivity.
  - cbn [blogic] in Hb. destruct (IHe Hb) as [b [T E]]. exists (negb b). unfold evT, ev in *. rewrite !evg_Not, T, E. cbn [option_map]. rewrite truthyR_bnR. split; reflexivity.
  - cbn [blogic] in Hb. apply andb_true_iff in Hb as [H1 H2]. destruct (IHe1 H1) as [b1 [T1 E1]]. destruct (IHe2 H2) as [b2 [T2 E2]].
    exists (xorb b1 b2). unfold evT, ev in *. rewrite !evg_Xor, T1, T2, E1, E2, !truthyR_bnR. split; reflexivity.
  - cbn [blogic] in Hb. apply andb_true_iff in Hb as [H1 H2]. destruct (IHe1 H1) as [b1 [T1 E1]]. destruct (IHe2 H2) as [b2 [T2 E2]].
    exists (negb b1 || b2)%bool. unfold evT, ev in *. rewrite !evg_Implies, T1, T2, E1, E2, !truthyR_bnR. split; reflexivity.
  - cbn [blogic] in Hb. apply andb_true_iff in Hb as [H1 H2]. destruct (IHe1 H1) as [b1 [T1 E1]]. destruct (IHe2 H2) as [b2 [T2 E2]].
    exists (Bool.eqb b1 b2). unfold evT, ev in *. rewrite !evg_Iff, T1, T2, E1, E2, !truthyR_bnR. split; reflexivity.
  - cbn [blogic] in Hb. destruct op; [discriminate|]. destruct (IHe Hb) as [b [T E]]. exists (negb b). unfold evT, ev in *. rewrite !evg_UNot, T, E. cbn [option_map]. rewrite truthyR_bnR. split; reflexivity.
Qed.
Lemma evlist_ok_agree rho sigma l : Forall (fun e => ev rho e = ev sigma e) l -> evlist_ok rho false l = evlist_ok sigma false l.
Proof. induction 1 as [|x l Hx _ IH]; [reflexivity|]. unfold ev in Hx. cbn [evlist_ok]. rewrite Hx, IH. reflexivity. Qed.
Lemma ev_agree_logic s rho sigma : forall e, blogic s e = true -> (forall n, In n (lvars e) -> rho n = sigma n) -> ev rho e = ev sigma e.
Proof.
  induction e using exp_ind'; intros H0 A; try discriminate.
  - reflexivity.
  - unfold ev. cbn [evg]. rewrite (A s0 (or_introl eq_refl)). reflexivity.
  - cbn [blogic lvars] in H0, A. rewrite blogic_list in H0. rewrite lvars_list in A. unfold ev. rewrite !evg_And. rewrite (evlist_ok_agree rho sigma l); [reflexivity|].
    apply Forall_forall. intros e He. apply (proj1 (Forall_forall _ _) H e He); [exact (proj1 (forallb_forall _ _) H0 e He)|].
    intros n Hn. apply A. apply in_flat_map. exists e. split; assumption.
  - cbn [blogic lvars] in H0, A. rewrite blogic_list in H0. rewrite lvars_list in A. unfold ev. rewrite !evg_Or. rewrite (evlist_ok_agree rho sigma l); [reflexivity|].
    apply Forall_forall. intros e He. apply (proj1 (Forall_forall _ _) H e He); [exact (proj1 (forallb_forall _ _) H0 e He)|].
    intros n Hn. apply A. apply in_flat_map. exists e. split; assumption.
  - cbn [blogic lvars] in *. unfold ev in *. rewrite !evg_Not, (IHe H0 A). reflexivity.
  - cbn [blogic lvars] in *. apply andb_true_iff in H0 as [H1 H2]. unfold ev in *. rewrite !evg_Xor.
    rewrite (IHe1 H1) by (intros n Hn; apply A; apply in_or_app; left; exact Hn). rewrite (IHe2 H2) by (intros n Hn; apply A; apply in_or_app; right; exact Hn). reflexivity.
  - cbn [blogic lvars] in *. apply andb_true_iff in H0 as [H1 H2]. unfold ev in *. rewrite !evg_Implies.
    rewrite (IHe1 H1) by (intros n Hn; apply A; apply in_or_app; left; exact Hn). rewrite (IHe2 H2) by (intros n Hn; apply A; apply in_or_app; right; exact Hn). reflexivity.
  - cbn [blogic lvars] in *. apply andb_true_iff in H0 as [H1 H2]. unfold ev in *. rewrite !evg_Iff.
    rewrite (IHe1 H1) by (intros n Hn; apply A; apply in_or_app; left; exact Hn). rewrite (IHe2 H2) by (intros n Hn; apply A; apply in_or_app; right; exact Hn). reflexivity.
  - cbn [blogic lvars] in *. destruct op; [discriminate|]. unfold ev in *. rewrite !evg_UNot, (IHe H0 A). reflexivity.
Qed.
Lemma blogic_mono s s' : (forall n, is_boolean_var s n = true -> is_boolean_var s' n = true) -> forall e, blogic s e = true -> blogic s' e = true.
Proof.
  intros Hm. induction e using exp_ind'; intros H0; try discriminate; cbn [blogic] in *; try assumption; auto.
  - rewrite blogic_list in *. apply forallb_forall. intros e He. apply (proj1 (Forall_forall _ _) H e He). exact (proj1 (forallb_forall _ _) H0 e He).
  - rewrite blogic_list in *. apply forallb_forall. intros e He. apply (proj1 (Forall_forall _ _) H e He). exact (proj1 (forallb_forall _ _) H0 e He).
  - apply andb_true_iff in H0 as [H1 H2]. rewrite IHe1, IHe2 by assumption. reflexivity.
  - apply andb_true_iff in H0 as [H1 H2]. rewrite IHe1, IHe2 by assumption. reflexivity.
  - apply andb_true_iff in H0 as [H1 H2]. rewrite IHe1, IHe2 by assumption. reflexivity.
  - destruct op; [discriminate|]. auto.
Qed.

Definition cgood (K : list string) (c : constr) : Prop :=
  c_assert c = false /\ plainA (c_lhs c) = true /\ plainA (c_rhs c) = true /\
  incl (xvars (c_lhs c)) K /\ incl (xvars (c_rhs c)) K.
Definition rgood (K : list string) (r : midrow) : Prop :=
  NoDup (map fst (r_lhs r)) /\ incl (map fst (r_lhs r)) K /\ cs_fin (r_lhs r) /\ fin (r_rhs r).
Definition dom_box (s : lst) : Prop :=
  forall sigma, dom_sat (s_dom s) sigma -> forall n, In n (ukeys s) -> in_b (a_get (s_an s) n) (sigma n).
Lemma boolvar_dom s s' n : s_dom s = s_dom s' -> is_boolean_var s n = is_boolean_var s' n.
Proof. intros E. unfold is_boolean_var. rewrite E. reflexivity. Qed.
Lemma blogic_dom s s' e : s_dom s = s_dom s' -> blogic s e = true -> blogic s' e = true.
Proof. intros E. apply blogic_mono. intros n Hn. rewrite <- (boolvar_dom s s' n E). exact Hn. Qed.
(* a queued constraint is either arithmetic or an assertion of a formula over Boolean variables *)
Definition agood (s : lst) (c : constr) : Prop :=
  c_assert c = true /\ c_cmp c = Eq /\ (exists q, c_rhs c = Num (Fin q) /\ Q2R q = 1) /\ blogic s (c_lhs c) = true /\ incl (lvars (c_lhs c)) (ukeys s).
(* ... or a comparison whose sides are arithmetic or formulas (a formula compared with a constant is normalised by the compiler) *)
Definition sgood (s : lst) (e : exp) : Prop :=
  (plainA e = true /\ incl (xvars e) (ukeys s)) \/ (blogic s e = true /\ incl (lvars e) (ukeys s)).
Definition ngood (s : lst) (c : constr) : Prop := c_assert c = false /\ sgood s (c_lhs c) /\ sgood s (c_rhs c).
Definition qgood (s : lst) (c : constr) : Prop := cgood (ukeys s) c \/ agood s c \/ ngood s c.
Lemma ukeys_dom s s' : s_dom s = s_dom s' -> ukeys s = ukeys s'.
Proof. intros E. unfold ukeys. rewrite E. reflexivity. Qed.
Lemma qgood_dom s s' c : s_dom s = s_dom s' -> qgood s c -> qgood s' c.
Proof.
  intros E.
  assert (Sg : forall e, sgood s e -> sgood s' e).
  { intros e [[P I]|[B I]]; [left|right]; (split; [|rewrite <- (ukeys_dom s s' E); exact I]); [exact P|exact (blogic_dom s s' _ E B)]. }
  intros [G|[[A1 [A2 [A3 [A4 A5]]]]|[N1 [N2 N3]]]]; [left; rewrite <- (ukeys_dom s s' E); exact G|right; left|right; right].
  - repeat split; try assumption; [exact (blogic_dom s s' _ E A4)|rewrite <- (ukeys_dom s s' E); exact A5].
  - split; [exact N1|]. split; apply Sg; assumption.
Qed.
Record INV (s : lst) : Prop := mkINV {
  inv_nd : NoDup (akeys s);
  (* a declared variable that is not used keeps a non-empty range (it is dropped from the linear model) *)
  inv_inh : forall n d, In (n, d) (s_dom s) -> dv_used d = false -> exists x, in_dom (dv_type d) x;
  inv_q : Forall (qgood s) (s_queue s);
  inv_r : Forall (rgood (ukeys s)) (s_rows s);
  inv_box : dom_box s }.

Lemma cgood_mono K K' c : incl K K' -> cgood K c -> cgood K' c.
Proof. intros I [A [B [C [D E]]]]. repeat split; try assumption; intros k Hk; apply I; auto. Qed.
Lemma rgood_mono K K' r : incl K K' -> rgood K r -> rgood K' r.
Proof. intros I [A [B [C D]]]. repeat split; try assumption. intros k Hk; apply I; auto. Qed.
Lemma ctx_ok_mono K K' c : incl K K' -> ctx_ok K c -> ctx_ok K' c.
Proof. intros I [A B]. split; [exact A|]. intros k Hk; apply I; auto. Qed.

Lemma sat_constr_agree K rho sigma c : cgood K c -> (forall n, In n K -> rho n = sigma n) -> sat_constr rho c -> sat_constr sigma c.
Proof.
  intros [_ [Pl [Pr [Il Ir]]]] A [l [r [El [Er H]]]]. exists l, r.
  rewrite <- (ev_agree rho sigma _ (plainA_okexp _ Pl)) by (intros n Hn; apply A, Il, Hn).
  rewrite <- (ev_agree rho sigma _ (plainA_okexp _ Pr)) by (intros n Hn; apply A, Ir, Hn).
  auto.
Qed.
Lemma mrow_agree K rho sigma r : rgood K r -> (forall n, In n K -> rho n = sigma n) -> mrow_holds rho r -> mrow_holds sigma r.
Proof.
  intros [_ [I _]] A H. unfold mrow_holds in *. rewrite <- (cs_val_agree rho sigma) by (intros n Hn; apply A, I, Hn). exact H.
Qed.
Lemma dom_sat_agree D rho sigma : (forall n, In n (map fst D) -> rho n = sigma n) -> dom_sat D rho -> dom_sat D sigma.
Proof.
  intros A H n d Hin. rewrite <- A; [apply (H n d Hin)|]. apply in_map_iff. exists (n, d). split; [reflexivity|exact Hin].
Qed.
Lemma ev_sgood_agree s rho sigma e : sgood s e -> (forall n, In n (ukeys s) -> rho n = sigma n) -> ev rho e = ev sigma e.
Proof.
  intros [[P I]|[B I]] A; [apply ev_agree; [apply plainA_okexp; exact P|]|apply (ev_agree_logic s); [exact B|]]; intros n Hn; apply A, I, Hn.
Qed.
Lemma sat_qgood_agree s rho sigma c : qgood s c -> (forall n, In n (ukeys s) -> rho n = sigma n) -> sat_constr rho c -> sat_constr sigma c.
Proof.
  intros [G|[[_ [_ [[q [Er _]] [Bl Il]]]]|[_ [S1 S2]]]] A H; [exact (sat_constr_agree _ _ _ _ G A H)| |].
  - destruct H as [l [r [El [Err Hc]]]]. exists l, r. rewrite <- (ev_agree_logic s rho sigma _ Bl) by (intros n Hn; apply A, Il, Hn).
    rewrite Er in *. unfold ev in *. cbn [evg] in *. auto.
  - destruct H as [l [r [El [Err Hc]]]]. exists l, r. rewrite <- (ev_sgood_agree s rho sigma _ S1 A), <- (ev_sgood_agree s rho sigma _ S2 A). auto.
Qed.
(* a well-formed state means the same thing to two assignments that agree on its names *)
Lemma st_sat_agree s rho sigma : INV s -> (forall n, In n (akeys s) -> rho n = sigma n) -> st_sat s rho -> st_sat s sigma.
Proof.
  intros I A [Q [Rw D]]. assert (Au : forall n, In n (ukeys s) -> rho n = sigma n) by (intros n Hn; apply A; apply ukeys_sub; exact Hn).
  split; [|split].
  - intros c Hc. eapply sat_qgood_agree; [exact (proj1 (Forall_forall _ _) (inv_q s I) c Hc)|exact Au|exact (Q c Hc)].
  - intros r Hr. eapply mrow_agree; [exact (proj1 (Forall_forall _ _) (inv_r s I) r Hr)|exact Au|exact (Rw r Hr)].
  - eapply dom_sat_agree; [exact A|exact D].
Qed.

(* dropping what an action added *)
Definition grows (s s' : lst) : Prop :=
  ext s s' /\ s_rows s' = s_rows s /\ exists newq, s_queue s' = newq ++ s_queue s.
Lemma grows_refl s : grows s s.
Proof. split; [apply ext_refl|]. split; [reflexivity|]. exists []. reflexivity. Qed.
Lemma grows_trans a b c : grows a b -> grows b c -> grows a c.
Proof.
  intros [E1 [R1 [q1 Q1]]] [E2 [R2 [q2 Q2]]]. split; [eapply ext_trans; eassumption|]. split; [congruence|].
  exists (q2 ++ q1). rewrite Q2, Q1, app_assoc. reflexivity.
Qed.
Lemma ext_keys s s' : ext s s' -> incl (ukeys s) (ukeys s').
Proof. intros [[extra D] _ _] k Hk. unfold ukeys in *. rewrite D, filter_app, map_app. apply in_or_app. left. exact Hk. Qed.
Lemma grows_keys s s' : grows s s' -> incl (ukeys s) (ukeys s').
Proof. intros [E _]. apply ext_keys. exact E. Qed.
Lemma ext_akeys s s' : ext s s' -> incl (akeys s) (akeys s').
Proof. intros [[extra D] _ _] k Hk. unfold LinFrame.keys in *. rewrite D, map_app. apply in_or_app. left. exact Hk. Qed.
Lemma grows_akeys s s' : grows s s' -> incl (akeys s) (akeys s').
Proof. intros [E _]. apply ext_akeys. exact E. Qed.
Lemma st_sat_back s s' sigma : grows s s' -> st_sat s' sigma -> st_sat s sigma.
Proof.
  intros [[[extra D] _ _] [Rw [newq Q]]] [HQ [HR HD]]. split; [|split].
  - intros c Hc. apply HQ. rewrite Q. apply in_or_app. right. exact Hc.
  - intros r Hr. apply HR. rewrite Rw. exact Hr.
  - intros n d Hin. apply (HD n d). rewrite D. apply in_or_app. left. exact Hin.
Qed.

(* ---------- the primitive state changes *)
Definition set_cnt (s : lst) (cnt : list (string * N)) : lst := mkS (s_queue s) (s_rows s) cnt (s_dom s) (s_an s).
Definition decl (s : lst) (n : string) (t : vtype) : lst :=
  mkS (s_queue s) (s_rows s) (s_cnt s) (s_dom s ++ [(n, mkDV t true)]) (a_insert_variable (s_an s) n t).
Definition addc (s : lst) (c : constr) : lst := mkS (c :: s_queue s) (s_rows s) (s_cnt s) (s_dom s) (s_an s).

Lemma INV_set_cnt s cnt : INV s -> INV (set_cnt s cnt).
Proof. intros [A B C D E]. constructor; try assumption. eapply Forall_impl; [|exact C]. intros c. apply qgood_dom. reflexivity. Qed.
Lemma grows_set_cnt s cnt : grows s (set_cnt s cnt).
Proof. split; [apply ext_same_dom; reflexivity|]. split; [reflexivity|]. exists []. reflexivity. Qed.
Lemma st_sat_set_cnt s cnt sigma : st_sat s sigma -> st_sat (set_cnt s cnt) sigma.
Proof. intros H. exact H. Qed.

Lemma keys_decl s n t : ukeys (decl s n t) = ukeys s ++ [n].
Proof. unfold ukeys, decl. cbn [s_dom]. rewrite filter_app, map_app. reflexivity. Qed.
Lemma akeys_decl s n t : akeys (decl s n t) = akeys s ++ [n].
Proof. unfold LinFrame.keys, decl. cbn [s_dom]. rewrite map_app. reflexivity. Qed.
Lemma grows_decl s n t : al_mem (s_dom s) n = false -> grows s (decl s n t).
Proof.
  intros M. split; [|split; [reflexivity|exists []; reflexivity]].
  apply (pres_declare n t s tt). unfold declare_variable. rewrite M. reflexivity.
Qed.
Lemma al_get_app_some {V} (m1 m2 : list (string * V)) k v : al_get m1 k = Some v -> al_get (m1 ++ m2) k = Some v.
Proof. induction m1 as [|[k' v'] r IH]; cbn; [discriminate|]. destruct (String.eqb k k'); [auto|exact IH]. Qed.
Lemma boolvar_ext s s' k : ext s s' -> is_boolean_var s k = true -> is_boolean_var s' k = true.
Proof.
  intros [[extra D] _ _]. unfold is_boolean_var. rewrite D. destruct (al_get (s_dom s) k) as [d|] eqn:G; [|discriminate].
  rewrite (al_get_app_some _ extra k d G). auto.
Qed.
Lemma qgood_grows s s' c : grows s s' -> qgood s c -> qgood s' c.
Proof.
  intros G.
  assert (Bm : forall e, blogic s e = true -> blogic s' e = true).
  { apply (blogic_mono s s'). intros k Hk. destruct G as [E _]. exact (boolvar_ext s s' k E Hk). }
  assert (Sg : forall e, sgood s e -> sgood s' e).
  { intros e [[P I]|[B I]]; [left|right]; (split; [|intros k Hk; apply (grows_keys _ _ G); apply I; exact Hk]); [exact P|exact (Bm _ B)]. }
  intros [Gc|[[A1 [A2 [A3 [A4 A5]]]]|[N1 [N2 N3]]]]; [left; eapply cgood_mono; [apply grows_keys; exact G|exact Gc]|right; left|right; right].
  - repeat split; try assumption; [exact (Bm _ A4)|intros k Hk; apply (grows_keys _ _ G); apply A5; exact Hk].
  - split; [exact N1|]. split; apply Sg; assumption.
Qed.
Lemma INV_decl s n t : INV s -> al_mem (s_dom s) n = false -> INV (decl s n t).
Proof.
  intros [A B C D E] M. pose proof (grows_decl s n t M) as G. pose proof (grows_keys _ _ G) as IK.
  constructor.
  - destruct G as [[_ ND _] _]. apply ND. exact A.
  - intros k d Hin Hu. unfold decl in Hin. cbn [s_dom] in Hin. apply in_app_or in Hin as [Hin|[Eq|[]]]; [exact (B k d Hin Hu)|].
    inversion Eq; subst. discriminate.
  - eapply Forall_impl; [|exact C]. intros c. apply qgood_grows. exact G.
  - eapply Forall_impl; [|exact D]. intros r. apply rgood_mono. exact IK.
  - intros sigma HD k Hk. rewrite keys_decl in Hk. unfold decl in *. cbn [s_dom s_an] in *.
    destruct (String.eqb k n) eqn:Ek.
    + apply String.eqb_eq in Ek. subst k. unfold a_insert_variable. rewrite a_get_set_this.
      apply in_b_of_vtype. apply (HD n (mkDV t true)). apply in_or_app. right. left. reflexivity.
    + apply String.eqb_neq in Ek. unfold a_insert_variable. rewrite a_get_set_other by exact Ek.
      apply in_app_or in Hk as [Hk|[Hk|[]]]; [|congruence].
      apply E; [|exact Hk]. intros m d Hin. apply (HD m d). apply in_or_app. left. exact Hin.
Qed.
Lemma st_sat_decl s n t sigma x : INV s -> al_mem (s_dom s) n = false -> in_dom t x -> st_sat s sigma ->
  st_sat (decl s n t) (updR sigma n x) /\ forall k, In k (akeys s) -> updR sigma n x k = sigma k.
Proof.
  intros I M Hx S. assert (NI : ~ In n (akeys s)) by (apply al_mem_false_notin; exact M).
  assert (A : forall k, In k (akeys s) -> sigma k = updR sigma n x k).
  { intros k Hk. rewrite updR_other; [reflexivity|]. intros ->. contradiction. }
  split; [|intros k Hk; symmetry; apply A; exact Hk].
  pose proof (st_sat_agree s sigma _ I A S) as [Q [Rw D]]. split; [exact Q|]. split; [exact Rw|].
  intros k d Hin. unfold decl in Hin. cbn [s_dom] in Hin. apply in_app_or in Hin as [Hin|[Eq|[]]]; [exact (D k d Hin)|].
  inversion Eq; subst. cbn [dv_type]. rewrite updR_same. exact Hx.
Qed.

Lemma grows_addc s c : grows s (addc s c).
Proof. split; [apply ext_same_dom; reflexivity|]. split; [reflexivity|]. exists [c]. reflexivity. Qed.
Lemma INV_addc s c : INV s -> cgood (ukeys s) c -> INV (addc s c).
Proof.
  intros [A B C D E] G. constructor; try assumption. cbn [addc s_queue]. constructor; [left; exact G|].
  eapply Forall_impl; [|exact C]. intros c0. apply qgood_dom. reflexivity.
Qed.
Lemma st_sat_addc s c sigma : st_sat s sigma -> sat_constr sigma c -> st_sat (addc s c) sigma.
Proof. intros [Q [Rw D]] H. split; [|split; assumption]. intros c' [<-|Hc]; [exact H|exact (Q c' Hc)]. Qed.

(* ---------- the specification of one call of Exp::linearize *)
Definition lin_spec (e : exp) (r : req) (s : lst) (c : lctx) (s' : lst) : Prop :=
  INV s' /\ grows s s' /\ ctx_ok (ukeys s') c /\ ctx_fin c /\
  (forall sigma v, st_sat s' sigma -> ev sigma e = Some v -> rel r (ctx_val sigma c) v) /\
  (forall rho v, st_sat s rho -> ev rho e = Some v ->
     exists sigma, (forall n, In n (akeys s) -> sigma n = rho n) /\ st_sat s' sigma /\ ctx_val sigma c = v).

(* a leaf: nothing is emitted and the context has the expression's value *)
Lemma spec_leaf e r s c : INV s -> ctx_ok (ukeys s) c -> ctx_fin c ->
  (forall sigma v, ev sigma e = Some v -> ctx_val sigma c = v) -> lin_spec e r s c s.
Proof.
  intros I K F V. split; [exact I|]. split; [apply grows_refl|]. split; [exact K|]. split; [exact F|]. split.
  - intros sigma v _ Hv. rewrite (V sigma v Hv). apply rel_eq.
  - intros rho v S Hv. exists rho. split; [reflexivity|]. split; [exact S|apply V; exact Hv].
Qed.

(* one operand *)
Lemma spec_un e a r ra (f : lctx -> lctx) (g : R -> R) s la s1 :
  okexp a = true -> incl (xvars a) (ukeys s) ->
  (forall sigma v, st_sat s sigma -> ev sigma e = Some v -> exists x, ev sigma a = Some x /\ v = g x) ->
  (forall A x, ctx_ok A x -> ctx_ok A (f x)) ->
  (forall x, ctx_fin x -> ctx_fin (f x) /\ forall sigma, ctx_val sigma (f x) = g (ctx_val sigma x)) ->
  (forall x vx, rel ra x vx -> rel r (g x) (g vx)) ->
  lin_spec a ra s la s1 -> lin_spec e r s (f la) s1.
Proof.
  intros Oa Ia Hev Hok Hfin Hrel [I1 [G1 [K1 [F1 [S1 C1]]]]].
  destruct (Hfin la F1) as [Ff Vf].
  split; [exact I1|]. split; [exact G1|]. split; [apply Hok; exact K1|]. split; [exact Ff|]. split.
  - intros sigma v S Hv. destruct (Hev sigma v (st_sat_back _ _ _ G1 S) Hv) as [x [Ex ->]].
    rewrite Vf. apply Hrel. apply S1; assumption.
  - intros rho v S Hv. destruct (Hev rho v S Hv) as [x [Ex ->]].
    destruct (C1 rho x S Ex) as [sigma [A [S' V]]]. exists sigma. split; [exact A|]. split; [exact S'|].
    rewrite Vf, V. reflexivity.
Qed.

(* two operands, left to right *)
Lemma spec_bin e a b r ra rb (f : lctx -> lctx -> lctx) (g : R -> R -> R) s la s1 lb s2 :
  INV s -> okexp b = true -> incl (xvars b) (ukeys s) ->
  (forall sigma v, ev sigma e = Some v -> exists x y, ev sigma a = Some x /\ ev sigma b = Some y /\ v = g x y) ->
  (forall A x y, ctx_ok A x -> ctx_ok A y -> ctx_ok A (f x y)) ->
  (forall x y, ctx_fin x -> ctx_fin y -> ctx_fin (f x y) /\ forall sigma, ctx_val sigma (f x y) = g (ctx_val sigma x) (ctx_val sigma y)) ->
  (forall x y vx vy, rel ra x vx -> rel rb y vy -> rel r (g x y) (g vx vy)) ->
  lin_spec a ra s la s1 -> lin_spec b rb s1 lb s2 -> lin_spec e r s (f la lb) s2.
Proof.
  intros I Ob Ib Hev Hok Hfin Hrel [I1 [G1 [K1 [F1 [S1 C1]]]]] [I2 [G2 [K2 [F2 [S2 C2]]]]].
  destruct (Hfin la lb F1 F2) as [Ff Vf]. pose proof (grows_keys _ _ G1) as IK1. pose proof (grows_keys _ _ G2) as IK2.
  split; [exact I2|]. split; [eapply grows_trans; eassumption|].
  split; [apply Hok; [eapply ctx_ok_mono; [exact IK2|exact K1]|exact K2]|]. split; [exact Ff|]. split.
  - intros sigma v S Hv. destruct (Hev sigma v Hv) as [x [y [Ex [Ey ->]]]]. rewrite Vf. apply Hrel.
    + apply S1; [exact (st_sat_back _ _ _ G2 S)|exact Ex].
    + apply S2; assumption.
  - intros rho v S Hv. destruct (Hev rho v Hv) as [x [y [Ex [Ey ->]]]].
    destruct (C1 rho x S Ex) as [sg1 [A1 [S1' V1]]].
    assert (Ey1 : ev sg1 b = Some y).
    { rewrite <- Ey. apply ev_agree; [exact Ob|]. intros n Hn. apply A1, ukeys_sub, Ib, Hn. }
    destruct (C2 sg1 y S1' Ey1) as [sg2 [A2 [S2' V2]]]. exists sg2.
    split; [intros n Hn; rewrite A2 by (apply (grows_akeys _ _ G1); exact Hn); apply A1; exact Hn|]. split; [exact S2'|].
    rewrite Vf, V2. f_equal. rewrite <- V1. apply ctx_val_agree. intros n Hn. apply A2. apply ukeys_sub. destruct K1 as [_ K1]. apply K1. exact Hn.
Qed.

Lemma through_scale_div r q : Q2R q <> 0 ->
  through_scale r (xq_div (Fin 1%Q) (Fin q)) = through_scale r (Fin q).
Proof.
  intros NZ. unfold through_scale. f_equal.
  assert (Zq : q_eqb q 0 = false).
  { destruct (q_eqb q 0) eqn:E; [|reflexivity]. apply q_eqb_true in E. rewrite Q2R_0 in E. contradiction. }
  assert (Nq : ~ (q == 0)%Q) by (intro E; apply Qeq_bool_iff in E; unfold q_eqb in Zq; congruence).
  cbn [xq_div]. rewrite Zq. cbn [xq_ltb].
  destruct (q_ltb q 0) eqn:L.
  - apply q_ltb_true in L. rewrite Q2R_0 in L.
    destruct (q_ltb (qn (1 / q)) 0) eqn:L2; [reflexivity|]. apply q_ltb_false in L2.
    rewrite Q2R_0, Q2R_qn, Q2R_div, Q2R_1 in L2 by exact Nq. exfalso.
    assert (1 / Q2R q < 0) by (unfold Rdiv; rewrite Rmult_1_l; apply Rinv_lt_0_compat; exact L). lra.
  - apply q_ltb_false in L. rewrite Q2R_0 in L.
    destruct (q_ltb (qn (1 / q)) 0) eqn:L2; [|reflexivity]. apply q_ltb_true in L2.
    rewrite Q2R_0, Q2R_qn, Q2R_div, Q2R_1 in L2 by exact Nq. exfalso.
    assert (0 < 1 / Q2R q) by (unfold Rdiv; rewrite Rmult_1_l; apply Rinv_0_lt_compat; lra). lra.
Qed.

(* ---------- the expressions the abs arm pushes back into the queue *)
Lemma fold_ctx_plain : forall l e, cs_fin l -> plainA e = true ->
  plainA (fold_left (fun e p => BinOp Add e (BinOp Mul (Num (snd p)) (Var (fst p)))) l e) = true.
Proof.
  induction l as [|[n x] l IH]; intros e Hl He; cbn [fold_left fst snd]; [exact He|].
  inversion Hl as [|? ? Hx Hl']; subst. cbn [snd] in Hx. destruct (fin_inv _ Hx) as [q ->].
  apply IH; [exact Hl'|]. cbn [plainA]. rewrite He. reflexivity.
Qed.
Lemma plainA_ctx c : ctx_fin c -> plainA (context_to_exp c) = true.
Proof. intros [F1 F2]. destruct (fin_inv _ F2) as [k Ek]. unfold context_to_exp. rewrite Ek. apply fold_ctx_plain; [exact F1|reflexivity]. Qed.
Lemma fold_ctx_vars : forall l e,
  xvars (fold_left (fun e p => BinOp Add e (BinOp Mul (Num (snd p)) (Var (fst p)))) l e) = xvars e ++ map fst l.
Proof.
  induction l as [|[n x] l IH]; intros e; cbn [fold_left fst snd map]; [rewrite app_nil_r; reflexivity|].
  rewrite IH. cbn [xvars app]. rewrite <- app_assoc. reflexivity.
Qed.
Lemma xvars_ctx c : xvars (context_to_exp c) = ckeys c.
Proof. unfold context_to_exp, ckeys. rewrite fold_ctx_vars. reflexivity. Qed.

Lemma ev_var sigma n : ev sigma (Var n) = Some (sigma n).
Proof. reflexivity. Qed.
Lemma ev_neg sigma e t : ev sigma e = Some t -> ev sigma (UnOp Neg e) = Some (- t).
Proof. unfold ev. intros H. rewrite evg_Neg, H. reflexivity. Qed.
Lemma ev_bigm_lo sigma inner t k p : ev sigma inner = Some t ->
  ev sigma (sub_exp inner (mul_exp (Num (Fin k)) (sub_exp (Num (Fin 1%Q)) (Var p)))) = Some (t - Q2R k * (1 - sigma p)).
Proof.
  unfold ev, sub_exp, mul_exp. intros H. rewrite !evg_BinOp, H, !evg_Num_Fin, evg_Var. cbn [ev_binop]. rewrite Q2R_1. reflexivity.
Qed.
Lemma ev_bigm_hi sigma inner t k p : ev sigma inner = Some t ->
  ev sigma (add_exp (UnOp Neg inner) (mul_exp (Num (Fin k)) (Var p))) = Some (- t + Q2R k * sigma p).
Proof.
  unfold ev, add_exp, mul_exp. intros H. rewrite !evg_BinOp, evg_Neg, H, !evg_Num_Fin, evg_Var. cbn [ev_binop option_map]. reflexivity.
Qed.

Lemma from_var_one sigma n : ctx_fin (l_from_var n (Fin 1%Q)) /\ ctx_val sigma (l_from_var n (Fin 1%Q)) = sigma n.
Proof. destruct (from_var_sound sigma n 1%Q) as [F V]. split; [exact F|]. rewrite V, Q2R_1. lra. Qed.
Lemma from_var_ok A n m : In n A -> ctx_ok A (l_from_var n m).
Proof. intros H. unfold l_from_var. apply add_var_ok; [apply new_ok|exact H]. Qed.

Lemma abs_dom_ok ib t : in_b ib t ->
  in_dom (TNonNegativeReal (Fin 0%Q) (xq_max (xq_neg (lo ib)) (hi ib))) (Rabs t).
Proof.
  intros [B1 B2]. cbn [in_dom xq_le_R]. rewrite Q2R_0. pose proof (Rabs_pos t) as P. split; [exact P|]. split; [exact P|].
  apply xq_max_ub. unfold Rabs. destruct (Rcase_abs t) as [N|N]; [left; apply xq_neg_ge; exact B1|right; exact B2].
Qed.

Lemma not_geb0 q : xq_geb (Fin q) (Fin 0%Q) = false -> Q2R q < 0.
Proof.
  unfold xq_geb, xq_leb. cbn [xq_ltb xq_eqb]. intros H. apply orb_false_iff in H as [H1 H2].
  apply q_ltb_false in H1. apply q_eqb_false in H2. rewrite Q2R_0 in *. lra.
Qed.
Lemma not_leb0 q : xq_leb (Fin q) (Fin 0%Q) = false -> 0 < Q2R q.
Proof.
  unfold xq_leb. cbn [xq_ltb xq_eqb]. intros H. apply orb_false_iff in H as [H1 H2].
  apply q_ltb_false in H1. apply q_eqb_false in H2. rewrite Q2R_0 in *. lra.
Qed.

Section AbsArm.
  Variables (x : exp) (s0 s1 : lst) (inner_c : lctx) (cnt : list (string * N)) (v : string).
  Let ib := bounds_of (s_an s0) x.
  Let inner := context_to_exp inner_c.
  Let T := TNonNegativeReal (Fin 0%Q) (xq_max (xq_neg (lo ib)) (hi ib)).
  Let c1 := mk_c (Var v) Ge inner.
  Let c2 := mk_c (Var v) Ge (UnOp Neg inner).
  Let sA := addc (addc (decl (set_cnt s1 cnt) v T) c1) c2.
  Hypothesis Ox : okexp x = true.
  Hypothesis I0 : INV s0.
  Hypothesis Ix : incl (xvars x) (ukeys s0).
  Hypothesis Sx : lin_spec x Exact s0 inner_c s1.
  Hypothesis Mv : al_mem (s_dom s1) v = false.

  Lemma abs_bounds sigma t : st_sat s0 sigma -> ev sigma x = Some t -> in_b ib t.
  Proof.
    intros [_ [_ D]] Hv. apply (bounds_of_on (s_an s0) sigma x t Ox); [|exact Hv].
    intros n Hn. apply (inv_box s0 I0 sigma D). apply Ix. exact Hn.
  Qed.

  Lemma abs_core :
    INV sA /\ grows s1 sA /\ In v (ukeys sA) /\ incl (ukeys s1) (ukeys sA) /\
    (forall sigma t, st_sat sA sigma -> ev sigma x = Some t ->
       sigma v >= t /\ sigma v >= - t /\ in_b ib t /\ ev sigma inner = Some t) /\
    (forall rho t, st_sat s0 rho -> ev rho x = Some t ->
       exists sigma, (forall n, In n (akeys s0) -> sigma n = rho n) /\ st_sat sA sigma /\ sigma v = Rabs t /\
                     ev sigma inner = Some t /\ in_b ib t).
  Proof.
    destruct Sx as [I1 [G1 [K1 [F1 [S1 C1]]]]].
    set (sB := decl (set_cnt s1 cnt) v T).
    assert (IB : INV sB) by (apply INV_decl; [apply INV_set_cnt; exact I1|exact Mv]).
    assert (GB : grows s1 sB) by (eapply grows_trans; [apply grows_set_cnt|apply grows_decl; exact Mv]).
    assert (KB : ukeys sB = ukeys s1 ++ [v]) by (unfold sB; rewrite keys_decl; reflexivity).
    assert (Hv : In v (ukeys sB)) by (rewrite KB; apply in_or_app; right; left; reflexivity).
    assert (Hin : incl (ckeys inner_c) (ukeys sB)) by (intros k Hk; rewrite KB; apply in_or_app; left; destruct K1 as [_ K1]; apply K1; exact Hk).
    assert (Pin : plainA inner = true) by (apply plainA_ctx; exact F1).
    assert (G1c : cgood (ukeys sB) c1).
    { unfold c1, mk_c, cgood. cbn [c_assert c_lhs c_rhs plainA xvars]. repeat split; try assumption; try reflexivity.
      - intros k [<-|[]]. exact Hv.
      - unfold inner. rewrite xvars_ctx. exact Hin. }
    assert (G2c : cgood (ukeys sB) c2).
    { unfold c2, mk_c, cgood. cbn [c_assert c_lhs c_rhs plainA xvars]. repeat split; try assumption; try reflexivity.
      - intros k [<-|[]]. exact Hv.
      - unfold inner. rewrite xvars_ctx. exact Hin. }
    assert (IA : INV sA) by (apply INV_addc; [apply INV_addc; [exact IB|exact G1c]|exact G2c]).
    assert (GA : grows s1 sA) by (eapply grows_trans; [exact GB|eapply grows_trans; apply grows_addc]).
    split; [exact IA|]. split; [exact GA|]. split; [exact Hv|]. split; [apply grows_keys; exact GA|]. split.
    - intros sigma t S Hx.
      assert (S1s : st_sat s1 sigma) by (exact (st_sat_back _ _ _ GA S)).
      assert (S0s : st_sat s0 sigma) by (exact (st_sat_back _ _ _ G1 S1s)).
      pose proof (S1 sigma t S1s Hx) as Ht. cbn [rel] in Ht.
      assert (Ei : ev sigma inner = Some t) by (unfold inner; rewrite (context_to_exp_sound sigma inner_c F1), Ht; reflexivity).
      destruct S as [Q _].
      destruct (Q c1) as [l [r [El [Er H]]]]; [right; left; reflexivity|].
      destruct (Q c2) as [l2 [r2 [El2 [Er2 H2]]]]; [left; reflexivity|].
      unfold c1, c2, mk_c in *. cbn [c_lhs c_rhs c_cmp] in *. rewrite ev_var in El, El2. rewrite Ei in Er. rewrite (ev_neg _ _ _ Ei) in Er2.
      injection El as <-. injection Er as <-. injection El2 as <-. injection Er2 as <-. cbn [cmp_holds] in H, H2.
      split; [exact H|]. split; [exact H2|]. split; [exact (abs_bounds sigma t S0s Hx)|exact Ei].
    - intros rho t S Hx. destruct (C1 rho t S Hx) as [sg1 [A1 [S1' V1]]].
      pose proof (abs_bounds rho t S Hx) as Bt.
      destruct (st_sat_decl (set_cnt s1 cnt) v T sg1 (Rabs t) (INV_set_cnt _ _ I1) Mv (abs_dom_ok ib t Bt) S1') as [SB AB].
      set (sigma := updR sg1 v (Rabs t)) in *.
      assert (Ei : ev sigma inner = Some t).
      { unfold inner. rewrite (context_to_exp_sound sigma inner_c F1). f_equal. rewrite <- V1. apply ctx_val_agree.
        intros n Hn. apply AB. apply ukeys_sub. destruct K1 as [_ K1]. apply K1. exact Hn. }
      assert (Ev : sigma v = Rabs t) by (unfold sigma; apply updR_same).
      destruct (abs_onesided_tight t) as [T1 T2].
      exists sigma. split; [intros n Hn; rewrite AB by (apply (grows_akeys _ _ G1); exact Hn); apply A1; exact Hn|].
      split; [|split; [exact Ev|split; [exact Ei|exact Bt]]].
      apply st_sat_addc; [apply st_sat_addc; [exact SB|]|].
      + exists (sigma v), t. unfold c1, mk_c. cbn [c_lhs c_rhs c_cmp cmp_holds]. split; [rewrite ev_var; reflexivity|]. rewrite Ev. split; [exact Ei|exact T1].
      + exists (sigma v), (- t). unfold c2, mk_c. cbn [c_lhs c_rhs c_cmp cmp_holds]. split; [rewrite ev_var; reflexivity|]. rewrite Ev, (ev_neg _ _ _ Ei). split; [reflexivity|exact T2].
  Qed.
End AbsArm.

Lemma ev_abs_inv sigma x v : ev sigma (Abs x) = Some v -> exists t, ev sigma x = Some t /\ v = Rabs t.
Proof. unfold ev. rewrite evg_Abs. destruct (evg sigma false x) as [t|]; [|discriminate]. intros H. inversion H. eauto. Qed.
Lemma Q2R_two_mul q : Q2R (qn (2 * q)) = 2 * Q2R q.
Proof. rewrite Q2R_qn, Q2R_mult. replace (Q2R 2) with 2 by (unfold Q2R; cbn; lra). reflexivity. Qed.

Section AbsArm2.
  Variables (x : exp) (s0 s1 : lst) (inner_c : lctx) (cnt : list (string * N)) (v : string).
  Let ib := bounds_of (s_an s0) x.
  Let inner := context_to_exp inner_c.
  Let T := TNonNegativeReal (Fin 0%Q) (xq_max (xq_neg (lo ib)) (hi ib)).
  Let c1 := mk_c (Var v) Ge inner.
  Let c2 := mk_c (Var v) Ge (UnOp Neg inner).
  Let sA := addc (addc (decl (set_cnt s1 cnt) v T) c1) c2.
  Hypothesis Ox : okexp x = true.
  Hypothesis I0 : INV s0.
  Hypothesis Ix : incl (xvars x) (ukeys s0).
  Hypothesis Sx : lin_spec x Exact s0 inner_c s1.
  Hypothesis Mv : al_mem (s_dom s1) v = false.

  (* one-sided: v >= t, v >= -t *)
  Lemma abs_lower : lin_spec (Abs x) PreferLower s0 (l_from_var v (Fin 1%Q)) sA.
  Proof.
    destruct (abs_core x s0 s1 inner_c cnt v Ox I0 Ix Sx Mv) as [IA [GA [HvA [IKA [SA CA]]]]].
    fold ib inner T c1 c2 sA in IA, GA, HvA, IKA, SA, CA.
    destruct Sx as [I1 [G1 _]].
    split; [exact IA|]. split; [eapply grows_trans; eassumption|]. split; [apply from_var_ok; exact HvA|].
    split; [exact (proj1 (from_var_one (fun _ => 0) v))|]. split.
    - intros sigma v0 S Hv. destruct (ev_abs_inv _ _ _ Hv) as [t [Et ->]].
      destruct (SA sigma t S Et) as [H1 [H2 _]]. rewrite (proj2 (from_var_one sigma v)). cbn [rel].
      apply abs_onesided_relax; assumption.
    - intros rho v0 S Hv. destruct (ev_abs_inv _ _ _ Hv) as [t [Et ->]].
      destruct (CA rho t S Et) as [sigma [A [S' [Ev _]]]]. exists sigma. split; [exact A|]. split; [exact S'|].
      rewrite (proj2 (from_var_one sigma v)). exact Ev.
  Qed.

  (* exact: the big-M pair with the selector p *)
  Variables (p : string) (ql qh : Q).
  Hypothesis Elo : lo ib = Fin ql.
  Hypothesis Ehi : hi ib = Fin qh.
  Hypothesis Nlo : xq_geb (lo ib) (Fin 0%Q) = false.
  Hypothesis Nhi : xq_leb (hi ib) (Fin 0%Q) = false.
  Hypothesis Mp : al_mem (s_dom sA) p = false.
  Let c3 := mk_c (Var v) Le (sub_exp inner (mul_exp (Num (xq_mul (Fin 2%Q) (lo ib))) (sub_exp (Num (Fin 1%Q)) (Var p)))).
  Let c4 := mk_c (Var v) Le (add_exp (UnOp Neg inner) (mul_exp (Num (xq_mul (Fin 2%Q) (hi ib))) (Var p))).
  Let sE := addc (addc (decl sA p TBoolean) c3) c4.

  Lemma abs_exact r : lin_spec (Abs x) r s0 (l_from_var v (Fin 1%Q)) sE.
  Proof.
    destruct (abs_core x s0 s1 inner_c cnt v Ox I0 Ix Sx Mv) as [IA [GA [HvA [IKA [SA CA]]]]].
    fold ib inner T c1 c2 sA in IA, GA, HvA, IKA, SA, CA.
    destruct Sx as [I1 [G1 [K1 [F1 _]]]].
    assert (Llo : Q2R ql < 0) by (apply not_geb0; rewrite <- Elo; exact Nlo).
    assert (Lhi : 0 < Q2R qh) by (apply not_leb0; rewrite <- Ehi; exact Nhi).
    set (sP := decl sA p TBoolean).
    assert (IP : INV sP) by (apply INV_decl; assumption).
    assert (GP : grows sA sP) by (apply grows_decl; exact Mp).
    assert (KP : ukeys sP = ukeys sA ++ [p]) by (unfold sP; rewrite keys_decl; reflexivity).
    assert (HvP : In v (ukeys sP)) by (rewrite KP; apply in_or_app; left; exact HvA).
    assert (HpP : In p (ukeys sP)) by (rewrite KP; apply in_or_app; right; left; reflexivity).
    assert (Hin : incl (ckeys inner_c) (ukeys sP)).
    { intros k Hk. rewrite KP. apply in_or_app. left. apply IKA. destruct K1 as [_ K1]. apply K1. exact Hk. }
    assert (Pin : plainA inner = true) by (apply plainA_ctx; exact F1).
    assert (G3 : cgood (ukeys sP) c3).
    { unfold c3, mk_c, cgood, sub_exp, mul_exp. rewrite Elo. cbn [xq_mul c_assert c_lhs c_rhs plainA xvars]. rewrite Pin.
      repeat split; try reflexivity.
      - intros k [<-|[]]. exact HvP.
      - intros k Hk. apply in_app_or in Hk as [Hk|Hk]; [unfold inner in Hk; rewrite xvars_ctx in Hk; apply Hin; exact Hk|].
        cbn in Hk. destruct Hk as [<-|[]]. exact HpP. }
    assert (G4 : cgood (ukeys sP) c4).
    { unfold c4, mk_c, cgood, add_exp, mul_exp. rewrite Ehi. cbn [xq_mul c_assert c_lhs c_rhs plainA xvars]. rewrite Pin.
      repeat split; try reflexivity.
      - intros k [<-|[]]. exact HvP.
      - intros k Hk. apply in_app_or in Hk as [Hk|Hk]; [unfold inner in Hk; rewrite xvars_ctx in Hk; apply Hin; exact Hk|].
        cbn in Hk. destruct Hk as [<-|[]]. exact HpP. }
    assert (IE : INV sE) by (apply INV_addc; [apply INV_addc; [exact IP|exact G3]|exact G4]).
    assert (GE : grows sA sE) by (eapply grows_trans; [exact GP|eapply grows_trans; apply grows_addc]).
    split; [exact IE|]. split; [eapply grows_trans; [exact G1|eapply grows_trans; [exact GA|exact GE]]|].
    split; [apply from_var_ok; exact HvP|]. split; [exact (proj1 (from_var_one (fun _ => 0) v))|]. split.
    - intros sigma v0 S Hv. destruct (ev_abs_inv _ _ _ Hv) as [t [Et ->]].
      destruct (SA sigma t (st_sat_back _ _ _ GE S) Et) as [H1 [H2 [[B1 B2] Ei]]].
      rewrite Elo in B1. rewrite Ehi in B2. cbn [xq_le_R R_le_xq] in B1, B2.
      destruct S as [Q [_ D]].
      assert (Bp : bin (sigma p)).
      { apply (D p (mkDV TBoolean true)). unfold sE, addc, sP, decl. cbn [s_dom]. apply in_or_app. right. left. reflexivity. }
      destruct (Q c3) as [l3 [r3 [El3 [Er3 H3]]]]; [right; left; reflexivity|].
      destruct (Q c4) as [l4 [r4 [El4 [Er4 H4]]]]; [left; reflexivity|].
      unfold c3, c4, mk_c in *. cbn [c_lhs c_rhs c_cmp] in *. rewrite ev_var in El3, El4.
      rewrite Elo in Er3. rewrite Ehi in Er4. cbn [xq_mul] in Er3, Er4.
      rewrite (ev_bigm_lo _ _ _ _ _ Ei) in Er3. rewrite (ev_bigm_hi _ _ _ _ _ Ei) in Er4.
      injection El3 as <-. injection Er3 as <-. injection El4 as <-. injection Er4 as <-.
      cbn [cmp_holds] in H3, H4. rewrite Q2R_two_mul in H3, H4.
      rewrite (proj2 (from_var_one sigma v)).
      assert (E : sigma v = Rabs t).
      { apply (abs_exact_relax t (sigma v) (sigma p) (Q2R ql) (Q2R qh)); try assumption; try lra. }
      rewrite E. apply rel_eq.
    - intros rho v0 S Hv. destruct (ev_abs_inv _ _ _ Hv) as [t [Et ->]].
      destruct (CA rho t S Et) as [sgA [A [SA' [Ev [Ei [B1 B2]]]]]].
      rewrite Elo in B1. rewrite Ehi in B2. cbn [xq_le_R R_le_xq] in B1, B2.
      destruct (abs_exact_tight t (Q2R ql) (Q2R qh)) as [pv [Bp [_ [_ [T3 [T4 _]]]]]]; [split; assumption|lra|lra|].
      destruct (st_sat_decl sA p TBoolean sgA pv IA Mp Bp SA') as [SP AP].
      set (sigma := updR sgA p pv) in *.
      assert (Evs : sigma v = Rabs t) by (rewrite AP by (apply ukeys_sub; exact HvA); exact Ev).
      assert (Eis : ev sigma inner = Some t).
      { rewrite <- Ei. apply ev_agree; [apply plainA_okexp; exact Pin|]. intros n Hn. unfold inner in Hn. rewrite xvars_ctx in Hn.
        apply AP. apply ukeys_sub. apply IKA. destruct K1 as [_ K1]. apply K1. exact Hn. }
      assert (Eps : sigma p = pv) by (unfold sigma; apply updR_same).
      exists sigma. split; [intros n Hn; rewrite AP by (apply (grows_akeys _ _ GA); apply (grows_akeys _ _ G1); exact Hn); apply A; exact Hn|].
      split; [|rewrite (proj2 (from_var_one sigma v)); exact Evs].
      apply st_sat_addc; [apply st_sat_addc; [exact SP|]|].
      + eexists _, _. unfold c3, mk_c. cbn [c_lhs c_rhs c_cmp]. rewrite Elo. cbn [xq_mul].
        split; [apply ev_var|]. split; [apply ev_bigm_lo; exact Eis|]. cbn [cmp_holds]. rewrite Q2R_two_mul, Evs, Eps. lra.
      + eexists _, _. unfold c4, mk_c. cbn [c_lhs c_rhs c_cmp]. rewrite Ehi. cbn [xq_mul].
        split; [apply ev_var|]. split; [apply ev_bigm_hi; exact Eis|]. cbn [cmp_holds]. rewrite Q2R_two_mul, Evs, Eps. lra.
  Qed.
End AbsArm2.

(* ---------- lists of state changes *)
Definition addcs (s : lst) (cs : list constr) : lst := fold_left addc cs s.
Lemma dom_addcs : forall cs s, s_dom (addcs s cs) = s_dom s /\ s_an (addcs s cs) = s_an s /\ s_rows (addcs s cs) = s_rows s /\ s_queue (addcs s cs) = rev cs ++ s_queue s.
Proof.
  induction cs as [|c cs IH]; intros s; [repeat split; reflexivity|]. cbn [addcs fold_left]. destruct (IH (addc s c)) as [A [B [C D]]].
  unfold addcs in *. rewrite A, B, C, D. cbn [addc s_dom s_an s_rows s_queue rev]. rewrite <- app_assoc. repeat split; reflexivity.
Qed.
Lemma keys_addcs s cs : ukeys (addcs s cs) = ukeys s.
Proof. unfold ukeys. rewrite (proj1 (dom_addcs cs s)). reflexivity. Qed.
Lemma grows_addcs : forall cs s, grows s (addcs s cs).
Proof. induction cs as [|c cs IH]; intros s; [apply grows_refl|]. cbn [addcs fold_left]. eapply grows_trans; [apply grows_addc|apply IH]. Qed.
Lemma INV_addcs : forall cs s, INV s -> Forall (cgood (ukeys s)) cs -> INV (addcs s cs).
Proof.
  induction cs as [|c cs IH]; intros s I F; [exact I|]. inversion F as [|? ? Fc Fcs]; subst. cbn [addcs fold_left].
  apply IH; [apply INV_addc; assumption|exact Fcs].
Qed.
Lemma st_sat_addcs : forall cs s sigma, st_sat s sigma -> (forall c, In c cs -> sat_constr sigma c) -> st_sat (addcs s cs) sigma.
Proof.
  induction cs as [|c cs IH]; intros s sigma S H; [exact S|]. cbn [addcs fold_left].
  apply IH; [apply st_sat_addc; [exact S|apply H; left; reflexivity]|intros c' Hc'; apply H; right; exact Hc'].
Qed.
Lemma addcs_in s cs c : In c cs -> In c (s_queue (addcs s cs)).
Proof. intros H. rewrite (proj2 (proj2 (proj2 (dom_addcs cs s)))). apply in_or_app. left. apply in_rev in H. exact H. Qed.

Lemma iterM_fold {A} (F : A -> M unit) (step : A -> lst -> lst) : (forall x s, F x s = inr (tt, step x s)) ->
  forall l s, iterM F l s = inr (tt, fold_left (fun s x => step x s) l s).
Proof.
  intros HF. induction l as [|x l IH]; intros s; [reflexivity|]. cbn [iterM fold_left]. unfold bind. rewrite HF. apply IH.
Qed.
Lemma fold_addc1 {A} (f : A -> constr) : forall l s, fold_left (fun s x => addc s (f x)) l s = addcs s (map f l).
Proof. induction l as [|x l IH]; intros s; [reflexivity|]. cbn [fold_left map addcs]. rewrite IH. reflexivity. Qed.
Lemma fold_addc2 {A} (f g : A -> constr) : forall l s,
  fold_left (fun s x => addc (addc s (f x)) (g x)) l s = addcs s (flat_map (fun x => [f x; g x]) l).
Proof. induction l as [|x l IH]; intros s; [reflexivity|]. cbn [fold_left flat_map app addcs]. rewrite IH. reflexivity. Qed.

Definition decls (s : lst) (ns : list string) (t : vtype) : lst := fold_left (fun s k => decl s k t) ns s.
Lemma iterM_decl {A} (nm : A -> string) t : forall l s u s',
  iterM (fun x => declare_variable (nm x) t) l s = inr (u, s') ->
  s' = decls s (map nm l) t /\ NoDup (map nm l) /\ (forall k, In k (map nm l) -> ~ In k (akeys s)).
Proof.
  induction l as [|x l IH]; intros s u s' H.
  - inversion H; subst. split; [reflexivity|]. split; [constructor|intros k []].
  - cbn [iterM] in H. unfold bind in H. unfold declare_variable at 1 in H. destruct (al_mem (s_dom s) (nm x)) eqn:Mx; [discriminate|].
    fold (decl s (nm x) t) in H. destruct (IH _ _ _ H) as [E [ND Fr]]. cbn [map]. split; [exact E|]. split.
    + constructor; [|exact ND]. intros Hin. apply (Fr _ Hin). rewrite akeys_decl. apply in_or_app. right. left. reflexivity.
    + intros k [<-|Hk]; [apply al_mem_false_notin; exact Mx|]. intros Hin. apply (Fr _ Hk). rewrite akeys_decl. apply in_or_app. left. exact Hin.
Qed.
Lemma notin_mem_false s k : ~ In k (akeys s) -> al_mem (s_dom s) k = false.
Proof.
  intros H. destruct (al_mem (s_dom s) k) eqn:E; [|reflexivity]. exfalso. apply H. unfold al_mem in E.
  destruct (al_get (s_dom s) k) as [d|] eqn:G; [|discriminate]. apply al_get_In in G. apply in_map_iff. exists (k, d). split; [reflexivity|exact G].
Qed.
Lemma in_keys_mem s k : In k (akeys s) -> al_mem (s_dom s) k = true.
Proof. intros H. destruct (al_mem (s_dom s) k) eqn:E; [reflexivity|]. exfalso. exact (al_mem_false_notin _ _ E H). Qed.
Lemma keys_decls : forall ns s t, ukeys (decls s ns t) = ukeys s ++ ns.
Proof.
  induction ns as [|k ns IH]; intros s t; [rewrite app_nil_r; reflexivity|]. cbn [decls fold_left]. fold (decls (decl s k t) ns t).
  rewrite IH, keys_decl, <- app_assoc. reflexivity.
Qed.
Lemma decls_ok : forall ns s t, INV s -> NoDup ns -> (forall k, In k ns -> ~ In k (akeys s)) ->
  INV (decls s ns t) /\ grows s (decls s ns t).
Proof.
  induction ns as [|k ns IH]; intros s t I ND Fr; [split; [exact I|apply grows_refl]|]. inversion ND as [|? ? Nk ND']; subst.
  cbn [decls fold_left]. fold (decls (decl s k t) ns t).
  assert (Mk : al_mem (s_dom s) k = false) by (apply notin_mem_false; apply Fr; left; reflexivity).
  destruct (IH (decl s k t) t (INV_decl s k t I Mk) ND') as [I' G'].
  { intros k' Hk' Hin. rewrite akeys_decl in Hin. apply in_app_or in Hin as [Hin|[<-|[]]]; [exact (Fr k' (or_intror Hk') Hin)|contradiction]. }
  split; [exact I'|eapply grows_trans; [apply grows_decl; exact Mk|exact G']].
Qed.
Definition updL (sigma : string -> R) (ns : list string) (vals : string -> R) : string -> R :=
  fun k => if set_mem ns k then vals k else sigma k.
Lemma decls_sat : forall ns s t sigma vals, INV s -> NoDup ns -> (forall k, In k ns -> ~ In k (akeys s)) ->
  (forall k, In k ns -> in_dom t (vals k)) -> st_sat s sigma -> st_sat (decls s ns t) (updL sigma ns vals).
Proof.
  intros ns s t sigma vals I ND Fr Hv S.
  assert (A : forall k, In k (akeys s) -> sigma k = updL sigma ns vals k).
  { intros k Hk. unfold updL. destruct (set_mem ns k) eqn:E; [|reflexivity]. apply set_mem_In in E. exfalso. exact (Fr k E Hk). }
  pose proof (st_sat_agree s sigma _ I A S) as [Q [Rw D]].
  assert (Hq : s_queue (decls s ns t) = s_queue s /\ s_rows (decls s ns t) = s_rows s /\ s_dom (decls s ns t) = s_dom s ++ map (fun k => (k, mkDV t true)) ns).
  { clear. revert s. induction ns as [|k ns IH]; intros s; [cbn; rewrite app_nil_r; auto|]. cbn [decls fold_left]. fold (decls (decl s k t) ns t).
    destruct (IH (decl s k t)) as [A [B C]]. rewrite A, B, C. cbn [decl s_queue s_rows s_dom map]. rewrite <- app_assoc. auto. }
  destruct Hq as [Eq [Er Ed]]. split; [rewrite Eq; exact Q|]. split; [rewrite Er; exact Rw|].
  intros k d Hin. rewrite Ed in Hin. apply in_app_or in Hin as [Hin|Hin]; [exact (D k d Hin)|].
  apply in_map_iff in Hin as [k0 [E Hk0]]. inversion E; subst. cbn [dv_type]. unfold updL.
  rewrite (proj2 (set_mem_In ns k) Hk0). apply Hv. exact Hk0.
Qed.
Lemma updL_other sigma ns vals k : ~ In k ns -> updL sigma ns vals k = sigma k.
Proof. intros H. unfold updL. destruct (set_mem ns k) eqn:E; [apply set_mem_In in E; contradiction|reflexivity]. Qed.
Lemma updL_in sigma ns vals k : In k ns -> updL sigma ns vals k = vals k.
Proof. intros H. unfold updL. rewrite (proj2 (set_mem_In ns k) H). reflexivity. Qed.

(* sums of selector variables *)
Lemma ev_sum_vars sigma : forall ks e0 v0, ev sigma e0 = Some v0 ->
  ev sigma (fold_left add_exp (map Var ks) e0) = Some (v0 + ArmLemmas.rsum (map sigma ks)).
Proof.
  induction ks as [|k ks IH]; intros e0 v0 H0; cbn [map fold_left ArmLemmas.rsum]; [rewrite H0; f_equal; lra|].
  rewrite (IH (add_exp e0 (Var k)) (v0 + sigma k)); [f_equal; lra|].
  unfold ev, add_exp in *. rewrite evg_BinOp, H0, evg_Var. reflexivity.
Qed.
Lemma ev_sum_exps_vars sigma ks : ks <> [] -> ev sigma (sum_exps (map Var ks)) = Some (ArmLemmas.rsum (map sigma ks)).
Proof.
  destruct ks as [|k ks]; [contradiction|]. intros _. cbn [map sum_exps ArmLemmas.rsum].
  rewrite (ev_sum_vars sigma ks (Var k) (sigma k)); reflexivity.
Qed.
Lemma rsum_one_exists l : Forall bin l -> ArmLemmas.rsum l = 1 -> In 1 l.
Proof.
  induction 1 as [|x l [->| ->] _ IH]; cbn [ArmLemmas.rsum]; intros H; [lra| |left; reflexivity].
  right. apply IH. lra.
Qed.
Lemma rsum_indicator (kj : string) : forall ns, NoDup ns -> In kj ns ->
  ArmLemmas.rsum (map (fun k => if String.eqb k kj then 1 else 0) ns) = 1.
Proof.
  induction ns as [|k ns IH]; intros ND Hin; [destruct Hin|]. inversion ND as [|? ? Nk ND']; subst. cbn [map ArmLemmas.rsum].
  destruct (String.eqb k kj) eqn:E.
  - apply String.eqb_eq in E. subst k.
    assert (Z : ArmLemmas.rsum (map (fun k => if String.eqb k kj then 1 else 0) ns) = 0).
    { clear -Nk. induction ns as [|k ns IH]; [reflexivity|]. cbn [map ArmLemmas.rsum]. destruct (String.eqb k kj) eqn:E.
      - apply String.eqb_eq in E. subst. exfalso. apply Nk. left. reflexivity.
      - rewrite IH; [lra|]. intros H. apply Nk. right. exact H. }
    rewrite Z. lra.
  - destruct Hin as [->|Hin]; [rewrite String.eqb_refl in E; discriminate|]. rewrite (IH ND' Hin). lra.
Qed.

(* positions in zipped lists *)
Lemma combine3_nth {A B C} (l1 : list A) (l2 : list B) (l3 : list C) d1 d2 d3 t :
  List.length l1 = List.length l2 -> List.length l2 = List.length l3 -> In t (combine (combine l1 l2) l3) ->
  exists i, (i < List.length l1)%nat /\ t = ((nth i l1 d1, nth i l2 d2), nth i l3 d3).
Proof.
  intros L12 L23 Hin. destruct (In_nth _ _ ((d1, d2), d3) Hin) as [i [Hi E]]. exists i.
  rewrite combine_length, combine_length in Hi. split; [lia|].
  rewrite combine_nth in E by (rewrite combine_length; lia). rewrite combine_nth in E by exact L12. symmetry. exact E.
Qed.
Lemma combine3_in {A B C} (l1 : list A) (l2 : list B) (l3 : list C) d1 d2 d3 i :
  List.length l1 = List.length l2 -> List.length l2 = List.length l3 -> (i < List.length l1)%nat ->
  In ((nth i l1 d1, nth i l2 d2), nth i l3 d3) (combine (combine l1 l2) l3).
Proof.
  intros L12 L23 Hi. rewrite <- combine_nth by exact L12. rewrite <- combine_nth by (rewrite combine_length; lia).
  apply nth_In. rewrite !combine_length. lia.
Qed.
Lemma map_nth_seq {A} (l : list A) d : map (fun i => nth i l d) (seq O (List.length l)) = l.
Proof.
  apply nth_ext with (d := d) (d' := d); [rewrite map_length, seq_length; reflexivity|].
  intros i Hi. rewrite map_length, seq_length in Hi. rewrite (nth_indep _ d (nth 0 l d)) by (rewrite map_length, seq_length; exact Hi).
  rewrite (map_nth (fun i => nth i l d) (seq O (List.length l)) O i). rewrite seq_nth by exact Hi. reflexivity.
Qed.

Lemma rel_div r q x vx : Q2R q <> 0 -> rel (through_scale r (Fin q)) x vx -> rel r (x / Q2R q) (vx / Q2R q).
Proof.
  intros NZ. unfold through_scale, Rdiv. cbn [xq_ltb]. destruct (q_ltb q 0) eqn:L.
  - apply q_ltb_true in L. rewrite Q2R_0 in L. pose proof (Rinv_lt_0_compat _ L) as K.
    destruct r; cbn; intros H; try (subst; reflexivity); nra.
  - apply q_ltb_false in L. rewrite Q2R_0 in L. assert (P : 0 < Q2R q) by lra. pose proof (Rinv_0_lt_compat _ P) as K.
    destruct r; cbn; intros H; try (subst; reflexivity); nra.
Qed.
Lemma ev_binop_inv sigma op a b v : ev sigma (BinOp op a b) = Some v ->
  exists x y, ev sigma a = Some x /\ ev sigma b = Some y /\
    match op with BAnd | BOr => True | _ => ev_binop op x y = Some v end.
Proof.
  unfold ev. rewrite evg_BinOp. destruct (evg sigma false a) as [x|]; [|discriminate]. destruct (evg sigma false b) as [y|]; [|discriminate].
  intros H. exists x, y. split; [reflexivity|]. split; [reflexivity|]. destruct op; try exact H; exact I.
Qed.

Lemma ev_Num_inv sigma x v : ev sigma (Num x) = Some v -> exists q, x = Fin q /\ v = Q2R q.
Proof. apply evg_Num_inv. Qed.

Lemma grows_aget s s' k : grows s s' -> In k (ukeys s) -> a_get (s_an s') k = a_get (s_an s) k.
Proof. intros [[_ _ B] _] Hk. apply B. apply in_keys_mem. apply ukeys_sub. exact Hk. Qed.
Lemma bounds_of_grows s s' e : grows s s' -> incl (xvars e) (ukeys s) -> bounds_of (s_an s') e = bounds_of (s_an s) e.
Proof. intros G Ix. apply bounds_of_ext. intros k Hk. apply (grows_aget s s' k G). apply Ix. exact Hk. Qed.

Lemma tot_list_max l : tot (Max l) -> Forall tot l.
Proof.
  intros H. apply Forall_forall. intros e He sigma. destruct (H sigma) as [v Hv]. unfold ev in *. rewrite evg_Max in Hv.
  destruct (evlist sigma false l) as [vs|] eqn:E; [|discriminate]. clear Hv H. revert vs E. induction l as [|x l IH]; intros vs E; [destruct He|].
  cbn [evlist] in E. destruct (evg sigma false x) as [vx|] eqn:Ex; [|discriminate]. destruct (evlist sigma false l) as [vs'|] eqn:El; [|discriminate].
  destruct He as [<-|He]; [eauto|exact (IH He vs' eq_refl)].
Qed.
Lemma tot_list_min l : tot (Min l) -> Forall tot l.
Proof.
  intros H. apply Forall_forall. intros e He sigma. destruct (H sigma) as [v Hv]. unfold ev in *. rewrite evg_Min in Hv.
  destruct (evlist sigma false l) as [vs|] eqn:E; [|discriminate]. clear Hv H. revert vs E. induction l as [|x l IH]; intros vs E; [destruct He|].
  cbn [evlist] in E. destruct (evg sigma false x) as [vx|] eqn:Ex; [|discriminate]. destruct (evlist sigma false l) as [vs'|] eqn:El; [|discriminate].
  destruct He as [<-|He]; [eauto|exact (IH He vs' eq_refl)].
Qed.
Lemma evlist_len sigma t : forall l vs, evlist sigma t l = Some vs -> List.length vs = List.length l.
Proof.
  induction l as [|x l IH]; intros vs E; cbn [evlist] in E; [inversion E; reflexivity|].
  destruct (evg sigma t x); [|discriminate]. destruct (evlist sigma t l) as [vs'|]; [|discriminate]. inversion E; subst. cbn. rewrite (IH vs' eq_refl). reflexivity.
Qed.
Lemma evlist_nth sigma : forall l vs i, evlist sigma false l = Some vs -> (i < List.length l)%nat ->
  ev sigma (nth i l (Num NaN)) = Some (nth i vs 0).
Proof.
  induction l as [|x l IH]; intros vs i E Hi; [cbn in Hi; lia|]. cbn [evlist] in E.
  destruct (evg sigma false x) as [vx|] eqn:Ex; [|discriminate]. destruct (evlist sigma false l) as [vs'|] eqn:El; [|discriminate]. inversion E; subst.
  destruct i as [|i]; [exact Ex|]. cbn [nth]. apply IH; [reflexivity|cbn in Hi; lia].
Qed.
Lemma evlist_agree_ok rho sigma l : forallb okexp l = true -> (forall k, In k (flat_map xvars l) -> rho k = sigma k) ->
  evlist rho false l = evlist sigma false l.
Proof.
  intros O A. apply evlist_agree. apply Forall_forall. intros e He. apply ev_agree; [exact (proj1 (forallb_forall _ _) O e He)|].
  intros k Hk. apply A. apply in_flat_map. exists e. split; assumption.
Qed.

Lemma Forall2_nth {A B} (P : A -> B -> Prop) l m da db i : Forall2 P l m -> (i < List.length l)%nat -> P (nth i l da) (nth i m db).
Proof.
  intros F. revert i. induction F as [|x y l m Hxy _ IH]; intros i Hi; [cbn in Hi; lia|]. destruct i as [|i]; [exact Hxy|]. cbn [nth]. apply IH. cbn in Hi. lia.
Qed.
Lemma Forall2_len {A B} (P : A -> B -> Prop) l m : Forall2 P l m -> List.length l = List.length m.
Proof. induction 1; cbn; congruence. Qed.
Lemma dom_decls : forall ns s t, s_queue (decls s ns t) = s_queue s /\ s_rows (decls s ns t) = s_rows s /\
  s_dom (decls s ns t) = s_dom s ++ map (fun k => (k, mkDV t true)) ns.
Proof.
  induction ns as [|k ns IH]; intros s t; [cbn; rewrite app_nil_r; auto|]. cbn [decls fold_left]. fold (decls (decl s k t) ns t).
  destruct (IH (decl s k t) t) as [A [B C]]. rewrite A, B, C. cbn [decl s_queue s_rows s_dom map]. rewrite <- app_assoc. auto.
Qed.
Lemma plainA_sum_vars : forall ks e0, plainA e0 = true -> plainA (fold_left add_exp (map Var ks) e0) = true.
Proof. induction ks as [|k ks IH]; intros e0 H; [exact H|]. cbn [map fold_left]. apply IH. cbn [add_exp plainA]. rewrite H. reflexivity. Qed.
Lemma xvars_sum_vars : forall ks e0, xvars (fold_left add_exp (map Var ks) e0) = xvars e0 ++ ks.
Proof.
  induction ks as [|k ks IH]; intros e0; [rewrite app_nil_r; reflexivity|]. cbn [map fold_left]. rewrite IH. cbn [add_exp xvars]. rewrite <- app_assoc. reflexivity.
Qed.
Lemma sum_vars_good K ks : ks <> [] -> incl ks K -> cgood K (mk_c (sum_exps (map Var ks)) Eq (Num (Fin 1%Q))).
Proof.
  destruct ks as [|k ks]; [contradiction|]. intros _ Hin. unfold cgood, mk_c. cbn [c_assert c_lhs c_rhs map sum_exps].
  rewrite plainA_sum_vars by reflexivity. rewrite xvars_sum_vars. cbn [xvars plainA app]. repeat split; try reflexivity; [exact Hin|intros x []].
Qed.
Lemma ev_bigm_max sigma o t k p : ev sigma o = Some t ->
  ev sigma (add_exp o (mul_exp (Num (Fin k)) (sub_exp (Num (Fin 1%Q)) (Var p)))) = Some (t + Q2R k * (1 - sigma p)).
Proof.
  unfold ev, add_exp, sub_exp, mul_exp. intros H. rewrite !evg_BinOp, H, !evg_Num_Fin, evg_Var. cbn [ev_binop]. rewrite Q2R_1. reflexivity.
Qed.
Lemma ev_bigm_min sigma o t k p : ev sigma o = Some t ->
  ev sigma (sub_exp o (mul_exp (Num (Fin k)) (sub_exp (Num (Fin 1%Q)) (Var p)))) = Some (t - Q2R k * (1 - sigma p)).
Proof.
  unfold ev, sub_exp, mul_exp. intros H. rewrite !evg_BinOp, H, !evg_Num_Fin, evg_Var. cbn [ev_binop]. rewrite Q2R_1. reflexivity.
Qed.
Lemma xq_sub_Fin a b : exists c, xq_sub (Fin a) (Fin b) = Fin c /\ Q2R c = Q2R a - Q2R b.
Proof. eexists. split; [reflexivity|]. rewrite Q2R_qn, Q2R_plus, Q2R_qn, Q2R_opp. lra. Qed.

Lemma lin_spec_equiv e e' r s c s' : (forall sigma, st_sat s sigma -> ev sigma e = ev sigma e') -> lin_spec e' r s c s' -> lin_spec e r s c s'.
Proof.
  intros Hv [I1 [G1 [K1 [F1 [S1 C1]]]]]. split; [exact I1|]. split; [exact G1|]. split; [exact K1|]. split; [exact F1|]. split.
  - intros sigma v S Hev. apply S1; [exact S|]. rewrite <- (Hv sigma (st_sat_back _ _ _ G1 S)). exact Hev.
  - intros rho v S Hev. apply C1; [exact S|]. rewrite <- (Hv rho S). exact Hev.
Qed.
Lemma sub_nth {A} (l : list A) d idx : (forall i, In i idx -> (i < List.length l)%nat) -> incl (map (fun i => nth i l d) idx) l.
Proof. intros H x Hx. apply in_map_iff in Hx as [i [<- Hi]]. apply nth_In. apply H. exact Hi. Qed.
Lemma map_nth_map {A B} (f : A -> B) (l : list A) d d' idx : (forall i, In i idx -> (i < List.length l)%nat) ->
  map (fun i => nth i (map f l) d') idx = map f (map (fun i => nth i l d) idx).
Proof.
  intros H. rewrite map_map. apply map_ext_in. intros i Hi. rewrite (nth_indep _ d' (f d)) by (rewrite map_length; apply H; exact Hi). apply map_nth.
Qed.
Lemma evlist_map_nth sigma l vs idx : evlist sigma false l = Some vs -> (forall i, In i idx -> (i < List.length l)%nat) ->
  evlist sigma false (map (fun i => nth i l (Num NaN)) idx) = Some (map (fun i => nth i vs 0) idx).
Proof.
  intros E H. induction idx as [|i idx IH]; [reflexivity|]. cbn [map evlist].
  pose proof (evlist_nth sigma l vs i E (H i (or_introl eq_refl))) as Ei. unfold ev in Ei. rewrite Ei, IH by (intros j Hj; apply H; right; exact Hj). reflexivity.
Qed.
Lemma fold_max_eq M w ws : (forall x, In x (w :: ws) -> x <= M) -> In M (w :: ws) -> fold_left Rmax ws w = M.
Proof. intros Hle Hin. apply Rle_antisym; [apply Hle; apply fold_max_in|apply fold_max_ge; exact Hin]. Qed.
Lemma fold_min_eq M w ws : (forall x, In x (w :: ws) -> M <= x) -> In M (w :: ws) -> fold_left Rmin ws w = M.
Proof. intros Hle Hin. apply Rle_antisym; [apply fold_min_le; exact Hin|apply Hle; apply fold_min_in]. Qed.

(* the dominated-operand pruning keeps the value of the extreme, at every point of the state *)
Lemma prune_box l s sigma vs : INV s -> forallb okexp l = true -> incl (flat_map xvars l) (ukeys s) -> st_sat s sigma ->
  evlist sigma false l = Some vs ->
  forall i, (i < List.length (map (bounds_of (s_an s)) l))%nat -> in_b (nth i (map (bounds_of (s_an s)) l) b_unbounded) (nth i vs 0).
Proof.
  intros I Ok Ix [_ [_ D]] El i Hi. rewrite map_length in Hi.
  rewrite (nth_indep _ b_unbounded (bounds_of (s_an s) (Num NaN))) by (rewrite map_length; exact Hi). rewrite map_nth.
  assert (He : In (nth i l (Num NaN)) l) by (apply nth_In; exact Hi).
  apply (bounds_of_on (s_an s) sigma); [exact (proj1 (forallb_forall _ _) Ok _ He)| |exact (evlist_nth sigma l vs i El Hi)].
  intros k Hk. apply (inv_box s I sigma D). apply Ix. apply in_flat_map. eexists. split; [exact He|exact Hk].
Qed.
Lemma prune_value_max l s : INV s -> forallb okexp l = true -> incl (flat_map xvars l) (ukeys s) -> Forall tot l ->
  let rexps := map (fun i => nth i l (Num NaN)) (retained_indices KMax (map (bounds_of (s_an s)) l)) in
  forall sigma, st_sat s sigma -> ev sigma (Max l) = ev sigma (Max rexps).
Proof.
  intros I Ok Ix Tl rexps sigma S.
  destruct (evlist_total sigma false l) as [vs [El Lv]]; [apply Forall_forall; intros e He; exact (proj1 (Forall_forall _ _) Tl e He sigma)|].
  set (obs := map (bounds_of (s_an s)) l) in *. assert (Lo : List.length obs = List.length l) by (unfold obs; apply map_length).
  assert (Hlt : forall i, In i (retained_indices KMax obs) -> (i < List.length l)%nat) by (intros i Hi; apply retained_lt in Hi; lia).
  unfold ev. rewrite !evg_Max, El. unfold rexps. rewrite (evlist_map_nth sigma l vs _ El Hlt).
  destruct vs as [|v0 vs']; [destruct l; [|discriminate]; cbn; reflexivity|]. cbn [fold_max]. set (Mx := fold_left Rmax vs' v0).
  assert (Hmax : forall i, (i < List.length obs)%nat -> nth i (v0 :: vs') 0 <= Mx) by (intros i Hi; apply fold_max_ge; apply nth_In; lia).
  destruct (prune_max obs (v0 :: vs') Mx (prune_box l s sigma _ I Ok Ix S El) Hmax) as [r [Hr Er]].
  { destruct (In_nth _ _ 0 (fold_max_in vs' v0)) as [i [Hi Ei]]. exists i. split; [lia|exact Ei]. }
  destruct (retained_indices KMax obs) as [|i0 idx] eqn:Eret; [destruct Hr|]. cbn [map fold_max]. f_equal. symmetry. apply fold_max_eq.
  - intros x0 Hx. change (nth i0 (v0 :: vs') 0 :: map (fun i => nth i (v0 :: vs') 0) idx) with (map (fun i => nth i (v0 :: vs') 0) (i0 :: idx)) in Hx.
    apply in_map_iff in Hx as [i [<- Hi]]. apply Hmax. rewrite Lo. apply Hlt. exact Hi.
  - change (nth i0 (v0 :: vs') 0 :: map (fun i => nth i (v0 :: vs') 0) idx) with (map (fun i => nth i (v0 :: vs') 0) (i0 :: idx)).
    apply in_map_iff. exists r. split; [exact Er|exact Hr].
Qed.
Lemma prune_value_min l s : INV s -> forallb okexp l = true -> incl (flat_map xvars l) (ukeys s) -> Forall tot l ->
  let rexps := map (fun i => nth i l (Num NaN)) (retained_indices KMin (map (bounds_of (s_an s)) l)) in
  forall sigma, st_sat s sigma -> ev sigma (Min l) = ev sigma (Min rexps).
Proof.
  intros I Ok Ix Tl rexps sigma S.
  destruct (evlist_total sigma false l) as [vs [El Lv]]; [apply Forall_forall; intros e He; exact (proj1 (Forall_forall _ _) Tl e He sigma)|].
  set (obs := map (bounds_of (s_an s)) l) in *. assert (Lo : List.length obs = List.length l) by (unfold obs; apply map_length).
  assert (Hlt : forall i, In i (retained_indices KMin obs) -> (i < List.length l)%nat) by (intros i Hi; apply retained_lt in Hi; lia).
  unfold ev. rewrite !evg_Min, El. unfold rexps. rewrite (evlist_map_nth sigma l vs _ El Hlt).
  destruct vs as [|v0 vs']; [destruct l; [|discriminate]; cbn; reflexivity|]. cbn [fold_min]. set (Mn := fold_left Rmin vs' v0).
  assert (Hmin : forall i, (i < List.length obs)%nat -> Mn <= nth i (v0 :: vs') 0) by (intros i Hi; apply fold_min_le; apply nth_In; lia).
  destruct (prune_min obs (v0 :: vs') Mn (prune_box l s sigma _ I Ok Ix S El) Hmin) as [r [Hr Er]].
  { destruct (In_nth _ _ 0 (fold_min_in vs' v0)) as [i [Hi Ei]]. exists i. split; [lia|exact Ei]. }
  destruct (retained_indices KMin obs) as [|i0 idx] eqn:Eret; [destruct Hr|]. cbn [map fold_min]. f_equal. symmetry. apply fold_min_eq.
  - intros x0 Hx. change (nth i0 (v0 :: vs') 0 :: map (fun i => nth i (v0 :: vs') 0) idx) with (map (fun i => nth i (v0 :: vs') 0) (i0 :: idx)) in Hx.
    apply in_map_iff in Hx as [i [<- Hi]]. apply Hmin. rewrite Lo. apply Hlt. exact Hi.
  - change (nth i0 (v0 :: vs') 0 :: map (fun i => nth i (v0 :: vs') 0) idx) with (map (fun i => nth i (v0 :: vs') 0) (i0 :: idx)).
    apply in_map_iff. exists r. split; [exact Er|exact Hr].
Qed.

Section Extreme.
  Variable n : nat.
  Hypothesis IHn : forall e r s c s', okexp e = true -> INV s -> incl (xvars e) (ukeys s) -> tot e ->
    lin n e r s = inr (c, s') -> lin_spec e r s c s'.

  Lemma mapMM_ok oreq : forall es s ops s',
    forallb okexp es = true -> INV s -> incl (flat_map xvars es) (ukeys s) -> Forall tot es ->
    mapMM (fun e => bind (lin n e oreq) (fun v => ret (context_to_exp v))) es s = inr (ops, s') ->
    exists cs, ops = map context_to_exp cs /\ List.length cs = List.length es /\ INV s' /\ grows s s' /\ Forall (ctx_ok (ukeys s')) cs /\ Forall ctx_fin cs /\
      (forall sigma vs, st_sat s' sigma -> evlist sigma false es = Some vs -> Forall2 (fun c v => rel oreq (ctx_val sigma c) v) cs vs) /\
      (forall rho vs, st_sat s rho -> evlist rho false es = Some vs ->
         exists sigma, (forall k, In k (akeys s) -> sigma k = rho k) /\ st_sat s' sigma /\ Forall2 (fun c v => ctx_val sigma c = v) cs vs).
  Proof.
    induction es as [|x xs IH]; intros s ops s' O I Ix T H.
    - inversion H; subst. exists []. split; [reflexivity|]. split; [reflexivity|]. split; [exact I|]. split; [apply grows_refl|]. split; [constructor|]. split; [constructor|]. split.
      + intros sigma vs _ E. inversion E; subst. constructor.
      + intros rho vs S E. inversion E; subst. exists rho. split; [reflexivity|]. split; [exact S|constructor].
    - cbn [mapMM] in H. unfold bind at 1 2 in H. destruct (lin n x oreq s) as [er|[c1 s1]] eqn:E1; [discriminate|]. unfold ret at 1 in H.
      unfold bind at 1 in H. destruct (mapMM _ xs s1) as [er|[ys s2]] eqn:E2; [discriminate|]. inversion H; subst ops s'; clear H.
      cbn [forallb] in O. apply andb_true_iff in O as [Ox Oxs]. inversion T as [|? ? Tx Txs]; subst.
      cbn [flat_map] in Ix.
      assert (Ixx : incl (xvars x) (ukeys s)) by (intros k Hk; apply Ix; apply in_or_app; left; exact Hk).
      assert (Ixs : incl (flat_map xvars xs) (ukeys s)) by (intros k Hk; apply Ix; apply in_or_app; right; exact Hk).
      destruct (IHn _ _ _ _ _ Ox I Ixx Tx E1) as [I1 [G1 [K1 [F1 [S1 C1]]]]].
      destruct (IH s1 ys s2 Oxs I1 (fun k Hk => grows_keys _ _ G1 k (Ixs k Hk)) Txs E2) as [cs [Eo [Ln [I2 [G2 [K2 [F2 [S2 C2]]]]]]]].
      exists (c1 :: cs). split; [cbn [map]; rewrite Eo; reflexivity|]. split; [cbn [List.length]; rewrite Ln; reflexivity|]. split; [exact I2|]. split; [eapply grows_trans; eassumption|].
      split; [constructor; [eapply ctx_ok_mono; [apply grows_keys; exact G2|exact K1]|exact K2]|]. split; [constructor; assumption|]. split.
      + intros sigma vs S E. cbn [evlist] in E. destruct (evg sigma false x) as [vx|] eqn:Ex; [|discriminate].
        destruct (evlist sigma false xs) as [vs'|] eqn:El; [|discriminate]. inversion E; subst vs. constructor.
        * apply S1; [exact (st_sat_back _ _ _ G2 S)|exact Ex].
        * apply S2; [exact S|exact El].
      + intros rho vs S E. cbn [evlist] in E. destruct (evg rho false x) as [vx|] eqn:Ex; [|discriminate].
        destruct (evlist rho false xs) as [vs'|] eqn:El; [|discriminate]. inversion E; subst vs.
        destruct (C1 rho vx S Ex) as [sg1 [A1 [S1' V1]]].
        assert (El1 : evlist sg1 false xs = Some vs').
        { rewrite <- El. apply evlist_agree_ok; [exact Oxs|]. intros k Hk. apply A1. apply ukeys_sub. apply Ixs. exact Hk. }
        destruct (C2 sg1 vs' S1' El1) as [sg2 [A2 [S2' V2]]]. exists sg2.
        split; [intros k Hk; rewrite A2 by (apply (grows_akeys _ _ G1); exact Hk); apply A1; exact Hk|]. split; [exact S2'|].
        constructor; [|exact V2]. rewrite <- V1. apply ctx_val_agree. intros k Hk. apply A2. apply ukeys_sub. destruct K1 as [_ K1]. apply K1. exact Hk.
  Qed.
  Lemma ev_max_inv sigma l v : ev sigma (Max l) = Some v -> exists v0 vs, evlist sigma false l = Some (v0 :: vs) /\ v = fold_left Rmax vs v0.
  Proof.
    unfold ev. rewrite evg_Max. destruct (evlist sigma false l) as [[|v0 vs]|]; try discriminate. cbn [fold_max]. intros H. inversion H. eauto.
  Qed.
  Lemma ev_min_inv sigma l v : ev sigma (Min l) = Some v -> exists v0 vs, evlist sigma false l = Some (v0 :: vs) /\ v = fold_left Rmin vs v0.
  Proof.
    unfold ev. rewrite evg_Min. destruct (evlist sigma false l) as [[|v0 vs]|]; try discriminate. cbn [fold_min]. intros H. inversion H. eauto.
  Qed.
  Lemma ops_cgood K var (cmpk : cmp) cs : In var K -> Forall (ctx_ok K) cs -> Forall ctx_fin cs ->
    Forall (cgood K) (map (fun o => mk_c (Var var) cmpk o) (map context_to_exp cs)).
  Proof.
    intros Hv Kc Fc. apply Forall_forall. intros c Hc. apply in_map_iff in Hc as [o [<- Ho]]. apply in_map_iff in Ho as [cx [<- Hcx]].
    pose proof (proj1 (Forall_forall _ _) Kc cx Hcx) as [_ Kx]. pose proof (proj1 (Forall_forall _ _) Fc cx Hcx) as Fx.
    unfold cgood, mk_c. cbn [c_assert c_lhs c_rhs plainA xvars]. rewrite (plainA_ctx cx Fx), xvars_ctx.
    repeat split; try reflexivity; [intros k [<-|[]]; exact Hv|exact Kx].
  Qed.

  Section MaxArm.
    Variables (exps : list exp) (s0 : lst) (cnt : list (string * N)) (var : string).
    Let eb := bounds_of (s_an s0) (Max exps).
    Let T := TReal (lo eb) (hi eb).
    Let s1 := decl (set_cnt s0 cnt) var T.
    Hypothesis Oe : forallb okexp exps = true.
    Hypothesis Ne : exps <> [].
    Hypothesis I0 : INV s0.
    Hypothesis Ix : incl (flat_map xvars exps) (ukeys s0).
    Hypothesis Tt : Forall tot exps.
    Hypothesis Mv : al_mem (s_dom s0) var = false.

    Lemma max_bounds rho v : st_sat s0 rho -> ev rho (Max exps) = Some v -> in_b eb v.
    Proof.
      intros [_ [_ D]] Hv. apply (bounds_of_on (s_an s0) rho (Max exps) v); [|intros k Hk; rewrite xvars_Max in Hk; apply (inv_box s0 I0 rho D); apply Ix; exact Hk|exact Hv].
      rewrite okexp_Max. destruct exps; [contradiction|exact Oe].
    Qed.
    Lemma max_setup : INV s1 /\ grows s0 s1 /\ In var (ukeys s1) /\ incl (flat_map xvars exps) (ukeys s1).
    Proof.
      assert (I1 : INV s1) by (apply INV_decl; [apply INV_set_cnt; exact I0|exact Mv]).
      assert (G : grows s0 s1) by (eapply grows_trans; [apply grows_set_cnt|apply grows_decl; exact Mv]).
      split; [exact I1|]. split; [exact G|]. split; [unfold s1; rewrite keys_decl; apply in_or_app; right; left; reflexivity|].
      intros k Hk. apply (grows_keys _ _ G). apply Ix. exact Hk.
    Qed.

    Lemma max_lower ops s2 :
      mapMM (fun e => bind (lin n e PreferLower) (fun v => ret (context_to_exp v))) exps s1 = inr (ops, s2) ->
      lin_spec (Max exps) PreferLower s0 (l_from_var var (Fin 1%Q)) (addcs s2 (map (fun o => mk_c (Var var) Ge o) ops)).
    Proof.
      intros HM. destruct max_setup as [I1 [G01 [Hv1 Ix1]]].
      destruct (mapMM_ok PreferLower exps s1 ops s2 Oe I1 Ix1 Tt HM) as [cs [Eo [_ [I2 [G12 [K2 [F2 [S2 C2]]]]]]]].
      assert (Hv2 : In var (ukeys s2)) by (apply (grows_keys _ _ G12); exact Hv1).
      set (rows := map (fun o => mk_c (Var var) Ge o) ops). set (s3 := addcs s2 rows).
      assert (Gr : Forall (cgood (ukeys s2)) rows) by (unfold rows; rewrite Eo; apply ops_cgood; assumption).
      assert (Hrow : forall c, In c cs -> In (mk_c (Var var) Ge (context_to_exp c)) rows).
      { intros c Hc. unfold rows. rewrite Eo, map_map. apply in_map_iff. exists c. split; [reflexivity|exact Hc]. }
      split; [apply INV_addcs; assumption|]. split; [eapply grows_trans; [exact G01|eapply grows_trans; [exact G12|apply grows_addcs]]|].
      split; [apply from_var_ok; unfold s3; rewrite keys_addcs; exact Hv2|]. split; [exact (proj1 (from_var_one (fun _ => 0) var))|]. split.
      - intros sigma v S Hv. destruct (ev_max_inv _ _ _ Hv) as [v0 [vs [El ->]]].
        assert (S2s : st_sat s2 sigma) by exact (st_sat_back _ _ _ (grows_addcs rows s2) S).
        pose proof (S2 sigma _ S2s El) as F. rewrite (proj2 (from_var_one sigma var)). cbn [rel].
        destruct (Forall2_in_right _ _ _ _ F (fold_max_in vs v0)) as [c [Hc Hrel]]. cbn [rel] in Hrel.
        destruct S as [Q _]. destruct (Q _ (addcs_in s2 rows _ (Hrow c Hc))) as [l [r [El' [Er' H]]]].
        unfold mk_c in El', Er', H. cbn [c_lhs c_rhs c_cmp cmp_holds] in *. rewrite ev_var in El'.
        rewrite (context_to_exp_sound sigma c (proj1 (Forall_forall _ _) F2 c Hc)) in Er'. injection El' as <-. injection Er' as <-. lra.
      - intros rho v S Hv. destruct (ev_max_inv _ _ _ Hv) as [v0 [vs [El ->]]]. set (Mx := fold_left Rmax vs v0) in *.
        pose proof (max_bounds rho Mx S Hv) as Bm.
        destruct (st_sat_decl (set_cnt s0 cnt) var T rho Mx (INV_set_cnt _ _ I0) Mv Bm S) as [S1' A1]. fold s1 in S1'.
        set (sg1 := updR rho var Mx) in *.
        assert (El1 : evlist sg1 false exps = Some (v0 :: vs)).
        { rewrite <- El. apply evlist_agree_ok; [exact Oe|]. intros k Hk. apply A1. apply ukeys_sub. apply Ix. exact Hk. }
        destruct (C2 sg1 _ S1' El1) as [sg2 [A2 [S2' V2]]].
        assert (Ev : sg2 var = Mx) by (rewrite A2 by (apply ukeys_sub; exact Hv1); apply updR_same).
        exists sg2. split; [intros k Hk; rewrite A2 by (apply (grows_akeys _ _ G01); exact Hk); apply A1; exact Hk|].
        split; [|rewrite (proj2 (from_var_one sg2 var)); exact Ev].
        apply st_sat_addcs; [exact S2'|]. intros c Hc. unfold rows in Hc. rewrite Eo, map_map in Hc. apply in_map_iff in Hc as [cx [<- Hcx]].
        destruct (Forall2_in_left _ _ _ _ V2 Hcx) as [w [Hw Ew]].
        exists (sg2 var), w. unfold mk_c. cbn [c_lhs c_rhs c_cmp cmp_holds]. split; [apply ev_var|].
        split; [rewrite (context_to_exp_sound sg2 cx (proj1 (Forall_forall _ _) F2 cx Hcx)), Ew; reflexivity|].
        rewrite Ev. apply Rle_ge. apply fold_max_ge. exact Hw.
    Qed.
    (* exact: selectors *)
    Variables (sel : nat -> string) (U : Q).
    Hypothesis Hhi : hi eb = Fin U.
    Hypothesis Hlo : forall e, In e exps -> exists l, lo (bounds_of (s_an s0) e) = Fin l.
    Let obs := map (bounds_of (s_an s0)) exps.
    Let fmax (t : (exp * bounds) * exp) : constr := mk_c (Var var) Ge (fst (fst t)).
    Let gmax (t : (exp * bounds) * exp) : constr :=
      mk_c (Var var) Le (add_exp (fst (fst t)) (mul_exp (Num (xq_sub (hi eb) (lo (snd (fst t))))) (sub_exp (Num (Fin 1%Q)) (snd t)))).

    Lemma max_exact r ops s2 u3 s3 :
      mapMM (fun e => bind (lin n e Exact) (fun v => ret (context_to_exp v))) exps s1 = inr (ops, s2) ->
      iterM (fun i => declare_variable (sel i) TBoolean) (seq O (List.length ops)) s2 = inr (u3, s3) ->
      let sels := map (fun i => Var (sel i)) (seq O (List.length ops)) in
      lin_spec (Max exps) r s0 (l_from_var var (Fin 1%Q))
        (addc (addcs s3 (flat_map (fun t => [fmax t; gmax t]) (combine (combine ops obs) sels))) (mk_c (sum_exps sels) Eq (Num (Fin 1%Q)))).
    Proof.
      intros HM HD sels. destruct max_setup as [I1 [G01 [Hv1 Ix1]]].
      destruct (mapMM_ok Exact exps s1 ops s2 Oe I1 Ix1 Tt HM) as [cs [Eo [Lc [I2 [G12 [K2 [F2 [S2 C2]]]]]]]].
      set (m := List.length exps) in *.
      assert (Lo : List.length ops = m) by (rewrite Eo, map_length; exact Lc).
      set (ns := map sel (seq O (List.length ops))).
      assert (Esel : sels = map Var ns) by (unfold sels, ns; rewrite map_map; reflexivity).
      destruct (iterM_decl sel TBoolean _ _ _ _ HD) as [E3 [NDn Frn]]. fold ns in E3, NDn, Frn.
      destruct (decls_ok ns s2 TBoolean I2 NDn Frn) as [I3 G23]. rewrite <- E3 in I3, G23.
      assert (Ln : List.length ns = m) by (unfold ns; rewrite map_length, seq_length; exact Lo).
      assert (Lb : List.length obs = m) by (unfold obs; rewrite map_length; reflexivity).
      assert (Ls : List.length sels = m) by (rewrite Esel, map_length; exact Ln).
      assert (Mpos : (0 < m)%nat) by (unfold m; destruct exps; [contradiction|cbn; lia]).
      assert (K3 : ukeys s3 = ukeys s2 ++ ns) by (rewrite E3; apply keys_decls).
      assert (Hv2 : In var (ukeys s2)) by (apply (grows_keys _ _ G12); exact Hv1).
      assert (Hv3 : In var (ukeys s3)) by (rewrite K3; apply in_or_app; left; exact Hv2).
      assert (Nvar : ~ In var ns) by (intros H; exact (Frn var H (ukeys_sub _ _ Hv2))).
      set (zipped := combine (combine ops obs) sels).
      (* what a tuple is *)
      assert (Htup : forall t, In t zipped -> exists i, (i < m)%nat /\
                t = ((context_to_exp (nth i cs l_new), bounds_of (s_an s0) (nth i exps (Num NaN))), Var (nth i ns ""%string))).
      { intros t Ht. destruct (combine3_nth ops obs sels (context_to_exp l_new) (bounds_of (s_an s0) (Num NaN)) (Var ""%string) t) as [i [Hi Et]];
          [lia|lia|exact Ht|]. exists i. split; [lia|]. rewrite Et. rewrite Eo, Esel. unfold obs. rewrite !map_nth. reflexivity. }
      assert (Hin_tup : forall i, (i < m)%nat ->
                In ((context_to_exp (nth i cs l_new), bounds_of (s_an s0) (nth i exps (Num NaN))), Var (nth i ns ""%string)) zipped).
      { intros i Hi. pose proof (combine3_in ops obs sels (context_to_exp l_new) (bounds_of (s_an s0) (Num NaN)) (Var ""%string) i) as H.
        rewrite Eo, Esel in H. unfold obs in H. rewrite !map_nth in H. unfold zipped. rewrite Eo, Esel. unfold obs. apply H; rewrite ?map_length; lia. }
      assert (Hlo_i : forall i, (i < m)%nat -> exists l, lo (bounds_of (s_an s0) (nth i exps (Num NaN))) = Fin l) by (intros i Hi; apply Hlo; apply nth_In; exact Hi).
      assert (Hc_i : forall i, (i < m)%nat -> ctx_fin (nth i cs l_new) /\ incl (ckeys (nth i cs l_new)) (ukeys s2)).
      { intros i Hi. assert (Hc : In (nth i cs l_new) cs) by (apply nth_In; lia).
        split; [exact (proj1 (Forall_forall _ _) F2 _ Hc)|exact (proj2 (proj1 (Forall_forall _ _) K2 _ Hc))]. }
      set (rows := flat_map (fun t => [fmax t; gmax t]) zipped). set (sumc := mk_c (sum_exps sels) Eq (Num (Fin 1%Q))).
      assert (Gr : Forall (cgood (ukeys s3)) rows).
      { apply Forall_forall. intros c Hc. apply in_flat_map in Hc as [t [Ht Hc]]. destruct (Htup t Ht) as [i [Hi Et]].
        destruct (Hc_i i Hi) as [Fi Ki]. destruct (Hlo_i i Hi) as [li Eli].
        assert (Hk : In (nth i ns ""%string) (ukeys s3)) by (rewrite K3; apply in_or_app; right; apply nth_In; lia).
        assert (Kc : incl (ckeys (nth i cs l_new)) (ukeys s3)) by (intros k Hk'; rewrite K3; apply in_or_app; left; apply Ki; exact Hk').
        destruct Hc as [<-|[<-|[]]]; subst t; unfold fmax, gmax, cgood, mk_c, add_exp, mul_exp, sub_exp; cbn [fst snd c_assert c_lhs c_rhs].
        - cbn [plainA xvars]. rewrite (plainA_ctx _ Fi), xvars_ctx. repeat split; try reflexivity; [intros k [<-|[]]; exact Hv3|exact Kc].
        - rewrite Hhi, Eli. destruct (xq_sub_Fin U li) as [d [-> _]]. cbn [plainA xvars]. rewrite (plainA_ctx _ Fi), xvars_ctx.
          repeat split; try reflexivity; [intros k [<-|[]]; exact Hv3|].
          intros k Hk'. apply in_app_or in Hk' as [Hk'|Hk']; [apply Kc; exact Hk'|]. cbn in Hk'. destruct Hk' as [<-|[]]. exact Hk. }
      assert (Gs : cgood (ukeys s3) sumc).
      { unfold sumc. rewrite Esel. apply sum_vars_good; [intros E; rewrite E in Ln; cbn in Ln; lia|]. intros k Hk. rewrite K3. apply in_or_app. right. exact Hk. }
      set (s4 := addcs s3 rows). set (s5 := addc s4 sumc).
      assert (I5 : INV s5) by (apply INV_addc; [apply INV_addcs; assumption|unfold s4; rewrite keys_addcs; exact Gs]).
      assert (G35 : grows s3 s5) by (eapply grows_trans; [apply grows_addcs|apply grows_addc]).
      assert (G25 : grows s2 s5) by (eapply grows_trans; eassumption).
      split; [exact I5|]. split; [eapply grows_trans; [exact G01|eapply grows_trans; [exact G12|exact G25]]|].
      split; [apply from_var_ok; apply (grows_keys _ _ G35); exact Hv3|]. split; [exact (proj1 (from_var_one (fun _ => 0) var))|]. split.
      - (* a point of the new state *)
        intros sigma v S Hv. destruct (ev_max_inv _ _ _ Hv) as [v0 [vs [El ->]]]. set (Mx := fold_left Rmax vs v0).
        assert (S2s : st_sat s2 sigma) by exact (st_sat_back _ _ _ G25 S).
        pose proof (S2 sigma _ S2s El) as F. cbn [rel] in F. pose proof (Forall2_len _ _ _ F) as Lv.
        destruct S as [Q [_ D]].
        assert (Hval : forall i, (i < m)%nat -> ev sigma (context_to_exp (nth i cs l_new)) = Some (nth i (v0 :: vs) 0)).
        { intros i Hi. rewrite (context_to_exp_sound sigma _ (proj1 (Hc_i i Hi))). f_equal. apply (Forall2_nth _ cs (v0 :: vs) l_new 0 i F). lia. }
        assert (Hq : forall c, In c rows -> sat_constr sigma c).
        { intros c Hc. apply Q. right. apply addcs_in. exact Hc. }
        assert (Hge : forall i, (i < m)%nat -> sigma var >= nth i (v0 :: vs) 0).
        { intros i Hi.
          assert (Hin : In (fmax ((context_to_exp (nth i cs l_new), bounds_of (s_an s0) (nth i exps (Num NaN))), Var (nth i ns ""%string))) rows)
            by (apply in_flat_map; eexists; split; [exact (Hin_tup i Hi)|left; reflexivity]).
          destruct (Hq _ Hin) as [l [r0 [El' [Er' H]]]]. pose proof (Hval i Hi) as Hvi. remember (nth i (v0 :: vs) 0) as w eqn:Ew. clear Ew.
          unfold fmax, mk_c in El', Er', H. cbn [fst snd c_lhs c_rhs c_cmp cmp_holds] in El', Er', H. rewrite ev_var in El'. rewrite Hvi in Er'.
          injection El' as <-. injection Er' as <-. exact H. }
        assert (Bn : Forall bin (map sigma ns)).
        { apply Forall_forall. intros x Hx. apply in_map_iff in Hx as [k [<- Hk]]. apply (D k (mkDV TBoolean true)).
          unfold s5, s4. cbn [addc s_dom]. rewrite (proj1 (dom_addcs rows s3)), E3, (proj2 (proj2 (dom_decls ns s2 TBoolean))).
          apply in_or_app. right. apply in_map_iff. exists k. split; [reflexivity|exact Hk]. }
        assert (Hsum : ArmLemmas.rsum (map sigma ns) = 1).
        { destruct (Q sumc (or_introl eq_refl)) as [l [r0 [El' [Er' H]]]]. unfold sumc, mk_c in El', Er', H. cbn [c_lhs c_rhs c_cmp cmp_holds] in *.
          rewrite Esel, ev_sum_exps_vars in El' by (intros E; rewrite E in Ln; cbn in Ln; lia). unfold ev in Er'. rewrite evg_Num_Fin, Q2R_1 in Er'.
          injection El' as <-. injection Er' as <-. exact H. }
        destruct (proj1 (in_map_iff _ _ _) (rsum_one_exists _ Bn Hsum)) as [kj [Ekj Hkj]].
        destruct (In_nth _ _ ""%string Hkj) as [j [Hj Ej]]. rewrite Ln in Hj.
        assert (Hle : sigma var <= nth j (v0 :: vs) 0).
        { assert (Hin : In (gmax ((context_to_exp (nth j cs l_new), bounds_of (s_an s0) (nth j exps (Num NaN))), Var (nth j ns ""%string))) rows)
            by (apply in_flat_map; eexists; split; [exact (Hin_tup j Hj)|right; left; reflexivity]).
          destruct (Hq _ Hin) as [l [r0 [El' [Er' H]]]]. pose proof (Hval j Hj) as Hvj. remember (nth j (v0 :: vs) 0) as w eqn:Ew. clear Ew.
          unfold gmax, mk_c in El', Er', H. cbn [fst snd c_lhs c_rhs c_cmp cmp_holds] in El', Er', H. rewrite ev_var in El'.
          destruct (Hlo_i j Hj) as [lj Elj]. rewrite Hhi, Elj in Er'. destruct (xq_sub_Fin U lj) as [d [Ed _]]. rewrite Ed in Er'.
          rewrite (ev_bigm_max _ _ _ _ _ Hvj) in Er'. injection El' as <-. injection Er' as <-. rewrite Ej, Ekj in H. lra. }
        rewrite (proj2 (from_var_one sigma var)).
        assert (E : sigma var = Mx).
        { apply Rle_antisym.
          - apply Rle_trans with (nth j (v0 :: vs) 0); [exact Hle|]. apply fold_max_ge. apply nth_In. rewrite <- Lv. lia.
          - destruct (In_nth _ _ 0 (fold_max_in vs v0)) as [i [Hi Ei]]. fold Mx in Ei. rewrite <- Ei. apply Rge_le. apply Hge. rewrite Lv in *. lia. }
        rewrite E. apply rel_eq.
      - (* a point of the old state extends *)
        intros rho v S Hv. destruct (ev_max_inv _ _ _ Hv) as [v0 [vs [El ->]]]. set (Mx := fold_left Rmax vs v0) in *.
        pose proof (max_bounds rho Mx S Hv) as Bm.
        destruct (st_sat_decl (set_cnt s0 cnt) var T rho Mx (INV_set_cnt _ _ I0) Mv Bm S) as [S1' A1]. fold s1 in S1'.
        set (sg1 := updR rho var Mx) in *.
        assert (El1 : evlist sg1 false exps = Some (v0 :: vs)).
        { rewrite <- El. apply evlist_agree_ok; [exact Oe|]. intros k Hk. apply A1. apply ukeys_sub. apply Ix. exact Hk. }
        destruct (C2 sg1 _ S1' El1) as [sg2 [A2 [S2' V2]]]. pose proof (Forall2_len _ _ _ V2) as Lv.
        destruct (In_nth _ _ 0 (fold_max_in vs v0)) as [j [Hj Ej]]. fold Mx in Ej. rewrite <- Lv, Lc in Hj. fold m in Hj.
        set (kj := nth j ns ""%string). set (vals := fun k : string => if String.eqb k kj then 1 else 0).
        assert (Sat3 : st_sat s3 (updL sg2 ns vals)).
        { rewrite E3. apply decls_sat; [exact I2|exact NDn|exact Frn| |exact S2']. intros k _. unfold vals. destruct (String.eqb k kj); [right|left]; reflexivity. }
        set (sg3 := updL sg2 ns vals) in *.
        assert (A3 : forall k, In k (akeys s2) -> sg3 k = sg2 k) by (intros k Hk; apply updL_other; intros H; exact (Frn k H Hk)).
        assert (Ev : sg3 var = Mx) by (rewrite A3 by (apply ukeys_sub; exact Hv2); rewrite A2 by (apply ukeys_sub; exact Hv1); apply updR_same).
        assert (Hval : forall i, (i < m)%nat -> ev sg3 (context_to_exp (nth i cs l_new)) = Some (nth i (v0 :: vs) 0)).
        { intros i Hi. destruct (Hc_i i Hi) as [Fi Ki]. rewrite (context_to_exp_sound sg3 _ Fi). f_equal.
          rewrite (ctx_val_agree sg3 sg2) by (intros k Hk; apply A3; apply ukeys_sub; apply Ki; exact Hk).
          apply (Forall2_nth _ cs (v0 :: vs) l_new 0 i V2). lia. }
        assert (Hvb : forall i, (i < m)%nat -> in_b (bounds_of (s_an s0) (nth i exps (Num NaN))) (nth i (v0 :: vs) 0)).
        { intros i Hi. destruct S as [_ [_ D]]. assert (He : In (nth i exps (Num NaN)) exps) by (apply nth_In; exact Hi).
          apply (bounds_of_on (s_an s0) rho); [exact (proj1 (forallb_forall _ _) Oe _ He)| |exact (evlist_nth rho exps _ i El Hi)].
          intros k Hk. apply (inv_box s0 I0 rho D). apply Ix. apply in_flat_map. eexists. split; [exact He|exact Hk]. }
        exists sg3. split; [intros k Hk; rewrite A3 by (apply (grows_akeys _ _ G12); apply (grows_akeys _ _ G01); exact Hk);
                            rewrite A2 by (apply (grows_akeys _ _ G01); exact Hk); apply A1; exact Hk|].
        split; [|rewrite (proj2 (from_var_one sg3 var)); exact Ev].
        apply st_sat_addc; [apply st_sat_addcs; [exact Sat3|]|].
        + intros c Hc. apply in_flat_map in Hc as [t [Ht Hc]]. destruct (Htup t Ht) as [i [Hi Et]]. subst t.
          assert (Hvi : nth i (v0 :: vs) 0 <= Mx) by (apply fold_max_ge; apply nth_In; rewrite <- Lv, Lc; exact Hi).
          destruct Hc as [<-|[<-|[]]].
          * eexists _, _. unfold fmax, mk_c. cbn [fst snd c_lhs c_rhs c_cmp cmp_holds]. split; [apply ev_var|]. split; [exact (Hval i Hi)|]. rewrite Ev. lra.
          * destruct (Hlo_i i Hi) as [li Eli]. destruct (xq_sub_Fin U li) as [d [Ed Vd]].
            eexists _, _. unfold gmax, mk_c. cbn [fst snd c_lhs c_rhs c_cmp cmp_holds]. rewrite Hhi, Eli, Ed.
            split; [apply ev_var|]. split; [apply ev_bigm_max; exact (Hval i Hi)|]. rewrite Ev, Vd.
            assert (Ek : sg3 (nth i ns ""%string) = vals (nth i ns ""%string)) by (apply updL_in; apply nth_In; lia). rewrite Ek. unfold vals.
            destruct (String.eqb (nth i ns ""%string) kj) eqn:Eq.
            -- apply String.eqb_eq in Eq. unfold kj in Eq. apply (proj1 (NoDup_nth ns ""%string) NDn) in Eq; [|lia|lia]. subst i. rewrite Ej. lra.
            -- destruct (Hvb i Hi) as [B1 _]. rewrite Eli in B1. cbn [xq_le_R] in B1. destruct Bm as [_ B2]. fold eb in B2. rewrite Hhi in B2. cbn [R_le_xq] in B2. lra.
        + eexists _, _. unfold sumc, mk_c. cbn [c_lhs c_rhs c_cmp cmp_holds]. rewrite Esel.
          split; [apply ev_sum_exps_vars; intros E; rewrite E in Ln; cbn in Ln; lia|]. split; [unfold ev; rewrite evg_Num_Fin, Q2R_1; reflexivity|].
          rewrite (map_ext_in sg3 vals) by (intros k Hk; apply updL_in; exact Hk). apply rsum_indicator; [exact NDn|apply nth_In; lia].
    Qed.
  End MaxArm.

  Section MinArm.
    Variables (exps : list exp) (s0 : lst) (cnt : list (string * N)) (var : string).
    Let eb := bounds_of (s_an s0) (Min exps).
    Let T := TReal (lo eb) (hi eb).
    Let s1 := decl (set_cnt s0 cnt) var T.
    Hypothesis Oe : forallb okexp exps = true.
    Hypothesis Ne : exps <> [].
    Hypothesis I0 : INV s0.
    Hypothesis Ix : incl (flat_map xvars exps) (ukeys s0).
    Hypothesis Tt : Forall tot exps.
    Hypothesis Mv : al_mem (s_dom s0) var = false.

    Lemma min_bounds rho v : st_sat s0 rho -> ev rho (Min exps) = Some v -> in_b eb v.
    Proof.
      intros [_ [_ D]] Hv. apply (bounds_of_on (s_an s0) rho (Min exps) v); [|intros k Hk; rewrite xvars_Min in Hk; apply (inv_box s0 I0 rho D); apply Ix; exact Hk|exact Hv].
      rewrite okexp_Min. destruct exps; [contradiction|exact Oe].
    Qed.
    Lemma min_setup : INV s1 /\ grows s0 s1 /\ In var (ukeys s1) /\ incl (flat_map xvars exps) (ukeys s1).
    Proof.
      assert (I1 : INV s1) by (apply INV_decl; [apply INV_set_cnt; exact I0|exact Mv]).
      assert (G : grows s0 s1) by (eapply grows_trans; [apply grows_set_cnt|apply grows_decl; exact Mv]).
      split; [exact I1|]. split; [exact G|]. split; [unfold s1; rewrite keys_decl; apply in_or_app; right; left; reflexivity|].
      intros k Hk. apply (grows_keys _ _ G). apply Ix. exact Hk.
    Qed.

    Lemma min_upper ops s2 :
      mapMM (fun e => bind (lin n e PreferHigher) (fun v => ret (context_to_exp v))) exps s1 = inr (ops, s2) ->
      lin_spec (Min exps) PreferHigher s0 (l_from_var var (Fin 1%Q)) (addcs s2 (map (fun o => mk_c (Var var) Le o) ops)).
    Proof.
      intros HM. destruct min_setup as [I1 [G01 [Hv1 Ix1]]].
      destruct (mapMM_ok PreferHigher exps s1 ops s2 Oe I1 Ix1 Tt HM) as [cs [Eo [_ [I2 [G12 [K2 [F2 [S2 C2]]]]]]]].
      assert (Hv2 : In var (ukeys s2)) by (apply (grows_keys _ _ G12); exact Hv1).
      set (rows := map (fun o => mk_c (Var var) Le o) ops). set (s3 := addcs s2 rows).
      assert (Gr : Forall (cgood (ukeys s2)) rows) by (unfold rows; rewrite Eo; apply ops_cgood; assumption).
      assert (Hrow : forall c, In c cs -> In (mk_c (Var var) Le (context_to_exp c)) rows).
      { intros c Hc. unfold rows. rewrite Eo, map_map. apply in_map_iff. exists c. split; [reflexivity|exact Hc]. }
      split; [apply INV_addcs; assumption|]. split; [eapply grows_trans; [exact G01|eapply grows_trans; [exact G12|apply grows_addcs]]|].
      split; [apply from_var_ok; unfold s3; rewrite keys_addcs; exact Hv2|]. split; [exact (proj1 (from_var_one (fun _ => 0) var))|]. split.
      - intros sigma v S Hv. destruct (ev_min_inv _ _ _ Hv) as [v0 [vs [El ->]]].
        assert (S2s : st_sat s2 sigma) by exact (st_sat_back _ _ _ (grows_addcs rows s2) S).
        pose proof (S2 sigma _ S2s El) as F. rewrite (proj2 (from_var_one sigma var)). cbn [rel].
        destruct (Forall2_in_right _ _ _ _ F (fold_min_in vs v0)) as [c [Hc Hrel]]. cbn [rel] in Hrel.
        destruct S as [Q _]. destruct (Q _ (addcs_in s2 rows _ (Hrow c Hc))) as [l [r [El' [Er' H]]]].
        unfold mk_c in El', Er', H. cbn [c_lhs c_rhs c_cmp cmp_holds] in *. rewrite ev_var in El'.
        rewrite (context_to_exp_sound sigma c (proj1 (Forall_forall _ _) F2 c Hc)) in Er'. injection El' as <-. injection Er' as <-. lra.
      - intros rho v S Hv. destruct (ev_min_inv _ _ _ Hv) as [v0 [vs [El ->]]]. set (Mn := fold_left Rmin vs v0) in *.
        pose proof (min_bounds rho Mn S Hv) as Bm.
        destruct (st_sat_decl (set_cnt s0 cnt) var T rho Mn (INV_set_cnt _ _ I0) Mv Bm S) as [S1' A1]. fold s1 in S1'.
        set (sg1 := updR rho var Mn) in *.
        assert (El1 : evlist sg1 false exps = Some (v0 :: vs)).
        { rewrite <- El. apply evlist_agree_ok; [exact Oe|]. intros k Hk. apply A1. apply ukeys_sub. apply Ix. exact Hk. }
        destruct (C2 sg1 _ S1' El1) as [sg2 [A2 [S2' V2]]].
        assert (Ev : sg2 var = Mn) by (rewrite A2 by (apply ukeys_sub; exact Hv1); apply updR_same).
        exists sg2. split; [intros k Hk; rewrite A2 by (apply (grows_akeys _ _ G01); exact Hk); apply A1; exact Hk|].
        split; [|rewrite (proj2 (from_var_one sg2 var)); exact Ev].
        apply st_sat_addcs; [exact S2'|]. intros c Hc. unfold rows in Hc. rewrite Eo, map_map in Hc. apply in_map_iff in Hc as [cx [<- Hcx]].
        destruct (Forall2_in_left _ _ _ _ V2 Hcx) as [w [Hw Ew]].
        exists (sg2 var), w. unfold mk_c. cbn [c_lhs c_rhs c_cmp cmp_holds]. split; [apply ev_var|].
        split; [rewrite (context_to_exp_sound sg2 cx (proj1 (Forall_forall _ _) F2 cx Hcx)), Ew; reflexivity|].
        rewrite Ev. apply fold_min_le. exact Hw.
    Qed.
    (* exact: selectors *)
    Variables (sel : nat -> string) (U : Q).
    Hypothesis Hhi : lo eb = Fin U.
    Hypothesis Hlo : forall e, In e exps -> exists l, hi (bounds_of (s_an s0) e) = Fin l.
    Let obs := map (bounds_of (s_an s0)) exps.
    Let fmin (t : (exp * bounds) * exp) : constr := mk_c (Var var) Le (fst (fst t)).
    Let gmin (t : (exp * bounds) * exp) : constr :=
      mk_c (Var var) Ge (sub_exp (fst (fst t)) (mul_exp (Num (xq_sub (hi (snd (fst t))) (lo eb))) (sub_exp (Num (Fin 1%Q)) (snd t)))).

    Lemma min_exact r ops s2 u3 s3 :
      mapMM (fun e => bind (lin n e Exact) (fun v => ret (context_to_exp v))) exps s1 = inr (ops, s2) ->
      iterM (fun i => declare_variable (sel i) TBoolean) (seq O (List.length ops)) s2 = inr (u3, s3) ->
      let sels := map (fun i => Var (sel i)) (seq O (List.length ops)) in
      lin_spec (Min exps) r s0 (l_from_var var (Fin 1%Q))
        (addc (addcs s3 (flat_map (fun t => [fmin t; gmin t]) (combine (combine ops obs) sels))) (mk_c (sum_exps sels) Eq (Num (Fin 1%Q)))).
    Proof.
      intros HM HD sels. destruct min_setup as [I1 [G01 [Hv1 Ix1]]].
      destruct (mapMM_ok Exact exps s1 ops s2 Oe I1 Ix1 Tt HM) as [cs [Eo [Lc [I2 [G12 [K2 [F2 [S2 C2]]]]]]]].
      set (m := List.length exps) in *.
      assert (Lo : List.length ops = m) by (rewrite Eo, map_length; exact Lc).
      set (ns := map sel (seq O (List.length ops))).
      assert (Esel : sels = map Var ns) by (unfold sels, ns; rewrite map_map; reflexivity).
      destruct (iterM_decl sel TBoolean _ _ _ _ HD) as [E3 [NDn Frn]]. fold ns in E3, NDn, Frn.
      destruct (decls_ok ns s2 TBoolean I2 NDn Frn) as [I3 G23]. rewrite <- E3 in I3, G23.
      assert (Ln : List.length ns = m) by (unfold ns; rewrite map_length, seq_length; exact Lo).
      assert (Lb : List.length obs = m) by (unfold obs; rewrite map_length; reflexivity).
      assert (Ls : List.length sels = m) by (rewrite Esel, map_length; exact Ln).
      assert (Mpos : (0 < m)%nat) by (unfold m; destruct exps; [contradiction|cbn; lia]).
      assert (K3 : ukeys s3 = ukeys s2 ++ ns) by (rewrite E3; apply keys_decls).
      assert (Hv2 : In var (ukeys s2)) by (apply (grows_keys _ _ G12); exact Hv1).
      assert (Hv3 : In var (ukeys s3)) by (rewrite K3; apply in_or_app; left; exact Hv2).
      assert (Nvar : ~ In var ns) by (intros H; exact (Frn var H (ukeys_sub _ _ Hv2))).
      set (zipped := combine (combine ops obs) sels).
      (* what a tuple is *)
      assert (Htup : forall t, In t zipped -> exists i, (i < m)%nat /\
                t = ((context_to_exp (nth i cs l_new), bounds_of (s_an s0) (nth i exps (Num NaN))), Var (nth i ns ""%string))).
      { intros t Ht. destruct (combine3_nth ops obs sels (context_to_exp l_new) (bounds_of (s_an s0) (Num NaN)) (Var ""%string) t) as [i [Hi Et]];
          [lia|lia|exact Ht|]. exists i. split; [lia|]. rewrite Et. rewrite Eo, Esel. unfold obs. rewrite !map_nth. reflexivity. }
      assert (Hin_tup : forall i, (i < m)%nat ->
                In ((context_to_exp (nth i cs l_new), bounds_of (s_an s0) (nth i exps (Num NaN))), Var (nth i ns ""%string)) zipped).
      { intros i Hi. pose proof (combine3_in ops obs sels (context_to_exp l_new) (bounds_of (s_an s0) (Num NaN)) (Var ""%string) i) as H.
        rewrite Eo, Esel in H. unfold obs in H. rewrite !map_nth in H. unfold zipped. rewrite Eo, Esel. unfold obs. apply H; rewrite ?map_length; lia. }
      assert (Hlo_i : forall i, (i < m)%nat -> exists l, hi (bounds_of (s_an s0) (nth i exps (Num NaN))) = Fin l) by (intros i Hi; apply Hlo; apply nth_In; exact Hi).
      assert (Hc_i : forall i, (i < m)%nat -> ctx_fin (nth i cs l_new) /\ incl (ckeys (nth i cs l_new)) (ukeys s2)).
      { intros i Hi. assert (Hc : In (nth i cs l_new) cs) by (apply nth_In; lia).
        split; [exact (proj1 (Forall_forall _ _) F2 _ Hc)|exact (proj2 (proj1 (Forall_forall _ _) K2 _ Hc))]. }
      set (rows := flat_map (fun t => [fmin t; gmin t]) zipped). set (sumc := mk_c (sum_exps sels) Eq (Num (Fin 1%Q))).
      assert (Gr : Forall (cgood (ukeys s3)) rows).
      { apply Forall_forall. intros c Hc. apply in_flat_map in Hc as [t [Ht Hc]]. destruct (Htup t Ht) as [i [Hi Et]].
        destruct (Hc_i i Hi) as [Fi Ki]. destruct (Hlo_i i Hi) as [li Eli].
        assert (Hk : In (nth i ns ""%string) (ukeys s3)) by (rewrite K3; apply in_or_app; right; apply nth_In; lia).
        assert (Kc : incl (ckeys (nth i cs l_new)) (ukeys s3)) by (intros k Hk'; rewrite K3; apply in_or_app; left; apply Ki; exact Hk').
        destruct Hc as [<-|[<-|[]]]; subst t; unfold fmin, gmin, cgood, mk_c, add_exp, mul_exp, sub_exp; cbn [fst snd c_assert c_lhs c_rhs].
        - cbn [plainA xvars]. rewrite (plainA_ctx _ Fi), xvars_ctx. repeat split; try reflexivity; [intros k [<-|[]]; exact Hv3|exact Kc].
        - rewrite Eli, Hhi. destruct (xq_sub_Fin li U) as [d [-> _]]. cbn [plainA xvars]. rewrite (plainA_ctx _ Fi), xvars_ctx.
          repeat split; try reflexivity; [intros k [<-|[]]; exact Hv3|].
          intros k Hk'. apply in_app_or in Hk' as [Hk'|Hk']; [apply Kc; exact Hk'|]. cbn in Hk'. destruct Hk' as [<-|[]]. exact Hk. }
      assert (Gs : cgood (ukeys s3) sumc).
      { unfold sumc. rewrite Esel. apply sum_vars_good; [intros E; rewrite E in Ln; cbn in Ln; lia|]. intros k Hk. rewrite K3. apply in_or_app. right. exact Hk. }
      set (s4 := addcs s3 rows). set (s5 := addc s4 sumc).
      assert (I5 : INV s5) by (apply INV_addc; [apply INV_addcs; assumption|unfold s4; rewrite keys_addcs; exact Gs]).
      assert (G35 : grows s3 s5) by (eapply grows_trans; [apply grows_addcs|apply grows_addc]).
      assert (G25 : grows s2 s5) by (eapply grows_trans; eassumption).
      split; [exact I5|]. split; [eapply grows_trans; [exact G01|eapply grows_trans; [exact G12|exact G25]]|].
      split; [apply from_var_ok; apply (grows_keys _ _ G35); exact Hv3|]. split; [exact (proj1 (from_var_one (fun _ => 0) var))|]. split.
      - (* a point of the new state *)
        intros sigma v S Hv. destruct (ev_min_inv _ _ _ Hv) as [v0 [vs [El ->]]]. set (Mn := fold_left Rmin vs v0).
        assert (S2s : st_sat s2 sigma) by exact (st_sat_back _ _ _ G25 S).
        pose proof (S2 sigma _ S2s El) as F. cbn [rel] in F. pose proof (Forall2_len _ _ _ F) as Lv.
        destruct S as [Q [_ D]].
        assert (Hval : forall i, (i < m)%nat -> ev sigma (context_to_exp (nth i cs l_new)) = Some (nth i (v0 :: vs) 0)).
        { intros i Hi. rewrite (context_to_exp_sound sigma _ (proj1 (Hc_i i Hi))). f_equal. apply (Forall2_nth _ cs (v0 :: vs) l_new 0 i F). lia. }
        assert (Hq : forall c, In c rows -> sat_constr sigma c).
        { intros c Hc. apply Q. right. apply addcs_in. exact Hc. }
        assert (Hge : forall i, (i < m)%nat -> sigma var <= nth i (v0 :: vs) 0).
        { intros i Hi.
          assert (Hin : In (fmin ((context_to_exp (nth i cs l_new), bounds_of (s_an s0) (nth i exps (Num NaN))), Var (nth i ns ""%string))) rows)
            by (apply in_flat_map; eexists; split; [exact (Hin_tup i Hi)|left; reflexivity]).
          destruct (Hq _ Hin) as [l [r0 [El' [Er' H]]]]. pose proof (Hval i Hi) as Hvi. remember (nth i (v0 :: vs) 0) as w eqn:Ew. clear Ew.
          unfold fmin, mk_c in El', Er', H. cbn [fst snd c_lhs c_rhs c_cmp cmp_holds] in El', Er', H. rewrite ev_var in El'. rewrite Hvi in Er'.
          injection El' as <-. injection Er' as <-. exact H. }
        assert (Bn : Forall bin (map sigma ns)).
        { apply Forall_forall. intros x Hx. apply in_map_iff in Hx as [k [<- Hk]]. apply (D k (mkDV TBoolean true)).
          unfold s5, s4. cbn [addc s_dom]. rewrite (proj1 (dom_addcs rows s3)), E3, (proj2 (proj2 (dom_decls ns s2 TBoolean))).
          apply in_or_app. right. apply in_map_iff. exists k. split; [reflexivity|exact Hk]. }
        assert (Hsum : ArmLemmas.rsum (map sigma ns) = 1).
        { destruct (Q sumc (or_introl eq_refl)) as [l [r0 [El' [Er' H]]]]. unfold sumc, mk_c in El', Er', H. cbn [c_lhs c_rhs c_cmp cmp_holds] in *.
          rewrite Esel, ev_sum_exps_vars in El' by (intros E; rewrite E in Ln; cbn in Ln; lia). unfold ev in Er'. rewrite evg_Num_Fin, Q2R_1 in Er'.
          injection El' as <-. injection Er' as <-. exact H. }
        destruct (proj1 (in_map_iff _ _ _) (rsum_one_exists _ Bn Hsum)) as [kj [Ekj Hkj]].
        destruct (In_nth _ _ ""%string Hkj) as [j [Hj Ej]]. rewrite Ln in Hj.
        assert (Hle : sigma var >= nth j (v0 :: vs) 0).
        { assert (Hin : In (gmin ((context_to_exp (nth j cs l_new), bounds_of (s_an s0) (nth j exps (Num NaN))), Var (nth j ns ""%string))) rows)
            by (apply in_flat_map; eexists; split; [exact (Hin_tup j Hj)|right; left; reflexivity]).
          destruct (Hq _ Hin) as [l [r0 [El' [Er' H]]]]. pose proof (Hval j Hj) as Hvj. remember (nth j (v0 :: vs) 0) as w eqn:Ew. clear Ew.
          unfold gmin, mk_c in El', Er', H. cbn [fst snd c_lhs c_rhs c_cmp cmp_holds] in El', Er', H. rewrite ev_var in El'.
          destruct (Hlo_i j Hj) as [lj Elj]. rewrite Elj, Hhi in Er'. destruct (xq_sub_Fin lj U) as [d [Ed _]]. rewrite Ed in Er'.
          rewrite (ev_bigm_min _ _ _ _ _ Hvj) in Er'. injection El' as <-. injection Er' as <-. rewrite Ej, Ekj in H. lra. }
        rewrite (proj2 (from_var_one sigma var)).
        assert (E : sigma var = Mn).
        { apply Rle_antisym.
          - destruct (In_nth _ _ 0 (fold_min_in vs v0)) as [i [Hi Ei]]. fold Mn in Ei. rewrite <- Ei. apply Hge. rewrite Lv in *. lia.
          - apply Rle_trans with (nth j (v0 :: vs) 0); [|apply Rge_le; exact Hle]. apply fold_min_le. apply nth_In. rewrite <- Lv. lia. }
        rewrite E. apply rel_eq.
      - (* a point of the old state extends *)
        intros rho v S Hv. destruct (ev_min_inv _ _ _ Hv) as [v0 [vs [El ->]]]. set (Mn := fold_left Rmin vs v0) in *.
        pose proof (min_bounds rho Mn S Hv) as Bm.
        destruct (st_sat_decl (set_cnt s0 cnt) var T rho Mn (INV_set_cnt _ _ I0) Mv Bm S) as [S1' A1]. fold s1 in S1'.
        set (sg1 := updR rho var Mn) in *.
        assert (El1 : evlist sg1 false exps = Some (v0 :: vs)).
        { rewrite <- El. apply evlist_agree_ok; [exact Oe|]. intros k Hk. apply A1. apply ukeys_sub. apply Ix. exact Hk. }
        destruct (C2 sg1 _ S1' El1) as [sg2 [A2 [S2' V2]]]. pose proof (Forall2_len _ _ _ V2) as Lv.
        destruct (In_nth _ _ 0 (fold_min_in vs v0)) as [j [Hj Ej]]. fold Mn in Ej. rewrite <- Lv, Lc in Hj. fold m in Hj.
        set (kj := nth j ns ""%string). set (vals := fun k : string => if String.eqb k kj then 1 else 0).
        assert (Sat3 : st_sat s3 (updL sg2 ns vals)).
        { rewrite E3. apply decls_sat; [exact I2|exact NDn|exact Frn| |exact S2']. intros k _. unfold vals. destruct (String.eqb k kj); [right|left]; reflexivity. }
        set (sg3 := updL sg2 ns vals) in *.
        assert (A3 : forall k, In k (akeys s2) -> sg3 k = sg2 k) by (intros k Hk; apply updL_other; intros H; exact (Frn k H Hk)).
        assert (Ev : sg3 var = Mn) by (rewrite A3 by (apply ukeys_sub; exact Hv2); rewrite A2 by (apply ukeys_sub; exact Hv1); apply updR_same).
        assert (Hval : forall i, (i < m)%nat -> ev sg3 (context_to_exp (nth i cs l_new)) = Some (nth i (v0 :: vs) 0)).
        { intros i Hi. destruct (Hc_i i Hi) as [Fi Ki]. rewrite (context_to_exp_sound sg3 _ Fi). f_equal.
          rewrite (ctx_val_agree sg3 sg2) by (intros k Hk; apply A3; apply ukeys_sub; apply Ki; exact Hk).
          apply (Forall2_nth _ cs (v0 :: vs) l_new 0 i V2). lia. }
        assert (Hvb : forall i, (i < m)%nat -> in_b (bounds_of (s_an s0) (nth i exps (Num NaN))) (nth i (v0 :: vs) 0)).
        { intros i Hi. destruct S as [_ [_ D]]. assert (He : In (nth i exps (Num NaN)) exps) by (apply nth_In; exact Hi).
          apply (bounds_of_on (s_an s0) rho); [exact (proj1 (forallb_forall _ _) Oe _ He)| |exact (evlist_nth rho exps _ i El Hi)].
          intros k Hk. apply (inv_box s0 I0 rho D). apply Ix. apply in_flat_map. eexists. split; [exact He|exact Hk]. }
        exists sg3. split; [intros k Hk; rewrite A3 by (apply (grows_akeys _ _ G12); apply (grows_akeys _ _ G01); exact Hk);
                            rewrite A2 by (apply (grows_akeys _ _ G01); exact Hk); apply A1; exact Hk|].
        split; [|rewrite (proj2 (from_var_one sg3 var)); exact Ev].
        apply st_sat_addc; [apply st_sat_addcs; [exact Sat3|]|].
        + intros c Hc. apply in_flat_map in Hc as [t [Ht Hc]]. destruct (Htup t Ht) as [i [Hi Et]]. subst t.
          assert (Hvi : Mn <= nth i (v0 :: vs) 0) by (apply fold_min_le; apply nth_In; rewrite <- Lv, Lc; exact Hi).
          destruct Hc as [<-|[<-|[]]].
          * eexists _, _. unfold fmin, mk_c. cbn [fst snd c_lhs c_rhs c_cmp cmp_holds]. split; [apply ev_var|]. split; [exact (Hval i Hi)|]. rewrite Ev. lra.
          * destruct (Hlo_i i Hi) as [li Eli]. destruct (xq_sub_Fin li U) as [d [Ed Vd]].
            eexists _, _. unfold gmin, mk_c. cbn [fst snd c_lhs c_rhs c_cmp cmp_holds]. rewrite Eli, Hhi, Ed.
            split; [apply ev_var|]. split; [apply ev_bigm_min; exact (Hval i Hi)|]. rewrite Ev, Vd.
            assert (Ek : sg3 (nth i ns ""%string) = vals (nth i ns ""%string)) by (apply updL_in; apply nth_In; lia). rewrite Ek. unfold vals.
            destruct (String.eqb (nth i ns ""%string) kj) eqn:Eq.
            -- apply String.eqb_eq in Eq. unfold kj in Eq. apply (proj1 (NoDup_nth ns ""%string) NDn) in Eq; [|lia|lia]. subst i. rewrite Ej. lra.
            -- destruct (Hvb i Hi) as [_ B1]. rewrite Eli in B1. cbn [R_le_xq] in B1. destruct Bm as [B2 _]. fold eb in B2. rewrite Hhi in B2. cbn [xq_le_R] in B2. lra.
        + eexists _, _. unfold sumc, mk_c. cbn [c_lhs c_rhs c_cmp cmp_holds]. rewrite Esel.
          split; [apply ev_sum_exps_vars; intros E; rewrite E in Ln; cbn in Ln; lia|]. split; [unfold ev; rewrite evg_Num_Fin, Q2R_1; reflexivity|].
          rewrite (map_ext_in sg3 vals) by (intros k Hk; apply updL_in; exact Hk). apply rsum_indicator; [exact NDn|apply nth_In; lia].
    Qed.
  End MinArm.

  Definition ext_exp (k : ekind) (l : list exp) : exp := match k with KMin => Min l | KMax => Max l end.
  Lemma map_nth_seq_len {A} (l : list A) d m : m = List.length l -> map (fun i => nth i l d) (seq O m) = l.
  Proof. intros ->. apply map_nth_seq. Qed.
  Lemma forallb_finite_lo an exps : forallb (fun b : bounds => xq_is_finite (lo b)) (map (bounds_of an) exps) = true ->
    forall e, In e exps -> exists l, lo (bounds_of an e) = Fin l.
  Proof.
    intros H e He. pose proof (proj1 (forallb_forall _ _) H _ (in_map (bounds_of an) _ _ He)) as F. cbn beta in F.
    destruct (lo (bounds_of an e)); try discriminate. eauto.
  Qed.
  Lemma forallb_finite_hi an exps : forallb (fun b : bounds => xq_is_finite (hi b)) (map (bounds_of an) exps) = true ->
    forall e, In e exps -> exists l, hi (bounds_of an e) = Fin l.
  Proof.
    intros H e He. pose proof (proj1 (forallb_forall _ _) H _ (in_map (bounds_of an) _ _ He)) as F. cbn beta in F.
    destruct (hi (bounds_of an e)); try discriminate. eauto.
  Qed.

  Lemma extreme_ok k l r s c s' : okexp (ext_exp k l) = true -> INV s ->
    incl (xvars (ext_exp k l)) (ukeys s) -> tot (ext_exp k l) ->
    linearize_extreme (lin n) k l r s = inr (c, s') -> lin_spec (ext_exp k l) r s c s'.
  Proof.
    intros Ok I Ix Tt H. destruct k; cbn [ext_exp] in *.
    - (* min *)
      rewrite okexp_Min in Ok. rewrite xvars_Min in Ix. pose proof (tot_list_min _ Tt) as Tl.
      destruct l as [|x l']; [discriminate|].
      unfold linearize_extreme in H. unfold bind at 1, get_st at 1 in H. cbv zeta in H.
      set (l0 := x :: l') in *.
      pose proof (prune_value_min l0 s I Ok Ix Tl) as Hval. cbv zeta in Hval.
      assert (Hlt : forall i, In i (retained_indices KMin (map (bounds_of (s_an s)) l0)) -> (i < List.length l0)%nat)
        by (intros i Hi; apply retained_lt in Hi; rewrite map_length in Hi; exact Hi).
      remember (retained_indices KMin (map (bounds_of (s_an s)) l0)) as ret eqn:Er.
      destruct ret as [|i [|i2 ret']].
      + discriminate.
      + (* a single operand survives *)
        assert (Hi : (i < List.length l0)%nat) by (apply Hlt; left; reflexivity).
        assert (Hin : In (nth i l0 (Num NaN)) l0) by (apply nth_In; exact Hi).
        pose proof (proj1 (forallb_forall _ _) Ok _ Hin) as Oi. pose proof (proj1 (Forall_forall _ _) Tl _ Hin) as Ti.
        assert (Ixi : incl (xvars (nth i l0 (Num NaN))) (ukeys s)) by (intros k Hk; apply Ix; apply in_flat_map; eexists; split; [exact Hin|exact Hk]).
        pose proof (IHn _ _ _ _ _ Oi I Ixi Ti H) as Sp.
        apply (spec_un (Min l0) (nth i l0 (Num NaN)) r r (fun z => z) (fun z => z) s c s' Oi Ixi); [| | | |exact Sp].
        * intros sigma v S Hv. rewrite (Hval sigma S) in Hv. cbn [map] in Hv. destruct (ev_min_inv _ _ _ Hv) as [v0 [vs [El ->]]]. cbn [evlist] in El.
          destruct (evg sigma false (nth i l0 (Num NaN))) as [vx|] eqn:Ex; [|discriminate]. inversion El; subst. exists v0. split; [exact Ex|reflexivity].
        * intros A z Hz. exact Hz.
        * intros z Fz. split; [exact Fz|reflexivity].
        * intros z vz Hr. exact Hr.
      + rewrite Er in H, Hval.
        assert (Ne0 : retained_indices KMin (map (bounds_of (s_an s)) l0) <> []) by (rewrite <- Er; discriminate).
        rewrite Er in Hlt. clear Er i i2 ret'.
        rewrite (map_nth_map (bounds_of (s_an s)) l0 (Num NaN) b_unbounded _ Hlt) in H.
        set (exps := map (fun i => nth i l0 (Num NaN)) (retained_indices KMin (map (bounds_of (s_an s)) l0))) in *.
        assert (Sub : incl exps l0) by (apply sub_nth; exact Hlt).
        assert (Ne : exps <> []) by (unfold exps; intros E; apply map_eq_nil in E; contradiction).
        assert (Ok' : forallb okexp exps = true) by (apply forallb_forall; intros e He; exact (proj1 (forallb_forall _ _) Ok e (Sub e He))).
        assert (Ix' : incl (flat_map xvars exps) (ukeys s)).
        { intros k Hk. apply in_flat_map in Hk as [e [He Hk]]. apply Ix. apply in_flat_map. exists e. split; [exact (Sub e He)|exact Hk]. }
        assert (Tl' : Forall tot exps) by (apply Forall_forall; intros e He; exact (proj1 (Forall_forall _ _) Tl e (Sub e He))).
        apply (lin_spec_equiv (Min l0) (Min exps) r s c s' Hval).
        destruct r.
        * (* PreferLower: exact *)
          cbn [negb andb] in H.
          match type of H with context [if negb ?b then _ else _] => destruct b eqn:HF; cbn [negb] in H; [|discriminate] end.
          apply andb_true_iff in HF as [Fhi Flo]. destruct (fin_inv _ Fhi) as [U Hhi].
          unfold bind at 1, next_id at 1 in H. cbv beta iota in H.
          match type of H with context [declare_variable ?v ?t] => set (var := v) in *; set (T := t) in * end.
          unfold bind at 1, declare_variable at 1 in H. cbn [s_dom] in H. destruct (al_mem (s_dom s) var) eqn:Mv; [discriminate|].
          unfold bind at 1 in H.
          match type of H with context [mapMM ?f exps ?st] => destruct (mapMM f exps st) as [er|[ops s2]] eqn:HM; [discriminate|] end.
          unfold bind at 1 in H.
          match type of H with context [iterM ?f (seq 0 (List.length ops)) s2] => destruct (iterM f (seq 0 (List.length ops)) s2) as [er|[u3 s3]] eqn:HD; [discriminate|] end.
          unfold bind at 1 in H.
          rewrite (iterM_fold _ (fun t st => addc (addc st (mk_c (Var var) Le (fst (fst t))))
                                   (mk_c (Var var) Ge (sub_exp (fst (fst t)) (mul_exp (Num (xq_sub (hi (snd (fst t))) (lo (bounds_of (s_an s) (Min exps))))) (sub_exp (Num (Fin 1%Q)) (snd t))))))) in H
            by (intros [[o b0] sl] st; reflexivity).
          unfold bind at 1, add_constraint at 1, ret in H. injection H as <- <-. rewrite fold_addc2.
          exact (min_exact exps s _ var Ok' Ne I Ix' Tl' Mv _ U Hhi (forallb_finite_hi _ _ Flo) PreferLower ops s2 u3 s3 HM HD).
        * (* PreferHigher: one-sided *)
          cbn [negb andb] in H. unfold bind at 1, next_id at 1 in H. cbv beta iota in H.
          match type of H with context [declare_variable ?v ?t] => set (var := v) in *; set (T := t) in * end.
          unfold bind at 1, declare_variable at 1 in H. cbn [s_dom] in H. destruct (al_mem (s_dom s) var) eqn:Mv; [discriminate|].
          unfold bind at 1 in H.
          match type of H with context [mapMM ?f exps ?st] => destruct (mapMM f exps st) as [er|[ops s2]] eqn:HM; [discriminate|] end.
          unfold bind at 1 in H. rewrite (iterM_fold _ (fun o st => addc st (mk_c (Var var) Le o))) in H by (intros; reflexivity).
          unfold ret in H. injection H as <- <-. rewrite fold_addc1.
          exact (min_upper exps s _ var Ok' Ne I Ix' Tl' Mv ops s2 HM).
        * (* Exact *)
          cbn [negb andb] in H.
          match type of H with context [if negb ?b then _ else _] => destruct b eqn:HF; cbn [negb] in H; [|discriminate] end.
          apply andb_true_iff in HF as [Fhi Flo]. destruct (fin_inv _ Fhi) as [U Hhi].
          unfold bind at 1, next_id at 1 in H. cbv beta iota in H.
          match type of H with context [declare_variable ?v ?t] => set (var := v) in *; set (T := t) in * end.
          unfold bind at 1, declare_variable at 1 in H. cbn [s_dom] in H. destruct (al_mem (s_dom s) var) eqn:Mv; [discriminate|].
          unfold bind at 1 in H.
          match type of H with context [mapMM ?f exps ?st] => destruct (mapMM f exps st) as [er|[ops s2]] eqn:HM; [discriminate|] end.
          unfold bind at 1 in H.
          match type of H with context [iterM ?f (seq 0 (List.length ops)) s2] => destruct (iterM f (seq 0 (List.length ops)) s2) as [er|[u3 s3]] eqn:HD; [discriminate|] end.
          unfold bind at 1 in H.
          rewrite (iterM_fold _ (fun t st => addc (addc st (mk_c (Var var) Le (fst (fst t))))
                                   (mk_c (Var var) Ge (sub_exp (fst (fst t)) (mul_exp (Num (xq_sub (hi (snd (fst t))) (lo (bounds_of (s_an s) (Min exps))))) (sub_exp (Num (Fin 1%Q)) (snd t))))))) in H
            by (intros [[o b0] sl] st; reflexivity).
          unfold bind at 1, add_constraint at 1, ret in H. injection H as <- <-. rewrite fold_addc2.
          exact (min_exact exps s _ var Ok' Ne I Ix' Tl' Mv _ U Hhi (forallb_finite_hi _ _ Flo) Exact ops s2 u3 s3 HM HD).
    - (* max *)
      rewrite okexp_Max in Ok. rewrite xvars_Max in Ix. pose proof (tot_list_max _ Tt) as Tl.
      destruct l as [|x l']; [discriminate|].
      unfold linearize_extreme in H. unfold bind at 1, get_st at 1 in H. cbv zeta in H.
      set (l0 := x :: l') in *.
      pose proof (prune_value_max l0 s I Ok Ix Tl) as Hval. cbv zeta in Hval.
      assert (Hlt : forall i, In i (retained_indices KMax (map (bounds_of (s_an s)) l0)) -> (i < List.length l0)%nat)
        by (intros i Hi; apply retained_lt in Hi; rewrite map_length in Hi; exact Hi).
      remember (retained_indices KMax (map (bounds_of (s_an s)) l0)) as ret eqn:Er.
      destruct ret as [|i [|i2 ret']].
      + discriminate.
      + (* a single operand survives *)
        assert (Hi : (i < List.length l0)%nat) by (apply Hlt; left; reflexivity).
        assert (Hin : In (nth i l0 (Num NaN)) l0) by (apply nth_In; exact Hi).
        pose proof (proj1 (forallb_forall _ _) Ok _ Hin) as Oi. pose proof (proj1 (Forall_forall _ _) Tl _ Hin) as Ti.
        assert (Ixi : incl (xvars (nth i l0 (Num NaN))) (ukeys s)) by (intros k Hk; apply Ix; apply in_flat_map; eexists; split; [exact Hin|exact Hk]).
        pose proof (IHn _ _ _ _ _ Oi I Ixi Ti H) as Sp.
        apply (spec_un (Max l0) (nth i l0 (Num NaN)) r r (fun z => z) (fun z => z) s c s' Oi Ixi); [| | | |exact Sp].
        * intros sigma v S Hv. rewrite (Hval sigma S) in Hv. cbn [map] in Hv. destruct (ev_max_inv _ _ _ Hv) as [v0 [vs [El ->]]]. cbn [evlist] in El.
          destruct (evg sigma false (nth i l0 (Num NaN))) as [vx|] eqn:Ex; [|discriminate]. inversion El; subst. exists v0. split; [exact Ex|reflexivity].
        * intros A z Hz. exact Hz.
        * intros z Fz. split; [exact Fz|reflexivity].
        * intros z vz Hr. exact Hr.
      + rewrite Er in H, Hval.
        assert (Ne0 : retained_indices KMax (map (bounds_of (s_an s)) l0) <> []) by (rewrite <- Er; discriminate).
        rewrite Er in Hlt. clear Er i i2 ret'.
        rewrite (map_nth_map (bounds_of (s_an s)) l0 (Num NaN) b_unbounded _ Hlt) in H.
        set (exps := map (fun i => nth i l0 (Num NaN)) (retained_indices KMax (map (bounds_of (s_an s)) l0))) in *.
        assert (Sub : incl exps l0) by (apply sub_nth; exact Hlt).
        assert (Ne : exps <> []) by (unfold exps; intros E; apply map_eq_nil in E; contradiction).
        assert (Ok' : forallb okexp exps = true) by (apply forallb_forall; intros e He; exact (proj1 (forallb_forall _ _) Ok e (Sub e He))).
        assert (Ix' : incl (flat_map xvars exps) (ukeys s)).
        { intros k Hk. apply in_flat_map in Hk as [e [He Hk]]. apply Ix. apply in_flat_map. exists e. split; [exact (Sub e He)|exact Hk]. }
        assert (Tl' : Forall tot exps) by (apply Forall_forall; intros e He; exact (proj1 (Forall_forall _ _) Tl e (Sub e He))).
        apply (lin_spec_equiv (Max l0) (Max exps) r s c s' Hval).
        destruct r.
        * (* PreferLower: one-sided *)
          cbn [negb andb] in H. unfold bind at 1, next_id at 1 in H. cbv beta iota in H.
          match type of H with context [declare_variable ?v ?t] => set (var := v) in *; set (T := t) in * end.
          unfold bind at 1, declare_variable at 1 in H. cbn [s_dom] in H. destruct (al_mem (s_dom s) var) eqn:Mv; [discriminate|].
          unfold bind at 1 in H.
          match type of H with context [mapMM ?f exps ?st] => destruct (mapMM f exps st) as [er|[ops s2]] eqn:HM; [discriminate|] end.
          unfold bind at 1 in H. rewrite (iterM_fold _ (fun o st => addc st (mk_c (Var var) Ge o))) in H by (intros; reflexivity).
          unfold ret in H. injection H as <- <-. rewrite fold_addc1.
          exact (max_lower exps s _ var Ok' Ne I Ix' Tl' Mv ops s2 HM).
        * (* PreferHigher: exact *)
          cbn [negb andb] in H.
          match type of H with context [if negb ?b then _ else _] => destruct b eqn:HF; cbn [negb] in H; [|discriminate] end.
          apply andb_true_iff in HF as [Fhi Flo]. destruct (fin_inv _ Fhi) as [U Hhi].
          unfold bind at 1, next_id at 1 in H. cbv beta iota in H.
          match type of H with context [declare_variable ?v ?t] => set (var := v) in *; set (T := t) in * end.
          unfold bind at 1, declare_variable at 1 in H. cbn [s_dom] in H. destruct (al_mem (s_dom s) var) eqn:Mv; [discriminate|].
          unfold bind at 1 in H.
          match type of H with context [mapMM ?f exps ?st] => destruct (mapMM f exps st) as [er|[ops s2]] eqn:HM; [discriminate|] end.
          unfold bind at 1 in H.
          match type of H with context [iterM ?f (seq 0 (List.length ops)) s2] => destruct (iterM f (seq 0 (List.length ops)) s2) as [er|[u3 s3]] eqn:HD; [discriminate|] end.
          unfold bind at 1 in H.
          rewrite (iterM_fold _ (fun t st => addc (addc st (mk_c (Var var) Ge (fst (fst t))))
                                   (mk_c (Var var) Le (add_exp (fst (fst t)) (mul_exp (Num (xq_sub (hi (bounds_of (s_an s) (Max exps))) (lo (snd (fst t))))) (sub_exp (Num (Fin 1%Q)) (snd t))))))) in H
            by (intros [[o b0] sl] st; reflexivity).
          unfold bind at 1, add_constraint at 1, ret in H. injection H as <- <-. rewrite fold_addc2.
          exact (max_exact exps s _ var Ok' Ne I Ix' Tl' Mv _ U Hhi (forallb_finite_lo _ _ Flo) PreferHigher ops s2 u3 s3 HM HD).
        * (* Exact *)
          cbn [negb andb] in H.
          match type of H with context [if negb ?b then _ else _] => destruct b eqn:HF; cbn [negb] in H; [|discriminate] end.
          apply andb_true_iff in HF as [Fhi Flo]. destruct (fin_inv _ Fhi) as [U Hhi].
          unfold bind at 1, next_id at 1 in H. cbv beta iota in H.
          match type of H with context [declare_variable ?v ?t] => set (var := v) in *; set (T := t) in * end.
          unfold bind at 1, declare_variable at 1 in H. cbn [s_dom] in H. destruct (al_mem (s_dom s) var) eqn:Mv; [discriminate|].
          unfold bind at 1 in H.
          match type of H with context [mapMM ?f exps ?st] => destruct (mapMM f exps st) as [er|[ops s2]] eqn:HM; [discriminate|] end.
          unfold bind at 1 in H.
          match type of H with context [iterM ?f (seq 0 (List.length ops)) s2] => destruct (iterM f (seq 0 (List.length ops)) s2) as [er|[u3 s3]] eqn:HD; [discriminate|] end.
          unfold bind at 1 in H.
          rewrite (iterM_fold _ (fun t st => addc (addc st (mk_c (Var var) Ge (fst (fst t))))
                                   (mk_c (Var var) Le (add_exp (fst (fst t)) (mul_exp (Num (xq_sub (hi (bounds_of (s_an s) (Max exps))) (lo (snd (fst t))))) (sub_exp (Num (Fin 1%Q)) (snd t))))))) in H
            by (intros [[o b0] sl] st; reflexivity).
          unfold bind at 1, add_constraint at 1, ret in H. injection H as <- <-. rewrite fold_addc2.
          exact (max_exact exps s _ var Ok' Ne I Ix' Tl' Mv _ U Hhi (forallb_finite_lo _ _ Flo) Exact ops s2 u3 s3 HM HD).
  Qed.
End Extreme.

Theorem lin_ok : forall n e r s c s', okexp e = true -> INV s -> incl (xvars e) (ukeys s) -> tot e ->
  lin n e r s = inr (c, s') -> lin_spec e r s c s'.
Proof.
  induction n as [|n IH]; intros e r s c s' Ok I Ix Tt H; [discriminate|].
  cbn [lin] in H. destruct e; try discriminate; cbn [lin_step] in H.
  - (* Num *)
    inversion H; subst c s'; clear H. destruct (Tt (fun _ => 0)) as [v0 Hv0]. apply ev_Num_inv in Hv0 as [q [-> _]].
    apply spec_leaf; [exact I|unfold l_from_rhs; apply add_rhs_ok, new_ok|exact (proj1 (from_rhs_sound (fun _ => 0) q))|].
    intros sigma v Hv. apply ev_Num_inv in Hv as [q' [E ->]]. inversion E; subst q'. exact (proj2 (from_rhs_sound sigma q)).
  - (* Var *)
    inversion H; subst c s'; clear H.
    apply spec_leaf; [exact I|apply from_var_ok; apply Ix; left; reflexivity|exact (proj1 (from_var_one (fun _ => 0) s0))|].
    intros sigma v Hv. rewrite ev_var in Hv. inversion Hv; subst v. exact (proj2 (from_var_one sigma s0)).
  - (* Abs *)
    cbn [okexp xvars] in Ok, Ix. pose proof (tot_abs _ Tt) as Tx.
    unfold bind at 1, get_st at 1 in H. cbv zeta in H.
    set (ib := bounds_of (s_an s) e) in *.
    assert (Bnd : forall sigma t, st_sat s sigma -> ev sigma e = Some t -> in_b ib t).
    { intros sigma t [_ [_ D]] Ht. apply (bounds_of_on (s_an s) sigma e t Ok); [|exact Ht].
      intros k Hk. apply (inv_box s I sigma D). apply Ix. exact Hk. }
    destruct (xq_geb (lo ib) (Fin 0%Q)) eqn:G1.
    { (* the argument is known to be non-negative *)
      pose proof (IH _ _ _ _ _ Ok I Ix Tx H) as Sp.
      apply (spec_un (Abs e) e r r (fun x => x) (fun x => x) s c s' Ok Ix); [| | | |exact Sp].
      - intros sigma v S Hv. destruct (ev_abs_inv _ _ _ Hv) as [t [Et ->]]. exists t. split; [exact Et|].
        destruct (Bnd sigma t S Et) as [B1 _]. apply Rabs_right. apply Rle_ge. exact (xq_geb_Fin0 _ _ G1 B1).
      - intros A x Hx. exact Hx.
      - intros x Fx. split; [exact Fx|reflexivity].
      - intros x vx Hr. exact Hr. }
    destruct (xq_leb (hi ib) (Fin 0%Q)) eqn:G2.
    { (* the argument is known to be non-positive *)
      unfold bind in H. destruct (lin n e (req_reversed r) s) as [er|[lv s1]] eqn:E1; [discriminate|].
      inversion H; subst c s'; clear H.
      pose proof (IH _ _ _ _ _ Ok I Ix Tx E1) as Sp.
      apply (spec_un (Abs e) e r (req_reversed r) (fun x => l_mul_by x (Fin (-1)%Q)) Ropp s lv s1 Ok Ix); [| | | |exact Sp].
      - intros sigma v S Hv. destruct (ev_abs_inv _ _ _ Hv) as [t [Et ->]]. exists t. split; [exact Et|].
        destruct (Bnd sigma t S Et) as [_ B2]. apply Rabs_left1. exact (xq_leb_Fin0 _ _ G2 B2).
      - intros A x Hx. apply mul_by_ok. exact Hx.
      - intros x Fx. split; [exact (proj1 (mul_by_sound (fun _ => 0) x (-1)%Q Fx))|].
        intros sigma. rewrite (proj2 (mul_by_sound sigma x (-1)%Q Fx)). replace (Q2R (-1)) with (-1) by (unfold Q2R; cbn; lra). lra.
      - intros x vx Hr. apply rel_neg. exact Hr. }
    (* the general case *)
    destruct ((match r with PreferLower => false | _ => true end) && (negb (xq_is_finite (lo ib)) || negb (xq_is_finite (hi ib)))) eqn:NE;
      [discriminate|].
    unfold bind at 1 in H. destruct (lin n e Exact s) as [er|[inner_c s1]] eqn:E1; [discriminate|].
    pose proof (IH _ _ _ _ _ Ok I Ix Tx E1) as Sp.
    cbv beta iota zeta delta [bind next_id declare_variable add_constraint ret] in H. cbn [s_dom s_queue s_rows s_cnt s_an] in H.
    match type of H with context [al_mem (s_dom s1) ?v] => set (vn := v) in *; destruct (al_mem (s_dom s1) vn) eqn:Mv; [destruct r; discriminate|] end.
    destruct r.
    + (* PreferLower: one-sided rows *)
      inversion H; subst c s'; clear H.
      exact (abs_lower e s s1 inner_c _ vn Ok I Ix Sp Mv).
    + (* PreferHigher: exact *)
      cbn [andb] in NE. apply orb_false_iff in NE as [N1 N2]. apply negb_false_iff in N1, N2.
      destruct (fin_inv _ N1) as [ql Elo]. destruct (fin_inv _ N2) as [qh Ehi].
      match type of H with context [al_mem ?d ?p] => set (pn := p) in *; destruct (al_mem d pn) eqn:Mp; [discriminate|] end.
      inversion H; subst c s'; clear H.
      exact (abs_exact e s s1 inner_c _ vn Ok I Ix Sp Mv pn ql qh Elo Ehi G1 G2 Mp PreferHigher).
    + (* Exact *)
      cbn [andb] in NE. apply orb_false_iff in NE as [N1 N2]. apply negb_false_iff in N1, N2.
      destruct (fin_inv _ N1) as [ql Elo]. destruct (fin_inv _ N2) as [qh Ehi].
      match type of H with context [al_mem ?d ?p] => set (pn := p) in *; destruct (al_mem d pn) eqn:Mp; [discriminate|] end.
      inversion H; subst c s'; clear H.
      exact (abs_exact e s s1 inner_c _ vn Ok I Ix Sp Mv pn ql qh Elo Ehi G1 G2 Mp Exact).
  - (* Min *) exact (extreme_ok n IH KMin l r s c s' Ok I Ix Tt H).
  - (* Max *) exact (extreme_ok n IH KMax l r s c s' Ok I Ix Tt H).
  - (* BinOp *)
    cbn [okexp] in Ok.
    assert (O12 : okexp e1 = true /\ okexp e2 = true) by (destruct op; try discriminate; apply andb_true_iff in Ok; exact Ok).
    destruct O12 as [O1 O2]. destruct (tot_binop _ _ _ Tt) as [T1 T2]. cbn [xvars] in Ix.
    assert (Ix1 : incl (xvars e1) (ukeys s)) by (intros k Hk; apply Ix; apply in_or_app; left; exact Hk).
    assert (Ix2 : incl (xvars e2) (ukeys s)) by (intros k Hk; apply Ix; apply in_or_app; right; exact Hk).
    destruct op; try discriminate.
    + (* Add *)
      unfold bind in H. destruct (lin n e1 r s) as [er|[la s1]] eqn:E1; [discriminate|].
      destruct (lin n e2 r s1) as [er|[lb s2]] eqn:E2; [discriminate|]. inversion H; subst c s'; clear H.
      pose proof (IH _ _ _ _ _ O1 I Ix1 T1 E1) as Sp1. destruct Sp1 as [I1 [G1 Rest1]].
      pose proof (IH _ _ _ _ _ O2 I1 (fun k Hk => grows_keys _ _ G1 k (Ix2 k Hk)) T2 E2) as Sp2.
      apply (spec_bin (BinOp Add e1 e2) e1 e2 r r r l_merge_add Rplus s la s1 lb s2 I O2 Ix2); [| | | |exact (conj I1 (conj G1 Rest1))|exact Sp2].
      * intros sigma v Hv. destruct (ev_binop_inv _ _ _ _ _ Hv) as [x [y [Ex [Ey Hop]]]]. cbn in Hop. inversion Hop. eauto.
      * intros A x y. apply merge_add_ok.
      * intros x y Fx Fy. split; [exact (proj1 (merge_add_sound (fun _ => 0) x y Fx Fy))|intros sigma; exact (proj2 (merge_add_sound sigma x y Fx Fy))].
      * intros x y vx vy. apply rel_add.
    + (* Sub *)
      unfold bind in H. destruct (lin n e1 r s) as [er|[la s1]] eqn:E1; [discriminate|].
      destruct (lin n e2 (req_reversed r) s1) as [er|[lb s2]] eqn:E2; [discriminate|]. inversion H; subst c s'; clear H.
      pose proof (IH _ _ _ _ _ O1 I Ix1 T1 E1) as Sp1. destruct Sp1 as [I1 [G1 Rest1]].
      pose proof (IH _ _ _ _ _ O2 I1 (fun k Hk => grows_keys _ _ G1 k (Ix2 k Hk)) T2 E2) as Sp2.
      apply (spec_bin (BinOp Sub e1 e2) e1 e2 r r (req_reversed r) l_merge_sub Rminus s la s1 lb s2 I O2 Ix2); [| | | |exact (conj I1 (conj G1 Rest1))|exact Sp2].
      * intros sigma v Hv. destruct (ev_binop_inv _ _ _ _ _ Hv) as [x [y [Ex [Ey Hop]]]]. cbn in Hop. inversion Hop. eauto.
      * intros A x y. apply merge_sub_ok.
      * intros x y Fx Fy. split; [exact (proj1 (merge_sub_sound (fun _ => 0) x y Fx Fy))|intros sigma; exact (proj2 (merge_sub_sound sigma x y Fx Fy))].
      * intros x y vx vy. apply rel_sub.
    + (* Mul *)
      destruct (as_num e1) as [c1|] eqn:N1.
      * apply as_num_Some in N1; subst e1. destruct (T1 (fun _ => 0)) as [v0 Hv0]. apply ev_Num_inv in Hv0 as [q [-> _]].
        destruct (xq_is_zero (Fin q)) eqn:Z.
        -- inversion H; subst c s'; clear H. apply xq_is_zero_Fin in Z.
           apply spec_leaf; [exact I|unfold l_from_rhs; apply add_rhs_ok, new_ok|exact (proj1 (from_rhs_sound (fun _ => 0) 0%Q))|].
           intros sigma v Hv. destruct (ev_binop_inv _ _ _ _ _ Hv) as [x [y [Ex [Ey Hop]]]]. cbn in Hop. inversion Hop.
           apply ev_Num_inv in Ex as [q' [E ->]]. inversion E; subst q'. rewrite (proj2 (from_rhs_sound sigma 0%Q)), Q2R_0, Z. lra.
        -- apply xq_is_zero_Fin_false in Z. unfold bind in H.
           destruct (lin n e2 (through_scale r (Fin q)) s) as [er|[lv s1]] eqn:E2; [discriminate|]. inversion H; subst c s'; clear H.
           pose proof (IH _ _ _ _ _ O2 I Ix2 T2 E2) as Sp.
           apply (spec_un (BinOp Mul (Num (Fin q)) e2) e2 r (through_scale r (Fin q)) (fun x => l_mul_by x (Fin q)) (fun y => Q2R q * y) s lv s1 O2 Ix2); [| | | |exact Sp].
           ++ intros sigma v _ Hv. destruct (ev_binop_inv _ _ _ _ _ Hv) as [x [y [Ex [Ey Hop]]]]. cbn in Hop. inversion Hop.
              apply ev_Num_inv in Ex as [q' [E ->]]. inversion E; subst q'. eauto.
           ++ intros A x Hx. apply mul_by_ok. exact Hx.
           ++ intros x Fx. split; [exact (proj1 (mul_by_sound (fun _ => 0) x q Fx))|intros sigma; exact (proj2 (mul_by_sound sigma x q Fx))].
           ++ intros x vx. apply rel_scale. exact Z.
      * assert (Hstep : (match e2 with
                         | Num c0 => if xq_is_zero c0 then ret (l_from_rhs (Fin 0%Q))
                                     else bind (lin n e1 (through_scale r c0)) (fun v => ret (l_mul_by v c0))
                         | _ => fail ENonLinear end) s = inr (c, s')).
        { destruct e1; try exact H. cbn in N1. discriminate. }
        clear H. destruct e2; try discriminate.
        destruct (T2 (fun _ => 0)) as [v0 Hv0]. apply ev_Num_inv in Hv0 as [q [-> _]].
        destruct (xq_is_zero (Fin q)) eqn:Z.
        -- inversion Hstep; subst c s'; clear Hstep. apply xq_is_zero_Fin in Z.
           apply spec_leaf; [exact I|unfold l_from_rhs; apply add_rhs_ok, new_ok|exact (proj1 (from_rhs_sound (fun _ => 0) 0%Q))|].
           intros sigma v Hv. destruct (ev_binop_inv _ _ _ _ _ Hv) as [x [y [Ex [Ey Hop]]]]. cbn in Hop. inversion Hop.
           apply ev_Num_inv in Ey as [q' [E ->]]. inversion E; subst q'. rewrite (proj2 (from_rhs_sound sigma 0%Q)), Q2R_0, Z. lra.
        -- apply xq_is_zero_Fin_false in Z. unfold bind in Hstep.
           destruct (lin n e1 (through_scale r (Fin q)) s) as [er|[lv s1]] eqn:E1; [discriminate|]. inversion Hstep; subst c s'; clear Hstep.
           pose proof (IH _ _ _ _ _ O1 I Ix1 T1 E1) as Sp.
           apply (spec_un (BinOp Mul e1 (Num (Fin q))) e1 r (through_scale r (Fin q)) (fun x => l_mul_by x (Fin q)) (fun y => Q2R q * y) s lv s1 O1 Ix1); [| | | |exact Sp].
           ++ intros sigma v _ Hv. destruct (ev_binop_inv _ _ _ _ _ Hv) as [x [y [Ex [Ey Hop]]]]. cbn in Hop. inversion Hop.
              apply ev_Num_inv in Ey as [q' [E ->]]. inversion E; subst q'. exists x. split; [exact Ex|ring].
           ++ intros A x Hx. apply mul_by_ok. exact Hx.
           ++ intros x Fx. split; [exact (proj1 (mul_by_sound (fun _ => 0) x q Fx))|intros sigma; exact (proj2 (mul_by_sound sigma x q Fx))].
           ++ intros x vx. apply rel_scale. exact Z.
    + (* Div *)
      destruct e2; try discriminate.
      destruct (Tt (fun _ => 0)) as [v0 Hv0]. destruct (ev_binop_inv _ _ _ _ _ Hv0) as [x0 [y0 [Ex0 [Ey0 Hop0]]]].
      apply ev_Num_inv in Ey0 as [q [-> ->]]. cbn [ev_binop] in Hop0. destruct (Req_EM_T (Q2R q) 0) as [Zq|NZ]; [discriminate|]. clear Hop0 Ex0.
      destruct (xq_is_zero (Fin q)) eqn:Z; [discriminate|]. unfold bind in H.
      rewrite (through_scale_div r q NZ) in H.
      destruct (lin n e1 (through_scale r (Fin q)) s) as [er|[lv s1]] eqn:E1; [discriminate|]. inversion H; subst c s'; clear H.
      pose proof (IH _ _ _ _ _ O1 I Ix1 T1 E1) as Sp.
      apply (spec_un (BinOp Div e1 (Num (Fin q))) e1 r (through_scale r (Fin q)) (fun x => l_div_by x (Fin q)) (fun y => y / Q2R q) s lv s1 O1 Ix1); [| | | |exact Sp].
      * intros sigma v _ Hv. destruct (ev_binop_inv _ _ _ _ _ Hv) as [x [y [Ex [Ey Hop]]]].
        apply ev_Num_inv in Ey as [q' [E ->]]. inversion E; subst q'. cbn [ev_binop] in Hop.
        destruct (Req_EM_T (Q2R q) 0) as [Zq|_]; [contradiction|]. inversion Hop. eauto.
      * intros A x Hx. apply div_by_ok. exact Hx.
      * intros x Fx. split; [exact (proj1 (div_by_sound (fun _ => 0) x q Fx NZ))|intros sigma; exact (proj2 (div_by_sound sigma x q Fx NZ))].
      * intros x vx. apply rel_div. exact NZ.
  - (* UnOp Neg *)
    destruct op; [|discriminate]. cbn [okexp xvars] in Ok, Ix. pose proof (tot_neg _ Tt) as Tx.
    unfold bind in H. destruct (lin n e (req_reversed r) s) as [er|[lv s1]] eqn:E1; [discriminate|]. inversion H; subst c s'; clear H.
    pose proof (IH _ _ _ _ _ Ok I Ix Tx E1) as Sp.
    apply (spec_un (UnOp Neg e) e r (req_reversed r) (fun x => l_mul_by x (Fin (-1)%Q)) Ropp s lv s1 Ok Ix); [| | | |exact Sp].
    + intros sigma v _ Hv. unfold ev in *. rewrite evg_Neg in Hv. destruct (evg sigma false e) as [t|]; [|discriminate]. inversion Hv. eauto.
    + intros A x Hx. apply mul_by_ok. exact Hx.
    + intros x Fx. split; [exact (proj1 (mul_by_sound (fun _ => 0) x (-1)%Q Fx))|].
      intros sigma. rewrite (proj2 (mul_by_sound sigma x (-1)%Q Fx)). replace (Q2R (-1)) with (-1) by (unfold Q2R; cbn; lra). lra.
    + intros x vx Hr. apply rel_neg. exact Hr.
Qed.

(* ---------- affine logic assertions (linearizer.rs:736-889, try_lower_affine): an assertion over Boolean variables, constants
   and negations of those - a conjunction, a disjunction, an implication, an equivalence, an exclusive or or a single
   literal, asserted true or false - becomes ONE row over the 0/1 values of its literals; at every assignment that gives
   the Boolean variables 0/1 values the row holds if and only if the formula evaluates to the asserted value. *)
(* the row, as a function of the formula *)
Fixpoint tla_row (s : lst) (e : exp) (must : bool) {struct e} : option (exp * cmp * exp) :=
  match e with
  | Not x | UnOp UNot x => tla_row s x (negb must)
  | And l =>
      match mapM (bav_exp s) l with
      | None => None
      | Some ops =>
          let n := xq_of_Z (Z.of_nat (List.length ops)) in
          Some (if must then (sum_exps ops, Eq, Num n) else (sum_exps ops, Le, Num (xq_sub n (Fin 1%Q))))
      end
  | Or l =>
      match mapM (bav_exp s) l with
      | None => None
      | Some ops => Some (sum_exps ops, (if must then Ge else Eq), Num (if must then Fin 1%Q else Fin 0%Q))
      end
  | Implies a b =>
      match bav_exp s a, bav_exp s b with
      | Some l, Some r => Some (if must then (l, Le, r) else (sub_exp l r, Eq, Num (Fin 1%Q)))
      | _, _ => None
      end
  | Iff a b =>
      match bav_exp s a, bav_exp s b with
      | Some l, Some r => Some (if must then (l, Eq, r) else (add_exp l r, Eq, Num (Fin 1%Q)))
      | _, _ => None
      end
  | Xor a b =>
      match bav_exp s a, bav_exp s b with
      | Some l, Some r => Some (if must then (add_exp l r, Eq, Num (Fin 1%Q)) else (l, Eq, r))
      | _, _ => None
      end
  | Num _ | Var _ =>
      match bav_exp s e with
      | None => None
      | Some v => Some (v, Eq, Num (if must then Fin 1%Q else Fin 0%Q))
      end
  | _ => None
  end.

Lemma tla_as_row : forall e must name s,
  try_lower_affine e must name s =
  match tla_row s e must with
  | Some (A, c, B) => bind (emit_constraint A c B name) (fun _ => ret true) s
  | None => inr (false, s)
  end.
Proof.
  induction e; intros must name st; cbn [try_lower_affine tla_row]; try reflexivity.
  - unfold bind at 1, get_st. destruct (bav_exp st (Num x)); reflexivity.
  - unfold bind at 1, get_st. destruct (bav_exp st (Var s)); reflexivity.
  - unfold bind at 1, get_st. destruct (mapM (bav_exp st) l); [|reflexivity]. destruct must; reflexivity.
  - unfold bind at 1, get_st. destruct (mapM (bav_exp st) l); [|reflexivity]. reflexivity.
  - apply IHe.
  - unfold bind at 1, get_st. destruct (bav_exp st e1); [|reflexivity]. destruct (bav_exp st e2); [|reflexivity]. destruct must; reflexivity.
  - unfold bind at 1, get_st. destruct (bav_exp st e1); [|reflexivity]. destruct (bav_exp st e2); [|reflexivity]. destruct must; reflexivity.
  - unfold bind at 1, get_st. destruct (bav_exp st e1); [|reflexivity]. destruct (bav_exp st e2); [|reflexivity]. destruct must; reflexivity.
  - destruct op; [reflexivity|apply IHe].
Qed.

(* ---------- literals *)
Lemma bav_sem s : forall e c, binary_affine_value s e = Some c ->
  ctx_fin c /\ incl (ckeys c) (lvars e) /\ NoDup (ckeys c) /\
  forall sigma, dom_sat (s_dom s) sigma -> exists b, evT sigma e = Some (bnR b) /\ ev sigma e = Some (bnR b) /\ ctx_val sigma c = bnR b.
Proof.
  induction e; intros c H; cbn [binary_affine_value] in H; try discriminate.
  - destruct (xq_is_zero x || xq_is_one x) eqn:Z; [|discriminate]. inversion H; subst c; clear H.
    destruct x as [q| | |]; try discriminate.
    split; [exact (proj1 (from_rhs_sound (fun _ => 0) q))|]. split; [intros k []|]. split; [constructor|].
    intros sigma _. apply orb_true_iff in Z as [Z|Z].
    + apply xq_is_zero_Fin in Z. exists false. unfold evT, ev. cbn [evg]. rewrite Z. repeat split; try reflexivity. rewrite (proj2 (from_rhs_sound sigma q)). exact Z.
    + apply xq_is_one_Fin in Z. exists true. unfold evT, ev. cbn [evg]. rewrite Z. repeat split; try reflexivity. rewrite (proj2 (from_rhs_sound sigma q)). exact Z.
  - destruct (is_boolean_var s s0) eqn:B; [|discriminate]. inversion H; subst c; clear H.
    split; [exact (proj1 (from_var_one (fun _ => 0) s0))|]. split; [intros k Hk; unfold l_from_var, l_add_var, l_new in Hk; cbn in Hk; exact Hk|]. split; [repeat constructor; intros []|].
    intros sigma D. destruct (bin_bnR _ (bvar_bin s sigma s0 B D)) as [b Eb]. exists b. unfold evT, ev. cbn [evg]. rewrite Eb. repeat split; try reflexivity.
    rewrite (proj2 (from_var_one sigma s0)). exact Eb.
  - (* Not *) destruct (binary_affine_value s e) as [c0|] eqn:E0; [|discriminate]. inversion H; subst c; clear H.
    destruct (IHe c0 eq_refl) as [F0 [K0 [N0 S0]]].
    destruct (mul_by_sound (fun _ => 0) c0 (-1)%Q F0) as [F1 _]. destruct (add_rhs_sound (fun _ => 0) _ (Fin 1%Q) F1 eq_refl) as [F2 _].
    split; [exact F2|]. split; [unfold ckeys, l_add_rhs, l_mul_by; cbn [l_vars]; rewrite map_map; cbn [fst]; exact K0|].
    split; [unfold ckeys, l_add_rhs, l_mul_by; cbn [l_vars]; rewrite map_map; cbn [fst]; exact N0|].
    intros sigma D. destruct (S0 sigma D) as [b [T [E V]]]. exists (negb b). unfold evT, ev in *. rewrite !evg_Not, T, E. cbn [option_map]. rewrite truthyR_bnR.
    repeat split; try reflexivity. rewrite (proj2 (add_rhs_sound sigma _ (Fin 1%Q) F1 eq_refl)), (proj2 (mul_by_sound sigma c0 (-1)%Q F0)), V.
    cbn [cval]. rewrite Q2R_1. replace (Q2R (-1)) with (-1) by (unfold Q2R; cbn; lra). destruct b; cbn; lra.
  - (* UnOp UNot *) destruct op; [discriminate|]. destruct (binary_affine_value s e) as [c0|] eqn:E0; [|discriminate]. inversion H; subst c; clear H.
    destruct (IHe c0 eq_refl) as [F0 [K0 [N0 S0]]].
    destruct (mul_by_sound (fun _ => 0) c0 (-1)%Q F0) as [F1 _]. destruct (add_rhs_sound (fun _ => 0) _ (Fin 1%Q) F1 eq_refl) as [F2 _].
    split; [exact F2|]. split; [unfold ckeys, l_add_rhs, l_mul_by; cbn [l_vars]; rewrite map_map; cbn [fst]; exact K0|].
    split; [unfold ckeys, l_add_rhs, l_mul_by; cbn [l_vars]; rewrite map_map; cbn [fst]; exact N0|].
    intros sigma D. destruct (S0 sigma D) as [b [T [E V]]]. exists (negb b). unfold evT, ev in *. rewrite !evg_UNot, T, E. cbn [option_map]. rewrite truthyR_bnR.
    repeat split; try reflexivity. rewrite (proj2 (add_rhs_sound sigma _ (Fin 1%Q) F1 eq_refl)), (proj2 (mul_by_sound sigma c0 (-1)%Q F0)), V.
    cbn [cval]. rewrite Q2R_1. replace (Q2R (-1)) with (-1) by (unfold Q2R; cbn; lra). destruct b; cbn; lra.
Qed.

(* ---------- lists of literals *)
Lemma mapM_bav s : forall l ops, mapM (bav_exp s) l = Some ops ->
  exists cs, ops = map context_to_exp cs /\ Forall2 (fun e c => binary_affine_value s e = Some c) l cs.
Proof.
  induction l as [|x l IH]; intros ops H; cbn [mapM] in H; [inversion H; exists []; split; [reflexivity|constructor]|].
  unfold bav_exp at 1 in H. destruct (binary_affine_value s x) as [c|] eqn:Ec; [|discriminate]. cbn [option_map] in H.
  destruct (mapM (bav_exp s) l) as [ops'|] eqn:El; [|discriminate]. inversion H; subst ops. destruct (IH ops' eq_refl) as [cs [E F]].
  exists (c :: cs). split; [cbn [map]; rewrite E; reflexivity|constructor; assumption].
Qed.

Fixpoint count_true (bs : list bool) : nat := match bs with [] => O | b :: r => (if b then 1 else 0) + count_true r end.
Lemma rsum_count bs : ArmLemmas.rsum (map bnR bs) = INR (count_true bs).
Proof. induction bs as [|b bs IH]; [reflexivity|]. cbn [map ArmLemmas.rsum count_true]. rewrite IH, plus_INR. destruct b; cbn; lra. Qed.
Lemma count_le bs : (count_true bs <= List.length bs)%nat.
Proof. induction bs as [|b bs IH]; cbn; [lia|destruct b; lia]. Qed.
Lemma count_all bs : count_true bs = List.length bs <-> forallb (fun b => b) bs = true.
Proof. induction bs as [|b bs IH]; cbn; [tauto|]. pose proof (count_le bs). destruct b; cbn; [rewrite <- IH; lia|split; [lia|discriminate]]. Qed.
Lemma count_none bs : count_true bs = O <-> existsb (fun b => b) bs = false.
Proof. induction bs as [|b bs IH]; cbn; [tauto|]. destruct b; cbn; [split; [lia|discriminate]|exact IH]. Qed.
Lemma forallb_truthy bs : forallb truthyR (map bnR bs) = forallb (fun b => b) bs.
Proof. induction bs as [|b bs IH]; [reflexivity|]. cbn [map forallb]. rewrite truthyR_bnR, IH. reflexivity. Qed.
Lemma existsb_truthy bs : existsb truthyR (map bnR bs) = existsb (fun b => b) bs.
Proof. induction bs as [|b bs IH]; [reflexivity|]. cbn [map existsb]. rewrite truthyR_bnR, IH. reflexivity. Qed.

Lemma literals_sem s sigma : dom_sat (s_dom s) sigma -> forall l cs, Forall2 (fun e c => binary_affine_value s e = Some c) l cs ->
  exists bs, List.length bs = List.length l /\
    evlist_ok sigma true l = Some (map bnR bs) /\ evlist_ok sigma false l = Some (map bnR bs) /\
    Forall2 (fun c b => ctx_val sigma c = bnR b) cs bs.
Proof.
  intros D l cs F. induction F as [|e c l cs He _ IH]; [exists []; repeat split; constructor|].
  destruct IH as [bs [Lb [T [U V]]]]. destruct (bav_sem s e c He) as [_ [_ [_ S]]]. destruct (S sigma D) as [b [Te [Ee Ve]]].
  exists (b :: bs). unfold evT, ev in *. cbn [evlist_ok map List.length]. rewrite Te, Ee, T, U. unfold operand_ok. cbn [negb orb]. rewrite is_binR_bnR, orb_true_r.
  repeat split; try reflexivity; [rewrite Lb; reflexivity|constructor; assumption].
Qed.

Lemma ev_sum_list sigma : forall es vs e0 v0, Forall2 (fun e v => ev sigma e = Some v) es vs -> ev sigma e0 = Some v0 ->
  ev sigma (fold_left add_exp es e0) = Some (v0 + ArmLemmas.rsum vs).
Proof.
  induction es as [|e es IH]; intros vs e0 v0 F H0; inversion F as [|? y ? l' He Fl]; subst; cbn [fold_left ArmLemmas.rsum]; [rewrite H0; f_equal; lra|].
  rewrite (IH l' (add_exp e0 e) (v0 + y) Fl); [f_equal; lra|]. unfold ev, add_exp in *. rewrite evg_BinOp, H0, He. reflexivity.
Qed.
Lemma ev_sum_exps sigma es vs : Forall2 (fun e v => ev sigma e = Some v) es vs -> ev sigma (sum_exps es) = Some (ArmLemmas.rsum vs).
Proof.
  intros F. destruct F as [|e v es vs He F]; [cbn; unfold ev; cbn; f_equal; apply Q2R_0|]. cbn [sum_exps ArmLemmas.rsum].
  apply ev_sum_list; assumption.
Qed.
Lemma plainA_sum_list : forall es e0, Forall (fun e => plainA e = true) es -> plainA e0 = true -> plainA (fold_left add_exp es e0) = true.
Proof. induction es as [|e es IH]; intros e0 F H0; [exact H0|]. inversion F as [|? ? He Fl]; subst. cbn [fold_left]. apply IH; [assumption|]. cbn [add_exp plainA]. rewrite H0, He. reflexivity. Qed.
Lemma plainA_sum_exps es : Forall (fun e => plainA e = true) es -> plainA (sum_exps es) = true.
Proof. intros F. destruct F as [|e es He F]; [reflexivity|]. cbn [sum_exps]. apply plainA_sum_list; assumption. Qed.

Lemma ev_num_nat sigma n : ev sigma (Num (xq_of_Z (Z.of_nat n))) = Some (INR n).
Proof. unfold ev, xq_of_Z. cbn [evg]. rewrite PublishSound.Q2R_inject_Z, <- INR_IZR_INZ. reflexivity. Qed.

Lemma ops_values sigma : forall cs bs, Forall ctx_fin cs -> Forall2 (fun c b => ctx_val sigma c = bnR b) cs bs ->
  Forall2 (fun e v => ev sigma e = Some v) (map context_to_exp cs) (map bnR bs).
Proof.
  induction cs as [|cx cs IH]; intros bs Fc V; inversion V as [|? b ? bs' Hc Vl]; subst; [constructor|]. inversion Fc as [|? ? Fx Fl]; subst.
  cbn [map]. constructor; [rewrite (context_to_exp_sound sigma cx Fx), Hc; reflexivity|apply IH; assumption].
Qed.

(* ---------- the theorem: the row holds exactly when the formula has the asserted value *)
Theorem tla_row_sem s : forall e must A c B, tla_row s e must = Some (A, c, B) ->
  plainA A = true /\ plainA B = true /\
  forall sigma, dom_sat (s_dom s) sigma ->
    exists b a0 b0, evT sigma e = Some (bnR b) /\ ev sigma e = Some (bnR b) /\ ev sigma A = Some a0 /\ ev sigma B = Some b0 /\
                    (cmp_holds c a0 b0 <-> b = must).
Proof.
  induction e; intros must A c B H; cbn [tla_row] in H; try discriminate.
  - (* Num *) destruct (bav_exp s (Num x)) as [v|] eqn:Ev; [|discriminate]. inversion H; subst A c B; clear H.
    unfold bav_exp in Ev. destruct (binary_affine_value s (Num x)) as [cx|] eqn:Ec; [|discriminate]. inversion Ev; subst v.
    destruct (bav_sem s _ _ Ec) as [F [_ [_ S]]]. split; [apply plainA_ctx; exact F|]. split; [destruct must; reflexivity|].
    intros sigma D. destruct (S sigma D) as [b [T [E V]]]. exists b, (bnR b), (if must then 1 else 0).
    split; [exact T|]. split; [exact E|]. split; [rewrite (context_to_exp_sound sigma cx F), V; reflexivity|].
    split; [destruct must; unfold ev; cbn [evg]; f_equal; [apply Q2R_1|apply Q2R_0]|]. cbn [cmp_holds]. destruct b, must; cbn; split; intros; try reflexivity; try discriminate; lra.
  - (* Var *) destruct (bav_exp s (Var s0)) as [v|] eqn:Ev; [|discriminate]. inversion H; subst A c B; clear H.
    unfold bav_exp in Ev. destruct (binary_affine_value s (Var s0)) as [cx|] eqn:Ec; [|discriminate]. inversion Ev; subst v.
    destruct (bav_sem s _ _ Ec) as [F [_ [_ S]]]. split; [apply plainA_ctx; exact F|]. split; [destruct must; reflexivity|].
    intros sigma D. destruct (S sigma D) as [b [T [E V]]]. exists b, (bnR b), (if must then 1 else 0).
    split; [exact T|]. split; [exact E|]. split; [rewrite (context_to_exp_sound sigma cx F), V; reflexivity|].
    split; [destruct must; unfold ev; cbn [evg]; f_equal; [apply Q2R_1|apply Q2R_0]|]. cbn [cmp_holds]. destruct b, must; cbn; split; intros; try reflexivity; try discriminate; lra.
  - (* And *) destruct (mapM (bav_exp s) l) as [ops|] eqn:Em; [|discriminate]. destruct (mapM_bav s l ops Em) as [cs [Eo F]].
    assert (Fc : Forall ctx_fin cs).
    { clear -F. induction F as [|e c l cs He _ IH]; constructor; [exact (proj1 (bav_sem s e c He))|exact IH]. }
    assert (Pa : plainA (sum_exps ops) = true).
    { apply plainA_sum_exps. rewrite Eo. apply Forall_forall. intros o Ho. apply in_map_iff in Ho as [cx [<- Hc]]. apply plainA_ctx. exact (proj1 (Forall_forall _ _) Fc cx Hc). }
    assert (Lo : List.length ops = List.length l) by (rewrite Eo, map_length; symmetry; exact (Forall2_len _ _ _ F)).
    assert (Sem : forall sigma, dom_sat (s_dom s) sigma -> exists bs, List.length bs = List.length l /\
              evT sigma (And l) = Some (bnR (forallb (fun b => b) bs)) /\ ev sigma (And l) = Some (bnR (forallb (fun b => b) bs)) /\
              ev sigma (sum_exps ops) = Some (INR (count_true bs))).
    { intros sigma D. destruct (literals_sem s sigma D l cs F) as [bs [Lb [T [U V]]]]. exists bs. split; [exact Lb|].
      unfold evT, ev. rewrite !evg_And, T, U. cbn [option_map]. rewrite forallb_truthy. split; [reflexivity|]. split; [reflexivity|].
      rewrite <- rsum_count. rewrite Eo. apply ev_sum_exps.
      exact (ops_values sigma cs bs Fc V). }
    destruct must; inversion H; subst A c B; clear H.
    + split; [exact Pa|]. split; [reflexivity|]. intros sigma D. destruct (Sem sigma D) as [bs [Lb [T [U V]]]].
      exists (forallb (fun b => b) bs), (INR (count_true bs)), (INR (List.length ops)). split; [exact T|]. split; [exact U|]. split; [exact V|]. split; [apply ev_num_nat|].
      cbn [cmp_holds]. rewrite Lo, <- Lb. split.
      * intros E. apply INR_eq in E. apply count_all. exact E.
      * intros E. apply count_all in E. rewrite E. reflexivity.
    + destruct (xq_sub_Fin (inject_Z (Z.of_nat (List.length ops))) 1%Q) as [d [Ed Vd]]. cbn [xq_sub xq_add xq_neg] in Ed. injection Ed as Ed. subst d.
      split; [exact Pa|]. split; [reflexivity|]. intros sigma D. destruct (Sem sigma D) as [bs [Lb [T [U V]]]].
      eexists (forallb (fun b => b) bs), (INR (count_true bs)), _. split; [exact T|]. split; [exact U|]. split; [exact V|]. split; [reflexivity|].
      cbn [cmp_holds]. rewrite Vd, PublishSound.Q2R_inject_Z, <- INR_IZR_INZ, Q2R_1, Lo, <- Lb. pose proof (count_le bs) as Cl. split.
      * intros E. destruct (forallb (fun b => b) bs) eqn:Fa; [|reflexivity]. apply count_all in Fa. rewrite Fa in E. lra.
      * intros E. assert (Nc : count_true bs <> List.length bs) by (intros Ec; apply count_all in Ec; congruence).
        assert (Hlt : (count_true bs + 1 <= List.length bs)%nat) by lia. apply le_INR in Hlt. rewrite plus_INR in Hlt. cbn in Hlt. lra.
  - (* Or *) destruct (mapM (bav_exp s) l) as [ops|] eqn:Em; [|discriminate]. destruct (mapM_bav s l ops Em) as [cs [Eo F]].
    assert (Fc : Forall ctx_fin cs).
    { clear -F. induction F as [|e c l cs He _ IH]; constructor; [exact (proj1 (bav_sem s e c He))|exact IH]. }
    assert (Pa : plainA (sum_exps ops) = true).
    { apply plainA_sum_exps. rewrite Eo. apply Forall_forall. intros o Ho. apply in_map_iff in Ho as [cx [<- Hc]]. apply plainA_ctx. exact (proj1 (Forall_forall _ _) Fc cx Hc). }
    inversion H; subst A c B; clear H. split; [exact Pa|]. split; [destruct must; reflexivity|].
    intros sigma D. destruct (literals_sem s sigma D l cs F) as [bs [Lb [T [U V]]]].
    exists (existsb (fun b => b) bs), (INR (count_true bs)), (if must then 1 else 0).
    unfold evT, ev. rewrite !evg_Or, T, U. cbn [option_map]. rewrite existsb_truthy. split; [reflexivity|]. split; [reflexivity|]. split.
    { rewrite <- rsum_count. rewrite Eo. apply ev_sum_exps.
      exact (ops_values sigma cs bs Fc V). }
    split; [destruct must; cbn [evg]; f_equal; [apply Q2R_1|apply Q2R_0]|].
    destruct must; cbn [cmp_holds].
    + split.
      * intros E. destruct (existsb (fun b => b) bs) eqn:Ex; [reflexivity|]. apply count_none in Ex. rewrite Ex in E. cbn in E. lra.
      * intros E. assert (Nc : count_true bs <> O) by (intros Ec; apply count_none in Ec; congruence).
        assert (Hge : (1 <= count_true bs)%nat) by lia. apply le_INR in Hge. cbn in Hge. lra.
    + split.
      * intros E. replace 0 with (INR 0) in E by reflexivity. apply INR_eq in E. apply count_none. exact E.
      * intros E. apply count_none in E. rewrite E. reflexivity.
  - (* Not *) destruct (IHe (negb must) A c B H) as [Pa [Pb S]]. split; [exact Pa|]. split; [exact Pb|].
    intros sigma D. destruct (S sigma D) as [b [a0 [b0 [T [E [Ea [Eb Hc]]]]]]]. exists (negb b), a0, b0.
    unfold evT, ev in *. rewrite !evg_Not, T, E. cbn [option_map]. rewrite truthyR_bnR. repeat split; try assumption; try reflexivity.
    + intros Hh. apply Hc in Hh. subst b. apply negb_involutive.
    + intros Hh. apply Hc. subst must. symmetry. apply negb_involutive.
  - (* Xor *) destruct (bav_exp s e1) as [l|] eqn:E1; [|discriminate]. destruct (bav_exp s e2) as [r|] eqn:E2; [|discriminate].
    unfold bav_exp in E1, E2. destruct (binary_affine_value s e1) as [c1|] eqn:B1; [|discriminate]. destruct (binary_affine_value s e2) as [c2|] eqn:B2; [|discriminate].
    inversion E1; subst l. inversion E2; subst r. destruct (bav_sem s _ _ B1) as [F1 [_ [_ S1]]]. destruct (bav_sem s _ _ B2) as [F2 [_ [_ S2]]].
    pose proof (plainA_ctx c1 F1) as P1. pose proof (plainA_ctx c2 F2) as P2.
    destruct must; inversion H; subst A c B; clear H.
    + split; [cbn [add_exp plainA]; rewrite P1, P2; reflexivity|]. split; [reflexivity|]. intros sigma D.
      destruct (S1 sigma D) as [b1 [T1 [U1 V1]]]. destruct (S2 sigma D) as [b2 [T2 [U2 V2]]].
      exists (xorb b1 b2), (bnR b1 + bnR b2), 1. unfold evT, ev in *. rewrite !evg_Xor, T1, T2, U1, U2, !truthyR_bnR. split; [reflexivity|]. split; [reflexivity|].
      split; [unfold add_exp; rewrite evg_BinOp; pose proof (context_to_exp_sound sigma c1 F1) as X1; pose proof (context_to_exp_sound sigma c2 F2) as X2; unfold ev in X1, X2; rewrite X1, X2, V1, V2; reflexivity|].
      split; [cbn [evg]; f_equal; apply Q2R_1|]. cbn [cmp_holds]. destruct b1, b2; cbn; split; intros; try reflexivity; try discriminate; lra.
    + split; [exact P1|]. split; [exact P2|]. intros sigma D.
      destruct (S1 sigma D) as [b1 [T1 [U1 V1]]]. destruct (S2 sigma D) as [b2 [T2 [U2 V2]]].
      exists (xorb b1 b2), (bnR b1), (bnR b2). unfold evT, ev in *. rewrite !evg_Xor, T1, T2, U1, U2, !truthyR_bnR. split; [reflexivity|]. split; [reflexivity|].
      pose proof (context_to_exp_sound sigma c1 F1) as X1. pose proof (context_to_exp_sound sigma c2 F2) as X2. unfold ev in X1, X2.
      split; [rewrite X1, V1; reflexivity|]. split; [rewrite X2, V2; reflexivity|]. cbn [cmp_holds]. destruct b1, b2; cbn; split; intros; try reflexivity; try discriminate; lra.
  - (* Implies *) destruct (bav_exp s e1) as [l|] eqn:E1; [|discriminate]. destruct (bav_exp s e2) as [r|] eqn:E2; [|discriminate].
    unfold bav_exp in E1, E2. destruct (binary_affine_value s e1) as [c1|] eqn:B1; [|discriminate]. destruct (binary_affine_value s e2) as [c2|] eqn:B2; [|discriminate].
    inversion E1; subst l. inversion E2; subst r. destruct (bav_sem s _ _ B1) as [F1 [_ [_ S1]]]. destruct (bav_sem s _ _ B2) as [F2 [_ [_ S2]]].
    pose proof (plainA_ctx c1 F1) as P1. pose proof (plainA_ctx c2 F2) as P2.
    destruct must; inversion H; subst A c B; clear H.
    + split; [exact P1|]. split; [exact P2|]. intros sigma D.
      destruct (S1 sigma D) as [b1 [T1 [U1 V1]]]. destruct (S2 sigma D) as [b2 [T2 [U2 V2]]].
      exists (negb b1 || b2)%bool, (bnR b1), (bnR b2). unfold evT, ev in *. rewrite !evg_Implies, T1, T2, U1, U2, !truthyR_bnR. split; [reflexivity|]. split; [reflexivity|].
      pose proof (context_to_exp_sound sigma c1 F1) as X1. pose proof (context_to_exp_sound sigma c2 F2) as X2. unfold ev in X1, X2.
      split; [rewrite X1, V1; reflexivity|]. split; [rewrite X2, V2; reflexivity|]. cbn [cmp_holds]. destruct b1, b2; cbn; split; intros; try reflexivity; try discriminate; lra.
    + split; [cbn [sub_exp plainA]; rewrite P1, P2; reflexivity|]. split; [reflexivity|]. intros sigma D.
      destruct (S1 sigma D) as [b1 [T1 [U1 V1]]]. destruct (S2 sigma D) as [b2 [T2 [U2 V2]]].
      exists (negb b1 || b2)%bool, (bnR b1 - bnR b2), 1. unfold evT, ev in *. rewrite !evg_Implies, T1, T2, U1, U2, !truthyR_bnR. split; [reflexivity|]. split; [reflexivity|].
      split; [unfold sub_exp; rewrite evg_BinOp; pose proof (context_to_exp_sound sigma c1 F1) as X1; pose proof (context_to_exp_sound sigma c2 F2) as X2; unfold ev in X1, X2; rewrite X1, X2, V1, V2; reflexivity|].
      split; [cbn [evg]; f_equal; apply Q2R_1|]. cbn [cmp_holds]. destruct b1, b2; cbn; split; intros; try reflexivity; try discriminate; lra.
  - (* Iff *) destruct (bav_exp s e1) as [l|] eqn:E1; [|discriminate]. destruct (bav_exp s e2) as [r|] eqn:E2; [|discriminate].
    unfold bav_exp in E1, E2. destruct (binary_affine_value s e1) as [c1|] eqn:B1; [|discriminate]. destruct (binary_affine_value s e2) as [c2|] eqn:B2; [|discriminate].
    inversion E1; subst l. inversion E2; subst r. destruct (bav_sem s _ _ B1) as [F1 [_ [_ S1]]]. destruct (bav_sem s _ _ B2) as [F2 [_ [_ S2]]].
    pose proof (plainA_ctx c1 F1) as P1. pose proof (plainA_ctx c2 F2) as P2.
    destruct must; inversion H; subst A c B; clear H.
    + split; [exact P1|]. split; [exact P2|]. intros sigma D.
      destruct (S1 sigma D) as [b1 [T1 [U1 V1]]]. destruct (S2 sigma D) as [b2 [T2 [U2 V2]]].
      exists (Bool.eqb b1 b2), (bnR b1), (bnR b2). unfold evT, ev in *. rewrite !evg_Iff, T1, T2, U1, U2, !truthyR_bnR. split; [reflexivity|]. split; [reflexivity|].
      pose proof (context_to_exp_sound sigma c1 F1) as X1. pose proof (context_to_exp_sound sigma c2 F2) as X2. unfold ev in X1, X2.
      split; [rewrite X1, V1; reflexivity|]. split; [rewrite X2, V2; reflexivity|]. cbn [cmp_holds]. destruct b1, b2; cbn; split; intros; try reflexivity; try discriminate; lra.
    + split; [cbn [add_exp plainA]; rewrite P1, P2; reflexivity|]. split; [reflexivity|]. intros sigma D.
      destruct (S1 sigma D) as [b1 [T1 [U1 V1]]]. destruct (S2 sigma D) as [b2 [T2 [U2 V2]]].
      exists (Bool.eqb b1 b2), (bnR b1 + bnR b2), 1. unfold evT, ev in *. rewrite !evg_Iff, T1, T2, U1, U2, !truthyR_bnR. split; [reflexivity|]. split; [reflexivity|].
      split; [unfold add_exp; rewrite evg_BinOp; pose proof (context_to_exp_sound sigma c1 F1) as X1; pose proof (context_to_exp_sound sigma c2 F2) as X2; unfold ev in X1, X2; rewrite X1, X2, V1, V2; reflexivity|].
      split; [cbn [evg]; f_equal; apply Q2R_1|]. cbn [cmp_holds]. destruct b1, b2; cbn; split; intros; try reflexivity; try discriminate; lra.
  - (* UnOp *) destruct op; [discriminate|]. destruct (IHe (negb must) A c B H) as [Pa [Pb S]]. split; [exact Pa|]. split; [exact Pb|].
    intros sigma D. destruct (S sigma D) as [b [a0 [b0 [T [E [Ea [Eb Hc]]]]]]]. exists (negb b), a0, b0.
    unfold evT, ev in *. rewrite !evg_UNot, T, E. cbn [option_map]. rewrite truthyR_bnR. repeat split; try assumption; try reflexivity.
    + intros Hh. apply Hc in Hh. subst b. apply negb_involutive.
    + intros Hh. apply Hc. subst must. symmetry. apply negb_involutive.
Qed.

(* ---------- one step of the main loop: an arithmetic constraint, or an assertion lowered to one affine row *)
Definition req_of_cmp (c : cmp) : req :=
  match c with Le | Lt => PreferLower | Ge | Gt => PreferHigher | Eq => Exact end.
Lemma row_back c X k a b : rel (req_of_cmp c) X (a - b) -> cmp_holds c (X - k) (- k) -> cmp_holds c a b.
Proof. destruct c; cbn; lra. Qed.
Lemma row_fwd c k a b : cmp_holds c a b -> cmp_holds c ((a - b) - k) (- k).
Proof. destruct c; cbn; lra. Qed.
Definition pushr (s : lst) (r : midrow) : lst := mkS (s_queue s) (s_rows s ++ [r]) (s_cnt s) (s_dom s) (s_an s).

Definition emit_trace (A B : exp) (s : lst) : bool :=
  match fs_pure (BinOp Sub A B) with
  | Some e => okexp e && forallb (set_mem (ukeys s)) (xvars e)
  | None => false
  end.

Lemma emit_ok A cmpk B name s u s' : INV s ->
  (forall sigma, exists a b, evT sigma A = Some a /\ ev sigma A = Some a /\ evT sigma B = Some b /\ ev sigma B = Some b) ->
  emit_trace A B s = true -> emit_constraint A cmpk B name s = inr (u, s') ->
  INV s' /\ ext s s' /\
  (forall sigma, st_sat s' sigma -> st_sat s sigma /\ exists a b, ev sigma A = Some a /\ ev sigma B = Some b /\ cmp_holds cmpk a b) /\
  (forall rho a b, st_sat s rho -> ev rho A = Some a -> ev rho B = Some b -> cmp_holds cmpk a b ->
     exists sigma, (forall n, In n (akeys s) -> sigma n = rho n) /\ st_sat s' sigma).
Proof.
  intros I Tot ET H. unfold emit_trace in ET. destruct (fs_pure (BinOp Sub A B)) as [e|] eqn:Fe; [|discriminate].
  apply andb_true_iff in ET as [Oe Ve]. apply forallb_mem_incl in Ve.
  unfold emit_constraint, bind in H. rewrite flatten_simplify_eq, Fe in H. unfold linearize_exp in H.
  fold (req_of_cmp cmpk) in H.
  match type of H with context [lin ?n e ?rq s] => destruct (lin n e rq s) as [er|[v s2]] eqn:EL; [discriminate|] end.
  unfold push_row in H. inversion H; subst s'; clear H.
  assert (Vals : forall sigma, exists a b, ev sigma A = Some a /\ ev sigma B = Some b /\ ev sigma e = Some (a - b)).
  { intros sigma. destruct (Tot sigma) as [a [b [Ta [Ea [Tb Eb]]]]]. exists a, b. split; [exact Ea|]. split; [exact Eb|].
    assert (Ts : evT sigma (BinOp Sub A B) = Some (a - b)) by (unfold evT in *; rewrite evg_BinOp, Ta, Tb; reflexivity).
    exact (proj2 (fs_pure_sound sigma _ _ _ Fe Ts)). }
  assert (Te : tot e) by (intros sigma; destruct (Vals sigma) as [a [b [_ [_ E]]]]; eauto).
  destruct (lin_ok _ _ _ _ _ _ Oe I Ve Te EL) as [I2 [G2 [K2 [F2 [S2 C2]]]]].
  set (row := mkRow name (l_vars v) (xq_neg (l_rhs v)) cmpk).
  change (mkS (s_queue s2) (s_rows s2 ++ [row]) (s_cnt s2) (s_dom s2) (s_an s2)) with (pushr s2 row).
  destruct F2 as [Fv Fr2]. destruct (fin_neg (l_rhs v) Fr2) as [Fn Vn].
  assert (Hrow : forall sigma, mrow_holds sigma row <-> cmp_holds cmpk (ctx_val sigma v - cval (l_rhs v)) (- cval (l_rhs v))).
  { intros sigma. unfold mrow_holds, row. cbn [r_cmp r_lhs r_rhs]. rewrite Vn. unfold ctx_val.
    replace (cs_val sigma (l_vars v) + cval (l_rhs v) - cval (l_rhs v)) with (cs_val sigma (l_vars v)) by lra. reflexivity. }
  split; [|split; [|split]].
  - destruct I2 as [A0 B0 C D E]. constructor; try assumption.
    + eapply Forall_impl; [|exact C]. intros c0. apply qgood_dom. reflexivity.
    + cbn [pushr s_rows]. apply Forall_app. split; [exact D|].
      constructor; [|constructor]. unfold rgood, row. cbn [r_lhs r_rhs]. destruct K2 as [K2a K2b].
      split; [exact K2a|]. split; [exact K2b|]. split; [exact Fv|exact Fn].
  - destruct G2 as [E2 _]. eapply ext_trans; [exact E2|apply ext_same_dom; reflexivity].
  - intros sigma [Q [Rw D]].
    assert (S2s : st_sat s2 sigma).
    { split; [exact Q|]. split; [|exact D]. intros r0 Hr0. apply Rw. cbn [pushr s_rows]. apply in_or_app. left. exact Hr0. }
    split; [exact (st_sat_back _ _ _ G2 S2s)|].
    destruct (Vals sigma) as [a [b [Ea [Eb Ee]]]]. exists a, b. split; [exact Ea|]. split; [exact Eb|].
    assert (Hr : mrow_holds sigma row) by (apply Rw; cbn [pushr s_rows]; apply in_or_app; right; left; reflexivity).
    apply Hrow in Hr. eapply row_back; [exact (S2 sigma _ S2s Ee)|exact Hr].
  - intros rho a b S Ea Eb Hab. destruct (Vals rho) as [a' [b' [Ea' [Eb' Ee]]]].
    rewrite Ea in Ea'. rewrite Eb in Eb'. inversion Ea'; inversion Eb'; subst a' b'.
    destruct (C2 rho _ S Ee) as [sigma [Ag [S2' V]]]. exists sigma. split; [exact Ag|].
    destruct S2' as [Q [Rw D]]. split; [exact Q|]. split; [|exact D].
    intros r0 Hr0. cbn [pushr s_rows] in Hr0. apply in_app_or in Hr0 as [Hr0|[<-|[]]]; [exact (Rw r0 Hr0)|].
    apply Hrow. rewrite V. apply row_fwd. exact Hab.
Qed.

(* the compiler's own comparison of constants is the comparison of their values *)
Lemma comparison_holds_spec a c k : comparison_holds (Fin a) c (Fin k) = true <-> cmp_holds c (Q2R a) (Q2R k).
Proof.
  destruct c; cbn [comparison_holds cmp_holds]; unfold xq_geb, xq_gtb, xq_leb; cbn [xq_ltb xq_eqb].
  - split; [intros H; apply orb_true_iff in H as [H|H]; [apply q_ltb_true in H; lra|apply q_eqb_true in H; lra]|].
    intros H. destruct (q_ltb a k) eqn:L; [reflexivity|]. apply q_ltb_false in L. cbn [orb].
    destruct (q_eqb a k) eqn:E; [reflexivity|]. apply q_eqb_false in E. lra.
  - split; [intros H; apply orb_true_iff in H as [H|H]; [apply q_ltb_true in H; lra|apply q_eqb_true in H; lra]|].
    intros H. destruct (q_ltb k a) eqn:L; [reflexivity|]. apply q_ltb_false in L. cbn [orb].
    destruct (q_eqb k a) eqn:E; [reflexivity|]. apply q_eqb_false in E. lra.
  - split; [intros H; apply q_eqb_true in H; exact H|]. intros H. destruct (q_eqb a k) eqn:E; [reflexivity|]. apply q_eqb_false in E. contradiction.
  - split; [intros H; apply q_ltb_true in H; exact H|]. intros H. destruct (q_ltb a k) eqn:L; [reflexivity|]. apply q_ltb_false in L. lra.
  - split; [intros H; apply q_ltb_true in H; lra|]. intros H. destruct (q_ltb k a) eqn:L; [reflexivity|]. apply q_ltb_false in L. lra.
Qed.
Lemma cmp_holds_rev c x y : cmp_holds c x y <-> cmp_holds (reversed_comparison c) y x.
Proof. destruct c; cbn; split; intros; lra. Qed.

(* what the logic-constraint test decided: which side is the formula, against which constant, under which comparison *)
Definition norm_go (e : exp) (c : cmp) (k : xq) : normalized :=
  match e with
  | Num v => if comparison_holds v c k then NTautology else NContradiction
  | _ => match comparison_holds (Fin 0%Q) c k, comparison_holds (Fin 1%Q) c k with
         | false, true => NAssertion e true
         | true, false => NAssertion e false
         | true, true => NTautology
         | false, false => NContradiction
         end
  end.
Lemma try_normalize_inv st l c r n : try_normalize_logic_constraint st l c r = Some n ->
  exists e c' k, n = norm_go e c' k /\ ((r = Num k /\ e = l /\ c' = c) \/ (l = Num k /\ e = r /\ c' = reversed_comparison c /\ is_num r = false)).
Proof.
  unfold try_normalize_logic_constraint. cbv zeta. intros H.
  destruct r as [k| | | | | | | | | | | |].
  1: { (* the constant is on the right *)
    destruct (is_logic_value st l) eqn:L; [|discriminate]. exists l, c, k. split; [|left; auto].
    unfold norm_go. destruct l; repeat match type of H with context [comparison_holds ?a0 ?b0 ?c0] => destruct (comparison_holds a0 b0 c0) end; inversion H; reflexivity. }
  all: destruct l as [k| | | | | | | | | | | |]; try discriminate;
       match type of H with context [is_logic_value ?sx ?rr] => destruct (is_logic_value sx rr) eqn:L; [|discriminate]; exists rr, (reversed_comparison c), k end;
       (split; [|right; auto]); unfold norm_go;
       repeat match type of H with context [comparison_holds ?a0 ?b0 ?c0] => destruct (comparison_holds a0 b0 c0) end; inversion H; reflexivity.
Qed.

Definition step_ok (c : constr) (s : lst) : bool :=
  if c_assert c then
    match fs_pure (c_lhs c) with
    | Some l => negb (is_num l) && match tla_row s l true with Some (A, k, B) => emit_trace A B s | None => false end
    | None => false
    end
  else
  match fs_pure (c_lhs c), fs_pure (c_rhs c) with
  | Some l, Some r =>
      match try_normalize_logic_constraint s l (c_cmp c) r with
      | None => plainA (c_lhs c) && plainA (c_rhs c) && emit_trace l r s
      | Some NTautology => let e := if is_num r then l else r in is_num e || blogic s e
      | Some NContradiction => (let e := if is_num r then l else r in is_num e || blogic s e) && emit_trace (Num (Fin 0%Q)) (Num (Fin 1%Q)) s
      | Some (NAssertion e must) =>
          negb (is_num e) && match tla_row s e must with Some (A, k, B) => emit_trace A B s | None => false end
      end
  | _, _ => false
  end.

Lemma lower_assert_handled n e must name s s1 : is_num e = false ->
  try_lower_affine e must name s = inr (true, s1) -> lower_assert (S n) e must name s = inr (tt, s1).
Proof.
  intros Hn H. destruct e; try discriminate; cbn [lower_assert]; unfold bind; rewrite H; reflexivity.
Qed.

(* an assertion `e must` that try_lower_affine turns into one row *)
Lemma assertion_ok e must name s u s' A k B : INV s -> is_num e = false -> tla_row s e must = Some (A, k, B) -> emit_trace A B s = true ->
  lower_logic_assertion e must name s = inr (u, s') ->
  INV s' /\ ext s s' /\
  (forall sigma, st_sat s' sigma -> st_sat s sigma /\ ev sigma e = Some (bnR must)) /\
  (forall rho, st_sat s rho -> ev rho e = Some (bnR must) -> exists sigma, (forall n, In n (akeys s) -> sigma n = rho n) /\ st_sat s' sigma).
Proof.
  intros I Nn ER SO H. unfold lower_logic_assertion in H.
  pose proof (tla_as_row e must name s) as TA. rewrite ER in TA. unfold bind in TA.
  destruct (emit_constraint A k B name s) as [er|[u1 s1]] eqn:EM.
  { exfalso. replace (exp_depth e + 2)%nat with (S (exp_depth e + 1)) in H by lia.
    destruct e; try discriminate; cbn [lower_assert] in H; unfold bind in H; rewrite TA in H; discriminate. }
  unfold ret in TA. replace (exp_depth e + 2)%nat with (S (exp_depth e + 1)) in H by lia.
  rewrite (lower_assert_handled _ e must name s s1 Nn TA) in H. inversion H; subst s1; clear H.
  destruct (tla_row_sem s e must A k B ER) as [Pa [Pb Sem]].
  assert (Tot : forall sigma, exists a b, evT sigma A = Some a /\ ev sigma A = Some a /\ evT sigma B = Some b /\ ev sigma B = Some b).
  { intros sigma. destruct (plainA_total sigma _ Pa) as [a [Ta Ea]]. destruct (plainA_total sigma _ Pb) as [b [Tb Eb]]. exists a, b. auto. }
  destruct (emit_ok A k B name s u1 s' I Tot SO EM) as [I' [E' [S' C']]].
  split; [exact I'|]. split; [exact E'|]. split.
  - intros sigma Ss. destruct (S' sigma Ss) as [Sb [a [b [Ea [Eb Hab]]]]]. split; [exact Sb|].
    destruct (Sem sigma (proj2 (proj2 Sb))) as [bv [a1 [b1 [_ [El [Ea1 [Eb1 Hc]]]]]]]. rewrite Ea in Ea1. rewrite Eb in Eb1. inversion Ea1; inversion Eb1; subst a1 b1.
    rewrite El. apply Hc in Hab. subst bv. reflexivity.
  - intros rho Ss Hv. destruct (Tot rho) as [a [b [_ [Ea [_ Eb]]]]]. apply (C' rho a b Ss Ea Eb).
    destruct (Sem rho (proj2 (proj2 Ss))) as [bv [a1 [b1 [_ [El [Ea1 [Eb1 Hc]]]]]]]. rewrite Ea in Ea1. rewrite Eb in Eb1. inversion Ea1; inversion Eb1; subst a1 b1.
    apply Hc. rewrite El in Hv. destruct bv, must; cbn in Hv; inversion Hv; try reflexivity; lra.
Qed.

Lemma sgood_total s sigma e : sgood s e -> dom_sat (s_dom s) sigma -> exists a, evT sigma e = Some a /\ ev sigma e = Some a.
Proof.
  intros [[P _]|[B _]] D; [exact (plainA_total sigma e P)|]. destruct (blogic_total s sigma D e B) as [b [T E]]. eauto.
Qed.

Lemma process_ok c s u s' : INV s -> qgood s c -> step_ok c s = true -> process_constraint c s = inr (u, s') ->
  INV s' /\ ext s s' /\
  (forall sigma, st_sat s' sigma -> st_sat s sigma /\ sat_constr sigma c) /\
  (forall rho, st_sat s rho -> sat_constr rho c -> exists sigma, (forall n, In n (akeys s) -> sigma n = rho n) /\ st_sat s' sigma).
Proof.
  intros I G SO H.
  assert (Kind : (c_assert c = true /\ agood s c) \/ (c_assert c = false /\ sgood s (c_lhs c) /\ sgood s (c_rhs c))).
  { destruct G as [[NA [Pl [Pr [Il Ir]]]]|[Ga|[NA [S1 S2]]]]; [right|left; split; [exact (proj1 Ga)|exact Ga]|right; auto].
    split; [exact NA|]. split; left; auto. }
  clear G. unfold step_ok in SO. destruct Kind as [[NA [_ [Ecmp [[q1 [Erhs Eq1]] [Bl Il]]]]]|[NA [S1 S2]]]; rewrite NA in SO.
  - (* an assertion *)
    destruct (fs_pure (c_lhs c)) as [l|] eqn:Fl; [|discriminate]. apply andb_true_iff in SO as [Nn SO]. apply negb_true_iff in Nn.
    destruct (tla_row s l true) as [[[A k] B]|] eqn:ER; [|discriminate].
    unfold process_constraint, bind in H. rewrite flatten_simplify_eq, Fl in H. rewrite flatten_simplify_eq in H.
    destruct (fs_pure (c_rhs c)) as [r|]; [|discriminate]. rewrite NA in H.
    destruct (assertion_ok l true (c_name c) s u s' A k B I Nn ER SO H) as [I' [E' [S' C']]].
    assert (Truth : forall sigma, dom_sat (s_dom s) sigma -> (ev sigma l = Some (bnR true) <-> sat_constr sigma c)).
    { intros sigma D. destruct (blogic_total s sigma D _ Bl) as [b' [Tc Ec]]. destruct (fs_pure_sound sigma _ _ _ Fl Tc) as [_ El'].
      rewrite El'. unfold sat_constr. rewrite Ecmp, Erhs, Ec. cbn [cmp_holds]. split.
      - intros Hb. exists 1, 1. unfold ev. cbn [evg bnR]. rewrite Eq1. inversion Hb as [Hb']. rewrite Hb'. auto.
      - intros [l0 [r0 [E1 [E2 E3]]]]. unfold ev in E2. cbn [evg] in E2. rewrite Eq1 in E2. injection E1 as <-. injection E2 as <-. rewrite E3. reflexivity. }
    split; [exact I'|]. split; [exact E'|]. split.
    + intros sigma Ss. destruct (S' sigma Ss) as [Sb Hl]. split; [exact Sb|]. apply (Truth sigma (proj2 (proj2 Sb))). exact Hl.
    + intros rho Ss Sc. apply (C' rho Ss). apply (Truth rho (proj2 (proj2 Ss))). exact Sc.
  - (* a comparison *)
    destruct (fs_pure (c_lhs c)) as [l|] eqn:Fl; [|discriminate]. destruct (fs_pure (c_rhs c)) as [r|] eqn:Fr; [|discriminate].
    unfold process_constraint, bind in H. rewrite flatten_simplify_eq, Fl in H. rewrite flatten_simplify_eq, Fr in H.
    rewrite NA in H. unfold get_st in H.
    assert (Same : forall sigma, dom_sat (s_dom s) sigma -> exists a b, ev sigma (c_lhs c) = Some a /\ ev sigma (c_rhs c) = Some b /\
              evT sigma l = Some a /\ ev sigma l = Some a /\ evT sigma r = Some b /\ ev sigma r = Some b).
    { intros sigma D. destruct (sgood_total s sigma _ S1 D) as [a [Ta Ea]]. destruct (sgood_total s sigma _ S2 D) as [b [Tb Eb]].
      destruct (fs_pure_sound sigma _ _ _ Fl Ta) as [Tl El]. destruct (fs_pure_sound sigma _ _ _ Fr Tb) as [Tr Er]. exists a, b. auto 8. }
    assert (Sat : forall sigma, dom_sat (s_dom s) sigma -> forall a b, ev sigma l = Some a -> ev sigma r = Some b -> (sat_constr sigma c <-> cmp_holds (c_cmp c) a b)).
    { intros sigma D a b Ea Eb. destruct (Same sigma D) as [a' [b' [Xa [Xb [_ [Ya [_ Yb]]]]]]]. rewrite Ea in Ya. rewrite Eb in Yb. inversion Ya; inversion Yb; subst a' b'.
      unfold sat_constr. split; [intros [l0 [r0 [E1 [E2 E3]]]]; congruence|intros Hc; exists a, b; auto]. }
    destruct (try_normalize_logic_constraint s l (c_cmp c) r) as [n|] eqn:TN.
    + (* normalised by the logic-constraint test *)
      destruct (try_normalize_inv s l (c_cmp c) r n TN) as [e [c' [k [En Side]]]].
      assert (Ee : e = if is_num r then l else r).
      { destruct Side as [[Er [Ee _]]|[_ [Ee [_ Nr]]]]; [rewrite Er; exact Ee|rewrite Nr; exact Ee]. }
      assert (Red : forall sigma, dom_sat (s_dom s) sigma -> exists ve qk, ev sigma e = Some ve /\ k = Fin qk /\ (sat_constr sigma c <-> cmp_holds c' ve (Q2R qk))).
      { intros sigma D. destruct (Same sigma D) as [a [b [_ [_ [_ [Ea [_ Eb]]]]]]]. pose proof (Sat sigma D a b Ea Eb) as Hs.
        destruct Side as [[Er [El Ec]]|[El [Er [Ec _]]]]; subst e c'.
        - rewrite Er in Eb. apply ev_Num_inv in Eb as [qk [Ek ->]]. exists a, qk. split; [exact Ea|]. split; [exact Ek|exact Hs].
        - rewrite El in Ea. apply ev_Num_inv in Ea as [qk [Ek ->]]. exists b, qk. split; [exact Eb|]. split; [exact Ek|].
          rewrite Hs. apply cmp_holds_rev. }
      (* what the verdict of the test means *)
      assert (Verdict : forall sigma, dom_sat (s_dom s) sigma ->
                match n with
                | NTautology => (is_num e || blogic s e = true) -> sat_constr sigma c
                | NContradiction => (is_num e || blogic s e = true) -> ~ sat_constr sigma c
                | NAssertion e' must => e' = e /\ is_num e = false /\ forall bv, ev sigma e = Some (bnR bv) -> (sat_constr sigma c <-> bv = must)
                end).
      { intros sigma D. destruct (Red sigma D) as [ve [qk [Eve [Ek Hs]]]]. subst k. rewrite En. unfold norm_go.
        assert (H0 : comparison_holds (Fin 0%Q) c' (Fin qk) = true <-> cmp_holds c' 0 (Q2R qk)) by (rewrite comparison_holds_spec, Q2R_0; reflexivity).
        assert (H1 : comparison_holds (Fin 1%Q) c' (Fin qk) = true <-> cmp_holds c' 1 (Q2R qk)) by (rewrite comparison_holds_spec, Q2R_1; reflexivity).
        assert (BinCase : is_num e = false -> (is_num e || blogic s e = true) -> exists bv, ve = bnR bv).
        { intros Nn Hb. rewrite Nn in Hb. cbn [orb] in Hb. destruct (blogic_total s sigma D e Hb) as [bv [_ E]]. rewrite Eve in E. inversion E. eauto. }
        destruct e as [v| | | | | | | | | | | |];
          try (destruct (comparison_holds (Fin 0%Q) c' (Fin qk)) eqn:C0, (comparison_holds (Fin 1%Q) c' (Fin qk)) eqn:C1;
               [intros Hb; destruct (BinCase eq_refl Hb) as [bv ->]; apply Hs; destruct bv; [apply H1|apply H0]; reflexivity
               |split; [reflexivity|]; split; [reflexivity|]; intros bv Ebv; rewrite Eve in Ebv; inversion Ebv; subst ve; rewrite Hs;
                 destruct bv; cbn [bnR]; split; intros Hx; try reflexivity; try discriminate; [apply H1 in Hx; congruence|apply H0; reflexivity]
               |split; [reflexivity|]; split; [reflexivity|]; intros bv Ebv; rewrite Eve in Ebv; inversion Ebv; subst ve; rewrite Hs;
                 destruct bv; cbn [bnR]; split; intros Hx; try reflexivity; try discriminate; [apply H1; reflexivity|apply H0 in Hx; congruence]
               |intros Hb; destruct (BinCase eq_refl Hb) as [bv ->]; intros Hx; apply Hs in Hx; destruct bv; [apply H1 in Hx|apply H0 in Hx]; congruence]).
        (* the formula is a constant *)
        apply ev_Num_inv in Eve as [qv [-> ->]].
        destruct (comparison_holds (Fin qv) c' (Fin qk)) eqn:Cv.
        - intros _. apply Hs. apply comparison_holds_spec. exact Cv.
        - intros _ Hx. apply Hs in Hx. apply comparison_holds_spec in Hx. congruence. }
      destruct n as [e' must| |].
      * (* an assertion about the formula *)
        apply andb_true_iff in SO as [Nn SO]. apply negb_true_iff in Nn.
        destruct (tla_row s e' must) as [[[A k0] B]|] eqn:ER; [|discriminate].
        destruct (assertion_ok e' must (c_name c) s u s' A k0 B I Nn ER SO H) as [I' [E' [S' C']]].
        destruct (tla_row_sem s e' must A k0 B ER) as [_ [_ Sem]].
        split; [exact I'|]. split; [exact E'|]. split.
        -- intros sigma Ss. destruct (S' sigma Ss) as [Sb Hl]. split; [exact Sb|].
           destruct (Verdict sigma (proj2 (proj2 Sb))) as [<- [_ Hv]]. apply (Hv must Hl). reflexivity.
        -- intros rho Ss Sc. apply (C' rho Ss). destruct (Verdict rho (proj2 (proj2 Ss))) as [<- [_ Hv]].
           destruct (Sem rho (proj2 (proj2 Ss))) as [bv [_ [_ [_ [El _]]]]]. rewrite El. apply (Hv bv El) in Sc. subst bv. reflexivity.
      * (* always true: nothing is emitted *)
        rewrite <- Ee in SO. inversion H; subst s'. split; [exact I|]. split; [apply ext_refl|]. split.
        -- intros sigma Ss. split; [exact Ss|]. exact (Verdict sigma (proj2 (proj2 Ss)) SO).
        -- intros rho Ss _. exists rho. split; [reflexivity|exact Ss].
      * (* never true: the row 0 = 1 *)
        apply andb_true_iff in SO as [SO ET]. rewrite <- Ee in SO.
        assert (Tot : forall sigma, exists a b, evT sigma (Num (Fin 0%Q)) = Some a /\ ev sigma (Num (Fin 0%Q)) = Some a /\ evT sigma (Num (Fin 1%Q)) = Some b /\ ev sigma (Num (Fin 1%Q)) = Some b).
        { intros sigma. exists (Q2R 0), (Q2R 1). repeat split; reflexivity. }
        destruct (emit_ok _ Eq _ (c_name c) s u s' I Tot ET H) as [I' [E' [S' C']]].
        split; [exact I'|]. split; [exact E'|]. split.
        -- intros sigma Ss. destruct (S' sigma Ss) as [_ [a [b [Ea [Eb Hab]]]]]. exfalso. unfold ev in Ea, Eb. cbn [evg] in Ea, Eb.
           inversion Ea; inversion Eb; subst a b. cbn [cmp_holds] in Hab. rewrite Q2R_0, Q2R_1 in Hab. lra.
        -- intros rho Ss Sc. exfalso. exact (Verdict rho (proj2 (proj2 Ss)) SO Sc).
    + (* the arithmetic path *)
      apply andb_true_iff in SO as [SO ET]. apply andb_true_iff in SO as [Pl Pr].
      assert (Tot : forall sigma, exists a b, evT sigma l = Some a /\ ev sigma l = Some a /\ evT sigma r = Some b /\ ev sigma r = Some b).
      { intros sigma. destruct (plainA_total sigma _ Pl) as [a [Ta _]]. destruct (plainA_total sigma _ Pr) as [b [Tb _]].
        destruct (fs_pure_sound sigma _ _ _ Fl Ta) as [Tl El]. destruct (fs_pure_sound sigma _ _ _ Fr Tb) as [Tr Er]. exists a, b. auto. }
      destruct (emit_ok l (c_cmp c) r (c_name c) s u s' I Tot ET H) as [I' [E' [S' C']]].
      split; [exact I'|]. split; [exact E'|]. split.
      * intros sigma Ss. destruct (S' sigma Ss) as [Sb [a [b [Ea [Eb Hab]]]]]. split; [exact Sb|]. apply (Sat sigma (proj2 (proj2 Sb)) a b Ea Eb). exact Hab.
      * intros rho Ss Sc. destruct (Tot rho) as [a [b [_ [Ea [_ Eb]]]]]. apply (C' rho a b Ss Ea Eb). apply (Sat rho (proj2 (proj2 Ss)) a b Ea Eb). exact Sc.
Qed.

(* ---------- the main loop *)
Definition popq (s : lst) (rest : list constr) : lst := mkS rest (s_rows s) (s_cnt s) (s_dom s) (s_an s).
Fixpoint trace_ok (fuel : nat) (s : lst) : bool :=
  match fuel with
  | O => false
  | S fuel =>
    match s_queue s with
    | [] => true
    | c :: rest =>
        step_ok c (popq s rest) &&
        match process_constraint c (popq s rest) with
        | inr (_, s') => trace_ok fuel s'
        | inl _ => false
        end
    end
  end.

Lemma main_loop_ok : forall fuel s u s2, INV s -> trace_ok fuel s = true -> main_loop fuel s = inr (u, s2) ->
  INV s2 /\ ext s s2 /\ s_queue s2 = [] /\
  (forall sigma, st_sat s2 sigma -> st_sat s sigma) /\
  (forall rho, st_sat s rho -> exists sigma, (forall n, In n (akeys s) -> sigma n = rho n) /\ st_sat s2 sigma).
Proof.
  induction fuel as [|fuel IH]; intros s u s2 I T H; [discriminate|].
  cbn [main_loop] in H. cbn [trace_ok] in T. destruct (s_queue s) as [|c rest] eqn:Q.
  - injection H as _ Es. subst s2. split; [exact I|]. split; [apply ext_refl|]. split; [exact Q|]. split; [auto|].
    intros rho S. exists rho. split; [reflexivity|exact S].
  - apply andb_true_iff in T as [SO T]. fold (popq s rest) in H.
    destruct (process_constraint c (popq s rest)) as [er|[u1 s1]] eqn:P; [discriminate|].
    assert (Ip : INV (popq s rest)).
    { destruct I as [A B C D E]. constructor; try assumption. cbn [popq s_queue]. rewrite Q in C. inversion C as [|? ? _ Cr]; subst.
      eapply Forall_impl; [|exact Cr]. intros c0. apply qgood_dom. reflexivity. }
    assert (Gc : qgood (popq s rest) c).
    { destruct I as [_ _ C _ _]. rewrite Q in C. inversion C as [|? ? Cc _]; subst. eapply qgood_dom; [|exact Cc]. reflexivity. }
    destruct (process_ok c (popq s rest) u1 s1 Ip Gc SO P) as [I1 [E1 [S1 C1]]].
    destruct (IH s1 u s2 I1 T H) as [I2 [E2 [Q2 [S2 C2]]]].
    split; [exact I2|]. split; [eapply ext_trans; [|eapply ext_trans; [exact E1|exact E2]]; apply ext_same_dom; reflexivity|].
    split; [exact Q2|]. split.
    + intros sigma S. destruct (S1 sigma (S2 sigma S)) as [[Qp [Rp Dp]] Sc]. split; [|split; assumption].
      intros c' Hc'. rewrite Q in Hc'. destruct Hc' as [<-|Hc']; [exact Sc|exact (Qp c' Hc')].
    + intros rho [Qr [Rr Dr]].
      assert (Sp : st_sat (popq s rest) rho).
      { split; [|split; assumption]. intros c' Hc'. apply Qr. rewrite Q. right. exact Hc'. }
      assert (Hc : In c (s_queue s)) by (rewrite Q; left; reflexivity).
      destruct (C1 rho Sp (Qr c Hc)) as [sg1 [A1 S1']].
      destruct (C2 sg1 S1') as [sg2 [A2 S2']]. exists sg2. split; [|exact S2'].
      intros n Hn. rewrite A2 by (apply (ext_akeys _ _ E1); exact Hn). apply A1. exact Hn.
Qed.

(* ---------- the initial state: the synchronised box is implied by the emitted (tightened) domains *)
Definition sync_step (a : astate) (p : string * vtype) : astate :=
  let degenerate := match al_get (a_vb a) (fst p) with Some b => b_degenerate b | None => false end in
  let reset := a_set_vb a (al_insert (a_vb a) (fst p) (b_of_vtype (snd p))) in
  if degenerate then reset else
  match snd p with
  | TBoolean | TIntegerRange _ _ => reset
  | _ => a
  end.
Lemma sync_is_fold a D : sync_with_domain a D = fold_left sync_step D a.
Proof. reflexivity. Qed.
Lemma sync_step_other a p n : n <> fst p -> al_get (a_vb (sync_step a p)) n = al_get (a_vb a) n.
Proof.
  intros Hn. unfold sync_step. cbv zeta.
  assert (R : al_get (a_vb (a_set_vb a (al_insert (a_vb a) (fst p) (b_of_vtype (snd p))))) n = al_get (a_vb a) n).
  { unfold a_set_vb. cbn [a_vb]. apply al_get_insert_other. exact Hn. }
  destruct (match al_get (a_vb a) (fst p) with Some b => b_degenerate b | None => false end); [exact R|].
  destruct (snd p); try exact R; reflexivity.
Qed.
Lemma sync_other : forall D a n, ~ In n (map fst D) -> al_get (a_vb (fold_left sync_step D a)) n = al_get (a_vb a) n.
Proof.
  induction D as [|p D IH]; intros a n Hn; cbn [fold_left]; [reflexivity|].
  rewrite IH by (intros K; apply Hn; right; exact K). apply sync_step_other. intros ->. apply Hn. left. reflexivity.
Qed.
Lemma sync_get : forall D a n t, NoDup (map fst D) -> In (n, t) D ->
  al_get (a_vb (fold_left sync_step D a)) n = al_get (a_vb (sync_step a (n, t))) n.
Proof.
  induction D as [|p D IH]; intros a n t ND Hin; [destruct Hin|]. cbn [map] in ND. inversion ND as [|? ? Np ND']; subst.
  cbn [fold_left]. destruct Hin as [->|Hin].
  - apply sync_other. exact Np.
  - assert (Hne : n <> fst p) by (intros ->; apply Np; apply in_map_iff; exists (fst p, t); split; [reflexivity|exact Hin]).
    rewrite (IH (sync_step a p) n t ND' Hin).
    unfold sync_step at 1 3. cbv zeta. cbn [fst snd]. rewrite (sync_step_other a p n Hne).
    assert (R : forall a1 a2, al_get (a_vb a1) n = al_get (a_vb a2) n ->
                al_get (a_vb (a_set_vb a1 (al_insert (a_vb a1) n (b_of_vtype t)))) n = al_get (a_vb (a_set_vb a2 (al_insert (a_vb a2) n (b_of_vtype t)))) n).
    { intros a1 a2 _. unfold a_set_vb. cbn [a_vb]. rewrite !al_get_insert_same. reflexivity. }
    pose proof (sync_step_other a p n Hne) as E.
    destruct (match al_get (a_vb a) n with Some b => b_degenerate b | None => false end); [apply R; exact E|].
    destruct t; try (apply R; exact E); exact E.
Qed.

Lemma tightened_in_box an n t0 v : nn (a_get an n) ->
  let t := tighten_type an n t0 in
  in_dom t v -> in_b (match al_get (a_vb (sync_step an (n, t))) n with Some b => b | None => b_unbounded end) v.
Proof.
  intros NN t Hv. unfold sync_step. cbv zeta. cbn [fst snd].
  assert (R : in_b (match al_get (a_vb (a_set_vb an (al_insert (a_vb an) n (b_of_vtype t)))) n with Some b => b | None => b_unbounded end) v).
  { unfold a_set_vb. cbn [a_vb]. rewrite al_get_insert_same. apply in_b_of_vtype. exact Hv. }
  destruct (al_get (a_vb an) n) as [b|] eqn:G.
  - destruct (b_degenerate b) eqn:Dg; [exact R|].
    assert (Et : t = tighten_type an n t0) by reflexivity. unfold tighten_type in Et. rewrite G, Dg in Et.
    destruct t as [|l u|l u|l u]; try exact R.
    + (* NonNegativeReal: the box is looser than the type *)
      rewrite G. destruct t0 as [|l0 u0|l0 u0|l0 u0]; try discriminate.
      * destruct (xq_gtb _ _); discriminate.
      * inversion Et; subst l u. destruct Hv as [H0 [H1 H2]]. split; [|exact H2].
        unfold a_get in NN. rewrite G in NN. destruct NN as [N1 _]. exact (xq_max_lo_inv _ _ _ N1 H1).
    + rewrite G. destruct t0 as [|l0 u0|l0 u0|l0 u0]; try discriminate.
      * destruct (xq_gtb _ _); discriminate.
      * inversion Et; subst l u. exact Hv.
  - destruct t; try exact R; rewrite G; apply in_b_unbounded.
Qed.

(* ---------- reading the linear model off the final state *)
Definition lm_of_state (s2 : lst) (lobj : lctx) (dir : direction) : linmodel :=
  let rows := dedup_names (s_rows s2) in
  let vars := sort_strings (map fst (filter (fun p => dv_used (snd p)) (s_dom s2))) in
  let domain := map (fun p => (fst p, dv_type (snd p))) (filter (fun p => set_mem vars (fst p)) (s_dom s2)) in
  mkLM vars domain
    (map (fun r => mkLRow (r_name r) (extract_coeffs (r_lhs r) vars) (r_cmp r) (r_rhs r)) rows)
    (extract_coeffs (l_vars lobj) vars) (l_rhs lobj) dir.

(* what the linear model constrains: the used variables only *)
Definition dom_satU (D : list (string * dvar)) (sigma : string -> R) : Prop :=
  forall n d, In (n, d) D -> dv_used d = true -> in_dom (dv_type d) (sigma n).
Definition st_satU (s : lst) (sigma : string -> R) : Prop :=
  (forall c, In c (s_queue s) -> sat_constr sigma c) /\ (forall r, In r (s_rows s) -> mrow_holds sigma r) /\ dom_satU (s_dom s) sigma.
Lemma st_sat_U s sigma : st_sat s sigma -> st_satU s sigma.
Proof. intros [Q [Rw D]]. split; [exact Q|]. split; [exact Rw|]. intros n d Hin _. exact (D n d Hin). Qed.

(* a declared-but-unused variable is dropped from the linear model: any value of its (non-empty) range serves *)
Lemma fix_unused : forall D sigma, NoDup (map fst D) ->
  (forall n d, In (n, d) D -> dv_used d = false -> exists x, in_dom (dv_type d) x) -> dom_satU D sigma ->
  exists sigma', (forall n, ~ In n (map fst (filter (fun p : string * dvar => negb (dv_used (snd p))) D)) -> sigma' n = sigma n) /\ dom_sat D sigma'.
Proof.
  induction D as [|[k d] D IH]; intros sigma ND Hinh HU.
  - exists sigma. split; [reflexivity|intros n d []].
  - cbn [map fst] in ND. inversion ND as [|? ? Nk ND']; subst.
    destruct (IH sigma ND' (fun n d0 H => Hinh n d0 (or_intror H)) (fun n d0 H => HU n d0 (or_intror H))) as [sg1 [A1 D1]].
    cbn [filter snd]. destruct (dv_used d) eqn:Ud; cbn [negb].
    + exists sg1. split; [exact A1|]. intros n d0 [E|Hin]; [|exact (D1 n d0 Hin)]. inversion E; subst n d0.
      rewrite A1; [apply (HU k d (or_introl eq_refl) Ud)|]. intros Hk. apply Nk. apply in_map_iff in Hk as [p [<- Hp]]. apply filter_In in Hp as [Hp _]. apply in_map. exact Hp.
    + destruct (Hinh k d (or_introl eq_refl) Ud) as [x Hx]. exists (updR sg1 k x). split.
      * intros n Hn. cbn [map fst] in Hn. rewrite updR_other by (intros ->; apply Hn; left; reflexivity). apply A1. intros H. apply Hn. right. exact H.
      * intros n d0 [E|Hin]; [inversion E; subst n d0; rewrite updR_same; exact Hx|].
        rewrite updR_other; [exact (D1 n d0 Hin)|]. intros ->. apply Nk. apply in_map_iff. exists (k, d0). split; [reflexivity|exact Hin].
Qed.
Lemma used_not_unused s n : NoDup (akeys s) -> In n (ukeys s) ->
  ~ In n (map fst (filter (fun p : string * dvar => negb (dv_used (snd p))) (s_dom s))).
Proof.
  intros ND Hu Hn. unfold ukeys in Hu. apply in_map_iff in Hu as [[n1 d1] [E1 H1]]. apply filter_In in H1 as [H1 U1].
  apply in_map_iff in Hn as [[n2 d2] [E2 H2]]. apply filter_In in H2 as [H2 U2]. cbn [fst snd] in *. subst n1 n2.
  rewrite (NoDup_keys_unique _ _ _ _ ND H1 H2) in U1. rewrite U1 in U2. discriminate.
Qed.
Lemma st_satU_fix s sigma : INV s -> st_satU s sigma -> exists sigma', (forall n, In n (ukeys s) -> sigma' n = sigma n) /\ st_sat s sigma'.
Proof.
  intros I [Q [Rw DU]]. destruct (fix_unused (s_dom s) sigma (inv_nd s I) (inv_inh s I) DU) as [sg [A D]].
  assert (Au : forall n, In n (ukeys s) -> sigma n = sg n) by (intros n Hn; symmetry; apply A; apply used_not_unused; [exact (inv_nd s I)|exact Hn]).
  exists sg. split; [intros n Hn; symmetry; apply Au; exact Hn|]. split; [|split; [|exact D]].
  - intros c Hc. eapply sat_qgood_agree; [exact (proj1 (Forall_forall _ _) (inv_q s I) c Hc)|exact Au|exact (Q c Hc)].
  - intros r Hr. eapply mrow_agree; [exact (proj1 (Forall_forall _ _) (inv_r s I) r Hr)|exact Au|exact (Rw r Hr)].
Qed.

Lemma lm_of_state_sat s2 lobj dir sigma : INV s2 -> s_queue s2 = [] -> ctx_ok (ukeys s2) lobj ->
  (sat_linear (lm_of_state s2 lobj dir) sigma <-> st_satU s2 sigma) /\
  lin_objective (lm_of_state s2 lobj dir) sigma = ctx_val sigma lobj.
Proof.
  intros [ND _ _ Hr _] Q [NDo INo]. unfold lm_of_state. cbv zeta. fold (ukeys s2). set (vars := sort_strings (ukeys s2)).
  assert (Pv : Permutation (ukeys s2) vars) by apply sort_strings_perm.
  assert (NDu : NoDup (ukeys s2)) by (unfold ukeys; apply NoDup_map_filter; exact ND).
  assert (NDv : NoDup vars) by (eapply Permutation_NoDup; [exact Pv|exact NDu]).
  assert (Kv : incl (ukeys s2) vars) by (intros k Hk; eapply Permutation_in; [exact Pv|exact Hk]).
  assert (vK : incl vars (ukeys s2)) by (intros k Hk; eapply Permutation_in; [apply Permutation_sym; exact Pv|exact Hk]).
  assert (Hdomain : forall n d, In (n, d) (s_dom s2) -> (set_mem vars n = true <-> dv_used d = true)).
  { intros n d Hin. rewrite set_mem_In. split.
    - intros Hv. apply vK in Hv. unfold ukeys in Hv. apply in_map_iff in Hv as [[n1 d1] [E1 H1]]. apply filter_In in H1 as [H1 U1]. cbn [fst snd] in *. subst n1.
      rewrite <- (NoDup_keys_unique _ _ _ _ ND H1 Hin). exact U1.
    - intros U. apply Kv. unfold ukeys. apply in_map_iff. exists (n, d). split; [reflexivity|]. apply filter_In. split; [exact Hin|exact U]. }
  assert (Hsem : forall mr, In mr (s_rows s2) ->
            (cmp_holds (r_cmp mr) (dot (extract_coeffs (r_lhs mr) vars) vars sigma) (xval (r_rhs mr)) <-> mrow_holds sigma mr)).
  { intros mr Hmr. destruct (proj1 (Forall_forall _ _) Hr mr Hmr) as [NDk [INk _]].
    rewrite (dot_extract sigma _ vars NDk (fun k Hk => Kv k (INk k Hk)) NDv), xval_cval. reflexivity. }
  split.
  - unfold sat_linear, st_satU. cbn [lm_rows lm_vars lm_domain]. rewrite Q. split.
    + intros [Hrows Hdom]. split; [intros c []|]. split.
      * intros mr Hmr. apply (Hsem mr Hmr).
        assert (Hc : In (core mr) (map core (dedup_names (s_rows s2)))) by (rewrite dedup_names_cores; apply in_map; exact Hmr).
        apply in_map_iff in Hc as [dr [Ec Hdr]]. unfold core in Ec. injection Ec as E1 E2 E3.
        pose proof (Hrows _ (in_map _ _ _ Hdr)) as Hh. unfold row_holds in Hh. cbn [lr_cmp lr_coeffs lr_rhs] in Hh.
        rewrite E1, E2, E3 in Hh. exact Hh.
      * intros n d Hin U. apply (Hdom n (dv_type d)). apply in_map_iff. exists (n, d). split; [reflexivity|].
        apply filter_In. split; [exact Hin|]. cbn [fst]. apply (Hdomain n d Hin). exact U.
    + intros [_ [Hrows Hdom]]. split.
      * intros r Hr0. apply in_map_iff in Hr0 as [dr [<- Hdr]]. unfold row_holds. cbn [lr_cmp lr_coeffs lr_rhs].
        assert (Hc : In (core dr) (map core (s_rows s2))) by (rewrite <- dedup_names_cores; apply in_map; exact Hdr).
        apply in_map_iff in Hc as [mr [Ec Hmr]]. unfold core in Ec. injection Ec as E1 E2 E3.
        rewrite <- E1, <- E2, <- E3. apply (Hsem mr Hmr). exact (Hrows mr Hmr).
      * intros n t Hin. apply in_map_iff in Hin as [[n0 d] [E Hin]]. cbn [fst snd] in E. inversion E; subst n0 t.
        apply filter_In in Hin as [Hin Hm]. cbn [fst] in Hm. apply (Hdom n d Hin). apply (Hdomain n d Hin). exact Hm.
  - unfold lin_objective. cbn [lm_objective lm_vars lm_offset].
    rewrite (dot_extract sigma _ vars NDo (fun k Hk => Kv k (INo k Hk)) NDv), xval_cval. reflexivity.
Qed.

(* ---------- the whole of compile *)
Definition init_state (m : model) : lst :=
  mkS (m_constraints m) [] [] (cdom m)
      (sync_with_domain (analyze (decl_types m) (m_constraints m)) (map (fun p => (fst p, dv_type (snd p))) (cdom m))).
Definition req_of_dir (d : direction) : req :=
  match d with DMin => PreferLower | DMax => PreferHigher | DSatisfy => Exact end.
Definition loop_fuel (m : model) : nat := 16 * total_size m + 64.

Lemma compile_unfold m :
  compile m =
  match fs_pure (m_obj m) with
  | None => inl EFuel
  | Some o =>
    match linearize_exp o (req_of_dir (m_dir m)) (init_state m) with
    | inl e => inl e
    | inr (lobj, s1) =>
      match main_loop (loop_fuel m) s1 with
      | inl e => inl e
      | inr (_, s2) => inr (lm_of_state s2 lobj (m_dir m))
      end
    end
  end.
Proof.
  unfold compile, init_state, lm_of_state, cdom, decl_types, loop_fuel, req_of_dir. cbv zeta. unfold bind.
  rewrite flatten_simplify_eq. destruct (fs_pure (m_obj m)) as [o|]; reflexivity.
Qed.

(* the trace condition: the objective and every constraint taken from the queue stay on the arithmetic path *)
Definition compile_trace (m : model) : bool :=
  match fs_pure (m_obj m) with
  | None => false
  | Some o =>
      okexp o && forallb (set_mem (ukeys (init_state m))) (xvars o) &&
      match linearize_exp o (req_of_dir (m_dir m)) (init_state m) with
      | inr (_, s1) => trace_ok (loop_fuel m) s1
      | inl _ => false
      end
  end.

Definition unames (m : model) : list string := map fst (filter (fun p : string * dvar => dv_used (snd p)) (m_domain m)).
Lemma unames_sub m : incl (unames m) (map fst (m_domain m)).
Proof. intros k Hk. unfold unames in Hk. apply in_map_iff in Hk as [p [<- Hp]]. apply filter_In in Hp as [Hp _]. apply in_map. exact Hp. Qed.

Record abs_model (m : model) : Prop := mkBM {
  bm_wf : wf_domain m;
  bm_decl : forall n d, In (n, d) (m_domain m) -> decl_ok (dv_type d);
  (* a declared variable that occurs nowhere is dropped by the compiler; the source model is then feasible only if its range is not empty *)
  bm_inh : forall n d, In (n, d) (m_domain m) -> dv_used d = false ->
             exists x, in_dom (tighten_type (analyze (decl_types m) (m_constraints m)) n (dv_type d)) x;
  bm_cs : Forall (qgood (init_state m)) (m_constraints m);
  bm_obj : plainA (m_obj m) = true;
  bm_obj_vars : incl (xvars (m_obj m)) (unames m);
  bm_trace : compile_trace m = true }.

Lemma filter_map_comm {A B} (f : A -> B) (p : B -> bool) l : filter p (map f l) = map f (filter (fun x => p (f x)) l).
Proof. induction l as [|x l IH]; [reflexivity|]. cbn [map filter]. destruct (p (f x)); cbn [map]; rewrite IH; reflexivity. Qed.
Lemma keys_init m : ukeys (init_state m) = unames m.
Proof. unfold ukeys, unames, init_state, cdom. cbn [s_dom]. rewrite filter_map_comm, map_map. reflexivity. Qed.
Lemma akeys_init m : akeys (init_state m) = map fst (m_domain m).
Proof. unfold LinFrame.keys, init_state, cdom. cbn [s_dom]. rewrite map_map. reflexivity. Qed.

Lemma INV_init m : abs_model m -> INV (init_state m).
Proof.
  intros [[ND Hwf] Hdecl Hinh Hcs _ _ _]. constructor.
  - rewrite akeys_init. exact ND.
  - intros n d Hin Hu. unfold init_state, cdom in Hin. cbn [s_dom] in Hin. apply in_map_iff in Hin as [[n0 d0] [E Hin]].
    cbn [fst snd] in E. injection E as <- <-. cbn [dv_used dv_type] in *. exact (Hinh _ _ Hin Hu).
  - exact Hcs.
  - constructor.
  - intros sigma HD n Hn. rewrite keys_init in Hn. apply unames_sub in Hn. apply in_map_iff in Hn as [[n0 d0] [E Hin]]. cbn [fst] in E. subst n0.
    set (an := analyze (decl_types m) (m_constraints m)).
    set (D := map (fun p : string * dvar => (fst p, dv_type (snd p))) (cdom m)).
    set (t := tighten_type an n (dv_type d0)).
    assert (HinD : In (n, t) D).
    { unfold D, cdom. rewrite map_map. apply in_map_iff. exists (n, d0). split; [reflexivity|exact Hin]. }
    assert (NDD : NoDup (map fst D)).
    { unfold D, cdom. rewrite !map_map. cbn [fst]. exact ND. }
    assert (NN : nn (a_get an n)).
    { assert (NS : nnst (from_domain (decl_types m))).
      { apply from_domain_nn. intros k t' Hk. unfold decl_types in Hk. apply in_map_iff in Hk as [[k0 dk] [E Hk]]. inversion E; subst.
        exact (proj1 (Hdecl _ _ Hk)). }
      exact (proj1 (analyze_shrinks (decl_types m) (m_constraints m) NS) n). }
    unfold init_state. cbn [s_an]. fold an D. unfold a_get. rewrite sync_is_fold, (sync_get D an n t NDD HinD).
    apply (tightened_in_box an n (dv_type d0) (sigma n) NN).
    apply (HD n (mkDV t (dv_used d0))). unfold init_state, cdom. cbn [s_dom]. apply in_map_iff. exists (n, d0). split; [reflexivity|exact Hin].
Qed.

Lemma init_sat m rho : abs_model m -> (sat_model m rho <-> st_sat (init_state m) rho).
Proof.
  intros [[ND Hwf] Hdecl _ Hcs _ _ _]. unfold sat_model, feasible, st_sat, init_state. cbn [s_queue s_rows s_dom]. split.
  - intros [Hd Hc]. split; [exact Hc|]. split; [intros r []|].
    intros n d Hin. unfold cdom in Hin. apply in_map_iff in Hin as [[n0 d0] [E Hin]]. cbn [fst snd] in E. injection E as <- <-. cbn [dv_type].
    apply tighten_type_sound.
    + reflexivity.
    + exact (Hwf _ _ Hin).
    + apply (Hd n0 (dv_type d0)). unfold decl_types. apply in_map_iff. exists (n0, d0). split; [reflexivity|exact Hin].
    + apply analyze_sound. split; assumption.
  - intros [Hc [_ Hd]]. split; [|exact Hc].
    intros n t Hin. unfold decl_types in Hin. apply in_map_iff in Hin as [[n0 d0] [E Hin]]. cbn [fst snd] in E. inversion E; subst n0 t.
    apply (published_inside_declared (decl_types m) (m_constraints m) n (dv_type d0) (rho n)).
    + unfold decl_types. rewrite map_map. exact ND.
    + intros k t' Hk. unfold decl_types in Hk. apply in_map_iff in Hk as [[k0 dk] [E' Hk]]. inversion E'; subst. exact (Hdecl _ _ Hk).
    + unfold decl_types. apply in_map_iff. exists (n, d0). split; [reflexivity|exact Hin].
    + apply (Hd n (mkDV (tighten_type (analyze (decl_types m) (m_constraints m)) n (dv_type d0)) (dv_used d0))).
      unfold cdom. apply in_map_iff. exists (n, d0). split; [reflexivity|exact Hin].
Qed.

Theorem compile_abs_equiv m L : abs_model m -> compile m = inr L ->
  (forall sigma, sat_linear L sigma ->
     exists sigma', agree_on (unames m) sigma sigma' /\ sat_model m sigma' /\
       forall v, ev sigma' (m_obj m) = Some v -> rel (req_of_dir (m_dir m)) (lin_objective L sigma) v) /\
  (forall rho v, sat_model m rho -> ev rho (m_obj m) = Some v ->
     exists sigma, agree_on (map fst (m_domain m)) rho sigma /\ sat_linear L sigma /\ lin_objective L sigma = v).
Proof.
  intros BM HC. pose proof (INV_init m BM) as I0. pose proof (fun rho => init_sat m rho BM) as Hinit.
  destruct BM as [_ _ _ _ Pobj _ Tr]. rewrite compile_unfold in HC. unfold compile_trace in Tr.
  destruct (fs_pure (m_obj m)) as [o|] eqn:Fo; [|discriminate].
  apply andb_true_iff in Tr as [Tr Tl]. apply andb_true_iff in Tr as [Oo Vo]. apply forallb_mem_incl in Vo.
  destruct (linearize_exp o (req_of_dir (m_dir m)) (init_state m)) as [er|[lobj s1]] eqn:EL; [discriminate|].
  destruct (main_loop (loop_fuel m) s1) as [er|[u s2]] eqn:EM; [discriminate|]. injection HC as <-.
  assert (Vobj : forall sigma v, ev sigma (m_obj m) = Some v -> ev sigma o = Some v).
  { intros sigma v Hv. destruct (plainA_total sigma _ Pobj) as [v' [Tv Ev]]. rewrite Hv in Ev. inversion Ev; subst v'.
    exact (proj2 (fs_pure_sound sigma _ _ _ Fo Tv)). }
  assert (To : tot o).
  { intros sigma. destruct (plainA_total sigma _ Pobj) as [v [_ Ev]]. exists v. apply Vobj. exact Ev. }
  unfold linearize_exp in EL.
  destruct (lin_ok _ _ _ _ _ _ Oo I0 Vo To EL) as [I1 [G1 [K1 [F1 [S1 C1]]]]].
  destruct (main_loop_ok _ _ _ _ I1 Tl EM) as [I2 [E2 [Q2 [S2 C2]]]].
  assert (K2 : ctx_ok (ukeys s2) lobj) by (eapply ctx_ok_mono; [apply ext_keys; exact E2|exact K1]).
  split.
  - intros sigma SL. destruct (lm_of_state_sat s2 lobj (m_dir m) sigma I2 Q2 K2) as [Hs Ho].
    apply Hs in SL. destruct (st_satU_fix s2 sigma I2 SL) as [sg [Ag Ss2]].
    pose proof (S2 sg Ss2) as Ss1. exists sg. split; [|split].
    + intros n Hn. symmetry. apply Ag. apply (ext_keys _ _ E2). apply (grows_keys _ _ G1). rewrite keys_init. exact Hn.
    + apply Hinit. exact (st_sat_back _ _ _ G1 Ss1).
    + intros v Hv. rewrite Ho. rewrite <- (ctx_val_agree sg sigma lobj) by (intros n Hn; apply Ag; destruct K2 as [_ K2]; apply K2; exact Hn).
      apply S1; [exact Ss1|apply Vobj; exact Hv].
  - intros rho v SM Hv. apply Hinit in SM. destruct (C1 rho v SM (Vobj rho v Hv)) as [sg1 [A1 [Ss1 V1]]].
    destruct (C2 sg1 Ss1) as [sg2 [A2 Ss2]]. exists sg2.
    destruct (lm_of_state_sat s2 lobj (m_dir m) sg2 I2 Q2 K2) as [Hs Ho].
    split; [|split; [apply Hs; apply st_sat_U; exact Ss2|]].
    + intros n Hn. rewrite <- akeys_init in Hn. rewrite A2 by (apply (grows_akeys _ _ G1); exact Hn). symmetry. apply A1. exact Hn.
    + rewrite Ho, <- V1. apply ctx_val_agree. intros n Hn. apply A2. apply ukeys_sub. destruct K1 as [_ K1]. apply K1. exact Hn.
Qed.

(* the projection form of Props/C01.v: over the declared variables that are used *)
Corollary compile_abs_projection m L : abs_model m -> compile m = inr L ->
  forall rho : string -> R,
    (exists rho', agree_on (unames m) rho rho' /\ sat_model m rho') <->
    (exists sigma, agree_on (unames m) rho sigma /\ sat_linear L sigma).
Proof.
  intros BM HC rho. destruct (compile_abs_equiv m L BM HC) as [A B]. split.
  - intros [rho' [Ag S]]. destruct (plainA_total rho' _ (bm_obj m BM)) as [v [_ Ev]].
    destruct (B rho' v S Ev) as [sigma [Ag2 [SL _]]]. exists sigma. split; [|exact SL].
    intros n Hn. rewrite (Ag n Hn). apply Ag2. apply unames_sub. exact Hn.
  - intros [sigma [Ag SL]]. destruct (A sigma SL) as [sg [Ag2 [SM _]]]. exists sg. split; [|exact SM].
    intros n Hn. rewrite (Ag n Hn). apply Ag2. exact Hn.
Qed.

(* optima: a point that is optimal for the compiled model is, on the used variables, a feasible and optimal point of the source with the same value *)
Definition better (d : direction) (a b : R) : Prop :=
  match d with DMin => a <= b | DMax => a >= b | DSatisfy => True end.
Corollary compile_abs_optimum m L sigma : abs_model m -> compile m = inr L ->
  sat_linear L sigma -> (forall tau, sat_linear L tau -> better (m_dir m) (lin_objective L sigma) (lin_objective L tau)) ->
  m_dir m <> DSatisfy ->
  exists sigma', agree_on (unames m) sigma sigma' /\
    sat_model m sigma' /\ ev sigma' (m_obj m) = Some (lin_objective L sigma) /\
    forall rho v, sat_model m rho -> ev rho (m_obj m) = Some v -> better (m_dir m) (lin_objective L sigma) v.
Proof.
  intros BM HC SL Opt ND. destruct (compile_abs_equiv m L BM HC) as [A B].
  destruct (A sigma SL) as [sg [Ag [SM Hrel]]]. destruct (plainA_total sg _ (bm_obj m BM)) as [v [_ Ev]].
  pose proof (Hrel v Ev) as R1. destruct (B sg v SM Ev) as [tau [_ [SLt Vt]]]. pose proof (Opt tau SLt) as R2. rewrite Vt in R2.
  assert (E : lin_objective L sigma = v) by (destruct (m_dir m); cbn in R1, R2; try lra; contradiction).
  exists sg. split; [exact Ag|]. split; [exact SM|]. split; [rewrite E; exact Ev|].
  intros rho w SMr Ew. destruct (B rho w SMr Ew) as [tau' [_ [SLt' Vt']]]. rewrite <- Vt'. apply Opt. exact SLt'.
Qed.

(* the objective in the form of Props/C02.v: no extension of a source point does better than its source value, and one
   extension attains it *)
Corollary compile_abs_objective m L : abs_model m -> compile m = inr L ->
  forall rho v, sat_model m rho -> ev rho (m_obj m) = Some v ->
    (forall sigma, agree_on (map fst (m_domain m)) rho sigma -> sat_linear L sigma -> better (m_dir m) v (lin_objective L sigma)) /\
    (exists sigma, agree_on (map fst (m_domain m)) rho sigma /\ sat_linear L sigma /\ lin_objective L sigma = v).
Proof.
  intros BM HC rho v SM Ev. destruct (compile_abs_equiv m L BM HC) as [A B]. split; [|exact (B rho v SM Ev)].
  intros sigma Ag SL. destruct (A sigma SL) as [sg [Ag2 [_ Hrel]]].
  assert (Es : ev sg (m_obj m) = Some v).
  { rewrite <- Ev. symmetry. apply ev_agree; [apply plainA_okexp; exact (bm_obj m BM)|]. intros n Hn. apply (bm_obj_vars m BM) in Hn.
    rewrite (Ag n (unames_sub m n Hn)). apply Ag2. exact Hn. }
  pose proof (Hrel v Es) as R1. destruct (m_dir m); cbn in *; try lra; exact I.
Qed.
Corollary compile_abs_projection_used m L : abs_model m -> compile m = inr L ->
  forall rho : string -> R,
    (exists rho', agree_on (map fst (filter (fun p : string * dvar => dv_used (snd p)) (m_domain m))) rho rho' /\ sat_model m rho') <->
    (exists sigma, agree_on (map fst (filter (fun p : string * dvar => dv_used (snd p)) (m_domain m))) rho sigma /\ sat_linear L sigma).
Proof. exact (compile_abs_projection m L). Qed.

(* ---------- a boolean decision of the premises (evaluated on every tied model) *)
Definition cgoodb (K : list string) (c : constr) : bool :=
  negb (c_assert c) && plainA (c_lhs c) && plainA (c_rhs c) &&
  forallb (set_mem K) (xvars (c_lhs c)) && forallb (set_mem K) (xvars (c_rhs c)).
Lemma cgoodb_sound K c : cgoodb K c = true -> cgood K c.
Proof.
  unfold cgoodb. intros H. apply andb_true_iff in H as [H H5]. apply andb_true_iff in H as [H H4].
  apply andb_true_iff in H as [H H3]. apply andb_true_iff in H as [H1 H2]. apply negb_true_iff in H1.
  repeat split; try assumption; apply forallb_mem_incl; assumption.
Qed.
Definition agoodb (s : lst) (c : constr) : bool :=
  c_assert c && cmp_eqb (c_cmp c) Eq && (match c_rhs c with Num (Fin q) => q_eqb q 1 | _ => false end) &&
  blogic s (c_lhs c) && forallb (set_mem (ukeys s)) (lvars (c_lhs c)).
Definition sgoodb (s : lst) (e : exp) : bool :=
  (plainA e && forallb (set_mem (ukeys s)) (xvars e)) || (blogic s e && forallb (set_mem (ukeys s)) (lvars e)).
Definition ngoodb (s : lst) (c : constr) : bool := negb (c_assert c) && sgoodb s (c_lhs c) && sgoodb s (c_rhs c).
Definition qgoodb (s : lst) (c : constr) : bool := cgoodb (ukeys s) c || agoodb s c || ngoodb s c.
Lemma sgoodb_sound s e : sgoodb s e = true -> sgood s e.
Proof.
  unfold sgoodb. intros H. apply orb_true_iff in H as [H|H]; apply andb_true_iff in H as [H1 H2]; [left|right]; (split; [exact H1|apply forallb_mem_incl; exact H2]).
Qed.
Lemma qgoodb_sound s c : qgoodb s c = true -> qgood s c.
Proof.
  unfold qgoodb. intros H. apply orb_true_iff in H as [H|H]; [apply orb_true_iff in H as [H|H]; [left; apply cgoodb_sound; exact H|right; left]|right; right].
  - unfold agoodb in H. apply andb_true_iff in H as [H H5]. apply andb_true_iff in H as [H H4]. apply andb_true_iff in H as [H H3].
    apply andb_true_iff in H as [H1 H2]. split; [exact H1|]. split; [destruct (c_cmp c); try discriminate; reflexivity|].
    split; [|split; [exact H4|apply forallb_mem_incl; exact H5]].
    destruct (c_rhs c) as [x| | | | | | | | | | | |]; try discriminate. destruct x as [q| | |]; try discriminate. exists q. split; [reflexivity|].
    apply q_eqb_true in H3. rewrite H3. apply Q2R_1.
  - unfold ngoodb in H. apply andb_true_iff in H as [H H3]. apply andb_true_iff in H as [H1 H2]. apply negb_true_iff in H1.
    split; [exact H1|]. split; apply sgoodb_sound; assumption.
Qed.
(* a rational member of a range *)
Definition xq_le_Qb (a : xq) (q : Q) : bool := match a with Fin p => q_leb p q | NInf => true | _ => false end.
Definition Q_le_xqb (q : Q) (b : xq) : bool := match b with Fin p => q_leb q p | PInf => true | _ => false end.
Definition in_domQb (t : vtype) (q : Q) : bool :=
  match t with
  | TBoolean => q_eqb q 0 || q_eqb q 1
  | TIntegerRange l u => q_eqb q (inject_Z (Qfloor q)) && Z.leb l (Qfloor q) && Z.leb (Qfloor q) u
  | TNonNegativeReal l u => q_leb 0 q && xq_le_Qb l q && Q_le_xqb q u
  | TReal l u => xq_le_Qb l q && Q_le_xqb q u
  end.
Lemma xq_le_Qb_sound a q : xq_le_Qb a q = true -> xq_le_R a (Q2R q).
Proof. destruct a; cbn; intros H; try discriminate; [apply q_leb_true; exact H|exact I]. Qed.
Lemma Q_le_xqb_sound q b : Q_le_xqb q b = true -> R_le_xq (Q2R q) b.
Proof. destruct b; cbn; intros H; try discriminate; [apply q_leb_true; exact H|exact I]. Qed.
Lemma in_domQb_sound t q : in_domQb t q = true -> in_dom t (Q2R q).
Proof.
  destruct t as [|l u|l u|l u]; cbn [in_domQb in_dom]; intros H.
  - apply orb_true_iff in H as [H|H]; apply q_eqb_true in H; [left; rewrite H; apply Q2R_0|right; rewrite H; apply Q2R_1].
  - apply andb_true_iff in H as [H H3]. apply andb_true_iff in H as [H1 H2]. apply q_eqb_true in H1. apply Z.leb_le in H2, H3.
    exists (Qfloor q). split; [rewrite H1; apply Q2R_inject_Z|lia].
  - apply andb_true_iff in H as [H H3]. apply andb_true_iff in H as [H1 H2]. apply q_leb_true in H1. rewrite Q2R_0 in H1.
    split; [exact H1|]. split; [apply xq_le_Qb_sound; exact H2|apply Q_le_xqb_sound; exact H3].
  - apply andb_true_iff in H as [H1 H2]. split; [apply xq_le_Qb_sound; exact H1|apply Q_le_xqb_sound; exact H2].
Qed.
Definition pick (t : vtype) : Q :=
  match t with
  | TBoolean => 0%Q
  | TIntegerRange l _ => inject_Z l
  | TNonNegativeReal l _ => match l with Fin p => if q_leb 0 p then p else 0%Q | _ => 0%Q end
  | TReal l u => match l with Fin p => p | _ => match u with Fin p => p | _ => 0%Q end end
  end.
Definition inhabb (t : vtype) : bool := in_domQb t (pick t).
Lemma inhabb_sound t : inhabb t = true -> exists x, in_dom t x.
Proof. intros H. exists (Q2R (pick t)). apply in_domQb_sound. exact H. Qed.

Definition abs_modelb (m : model) : bool :=
  let U := unames m in
  let an := analyze (decl_types m) (m_constraints m) in
  nodup_names (map fst (m_domain m))
  && forallb (fun p : string * dvar => wf_vtypeb (dv_type (snd p)) && decl_okb (dv_type (snd p))
                && (dv_used (snd p) || inhabb (tighten_type an (fst p) (dv_type (snd p))))) (m_domain m)
  && forallb (qgoodb (init_state m)) (m_constraints m)
  && plainA (m_obj m)
  && forallb (set_mem U) (xvars (m_obj m))
  && compile_trace m.
Theorem abs_modelb_sound m : abs_modelb m = true -> abs_model m.
Proof.
  unfold abs_modelb. cbv zeta. intros H.
  apply andb_true_iff in H as [H Ht]. apply andb_true_iff in H as [H Hov]. apply andb_true_iff in H as [H Hpo]. apply andb_true_iff in H as [H Hc].
  apply andb_true_iff in H as [Hnd Hd].
  assert (Hd' : forall n d, In (n, d) (m_domain m) ->
            wf_vtypeb (dv_type d) = true /\ decl_okb (dv_type d) = true /\
            (dv_used d || inhabb (tighten_type (analyze (decl_types m) (m_constraints m)) n (dv_type d))) = true).
  { intros n d Hin. pose proof (proj1 (forallb_forall _ _) Hd (n, d) Hin) as K. cbn [fst snd] in K.
    apply andb_true_iff in K as [K K3]. apply andb_true_iff in K as [K1 K2]. auto. }
  constructor.
  - split; [apply nodup_names_sound; exact Hnd|]. intros n d Hin. destruct (Hd' n d Hin) as [W _].
    unfold PublishSound.wf_vtype. destruct (dv_type d); try exact I. cbn [wf_vtypeb] in W. apply andb_true_iff in W as [W1 W2].
    apply Z.leb_le in W1. apply Z.leb_le in W2. split; assumption.
  - intros n d Hin. destruct (Hd' n d Hin) as [_ [T _]]. exact (decl_okb_sound _ T).
  - intros n d Hin Hu. destruct (Hd' n d Hin) as [_ [_ T]]. rewrite Hu in T. cbn [orb] in T. exact (inhabb_sound _ T).
  - apply Forall_forall. intros c Hin. apply qgoodb_sound. exact (proj1 (forallb_forall _ _) Hc c Hin).
  - exact Hpo.
  - apply forallb_mem_incl. exact Hov.
  - exact Ht.
Qed.

(* ---------- the premises are met: nested abs in a constraint (exact, big-M rows) and in a minimised objective
   (one-sided rows); three auxiliary variables are created *)
Local Open Scope string_scope.
Definition m1 : model :=
  mkModel DMin (BinOp Add (Abs (BinOp Sub (Var "x") (Num (Fin 3%Q)))) (Var "y"))
    [mkConstr "lim" (BinOp Add (Abs (Var "x")) (BinOp Mul (Num (Fin 2%Q)) (Var "y"))) Ge (Num (Fin 4%Q)) false;
     mkConstr "" (Abs (BinOp Sub (Abs (Var "x")) (Var "y"))) Le (Num (Fin 5%Q)) false]
    [("x", mkDV (TReal (Fin (-10)%Q) (Fin 10%Q)) true); ("y", mkDV (TReal (Fin 0%Q) (Fin 6%Q)) true)].
Example m1_in_fragment : abs_modelb m1 = true.
Proof. vm_compute. reflexivity. Qed.
Example m1_abs_model : abs_model m1.
Proof. apply abs_modelb_sound. exact m1_in_fragment. Qed.
Example m1_compiles : exists L, compile m1 = inr L /\ (List.length (lm_vars L) > 2)%nat.
Proof. eexists. split; [vm_compute; reflexivity|]. cbn. lia. Qed.
Example m1_not_affine : affine_modelb m1 = false.
Proof. vm_compute. reflexivity. Qed.

(* min and max: one-sided rows under a matching objective / comparison, selector rows otherwise *)
Definition m2 : model :=
  mkModel DMin (BinOp Add (Max [Var "x"; BinOp Sub (Var "y") (Num (Fin 1%Q)); Num (Fin 0%Q)]) (Var "y"))
    [mkConstr "" (Min [Var "x"; Var "y"]) Ge (Num (Fin (-2)%Q)) false;
     mkConstr "cap" (BinOp Add (Max [Var "x"; Abs (Var "y")]) (Var "x")) Le (Num (Fin 7%Q)) false;
     mkConstr "" (Max [BinOp Mul (Num (Fin 2%Q)) (Var "x"); Var "y"]) Ge (Num (Fin 1%Q)) false]
    [("x", mkDV (TReal (Fin (-4)%Q) (Fin 6%Q)) true); ("y", mkDV (TReal (Fin (-3)%Q) (Fin 5%Q)) true)].
(* ... and with operands that are pruned as dominated: max{x, -20, y - 30} keeps x alone, min{x, 40, y} drops 40 *)
Definition m3 : model :=
  mkModel DMax (BinOp Sub (Min [Var "x"; Num (Fin 40%Q); Var "y"]) (Var "y"))
    [mkConstr "" (Max [Var "x"; Num (Fin (-20)%Q); BinOp Sub (Var "y") (Num (Fin 30%Q))]) Le (Num (Fin 3%Q)) false;
     mkConstr "" (BinOp Add (Max [Var "x"; Var "y"; Num (Fin (-9)%Q)]) (Var "x")) Ge (Num (Fin 1%Q)) false]
    [("x", mkDV (TReal (Fin (-4)%Q) (Fin 6%Q)) true); ("y", mkDV (TReal (Fin (-3)%Q) (Fin 5%Q)) true)].
Example m3_in_fragment : abs_modelb m3 = true.
Proof. vm_compute. reflexivity. Qed.
Example m3_prunes : retained_indices KMax (map (bounds_of (s_an (init_state m3))) [Var "x"; Num (Fin (-20)%Q); BinOp Sub (Var "y") (Num (Fin 30%Q))]) = [0%nat].
Proof. vm_compute. reflexivity. Qed.
Example m2_in_fragment : abs_modelb m2 = true.
Proof. vm_compute. reflexivity. Qed.
Example m2_compiles : exists L, compile m2 = inr L /\ (List.length (lm_vars L) > 6)%nat.
Proof. eexists. split; [vm_compute; reflexivity|]. cbn. lia. Qed.
Print Assumptions compile_abs_equiv.

(* a declared variable that occurs nowhere (w) is dropped by the compiler and does not stand in the way *)
Definition m4 : model :=
  mkModel DMin (BinOp Add (Abs (Var "x")) (Var "y"))
    [mkConstr "" (Max [Var "x"; Var "y"]) Ge (Num (Fin 1%Q)) false]
    [("x", mkDV (TReal (Fin (-4)%Q) (Fin 6%Q)) true); ("w", mkDV (TIntegerRange 2 9) false); ("y", mkDV (TReal (Fin (-3)%Q) (Fin 5%Q)) true)].
Example m4_in_fragment : abs_modelb m4 = true.
Proof. vm_compute. reflexivity. Qed.

(* logic assertions over Boolean variables, each lowered to one affine row, next to arithmetic with abs *)
Definition m5 : model :=
  mkModel DMax (BinOp Add (BinOp Add (Var "a") (BinOp Mul (Num (Fin 2%Q)) (Var "b"))) (BinOp Sub (Var "c") (Abs (Var "x"))))
    [mkConstr "" (Or [Var "a"; Var "b"]) Eq (Num (Fin 1%Q)) true;
     mkConstr "imp" (Implies (Var "a") (Not (Var "c"))) Eq (Num (Fin 1%Q)) true;
     mkConstr "" (Not (And [Var "b"; Var "c"])) Eq (Num (Fin 1%Q)) true;
     mkConstr "" (Xor (Var "a") (Var "b")) Eq (Num (Fin 1%Q)) true;
     mkConstr "" (BinOp Add (Var "x") (Var "a")) Ge (Num (Fin 1%Q)) false]
    [("a", mkDV TBoolean true); ("b", mkDV TBoolean true); ("c", mkDV TBoolean true); ("x", mkDV (TReal (Fin (-2)%Q) (Fin 3%Q)) true)].
Example m5_in_fragment : abs_modelb m5 = true.
Proof. vm_compute. reflexivity. Qed.

(* comparisons of a formula with a constant, normalised by the logic-constraint test: an assertion, a tautology, a contradiction *)
Definition m6 : model :=
  mkModel DMax (BinOp Add (Var "a") (BinOp Add (Var "b") (Var "x")))
    [mkConstr "" (Or [Var "a"; Var "b"]) Ge (Num (Fin 1%Q)) false;
     mkConstr "" (Num (Fin (1 # 2)%Q)) Ge (And [Var "a"; Var "b"]) false;
     mkConstr "" (Var "b") Le (Num (Fin 1%Q)) false;
     mkConstr "" (BinOp Add (Var "x") (Var "a")) Le (Num (Fin 3%Q)) false]
    [("a", mkDV TBoolean true); ("b", mkDV TBoolean true); ("x", mkDV (TReal (Fin 0%Q) (Fin 5%Q)) true)].
Example m6_in_fragment : abs_modelb m6 = true.
Proof. vm_compute. reflexivity. Qed.
