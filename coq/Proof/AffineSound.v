(* C07: affine forms (bounds.rs AffineForm) denote the expressions they were built from, and
   tighten_affine_form keeps every point satisfying the row inside the box. *)
From Coq Require Import QArith Qreals Reals ZArith Bool List String Lra Lia.
From Rooc Require Import Base.XQ Model.Exp Model.Sem Model.Bounds Model.Spec
  Proof.XQFacts Proof.SemFacts Proof.ExpInd Proof.AListFacts Proof.IntervalSound Proof.BoundsOfSound Proof.TightenSound.
Import ListNotations.
Local Close Scope Q_scope.
Local Open Scope R_scope.

Definition cval (x : xq) : R := match x with Fin q => Q2R q | _ => 0 end.
Definition fin (x : xq) : Prop := xq_is_finite x = true.

Section S.
  Variable rho : string -> R.

  Fixpoint cs_val (l : list (string * xq)) : R :=
    match l with [] => 0 | (n, c) :: r => cval c * rho n + cs_val r end.
  Definition af_val (f : aform) : R := cs_val (af_coeffs f) + cval (af_const f).
  Definition cs_fin (l : list (string * xq)) : Prop := Forall (fun p => fin (snd p)) l.
  Definition af_fin (f : aform) : Prop := cs_fin (af_coeffs f) /\ fin (af_const f).

  Definition getc (m : list (string * xq)) (k : string) : xq :=
    match al_get m k with Some v => v | None => Fin 0%Q end.

  Lemma cval_0 : cval (Fin 0%Q) = 0.  Proof. cbn. apply Q2R_0. Qed.

  Lemma getc_fin m k : cs_fin m -> fin (getc m k).
  Proof.
    unfold getc. induction m as [|[k' v] r IH]; intros H; cbn; [reflexivity|].
    inversion H; subst. destruct (String.eqb k k'); [assumption|apply IH; assumption].
  Qed.

  Lemma cs_val_insert m k v :
    cs_val (al_insert m k v) = cs_val m + (cval v - cval (getc m k)) * rho k.
  Proof.
    unfold getc. induction m as [|[k' v'] r IH]; cbn.
    - rewrite Q2R_0. lra.
    - destruct (String.eqb k k') eqn:E; cbn.
      + apply String.eqb_eq in E; subst k'. lra.
      + rewrite IH. lra.
  Qed.
  Lemma cs_fin_insert m k v : cs_fin m -> fin v -> cs_fin (al_insert m k v).
  Proof.
    induction m as [|[k' v'] r IH]; intros H Hv; cbn.
    - constructor; [exact Hv|constructor].
    - inversion H; subst. destruct (String.eqb k k'); constructor; auto. apply IH; assumption.
  Qed.
  Lemma cs_val_remove m k : cs_val (al_remove m k) = cs_val m - cval (getc m k) * rho k.
  Proof.
    unfold getc. induction m as [|[k' v'] r IH]; cbn.
    - rewrite Q2R_0. lra.
    - destruct (String.eqb k k') eqn:E; cbn.
      + apply String.eqb_eq in E; subst k'. lra.
      + rewrite IH. lra.
  Qed.
  Lemma cs_fin_remove m k : cs_fin m -> cs_fin (al_remove m k).
  Proof.
    induction m as [|[k' v'] r IH]; intros H; cbn; [constructor|].
    inversion H; subst. destruct (String.eqb k k'); [assumption|constructor; [assumption|apply IH; assumption]].
  Qed.

  Lemma fin_inv x : fin x -> exists q, x = Fin q.
  Proof. destruct x; cbn; try discriminate. eauto. Qed.

  (* one step of the merge loop *)
  Lemma merge_step acc name c m :
    cs_fin acc -> fin c ->
    cs_fin (af_merge_step (Fin m) acc (name, c)) /\
    cs_val (af_merge_step (Fin m) acc (name, c)) = cs_val acc + cval c * Q2R m * rho name.
  Proof.
    intros Ha Hc. destruct (fin_inv _ Hc) as [q ->].
    destruct (fin_inv _ (getc_fin acc name Ha)) as [g Eg]. unfold af_merge_step. cbn [fst snd].
    fold (getc acc name). rewrite Eg. cbn [xq_mul xq_add].
    destruct (xq_is_zero (Fin (qn (g + qn (q * m))))) eqn:Z.
    - split; [apply cs_fin_remove; exact Ha|]. rewrite cs_val_remove, Eg. cbn [cval].
      apply xq_is_zero_Fin in Z. rewrite Q2R_qn, Q2R_plus, Q2R_qn, Q2R_mult in Z.
      assert (Q2R g * rho name = - (Q2R q * Q2R m) * rho name) by (replace (Q2R g) with (- (Q2R q * Q2R m)) by lra; ring).
      lra.
    - split; [apply cs_fin_insert; [exact Ha|reflexivity]|]. rewrite cs_val_insert, Eg. cbn [cval].
      rewrite Q2R_qn, Q2R_plus, Q2R_qn, Q2R_mult. lra.
  Qed.

  Lemma merge_fold m : forall l acc, cs_fin l -> cs_fin acc ->
    cs_fin (fold_left (af_merge_step (Fin m)) l acc) /\
    cs_val (fold_left (af_merge_step (Fin m)) l acc) = cs_val acc + Q2R m * cs_val l.
  Proof.
    induction l as [|[n c] l IH]; intros acc Hl Hacc; cbn [fold_left].
    - split; [exact Hacc|]. cbn. lra.
    - inversion Hl as [|? ? Hc Hl']; subst. cbn [snd] in Hc.
      destruct (merge_step acc n c m Hacc Hc) as [F V].
      destruct (IH _ Hl' F) as [F2 V2]. split; [exact F2|]. rewrite V2, V. cbn [cs_val]. lra.
  Qed.

  Lemma af_merge_sound a b m :
    af_fin a -> af_fin b ->
    af_fin (af_merge a b (Fin m)) /\ af_val (af_merge a b (Fin m)) = af_val a + Q2R m * af_val b.
  Proof.
    intros [Ha1 Ha2] [Hb1 Hb2]. unfold af_merge, af_val, af_fin. cbn [af_coeffs af_const].
    destruct (fin_inv _ Ha2) as [ka Eka]. destruct (fin_inv _ Hb2) as [kb Ekb]. rewrite Eka, Ekb.
    cbn [xq_mul xq_add cval].
    destruct (merge_fold m (af_coeffs b) (af_coeffs a) Hb1 Ha1) as [F V].
    split; [split; [exact F|reflexivity]|]. rewrite V, Q2R_qn, Q2R_plus, Q2R_qn, Q2R_mult. lra.
  Qed.

  Lemma af_scale_sound a c :
    af_fin a -> af_fin (af_scale a (Fin c)) /\ af_val (af_scale a (Fin c)) = Q2R c * af_val a.
  Proof.
    intros [H1 H2]. unfold af_scale, af_val, af_fin. cbn [af_coeffs af_const].
    destruct (fin_inv _ H2) as [k Ek]. rewrite Ek. cbn [xq_mul cval].
    assert (G : forall l, cs_fin l ->
      cs_fin (filter (fun p => negb (xq_is_zero (snd p))) (map (fun p => (fst p, xq_mul (snd p) (Fin c))) l)) /\
      cs_val (filter (fun p => negb (xq_is_zero (snd p))) (map (fun p => (fst p, xq_mul (snd p) (Fin c))) l)) = Q2R c * cs_val l).
    { induction l as [|[n x] l IH]; intros Hl; cbn [map filter fst snd].
      - split; [constructor|cbn; lra].
      - inversion Hl as [|? ? Hx Hl']; subst. cbn [snd] in Hx. destruct (fin_inv _ Hx) as [q ->].
        destruct (IH Hl') as [F V]. cbn [xq_mul].
        destruct (xq_is_zero (Fin (qn (q * c)))) eqn:Z; cbn [negb].
        + split; [exact F|]. rewrite V. cbn [cs_val cval].
          apply xq_is_zero_Fin in Z. rewrite Q2R_qn, Q2R_mult in Z.
          assert (Q2R c * (Q2R q * rho n) = 0) by (replace (Q2R c * (Q2R q * rho n)) with ((Q2R q * Q2R c) * rho n) by ring; rewrite Z; ring).
          lra.
        + split; [constructor; [reflexivity|exact F]|]. cbn [cs_val cval]. rewrite V, Q2R_qn, Q2R_mult. lra. }
    destruct (G _ H1) as [F V]. split; [split; [exact F|reflexivity]|].
    rewrite V, Q2R_qn, Q2R_mult. lra.
  Qed.

  (* a form without variable part is its constant *)
  Lemma const_form a : af_coeffs a = [] -> af_fin a -> exists q, af_const a = Fin q /\ af_val a = Q2R q.
  Proof.
    intros C [_ H2]. destruct (fin_inv _ H2) as [k Ek]. exists k. split; [exact Ek|].
    unfold af_val. rewrite C, Ek. cbn [cs_val cval]. lra.
  Qed.

  Notation ev := (evg rho false).

  Theorem af_from_exp_sound : forall e f v,
    af_from_exp e = Some f -> ev e = Some v -> af_fin f /\ af_val f = v.
  Proof.
    induction e using exp_ind'; intros f v Hf Hv; cbn [af_from_exp] in Hf; try discriminate.
    - (* Num *) inversion Hf; subst f. apply evg_Num_inv in Hv as [q [-> ->]].
      split; [split; [constructor|reflexivity]|]. unfold af_val; cbn. lra.
    - (* Var *) inversion Hf; subst f. cbn in Hv. inversion Hv; subst v.
      split; [split; [constructor; [reflexivity|constructor]|reflexivity]|].
      unfold af_val; cbn. rewrite Q2R_1, Q2R_0. lra.
    - (* BinOp *)
      rewrite evg_BinOp in Hv. destruct (ev e1) as [x|] eqn:E1; [|discriminate].
      destruct (ev e2) as [y|] eqn:E2; [|discriminate].
      destruct op; cbn [operand_ok negb orb andb ev_binop] in Hv; try discriminate.
      + destruct (af_from_exp e1) as [a|] eqn:A1; [|discriminate].
        destruct (af_from_exp e2) as [b|] eqn:A2; [|discriminate]. inversion Hf; subst f. inversion Hv; subst v.
        destruct (IHe1 _ _ eq_refl eq_refl) as [F1 V1]. destruct (IHe2 _ _ eq_refl eq_refl) as [F2 V2].
        destruct (af_merge_sound a b 1%Q F1 F2) as [F V]. split; [exact F|]. rewrite V, V1, V2, Q2R_1. lra.
      + destruct (af_from_exp e1) as [a|] eqn:A1; [|discriminate].
        destruct (af_from_exp e2) as [b|] eqn:A2; [|discriminate]. inversion Hf; subst f. inversion Hv; subst v.
        destruct (IHe1 _ _ eq_refl eq_refl) as [F1 V1]. destruct (IHe2 _ _ eq_refl eq_refl) as [F2 V2].
        destruct (af_merge_sound a b (-1)%Q F1 F2) as [F V]. split; [exact F|]. rewrite V, V1, V2.
        replace (Q2R (-1)) with (-1) by (unfold Q2R; cbn; lra). lra.
      + inversion Hv; subst v; clear Hv.
        destruct (af_from_exp e1) as [a|] eqn:A1; [|discriminate].
        destruct (af_from_exp e2) as [b|] eqn:A2; [|discriminate].
        destruct (IHe1 _ _ eq_refl eq_refl) as [F1 V1]. destruct (IHe2 _ _ eq_refl eq_refl) as [F2 V2].
        destruct (af_coeffs a) as [|ca ra] eqn:Ca.
        * inversion Hf; subst f. destruct (const_form a Ca F1) as [q [Eq Va]]. rewrite Eq.
          destruct (af_scale_sound b q F2) as [F V]. split; [exact F|]. rewrite V, V2, <- V1, Va. lra.
        * destruct (af_coeffs b) as [|cb rb] eqn:Cb; [|discriminate].
          inversion Hf; subst f. destruct (const_form b Cb F2) as [q [Eq Vb]]. rewrite Eq.
          destruct (af_scale_sound a q F1) as [F V]. split; [exact F|]. rewrite V, V1, <- V2, Vb. lra.
      + destruct (Req_EM_T y 0) as [Zy|NZ]; [discriminate|]. inversion Hv; subst v; clear Hv.
        destruct (af_from_exp e2) as [b|] eqn:A2; [|discriminate].
        destruct (IHe2 _ _ eq_refl eq_refl) as [F2 V2].
        destruct (af_coeffs b) as [|cb rb] eqn:Cb; [|discriminate].
        destruct (const_form b Cb F2) as [q [Eq Vb]]. rewrite Eq in Hf.
        destruct (xq_is_zero (Fin q)) eqn:Z; [discriminate|].
        destruct (af_from_exp e1) as [a|] eqn:A1; [|discriminate]. cbn [option_map] in Hf. inversion Hf; subst f.
        destruct (IHe1 _ _ eq_refl eq_refl) as [F1 V1].
        cbn [xq_div]. unfold xq_is_zero in Z; cbn [xq_eqb] in Z. rewrite Z.
        destruct (af_scale_sound a (qn (1 / q)) F1) as [F V]. split; [exact F|].
        assert (Yq : y = Q2R q) by (rewrite <- V2, Vb; reflexivity).
        rewrite V, V1, Q2R_qn, Q2R_div, Q2R_1, Yq; [field; rewrite <- Yq; exact NZ|].
        intro E. apply Qeq_bool_iff in E. unfold q_eqb in Z. congruence.
    - (* UnOp *)
      destruct op; [|discriminate].
      rewrite evg_Neg in Hv. destruct (ev e) as [w|] eqn:E; [|discriminate]. inversion Hv; subst v.
      destruct (af_from_exp e) as [a|] eqn:A; [|discriminate]. cbn [option_map] in Hf. inversion Hf; subst f.
      destruct (IHe _ _ eq_refl eq_refl) as [F1 V1]. destruct (af_scale_sound a (-1)%Q F1) as [F V].
      split; [exact F|]. rewrite V, V1. replace (Q2R (-1)) with (-1) by (unfold Q2R; cbn; lra). lra.
  Qed.

  Lemma af_from_constraint_sound c f l r :
    af_from_constraint c = Some f -> ev (c_lhs c) = Some l -> ev (c_rhs c) = Some r ->
    af_fin f /\ af_val f = l - r.
  Proof.
    unfold af_from_constraint. intros Hf El Er.
    destruct (af_from_exp (c_lhs c)) as [a|] eqn:A; [|discriminate].
    destruct (af_from_exp (c_rhs c)) as [b|] eqn:B; [|discriminate]. inversion Hf; subst f.
    destruct (af_from_exp_sound _ _ _ A El) as [F1 V1]. destruct (af_from_exp_sound _ _ _ B Er) as [F2 V2].
    destruct (af_merge_sound a b (-1)%Q F1 F2) as [F V]. split; [exact F|]. rewrite V, V1, V2.
    replace (Q2R (-1)) with (-1) by (unfold Q2R; cbn; lra). lra.
  Qed.
End S.
