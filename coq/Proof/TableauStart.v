(* C14 / C04 (finding F56): the columns the direct start of into_tableau takes as basic are unit columns - exactly one
   entry that is not zero, and that entry is positive.  The test for "not zero" has to be exact: with the solver's 1e-5
   tolerance (the code before the repair of F56) the statement is false, see independent_vars_tolerant_refuted. *)
From Coq Require Import QArith ZArith Bool List String Lia Lqa.
From Rooc Require Import Base.XQ Model.Exp Model.Bounds Model.Linearize Model.Standardize Model.Tableau.
Import ListNotations.
Local Close Scope Q_scope.
Local Open Scope list_scope.

Lemma in_combine_seq {A} : forall (l : list A) a i c, In (i, c) (combine (seq a (List.length l)) l) <-> (a <= i /\ nth_error l (i - a) = Some c).
Proof.
  induction l as [|x l IH]; intros a i c; cbn [List.length seq combine].
  - split; [intros []|]. intros [_ H]. destruct (i - a); discriminate.
  - cbn [In]. rewrite IH. split.
    + intros [E|[H1 H2]].
      * inversion E; subst. split; [lia|]. replace (i - i) with 0 by lia. reflexivity.
      * split; [lia|]. replace (i - a) with (S (i - S a)) by lia. exact H2.
    + intros [H1 H2]. destruct (Nat.eq_dec i a) as [->|Ne].
      * left. replace (a - a) with 0 in H2 by lia. cbn in H2. inversion H2. reflexivity.
      * right. split; [lia|]. replace (i - a) with (S (i - S a)) in H2 by lia. exact H2.
Qed.

Theorem independent_vars_unit_column s row col v : In (row, col, v) (independent_vars s) ->
  exists c, nth_error (sm_cons s) row = Some c /\ v = nthx (eq_coeffs c) col /\ f_gt v x0 = true /\
    forall row' c', nth_error (sm_cons s) row' = Some c' -> row' <> row -> xq_is_zero (nthx (eq_coeffs c') col) = true.
Proof.
  unfold independent_vars. intros H. rewrite in_flat_map in H. destruct H as [column [_ H]].
  set (hits := filter (fun p : nat * eqcon => negb (xq_is_zero (nthx (eq_coeffs (snd p)) column)))
                      (combine (seq 0 (List.length (sm_cons s))) (sm_cons s))) in *.
  destruct (rev hits) as [|last rest] eqn:ER; [destruct H|].
  destruct (Nat.eqb (List.length hits) 1 && f_gt (nthx (eq_coeffs (snd last)) column) x0) eqn:EC; [|destruct H].
  apply andb_true_iff in EC as [EL EG]. apply Nat.eqb_eq in EL.
  destruct H as [E|[]]. inversion E; subst row col v; clear E.
  destruct hits as [|p [|q r]] eqn:EH; try discriminate. cbn in ER. inversion ER; subst last rest; clear ER.
  assert (Hp : In p hits) by (rewrite EH; left; reflexivity).
  unfold hits in Hp. apply filter_In in Hp as [Hp _]. destruct p as [i c]. apply in_combine_seq in Hp as [_ Hp].
  rewrite Nat.sub_0_r in Hp. exists c. cbn [fst snd] in *. split; [exact Hp|]. split; [reflexivity|]. split; [exact EG|].
  intros row' c' Hn Ne. destruct (xq_is_zero (nthx (eq_coeffs c') column)) eqn:Z; [reflexivity|exfalso].
  assert (Hq : In (row', c') hits).
  { unfold hits. apply filter_In. split; [apply in_combine_seq; split; [lia|rewrite Nat.sub_0_r; exact Hn]|]. cbn [snd]. rewrite Z. reflexivity. }
  rewrite EH in Hq. destruct Hq as [E|[]]. inversion E. subst. apply Ne. reflexivity.
Qed.

(* what the code did before the repair: the same search with the tolerant test *)
Definition independent_vars_tolerant (s : stdmodel) : list (nat * nat * xq) :=
  flat_map (fun column =>
    let hits := filter (fun p : nat * eqcon => f_ne (nthx (eq_coeffs (snd p)) column) x0)
                       (combine (seq 0 (List.length (sm_cons s))) (sm_cons s)) in
    match rev hits with
    | last :: _ =>
        if Nat.eqb (List.length hits) 1 && f_gt (nthx (eq_coeffs (snd last)) column) x0
        then [(fst last, column, nthx (eq_coeffs (snd last)) column)] else []
    | [] => []
    end) (seq 0 (List.length (sm_vars s))).

(* max x + y, 0.000004x + y + s1 = 1, x + s2 = 100000: column x is taken as a unit column of row 1 although row 0 holds 4e-6 *)
Definition f56_witness : stdmodel :=
  mkSM ["x"; "y"; "s1"; "s2"]%string (Fin 0%Q) [Fin (-1)%Q; Fin (-1)%Q; Fin 0%Q; Fin 0%Q] true
    [mkEQ [Fin (4 # 1000000)%Q; Fin 1%Q; Fin 1%Q; Fin 0%Q] (Fin 1%Q);
     mkEQ [Fin 1%Q; Fin 0%Q; Fin 0%Q; Fin 1%Q] (Fin 100000%Q)].
Theorem independent_vars_tolerant_refuted :
  exists s row col v, In (row, col, v) (independent_vars_tolerant s) /\
    exists row' c', nth_error (sm_cons s) row' = Some c' /\ row' <> row /\ xq_is_zero (nthx (eq_coeffs c') col) = false.
Proof.
  exists f56_witness, 1, 0, (Fin 1%Q). split; [vm_compute; left; reflexivity|].
  exists 0, (mkEQ [Fin (4 # 1000000)%Q; Fin 1%Q; Fin 1%Q; Fin 0%Q] (Fin 1%Q)). split; [reflexivity|]. split; [discriminate|]. vm_compute. reflexivity.
Qed.
(* and the repaired search does not take that column *)
Example f56_repaired : ~ In (1, 0, Fin 1%Q) (independent_vars f56_witness).
Proof. vm_compute. intros [H|[H|[H|H]]]; try discriminate; try (inversion H); try contradiction. Qed.

(* ---- findings F59 / F59b as statements about the faithful model: with the solver's absolute tolerance inside the
   pivoting rules, "a step keeps the basic solution feasible" and "finished means optimal" are false on badly scaled
   tableaux.  (Props/C14.v proves both under the exact hypotheses: the ratio of the leaving row is minimal, every
   reduced cost is non-negative.) *)
Definition all_nonneg (l : list xq) : bool := forallb (fun b => xq_leb x0 b) l.
Definition xdot (c x : list xq) : xq := fold_left xq_add (map (fun p : xq * xq => xq_mul (fst p) (snd p)) (combine c x)) x0.
Definition xsat (t : tableau) (x : list xq) : bool :=
  forallb (fun p : list xq * xq => xq_eqb (xdot (fst p) x) (snd p)) (combine (t_a t) (t_b t)).

(* min -x, x + s0 = 0.000009, 1000000x + s1 = 0: the ratios 9e-6 and 0 tie within 1e-5, the row with the lower basis index leaves *)
Definition f59_tableau : tableau :=
  mkT [Fin (-1)%Q; Fin 0%Q; Fin 0%Q]
      [[Fin 1%Q; Fin 1%Q; Fin 0%Q]; [Fin 1000000%Q; Fin 0%Q; Fin 1%Q]]
      [Fin (9 # 1000000)%Q; Fin 0%Q] [1; 2] (Fin 0%Q) (Fin 0%Q) false 3.
Theorem tolerant_ratio_test_loses_feasibility_refuted :
  exists t, all_nonneg (t_b t) = true /\
    exists t' h tr, step_inner t [] false = SPivot t' h tr /\ existsb (fun b => xq_ltb b (Fin (-8)%Q)) (t_b t') = true.
Proof.
  exists f59_tableau. split; [vm_compute; reflexivity|].
  eexists. exists 0, 0. split; [vm_compute; reflexivity|]. vm_compute. reflexivity.
Qed.

(* min -0.000005x, x + s = 10000000, x + t = 20000000: the reduced cost -5e-6 reads as non-negative, the method stops at 0; x = 10000000 gives -50 *)
Definition f59b_tableau : tableau :=
  mkT [Fin (-5 # 1000000)%Q; Fin 0%Q; Fin 0%Q]
      [[Fin 1%Q; Fin 1%Q; Fin 0%Q]; [Fin 1%Q; Fin 0%Q; Fin 1%Q]]
      [Fin 10000000%Q; Fin 20000000%Q] [1; 2] (Fin 0%Q) (Fin 0%Q) false 3.
Theorem tolerant_optimality_test_refuted :
  exists t x, all_nonneg (t_b t) = true /\ is_optimal t = true /\
    xsat t x = true /\ all_nonneg x = true /\ xq_ltb (xdot (t_c t) x) (Fin (-49)%Q) = true /\ t_value t = Fin 0%Q.
Proof.
  exists f59b_tableau, [Fin 10000000%Q; Fin 0%Q; Fin 10000000%Q].
  repeat split; vm_compute; reflexivity.
Qed.

(* ---- finding F57: the phase-one verdict accepts a residual below 1e-5.  x + y + s1 = 1, x + y - s2 = 1.000005 has no
   non-negative solution (s1 + s2 would be -0.000005), yet into_tableau returns a start tableau for it. *)
Definition f57_model : stdmodel :=
  mkSM ["x"; "y"; "s1"; "s2"]%string (Fin 0%Q) [Fin 1%Q; Fin 2%Q; Fin 0%Q; Fin 0%Q] false
    [mkEQ [Fin 1%Q; Fin 1%Q; Fin 1%Q; Fin 0%Q] (Fin 1%Q);
     mkEQ [Fin 1%Q; Fin 1%Q; Fin 0%Q; Fin (-1)%Q] (Fin (1000005 # 1000000)%Q)].
Lemma f57_infeasible : forall a b s1 s2 : Q, (0 <= a -> 0 <= b -> 0 <= s1 -> 0 <= s2 ->
  ~ (a + b + s1 == 1 /\ a + b - s2 == 1000005 # 1000000))%Q.
Proof. intros a b s1 s2 Ha Hb H1 H2 [E1 E2]. lra. Qed.
Theorem two_phase_accepts_infeasible_refuted :
  exists s, (exists t, into_tableau s = inr t) /\
    sm_cons s = [mkEQ [Fin 1%Q; Fin 1%Q; Fin 1%Q; Fin 0%Q] (Fin 1%Q); mkEQ [Fin 1%Q; Fin 1%Q; Fin 0%Q; Fin (-1)%Q] (Fin (1000005 # 1000000)%Q)] /\
    forall a b s1 s2 : Q, (0 <= a -> 0 <= b -> 0 <= s1 -> 0 <= s2 -> ~ (a + b + s1 == 1 /\ a + b - s2 == 1000005 # 1000000))%Q.
Proof.
  exists f57_model. split; [|split; [reflexivity|exact f57_infeasible]].
  destruct (into_tableau f57_model) as [e|t] eqn:E; [|exists t; reflexivity].
  exfalso. vm_compute in E. discriminate.
Qed.
