(* C09: the Pratt loop produces exactly the trees described by the declarative well-formedness predicate
   (standard precedence climbing), for ANY operator table in which prefix operators bind tighter than every infix. *)
From Coq Require Import Bool List Arith Lia String.
From Rooc Require Import Model.Exp Model.Pratt.
Import ListNotations.
Local Open Scope list_scope.

Section T.
  Variable prec : binop -> nat.
  Variable rassoc : binop -> bool.
  Variable pprec : unop -> nat.
  Notation expr := (expr prec rassoc pprec).
  Notation led_loop := (led_loop prec rassoc pprec).
  Notation wfr := (wfr prec rassoc pprec).
  Notation rb := (rb prec rassoc).
  Notation lbp := (lbp prec).

  Lemma expr_eq f rbp ts : expr (S f) rbp ts =
    match ts with
    | TAtom a :: rest => led_loop f rbp (Leaf a) rest
    | TPrefix op :: rest => match expr f (pprec op - 1) rest with
                            | Some (t, rest') => led_loop f rbp (Pre op t) rest'
                            | None => None end
    | _ => None
    end.
  Proof. destruct ts as [|[a|op|op] ts']; try reflexivity. cbn [Pratt.expr]. destruct (expr f (pprec op - 1) ts') as [[u r]|]; reflexivity. Qed.
  Lemma loop_eq f rbp lhs ts : led_loop (S f) rbp lhs ts =
    match ts with
    | TInfix op :: rest =>
        if Nat.ltb rbp (prec op) then
          match expr f (rb op) rest with
          | Some (rhs, rest') => led_loop f rbp (Bin op lhs rhs) rest'
          | None => None end
        else Some (lhs, ts)
    | _ => Some (lhs, ts)
    end.
  Proof. reflexivity. Qed.

  Definition lhs_ok (lhs : tree) (ts : list token) : Prop :=
    match lhs with Bin op' _ _ => lbp ts <= rb op' | _ => True end.

  (* ---------- soundness: whatever the loop returns is a well-formed tree spelling exactly the consumed tokens *)
  Lemma sound_mutual : forall f,
    (forall rbp ts t rest, expr f rbp ts = Some (t, rest) ->
        ts = flatten t ++ rest /\ wfr rbp t /\ lbp rest <= rbp /\ lhs_ok t rest) /\
    (forall rbp lhs ts t rest, led_loop f rbp lhs ts = Some (t, rest) -> wfr rbp lhs -> lhs_ok lhs ts ->
        flatten lhs ++ ts = flatten t ++ rest /\ wfr rbp t /\ lbp rest <= rbp /\ lhs_ok t rest).
  Proof.
    induction f as [|f [IHe IHl]]; [split; intros; discriminate|]. split.
    - intros rbp ts t rest H. rewrite expr_eq in H.
      destruct ts as [|[a|op|op] ts']; try discriminate.
      + destruct (IHl rbp (Leaf a) ts' t rest H I I) as [E [W [S O]]]. cbn [flatten app] in E. auto.
      + destruct (expr f (pprec op - 1) ts') as [[u rest']|] eqn:Eu; [|discriminate].
        destruct (IHe _ _ _ _ Eu) as [E1 [W1 [S1 O1]]].
        destruct (IHl rbp (Pre op u) rest' t rest H W1 I) as [E [W [S O]]].
        split; [|auto]. rewrite E1. cbn [flatten app] in E. exact E.
    - intros rbp lhs ts t rest H Wl Ol. rewrite loop_eq in H.
      destruct ts as [|[a|op|op] ts']; try (inversion H; subst; repeat split; auto; cbn; lia).
      destruct (Nat.ltb rbp (prec op)) eqn:L.
      + apply Nat.ltb_lt in L.
        destruct (expr f (rb op) ts') as [[rhs rest']|] eqn:Er; [|discriminate].
        destruct (IHe _ _ _ _ Er) as [E1 [W1 [S1 O1]]].
        assert (Wn : wfr rbp (Bin op lhs rhs)).
        { cbn [Pratt.wfr]. repeat split; auto; destruct lhs; auto. }
        destruct (IHl rbp (Bin op lhs rhs) rest' t rest H Wn S1) as [E [W [S O]]].
        split; [|auto]. rewrite E1. cbn [flatten] in E. rewrite <- app_assoc in E. cbn [app] in E. exact E.
      + apply Nat.ltb_ge in L. inversion H; subst. repeat split; auto.
  Qed.

  (* ---------- fuel monotonicity *)
  Lemma mono_mutual : forall f,
    (forall rbp ts r, expr f rbp ts = Some r -> expr (S f) rbp ts = Some r) /\
    (forall rbp lhs ts r, led_loop f rbp lhs ts = Some r -> led_loop (S f) rbp lhs ts = Some r).
  Proof.
    induction f as [|f [IHe IHl]]; [split; intros; discriminate|]. split.
    - intros rbp ts r H. rewrite expr_eq in H. rewrite expr_eq.
      destruct ts as [|[a|op|op] ts']; try discriminate.
      + apply IHl. exact H.
      + destruct (expr f (pprec op - 1) ts') as [[u rest']|] eqn:Eu; [|discriminate].
        rewrite (IHe _ _ _ Eu). apply IHl. exact H.
    - intros rbp lhs ts r H. rewrite loop_eq in H. rewrite loop_eq.
      destruct ts as [|[a|op|op] ts']; try exact H.
      destruct (Nat.ltb rbp (prec op)); [|exact H].
      destruct (expr f (rb op) ts') as [[rhs rest']|] eqn:Er; [|discriminate].
      rewrite (IHe _ _ _ Er). apply IHl. exact H.
  Qed.
  Lemma expr_mono f g rbp ts r : f <= g -> expr f rbp ts = Some r -> expr g rbp ts = Some r.
  Proof. intros L. induction L as [|g L IH]; [auto|]. intros Hr. apply (proj1 (mono_mutual _)). auto. Qed.
  Lemma loop_mono f g rbp lhs ts r : f <= g -> led_loop f rbp lhs ts = Some r -> led_loop g rbp lhs ts = Some r.
  Proof. intros L. induction L as [|g L IH]; [auto|]. intros Hr. apply (proj2 (mono_mutual _)). auto. Qed.

  (* ---------- completeness *)
  Hypothesis prefix_tightest : forall u b, prec b <= pprec u - 1.

  Definition cost (t : tree) : nat := 2 * List.length (flatten t).

  Lemma lbp_le_prefix ts u : lbp ts <= pprec u - 1.
  Proof. destruct ts as [|[a|op|op] ts]; cbn; try lia. apply prefix_tightest. Qed.

  Lemma loop_stops f rbp lhs ts : lbp ts <= rbp -> led_loop (S f) rbp lhs ts = Some (lhs, ts).
  Proof.
    intros H. rewrite loop_eq. destruct ts as [|[a|op|op] ts']; try reflexivity.
    cbn in H. destruct (Nat.ltb rbp (prec op)) eqn:L; [apply Nat.ltb_lt in L; lia|reflexivity].
  Qed.

  (* parsing the tokens of a well-formed tree brings the loop to the state "lhs = t" *)
  Lemma spine : forall t rbp rest res f,
    wfr rbp t -> lhs_ok t rest ->
    led_loop f rbp t rest = Some res -> expr (f + cost t) rbp (flatten t ++ rest) = Some res.
  Proof.
    induction t as [a|op l IHl r IHr|op u IHu]; intros rbp rest res f W O H.
    - unfold cost; cbn [flatten List.length app]. replace (f + 2 * 1) with (S (S f)) by lia.
      rewrite expr_eq. apply (loop_mono f). lia. exact H.
    - destruct W as [Wp [Wl [Wr Wc]]]. cbn [flatten]. rewrite <- app_assoc. cbn [app].
      assert (Hr : expr (S (cost r)) (rb op) (flatten r ++ rest) = Some (r, rest)).
      { replace (S (cost r)) with (1 + cost r) by lia. apply IHr; [exact Wr| |apply loop_stops; exact O].
        destruct r as [|op2 r1 r2|]; cbn; auto. destruct Wr as [Wr1 _]. cbn in O.
        unfold Pratt.rb. unfold Pratt.rb in O, Wr1. destruct (rassoc op2), (rassoc op); lia. }
      assert (Hl : led_loop (S (f + S (cost r))) rbp l (TInfix op :: flatten r ++ rest) = Some res).
      { rewrite loop_eq. apply Nat.ltb_lt in Wp. rewrite Wp.
        rewrite (expr_mono (S (cost r)) (f + S (cost r)) _ _ _ ltac:(lia) Hr).
        apply (loop_mono f); [lia|exact H]. }
      assert (Ol : lhs_ok l (TInfix op :: flatten r ++ rest)) by (destruct l; cbn; auto).
      pose proof (IHl rbp _ res _ Wl Ol Hl) as G.
      apply (expr_mono _ (f + cost (Bin op l r))) in G; [exact G|].
      unfold cost. cbn [flatten]. rewrite !app_length. cbn [List.length]. lia.
    - cbn [Pratt.wfr] in W. cbn [flatten app].
      assert (Hu : expr (S (cost u)) (pprec op - 1) (flatten u ++ rest) = Some (u, rest)).
      { replace (S (cost u)) with (1 + cost u) by lia. apply IHu; [exact W| |apply loop_stops; apply lbp_le_prefix].
        destruct u as [|op2 u1 u2|]; cbn; auto. destruct W as [W1 _]. pose proof (prefix_tightest op op2). lia. }
      unfold cost. cbn [flatten List.length]. replace (f + 2 * S (List.length (flatten u))) with (S (S (f + cost u))) by (unfold cost; lia).
      rewrite expr_eq.
      rewrite (expr_mono (S (cost u)) (S (f + cost u)) _ _ _ ltac:(lia) Hu).
      apply (loop_mono f); [lia|exact H].
  Qed.

  Theorem pratt_complete t : wfr 0 t -> parse prec rassoc pprec (flatten t) = Some t.
  Proof.
    intros W. unfold parse.
    assert (O : lhs_ok t []) by (destruct t; cbn; auto; lia).
    pose proof (spine t 0 [] (t, []) 1 W O (loop_stops 0 0 t [] ltac:(cbn; lia))) as H.
    rewrite app_nil_r in H.
    rewrite (expr_mono (1 + cost t) (2 * List.length (flatten t) + 2) _ _ _ ltac:(unfold cost; lia) H). reflexivity.
  Qed.

  Theorem pratt_sound ts t : parse prec rassoc pprec ts = Some t -> flatten t = ts /\ wfr 0 t.
  Proof.
    unfold parse. destruct (expr (2 * List.length ts + 2) 0 ts) as [[t' rest]|] eqn:E; [|discriminate].
    destruct rest; [|discriminate]. intros H; inversion H; subst t'.
    destruct (proj1 (sound_mutual _) _ _ _ _ E) as [E1 [W _]]. rewrite app_nil_r in E1. auto.
  Qed.

  Theorem wf_unique t1 t2 : wfr 0 t1 -> wfr 0 t2 -> flatten t1 = flatten t2 -> t1 = t2.
  Proof.
    intros W1 W2 E. pose proof (pratt_complete t1 W1) as P1. pose proof (pratt_complete t2 W2) as P2.
    rewrite E in P1. congruence.
  Qed.
End T.
