(* C01 / C02 end to end on the affine fragment: for a model all of whose constraints and objective are affine after
   the pre-processing rewrites, `compile` returns a linear model with exactly the source's feasible set over the
   declared variables and exactly the source's objective.  This is the full projection statement of Props/C01.v
   (no auxiliary variable is created on this fragment, so the projection is the identity) through every stage of
   `compile`: domain tightening, flatten / simplify, the logic-constraint test, Exp::linearize, the main loop with its
   step bound, row-name de-duplication, variable sorting, coefficient extraction and the published domains. *)
From Coq Require Import QArith Qreals Reals ZArith Bool List String Lra Lia Permutation Sorting.Sorted.
From Rooc Require Import Base.XQ Model.Exp Model.Sem Model.Flatten Model.Simplify Model.Bounds Model.Linearize Model.Spec
  Proof.XQFacts Proof.SemFacts Proof.AListFacts Proof.AffineSound Proof.LinAffine Proof.LinFrame Proof.WellFormed
  Proof.SimplifyMain Proof.FlattenSound Proof.PublishedCompile Proof.TightenSound Proof.ShrinkSound.
Import ListNotations.
Local Close Scope Q_scope.
Local Open Scope R_scope.
Local Open Scope list_scope.

(* ---------- keys of a linear context: duplicate-free and drawn from the expression's variables *)
Definition ckeys (c : lctx) : list string := map fst (l_vars c).
Definition ctx_ok (A : list string) (c : lctx) : Prop := NoDup (ckeys c) /\ incl (ckeys c) A.

Lemma keys_insert_present {V} (m : list (string * V)) k v : al_mem m k = true -> map fst (al_insert m k v) = map fst m.
Proof.
  unfold al_mem. induction m as [|[k' v'] r IH]; cbn [al_get al_insert map fst]; [discriminate|].
  destruct (String.eqb k k') eqn:E; cbn [map fst].
  - apply String.eqb_eq in E. subst. reflexivity.
  - intros H. rewrite IH by exact H. reflexivity.
Qed.
Lemma al_get_mem {V} (m : list (string * V)) k : al_mem m k = match al_get m k with Some _ => true | None => false end.
Proof. reflexivity. Qed.
Lemma al_get_None_notin {V} (m : list (string * V)) k : al_get m k = None -> ~ In k (map fst m).
Proof. intros H. apply al_mem_false_notin. rewrite al_get_mem, H. reflexivity. Qed.

Lemma add_var_ok A c n m : ctx_ok A c -> In n A -> ctx_ok A (l_add_var c n m).
Proof.
  intros [ND IN] Hn. unfold l_add_var, ctx_ok, ckeys. destruct (al_get (l_vars c) n) as [v|] eqn:G; cbn [l_vars].
  - rewrite keys_insert_present by (rewrite al_get_mem, G; reflexivity). split; assumption.
  - rewrite map_app. cbn [map fst]. split.
    + apply NoDup_snoc; [exact ND|apply al_get_None_notin; exact G].
    + intros k Hk. apply in_app_or in Hk as [Hk|[<-|[]]]; [apply IN; exact Hk|exact Hn].
Qed.
Lemma add_rhs_ok A c r : ctx_ok A c -> ctx_ok A (l_add_rhs c r).
Proof. intros H. exact H. Qed.
Lemma new_ok A : ctx_ok A l_new.
Proof. split; [constructor|intros k []]. Qed.
Lemma fold_add_ok A (f : xq -> xq) : forall l acc, ctx_ok A acc -> incl (map fst l) A ->
  ctx_ok A (fold_left (fun acc p => l_add_var acc (fst p) (f (snd p))) l acc).
Proof.
  induction l as [|[n m] l IH]; intros acc Hacc Hl; cbn [fold_left fst snd]; [exact Hacc|].
  apply IH; [apply add_var_ok; [exact Hacc|apply Hl; left; reflexivity]|intros k Hk; apply Hl; right; exact Hk].
Qed.
Lemma merge_add_ok A a b : ctx_ok A a -> ctx_ok A b -> ctx_ok A (l_merge_add a b).
Proof. intros Ha [_ Hb]. unfold l_merge_add. apply add_rhs_ok. apply (fold_add_ok A (fun x => x)); assumption. Qed.
Lemma merge_sub_ok A a b : ctx_ok A a -> ctx_ok A b -> ctx_ok A (l_merge_sub a b).
Proof. intros Ha [_ Hb]. unfold l_merge_sub. apply add_rhs_ok. apply (fold_add_ok A xq_neg); assumption. Qed.
Lemma mul_by_ok A a m : ctx_ok A a -> ctx_ok A (l_mul_by a m).
Proof. intros H. unfold ctx_ok, ckeys, l_mul_by. cbn [l_vars]. rewrite map_map. cbn [fst]. exact H. Qed.
Lemma div_by_ok A a m : ctx_ok A a -> ctx_ok A (l_div_by a m).
Proof. intros H. unfold ctx_ok, ckeys, l_div_by. cbn [l_vars]. rewrite map_map. cbn [fst]. exact H. Qed.

(* the variables of an affine expression *)
Fixpoint avars (e : exp) : list string :=
  match e with
  | Var n => [n]
  | BinOp _ a b => avars a ++ avars b
  | UnOp _ x => avars x
  | _ => []
  end.

Lemma lin_affine_keys : forall n e r s c s' A,
  affine e = true -> lin n e r s = inr (c, s') -> incl (avars e) A -> ctx_ok A c.
Proof.
  induction n as [|n IH]; intros e r s c s' A Ha H HA; [discriminate|].
  cbn [lin] in H. destruct e; cbn [affine] in Ha; try discriminate; cbn [lin_step] in H.
  - inversion H; subst. unfold l_from_rhs. apply add_rhs_ok, new_ok.
  - inversion H; subst. unfold l_from_var. apply add_var_ok; [apply new_ok|apply HA; left; reflexivity].
  - cbn [avars] in HA.
    assert (HA1 : incl (avars e1) A) by (intros k Hk; apply HA; apply in_or_app; left; exact Hk).
    assert (HA2 : incl (avars e2) A) by (intros k Hk; apply HA; apply in_or_app; right; exact Hk).
    destruct op; try discriminate.
    + apply andb_true_iff in Ha as [A1 A2]. unfold bind in H.
      destruct (lin n e1 r s) as [e|[la s1]] eqn:E1; [discriminate|].
      destruct (lin n e2 r s1) as [e|[lb s2]] eqn:E2; [discriminate|]. inversion H; subst.
      apply merge_add_ok; [exact (IH _ _ _ _ _ A A1 E1 HA1)|exact (IH _ _ _ _ _ A A2 E2 HA2)].
    + apply andb_true_iff in Ha as [A1 A2]. unfold bind in H.
      destruct (lin n e1 r s) as [e|[la s1]] eqn:E1; [discriminate|].
      destruct (lin n e2 (req_reversed r) s1) as [e|[lb s2]] eqn:E2; [discriminate|]. inversion H; subst.
      apply merge_sub_ok; [exact (IH _ _ _ _ _ A A1 E1 HA1)|exact (IH _ _ _ _ _ A A2 E2 HA2)].
    + destruct e1; cbn [as_num] in Ha;
        try (destruct e2; cbn [as_num] in Ha; try discriminate;
             destruct (xq_is_zero x) eqn:Z; [inversion H; subst; unfold l_from_rhs; apply add_rhs_ok, new_ok|];
             cbn [orb] in Ha; unfold bind in H;
             match type of H with context [lin n ?a ?rq s] => destruct (lin n a rq s) as [er|[v s1]] eqn:E1; [discriminate|] end;
             inversion H; subst; apply mul_by_ok; exact (IH _ _ _ _ _ A Ha E1 HA1)).
      destruct (xq_is_zero x) eqn:Z; [inversion H; subst; unfold l_from_rhs; apply add_rhs_ok, new_ok|].
      cbn [orb] in Ha. unfold bind in H.
      destruct (lin n e2 (through_scale r x) s) as [er|[v s1]] eqn:E1; [discriminate|].
      inversion H; subst. apply mul_by_ok. exact (IH _ _ _ _ _ A Ha E1 HA2).
    + destruct e2; cbn [as_num] in Ha; try discriminate.
      destruct (xq_is_zero x); [discriminate|]. unfold bind in H.
      destruct (lin n e1 (through_scale r (xq_div (Fin 1%Q) x)) s) as [er|[v s1]] eqn:E1; [discriminate|].
      inversion H; subst. apply div_by_ok. exact (IH _ _ _ _ _ A Ha E1 HA1).
  - destruct op; try discriminate. unfold bind in H.
    destruct (lin n e (req_reversed r) s) as [er|[v s1]] eqn:E1; [discriminate|].
    inversion H; subst. apply mul_by_ok. exact (IH _ _ _ _ _ A Ha E1 HA).
Qed.

(* ---------- the pre-processing rewrites, as a pure function *)
Definition fs_pure (e : exp) : option exp := match flatten e with None => None | Some f => simplify f end.
Lemma flatten_simplify_eq e s :
  flatten_simplify e s = match fs_pure e with Some x => inr (x, s) | None => inl EFuel end.
Proof. unfold flatten_simplify, fs_pure. destruct (flatten e) as [f|]; [|reflexivity]. destruct (simplify f); reflexivity. Qed.
Lemma fs_pure_sound rho e e' v : fs_pure e = Some e' -> evT rho e = Some v -> evT rho e' = Some v /\ ev rho e' = Some v.
Proof.
  unfold fs_pure. destruct (flatten e) as [f|] eqn:F; [|discriminate]. intros S Hv.
  apply (simplify_sound_typed rho f e' v S). exact (flatten_sound_typed rho e f v F Hv).
Qed.

(* an affine constraint: not an assertion, not taken by the logic-constraint test, affine once rewritten, over the
   variable set U.  D is the linearizer's domain map (which the logic-constraint test reads). *)
Definition aff_constr (D : list (string * dvar)) (U : list string) (c : constr) : Prop :=
  c_assert c = false /\
  exists l r e, fs_pure (c_lhs c) = Some l /\ fs_pure (c_rhs c) = Some r /\
    (forall s, s_dom s = D -> try_normalize_logic_constraint s l (c_cmp c) r = None) /\
    fs_pure (BinOp Sub l r) = Some e /\ affine e = true /\ incl (avars e) U.

(* what the emitted row says *)
Definition row_of (U : list string) (c : constr) (row : midrow) : Prop :=
  r_name row = c_name c /\ r_cmp row = c_cmp c /\ NoDup (map fst (r_lhs row)) /\ incl (map fst (r_lhs row)) U /\
  forall rho a b, evT rho (c_lhs c) = Some a -> evT rho (c_rhs c) = Some b ->
    cs_fin (r_lhs row) /\ fin (r_rhs row) /\ cs_val rho (r_lhs row) - cval (r_rhs row) = a - b.

Lemma process_affine D U c s u s' :
  aff_constr D U c -> s_dom s = D -> process_constraint c s = inr (u, s') ->
  exists row, s' = mkS (s_queue s) (s_rows s ++ [row]) (s_cnt s) (s_dom s) (s_an s) /\ row_of U c row.
Proof.
  intros [NA [l [r [e [Fl [Fr [TN [Fe [Af Av]]]]]]]]] HD H.
  unfold process_constraint, bind in H. rewrite flatten_simplify_eq, Fl in H. rewrite flatten_simplify_eq, Fr in H.
  rewrite NA in H. unfold get_st in H. rewrite (TN s HD) in H.
  unfold emit_constraint, bind in H. rewrite flatten_simplify_eq, Fe in H.
  unfold linearize_exp in H.
  match type of H with context [lin ?n e ?rq s] => destruct (lin n e rq s) as [er|[v s1]] eqn:EL; [discriminate|] end.
  assert (s1 = s) as -> by (eapply (lin_affine_sound (fun _ => 0)); eassumption).
  unfold push_row in H. inversion H; subst s'; clear H.
  eexists. split; [reflexivity|]. unfold row_of. cbn [r_name r_cmp r_lhs r_rhs].
  destruct (lin_affine_keys _ _ _ _ _ _ U Af EL Av) as [ND IN].
  split; [reflexivity|]. split; [reflexivity|]. split; [exact ND|]. split; [exact IN|].
  intros rho a b Ha Hb.
  destruct (fs_pure_sound rho _ _ _ Fl Ha) as [Tl _]. destruct (fs_pure_sound rho _ _ _ Fr Hb) as [Tr _].
  assert (Ts : evT rho (BinOp Sub l r) = Some (a - b)).
  { unfold evT in *. rewrite evg_BinOp, Tl, Tr. reflexivity. }
  destruct (fs_pure_sound rho _ _ _ Fe Ts) as [_ Ee].
  destruct (lin_affine_sound rho _ _ _ _ _ _ Af EL) as [_ Hval]. destruct (Hval _ Ee) as [[F1 F2] V].
  destruct (fin_neg (l_rhs v) F2) as [Fn Vn].
  split; [exact F1|]. split; [exact Fn|]. rewrite Vn. unfold ctx_val in V. lra.
Qed.

(* ---------- the main loop on a queue of affine constraints *)
Lemma main_loop_affine D U : forall fuel s s2 u,
  Forall (aff_constr D U) (s_queue s) -> s_dom s = D -> main_loop fuel s = inr (u, s2) ->
  exists rows, s_rows s2 = s_rows s ++ rows /\ s_dom s2 = D /\ Forall2 (row_of U) (s_queue s) rows.
Proof.
  induction fuel as [|fuel IH]; intros s s2 u Hq HD H; [discriminate|].
  cbn [main_loop] in H. destruct (s_queue s) as [|c rest] eqn:Q.
  - injection H as _ Es. subst s2. exists []. rewrite app_nil_r. split; [reflexivity|]. split; [exact HD|constructor].
  - inversion Hq as [|c0 r0 Hc Hrest Ecr]. clear Ecr.
    destruct (process_constraint c (mkS rest (s_rows s) (s_cnt s) (s_dom s) (s_an s))) as [er|[u1 s1]] eqn:P; [discriminate|].
    destruct (process_affine D U c (mkS rest (s_rows s) (s_cnt s) (s_dom s) (s_an s)) u1 s1 Hc HD P) as [row [E1 Hrow]]. cbn [s_queue s_rows s_cnt s_dom s_an] in E1.
    destruct (IH s1 s2 u) as [rows [E2 [D2 F2]]]; [rewrite E1; exact Hrest|rewrite E1; exact HD|exact H|].
    exists (row :: rows). rewrite E2, E1. cbn [s_rows s_queue]. rewrite <- app_assoc. cbn [app].
    split; [reflexivity|]. split; [exact D2|]. constructor; [exact Hrow|]. rewrite E1 in F2. exact F2.
Qed.

(* ---------- row-name de-duplication touches names only *)
Definition core (r : midrow) : list (string * xq) * xq * cmp := (r_lhs r, r_rhs r, r_cmp r).
Lemma dedup_names_cores rows : map core (dedup_names rows) = map core rows.
Proof.
  unfold dedup_names.
  set (src := fold_left _ rows []). set (fuel := (2 * List.length rows + 4)%nat). clearbody src fuel.
  match goal with |- context [fold_left ?f rows ([], [])] => set (step := f) end.
  assert (G : forall rs out assigned, map core (fst (fold_left step rs (out, assigned))) = map core out ++ map core rs).
  { induction rs as [|r rs IH]; intros out assigned; cbn [fold_left]; [rewrite app_nil_r; reflexivity|].
    unfold step at 2. destruct (String.eqb (r_name r) ""); [|destruct (negb (set_mem assigned (r_name r)))];
      rewrite IH, map_app, <- app_assoc; reflexivity. }
  rewrite G. reflexivity.
Qed.

(* ---------- coefficient extraction is the row's value *)
Lemma xval_cval x : xval x = cval x.
Proof. destruct x; reflexivity. Qed.
Lemma extract_is_getc m vars : extract_coeffs m vars = map (getc m) vars.
Proof. reflexivity. Qed.
Lemma dot_map_zero (g : string -> xq) sigma : forall vars, (forall v, In v vars -> cval (g v) = 0) -> dot (map g vars) vars sigma = 0.
Proof.
  induction vars as [|v vars IH]; intros H; [reflexivity|]. cbn [map dot]. rewrite xval_cval, (H v (or_introl eq_refl)).
  rewrite IH by (intros w Hw; apply H; right; exact Hw). lra.
Qed.
Lemma dot_point (g : string -> xq) k c sigma : forall vars, NoDup vars -> In k vars ->
  dot (map (fun v => if String.eqb v k then c else g v) vars) vars sigma
  = cval c * sigma k + dot (map g vars) vars sigma - cval (g k) * sigma k.
Proof.
  induction vars as [|v vars IH]; intros ND Hin; [destruct Hin|]. inversion ND as [|? ? Nv ND']; subst.
  cbn [map dot]. rewrite !xval_cval. destruct (String.eqb v k) eqn:E.
  - apply String.eqb_eq in E. subst v.
    assert (Same : map (fun v => if String.eqb v k then c else g v) vars = map g vars).
    { apply map_ext_in. intros w Hw. destruct (String.eqb w k) eqn:E2; [apply String.eqb_eq in E2; subst w; contradiction|reflexivity]. }
    rewrite Same. rewrite ?(xval_cval (g k)). ring.
  - destruct Hin as [->|Hin]; [rewrite String.eqb_refl in E; discriminate|]. rewrite (IH ND' Hin). rewrite ?(xval_cval (g v)). ring.
Qed.
Lemma dot_extract sigma : forall m vars, NoDup (map fst m) -> incl (map fst m) vars -> NoDup vars ->
  dot (extract_coeffs m vars) vars sigma = cs_val sigma m.
Proof.
  induction m as [|[k c] m IH]; intros vars ND IN NDv; rewrite extract_is_getc.
  - cbn [cs_val]. apply dot_map_zero. intros v _. unfold getc. cbn. apply Q2R_0.
  - cbn [map fst] in ND, IN. inversion ND as [|? ? Nk ND']; subst.
    assert (Hk : In k vars) by (apply IN; left; reflexivity).
    assert (E : map (getc ((k, c) :: m)) vars = map (fun v => if String.eqb v k then c else getc m v) vars).
    { apply map_ext. intros v. unfold getc. cbn [al_get]. destruct (String.eqb v k); reflexivity. }
    rewrite E, (dot_point (getc m) k c sigma vars NDv Hk). rewrite <- extract_is_getc.
    rewrite (IH vars ND' (fun x Hx => IN x (or_intror Hx)) NDv).
    assert (Z : cval (getc m k) = 0).
    { unfold getc. destruct (al_get m k) eqn:G; [|cbn; apply Q2R_0]. exfalso. apply Nk. apply al_get_In in G.
      apply in_map_iff. exists (k, x). split; [reflexivity|exact G]. }
    rewrite Z. cbn [cs_val]. ring.
Qed.

(* ---------- plain arithmetic source expressions: typed and untyped evaluation agree and never fail *)
Fixpoint plain (e : exp) : bool :=
  match e with
  | Num (Fin _) => true
  | Var _ => true
  | BinOp Add a b | BinOp Sub a b | BinOp Mul a b => plain a && plain b
  | BinOp Div a (Num (Fin q)) => plain a && negb (q_eqb q 0)
  | UnOp Neg x => plain x
  | _ => false
  end.
Lemma plain_total rho : forall e, plain e = true -> exists v, evT rho e = Some v /\ ev rho e = Some v.
Proof.
  induction e; cbn [plain]; intros H; try discriminate.
  - destruct x; try discriminate. eexists. split; reflexivity.
  - eexists. split; reflexivity.
  - destruct op; try discriminate.
    + apply andb_true_iff in H as [H1 H2]. destruct (IHe1 H1) as [a [Ta Ea]]. destruct (IHe2 H2) as [b [Tb Eb]].
      exists (a + b). unfold evT, ev in *. rewrite !evg_BinOp, Ta, Tb, Ea, Eb. split; reflexivity.
    + apply andb_true_iff in H as [H1 H2]. destruct (IHe1 H1) as [a [Ta Ea]]. destruct (IHe2 H2) as [b [Tb Eb]].
      exists (a - b). unfold evT, ev in *. rewrite !evg_BinOp, Ta, Tb, Ea, Eb. split; reflexivity.
    + apply andb_true_iff in H as [H1 H2]. destruct (IHe1 H1) as [a [Ta Ea]]. destruct (IHe2 H2) as [b [Tb Eb]].
      exists (a * b). unfold evT, ev in *. rewrite !evg_BinOp, Ta, Tb, Ea, Eb. split; reflexivity.
    + destruct e2; try discriminate. destruct x; try discriminate. apply andb_true_iff in H as [H1 H2].
      destruct (IHe1 H1) as [a [Ta Ea]]. apply negb_true_iff in H2. apply q_eqb_false in H2. rewrite Q2R_0 in H2.
      exists (a / Q2R q). unfold evT, ev in *. rewrite !evg_BinOp, Ta, Ea. cbn [evg ev_binop].
      destruct (Req_EM_T (Q2R q) 0) as [Z|Z]; [contradiction|]. split; reflexivity.
  - destruct op; try discriminate. destruct (IHe H) as [a [Ta Ea]]. exists (- a). unfold evT, ev in *.
    cbn [evg]. rewrite Ta, Ea. split; reflexivity.
Qed.

(* ---------- the whole of compile *)
Definition cdom (m : model) : list (string * dvar) :=
  map (fun p => (fst p, mkDV (tighten_type (analyze (decl_types m) (m_constraints m)) (fst p) (dv_type (snd p))) (dv_used (snd p)))) (m_domain m).

Record affine_model (m : model) : Prop := mkAM {
  am_wf : wf_domain m;
  am_used : forall n d, In (n, d) (m_domain m) -> dv_used d = true;
  am_plain_c : forall c, In c (m_constraints m) -> plain (c_lhs c) = true /\ plain (c_rhs c) = true;
  am_plain_o : plain (m_obj m) = true;
  am_aff_c : Forall (aff_constr (cdom m) (map fst (m_domain m))) (m_constraints m);
  am_aff_o : exists o, fs_pure (m_obj m) = Some o /\ affine o = true /\ incl (avars o) (map fst (m_domain m));
  (* declared bounds are not NaN and integer ranges fit i32 (what the front ends produce) *)
  am_decl_ok : forall n d, In (n, d) (m_domain m) -> decl_ok (dv_type d) }.

(* the published (tightened) type of a declared variable lies inside its declared type: the analysis only shrinks *)
Lemma am_shrink m : affine_model m -> forall n d x, In (n, d) (m_domain m) ->
  in_dom (tighten_type (analyze (decl_types m) (m_constraints m)) n (dv_type d)) x -> in_dom (dv_type d) x.
Proof.
  intros AM n d x Hin. destruct (am_wf m AM) as [ND _].
  apply (published_inside_declared (decl_types m) (m_constraints m) n (dv_type d) x).
  - unfold decl_types. rewrite map_map. exact ND.
  - intros k t' Hk. unfold decl_types in Hk. apply in_map_iff in Hk as [[k0 d0] [E Hk]]. inversion E; subst. exact (am_decl_ok m AM _ _ Hk).
  - unfold decl_types. apply in_map_iff. exists (n, d). split; [reflexivity|exact Hin].
Qed.

Lemma filter_all {A} (p : A -> bool) : forall l, (forall x, In x l -> p x = true) -> filter p l = l.
Proof.
  induction l as [|x l IH]; intros H; [reflexivity|]. cbn [filter]. rewrite (H x (or_introl eq_refl)).
  f_equal. apply IH. intros y Hy. apply H. right. exact Hy.
Qed.
Lemma cmp_shift c x y a b : x - y = a - b -> (cmp_holds c x y <-> cmp_holds c a b).
Proof. intros E. destruct c; cbn [cmp_holds]; split; intros H; lra. Qed.
Lemma Forall2_in_left {A B} (Q : A -> B -> Prop) l m a : Forall2 Q l m -> In a l -> exists b, In b m /\ Q a b.
Proof.
  induction 1 as [|x y l m Hxy _ IH]; intros Hin; [destruct Hin|]. destruct Hin as [->|Hin]; [exists y; split; [left; reflexivity|exact Hxy]|].
  destruct (IH Hin) as [b [Hb Qb]]. exists b. split; [right; exact Hb|exact Qb].
Qed.
Lemma Forall2_in_right {A B} (Q : A -> B -> Prop) l m b : Forall2 Q l m -> In b m -> exists a, In a l /\ Q a b.
Proof.
  induction 1 as [|x y l m Hxy _ IH]; intros Hin; [destruct Hin|]. destruct Hin as [<-|Hin]; [exists x; split; [left; reflexivity|exact Hxy]|].
  destruct (IH Hin) as [a [Ha Qa]]. exists a. split; [right; exact Ha|exact Qa].
Qed.

Theorem compile_affine_equiv m L : affine_model m -> compile m = inr L ->
  (forall rho, sat_model m rho <-> sat_linear L rho) /\
  (forall rho v, ev rho (m_obj m) = Some v -> lin_objective L rho = v).
Proof.
  intros AM HC. pose proof (am_shrink m AM) as Hshr.
  destruct AM as [[ND Hwf] Hused Hpc Hpo Hac [o [Fo [Ao Vo]]] _].
  pose proof HC as HC0.
  unfold compile in HC. cbv zeta in HC.
  change (map (fun p : string * dvar => (fst p, dv_type (snd p))) (m_domain m)) with (decl_types m) in HC.
  set (an := analyze (decl_types m) (m_constraints m)) in *.
  change (map (fun p : string * dvar => (fst p, mkDV (tighten_type an (fst p) (dv_type (snd p))) (dv_used (snd p)))) (m_domain m)) with (cdom m) in HC.
  match type of HC with context [mkS (m_constraints m) [] [] (cdom m) ?a] => set (an' := a) in HC end.
  set (s0 := mkS (m_constraints m) [] [] (cdom m) an') in HC.
  unfold bind in HC. rewrite flatten_simplify_eq, Fo in HC. unfold linearize_exp in HC.
  match type of HC with context [lin ?n o ?rq s0] => destruct (lin n o rq s0) as [er|[lobj s1]] eqn:EL; [discriminate|] end.
  assert (s1 = s0) as -> by (eapply (lin_affine_sound (fun _ => 0)); eassumption).
  match type of HC with context [main_loop ?f s0] => destruct (main_loop f s0) as [er|[u s2]] eqn:EM; [discriminate|] end.
  destruct (main_loop_affine (cdom m) (map fst (m_domain m)) _ s0 s2 u Hac eq_refl EM) as [rows [ER [ED F2]]].
  cbn [s_rows s_queue s0 app] in ER, F2.
  injection HC as HL. rewrite ER, ED in HL.
  (* the variable list *)
  set (U := map fst (m_domain m)) in *.
  assert (Hfil : filter (fun p : string * dvar => dv_used (snd p)) (cdom m) = cdom m).
  { apply filter_all. intros [n d] Hin. unfold cdom in Hin. apply in_map_iff in Hin as [[n0 d0] [E Hin]]. inversion E; subst. cbn [snd dv_used]. exact (Hused _ _ Hin). }
  assert (Hkeys : map fst (cdom m) = U) by (unfold cdom, U; rewrite map_map; reflexivity).
  set (vars := sort_strings (map fst (filter (fun p : string * dvar => dv_used (snd p)) (cdom m)))) in *.
  assert (Pv : Permutation U vars) by (unfold vars; rewrite Hfil, Hkeys; apply sort_strings_perm).
  assert (NDv : NoDup vars) by (eapply Permutation_NoDup; [exact Pv|exact ND]).
  assert (Uv : incl U vars) by (intros k Hk; eapply Permutation_in; [exact Pv|exact Hk]).
  assert (vU : incl vars U) by (intros k Hk; eapply Permutation_in; [apply Permutation_sym; exact Pv|exact Hk]).
  assert (Hfd : filter (fun p : string * dvar => set_mem vars (fst p)) (cdom m) = cdom m).
  { apply filter_all. intros [n d] Hin. cbn [fst]. apply set_mem_In. apply Uv. rewrite <- Hkeys. apply in_map_iff. exists (n, d). split; [reflexivity|exact Hin]. }
  rewrite Hfd in HL.
  (* the rows of L are the rows of the loop, names aside *)
  assert (HrA : forall r, In r (lm_rows L) -> exists mr, In mr rows /\ lr_coeffs r = extract_coeffs (r_lhs mr) vars /\ lr_cmp r = r_cmp mr /\ lr_rhs r = r_rhs mr).
  { intros r. rewrite <- HL. cbn [lm_rows]. intros Hr. apply in_map_iff in Hr as [dr [<- Hdr]]. cbn [lr_coeffs lr_cmp lr_rhs].
    assert (Hc : In (core dr) (map core rows)) by (rewrite <- dedup_names_cores; apply in_map; exact Hdr).
    apply in_map_iff in Hc as [mr [Ec Hmr]]. exists mr. unfold core in Ec. inversion Ec. split; [exact Hmr|]. repeat split; congruence. }
  assert (HrB : forall mr, In mr rows -> exists r, In r (lm_rows L) /\ lr_coeffs r = extract_coeffs (r_lhs mr) vars /\ lr_cmp r = r_cmp mr /\ lr_rhs r = r_rhs mr).
  { intros mr Hmr. rewrite <- HL. cbn [lm_rows].
    assert (Hc : In (core mr) (map core (dedup_names rows))) by (rewrite dedup_names_cores; apply in_map; exact Hmr).
    apply in_map_iff in Hc as [dr [Ec Hdr]]. unfold core in Ec. inversion Ec.
    eexists. split; [apply in_map; exact Hdr|]. cbn [lr_coeffs lr_cmp lr_rhs]. repeat split; congruence. }
  assert (Hvars : lm_vars L = vars) by (rewrite <- HL; reflexivity).
  assert (Hdom : lm_domain L = map (fun p : string * dvar => (fst p, dv_type (snd p))) (cdom m)) by (rewrite <- HL; reflexivity).
  (* a row of the loop at an assignment *)
  assert (Hsem : forall c mr rho a b, row_of U c mr -> ev rho (c_lhs c) = Some a -> ev rho (c_rhs c) = Some b ->
             plain (c_lhs c) = true -> plain (c_rhs c) = true ->
             (cmp_holds (r_cmp mr) (dot (extract_coeffs (r_lhs mr) vars) vars rho) (xval (r_rhs mr)) <-> cmp_holds (c_cmp c) a b)).
  { intros c mr rho a b [_ [Ecmp [NDk [INk Hval]]]] Ea Eb Pa Pb.
    destruct (plain_total rho _ Pa) as [a' [Ta Ea']]. destruct (plain_total rho _ Pb) as [b' [Tb Eb']].
    rewrite Ea in Ea'. rewrite Eb in Eb'. inversion Ea'; inversion Eb'; subst a' b'.
    destruct (Hval rho a b Ta Tb) as [_ [_ V]].
    rewrite (dot_extract rho _ vars NDk (fun k Hk => Uv k (INk k Hk)) NDv), xval_cval, Ecmp.
    apply cmp_shift. exact V. }
  split.
  - intros rho. split.
    + (* source-feasible => linear-feasible *)
      intros Hsat. split.
      * intros r Hr. destruct (HrA r Hr) as [mr [Hmr [E1 [E2 E3]]]].
        destruct (Forall2_in_right _ _ _ _ F2 Hmr) as [c [Hc Hrow]].
        destruct Hsat as [_ Hcs]. destruct (Hcs c Hc) as [a [b [Ea [Eb Hab]]]].
        destruct (Hpc c Hc) as [Pa Pb].
        unfold row_holds. rewrite Hvars, E1, E2, E3. apply (Hsem c mr rho a b Hrow Ea Eb Pa Pb). exact Hab.
      * intros n t Hin. rewrite Hdom in Hin. apply in_map_iff in Hin as [[n0 dv] [E Hin]]. cbn [fst snd] in E. inversion E; subst n0 t; clear E.
        unfold cdom in Hin. apply in_map_iff in Hin as [[n1 d] [E Hin]]. cbn [fst snd] in E. inversion E; subst n1 dv; clear E.
        apply (published_sound m L rho HC0 (conj ND Hwf) Hsat n d _ Hin).
        assert (NDl : NoDup (map fst (lm_domain L))).
        { rewrite Hdom, map_map. cbn [fst]. change (map (fun x : string * dvar => fst x) (cdom m)) with (map fst (cdom m)). rewrite Hkeys. exact ND. }
        assert (Hl : In (n, dv_type (mkDV (tighten_type an n (dv_type d)) (dv_used d))) (lm_domain L)).
        { rewrite Hdom. apply in_map_iff. exists (n, mkDV (tighten_type an n (dv_type d)) (dv_used d)). split; [reflexivity|].
          unfold cdom. apply in_map_iff. exists (n, d). split; [reflexivity|exact Hin]. }
        clear - NDl Hl. induction (lm_domain L) as [|[k v] l IH]; [destruct Hl|]. cbn [al_get]. cbn [map fst] in NDl. inversion NDl as [|? ? Nk NDl']; subst.
        destruct Hl as [E|Hl]; [inversion E; subst; rewrite String.eqb_refl; reflexivity|].
        destruct (String.eqb n k) eqn:Ek; [apply String.eqb_eq in Ek; subst k; exfalso; apply Nk; apply in_map_iff; eexists; split; [|exact Hl]; reflexivity|].
        apply IH; assumption.
    + (* linear-feasible => source-feasible *)
      intros [Hrws Hdm]. split.
      * intros n t Hin. unfold decl_types in Hin. apply in_map_iff in Hin as [[n0 d] [E Hin]]. cbn [fst snd] in E. inversion E; subst n0 t; clear E.
        apply (Hshr n d (rho n) Hin). apply (Hdm n). rewrite Hdom. apply in_map_iff.
        exists (n, mkDV (tighten_type an n (dv_type d)) (dv_used d)). split; [reflexivity|].
        unfold cdom. apply in_map_iff. exists (n, d). split; [reflexivity|exact Hin].
      * intros c Hc. destruct (Forall2_in_left _ _ _ _ F2 Hc) as [mr [Hmr Hrow]].
        destruct (HrB mr Hmr) as [r [Hr [E1 [E2 E3]]]].
        destruct (Hpc c Hc) as [Pa Pb].
        destruct (plain_total rho _ Pa) as [a [_ Ea]]. destruct (plain_total rho _ Pb) as [b [_ Eb]].
        exists a, b. split; [exact Ea|]. split; [exact Eb|].
        pose proof (Hrws r Hr) as Hh. unfold row_holds in Hh. rewrite Hvars, E1, E2, E3 in Hh.
        apply (Hsem c mr rho a b Hrow Ea Eb Pa Pb). exact Hh.
  - (* the objective *)
    intros rho v Ev.
    destruct (plain_total rho _ Hpo) as [v' [Tv Ev']]. rewrite Ev in Ev'. inversion Ev'; subst v'.
    destruct (fs_pure_sound rho _ _ _ Fo Tv) as [_ Eo].
    destruct (lin_affine_sound rho _ _ _ _ _ _ Ao EL) as [_ Hval]. destruct (Hval _ Eo) as [_ V].
    destruct (lin_affine_keys _ _ _ _ _ _ U Ao EL Vo) as [NDk INk].
    unfold lin_objective. rewrite <- HL. cbn [lm_objective lm_vars lm_offset].
    rewrite (dot_extract rho _ vars NDk (fun k Hk => Uv k (INk k Hk)) NDv), xval_cval. exact V.
Qed.

(* the projection form of Props/C01.v on this fragment (the same assignment serves on both sides) *)
Corollary compile_affine_projection m L (used : list string) : affine_model m -> compile m = inr L ->
  forall rho : string -> R,
    (exists rho', agree_on used rho rho' /\ sat_model m rho') <-> (exists sigma, agree_on used rho sigma /\ sat_linear L sigma).
Proof.
  intros AM HC rho. destruct (compile_affine_equiv m L AM HC) as [Eq _].
  split; intros [r [A S]]; exists r; (split; [exact A|]); apply Eq; exact S.
Qed.

(* ---------- the premises are met: two bounded reals, a <= row with a product, a >= row with a negative constant, max *)
Local Open Scope string_scope.
Definition m0 : model :=
  mkModel DMax (BinOp Add (Var "x") (Var "y"))
    [mkConstr "cap" (BinOp Add (Var "x") (BinOp Mul (Num (Fin 2%Q)) (Var "y"))) Le (Num (Fin 8%Q)) false;
     mkConstr "" (BinOp Sub (Var "x") (Var "y")) Ge (Num (Fin (-2)%Q)) false]
    [("x", mkDV (TReal (Fin 0%Q) (Fin 10%Q)) true); ("y", mkDV (TReal (Fin 0%Q) (Fin 5%Q)) true)].
Example m0_affine : affine_model m0.
Proof.
  constructor.
  - split; [repeat constructor; cbn; intuition discriminate|]. intros n d [E|[E|[]]]; inversion E; subst; exact I.
  - intros n d [E|[E|[]]]; inversion E; subst; reflexivity.
  - intros c [<-|[<-|[]]]; split; reflexivity.
  - reflexivity.
  - constructor; [|constructor; [|constructor]].
    + split; [reflexivity|]. eexists _, _, _. split; [vm_compute; reflexivity|]. split; [vm_compute; reflexivity|].
      split; [intros s _; reflexivity|]. split; [vm_compute; reflexivity|]. split; [reflexivity|].
      intros k Hk. cbn in Hk. cbn. tauto.
    + split; [reflexivity|]. eexists _, _, _. split; [vm_compute; reflexivity|]. split; [vm_compute; reflexivity|].
      split; [intros s _; reflexivity|]. split; [vm_compute; reflexivity|]. split; [reflexivity|].
      intros k Hk. cbn in Hk. cbn. tauto.
  - eexists. split; [vm_compute; reflexivity|]. split; [reflexivity|]. intros k Hk. cbn in Hk. cbn. tauto.
  - intros n d [E|[E|[]]]; inversion E; subst; (split; [split; discriminate|exact I]).
Qed.
Example m0_compiles : exists L, compile m0 = inr L.
Proof. eexists. vm_compute. reflexivity. Qed.

(* ---------- a boolean decision of the premises (evaluated on every tied model to count how often the theorem applies) *)
Definition ext_le (a b : xq) : bool :=
  match a, b with
  | NaN, _ | _, NaN => false
  | NInf, _ => true
  | _, PInf => true
  | Fin p, Fin q => q_leb p q
  | _, _ => false
  end.
Lemma ext_le_lo l l' x : ext_le l l' = true -> xq_le_R l' x -> xq_le_R l x.
Proof.
  destruct l as [p| | |], l' as [q| | |]; cbn [ext_le xq_le_R]; intros H Hx; try discriminate; try exact I; try contradiction.
  apply q_leb_true in H. lra.
Qed.
Lemma ext_le_hi u' u x : ext_le u' u = true -> R_le_xq x u' -> R_le_xq x u.
Proof.
  destruct u' as [p| | |], u as [q| | |]; cbn [ext_le R_le_xq]; intros H Hx; try discriminate; try exact I; try contradiction.
  apply q_leb_true in H. lra.
Qed.
Definition decl_okb (t : vtype) : bool :=
  match t with
  | TBoolean => true
  | TIntegerRange l u => Z.leb i32_min l && Z.leb l i32_max && Z.leb i32_min u && Z.leb u i32_max
  | TNonNegativeReal l u | TReal l u => negb (xq_is_nan l) && negb (xq_is_nan u)
  end.
Lemma decl_okb_sound t : decl_okb t = true -> decl_ok t.
Proof.
  destruct t as [|l u|l u|l u]; cbn [decl_okb]; intros H.
  - split; [split; discriminate|exact I].
  - apply andb_true_iff in H as [H H4]. apply andb_true_iff in H as [H H3]. apply andb_true_iff in H as [H1 H2].
    apply Z.leb_le in H1, H2, H3, H4. split; [split; discriminate|lia].
  - apply andb_true_iff in H as [H1 H2]. split; [|exact I]. split; cbn [b_of_vtype lo hi]; intros E; subst; discriminate.
  - apply andb_true_iff in H as [H1 H2]. split; [|exact I]. split; cbn [b_of_vtype lo hi]; intros E; subst; discriminate.
Qed.
Definition type_sub (t' t : vtype) : bool :=
  match t', t with
  | TBoolean, TBoolean => true
  | TIntegerRange l' u', TIntegerRange l u => Z.leb l l' && Z.leb u' u
  | TReal l' u', TReal l u => ext_le l l' && ext_le u' u
  | TNonNegativeReal l' u', TNonNegativeReal l u => ext_le l l' && ext_le u' u
  | _, _ => false
  end.
Lemma type_sub_sound t' t x : type_sub t' t = true -> in_dom t' x -> in_dom t x.
Proof.
  destruct t' as [|l' u'|l' u'|l' u'], t as [|l u|l u|l u]; cbn [type_sub in_dom]; intros H Hx; try discriminate; try exact Hx.
  - apply andb_true_iff in H as [H1 H2]. apply Z.leb_le in H1. apply Z.leb_le in H2.
    destruct Hx as [z [-> [Z1 Z2]]]. exists z. split; [reflexivity|lia].
  - apply andb_true_iff in H as [H1 H2]. destruct Hx as [X0 [X1 X2]].
    split; [exact X0|]. split; [exact (ext_le_lo _ _ _ H1 X1)|exact (ext_le_hi _ _ _ H2 X2)].
  - apply andb_true_iff in H as [H1 H2]. destruct Hx as [X1 X2].
    split; [exact (ext_le_lo _ _ _ H1 X1)|exact (ext_le_hi _ _ _ H2 X2)].
Qed.

Fixpoint nodup_names (l : list string) : bool :=
  match l with [] => true | x :: r => negb (set_mem r x) && nodup_names r end.
Lemma nodup_names_sound l : nodup_names l = true -> NoDup l.
Proof.
  induction l as [|x r IH]; intros H; [constructor|]. cbn [nodup_names] in H. apply andb_true_iff in H as [H1 H2].
  constructor; [|exact (IH H2)]. intros I. apply set_mem_In in I. rewrite I in H1. discriminate.
Qed.
Definition wf_vtypeb (t : vtype) : bool :=
  match t with TIntegerRange l u => Z.leb i32_min l && Z.leb u i32_max | _ => true end.

Lemma is_logic_value_dom s s' : s_dom s = s_dom s' -> forall e, is_logic_value s e = is_logic_value s' e.
Proof.
  intros E. induction e; cbn [is_logic_value]; try reflexivity.
  - unfold is_boolean_var. rewrite E. reflexivity.
  - exact IHe.
  - destruct op; try reflexivity. exact IHe.
Qed.
Lemma try_normalize_dom s s' l c r : s_dom s = s_dom s' ->
  try_normalize_logic_constraint s l c r = try_normalize_logic_constraint s' l c r.
Proof. intros E. unfold try_normalize_logic_constraint. rewrite !(is_logic_value_dom s s' E). reflexivity. Qed.

Definition probe_state (D : list (string * dvar)) : lst := mkS [] [] [] D (from_domain []).
Definition aff_constrb (D : list (string * dvar)) (U : list string) (c : constr) : bool :=
  negb (c_assert c) &&
  match fs_pure (c_lhs c), fs_pure (c_rhs c) with
  | Some l, Some r =>
      match try_normalize_logic_constraint (probe_state D) l (c_cmp c) r with
      | None => match fs_pure (BinOp Sub l r) with
                | Some e => affine e && forallb (set_mem U) (avars e)
                | None => false
                end
      | Some _ => false
      end
  | _, _ => false
  end.
Lemma forallb_mem_incl U l : forallb (set_mem U) l = true -> incl l U.
Proof. intros H k Hk. apply set_mem_In. exact (proj1 (forallb_forall _ _) H k Hk). Qed.
Lemma aff_constrb_sound D U c : aff_constrb D U c = true -> aff_constr D U c.
Proof.
  unfold aff_constrb. intros H. apply andb_true_iff in H as [NA H]. apply negb_true_iff in NA.
  destruct (fs_pure (c_lhs c)) as [l|] eqn:Fl; [|discriminate]. destruct (fs_pure (c_rhs c)) as [r|] eqn:Fr; [|discriminate].
  destruct (try_normalize_logic_constraint (probe_state D) l (c_cmp c) r) eqn:TN; [discriminate|].
  destruct (fs_pure (BinOp Sub l r)) as [e|] eqn:Fe; [|discriminate]. apply andb_true_iff in H as [Af Av].
  split; [exact NA|]. exists l, r, e. split; [exact Fl|]. split; [exact Fr|]. split.
  - intros s Hs. rewrite (try_normalize_dom s (probe_state D)); [exact TN|exact Hs].
  - split; [exact Fe|]. split; [exact Af|apply forallb_mem_incl; exact Av].
Qed.

Definition affine_modelb (m : model) : bool :=
  let U := map fst (m_domain m) in
  nodup_names U
  && forallb (fun p : string * dvar => wf_vtypeb (dv_type (snd p)) && dv_used (snd p)
                && decl_okb (dv_type (snd p))) (m_domain m)
  && forallb (fun c => plain (c_lhs c) && plain (c_rhs c) && aff_constrb (cdom m) U c) (m_constraints m)
  && plain (m_obj m)
  && match fs_pure (m_obj m) with Some o => affine o && forallb (set_mem U) (avars o) | None => false end.

Theorem affine_modelb_sound m : affine_modelb m = true -> affine_model m.
Proof.
  unfold affine_modelb. cbv zeta. intros H.
  apply andb_true_iff in H as [H Ho]. apply andb_true_iff in H as [H Hpo]. apply andb_true_iff in H as [H Hc].
  apply andb_true_iff in H as [Hnd Hd].
  assert (Hd' : forall n d, In (n, d) (m_domain m) ->
            wf_vtypeb (dv_type d) = true /\ dv_used d = true /\ decl_okb (dv_type d) = true).
  { intros n d Hin. pose proof (proj1 (forallb_forall _ _) Hd (n, d) Hin) as K. cbn [fst snd] in K.
    apply andb_true_iff in K as [K K3]. apply andb_true_iff in K as [K1 K2]. auto. }
  constructor.
  - split; [apply nodup_names_sound; exact Hnd|]. intros n d Hin. destruct (Hd' n d Hin) as [W _].
    unfold PublishSound.wf_vtype. destruct (dv_type d); try exact I. cbn [wf_vtypeb] in W. apply andb_true_iff in W as [W1 W2].
    apply Z.leb_le in W1. apply Z.leb_le in W2. split; assumption.
  - intros n d Hin. exact (proj1 (proj2 (Hd' n d Hin))).
  - intros c Hin. pose proof (proj1 (forallb_forall _ _) Hc c Hin) as K. apply andb_true_iff in K as [K _]. apply andb_true_iff in K. exact K.
  - exact Hpo.
  - apply Forall_forall. intros c Hin. pose proof (proj1 (forallb_forall _ _) Hc c Hin) as K. apply andb_true_iff in K as [_ K].
    apply aff_constrb_sound. exact K.
  - destruct (fs_pure (m_obj m)) as [o|]; [|discriminate]. apply andb_true_iff in Ho as [A V].
    exists o. split; [reflexivity|]. split; [exact A|apply forallb_mem_incl; exact V].
  - intros n d Hin. destruct (Hd' n d Hin) as [_ [_ T]]. exact (decl_okb_sound _ T).
Qed.

Example m0_affine_b : affine_modelb m0 = true.
Proof. vm_compute. reflexivity. Qed.
