(* C16: ModelBuilder's calls may come in any order.  The state after any call sequence is determined by the declared
   variables in order, the constraints in order (however they were grouped into with / with_all) and the LAST objective
   call; handles keep naming the variable they were minted for; into_model marks every declared variable used. *)
From Coq Require Import QArith Bool List String Lia.
From Rooc Require Import Base.XQ Model.Exp Model.Bounds Model.Linearize Model.Builder Model.BuilderOps.
Import ListNotations.
Local Close Scope Q_scope.
Local Open Scope list_scope.

Lemma brun_app s ops1 ops2 : brun s (ops1 ++ ops2) = match brun s ops1 with Some s' => brun s' ops2 | None => None end.
Proof. revert s; induction ops1 as [|o r IH]; intros s; cbn [app brun]; [reflexivity|]. destruct (bstep s o); [apply IH|reflexivity]. Qed.

(* the state a successful run reaches *)
Theorem brun_canonical : forall ops s s', brun s ops = Some s' ->
  b_names s' = b_names s ++ map fst (vars_of_ops ops) /\
  b_dom s' = b_dom s ++ vars_of_ops ops /\
  b_cons s' = b_cons s ++ cons_of_ops ops /\
  b_obj s' = last_obj ops (b_obj s).
Proof.
  induction ops as [|o r IH]; intros s s' H; cbn [brun] in H.
  - inversion H; subst. cbn. rewrite !app_nil_r. auto.
  - destruct (bstep s o) as [s1|] eqn:E; [|discriminate]. destruct (IH s1 s' H) as [A [B [C D]]].
    destruct o; cbn [bstep] in E.
    + destruct (al_mem (b_dom s) name); [discriminate|]. inversion E; subst s1; clear E. cbn [b_names b_dom b_cons b_obj] in *.
      cbn [vars_of_ops cons_of_ops flat_map last_obj app map fst]. rewrite A, B, C, D, <- !app_assoc. auto.
    + inversion E; subst s1; clear E. cbn [b_names b_dom b_cons b_obj] in *.
      cbn [vars_of_ops cons_of_ops flat_map last_obj app]. rewrite A, B, C, D, <- !app_assoc. auto.
    + inversion E; subst s1; clear E. cbn [b_names b_dom b_cons b_obj] in *.
      cbn [vars_of_ops cons_of_ops flat_map last_obj app]. rewrite A, B, C, D, <- !app_assoc. auto.
    + inversion E; subst s1; clear E. cbn [b_names b_dom b_cons b_obj] in *. cbn [vars_of_ops cons_of_ops flat_map last_obj app]. auto.
    + inversion E; subst s1; clear E. cbn [b_names b_dom b_cons b_obj] in *. cbn [vars_of_ops cons_of_ops flat_map last_obj app]. auto.
    + inversion E; subst s1; clear E. cbn [b_names b_dom b_cons b_obj] in *. cbn [vars_of_ops cons_of_ops flat_map last_obj app]. auto.
Qed.

(* two call sequences that declare the same variables in the same order, add the same constraints in the same order
   and end with the same objective call build the same model - wherever the objective call stands and however the
   constraints were grouped *)
Theorem call_order_irrelevant ops1 ops2 s1 s2 :
  brun b_init ops1 = Some s1 -> brun b_init ops2 = Some s2 ->
  vars_of_ops ops1 = vars_of_ops ops2 -> cons_of_ops ops1 = cons_of_ops ops2 -> last_obj ops1 None = last_obj ops2 None ->
  into_model s1 = into_model s2.
Proof.
  intros H1 H2 V C O. destruct (brun_canonical _ _ _ H1) as [A1 [B1 [C1 D1]]]. destruct (brun_canonical _ _ _ H2) as [A2 [B2 [C2 D2]]].
  cbn [b_init b_names b_dom b_cons b_obj app] in *.
  unfold into_model. rewrite A1, A2, B1, B2, C1, C2, D1, D2, V, C, O. reflexivity.
Qed.

(* with_all is a sequence of with; splitting a with_all anywhere changes nothing *)
Corollary with_all_is_withs s cs : brun s [OWithAll cs] = brun s (map OWith cs).
Proof.
  revert s. induction cs as [|c cs IH]; intros s; cbn [map brun bstep].
  - destruct s; cbn. rewrite app_nil_r. reflexivity.
  - rewrite <- IH. cbn [brun bstep b_names b_dom b_cons b_obj]. rewrite <- app_assoc. reflexivity.
Qed.

(* the run fails exactly when a name is declared twice *)
Theorem brun_succeeds_iff_names_distinct : forall ops s, NoDup (map fst (b_dom s)) ->
  (exists s', brun s ops = Some s') <-> NoDup (map fst (b_dom s) ++ map fst (vars_of_ops ops)).
Proof.
  induction ops as [|o r IH]; intros s ND; cbn [brun vars_of_ops flat_map].
  - cbn [map]. rewrite app_nil_r. split; [intros _; exact ND|intros _; eexists; reflexivity].
  - destruct o; cbn [bstep];
      try (match goal with |- context [brun ?s1 r] => specialize (IH s1 ND) end; cbn [b_dom app] in IH; exact IH).
    destruct (al_mem (b_dom s) name) eqn:M.
    + split; [intros [s' H]; discriminate|]. intros N. exfalso.
      cbn [app map fst] in N. apply NoDup_remove_2 in N. apply N. apply in_or_app. left.
      unfold al_mem in M. destruct (al_get (b_dom s) name) eqn:G; [|discriminate].
      clear - G. induction (b_dom s) as [|[k v0] l IHl]; [discriminate|]. cbn [al_get] in G. cbn [map fst].
      destruct (String.eqb name k) eqn:E; [apply String.eqb_eq in E; left; auto|right; apply IHl; exact G].
    + assert (Nn : ~ In name (map fst (b_dom s))).
      { unfold al_mem in M. destruct (al_get (b_dom s) name) eqn:G; [discriminate|]. clear - G.
        induction (b_dom s) as [|[k v0] l IHl]; [intros []|]. cbn [al_get] in G. cbn [map fst].
        destruct (String.eqb name k) eqn:E; [discriminate|]. intros [->|I]; [rewrite String.eqb_refl in E; discriminate|exact (IHl G I)]. }
      assert (ND1 : NoDup (map fst (b_dom s ++ [(name, t)]))).
      { rewrite map_app. cbn [map fst]. clear - ND Nn. induction (map fst (b_dom s)) as [|x l IHl]; [constructor; [intros []|constructor]|].
        inversion ND; subst. cbn [app]. constructor.
        - intros I. apply in_app_or in I as [I|[<-|[]]]; [contradiction|]. apply Nn. left. reflexivity.
        - apply IHl; [assumption|]. intros I. apply Nn. right. exact I. }
      specialize (IH (mkBS (b_names s ++ [name]) (b_dom s ++ [(name, t)]) (b_cons s) (b_obj s)) ND1).
      cbn [b_dom] in IH. rewrite map_app in IH. cbn [map fst app] in IH |- *. rewrite <- app_assoc in IH. exact IH.
Qed.

(* a handle minted by the k-th add_var names that variable in every later state *)
Theorem handle_stable ops1 ops2 s1 s2 n t :
  brun b_init ops1 = Some s1 -> brun s1 (OVar n t :: ops2) = Some s2 ->
  name_of (b_names s2) (List.length (b_names s1)) = n.
Proof.
  intros H1 H2. cbn [brun bstep] in H2. destruct (al_mem (b_dom s1) n); [discriminate|].
  destruct (brun_canonical _ _ _ H2) as [A _]. cbn [b_names] in A. unfold name_of. rewrite A, <- app_assoc.
  rewrite app_nth2 by lia. rewrite Nat.sub_diag. reflexivity.
Qed.

(* into_model marks every declared variable used and keeps the declaration order *)
Theorem into_model_marks_all_used s : forall n d, In (n, d) (m_domain (into_model s)) -> dv_used d = true.
Proof.
  intros n d H. unfold into_model in H. destruct (match b_obj s with Some p => p | None => _ end) as [dd e].
  cbn [m_domain] in H. apply in_map_iff in H as [[k t] [E _]]. inversion E; subst. reflexivity.
Qed.
Theorem into_model_domain_order s : map fst (m_domain (into_model s)) = map fst (b_dom s).
Proof.
  unfold into_model. destruct (match b_obj s with Some p => p | None => _ end) as [dd e]. cbn [m_domain]. rewrite map_map. reflexivity.
Qed.
