(* C01/C02, affine stage: on the affine fragment Exp::linearize emits nothing and returns a context
   whose value is the expression's value at every real assignment. *)
From Coq Require Import QArith Qreals Reals ZArith Bool List String Lra Lia.
From Rooc Require Import Base.XQ Model.Exp Model.Sem Model.Bounds Model.Linearize Model.Spec
  Proof.XQFacts Proof.SemFacts Proof.AListFacts Proof.AffineSound.
Import ListNotations.
Local Close Scope Q_scope.
Local Open Scope R_scope.
Local Open Scope list_scope.

Fixpoint affine (e : exp) : bool :=
  match e with
  | Num _ | Var _ => true
  | BinOp Add a b | BinOp Sub a b => affine a && affine b
  | BinOp Mul a b =>
      match as_num a with
      | Some c => xq_is_zero c || affine b
      | None => match as_num b with Some c => xq_is_zero c || affine a | None => false end
      end
  | BinOp Div a b => match as_num b with Some _ => affine a | None => false end
  | UnOp Neg x => affine x
  | _ => false
  end.

Section S.
  Variable rho : string -> R.
  Notation csv := (cs_val rho).
  Definition ctx_val (c : lctx) : R := csv (l_vars c) + cval (l_rhs c).
  Definition ctx_fin (c : lctx) : Prop := cs_fin (l_vars c) /\ fin (l_rhs c).

  Lemma csv_app l1 l2 : csv (l1 ++ l2) = csv l1 + csv l2.
  Proof. induction l1 as [|[n c] l1 IH]; cbn; [lra|rewrite IH; lra]. Qed.

  Lemma add_var_sound c n m : ctx_fin c -> fin m ->
    ctx_fin (l_add_var c n m) /\ ctx_val (l_add_var c n m) = ctx_val c + cval m * rho n.
  Proof.
    intros [F1 F2] Fm. destruct (fin_inv _ Fm) as [q ->]. unfold l_add_var, ctx_val, ctx_fin.
    destruct (al_get (l_vars c) n) as [v|] eqn:G; cbn [l_vars l_rhs].
    - assert (Fv : fin v).
      { pose proof (getc_fin (l_vars c) n F1) as H. unfold getc in H. rewrite G in H. exact H. }
      destruct (fin_inv _ Fv) as [p ->]. cbn [xq_add]. split.
      + split; [apply cs_fin_insert; [exact F1|reflexivity]|exact F2].
      + rewrite cs_val_insert. unfold getc. rewrite G. cbn [cval]. rewrite Q2R_qn, Q2R_plus. lra.
    - split.
      + split; [|exact F2]. unfold cs_fin. apply Forall_app. split; [exact F1|constructor; [reflexivity|constructor]].
      + rewrite csv_app. cbn. lra.
  Qed.

  Lemma add_rhs_sound c r : ctx_fin c -> fin r ->
    ctx_fin (l_add_rhs c r) /\ ctx_val (l_add_rhs c r) = ctx_val c + cval r.
  Proof.
    intros [F1 F2] Fr. destruct (fin_inv _ Fr) as [q ->]. destruct (fin_inv _ F2) as [p Ep].
    unfold l_add_rhs, ctx_val, ctx_fin; cbn [l_vars l_rhs]. rewrite Ep. cbn [xq_add cval].
    split; [split; [exact F1|reflexivity]|]. rewrite Q2R_qn, Q2R_plus. lra.
  Qed.

  Lemma ctx_new_sound : ctx_fin l_new /\ ctx_val l_new = 0.
  Proof. split; [split; [constructor|reflexivity]|]. unfold ctx_val; cbn. rewrite Q2R_0. lra. Qed.

  Lemma from_rhs_sound q : ctx_fin (l_from_rhs (Fin q)) /\ ctx_val (l_from_rhs (Fin q)) = Q2R q.
  Proof.
    destruct ctx_new_sound as [F V]. destruct (add_rhs_sound l_new (Fin q) F eq_refl) as [F' V'].
    split; [exact F'|]. unfold l_from_rhs. rewrite V', V. cbn. lra.
  Qed.
  Lemma from_var_sound n q : ctx_fin (l_from_var n (Fin q)) /\ ctx_val (l_from_var n (Fin q)) = Q2R q * rho n.
  Proof.
    destruct ctx_new_sound as [F V]. destruct (add_var_sound l_new n (Fin q) F eq_refl) as [F' V'].
    split; [exact F'|]. unfold l_from_var. rewrite V', V. cbn. lra.
  Qed.

  Lemma merge_add_sound a b : ctx_fin a -> ctx_fin b ->
    ctx_fin (l_merge_add a b) /\ ctx_val (l_merge_add a b) = ctx_val a + ctx_val b.
  Proof.
    intros Fa [Fb1 Fb2]. unfold l_merge_add.
    assert (G : forall l acc, cs_fin l -> ctx_fin acc ->
      ctx_fin (fold_left (fun acc p => l_add_var acc (fst p) (snd p)) l acc) /\
      ctx_val (fold_left (fun acc p => l_add_var acc (fst p) (snd p)) l acc) = ctx_val acc + csv l).
    { induction l as [|[n m] l IH]; intros acc Hl Hacc; cbn [fold_left fst snd]; [split; [exact Hacc|cbn; lra]|].
      inversion Hl as [|? ? Hm Hl']; subst. cbn [snd] in Hm.
      destruct (add_var_sound acc n m Hacc Hm) as [F V]. destruct (IH _ Hl' F) as [F2 V2].
      split; [exact F2|]. rewrite V2, V. cbn. lra. }
    destruct (G _ _ Fb1 Fa) as [F V]. destruct (add_rhs_sound _ _ F Fb2) as [F2 V2].
    split; [exact F2|]. rewrite V2, V. unfold ctx_val at 3. lra.
  Qed.

  Lemma fin_neg x : fin x -> fin (xq_neg x) /\ cval (xq_neg x) = - cval x.
  Proof. intros H. destruct (fin_inv _ H) as [q ->]. split; [reflexivity|]. cbn. rewrite Q2R_qn, Q2R_opp. reflexivity. Qed.

  Lemma merge_sub_sound a b : ctx_fin a -> ctx_fin b ->
    ctx_fin (l_merge_sub a b) /\ ctx_val (l_merge_sub a b) = ctx_val a - ctx_val b.
  Proof.
    intros Fa [Fb1 Fb2]. unfold l_merge_sub.
    assert (G : forall l acc, cs_fin l -> ctx_fin acc ->
      ctx_fin (fold_left (fun acc p => l_add_var acc (fst p) (xq_neg (snd p))) l acc) /\
      ctx_val (fold_left (fun acc p => l_add_var acc (fst p) (xq_neg (snd p))) l acc) = ctx_val acc - csv l).
    { induction l as [|[n m] l IH]; intros acc Hl Hacc; cbn [fold_left fst snd]; [split; [exact Hacc|cbn; lra]|].
      inversion Hl as [|? ? Hm Hl']; subst. cbn [snd] in Hm. destruct (fin_neg m Hm) as [Fn Vn].
      destruct (add_var_sound acc n _ Hacc Fn) as [F V]. destruct (IH _ Hl' F) as [F2 V2].
      split; [exact F2|]. rewrite V2, V, Vn. cbn. lra. }
    destruct (G _ _ Fb1 Fa) as [F V]. destruct (fin_neg _ Fb2) as [Fn Vn].
    destruct (add_rhs_sound _ _ F Fn) as [F2 V2].
    split; [exact F2|]. rewrite V2, V, Vn. unfold ctx_val at 3. lra.
  Qed.

  Lemma mul_by_sound a q : ctx_fin a ->
    ctx_fin (l_mul_by a (Fin q)) /\ ctx_val (l_mul_by a (Fin q)) = Q2R q * ctx_val a.
  Proof.
    intros [F1 F2]. destruct (fin_inv _ F2) as [k Ek]. unfold l_mul_by, ctx_val, ctx_fin; cbn [l_vars l_rhs].
    rewrite Ek. cbn [xq_mul cval].
    assert (G : forall l, cs_fin l -> cs_fin (map (fun p => (fst p, xq_mul (snd p) (Fin q))) l) /\
                          csv (map (fun p => (fst p, xq_mul (snd p) (Fin q))) l) = Q2R q * csv l).
    { induction l as [|[n x] l IH]; intros Hl; cbn [map fst snd]; [split; [constructor|cbn; lra]|].
      inversion Hl as [|? ? Hx Hl']; subst. cbn [snd] in Hx. destruct (fin_inv _ Hx) as [p ->].
      destruct (IH Hl') as [F V]. cbn [xq_mul]. split; [constructor; [reflexivity|exact F]|].
      cbn [cs_val cval]. rewrite V, Q2R_qn, Q2R_mult. lra. }
    destruct (G _ F1) as [F V]. split; [split; [exact F|reflexivity]|]. cbn [cval]. rewrite V, Q2R_qn, Q2R_mult. lra.
  Qed.

  Lemma div_by_sound a q : ctx_fin a -> Q2R q <> 0 ->
    ctx_fin (l_div_by a (Fin q)) /\ ctx_val (l_div_by a (Fin q)) = ctx_val a / Q2R q.
  Proof.
    intros [F1 F2] Hq. destruct (fin_inv _ F2) as [k Ek]. unfold l_div_by, ctx_val, ctx_fin; cbn [l_vars l_rhs].
    assert (Zq : q_eqb q 0 = false).
    { destruct (q_eqb q 0) eqn:E; [|reflexivity]. apply q_eqb_true in E. rewrite Q2R_0 in E. contradiction. }
    assert (Nq : ~ (q == 0)%Q) by (intro E; apply Qeq_bool_iff in E; unfold q_eqb in Zq; congruence).
    rewrite Ek. cbn [xq_div cval]. rewrite Zq.
    assert (G : forall l, cs_fin l -> cs_fin (map (fun p => (fst p, xq_div (snd p) (Fin q))) l) /\
                          csv (map (fun p => (fst p, xq_div (snd p) (Fin q))) l) = csv l / Q2R q).
    { induction l as [|[n x] l IH]; intros Hl; cbn [map fst snd]; [split; [constructor|cbn; field; exact Hq]|].
      inversion Hl as [|? ? Hx Hl']; subst. cbn [snd] in Hx. destruct (fin_inv _ Hx) as [p ->].
      destruct (IH Hl') as [F V]. cbn [xq_div]. rewrite Zq. split; [constructor; [reflexivity|exact F]|].
      cbn [cs_val cval]. rewrite V, Q2R_qn, Q2R_div by exact Nq. field. exact Hq. }
    destruct (G _ F1) as [F V]. split; [split; [exact F|reflexivity]|]. cbn [cval]. rewrite V, Q2R_qn, Q2R_div by exact Nq. field. exact Hq.
  Qed.

  (* context_to_exp denotes the context *)
  Lemma context_to_exp_sound c : ctx_fin c -> ev rho (context_to_exp c) = Some (ctx_val c).
  Proof.
    intros [F1 F2]. destruct (fin_inv _ F2) as [k Ek]. unfold context_to_exp, ctx_val. rewrite Ek. cbn [cval].
    assert (G : forall l e v, cs_fin l -> ev rho e = Some v ->
      ev rho (fold_left (fun e p => BinOp Add e (BinOp Mul (Num (snd p)) (Var (fst p)))) l e) = Some (v + csv l)).
    { induction l as [|[n x] l IH]; intros e v Hl He; cbn [fold_left fst snd]; [rewrite He; f_equal; cbn; lra|].
      inversion Hl as [|? ? Hx Hl']; subst. cbn [snd] in Hx. destruct (fin_inv _ Hx) as [p ->].
      rewrite (IH _ (v + Q2R p * rho n) Hl'); [f_equal; cbn; lra|].
      unfold ev in *. rewrite evg_BinOp, He, evg_BinOp, evg_Num_Fin, evg_Var. reflexivity. }
    rewrite (G _ _ (Q2R k) F1); [f_equal; lra|reflexivity].
  Qed.

  Notation ev := (evg rho false).

  Theorem lin_affine_sound : forall n e r s c s',
    affine e = true -> lin n e r s = inr (c, s') ->
    s' = s /\ forall v, ev e = Some v -> ctx_fin c /\ ctx_val c = v.
  Proof.
    induction n as [|n IH]; intros e r s c s' Ha H; [discriminate|].
    cbn [lin] in H. destruct e; cbn [affine] in Ha; try discriminate; cbn [lin_step] in H.
    - (* Num *) inversion H; subst. split; [reflexivity|]. intros v Hv.
      apply evg_Num_inv in Hv as [q [-> ->]]. apply from_rhs_sound.
    - (* Var *) inversion H; subst. split; [reflexivity|]. intros v Hv. cbn in Hv. inversion Hv; subst.
      destruct (from_var_sound s0 1%Q) as [F V]. split; [exact F|]. rewrite V, Q2R_1. lra.
    - (* BinOp *)
      destruct op; try discriminate.
      + apply andb_true_iff in Ha as [A1 A2]. unfold bind in H.
        destruct (lin n e1 r s) as [err|[la s1]] eqn:E1; [discriminate|].
        destruct (lin n e2 r s1) as [err|[lb s2]] eqn:E2; [discriminate|]. inversion H; subst.
        destruct (IH _ _ _ _ _ A1 E1) as [-> G1]. destruct (IH _ _ _ _ _ A2 E2) as [-> G2].
        split; [reflexivity|]. intros v Hv. rewrite evg_BinOp in Hv.
        destruct (ev e1) as [x|]; [|discriminate]. destruct (ev e2) as [y|]; [|discriminate].
        cbn in Hv. inversion Hv; subst. destruct (G1 x eq_refl) as [F1 V1]. destruct (G2 y eq_refl) as [F2 V2].
        destruct (merge_add_sound la lb F1 F2) as [F V]. split; [exact F|]. rewrite V, V1, V2. reflexivity.
      + apply andb_true_iff in Ha as [A1 A2]. unfold bind in H.
        destruct (lin n e1 r s) as [err|[la s1]] eqn:E1; [discriminate|].
        destruct (lin n e2 (req_reversed r) s1) as [err|[lb s2]] eqn:E2; [discriminate|]. inversion H; subst.
        destruct (IH _ _ _ _ _ A1 E1) as [-> G1]. destruct (IH _ _ _ _ _ A2 E2) as [-> G2].
        split; [reflexivity|]. intros v Hv. rewrite evg_BinOp in Hv.
        destruct (ev e1) as [x|]; [|discriminate]. destruct (ev e2) as [y|]; [|discriminate].
        cbn in Hv. inversion Hv; subst. destruct (G1 x eq_refl) as [F1 V1]. destruct (G2 y eq_refl) as [F2 V2].
        destruct (merge_sub_sound la lb F1 F2) as [F V]. split; [exact F|]. rewrite V, V1, V2. reflexivity.
      + (* Mul *)
        destruct (as_num e1) as [c1|] eqn:N1.
        * apply as_num_Some in N1; subst e1. destruct (xq_is_zero c1) eqn:Z.
          -- inversion H; subst. split; [reflexivity|]. intros v Hv. rewrite evg_BinOp in Hv.
             destruct (ev (Num c1)) as [x|] eqn:Ex; [|discriminate]. destruct (ev e2) as [y|]; [|discriminate].
             cbn in Hv. inversion Hv; subst. apply evg_Num_inv in Ex as [q [-> ->]].
             apply xq_is_zero_Fin in Z. destruct (from_rhs_sound 0%Q) as [F V]. split; [exact F|].
             rewrite V, Q2R_0, Z. lra.
          -- cbn [orb] in Ha. unfold bind in H.
             destruct (lin n e2 (through_scale r c1) s) as [err|[lv s1]] eqn:E2; [discriminate|]. inversion H; subst.
             destruct (IH _ _ _ _ _ Ha E2) as [-> G2]. split; [reflexivity|]. intros v Hv. rewrite evg_BinOp in Hv.
             destruct (ev (Num c1)) as [x|] eqn:Ex; [|discriminate]. destruct (ev e2) as [y|]; [|discriminate].
             cbn in Hv. inversion Hv; subst. apply evg_Num_inv in Ex as [q [-> ->]].
             destruct (G2 y eq_refl) as [F2 V2]. destruct (mul_by_sound lv q F2) as [F V].
             split; [exact F|]. rewrite V, V2. reflexivity.
        * destruct (as_num e2) as [c2|] eqn:N2; [|discriminate].
          apply as_num_Some in N2; subst e2.
          assert (Hstep : (if xq_is_zero c2 then ret (l_from_rhs (Fin 0%Q))
                           else bind (lin n e1 (through_scale r c2)) (fun v => ret (l_mul_by v c2))) s = inr (c, s')).
          { destruct e1; try exact H. cbn in N1. discriminate. }
          clear H. destruct (xq_is_zero c2) eqn:Z.
          -- inversion Hstep; subst. split; [reflexivity|]. intros v Hv. rewrite evg_BinOp in Hv.
             destruct (ev e1) as [x|]; [|discriminate]. destruct (ev (Num c2)) as [y|] eqn:Ey; [|discriminate].
             cbn in Hv. inversion Hv; subst. apply evg_Num_inv in Ey as [q [-> ->]].
             apply xq_is_zero_Fin in Z. destruct (from_rhs_sound 0%Q) as [F V]. split; [exact F|].
             rewrite V, Q2R_0, Z. lra.
          -- cbn [orb] in Ha. unfold bind in Hstep.
             destruct (lin n e1 (through_scale r c2) s) as [err|[lv s1]] eqn:E1; [discriminate|]. inversion Hstep; subst.
             destruct (IH _ _ _ _ _ Ha E1) as [-> G1]. split; [reflexivity|]. intros v Hv. rewrite evg_BinOp in Hv.
             destruct (ev e1) as [x|]; [|discriminate]. destruct (ev (Num c2)) as [y|] eqn:Ey; [|discriminate].
             cbn in Hv. inversion Hv; subst. apply evg_Num_inv in Ey as [q [-> ->]].
             destruct (G1 x eq_refl) as [F1 V1]. destruct (mul_by_sound lv q F1) as [F V].
             split; [exact F|]. rewrite V, V1. lra.
      + (* Div *)
        destruct (as_num e2) as [d|] eqn:N2; [|discriminate]. apply as_num_Some in N2; subst e2.
        destruct (xq_is_zero d) eqn:Z; [discriminate|]. unfold bind in H.
        destruct (lin n e1 _ s) as [err|[lv s1]] eqn:E1; [discriminate|]. inversion H; subst.
        destruct (IH _ _ _ _ _ Ha E1) as [-> G1]. split; [reflexivity|]. intros v Hv. rewrite evg_BinOp in Hv.
        destruct (ev e1) as [x|]; [|discriminate]. destruct (ev (Num d)) as [y|] eqn:Ey; [|discriminate].
        cbn [ev_binop] in Hv. destruct (Req_EM_T y 0) as [Zy|NZ]; [discriminate|]. inversion Hv; subst.
        apply evg_Num_inv in Ey as [q [-> ->]].
        destruct (G1 x eq_refl) as [F1 V1]. destruct (div_by_sound lv q F1 NZ) as [F V].
        split; [exact F|]. rewrite V, V1. reflexivity.
    - (* UnOp Neg *)
      destruct op; [|discriminate]. unfold bind in H.
      destruct (lin n e (req_reversed r) s) as [err|[lv s1]] eqn:E1; [discriminate|]. inversion H; subst.
      destruct (IH _ _ _ _ _ Ha E1) as [-> G1]. split; [reflexivity|]. intros v Hv. rewrite evg_Neg in Hv.
      destruct (ev e) as [x|]; [|discriminate]. cbn in Hv. inversion Hv; subst.
      destruct (G1 x eq_refl) as [F1 V1]. destruct (mul_by_sound lv (-1)%Q F1) as [F V].
      split; [exact F|]. rewrite V, V1. replace (Q2R (-1)) with (-1) by (unfold Q2R; cbn; lra). lra.
  Qed.
End S.
