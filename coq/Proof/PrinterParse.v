(* C11/C12: parsing the printed expression gives back the printed tree.  pparse is the precedence climb of C09
   extended with parenthesised primaries; for every parenthesised tree p that satisfies wfp, pparse reads the tokens
   of p back as strip p.  With PrinterWf.render_wf this gives  pparse (pflatten (render t)) = Some t  for EVERY t. *)
From Coq Require Import Bool List Arith Lia String.
From Rooc Require Import Model.Exp Model.Pratt Model.Printer Proof.PrattSound Proof.PrinterWf.
Import ListNotations.
Local Open Scope list_scope.

Section T.
  Variable prec : binop -> nat.
  Variable rassoc : binop -> bool.
  Variable pprec : unop -> nat.
  Notation pexpr := (pexpr prec rassoc pprec).
  Notation pled_loop := (pled_loop prec rassoc pprec).
  Notation wfp := (wfp prec rassoc pprec).
  Notation rb := (rb prec rassoc).
  Notation plbp := (plbp prec).

  Lemma pexpr_eq f rbp ts : pexpr (S f) rbp ts =
    match ts with
    | PT (TAtom a) :: rest => pled_loop f rbp (Leaf a) rest
    | PT (TPrefix op) :: rest => match pexpr f (pprec op - 1) rest with
                                 | Some (t, rest') => pled_loop f rbp (Pre op t) rest'
                                 | None => None end
    | PLP :: rest => match pexpr f 0 rest with
                     | Some (t, PRP :: rest') => pled_loop f rbp t rest'
                     | _ => None end
    | _ => None
    end.
  Proof.
    destruct ts as [|[[a|op|op]| |] ts']; try reflexivity; cbn [Printer.pexpr].
    - destruct (pexpr f (pprec op - 1) ts') as [[u r]|]; reflexivity.
    - destruct (pexpr f 0 ts') as [[u [|[x| |] r]]|]; reflexivity.
  Qed.
  Lemma ploop_eq f rbp lhs ts : pled_loop (S f) rbp lhs ts =
    match ts with
    | PT (TInfix op) :: rest =>
        if Nat.ltb rbp (prec op) then
          match pexpr f (rb op) rest with
          | Some (rhs, rest') => pled_loop f rbp (Bin op lhs rhs) rest'
          | None => None end
        else Some (lhs, ts)
    | _ => Some (lhs, ts)
    end.
  Proof. reflexivity. Qed.

  Lemma pmono_mutual : forall f,
    (forall rbp ts r, pexpr f rbp ts = Some r -> pexpr (S f) rbp ts = Some r) /\
    (forall rbp lhs ts r, pled_loop f rbp lhs ts = Some r -> pled_loop (S f) rbp lhs ts = Some r).
  Proof.
    induction f as [|f [IHe IHl]]; [split; intros; discriminate|]. split.
    - intros rbp ts r H. rewrite pexpr_eq in H. rewrite pexpr_eq.
      destruct ts as [|[[a|op|op]| |] ts']; try discriminate.
      + apply IHl. exact H.
      + destruct (pexpr f (pprec op - 1) ts') as [[u rest']|] eqn:Eu; [|discriminate].
        rewrite (IHe _ _ _ Eu). apply IHl. exact H.
      + destruct (pexpr f 0 ts') as [[u rest']|] eqn:Eu; [|discriminate].
        rewrite (IHe _ _ _ Eu). destruct rest' as [|[x| |] rest']; try discriminate. apply IHl. exact H.
    - intros rbp lhs ts r H. rewrite ploop_eq in H. rewrite ploop_eq.
      destruct ts as [|[[a|op|op]| |] ts']; try exact H.
      destruct (Nat.ltb rbp (prec op)); [|exact H].
      destruct (pexpr f (rb op) ts') as [[rhs rest']|] eqn:Er; [|discriminate].
      rewrite (IHe _ _ _ Er). apply IHl. exact H.
  Qed.
  Lemma pexpr_mono f g rbp ts r : f <= g -> pexpr f rbp ts = Some r -> pexpr g rbp ts = Some r.
  Proof. intros L. induction L as [|g L IH]; [auto|]. intros Hr. apply (proj1 (pmono_mutual _)). auto. Qed.
  Lemma ploop_mono f g rbp lhs ts r : f <= g -> pled_loop f rbp lhs ts = Some r -> pled_loop g rbp lhs ts = Some r.
  Proof. intros L. induction L as [|g L IH]; [auto|]. intros Hr. apply (proj2 (pmono_mutual _)). auto. Qed.

  Hypothesis prec_pos : forall op, 0 < prec op.
  Hypothesis prefix_tightest : forall u b, prec b <= pprec u - 1.

  Definition pcost (p : ptree) : nat := 2 * List.length (pflatten p).
  Definition plhs_ok (p : ptree) (ts : list ptoken) : Prop :=
    match p with PBin op' _ _ => plbp ts <= rb op' | _ => True end.

  Lemma plbp_le_prefix ts u : plbp ts <= pprec u - 1.
  Proof. destruct ts as [|[[a|op|op]| |] ts]; cbn; try lia. apply prefix_tightest. Qed.

  Lemma ploop_stops f rbp lhs ts : plbp ts <= rbp -> pled_loop (S f) rbp lhs ts = Some (lhs, ts).
  Proof.
    intros H. rewrite ploop_eq. destruct ts as [|[[a|op|op]| |] ts']; try reflexivity.
    cbn in H. destruct (Nat.ltb rbp (prec op)) eqn:L; [apply Nat.ltb_lt in L; lia|reflexivity].
  Qed.

  Lemma pspine : forall p rbp rest res f,
    wfp rbp p -> plhs_ok p rest ->
    pled_loop f rbp (strip p) rest = Some res -> pexpr (f + pcost p) rbp (pflatten p ++ rest) = Some res.
  Proof.
    induction p as [a|op l IHl r IHr|op u IHu|q IHq]; intros rbp rest res f W O H.
    - unfold pcost; cbn [pflatten List.length app]. replace (f + 2 * 1) with (S (S f)) by lia.
      rewrite pexpr_eq. apply (ploop_mono f). lia. exact H.
    - destruct W as [Wp [Wl [Wr Wc]]]. cbn [pflatten]. rewrite <- app_assoc. cbn [app].
      assert (Hr : pexpr (S (pcost r)) (rb op) (pflatten r ++ rest) = Some (strip r, rest)).
      { replace (S (pcost r)) with (1 + pcost r) by lia. apply IHr; [exact Wr| |apply ploop_stops; exact O].
        destruct r as [|op2 r1 r2| |]; cbn; auto. destruct Wr as [Wr1 _]. cbn in O.
        unfold Pratt.rb. unfold Pratt.rb in O, Wr1. destruct (rassoc op2), (rassoc op); lia. }
      assert (Hl : pled_loop (S (f + S (pcost r))) rbp (strip l) (PT (TInfix op) :: pflatten r ++ rest) = Some res).
      { rewrite ploop_eq. apply Nat.ltb_lt in Wp. rewrite Wp.
        rewrite (pexpr_mono (S (pcost r)) (f + S (pcost r)) _ _ _ ltac:(lia) Hr).
        apply (ploop_mono f); [lia|exact H]. }
      assert (Ol : plhs_ok l (PT (TInfix op) :: pflatten r ++ rest)) by (destruct l; cbn; auto).
      pose proof (IHl rbp _ res _ Wl Ol Hl) as G.
      apply (pexpr_mono _ (f + pcost (PBin op l r))) in G; [exact G|].
      unfold pcost. cbn [pflatten]. rewrite !app_length. cbn [List.length]. lia.
    - cbn [Printer.wfp] in W. cbn [pflatten app].
      assert (Hu : pexpr (S (pcost u)) (pprec op - 1) (pflatten u ++ rest) = Some (strip u, rest)).
      { replace (S (pcost u)) with (1 + pcost u) by lia. apply IHu; [exact W| |apply ploop_stops; apply plbp_le_prefix].
        destruct u as [|op2 u1 u2| |]; cbn; auto. destruct W as [W1 _]. pose proof (prefix_tightest op op2). lia. }
      unfold pcost. cbn [pflatten List.length]. replace (f + 2 * S (List.length (pflatten u))) with (S (S (f + pcost u))) by (unfold pcost; lia).
      rewrite pexpr_eq.
      rewrite (pexpr_mono (S (pcost u)) (S (f + pcost u)) _ _ _ ltac:(lia) Hu).
      apply (ploop_mono f); [lia|exact H].
    - cbn [Printer.wfp] in W. cbn [pflatten strip] in *. cbn [app]. rewrite <- app_assoc. cbn [app].
      assert (Hq : pexpr (S (pcost q)) 0 (pflatten q ++ PRP :: rest) = Some (strip q, PRP :: rest)).
      { replace (S (pcost q)) with (1 + pcost q) by lia. apply IHq; [exact W| |apply ploop_stops; cbn; lia].
        destruct q; cbn; auto. lia. }
      unfold pcost. cbn [pflatten List.length]. rewrite app_length. cbn [List.length].
      replace (f + 2 * S (List.length (pflatten q) + 1)) with (S (S (S (S (f + pcost q))))) by (unfold pcost; lia).
      rewrite pexpr_eq.
      rewrite (pexpr_mono (S (pcost q)) (S (S (S (f + pcost q)))) _ _ _ ltac:(lia) Hq).
      apply (ploop_mono f); [lia|exact H].
  Qed.

  Theorem pparse_complete p : wfp 0 p -> pparse prec rassoc pprec (pflatten p) = Some (strip p).
  Proof.
    intros W. unfold pparse.
    assert (O : plhs_ok p []) by (destruct p; cbn; auto; lia).
    pose proof (pspine p 0 [] (strip p, []) 1 W O (ploop_stops 0 0 (strip p) [] ltac:(cbn; lia))) as H.
    rewrite app_nil_r in H.
    rewrite (pexpr_mono (1 + pcost p) (2 * List.length (pflatten p) + 2) _ _ _ ltac:(unfold pcost; lia) H). reflexivity.
  Qed.

  (* the round trip, for every expression tree of any size *)
  Theorem parse_render t : pparse prec rassoc pprec (pflatten (render prec rassoc t)) = Some t.
  Proof.
    destruct (render_roundtrip_structure prec rassoc pprec prec_pos t) as [W S].
    rewrite (pparse_complete _ W). rewrite S. reflexivity.
  Qed.

  (* on parenthesis-free text the extended parser is the parser of C09 *)
  Definition lift (r : option (tree * list token)) : option (tree * list ptoken) :=
    match r with Some (t, rest) => Some (t, map PT rest) | None => None end.
  Lemma pexpr_embeds : forall f,
    (forall rbp ts, pexpr f rbp (map PT ts) = lift (expr prec rassoc pprec f rbp ts)) /\
    (forall rbp lhs ts, pled_loop f rbp lhs (map PT ts) = lift (led_loop prec rassoc pprec f rbp lhs ts)).
  Proof.
    induction f as [|f [IHe IHl]]; [split; reflexivity|]. split.
    - intros rbp ts. rewrite pexpr_eq, expr_eq. destruct ts as [|[a|op|op] ts']; cbn [map]; try reflexivity.
      + apply IHl.
      + rewrite IHe. destruct (expr prec rassoc pprec f (pprec op - 1) ts') as [[u r]|]; cbn [lift]; [apply IHl|reflexivity].
    - intros rbp lhs ts. rewrite ploop_eq, loop_eq. destruct ts as [|[a|op|op] ts']; cbn [map]; try reflexivity.
      destruct (Nat.ltb rbp (prec op)); [|reflexivity].
      rewrite IHe. destruct (expr prec rassoc pprec f (rb op) ts') as [[u r]|]; cbn [lift]; [apply IHl|reflexivity].
  Qed.
  Theorem pparse_embeds ts : pparse prec rassoc pprec (map PT ts) = parse prec rassoc pprec ts.
  Proof.
    unfold pparse, parse. rewrite map_length. rewrite (proj1 (pexpr_embeds _)).
    destruct (expr prec rassoc pprec (2 * List.length ts + 2) 0 ts) as [[t [|x r]]|]; reflexivity.
  Qed.
End T.
