(* C07 / C01: bound analysis only ever SHRINKS the boxes it starts from, so a published (tightened) type of a declared
   variable lies inside its declared type.  Every state change of the analyser is a tighten_variable (intersection
   with the current box) or a flag. *)
From Coq Require Import QArith Qround Qreals Reals ZArith Bool List String Lra Lia.
From Rooc Require Import Base.XQ Model.Exp Model.Sem Model.Bounds Model.Spec
  Proof.XQFacts Proof.ExpInd Proof.AListFacts Proof.IntervalSound Proof.TightenSound.
Import ListNotations.
Local Close Scope Q_scope.
Local Open Scope R_scope.

Definition nn (b : bounds) : Prop := lo b <> NaN /\ hi b <> NaN.
Definition nnst (a : astate) : Prop := forall n, nn (a_get a n).
Definition sub_b (b' b : bounds) : Prop := forall x, in_b b' x -> in_b b x.
Definition shr (a a' : astate) : Prop := nnst a -> nnst a' /\ forall n, sub_b (a_get a' n) (a_get a n).

Lemma shr_refl a : shr a a.
Proof. intros H. split; [exact H|intros n x Hx; exact Hx]. Qed.
Lemma shr_trans a b c : shr a b -> shr b c -> shr a c.
Proof. intros H1 H2 Ha. destruct (H1 Ha) as [Hb S1]. destruct (H2 Hb) as [Hc S2]. split; [exact Hc|]. intros n x Hx. apply S1, S2, Hx. Qed.
Lemma shr_mark_inf a : shr a (a_mark_infeasible a).
Proof. intros H. split; [exact H|intros n x Hx; exact Hx]. Qed.
Lemma shr_mark_lim a : shr a (a_mark_limit a).
Proof. intros H. split; [exact H|intros n x Hx; exact Hx]. Qed.

Lemma xq_max_nn a b : a <> NaN -> xq_max a b <> NaN.
Proof. intros Ha. unfold xq_max. destruct a, b; try congruence; try (destruct (xq_leb _ _); congruence). Qed.
Lemma xq_min_nn a b : a <> NaN -> xq_min a b <> NaN.
Proof. intros Ha. unfold xq_min. destruct a, b; try congruence; try (destruct (xq_leb _ _); congruence). Qed.
Lemma xq_leb_lo a b x : xq_leb a b = true -> xq_le_R b x -> xq_le_R a x.
Proof.
  unfold xq_leb, xq_ltb, xq_eqb. destruct a as [p| | |], b as [q| | |]; cbn [xq_le_R]; intros H Hx; try exact I; try contradiction; try discriminate.
  apply orb_true_iff in H as [H|H]; [apply q_ltb_true in H; lra|apply q_eqb_true in H; lra].
Qed.
Lemma xq_leb_hi a b x : xq_leb a b = true -> R_le_xq x a -> R_le_xq x b.
Proof.
  unfold xq_leb, xq_ltb, xq_eqb. destruct a as [p| | |], b as [q| | |]; cbn [R_le_xq]; intros H Hx; try exact I; try contradiction; try discriminate.
  apply orb_true_iff in H as [H|H]; [apply q_ltb_true in H; lra|apply q_eqb_true in H; lra].
Qed.
Lemma xq_max_lo_inv a b x : a <> NaN -> xq_le_R (xq_max a b) x -> xq_le_R a x.
Proof.
  intros Ha. unfold xq_max. destruct a as [p| | |]; try congruence; destruct b as [q| | |]; intros H; try exact H;
    match type of H with context [xq_leb ?u ?v] => destruct (xq_leb u v) eqn:E; [exact (xq_leb_lo _ _ _ E H)|exact H] end.
Qed.
Lemma xq_leb_total a b : a <> NaN -> b <> NaN -> xq_leb a b = false -> xq_leb b a = true.
Proof.
  unfold xq_leb, xq_ltb, xq_eqb. destruct a as [p| | |], b as [q| | |]; intros Ha Hb H; try congruence; try reflexivity; try discriminate.
  apply orb_false_iff in H as [H1 H2]. apply orb_true_iff. left. unfold q_ltb in *. apply negb_false_iff in H1.
  apply negb_true_iff. destruct (Qle_bool p q) eqn:E; [|reflexivity].
  exfalso. apply Qle_bool_iff in H1. apply Qle_bool_iff in E. unfold q_eqb in H2.
  assert (p == q)%Q by (apply Qle_antisym; assumption). apply Qeq_bool_iff in H. congruence.
Qed.
Lemma xq_min_hi_inv a b x : a <> NaN -> R_le_xq x (xq_min a b) -> R_le_xq x a.
Proof.
  intros Ha. unfold xq_min.
  destruct a as [p| | |]; try congruence; destruct b as [q| | |]; intros H; try exact H;
    match type of H with context [xq_leb ?u ?v] =>
      destruct (xq_leb u v) eqn:E; [exact H|apply (xq_leb_hi v u x); [apply xq_leb_total; [discriminate|discriminate|exact E]|exact H]] end.
Qed.


(* ---------- one tightening *)
Lemma a_get_set_other a n t m : m <> n -> a_get (a_set_vb a (al_insert (a_vb a) n t)) m = a_get a m.
Proof. intros H. unfold a_get, a_set_vb. cbn [a_vb]. rewrite al_get_insert_other by exact H. reflexivity. Qed.
Lemma a_get_set_this a n t : a_get (a_set_vb a (al_insert (a_vb a) n t)) n = t.
Proof. unfold a_get, a_set_vb. cbn [a_vb]. rewrite al_get_insert_same. reflexivity. Qed.

Lemma inter_sub ties tol cur cand t : nn cur -> b_intersection ties tol cur cand = Some t -> nn t /\ sub_b t cur.
Proof.
  intros [N1 N2]. unfold b_intersection.
  destruct (if ties then _ else _).
  - intros H. inversion H; subst t; clear H. split.
    + split; cbn [lo hi]; [apply xq_max_nn; exact N1|apply xq_min_nn; exact N2].
    + intros x [H1 H2]. cbn [lo hi] in *. split; [exact (xq_max_lo_inv _ _ _ N1 H1)|exact (xq_min_hi_inv _ _ _ N2 H2)].
  - destruct (xq_leb _ tol); [|discriminate]. intros H. inversion H; subst t. split; [split; assumption|intros x Hx; exact Hx].
Qed.

Lemma shr_tv a n cand : shr a (fst (tighten_variable a n cand)).
Proof.
  unfold tighten_variable. destruct (b_intersection (a_ties a) (a_tol a) (a_get a n) cand) as [t|] eqn:I; [|apply shr_mark_inf].
  destruct (xq_gtb _ _ || xq_ltb _ _); [|apply shr_refl]. cbn [fst]. intros Ha.
  destruct (inter_sub _ _ _ _ _ (Ha n) I) as [Nt St]. split.
  - intros m. destruct (String.eqb m n) eqn:E; [apply String.eqb_eq in E; subst m; rewrite a_get_set_this; exact Nt|].
    apply String.eqb_neq in E. rewrite a_get_set_other by exact E. apply Ha.
  - intros m x Hx. destruct (String.eqb m n) eqn:E; [apply String.eqb_eq in E; subst m; rewrite a_get_set_this in Hx; apply St; exact Hx|].
    apply String.eqb_neq in E. rewrite a_get_set_other in Hx by exact E. exact Hx.
Qed.

(* ---------- an affine row *)
Lemma shr_affine_form a f c : shr a (fst (tighten_affine_form a f c)).
Proof.
  unfold tighten_affine_form. cbv zeta.
  match goal with |- context [(fix go (i : nat) (cs : list (string * xq)) (a0 : astate) (changed : list string) {struct cs} : astate * list string := _) O (af_coeffs f) a []] =>
    set (go := fix go (i : nat) (cs : list (string * xq)) (a0 : astate) (changed : list string) {struct cs} : astate * list string := _) end.
  assert (G : forall cs i a0 ch, shr a0 (fst (go i cs a0 ch))).
  { induction cs as [|[name coef] rest IH]; intros i a0 ch; cbn [go]; [apply shr_refl|].
    pose proof (shr_tv a0 name (b_div_by (b_sub (required_bounds c) (b_add (nth i (prefixes_from (b_singleton (af_const f)) (map (fun p : string * xq => b_scale (a_get a (fst p)) (snd p)) (af_coeffs f))) b_unbounded) (nth (S i) (suffixes_of (map (fun p : string * xq => b_scale (a_get a (fst p)) (snd p)) (af_coeffs f))) b_unbounded))) coef)) as T.
    destruct (tighten_variable a0 name _) as [a' chd]. cbn [fst] in T.
    destruct (a_infeasible a'); [exact T|]. eapply shr_trans; [exact T|apply IH]. }
  specialize (G (af_coeffs f) O a []). destruct (go O (af_coeffs f) a []) as [a1 changed]. cbn [fst] in *.
  destruct (b_intersection (a_ties a1) (a_tol a1) _ (required_bounds c)); [exact G|].
  eapply shr_trans; [exact G|apply shr_mark_inf].
Qed.

(* ---------- a general expression *)
Definition tshr (e : exp) : Prop := forall required st, shr (fst st) (fst (tighten_expression e required st)).

Lemma each_shr (l : list exp) (f : exp -> bounds -> astate * list string -> astate * list string) r :
  (forall e, In e l -> forall st, shr (fst st) (fst (f e r st))) ->
  forall st, shr (fst st) (fst ((fix each (l : list exp) (r : bounds) (st : astate * list string) : astate * list string :=
                       match l with [] => st | x :: xs => each xs r (f x r st) end) l r st)).
Proof.
  intros Hf. induction l as [|e l IH]; intros st; [apply shr_refl|].
  eapply shr_trans; [apply (Hf e (or_introl eq_refl) st)|]. apply (IH (fun x Hin => Hf x (or_intror Hin))).
Qed.

Theorem tighten_expression_shr : forall e, tshr e.
Proof.
  induction e using exp_ind'; intros required [a ch]; cbn [tighten_expression fst];
    (destruct (a_infeasible a); [apply shr_refl|]);
    (destruct (b_intersection (a_ties a) (a_tol a) (bounds_of a _) required) as [req|]; [|apply shr_mark_inf]).
  - apply shr_refl.
  - pose proof (shr_tv a s req) as T. destruct (tighten_variable a s req) as [a' c']. exact T.
  - destruct (xq_is_finite (hi req)); [apply (IHe _ (a, ch))|apply shr_refl].
  - destruct (xq_is_finite (lo req)); [|apply shr_refl].
    refine (each_shr l _ (mkB (lo req) PInf) _ (a, ch)). intros e Hin st. rewrite Forall_forall in H. apply (H e Hin).
  - destruct (xq_is_finite (hi req)); [|apply shr_refl].
    refine (each_shr l _ (mkB NInf (hi req)) _ (a, ch)). intros e Hin st. rewrite Forall_forall in H. apply (H e Hin).
  - apply shr_refl.
  - apply shr_refl.
  - apply shr_refl.
  - apply shr_refl.
  - apply shr_refl.
  - apply shr_refl.
  - destruct op; try apply shr_refl.
    + eapply shr_trans; [|apply IHe2]. apply (IHe1 _ (a, ch)).
    + eapply shr_trans; [|apply IHe2]. apply (IHe1 _ (a, ch)).
    + destruct e1; try (destruct e2; try apply shr_refl; destruct (xq_is_zero _); [apply shr_refl|apply (IHe1 _ (a, ch))]).
      destruct (xq_is_zero x); [apply shr_refl|apply (IHe2 _ (a, ch))].
    + destruct e2; try apply shr_refl. destruct (xq_is_zero x); [apply shr_refl|apply (IHe1 _ (a, ch))].
  - destruct op; [apply (IHe _ (a, ch))|apply shr_refl].
Qed.

Lemma shr_constraint_expression a c required : shr a (fst (tighten_constraint_expression a c required)).
Proof.
  unfold tighten_constraint_expression. cbv zeta.
  destruct (b_intersection (a_ties a) (a_tol a) _ required) as [req|]; [|apply shr_mark_inf].
  eapply shr_trans; [|apply tighten_expression_shr]. apply (tighten_expression_shr (c_lhs c) _ (a, [])).
Qed.

(* ---------- the work-list *)
Lemma shr_propagate : forall fuel cs forms names max_steps steps queue queued a,
  shr a (propagate_loop fuel cs forms names max_steps steps queue queued a).
Proof.
  induction fuel as [|fuel IH]; intros cs forms names max_steps steps queue queued a; cbn [propagate_loop]; [apply shr_mark_lim|].
  destruct queue as [|index queue]; [apply shr_refl|]. cbv zeta.
  destruct (Nat.leb max_steps steps); [apply shr_mark_lim|].
  set (c := nth index cs _).
  assert (T : shr a (fst (match nth index forms None with
                           | Some f => tighten_affine_form a f (c_cmp c)
                           | None => tighten_constraint_expression a c (required_bounds (c_cmp c)) end))).
  { destruct (nth index forms None); [apply shr_affine_form|apply shr_constraint_expression]. }
  destruct (match nth index forms None with Some f => _ | None => _ end) as [a' changed]. cbn [fst] in T.
  destruct (a_infeasible a'); [exact T|].
  match goal with |- context [fold_left ?f changed (queue, ?q0)] => destruct (fold_left f changed (queue, q0)) as [queue' queued'] end.
  eapply shr_trans; [exact T|apply IH].
Qed.

Theorem analyze_shrinks dom cs : shr (from_domain dom) (analyze dom cs).
Proof. unfold analyze, analyze_with, analyze_with_t. cbv zeta. apply shr_propagate. Qed.

(* ---------- the published type lies inside the declared type *)
Definition decl_ok (t : vtype) : Prop :=
  nn (b_of_vtype t) /\ match t with TIntegerRange l u => (i32_min <= l <= i32_max /\ i32_min <= u <= i32_max)%Z | _ => True end.

Lemma al_get_of_In {V} (m : list (string * V)) k v : NoDup (map fst m) -> In (k, v) m -> al_get m k = Some v.
Proof.
  induction m as [|[k' v'] r IH]; intros ND Hin; [destruct Hin|]. cbn [map fst] in ND. inversion ND as [|? ? Nk ND']; subst.
  cbn [al_get]. destruct Hin as [E|Hin].
  - inversion E; subst. rewrite String.eqb_refl. reflexivity.
  - destruct (String.eqb k k') eqn:Ek; [apply String.eqb_eq in Ek; subst k'; exfalso; apply Nk; apply in_map_iff; exists (k, v); split; [reflexivity|exact Hin]|].
    apply IH; assumption.
Qed.

Lemma from_domain_get dom n t : NoDup (map fst dom) -> In (n, t) dom -> a_get (from_domain dom) n = b_of_vtype t.
Proof.
  intros ND Hin. unfold a_get, from_domain, from_domain_t. cbn [a_vb].
  rewrite (al_get_of_In (map (fun p => (fst p, b_of_vtype (snd p))) dom) n (b_of_vtype t)); [reflexivity| |].
  - rewrite map_map. cbn [fst]. exact ND.
  - apply in_map_iff. exists (n, t). split; [reflexivity|exact Hin].
Qed.
Lemma al_get_In' {V} (l : list (string * V)) n v : al_get l n = Some v -> In (n, v) l.
Proof.
  induction l as [|[k w] r IH]; cbn [al_get]; [discriminate|]. destruct (String.eqb n k) eqn:E.
  - intros H. inversion H; subst. apply String.eqb_eq in E. subst. left. reflexivity.
  - intros H. right. apply IH. exact H.
Qed.
Lemma from_domain_nn dom : (forall n t, In (n, t) dom -> nn (b_of_vtype t)) -> nnst (from_domain dom).
Proof.
  intros H n. unfold a_get, from_domain, from_domain_t. cbn [a_vb].
  destruct (al_get (map (fun p => (fst p, b_of_vtype (snd p))) dom) n) as [b|] eqn:G; [|split; discriminate].
  apply al_get_In' in G. apply in_map_iff in G as [[k t] [E Hin]]. cbn [fst snd] in E. inversion E; subst. exact (H _ _ Hin).
Qed.

Lemma q_trunc_Z c : q_trunc (inject_Z c) = c.
Proof. unfold q_trunc. destruct (q_leb 0 (inject_Z c)); [apply Qfloor_Z|apply Qceiling_Z]. Qed.
Lemma ceil_ge (l : Z) (y : Q) : (inject_Z l - 1 < y)%Q -> (l <= Qceiling y)%Z.
Proof.
  intros H. destruct (Z_le_gt_dec l (Qceiling y)) as [L|G]; [exact L|]. exfalso.
  pose proof (Qle_ceiling y) as C. assert (Qceiling y <= l - 1)%Z by lia.
  assert (inject_Z (Qceiling y) <= inject_Z (l - 1))%Q by (rewrite <- Zle_Qle; assumption).
  unfold Zminus in H1. rewrite inject_Z_plus in H1. change (inject_Z (-1)) with (-1)%Q in H1.
  apply (Qlt_irrefl y). eapply Qle_lt_trans; [exact C|]. eapply Qle_lt_trans; [exact H1|]. exact H.
Qed.
Lemma floor_le (u : Z) (y : Q) : (y < inject_Z u + 1)%Q -> (Qfloor y <= u)%Z.
Proof.
  intros H. destruct (Z_le_gt_dec (Qfloor y) u) as [L|G]; [exact L|]. exfalso.
  pose proof (Qfloor_le y) as C. assert (u + 1 <= Qfloor y)%Z by lia.
  assert (inject_Z (u + 1) <= inject_Z (Qfloor y))%Q by (rewrite <- Zle_Qle; assumption).
  rewrite inject_Z_plus in H1. change (inject_Z 1) with 1%Q in H1.
  apply (Qlt_irrefl y). eapply Qlt_le_trans; [exact H|]. eapply Qle_trans; [exact H1|exact C].
Qed.

Lemma Q2R_injZ z : Q2R (inject_Z z) = IZR z.
Proof. unfold Q2R, inject_Z; cbn. rewrite Rinv_1. lra. Qed.
Lemma ceil_geR (l : Z) (y : Q) : IZR l - 1 < Q2R y -> (l <= Qceiling y)%Z.
Proof.
  intros H. apply ceil_ge. apply Rlt_Qlt. unfold Qminus. rewrite Q2R_plus, Q2R_opp, Q2R_injZ.
  replace (Q2R 1) with 1 by (unfold Q2R; cbn; lra). lra.
Qed.
Lemma floor_leR (u : Z) (y : Q) : Q2R y < IZR u + 1 -> (Qfloor y <= u)%Z.
Proof.
  intros H. apply floor_le. apply Rlt_Qlt. rewrite Q2R_plus, Q2R_injZ.
  replace (Q2R 1) with 1 by (unfold Q2R; cbn; lra). lra.
Qed.
Lemma tol_small a : exists t, a_tol a = Fin t /\ 0 < Q2R t < 1.
Proof. eexists. split; [reflexivity|]. unfold Q2R; cbn. lra. Qed.

Lemma tighten_type_inside a n t x :
  nn (a_get a n) -> sub_b (a_get a n) (b_of_vtype t) -> decl_ok t ->
  in_dom (tighten_type a n t) x -> in_dom t x.
Proof.
  intros Nn Sb [_ Ok]. unfold tighten_type.
  destruct (al_get (a_vb a) n) as [b|] eqn:G; [|intros H; exact H].
  assert (Eb : a_get a n = b) by (unfold a_get; rewrite G; reflexivity). rewrite Eb in Nn, Sb. destruct Nn as [N1 N2].
  destruct (b_degenerate b) eqn:Dg; [intros H; exact H|].
  unfold b_degenerate in Dg. apply orb_false_iff in Dg as [Dg D3]. apply orb_false_iff in Dg as [D1 D2].
  destruct t as [|l u|l u|l u].
  - intros H. exact H.
  - (* integer range *)
    destruct (tol_small a) as [tq [Et [T0 T1]]]. rewrite Et.
    destruct (xq_gtb (xq_ceil (xq_sub (lo b) (Fin tq))) (xq_floor (xq_add (hi b) (Fin tq)))); [intros H; exact H|]. cbn [in_dom]. intros [z [-> [Z1 Z2]]]. exists z. split; [reflexivity|].
    destruct Ok as [[Ol1 Ol2] [Ou1 Ou2]]. cbn [b_of_vtype] in Sb. unfold xq_of_Z in Sb.
    (* the box is not empty, so its ends are inside the declared range *)
    assert (Hlo : (l <= xq_as_i32 (xq_ceil (xq_sub (lo b) (Fin tq))))%Z).
    { destruct (lo b) as [q| | |] eqn:El; try congruence.
      - assert (Inb : in_b b (Q2R q)).
        { split; [rewrite El; cbn; lra|]. destruct (hi b) as [h| | |] eqn:Eh; cbn [R_le_xq].
          - unfold xq_gtb, xq_ltb in D1. apply q_ltb_false in D1. exact D1.
          - exact I.
          - cbn in D3. discriminate.
          - congruence. }
        destruct (Sb _ Inb) as [L _]. cbn [lo xq_le_R] in L. rewrite Q2R_injZ in L.
        cbn [xq_sub xq_neg xq_add xq_ceil xq_as_i32]. rewrite q_trunc_Z.
        assert (l <= Qceiling (qn (q + qn (- tq))))%Z by (apply ceil_geR; rewrite Q2R_qn, Q2R_plus, Q2R_qn, Q2R_opp; lra).
        lia.
      - cbn in D2. discriminate.
      - (* unbounded below: impossible inside a finite range *)
        exfalso. destruct (hi b) as [h| | |] eqn:Eh; try congruence.
        + assert (Inb : in_b b (Rmin (Q2R h) (IZR l) - 1)).
          { split; [rewrite El; exact I|rewrite Eh; cbn; pose proof (Rmin_l (Q2R h) (IZR l)); lra]. }
          destruct (Sb _ Inb) as [L _]. cbn [lo xq_le_R] in L. rewrite Q2R_injZ in L. pose proof (Rmin_r (Q2R h) (IZR l)). lra.
        + assert (Inb : in_b b (IZR l - 1)) by (split; [rewrite El; exact I|rewrite Eh; exact I]).
          destruct (Sb _ Inb) as [L _]. cbn [lo xq_le_R] in L. rewrite Q2R_injZ in L. lra.
        + cbn in D3. discriminate. }
    assert (Hhi : (xq_as_i32 (xq_floor (xq_add (hi b) (Fin tq))) <= u)%Z).
    { destruct (hi b) as [h| | |] eqn:Eh; try congruence.
      - assert (Inb : in_b b (Q2R h)).
        { split; [|rewrite Eh; cbn; lra]. destruct (lo b) as [q| | |] eqn:El; cbn [xq_le_R].
          - unfold xq_gtb, xq_ltb in D1. apply q_ltb_false in D1. exact D1.
          - cbn in D2. discriminate.
          - exact I.
          - congruence. }
        destruct (Sb _ Inb) as [_ U]. cbn [hi R_le_xq] in U. rewrite Q2R_injZ in U.
        cbn [xq_add xq_floor xq_as_i32]. rewrite q_trunc_Z.
        assert (Qfloor (qn (h + tq)) <= u)%Z by (apply floor_leR; rewrite Q2R_qn, Q2R_plus; lra).
        lia.
      - (* unbounded above: impossible *)
        exfalso. destruct (lo b) as [q| | |] eqn:El; try congruence.
        + assert (Inb : in_b b (Rmax (Q2R q) (IZR u) + 1)).
          { split; [rewrite El; cbn; pose proof (Rmax_l (Q2R q) (IZR u)); lra|rewrite Eh; exact I]. }
          destruct (Sb _ Inb) as [_ U]. cbn [hi R_le_xq] in U. rewrite Q2R_injZ in U. pose proof (Rmax_r (Q2R q) (IZR u)). lra.
        + cbn in D2. discriminate.
        + assert (Inb : in_b b (IZR u + 1)) by (split; [rewrite El; exact I|rewrite Eh; exact I]).
          destruct (Sb _ Inb) as [_ U]. cbn [hi R_le_xq] in U. rewrite Q2R_injZ in U. lra.
      - cbn in D3. discriminate. }
    lia.
  - cbn [in_dom b_of_vtype] in *. intros [X0 [X1 X2]].
    destruct (Sb x (conj (xq_max_lo_inv _ _ _ N1 X1) X2)) as [L U]. cbn [lo hi] in L, U. tauto.
  - cbn [in_dom b_of_vtype] in *. intros H. exact (Sb x H).
Qed.

(* the form the end-to-end theorem uses *)
Theorem published_inside_declared dom cs n t x :
  NoDup (map fst dom) -> (forall k t', In (k, t') dom -> decl_ok t') -> In (n, t) dom ->
  in_dom (tighten_type (analyze dom cs) n t) x -> in_dom t x.
Proof.
  intros ND Hok Hin.
  assert (N0 : nnst (from_domain dom)) by (apply from_domain_nn; intros k t' Hk; exact (proj1 (Hok k t' Hk))).
  destruct (analyze_shrinks dom cs N0) as [N1 S1].
  apply tighten_type_inside; [apply N1| |exact (Hok n t Hin)].
  rewrite <- (from_domain_get dom n t ND Hin). apply S1.
Qed.
