(* C10: soundness of simplify_logic_nary under the typed semantics. *)
From Coq Require Import QArith Qreals Reals ZArith Bool List String Lra Lia.
From Rooc Require Import Base.XQ Model.Exp Model.Sem Model.Simplify Proof.XQFacts Proof.SemFacts Proof.SimplifySound.
Import ListNotations.
Local Close Scope Q_scope.
Local Open Scope R_scope.
Local Open Scope list_scope.

Definition agg (is_and : bool) (vs : list R) : bool :=
  if is_and then forallb truthyR vs else existsb truthyR vs.

Lemma agg_app b l1 l2 : agg b (l1 ++ l2) = if b then agg b l1 && agg b l2 else agg b l1 || agg b l2.
Proof. destruct b; cbn [agg]; [apply forallb_app|apply existsb_app]. Qed.
Lemma agg_cons b v l : agg b (v :: l) = if b then truthyR v && agg b l else truthyR v || agg b l.
Proof. destruct b; reflexivity. Qed.

Section S.
  Variable rho : string -> R.
  Notation evT := (evg rho true).
  Notation evl := (evlist_ok rho true).

  Definition nary_node (is_and : bool) (l : list exp) : exp := if is_and then And l else Or l.

  Lemma evT_nary b l : evT (nary_node b l) = option_map (fun vs => bnR (agg b vs)) (evl l).
  Proof. destruct b; cbn [nary_node agg]; [apply evg_And|apply evg_Or]. Qed.

  Lemma splice_sound b sl : forall vs, evl sl = Some vs ->
    exists ws, evl (flat_map (nary_splice b) sl) = Some ws /\ agg b ws = agg b vs.
  Proof.
    induction sl as [|e sl IH]; intros vs H; cbn [evlist_ok flat_map] in *.
    - inversion H; subst. exists []; auto.
    - destruct (evT e) as [v|] eqn:Ee; [|discriminate].
      destruct (evl sl) as [vs'|] eqn:El; [|discriminate].
      destruct (operand_ok true e v) eqn:Ok; [|discriminate].
      inversion H; subst vs; clear H.
      destruct (IH vs' eq_refl) as [ws' [Hw Ha]].
      assert (Gen : evl ([e] ++ flat_map (nary_splice b) sl) = Some (v :: ws')).
      { cbn [app evlist_ok]. rewrite Ee, Hw, Ok. reflexivity. }
      assert (Dflt : exists ws, evl ([e] ++ flat_map (nary_splice b) sl) = Some ws /\ agg b ws = agg b (v :: vs')).
      { exists (v :: ws'); split; [exact Gen|]. rewrite !agg_cons, Ha. reflexivity. }
      destruct b; destruct e; cbn [nary_splice]; try exact Dflt.
      + (* And inside And *)
        rewrite evg_And in Ee. destruct (evl l) as [ivs|] eqn:Ei; [|discriminate].
        cbn [option_map] in Ee. inversion Ee; subst v; clear Ee.
        exists (ivs ++ ws'); split.
        * rewrite evlist_ok_app, Ei, Hw. reflexivity.
        * rewrite agg_app, agg_cons, Ha, truthyR_bnR. reflexivity.
      + (* Or inside Or *)
        rewrite evg_Or in Ee. destruct (evl l) as [ivs|] eqn:Ei; [|discriminate].
        cbn [option_map] in Ee. inversion Ee; subst v; clear Ee.
        exists (ivs ++ ws'); split.
        * rewrite evlist_ok_app, Ei, Hw. reflexivity.
        * rewrite agg_app, agg_cons, Ha, truthyR_bnR. reflexivity.
  Qed.

  Definition nonnum (e : exp) : Prop := is_num e = false.

  Lemma scan_sound b flat : forall acc ws accv,
    evl flat = Some ws -> evl (rev acc) = Some accv -> Forall nonnum acc ->
    match nary_scan b flat acc with
    | inl e => evT e = Some (bnR (agg b (accv ++ ws)))
    | inr l => Forall nonnum l /\ exists ls, evl l = Some ls /\ agg b ls = agg b (accv ++ ws)
    end.
  Proof.
    induction flat as [|e flat IH]; intros acc ws accv Hf Ha Hn; cbn [nary_scan evlist_ok] in *.
    - inversion Hf; subst ws. rewrite app_nil_r. split.
      + apply Forall_rev. exact Hn.
      + exists accv; auto.
    - destruct (evT e) as [v|] eqn:Ee; [|discriminate].
      destruct (evl flat) as [ws'|] eqn:El; [|discriminate].
      destruct (operand_ok true e v) eqn:Ok; [|discriminate].
      inversion Hf; subst ws; clear Hf.
      destruct (as_num e) as [x|] eqn:An.
      + apply as_num_Some in An; subst e.
        pose proof (num_truthy_ev rho true x v Ee) as Tv.
        destruct b; cbn [andb negb].
        * destruct (num_truthy x) eqn:Tx; cbn [negb].
          -- specialize (IH acc ws' accv eq_refl Ha Hn).
             replace (agg true (accv ++ v :: ws')) with (agg true (accv ++ ws')); [exact IH|].
             rewrite !agg_app, agg_cons, Tv. reflexivity.
          -- rewrite evg_Num_Fin, Q2R_0. f_equal.
             rewrite agg_app, agg_cons, Tv. rewrite andb_false_r. reflexivity.
        * destruct (num_truthy x) eqn:Tx; cbn [negb].
          -- rewrite evg_Num_Fin, Q2R_1. f_equal.
             rewrite agg_app, agg_cons, Tv. rewrite orb_true_r. reflexivity.
          -- specialize (IH acc ws' accv eq_refl Ha Hn).
             replace (agg false (accv ++ v :: ws')) with (agg false (accv ++ ws')); [exact IH|].
             rewrite !agg_app, agg_cons, Tv. reflexivity.
      + assert (Ha' : evl (rev (e :: acc)) = Some (accv ++ [v])).
        { cbn [rev]. rewrite evlist_ok_app, Ha. cbn [evlist_ok]. rewrite Ee, Ok. reflexivity. }
        specialize (IH (e :: acc) ws' (accv ++ [v]) eq_refl Ha' (Forall_cons _ (as_num_None _ An) Hn)).
        rewrite <- app_assoc in IH. exact IH.
  Qed.

  Lemma nary_finish_sound b flat ws :
    evl flat = Some ws -> evT (nary_finish b flat) = Some (bnR (agg b ws)).
  Proof.
    intros Hf. unfold nary_finish.
    pose proof (scan_sound b flat [] ws [] Hf eq_refl (Forall_nil _)) as H. cbn [app] in H.
    destruct (nary_scan b flat []) as [e|l]; [exact H|].
    destruct H as [Hn [ls [Hl Hag]]].
    destruct l as [|e [|e2 l]].
    - cbn [evlist_ok] in Hl. inversion Hl; subst ls. rewrite <- Hag. rewrite evg_logic_number.
      destruct b; reflexivity.
    - cbn [evlist_ok] in Hl. destruct (evT e) as [v|] eqn:Ee; [|discriminate].
      destruct (operand_ok true e v) eqn:Ok; [|discriminate]. inversion Hl; subst ls; clear Hl.
      inversion Hn as [|? ? Hne _]; subst. unfold nonnum in Hne.
      unfold operand_ok in Ok. rewrite Hne in Ok. cbn [negb orb] in Ok.
      apply is_binR_spec in Ok. rewrite <- Hag, agg_cons. f_equal. rewrite Ok at 1. f_equal.
      destruct b; cbn [agg forallb existsb]; [rewrite andb_true_r|rewrite orb_false_r]; reflexivity.
    - change (evT (nary_node b (e :: e2 :: l)) = Some (bnR (agg b ws))).
      rewrite evT_nary, Hl. cbn [option_map]. rewrite Hag. reflexivity.
  Qed.

  Lemma simp_nary_sound b sl v :
    evT (nary_node b sl) = Some v -> evT (simp_nary b sl) = Some v.
  Proof.
    rewrite evT_nary. destruct (evl sl) as [vs|] eqn:E; [|discriminate]. cbn [option_map].
    intros H; inversion H; subst v; clear H.
    destruct (splice_sound b sl vs E) as [ws [Hw Ha]].
    unfold simp_nary. rewrite (nary_finish_sound b _ ws Hw), Ha. reflexivity.
  Qed.
End S.
