(* C01/C02: the real-arithmetic content of every lowering arm of the linearizer, stated on the row
   patterns the code emits (linearizer.rs:292-375 abs, 380-592 min/max, 175-291 reified logic,
   1058-1203 directional witnesses).  Each lemma has a relaxation half (rows => value relation) and a
   tightness half (a choice of the auxiliaries satisfying the rows with the exact value exists). *)
From Coq Require Import Reals Lra Lia List.
Import ListNotations.
Local Open Scope R_scope.

Definition bin (x : R) : Prop := x = 0 \/ x = 1.

(* ---------- abs *)
(* one-sided rows  v >= t, v >= -t  (PreferLower): v over-approximates |t|, and |t| itself is allowed *)
Lemma abs_onesided_relax t v : v >= t -> v >= - t -> v >= Rabs t.
Proof. intros. unfold Rabs. destruct (Rcase_abs t); lra. Qed.
Lemma abs_onesided_tight t : Rabs t >= t /\ Rabs t >= - t.
Proof. unfold Rabs. destruct (Rcase_abs t); lra. Qed.

(* exact big-M pair with selector p:  v <= t - 2 lo (1 - p),  v <= -t + 2 hi p  *)
Lemma abs_exact_relax t v p lo hi :
  lo <= t <= hi -> bin p ->
  v >= t -> v >= - t -> v <= t - 2 * lo * (1 - p) -> v <= - t + 2 * hi * p -> v = Rabs t.
Proof. intros Hb [-> | ->] H1 H2 H3 H4; unfold Rabs; destruct (Rcase_abs t); lra. Qed.
Lemma abs_exact_tight t lo hi :
  lo <= t <= hi -> lo <= 0 -> 0 <= hi ->
  exists p, bin p /\ Rabs t >= t /\ Rabs t >= - t /\ Rabs t <= t - 2 * lo * (1 - p) /\ Rabs t <= - t + 2 * hi * p
            /\ 0 <= Rabs t <= Rmax (- lo) hi.
Proof.
  intros Hb Hl Hh. unfold Rabs. destruct (Rcase_abs t) as [N|P].
  - exists 0. unfold bin. pose proof (Rmax_l (- lo) hi). repeat split; try lra; auto.
  - exists 1. unfold bin. pose proof (Rmax_r (- lo) hi). repeat split; try lra; auto.
Qed.
(* sign-known shortcuts *)
Lemma abs_nonneg_shortcut t lo : lo <= t -> 0 <= lo -> Rabs t = t.
Proof. intros. apply Rabs_right. lra. Qed.
Lemma abs_nonpos_shortcut t hi : t <= hi -> hi <= 0 -> Rabs t = - t.
Proof. intros. apply Rabs_left1. lra. Qed.

(* ---------- max / min of two operands (the n-ary case folds these) *)
Lemma max_onesided_relax a b v : v >= a -> v >= b -> v >= Rmax a b.
Proof. intros. unfold Rmax. destruct (Rle_dec a b); lra. Qed.
Lemma min_onesided_relax a b v : v <= a -> v <= b -> v <= Rmin a b.
Proof. intros. unfold Rmin. destruct (Rle_dec a b); lra. Qed.

(* selector rows  v >= a_i,  v <= a_i + (U - l_i)(1 - s_i),  sum s_i = 1  with  l_i <= a_i, max <= U *)
Lemma max_select_relax a b v sa sb la lb U :
  la <= a -> lb <= b -> a <= U -> b <= U -> bin sa -> bin sb -> sa + sb = 1 ->
  v >= a -> v >= b -> v <= a + (U - la) * (1 - sa) -> v <= b + (U - lb) * (1 - sb) -> v = Rmax a b.
Proof.
  intros ? ? ? ? [-> | ->] [-> | ->] Hs; try lra; intros; unfold Rmax; destruct (Rle_dec a b); lra.
Qed.
Lemma max_select_tight a b la lb U :
  la <= a -> lb <= b -> a <= U -> b <= U ->
  exists sa sb, bin sa /\ bin sb /\ sa + sb = 1 /\ Rmax a b >= a /\ Rmax a b >= b
    /\ Rmax a b <= a + (U - la) * (1 - sa) /\ Rmax a b <= b + (U - lb) * (1 - sb).
Proof.
  intros. unfold Rmax. destruct (Rle_dec a b).
  - exists 0, 1. unfold bin. repeat split; try lra; auto. 
  - exists 1, 0. unfold bin. repeat split; try lra; auto.
Qed.
Lemma min_select_relax a b v sa sb ua ub L :
  a <= ua -> b <= ub -> L <= a -> L <= b -> bin sa -> bin sb -> sa + sb = 1 ->
  v <= a -> v <= b -> v >= a - (ua - L) * (1 - sa) -> v >= b - (ub - L) * (1 - sb) -> v = Rmin a b.
Proof.
  intros ? ? ? ? [-> | ->] [-> | ->] Hs; try lra; intros; unfold Rmin; destruct (Rle_dec a b); lra.
Qed.
Lemma min_select_tight a b ua ub L :
  a <= ua -> b <= ub -> L <= a -> L <= b ->
  exists sa sb, bin sa /\ bin sb /\ sa + sb = 1 /\ Rmin a b <= a /\ Rmin a b <= b
    /\ Rmin a b >= a - (ua - L) * (1 - sa) /\ Rmin a b >= b - (ub - L) * (1 - sb).
Proof.
  intros. unfold Rmin. destruct (Rle_dec a b).
  - exists 1, 0. unfold bin. repeat split; try lra; auto.
  - exists 0, 1. unfold bin. repeat split; try lra; auto.
Qed.
(* dominated-operand pruning: an operand whose upper bound is below another's lower bound never decides *)
Lemma max_dominated a b ua lb : a <= ua -> lb <= b -> ua <= lb -> Rmax a b = b.
Proof. intros. apply Rmax_right. lra. Qed.
Lemma min_dominated a b la ub : la <= a -> b <= ub -> ub <= la -> Rmin a b = b.
Proof. intros. apply Rmin_right. lra. Qed.

(* ---------- reified logic over binary operands (z is the Boolean auxiliary) *)
Definition band (a b : R) : R := a * b.
Lemma and_reify a b z : bin a -> bin b -> bin z ->
  (z <= a /\ z <= b /\ z >= a + b - 1) <-> z = a * b.
Proof. intros [-> | ->] [-> | ->] [-> | ->]; split; intros; try lra. Qed.
Lemma or_reify a b z : bin a -> bin b -> bin z ->
  (z >= a /\ z >= b /\ z <= a + b) <-> z = a + b - a * b.
Proof. intros [-> | ->] [-> | ->] [-> | ->]; split; intros; try lra. Qed.
Lemma implies_reify a b z : bin a -> bin b -> bin z ->
  (z >= 1 - a /\ z >= b /\ z <= 1 - a + b) <-> z = 1 - a + a * b.
Proof. intros [-> | ->] [-> | ->] [-> | ->]; split; intros; try lra. Qed.
Lemma iff_reify a b z : bin a -> bin b -> bin z ->
  (z >= a + b - 1 /\ z >= 1 - a - b /\ z <= 1 - a + b /\ z <= 1 + a - b) <-> z = 1 - a - b + 2 * a * b.
Proof. intros [-> | ->] [-> | ->] [-> | ->]; split; intros; try lra. Qed.
Lemma xor_reify a b z : bin a -> bin b -> bin z ->
  (z <= a + b /\ z >= a - b /\ z >= b - a /\ z <= 2 - a - b) <-> z = a + b - 2 * a * b.
Proof. intros [-> | ->] [-> | ->] [-> | ->]; split; intros; try lra. Qed.
Lemma not_affine a : bin a -> bin (1 - a).
Proof. intros [-> | ->]; [right|left]; lra. Qed.

(* n-ary and / or reification *)
Fixpoint rsum (l : list R) : R := match l with [] => 0 | x :: r => x + rsum r end.
Fixpoint all1 (l : list R) : Prop := match l with [] => True | x :: r => x = 1 /\ all1 r end.
Lemma rsum_bin_bounds l : Forall bin l -> 0 <= rsum l <= INR (length l).
Proof.
  induction 1 as [|x l [-> | ->] _ IH]; cbn [rsum length]; [cbn; lra| |]; rewrite S_INR; lra.
Qed.
Lemma all1_sum l : Forall bin l -> (all1 l <-> rsum l = INR (length l)).
Proof.
  induction 1 as [|x l Hx Hl IH]; cbn [rsum length all1]; [cbn; tauto|].
  rewrite S_INR. pose proof (rsum_bin_bounds l Hl). destruct Hx as [-> | ->]; split.
  - intros [? _]; lra.
  - intros; lra.
  - intros [_ H1]. apply IH in H1. lra.
  - intros. split; [reflexivity|]. apply IH. lra.
Qed.
Lemma and_nary_reify l z : Forall bin l -> bin z ->
  ((Forall (fun x => z <= x) l /\ z >= rsum l - (INR (length l) - 1)) <-> (z = 1 <-> all1 l)).
Proof.
  intros Hl Hz. pose proof (rsum_bin_bounds l Hl) as Hb. pose proof (all1_sum l Hl) as Ha. split.
  - intros [H1 H2]. split.
    + intros ->. apply Ha. clear Ha Hb H2. induction Hl as [|x l Hx Hl IH]; cbn [rsum length]; [reflexivity|].
      inversion H1; subst. rewrite S_INR. rewrite IH by assumption. destruct Hx; lra.
    + intros A. apply Ha in A. destruct Hz; lra.
  - intros H. destruct Hz as [-> | ->].
    + split; [apply Forall_forall; intros x Hx; rewrite Forall_forall in Hl; destruct (Hl x Hx); lra|].
      assert (~ all1 l) by (intros A; apply H in A; lra).
      assert (rsum l <> INR (length l)) by (intros E; apply H0; apply Ha; exact E).
      (* binary sum not equal to n is at most n - 1 *)
      clear H H0 Ha. revert H1 Hb. induction Hl as [|x l Hx Hl IH]; cbn [rsum length]; intros; [cbn in *; lra|].
      rewrite S_INR in *. pose proof (rsum_bin_bounds l Hl). destruct Hx as [-> | ->]; [lra|].
      assert (rsum l <> INR (length l)) by lra. specialize (IH H0 H). lra.
    + assert (A : all1 l) by (apply H; reflexivity). split.
      * clear -A Hl. induction Hl as [|x l Hx Hl IH]; constructor; destruct A; [lra|apply IH; assumption].
      * apply Ha in A. lra.
Qed.

(* ---------- directional witnesses: a witness w <= child rows only ever force w = 1 => formula holds *)
Lemma witness_and_true w a b : bin w -> w <= a -> w <= b -> w = 1 -> a >= 1 /\ b >= 1.
Proof. intros; lra. Qed.
Lemma witness_or_true w a b : bin w -> bin a -> bin b -> w <= a + b -> w = 1 -> a = 1 \/ b = 1.
Proof. intros Hw [-> | ->] [-> | ->] H E; subst; try lra; auto. Qed.
Lemma witness_iff_true w a b : bin a -> bin b -> w <= 1 - a + b -> w <= 1 + a - b -> w = 1 -> a = b.
Proof. intros [-> | ->] [-> | ->] H1 H2 E; subst; lra. Qed.
Lemma witness_iff_false w a b : bin a -> bin b -> w <= a + b -> w <= 2 - a - b -> w = 1 -> a <> b.
Proof. intros [-> | ->] [-> | ->] H1 H2 E; subst; lra. Qed.
(* tightness: when the formula holds, the witness may be set to 1; 0 is always allowed *)
Lemma witness_zero_ok a : 0 <= a -> 0 <= a.
Proof. auto. Qed.
