(* C07: every tightening step of bound propagation keeps all feasible points inside the box. *)
From Coq Require Import QArith Qreals Reals ZArith Bool List String Lra Lia.
From Rooc Require Import Base.XQ Model.Exp Model.Sem Model.Bounds Model.Spec
  Proof.XQFacts Proof.SemFacts Proof.ExpInd Proof.AListFacts Proof.IntervalSound Proof.BoundsOfSound.
Import ListNotations.
Local Close Scope Q_scope.
Local Open Scope R_scope.

Lemma a_get_set_same a vb n b : al_get vb n = Some b -> a_get (a_set_vb a vb) n = b.
Proof. unfold a_get, a_set_vb; cbn. intros ->. reflexivity. Qed.

Lemma box_sound_mark_infeasible a rho : box_sound a rho -> box_sound (a_mark_infeasible a) rho.
Proof. intros H n. exact (H n). Qed.
Lemma box_sound_mark_limit a rho : box_sound a rho -> box_sound (a_mark_limit a) rho.
Proof. intros H n. exact (H n). Qed.

Lemma box_sound_insert a rho n b :
  box_sound a rho -> in_b b (rho n) -> box_sound (a_set_vb a (al_insert (a_vb a) n b)) rho.
Proof.
  intros H Hb m. unfold a_get, a_set_vb; cbn.
  destruct (String.eqb m n) eqn:E.
  - apply String.eqb_eq in E; subst m. rewrite al_get_insert_same. exact Hb.
  - apply String.eqb_neq in E. rewrite al_get_insert_other by exact E. exact (H m).
Qed.

(* bounds.rs:630-646 *)
Lemma tighten_variable_sound a rho n cand :
  box_sound a rho -> in_b cand (rho n) -> box_sound (fst (tighten_variable a n cand)) rho.
Proof.
  intros H Hc. unfold tighten_variable.
  destruct (b_intersection (a_ties a) (a_tol a) (a_get a n) cand) as [t|] eqn:I.
  - pose proof (b_intersection_sound _ _ _ _ _ _ (H n) Hc I) as Ht.
    destruct (_ || _); cbn [fst]; [apply box_sound_insert; assumption|exact H].
  - cbn [fst]. apply box_sound_mark_infeasible. exact H.
Qed.

Lemma a_tol_mark a : a_tol (a_mark_infeasible a) = a_tol a.
Proof. reflexivity. Qed.

Section S.
  Variable rho : string -> R.
  Notation ev := (evg rho false).

  Definition tsound (e : exp) : Prop :=
    forall required a ch v, box_sound a rho -> ev e = Some v -> in_b required v ->
      box_sound (fst (tighten_expression e required (a, ch))) rho.

  Lemma each_sound (l : list exp) (f : exp -> bounds -> astate * list string -> astate * list string) r :
    (forall e, In e l -> forall st v, box_sound (fst st) rho -> ev e = Some v -> in_b r v -> box_sound (fst (f e r st)) rho) ->
    forall vs st, evlist rho false l = Some vs -> Forall (fun v => in_b r v) vs -> box_sound (fst st) rho ->
    box_sound (fst ((fix each (l : list exp) (r : bounds) (st : astate * list string) : astate * list string :=
                       match l with [] => st | x :: xs => each xs r (f x r st) end) l r st)) rho.
  Proof.
    intros Hf. induction l as [|e l IH]; intros vs st Hl Hv Hs; [exact Hs|].
    cbn [evlist] in Hl. destruct (ev e) as [v|] eqn:Ee; [|discriminate].
    destruct (evlist rho false l) as [vs'|] eqn:El; [|discriminate]. inversion Hl; subst vs; clear Hl.
    inversion Hv as [|? ? Hv1 Hv2]; subst.
    apply (IH (fun x Hin => Hf x (or_intror Hin)) vs' _ eq_refl Hv2).
    apply (Hf e (or_introl eq_refl) st v Hs Ee Hv1).
  Qed.

  Lemma fold_min_ge vs : forall c l, l <= fold_left Rmin vs c -> l <= c /\ Forall (fun v => l <= v) vs.
  Proof.
    induction vs as [|v vs IH]; intros c l H; cbn in H; [split; [exact H|constructor]|].
    destruct (IH _ _ H) as [H1 H2]. split.
    - pose proof (Rmin_l c v). lra.
    - constructor; [pose proof (Rmin_r c v); lra|exact H2].
  Qed.
  Lemma fold_max_le vs : forall c u, fold_left Rmax vs c <= u -> c <= u /\ Forall (fun v => v <= u) vs.
  Proof.
    induction vs as [|v vs IH]; intros c u H; cbn in H; [split; [exact H|constructor]|].
    destruct (IH _ _ H) as [H1 H2]. split.
    - pose proof (Rmax_l c v). lra.
    - constructor; [pose proof (Rmax_r c v); lra|exact H2].
  Qed.

  Lemma finite_hi_in r v : xq_is_finite (hi r) = true -> R_le_xq v (hi r) -> exists q, hi r = Fin q /\ v <= Q2R q.
  Proof. destruct (hi r); cbn; try discriminate. eauto. Qed.
  Lemma finite_lo_in r v : xq_is_finite (lo r) = true -> xq_le_R (lo r) v -> exists q, lo r = Fin q /\ Q2R q <= v.
  Proof. destruct (lo r); cbn; try discriminate. eauto. Qed.

  Theorem tighten_expression_sound : forall e, tsound e.
  Proof.
    induction e using exp_ind'; intros required a ch v Hbox Hv Hreq;
      cbn [tighten_expression]; destruct (a_infeasible a) eqn:Inf; try exact Hbox;
      pose proof (bounds_of_sound_ev a rho Hbox _ _ Hv) as Hcur;
      (destruct (b_intersection (a_ties a) (a_tol a) (bounds_of a _) required) as [req|] eqn:I;
       [pose proof (b_intersection_sound _ _ _ _ _ _ Hcur Hreq I) as Hr; clear I Hreq
       |cbn [fst]; apply box_sound_mark_infeasible; exact Hbox]).
    - (* Num *) exact Hbox.
    - (* Var *) cbn in Hv. inversion Hv; subst v.
      pose proof (tighten_variable_sound a rho s req Hbox Hr) as T.
      destruct (tighten_variable a s req) as [a' c']. exact T.
    - (* Abs *)
      rewrite evg_Abs in Hv. destruct (ev e) as [w|] eqn:E; [|discriminate]. inversion Hv; subst v.
      destruct (xq_is_finite (hi req)) eqn:F; [|exact Hbox].
      destruct Hr as [_ Hr2]. destruct (finite_hi_in _ _ F Hr2) as [q [Eq Hq]]. rewrite Eq.
      apply (IHe _ a ch w Hbox E). split; cbn [lo hi xq_neg].
      + cbn. rewrite Q2R_qn, Q2R_opp. unfold Rabs in Hq. destruct (Rcase_abs w); lra.
      + cbn. unfold Rabs in Hq. destruct (Rcase_abs w); lra.
    - (* Min *)
      rewrite evg_Min in Hv. destruct (evlist rho false l) as [vs|] eqn:E; [|discriminate].
      destruct (xq_is_finite (lo req)) eqn:F; [|exact Hbox].
      destruct Hr as [Hr1 _]. destruct (finite_lo_in _ _ F Hr1) as [q [Eq Hq]]. rewrite Eq.
      destruct vs as [|v0 vs]; [discriminate|]. cbn [fold_min] in Hv. inversion Hv; subst v.
      destruct (fold_min_ge _ _ _ Hq) as [H0 Hall].
      refine (each_sound l _ (mkB (Fin q) PInf) _ (v0 :: vs) (a, ch) E _ Hbox).
      + intros e Hin st w Hs He Hw. rewrite Forall_forall in H. destruct st as [a' c'].
        apply (H e Hin _ a' c' w Hs He Hw).
      + constructor; [split; cbn; [exact H0|exact I]|].
        eapply Forall_impl; [|exact Hall]. intros w Hw. split; cbn; [exact Hw|exact I].
    - (* Max *)
      rewrite evg_Max in Hv. destruct (evlist rho false l) as [vs|] eqn:E; [|discriminate].
      destruct (xq_is_finite (hi req)) eqn:F; [|exact Hbox].
      destruct Hr as [_ Hr2]. destruct (finite_hi_in _ _ F Hr2) as [q [Eq Hq]]. rewrite Eq.
      destruct vs as [|v0 vs]; [discriminate|]. cbn [fold_max] in Hv. inversion Hv; subst v.
      destruct (fold_max_le _ _ _ Hq) as [H0 Hall].
      refine (each_sound l _ (mkB NInf (Fin q)) _ (v0 :: vs) (a, ch) E _ Hbox).
      + intros e Hin st w Hs He Hw. rewrite Forall_forall in H. destruct st as [a' c'].
        apply (H e Hin _ a' c' w Hs He Hw).
      + constructor; [split; cbn; [exact I|exact H0]|].
        eapply Forall_impl; [|exact Hall]. intros w Hw. split; cbn; [exact I|exact Hw].
    - exact Hbox.
    - exact Hbox.
    - exact Hbox.
    - exact Hbox.
    - exact Hbox.
    - exact Hbox.
    - (* BinOp *)
      rewrite evg_BinOp in Hv. destruct (ev e1) as [x|] eqn:E1; [|discriminate].
      destruct (ev e2) as [y|] eqn:E2; [|discriminate].
      pose proof (bounds_of_sound_ev a rho Hbox _ _ E1) as B1.
      pose proof (bounds_of_sound_ev a rho Hbox _ _ E2) as B2.
      destruct op; cbn [operand_ok negb orb andb ev_binop] in Hv; try exact Hbox.
      + (* Add *) inversion Hv; subst v.
        assert (S1 : box_sound (fst (tighten_expression e1 (b_sub req (bounds_of a e2)) (a, ch))) rho).
        { apply (IHe1 _ a ch x Hbox E1). replace x with (x + y - y) by lra. apply b_sub_sound; assumption. }
        destruct (tighten_expression e1 (b_sub req (bounds_of a e2)) (a, ch)) as [a1 c1]. cbn [fst] in S1.
        apply (IHe2 _ a1 c1 y S1 E2). replace y with (x + y - x) by lra. apply b_sub_sound; assumption.
      + (* Sub *) inversion Hv; subst v.
        assert (S1 : box_sound (fst (tighten_expression e1 (b_add req (bounds_of a e2)) (a, ch))) rho).
        { apply (IHe1 _ a ch x Hbox E1). replace x with (x - y + y) by lra. apply b_add_sound; assumption. }
        destruct (tighten_expression e1 (b_add req (bounds_of a e2)) (a, ch)) as [a1 c1]. cbn [fst] in S1.
        apply (IHe2 _ a1 c1 y S1 E2). replace y with (x - (x - y)) by lra. apply b_sub_sound; assumption.
      + (* Mul *) inversion Hv; subst v.
        destruct e1; try (destruct e2; try exact Hbox;
          apply evg_Num_inv in E2 as [q [-> ->]];
          destruct (xq_is_zero (Fin q)) eqn:Z; [exact Hbox|];
          apply xq_is_zero_Fin_false in Z;
          match goal with |- box_sound (fst (tighten_expression ?e _ _)) _ => apply (IHe1 _ a ch x Hbox E1) end;
          replace x with (x * Q2R q / Q2R q) by (field; exact Z); apply b_div_by_sound; assumption).
        apply evg_Num_inv in E1 as [q [-> ->]].
        destruct (xq_is_zero (Fin q)) eqn:Z; [exact Hbox|]. apply xq_is_zero_Fin_false in Z.
        apply (IHe2 _ a ch y Hbox E2).
        replace y with (Q2R q * y / Q2R q) by (field; exact Z). apply b_div_by_sound; assumption.
      + (* Div *)
        destruct (Req_EM_T y 0) as [Zy|NZ]; [discriminate|]. inversion Hv; subst v.
        destruct e2; try exact Hbox. apply evg_Num_inv in E2 as [q [-> ->]].
        destruct (xq_is_zero (Fin q)) eqn:Z; [exact Hbox|].
        apply (IHe1 _ a ch x Hbox E1).
        replace x with (x / Q2R q * Q2R q) by (field; exact NZ). apply b_scale_sound. exact Hr.
    - (* UnOp *)
      destruct op; [|exact Hbox].
      rewrite evg_Neg in Hv. destruct (ev e) as [w|] eqn:E; [|discriminate]. inversion Hv; subst v.
      apply (IHe _ a ch w Hbox E). replace w with (- - w) by lra. apply b_neg_sound. exact Hr.
  Qed.

  (* required_bounds contains lhs - rhs of every satisfied constraint *)
  Lemma required_bounds_sound c l r : cmp_holds c l r -> in_b (required_bounds c) (l - r).
  Proof. destruct c; cbn; intros H; split; cbn; rewrite ?Q2R_0; try exact I; lra. Qed.

  (* bounds.rs:519-535 *)
  Theorem tighten_constraint_expression_sound a c :
    box_sound a rho -> sat_constr rho c ->
    box_sound (fst (tighten_constraint_expression a c (required_bounds (c_cmp c)))) rho.
  Proof.
    intros Hbox [l [r [El [Er Hc]]]]. unfold tighten_constraint_expression.
    pose proof (bounds_of_sound_ev a rho Hbox _ _ El) as Bl.
    pose proof (bounds_of_sound_ev a rho Hbox _ _ Er) as Br.
    pose proof (b_sub_sound _ _ _ _ Bl Br) as Bcur.
    pose proof (required_bounds_sound _ _ _ Hc) as Breq.
    destruct (b_intersection (a_ties a) (a_tol a) (b_sub (bounds_of a (c_lhs c)) (bounds_of a (c_rhs c))) (required_bounds (c_cmp c))) as [req|] eqn:I.
    - pose proof (b_intersection_sound _ _ _ _ _ _ Bcur Breq I) as Hr.
      assert (S1 : box_sound (fst (tighten_expression (c_lhs c) (b_add req (bounds_of a (c_rhs c))) (a, []))) rho).
      { apply (tighten_expression_sound _ _ a [] l Hbox El). replace l with (l - r + r) by lra. apply b_add_sound; assumption. }
      destruct (tighten_expression (c_lhs c) (b_add req (bounds_of a (c_rhs c))) (a, [])) as [a1 c1]. cbn [fst] in S1.
      apply (tighten_expression_sound _ _ a1 c1 r S1 Er). replace r with (l - (l - r)) by lra. apply b_sub_sound; assumption.
    - cbn [fst]. apply box_sound_mark_infeasible. exact Hbox.
  Qed.
End S.
