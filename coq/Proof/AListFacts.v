(* Facts about insertion-ordered association lists (the model of IndexMap). *)
From Coq Require Import Bool List String.
From Rooc Require Import Model.Bounds.
Import ListNotations.
Local Open Scope string_scope.

Section A.
  Context {V : Type}.

  Lemma al_get_insert_same (m : list (string * V)) k v : al_get (al_insert m k v) k = Some v.
  Proof.
    induction m as [|[k' v'] r IH]; cbn.
    - rewrite String.eqb_refl. reflexivity.
    - destruct (String.eqb k k') eqn:E; cbn.
      + rewrite String.eqb_refl. reflexivity.
      + rewrite E. exact IH.
  Qed.

  Lemma al_get_insert_other (m : list (string * V)) k k' v : k' <> k -> al_get (al_insert m k v) k' = al_get m k'.
  Proof.
    intros N. induction m as [|[k0 v0] r IH]; cbn.
    - destruct (String.eqb k' k) eqn:E; [apply String.eqb_eq in E; contradiction|reflexivity].
    - destruct (String.eqb k k0) eqn:E; cbn.
      + apply String.eqb_eq in E; subst k0.
        destruct (String.eqb k' k) eqn:E'; [apply String.eqb_eq in E'; contradiction|reflexivity].
      + destruct (String.eqb k' k0); [reflexivity|exact IH].
  Qed.

  Lemma al_get_remove_other (m : list (string * V)) k k' : k' <> k -> al_get (al_remove m k) k' = al_get m k'.
  Proof.
    intros N. induction m as [|[k0 v0] r IH]; cbn; [reflexivity|].
    destruct (String.eqb k k0) eqn:E.
    - apply String.eqb_eq in E; subst k0.
      destruct (String.eqb k' k) eqn:E'; [apply String.eqb_eq in E'; contradiction|reflexivity].
    - cbn. destruct (String.eqb k' k0); [reflexivity|exact IH].
  Qed.
End A.
