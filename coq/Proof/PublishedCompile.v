(* C07 at the level of the compiler's output: every range published for a declared variable contains
   the value of that variable in every assignment satisfying the source model. *)
From Coq Require Import QArith Qreals Reals ZArith Bool List String Lra Lia.
From Rooc Require Import Base.XQ Model.Exp Model.Sem Model.Simplify Model.Flatten Model.Bounds Model.Linearize Model.Spec
  Proof.AListFacts Proof.IntervalSound Proof.TightenSound Proof.PropagateSound Proof.PublishSound
  Proof.LinFrame Proof.WellFormed.
Import ListNotations.
Local Close Scope Q_scope.
Local Open Scope list_scope.

Definition decl_types (m : model) : list (string * vtype) := map (fun p => (fst p, dv_type (snd p))) (m_domain m).
Definition sat_model (m : model) (rho : string -> R) : Prop := feasible (decl_types m) (m_constraints m) rho.
Definition wf_domain (m : model) : Prop :=
  NoDup (map fst (m_domain m)) /\ forall n d, In (n, d) (m_domain m) -> wf_vtype (dv_type d).

Lemma al_get_In {V} (l : list (string * V)) n v : al_get l n = Some v -> In (n, v) l.
Proof.
  induction l as [|[k x] r IH]; cbn; [discriminate|]. destruct (String.eqb n k) eqn:E.
  - apply String.eqb_eq in E; subst. intros H; inversion H; left; reflexivity.
  - intros H. right. apply IH. exact H.
Qed.

Lemma NoDup_keys_unique {V} (l : list (string * V)) n v w :
  NoDup (map fst l) -> In (n, v) l -> In (n, w) l -> v = w.
Proof.
  induction l as [|[k x] r IH]; cbn; intros ND H1 H2; [destruct H1|].
  inversion ND as [|? ? Hn ND']; subst.
  destruct H1 as [E1|H1], H2 as [E2|H2].
  - congruence.
  - inversion E1; subst. exfalso. apply Hn. apply in_map_iff. exists (n, w); auto.
  - inversion E2; subst. exfalso. apply Hn. apply in_map_iff. exists (n, v); auto.
  - apply IH; assumption.
Qed.

Theorem published_sound m L rho :
  compile m = inr L -> wf_domain m -> sat_model m rho ->
  forall n d t, In (n, d) (m_domain m) -> al_get (lm_domain L) n = Some t -> in_dom t (rho n).
Proof.
  intros HC [ND Hwf] Hsat n d t Hin Hget.
  destruct (compile_inv m L HC) as [s2 [lobj [Hext [Hv [Hd [Hr Ho]]]]]].
  destruct Hext as [[extra Hdom] Hnd _]. cbn [s_dom] in Hdom.
  set (an := analyze (map (fun p => (fst p, dv_type (snd p))) (m_domain m)) (m_constraints m)) in *.
  assert (ND2 : NoDup (map fst (s_dom s2))).
  { apply Hnd. unfold keys; cbn [s_dom]. rewrite map_map. cbn [fst]. exact ND. }
  (* the entry of n in the final domain is the tightened declared one *)
  apply al_get_In in Hget. rewrite Hd in Hget. apply in_map_iff in Hget as [[n' dv] [E Hp]].
  cbn [fst snd] in E. inversion E; subst n' t; clear E. apply filter_In in Hp as [Hp _].
  assert (Hdecl : In (n, mkDV (tighten_type an n (dv_type d)) (dv_used d)) (s_dom s2)).
  { rewrite Hdom. apply in_or_app. left. apply in_map_iff. exists (n, d). split; [reflexivity|exact Hin]. }
  pose proof (NoDup_keys_unique _ _ _ _ ND2 Hp Hdecl) as ->. cbn [dv_type].
  apply tighten_type_sound.
  - reflexivity.
  - apply (Hwf n d Hin).
  - destruct Hsat as [Hdm _]. apply (Hdm n (dv_type d)). unfold decl_types. apply in_map_iff. exists (n, d). auto.
  - apply analyze_sound. exact Hsat.
Qed.
