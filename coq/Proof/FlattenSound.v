(* C10: Exp::flatten preserves the value of every expression at every real assignment
   (both for the plain and for the typed semantics). *)
From Coq Require Import QArith Qreals Reals ZArith Bool List String Lra Lia.
From Rooc Require Import Base.XQ Model.Exp Model.Sem Model.Flatten Proof.XQFacts Proof.SemFacts.
Import ListNotations.
Local Close Scope Q_scope.
Local Open Scope R_scope.
Local Open Scope list_scope.

Lemma as_addsub_Some a iop l r :
  as_addsub a = Some (iop, l, r) -> a = BinOp iop l r /\ (iop = Add \/ iop = Sub).
Proof.
  destruct a; cbn; try discriminate. destruct op; try discriminate; intros H; inversion H; subst; auto.
Qed.
Lemma as_neg_Some a x : as_neg a = Some x -> a = UnOp Neg x.
Proof. destruct a; cbn; try discriminate. destruct op; try discriminate. intros H; inversion H; auto. Qed.

Section S.
  Variable rho : string -> R.
  Variable t : bool.
  Notation evg := (evg rho t).

  Definition fgood (e e' : exp) : Prop :=
    (forall v, evg e = Some v -> evg e' = Some v) /\ (is_num e = true -> is_num e' = true).

  Lemma ev_addsub iop x y : iop = Add \/ iop = Sub ->
    ev_binop iop x y = Some (match iop with Add => x + y | _ => x - y end).
  Proof. intros [->| ->]; reflexivity. Qed.

  Lemma evg_addsub iop l r : iop = Add \/ iop = Sub ->
    evg (BinOp iop l r) = match evg l, evg r with
                          | Some x, Some y => Some (match iop with Add => x + y | _ => x - y end)
                          | _, _ => None end.
  Proof. intros H. rewrite evg_BinOp. destruct (evg l), (evg r); try reflexivity. destruct H as [->| ->]; reflexivity. Qed.

  Lemma bin_good n op a b e' :
    (forall e e', flatten_f n e = Some e' -> fgood e e') ->
    match flatten_f n a, flatten_f n b with Some fa, Some fb => Some (BinOp op fa fb) | _, _ => None end = Some e' ->
    forall v, evg (BinOp op a b) = Some v -> evg e' = Some v.
  Proof.
    intros IH H v Hv.
    destruct (flatten_f n a) as [fa|] eqn:Fa; [|discriminate].
    destruct (flatten_f n b) as [fb|] eqn:Fb; [|discriminate]. inversion H; subst e'; clear H.
    destruct (IH _ _ Fa) as [Ga Na]. destruct (IH _ _ Fb) as [Gb Nb].
    rewrite evg_BinOp in *.
    destruct (evg a) as [x|] eqn:Ea; [|discriminate]. destruct (evg b) as [y|] eqn:Eb; [|discriminate].
    rewrite (Ga x eq_refl), (Gb y eq_refl).
    assert (Oa : operand_ok t a x = true -> operand_ok t fa x = true).
    { unfold operand_ok. destruct t; cbn [negb orb]; [|auto]. destruct (is_num a); [rewrite (Na eq_refl); auto|].
      cbn [orb]. intros ->. apply orb_true_r. }
    assert (Ob : operand_ok t b y = true -> operand_ok t fb y = true).
    { unfold operand_ok. destruct t; cbn [negb orb]; [|auto]. destruct (is_num b); [rewrite (Nb eq_refl); auto|].
      cbn [orb]. intros ->. apply orb_true_r. }
    destruct op; try exact Hv;
      (destruct (operand_ok t a x) eqn:O1; [|discriminate]; destruct (operand_ok t b y) eqn:O2; [|discriminate];
       rewrite (Oa eq_refl), (Ob eq_refl); exact Hv).
  Qed.

  Theorem flatten_f_good : forall n e e', flatten_f n e = Some e' -> fgood e e'.
  Proof.
    induction n as [|n IH]; intros e e' H; [discriminate|].
    destruct e; cbn [flatten_f] in H; try (inversion H; subst; split; auto; fail).
    split; [|discriminate]. intros v Hv.
    destruct op; try (eapply bin_good; eauto; fail).
    - (* Mul *)
      destruct (as_addsub e1) as [[[iop l] r]|] eqn:A1.
      { apply as_addsub_Some in A1 as [-> Hop].
        apply (proj1 (IH _ _ H)). rewrite evg_BinOp in Hv. rewrite (evg_addsub iop l r Hop) in Hv.
        rewrite (evg_addsub iop _ _ Hop), !evg_BinOp.
        destruct (evg l) as [x|]; [|discriminate]. destruct (evg r) as [y|]; [|discriminate].
        destruct (evg e2) as [z|]; [|discriminate]. cbn [ev_binop] in *.
        inversion Hv; subst v. f_equal. destruct Hop as [->| ->]; ring. }
      destruct (as_addsub e2) as [[[iop l] r]|] eqn:A2.
      { apply as_addsub_Some in A2 as [-> Hop].
        apply (proj1 (IH _ _ H)). rewrite evg_BinOp in Hv. rewrite (evg_addsub iop l r Hop) in Hv.
        rewrite (evg_addsub iop _ _ Hop), !evg_BinOp.
        destruct (evg e1) as [z|]; [|discriminate].
        destruct (evg l) as [x|]; [|discriminate]. destruct (evg r) as [y|]; [|discriminate].
        cbn [ev_binop] in *.
        inversion Hv; subst v. f_equal. destruct Hop as [->| ->]; ring. }
      destruct (as_neg e1) as [l|] eqn:N1.
      { apply as_neg_Some in N1; subst e1.
        destruct (flatten_f n (BinOp Mul l e2)) as [f|] eqn:F; [|discriminate]. cbn [option_map] in H.
        inversion H; subst e'. rewrite evg_Neg.
        rewrite evg_BinOp, evg_Neg in Hv.
        destruct (evg l) as [x|] eqn:El; [|discriminate]. destruct (evg e2) as [z|] eqn:Ez; [|discriminate].
        cbn [option_map ev_binop] in Hv. inversion Hv; subst v.
        rewrite (proj1 (IH _ _ F) (x * z)); [cbn [option_map]; f_equal; ring|].
        rewrite evg_BinOp, El, Ez. reflexivity. }
      destruct (as_neg e2) as [r|] eqn:N2.
      { apply as_neg_Some in N2; subst e2.
        destruct (flatten_f n (BinOp Mul e1 r)) as [f|] eqn:F; [|discriminate]. cbn [option_map] in H.
        inversion H; subst e'. rewrite evg_Neg.
        rewrite evg_BinOp, evg_Neg in Hv.
        destruct (evg e1) as [x|] eqn:El; [|discriminate]. destruct (evg r) as [z|] eqn:Ez; [|discriminate].
        cbn [option_map ev_binop] in Hv. inversion Hv; subst v.
        rewrite (proj1 (IH _ _ F) (x * z)); [cbn [option_map]; f_equal; ring|].
        rewrite evg_BinOp, El, Ez. reflexivity. }
      eapply bin_good; eauto.
    - (* Div *)
      destruct (as_addsub e1) as [[[iop l] r]|] eqn:A1; [|eapply bin_good; eauto].
      apply as_addsub_Some in A1 as [-> Hop].
      destruct (flatten_f n (BinOp Div l e2)) as [fa|] eqn:Fa; [|discriminate].
      destruct (flatten_f n (BinOp Div r e2)) as [fb|] eqn:Fb; [|discriminate]. inversion H; subst e'; clear H.
      rewrite evg_BinOp in Hv. rewrite (evg_addsub iop l r Hop) in Hv.
      destruct (evg l) as [x|] eqn:El; [|discriminate]. destruct (evg r) as [y|] eqn:Er; [|discriminate].
      destruct (evg e2) as [z|] eqn:Ez; [|discriminate]. cbn [ev_binop] in Hv.
      destruct (Req_EM_T z 0) as [Z|NZ]; [discriminate|]. inversion Hv; subst v; clear Hv.
      rewrite (evg_addsub iop _ _ Hop).
      rewrite (proj1 (IH _ _ Fa) (x / z)), (proj1 (IH _ _ Fb) (y / z)).
      + f_equal. destruct Hop as [->| ->]; field; exact NZ.
      + rewrite evg_BinOp, Er, Ez. cbn [ev_binop]. destruct (Req_EM_T z 0); [contradiction|reflexivity].
      + rewrite evg_BinOp, El, Ez. cbn [ev_binop]. destruct (Req_EM_T z 0); [contradiction|reflexivity].
  Qed.
End S.

Theorem flatten_sound rho e e' v :
  flatten e = Some e' -> ev rho e = Some v -> ev rho e' = Some v.
Proof. unfold flatten, ev. intros H. apply (proj1 (flatten_f_good rho false _ _ _ H)). Qed.

Theorem flatten_sound_typed rho e e' v :
  flatten e = Some e' -> evT rho e = Some v -> evT rho e' = Some v.
Proof. unfold flatten, evT. intros H. apply (proj1 (flatten_f_good rho true _ _ _ H)). Qed.
