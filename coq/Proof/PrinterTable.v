(* C11: the printer/parser theorems instantiated with the operator table regenerated from the source. *)
From Coq Require Import Bool List Arith Lia String.
From Rooc Require Import Model.Exp Gen.PrattTable Model.Pratt Model.Printer Proof.PrattSound Proof.PrattTable
  Proof.PrinterWf Proof.PrinterParse Model.LinRow Proof.LinRowParse.
Import ListNotations.

Lemma src_prec_pos : forall op, 0 < src_prec op.
Proof. intros op. destruct op; vm_compute; lia. Qed.

(* the printers' table (math/operators.rs) and the parser's table (exp_parser.rs) order the operators the same way:
   checked for the REGENERATED tables, all 81 pairs *)
Definition all_binops : list binop := [Add; Sub; Mul; Div; BAnd; BOr; BXor; BImplies; BIff].
Lemma tables_compatible :
  forallb (fun a => forallb (fun b =>
     Bool.eqb (Nat.ltb (prt_prec a) (prt_prec b)) (Nat.ltb (src_prec a) (src_prec b)) &&
     Bool.eqb (Nat.eqb (prt_prec a) (prt_prec b)) (Nat.eqb (src_prec a) (src_prec b))) all_binops &&
     Bool.eqb (prt_rassoc a) (src_rassoc a)) all_binops = true.
Proof. vm_compute. reflexivity. Qed.
Lemma in_all_binops op : In op all_binops.
Proof. destruct op; cbn; tauto. Qed.
Lemma src_render_eq t : src_render t = render src_prec src_rassoc t.
Proof.
  unfold src_render. apply render_ext. apply needs_parens_ext.
  - intros a b. pose proof tables_compatible as H. rewrite forallb_forall in H. specialize (H a (in_all_binops a)).
    apply andb_prop in H as [H _]. rewrite forallb_forall in H. specialize (H b (in_all_binops b)).
    apply andb_prop in H as [H _]. apply Bool.eqb_prop in H. exact H.
  - intros a b. pose proof tables_compatible as H. rewrite forallb_forall in H. specialize (H a (in_all_binops a)).
    apply andb_prop in H as [H _]. rewrite forallb_forall in H. specialize (H b (in_all_binops b)).
    apply andb_prop in H as [_ H]. apply Bool.eqb_prop in H. exact H.
  - intros a. pose proof tables_compatible as H. rewrite forallb_forall in H. specialize (H a (in_all_binops a)).
    apply andb_prop in H as [_ H]. apply Bool.eqb_prop in H. exact H.
Qed.

Theorem src_parse_render t : src_pparse (pflatten (src_render t)) = Some t.
Proof. rewrite src_render_eq. apply parse_render; [exact src_prec_pos|exact src_prefix_tightest]. Qed.
Theorem src_format_idempotent t t' :
  src_pparse (pflatten (src_render t)) = Some t' -> pflatten (src_render t') = pflatten (src_render t).
Proof. rewrite src_parse_render. intros H. inversion H. reflexivity. Qed.
Theorem src_render_wf t : wfp src_prec src_rassoc src_pprec 0 (src_render t) /\ strip (src_render t) = t.
Proof. rewrite src_render_eq. apply render_roundtrip_structure. exact src_prec_pos. Qed.
Theorem src_pparse_complete p : wfp src_prec src_rassoc src_pprec 0 p -> src_pparse (pflatten p) = Some (strip p).
Proof. apply pparse_complete. exact src_prefix_tightest. Qed.
Theorem src_pparse_embeds ts : src_pparse (map PT ts) = src_parse ts.
Proof. apply pparse_embeds. Qed.
Lemma src_named_cases :
  pflatten (src_render (Bin Sub (Leaf 0) (Bin Sub (Leaf 1) (Leaf 2)))) =
    [PT (TAtom 0); PT (TInfix Sub); PLP; PT (TAtom 1); PT (TInfix Sub); PT (TAtom 2); PRP] /\
  pflatten (src_render (Bin Div (Leaf 0) (Bin Mul (Leaf 1) (Leaf 2)))) =
    [PT (TAtom 0); PT (TInfix Div); PLP; PT (TAtom 1); PT (TInfix Mul); PT (TAtom 2); PRP] /\
  pflatten (src_render (Bin Sub (Leaf 0) (Bin Add (Leaf 1) (Leaf 2)))) =
    [PT (TAtom 0); PT (TInfix Sub); PLP; PT (TAtom 1); PT (TInfix Add); PT (TAtom 2); PRP] /\
  pflatten (src_render (Bin Sub (Bin Sub (Leaf 0) (Leaf 1)) (Leaf 2))) =
    [PT (TAtom 0); PT (TInfix Sub); PT (TAtom 1); PT (TInfix Sub); PT (TAtom 2)] /\
  pflatten (src_render (Bin Add (Leaf 0) (Bin Mul (Leaf 1) (Leaf 2)))) =
    [PT (TAtom 0); PT (TInfix Add); PT (TAtom 1); PT (TInfix Mul); PT (TAtom 2)] /\
  pflatten (src_render (Bin BImplies (Bin BImplies (Leaf 0) (Leaf 1)) (Leaf 2))) =
    [PLP; PT (TAtom 0); PT (TInfix BImplies); PT (TAtom 1); PRP; PT (TInfix BImplies); PT (TAtom 2)].
Proof. vm_compute. repeat split. Qed.

(* rows of the rendered linear model, with the regenerated table *)
Theorem src_row_parses signs t :
  row_tree signs = Some t ->
  src_pparse (row_tokens signs) = Some t /\ forall av, QArith_base.Qeq (teval av t) (row_sum av 0 signs).
Proof.
  apply row_parses; [exact src_prec_pos|exact src_prefix_tightest|vm_compute; reflexivity|vm_compute; reflexivity|vm_compute; reflexivity].
Qed.
