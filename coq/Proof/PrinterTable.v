(* C11: the printer/parser theorems instantiated with the operator table regenerated from the source. *)
From Coq Require Import Bool List Arith Lia String.
From Rooc Require Import Model.Exp Gen.PrattTable Model.Pratt Model.Printer Proof.PrattSound Proof.PrattTable
  Proof.PrinterWf Proof.PrinterParse.
Import ListNotations.

Lemma src_prec_pos : forall op, 0 < src_prec op.
Proof. intros op. destruct op; vm_compute; lia. Qed.

Theorem src_parse_render t : src_pparse (pflatten (src_render t)) = Some t.
Proof. apply parse_render; [exact src_prec_pos|exact src_prefix_tightest]. Qed.
Theorem src_format_idempotent t t' :
  src_pparse (pflatten (src_render t)) = Some t' -> pflatten (src_render t') = pflatten (src_render t).
Proof. rewrite src_parse_render. intros H. inversion H. reflexivity. Qed.
Theorem src_render_wf t : wfp src_prec src_rassoc src_pprec 0 (src_render t) /\ strip (src_render t) = t.
Proof. apply render_roundtrip_structure. exact src_prec_pos. Qed.
Theorem src_pparse_complete p : wfp src_prec src_rassoc src_pprec 0 p -> src_pparse (pflatten p) = Some (strip p).
Proof. apply pparse_complete. exact src_prefix_tightest. Qed.
Theorem src_pparse_embeds ts : src_pparse (map PT ts) = src_parse ts.
Proof. apply pparse_embeds. Qed.
Lemma src_named_cases :
  pflatten (src_render (Bin Sub (Leaf 0) (Bin Sub (Leaf 1) (Leaf 2)))) =
    [PT (TAtom 0); PT (TInfix Sub); PLP; PT (TAtom 1); PT (TInfix Sub); PT (TAtom 2); PRP] /\
  pflatten (src_render (Bin Div (Leaf 0) (Bin Mul (Leaf 1) (Leaf 2)))) =
    [PT (TAtom 0); PT (TInfix Div); PLP; PT (TAtom 1); PT (TInfix Mul); PT (TAtom 2); PRP] /\
  pflatten (src_render (Bin Sub (Leaf 0) (Bin Add (Leaf 1) (Leaf 2)))) =
    [PT (TAtom 0); PT (TInfix Sub); PLP; PT (TAtom 1); PT (TInfix Add); PT (TAtom 2); PRP] /\
  pflatten (src_render (Bin Sub (Bin Sub (Leaf 0) (Leaf 1)) (Leaf 2))) =
    [PT (TAtom 0); PT (TInfix Sub); PT (TAtom 1); PT (TInfix Sub); PT (TAtom 2)] /\
  pflatten (src_render (Bin Add (Leaf 0) (Bin Mul (Leaf 1) (Leaf 2)))) =
    [PT (TAtom 0); PT (TInfix Add); PT (TAtom 1); PT (TInfix Mul); PT (TAtom 2)] /\
  pflatten (src_render (Bin BImplies (Bin BImplies (Leaf 0) (Leaf 1)) (Leaf 2))) =
    [PLP; PT (TAtom 0); PT (TInfix BImplies); PT (TAtom 1); PRP; PT (TInfix BImplies); PT (TAtom 2)].
Proof. vm_compute. repeat split. Qed.
