(* Facts linking the executable number model to the reals. *)
From Coq Require Import QArith Qreals Qabs Reals ZArith Bool List Lra Lia.
From Rooc Require Import Base.XQ.
Local Close Scope Q_scope.
Local Open Scope R_scope.

Lemma Q2R_qn q : Q2R (qn q) = Q2R q.
Proof. apply Qeq_eqR. apply Qred_correct. Qed.

Lemma Q2R_0 : Q2R 0%Q = 0.
Proof. unfold Q2R; simpl; lra. Qed.
Lemma Q2R_1 : Q2R 1%Q = 1.
Proof. unfold Q2R; simpl; lra. Qed.

Lemma q_eqb_true a b : q_eqb a b = true -> Q2R a = Q2R b.
Proof. unfold q_eqb; intros H. apply Qeq_eqR. apply Qeq_bool_iff; exact H. Qed.

Lemma q_eqb_false a b : q_eqb a b = false -> Q2R a <> Q2R b.
Proof.
  unfold q_eqb; intros H E. apply eqR_Qeq in E. apply Qeq_bool_iff in E. congruence.
Qed.

Lemma q_leb_true a b : q_leb a b = true -> Q2R a <= Q2R b.
Proof. unfold q_leb; intros H. apply Qle_Rle. apply Qle_bool_iff; exact H. Qed.

Lemma q_leb_false a b : q_leb a b = false -> Q2R b < Q2R a.
Proof.
  unfold q_leb; intros H. apply Qlt_Rlt. apply Qnot_le_lt. intro L.
  apply Qle_bool_iff in L. congruence.
Qed.

Lemma q_ltb_true a b : q_ltb a b = true -> Q2R a < Q2R b.
Proof. unfold q_ltb; intros H. apply negb_true_iff in H. apply (q_leb_false b a). exact H. Qed.

Lemma q_ltb_false a b : q_ltb a b = false -> Q2R b <= Q2R a.
Proof. unfold q_ltb; intros H. apply negb_false_iff in H. apply (q_leb_true b a). exact H. Qed.

Lemma Q2R_q_abs a : Q2R (q_abs a) = Rabs (Q2R a).
Proof.
  unfold q_abs. destruct (q_leb 0 a) eqn:E.
  - apply q_leb_true in E. rewrite Q2R_0 in E. rewrite Rabs_right; lra.
  - apply q_leb_false in E. rewrite Q2R_0 in E. rewrite Q2R_opp. rewrite Rabs_left; lra.
Qed.

Lemma Q2R_q_min a b : Q2R (q_min a b) = Rmin (Q2R a) (Q2R b).
Proof.
  unfold q_min. destruct (q_leb a b) eqn:E.
  - apply q_leb_true in E. rewrite Rmin_left; lra.
  - apply q_leb_false in E. rewrite Rmin_right; lra.
Qed.

Lemma Q2R_q_max a b : Q2R (q_max a b) = Rmax (Q2R a) (Q2R b).
Proof.
  unfold q_max. destruct (q_leb a b) eqn:E.
  - apply q_leb_true in E. rewrite Rmax_right; lra.
  - apply q_leb_false in E. rewrite Rmax_left; lra.
Qed.

Lemma xq_is_zero_Fin q : xq_is_zero (Fin q) = true -> Q2R q = 0.
Proof. unfold xq_is_zero; simpl. intros H. apply q_eqb_true in H. rewrite H. apply Q2R_0. Qed.
Lemma xq_is_zero_Fin_false q : xq_is_zero (Fin q) = false -> Q2R q <> 0.
Proof. unfold xq_is_zero; simpl. intros H. apply q_eqb_false in H. rewrite Q2R_0 in H. exact H. Qed.
Lemma xq_is_one_Fin q : xq_is_one (Fin q) = true -> Q2R q = 1.
Proof. unfold xq_is_one; simpl. intros H. apply q_eqb_true in H. rewrite H. apply Q2R_1. Qed.

Lemma xq_max_Fin a b : exists c, xq_max (Fin a) (Fin b) = Fin c /\ Q2R c = Rmax (Q2R a) (Q2R b).
Proof.
  cbn [xq_max]. unfold xq_leb; cbn [xq_ltb xq_eqb].
  destruct (q_ltb a b) eqn:L; cbn [orb].
  - exists b; split; [reflexivity|]. apply q_ltb_true in L. rewrite Rmax_right; lra.
  - destruct (q_eqb a b) eqn:Q.
    + exists b; split; [reflexivity|]. apply q_eqb_true in Q. rewrite Rmax_right; lra.
    + exists a; split; [reflexivity|]. apply q_ltb_false in L. rewrite Rmax_left; lra.
Qed.
Lemma xq_min_Fin a b : exists c, xq_min (Fin a) (Fin b) = Fin c /\ Q2R c = Rmin (Q2R a) (Q2R b).
Proof.
  cbn [xq_min]. unfold xq_leb; cbn [xq_ltb xq_eqb].
  destruct (q_ltb a b) eqn:L; cbn [orb].
  - exists a; split; [reflexivity|]. apply q_ltb_true in L. rewrite Rmin_left; lra.
  - destruct (q_eqb a b) eqn:Q.
    + exists a; split; [reflexivity|]. apply q_eqb_true in Q. rewrite Rmin_left; lra.
    + exists b; split; [reflexivity|]. apply q_ltb_false in L. rewrite Rmin_right; lra.
Qed.
