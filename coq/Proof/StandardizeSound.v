(* C13: the row-level facts behind the standard-form conversion. *)
From Coq Require Import QArith Qreals Reals ZArith Bool List String Lra Lia.
From Rooc Require Import Base.XQ Model.Exp Model.Bounds Model.Linearize Model.Spec Model.Standardize
  Proof.XQFacts Proof.PivotSound.
Import ListNotations.
Local Close Scope Q_scope.
Local Open Scope R_scope.

(* EqualityConstraint::new: the stored right-hand side is non-negative and the row denotes the same equation *)
Lemma dotx_neg cs : forall x, Forall finx cs ->
  dotx (map (fun c => xq_mul c (Fin (-1)%Q)) cs) x = - dotx cs x.
Proof.
  induction cs as [|c cs IH]; intros x Hf; [cbn; lra|]. destruct x as [|v x]; [cbn; lra|].
  inversion Hf; subst. destruct (finx_inv _ H1) as [q ->]. cbn [map dotx xq_mul xval].
  rewrite IH by assumption. rewrite Q2R_qn, Q2R_mult. replace (Q2R (-1)) with (-1) by (unfold Q2R; cbn; lra). lra.
Qed.

Theorem eq_new_sound cs rhs x :
  Forall finx cs -> finx rhs ->
  0 <= xval (eq_rhs (eq_new cs rhs)) /\
  (dotx (eq_coeffs (eq_new cs rhs)) x = xval (eq_rhs (eq_new cs rhs)) <-> dotx cs x = xval rhs).
Proof.
  intros Hc Hr. destruct (finx_inv _ Hr) as [q ->]. unfold eq_new.
  destruct (xq_ltb (Fin q) (Fin 0%Q)) eqn:L; cbn [eq_coeffs eq_rhs].
  - cbn in L. apply q_ltb_true in L. rewrite Q2R_0 in L. cbn [xq_neg xval]. rewrite Q2R_qn, Q2R_opp.
    split; [lra|]. rewrite dotx_neg by assumption. cbn. lra.
  - cbn in L. apply q_ltb_false in L. rewrite Q2R_0 in L. cbn. split; [lra|tauto].
Qed.

(* slack / surplus: an inequality is an equation with one extra non-negative variable *)
Theorem slack_sound (lhs rhs : R) : lhs <= rhs <-> exists s, 0 <= s /\ lhs + 1 * s = rhs.
Proof. split; [intros H; exists (rhs - lhs); lra|intros [s [H1 H2]]; lra]. Qed.
Theorem surplus_sound (lhs rhs : R) : lhs >= rhs <-> exists s, 0 <= s /\ lhs + -1 * s = rhs.
Proof. split; [intros H; exists (lhs - rhs); lra|intros [s [H1 H2]]; lra]. Qed.

(* free variables: every real is the difference of two non-negative parts, and the two appended columns
   (c, -c) reproduce the original term *)
Theorem free_split_sound (c v : R) : exists p m, 0 <= p /\ 0 <= m /\ v = p - m /\ c * p + - c * m = c * v.
Proof.
  destruct (Rle_or_lt 0 v); [exists v, 0|exists 0, (- v)]; repeat split; lra.
Qed.
Theorem free_back_sound (c p m : R) : c * p + - c * m = c * (p - m).
Proof. lra. Qed.

(* objective flip for max: minimising -f is maximising f; the offset stays in the original frame *)
Theorem flip_sound (f1 f2 off : R) : (- f1 <= - f2) <-> (f1 + off >= f2 + off).
Proof. lra. Qed.

(* shape: every produced row went through eq_new, hence has a non-negative right-hand side *)
Lemma normalize_row_rhs r ctx e added ctx' :
  normalize_row r ctx = inr (e, added, ctx') -> Forall finx (lr_coeffs r) -> finx (lr_rhs r) -> 0 <= xval (eq_rhs e).
Proof.
  unfold normalize_row. destruct ctx as [[su sl] tot]. intros H Hc Hr.
  destruct (lr_cmp r); try discriminate; inversion H; subst; clear H.
  - destruct (finx_inv _ Hr) as [q Eq]. rewrite Eq. unfold eq_new.
    destruct (xq_ltb (Fin q) (Fin 0%Q)) eqn:L; cbn [eq_rhs]; cbn in L.
    + apply q_ltb_true in L. rewrite Q2R_0 in L. cbn. rewrite Q2R_qn, Q2R_opp. lra.
    + apply q_ltb_false in L. rewrite Q2R_0 in L. cbn. lra.
  - destruct (finx_inv _ Hr) as [q Eq]. rewrite Eq. unfold eq_new.
    destruct (xq_ltb (Fin q) (Fin 0%Q)) eqn:L; cbn [eq_rhs]; cbn in L.
    + apply q_ltb_true in L. rewrite Q2R_0 in L. cbn. rewrite Q2R_qn, Q2R_opp. lra.
    + apply q_ltb_false in L. rewrite Q2R_0 in L. cbn. lra.
  - destruct (finx_inv _ Hr) as [q Eq]. rewrite Eq. unfold eq_new.
    destruct (xq_ltb (Fin q) (Fin 0%Q)) eqn:L; cbn [eq_rhs]; cbn in L.
    + apply q_ltb_true in L. rewrite Q2R_0 in L. cbn. rewrite Q2R_qn, Q2R_opp. lra.
    + apply q_ltb_false in L. rewrite Q2R_0 in L. cbn. lra.
Qed.
