(* C06: facts about the reference expander.
   - ranges: exactly the whole numbers from the first end up to (or including) the second, in increasing order
   - nested iteration is the lexicographic product, first binder outermost
   - aggregation: a sum / product / average block denotes the sum / product / mean of its operands, whatever the fold
     direction: the right-nested tree the compiler builds and the left-nested tree of the hand-written `a + b + c`
     have the same value at every assignment; the empty sum is 0 and the empty product is 1
   - index flattening is injective on whole-number indexes of equal length (x_1_23 is not x_12_3). *)
From Coq Require Import QArith Qround Qreals Reals ZArith Bool List String Ascii Lia Lra Decimal DecimalString DecimalZ.
From Rooc Require Import Base.XQ Model.Exp Model.Sem Model.Expand Proof.XQFacts Proof.SemFacts.
Import ListNotations.
Local Close Scope Q_scope.
Local Open Scope list_scope.

(* ---------- ranges *)
Lemma zrange_length n lo : List.length (zrange n lo) = n.
Proof. revert lo; induction n as [|n IH]; intros lo; cbn [zrange List.length]; [reflexivity|]. rewrite IH. reflexivity. Qed.
Lemma zrange_nth n : forall lo k, (k < n)%nat -> nth_error (zrange n lo) k = Some (znum (lo + Z.of_nat k)).
Proof.
  induction n as [|n IH]; intros lo k Hk; [lia|]. cbn [zrange]. destruct k as [|k]; cbn [nth_error].
  - rewrite Z.add_0_r. reflexivity.
  - rewrite IH by lia. f_equal. f_equal. lia.
Qed.
Lemma whole_znum z : whole (Fin (inject_Z z)) = Some z.
Proof. unfold whole. rewrite Qfloor_Z. rewrite (proj2 (Qeq_bool_iff _ _) (Qeq_refl _)). reflexivity. Qed.

Theorem range_spec env lo hi (incl : bool) (a b : Z) :
  ieval env lo = Some (znum a) -> ieval env hi = Some (znum b) ->
  let last := if incl then (b + 1)%Z else b in
  exists l, ieval env (IRange lo hi incl) = Some (DList l) /\
            List.length l = Z.to_nat (last - a) /\
            forall k, (k < Z.to_nat (last - a))%nat -> nth_error l k = Some (znum (a + Z.of_nat k)).
Proof.
  intros Hlo Hhi last. cbn [ieval]. rewrite Hlo, Hhi. unfold znum at 1 2. rewrite !whole_znum.
  eexists. split; [reflexivity|]. split; [apply zrange_length|]. intros k Hk. apply zrange_nth. exact Hk.
Qed.
(* in particular the range is empty exactly when it should be *)
Corollary range_empty env lo hi (incl : bool) (a b : Z) :
  ieval env lo = Some (znum a) -> ieval env hi = Some (znum b) ->
  ((if incl then b + 1 else b) <= a)%Z -> ieval env (IRange lo hi incl) = Some (DList []).
Proof.
  intros Hlo Hhi Hle. destruct (range_spec env lo hi incl a b Hlo Hhi) as [l [E [L _]]].
  rewrite E. replace (Z.to_nat _) with O in L by lia. destruct l; [reflexivity|discriminate].
Qed.

(* ---------- nested iteration *)
Definition step_of (rest : list (pat * iex)) (env : denv) (p : pat) (acc : option (list denv)) (v : dval) : option (list denv) :=
  match acc, bind_pat env p v with
  | Some done, Some env' => match iter_envs rest env' with Some inner => Some (done ++ inner) | None => None end
  | _, _ => None
  end.
Lemma iter_envs_cons p it rest env vs :
  ieval env it = Some (DList vs) -> iter_envs ((p, it) :: rest) env = fold_left (step_of rest env p) vs (Some []).
Proof. intros H. cbn [iter_envs]. rewrite H. reflexivity. Qed.
Lemma fold_step_none rest env p vs : fold_left (step_of rest env p) vs None = None.
Proof. induction vs; [reflexivity|]. cbn [fold_left step_of]. exact IHvs. Qed.
(* first binder outermost: the environments of the first value come first, then those of the remaining values *)
Lemma fold_step_app rest env p : forall vs acc,
  fold_left (step_of rest env p) vs (Some acc) =
  match fold_left (step_of rest env p) vs (Some []) with Some r => Some (acc ++ r) | None => None end.
Proof.
  induction vs as [|v vs IH]; intros acc; cbn [fold_left]; [rewrite app_nil_r; reflexivity|].
  unfold step_of at 2 4. destruct (bind_pat env p v) as [e'|]; [|rewrite !fold_step_none; reflexivity].
  destruct (iter_envs rest e') as [inner|]; [|rewrite !fold_step_none; reflexivity].
  rewrite IH. rewrite (IH (@nil denv ++ inner)). cbn [app].
  destruct (fold_left (step_of rest env p) vs (Some [])); [rewrite app_assoc; reflexivity|reflexivity].
Qed.
Theorem iter_envs_lexicographic p it rest env v vs e' inner tail :
  ieval env it = Some (DList (v :: vs)) -> bind_pat env p v = Some e' -> iter_envs rest e' = Some inner ->
  fold_left (step_of rest env p) vs (Some []) = Some tail ->
  iter_envs ((p, it) :: rest) env = Some (inner ++ tail).
Proof.
  intros H B I T. rewrite (iter_envs_cons _ _ _ _ _ H). cbn [fold_left]. unfold step_of at 2. rewrite B, I. cbn [app].
  rewrite fold_step_app, T. reflexivity.
Qed.

(* ---------- aggregation *)
Local Open Scope R_scope.
Section Agg.
  Variable rho : string -> R.
  Notation ev := (ev rho).
  Notation evl := (evlist rho false).

  Fixpoint sumR (l : list R) : R := match l with [] => 0 | x :: xs => x + sumR xs end.
  Fixpoint prodR (l : list R) : R := match l with [] => 1 | x :: xs => x * prodR xs end.
  (* what the parser builds for the hand-written `a op b op c`: ((a op b) op c) *)
  Definition left_nested (op : binop) (neutral : exp) (l : list exp) : exp :=
    match l with [] => neutral | x :: xs => fold_left (fun acc e => BinOp op acc e) xs x end.

  Lemma Q2R0 : Q2R 0 = 0.  Proof. apply Q2R_0. Qed.
  Lemma Q2R1' : Q2R 1 = 1.  Proof. apply Q2R_1. Qed.

  Lemma ev_add a b : ev (BinOp Add a b) = match ev a, ev b with Some x, Some y => Some (x + y) | _, _ => None end.
  Proof. unfold Sem.ev. rewrite evg_BinOp. destruct (evg rho false a); [|reflexivity]. destruct (evg rho false b); reflexivity. Qed.
  Lemma ev_mul a b : ev (BinOp Mul a b) = match ev a, ev b with Some x, Some y => Some (x * y) | _, _ => None end.
  Proof. unfold Sem.ev. rewrite evg_BinOp. destruct (evg rho false a); [|reflexivity]. destruct (evg rho false b); reflexivity. Qed.

  Lemma right_sum l : ev (fold_right_op Add (Num (Fin 0%Q)) l) = option_map sumR (evl l).
  Proof.
    induction l as [|x xs IH]; [unfold Sem.ev; cbn; rewrite Q2R0; reflexivity|].
    destruct xs as [|y ys].
    - cbn [fold_right_op evlist]. fold (ev x). destruct (ev x); cbn [option_map sumR]; [f_equal; lra|reflexivity].
    - change (fold_right_op Add (Num (Fin 0%Q)) (x :: y :: ys)) with (BinOp Add x (fold_right_op Add (Num (Fin 0%Q)) (y :: ys))).
      rewrite ev_add, IH. cbn [evlist]. fold (ev x). destruct (ev x); [|reflexivity].
      destruct (evg rho false y); [|reflexivity]. destruct (evlist rho false ys); reflexivity.
  Qed.
  Lemma right_prod l : ev (fold_right_op Mul (Num (Fin 1%Q)) l) = option_map prodR (evl l).
  Proof.
    induction l as [|x xs IH]; [unfold Sem.ev; cbn; rewrite Q2R1'; reflexivity|].
    destruct xs as [|y ys].
    - cbn [fold_right_op evlist]. fold (ev x). destruct (ev x); cbn [option_map prodR]; [f_equal; lra|reflexivity].
    - change (fold_right_op Mul (Num (Fin 1%Q)) (x :: y :: ys)) with (BinOp Mul x (fold_right_op Mul (Num (Fin 1%Q)) (y :: ys))).
      rewrite ev_mul, IH. cbn [evlist]. fold (ev x). destruct (ev x); [|reflexivity].
      destruct (evg rho false y); [|reflexivity]. destruct (evlist rho false ys); reflexivity.
  Qed.

  Lemma left_sum_acc : forall xs a va, ev a = Some va ->
    ev (fold_left (fun acc e => BinOp Add acc e) xs a) = option_map (fun vs => va + sumR vs) (evl xs).
  Proof.
    induction xs as [|x xs IH]; intros a va Ha; cbn [fold_left evlist].
    - rewrite Ha. cbn. f_equal. lra.
    - fold (ev x). destruct (ev x) as [vx|] eqn:Ex.
      + rewrite (IH (BinOp Add a x) (va + vx)); [|rewrite ev_add, Ha, Ex; reflexivity].
        destruct (evlist rho false xs); cbn [option_map sumR]; [f_equal; lra|reflexivity].
      + assert (N : forall ys b, ev b = None -> ev (fold_left (fun acc e => BinOp Add acc e) ys b) = None).
        { induction ys as [|y ys IHy]; intros b Hb; cbn [fold_left]; [exact Hb|]. apply IHy. rewrite ev_add, Hb. reflexivity. }
        rewrite N; [reflexivity|]. rewrite ev_add, Ha, Ex. reflexivity.
  Qed.
  Lemma left_prod_acc : forall xs a va, ev a = Some va ->
    ev (fold_left (fun acc e => BinOp Mul acc e) xs a) = option_map (fun vs => va * prodR vs) (evl xs).
  Proof.
    induction xs as [|x xs IH]; intros a va Ha; cbn [fold_left evlist].
    - rewrite Ha. cbn. f_equal. lra.
    - fold (ev x). destruct (ev x) as [vx|] eqn:Ex.
      + rewrite (IH (BinOp Mul a x) (va * vx)); [|rewrite ev_mul, Ha, Ex; reflexivity].
        destruct (evlist rho false xs); cbn [option_map prodR]; [f_equal; lra|reflexivity].
      + assert (N : forall ys b, ev b = None -> ev (fold_left (fun acc e => BinOp Mul acc e) ys b) = None).
        { induction ys as [|y ys IHy]; intros b Hb; cbn [fold_left]; [exact Hb|]. apply IHy. rewrite ev_mul, Hb. reflexivity. }
        rewrite N; [reflexivity|]. rewrite ev_mul, Ha, Ex. reflexivity.
  Qed.

  (* the compiler's right-nested sum and the hand-written left-nested sum have the same value *)
  Theorem sum_fold_direction l : ev (aggregate KSum l) = ev (left_nested Add (Num (Fin 0%Q)) l).
  Proof.
    cbn [aggregate]. rewrite right_sum. destruct l as [|x xs]; [unfold Sem.ev; cbn; rewrite Q2R0; reflexivity|].
    cbn [left_nested evlist]. fold (ev x). destruct (ev x) as [vx|] eqn:Ex.
    - rewrite (left_sum_acc xs x vx Ex). destruct (evlist rho false xs); reflexivity.
    - assert (N : forall ys b, ev b = None -> ev (fold_left (fun acc e => BinOp Add acc e) ys b) = None).
      { induction ys as [|y ys IHy]; intros b Hb; cbn [fold_left]; [exact Hb|]. apply IHy. rewrite ev_add, Hb. reflexivity. }
      rewrite N; [reflexivity|exact Ex].
  Qed.
  Theorem prod_fold_direction l : ev (aggregate KProd l) = ev (left_nested Mul (Num (Fin 1%Q)) l).
  Proof.
    cbn [aggregate]. rewrite right_prod. destruct l as [|x xs]; [unfold Sem.ev; cbn; rewrite Q2R1'; reflexivity|].
    cbn [left_nested evlist]. fold (ev x). destruct (ev x) as [vx|] eqn:Ex.
    - rewrite (left_prod_acc xs x vx Ex). destruct (evlist rho false xs); reflexivity.
    - assert (N : forall ys b, ev b = None -> ev (fold_left (fun acc e => BinOp Mul acc e) ys b) = None).
      { induction ys as [|y ys IHy]; intros b Hb; cbn [fold_left]; [exact Hb|]. apply IHy. rewrite ev_mul, Hb. reflexivity. }
      rewrite N; [reflexivity|exact Ex].
  Qed.
  (* what the blocks denote *)
  Theorem sum_denotes l vs : evl l = Some vs -> ev (aggregate KSum l) = Some (sumR vs).
  Proof. intros H. cbn [aggregate]. rewrite right_sum, H. reflexivity. Qed.
  Theorem prod_denotes l vs : evl l = Some vs -> ev (aggregate KProd l) = Some (prodR vs).
  Proof. intros H. cbn [aggregate]. rewrite right_prod, H. reflexivity. Qed.
  Theorem avg_denotes l vs : evl l = Some vs -> l <> [] ->
    ev (aggregate KAvg l) = Some (sumR vs / INR (List.length l)).
  Proof.
    intros H NE. cbn [aggregate]. unfold Sem.ev. rewrite evg_BinOp. fold (ev (fold_right_op Add (Num (Fin 0%Q)) l)).
    rewrite right_sum, H. cbn [option_map evg ev_binop].
    assert (Q : Q2R (inject_Z (Z.of_nat (List.length l))) = INR (List.length l)).
    { unfold Q2R. cbn. rewrite Rinv_1, Rmult_1_r. rewrite <- INR_IZR_INZ. reflexivity. }
    rewrite Q. destruct (Req_EM_T (INR (List.length l)) 0) as [Z|NZ].
    - exfalso. destruct l; [congruence|]. cbn [List.length] in Z. pose proof (pos_INR (List.length l)). rewrite S_INR in Z. lra.
    - reflexivity.
  Qed.
End Agg.

(* ---------- index flattening is injective *)
Local Close Scope R_scope.
Local Open Scope string_scope.

Fixpoint no_us (s : string) : Prop :=
  match s with EmptyString => True | String c r => c <> "_"%char /\ no_us r end.

Lemma digits_no_us d : no_us (NilEmpty.string_of_uint d).
Proof. induction d; cbn; auto; split; auto; discriminate. Qed.
Lemma show_Z_no_us z : no_us (show_Z z).
Proof.
  unfold show_Z, NilZero.string_of_int, NilZero.string_of_uint.
  destruct (Z.to_int z) as [d|d]; destruct d; cbn; try (repeat split; auto; try discriminate; apply digits_no_us).
Qed.

Lemma to_int_not_nil z : Z.to_int z <> Decimal.Pos Nil /\ Z.to_int z <> Decimal.Neg Nil.
Proof.
  destruct z as [|p|p]; cbn; split; try discriminate; intros H; inversion H as [E];
    exact (DecimalPos.Unsigned.to_uint_nonnil p E).
Qed.
Lemma show_Z_injective z z' : show_Z z = show_Z z' -> z = z'.
Proof.
  unfold show_Z. intros H.
  destruct (to_int_not_nil z) as [A B]. destruct (to_int_not_nil z') as [A' B'].
  pose proof (NilZero.isi _ A B) as I. pose proof (NilZero.isi _ A' B') as I'. rewrite H in I. rewrite I in I'.
  inversion I' as [E]. rewrite <- (DecimalZ.of_to z), <- (DecimalZ.of_to z'), E. reflexivity.
Qed.

Lemma append_cancel_l n a b : n ++ a = n ++ b -> a = b.
Proof. induction n as [|c n IH]; cbn; intros H; [exact H|]. inversion H. auto. Qed.

(* the first underscore of the string is where the first part ends *)
Lemma split_at_us : forall a a' r r', no_us a -> no_us a' -> a ++ "_" ++ r = a' ++ "_" ++ r' -> a = a' /\ r = r'.
Proof.
  induction a as [|c a IH]; intros a' r r' Na Na' H; destruct a' as [|c' a']; cbn in *.
  - inversion H. auto.
  - inversion H as [[E1 E2]]. destruct Na' as [N _]. congruence.
  - inversion H as [[E1 E2]]. destruct Na as [N _]. congruence.
  - inversion H as [[E1 E2]]. destruct Na as [_ Na]. destruct Na' as [_ Na']. destruct (IH a' r r' Na Na' E2). subst. auto.
Qed.
Lemma no_us_append_us a r : no_us a -> no_us (a ++ "_" ++ r) -> False.
Proof. induction a as [|c a IH]; cbn; intros Na H; [destruct H as [N _]; congruence|]. destruct Na as [_ Na]. destruct H as [_ H]. auto. Qed.

Lemma join_cons2 x y r : join "_" (x :: y :: r) = x ++ "_" ++ join "_" (y :: r).
Proof. reflexivity. Qed.

Theorem join_show_injective : forall zs zs',
  List.length zs = List.length zs' -> join "_" (map show_Z zs) = join "_" (map show_Z zs') -> zs = zs'.
Proof.
  induction zs as [|z zs IH]; intros zs' L H; destruct zs' as [|z' zs']; try discriminate L; [reflexivity|].
  destruct zs as [|y ys]; destruct zs' as [|y' ys']; try discriminate L.
  - cbn in H. f_equal. apply show_Z_injective. exact H.
  - cbn [map] in H. rewrite !join_cons2 in H.
    destruct (split_at_us _ _ _ _ (show_Z_no_us z) (show_Z_no_us z') H) as [E1 E2].
    f_equal; [apply show_Z_injective; exact E1|]. apply IH; [cbn in L; cbn; lia|exact E2].
Qed.

(* x_1_23 is not x_12_3: two members of a family with whole-number indexes have the same flattened name only if they
   have the same indexes *)
Theorem flat_name_injective n (zs zs' : list Z) :
  List.length zs = List.length zs' ->
  n ++ "_" ++ join "_" (map show_Z zs) = n ++ "_" ++ join "_" (map show_Z zs') -> zs = zs'.
Proof.
  intros L H. apply append_cancel_l in H. cbn in H. inversion H as [E]. apply join_show_injective; assumption.
Qed.

Local Open Scope list_scope.
(* ---------- set functions: union keeps exactly one copy of every value of a ++ b, in order of first occurrence *)
Lemma num_mem_app x l m : num_mem x (l ++ m)%list = num_mem x l || num_mem x m.
Proof. unfold num_mem. apply existsb_app. Qed.
Definition nums_distinct (l : list dval) : Prop :=
  forall i j x y, nth_error l i = Some (DNum x) -> nth_error l j = Some (DNum y) -> xq_eqb x y = true -> i = j.
Lemma dedup_nums_spec : forall l acc, all_nums l = true -> all_nums acc = true -> nums_distinct acc ->
  all_nums (dedup_nums l acc) = true /\ nums_distinct (dedup_nums l acc) /\
  (forall x, num_mem x (dedup_nums l acc) = num_mem x acc || num_mem x l) /\
  exists extra, dedup_nums l acc = (acc ++ extra)%list.
Proof.
  induction l as [|d l IH]; intros acc Hl Ha Hd.
  - cbn [dedup_nums]. split; [exact Ha|]. split; [exact Hd|]. split; [intros x; cbn; rewrite orb_false_r; reflexivity|exists []; rewrite app_nil_r; reflexivity].
  - cbn [all_nums forallb] in Hl. apply andb_true_iff in Hl as [Hd0 Hl]. destruct d as [x| | | | | |]; try discriminate Hd0. cbn [dedup_nums].
    destruct (num_mem x acc) eqn:M.
    + destruct (IH acc Hl Ha Hd) as [A [B [C [extra E]]]]. split; [exact A|]. split; [exact B|]. split; [|exists extra; exact E].
      intros y. rewrite C. cbn [num_mem existsb]. fold (num_mem y l).
      destruct (xq_eqb y x) eqn:Eyx; [|reflexivity].
      (* y = x as numbers and x is already in acc *)
      assert (num_mem y acc = true).
      { unfold num_mem in *. apply existsb_exists in M as [d [Hin Hd1]]. apply existsb_exists. exists d. split; [exact Hin|].
        destruct d; try discriminate. clear - Eyx Hd1. destruct y, x, x0; cbn in *; try discriminate; try reflexivity.
        unfold q_eqb in *. apply Qeq_bool_iff in Eyx. apply Qeq_bool_iff in Hd1. apply Qeq_bool_iff. rewrite Eyx. exact Hd1. }
      rewrite H. reflexivity.
    + assert (Ha' : all_nums (acc ++ [DNum x]) = true) by (unfold all_nums; rewrite forallb_app; cbn; rewrite andb_true_r; exact Ha).
      assert (Hd' : nums_distinct (acc ++ [DNum x])).
      { intros i j a b Hi Hj Eab.
        assert (Li : i < List.length (acc ++ [DNum x])) by (apply nth_error_Some; congruence).
        assert (Lj : j < List.length (acc ++ [DNum x])) by (apply nth_error_Some; congruence).
        rewrite app_length in Li, Lj. cbn [List.length] in Li, Lj.
        assert (Notin : forall k c, nth_error acc k = Some (DNum c) -> xq_eqb c x = false /\ xq_eqb x c = false).
        { intros k c Hk. assert (In (DNum c) acc) by (eapply nth_error_In; exact Hk).
          assert (F : xq_eqb x c = false).
          { destruct (xq_eqb x c) eqn:E; [|reflexivity]. exfalso. unfold num_mem in M. rewrite (proj2 (existsb_exists _ _)) in M; [discriminate|]. exists (DNum c). split; [exact H|exact E]. }
          split; [|exact F]. destruct (xq_eqb c x) eqn:E; [|reflexivity]. exfalso. clear - E F. destruct c, x; cbn in *; try discriminate.
          unfold q_eqb in *. apply Qeq_bool_iff in E. assert (Qeq_bool q0 q = true) by (apply Qeq_bool_iff; symmetry; exact E). congruence. }
        destruct (Nat.lt_ge_cases i (List.length acc)) as [Ii|Ii], (Nat.lt_ge_cases j (List.length acc)) as [Ij|Ij].
        - rewrite nth_error_app1 in Hi, Hj by assumption. exact (Hd i j a b Hi Hj Eab).
        - rewrite nth_error_app1 in Hi by assumption. rewrite nth_error_app2 in Hj by assumption.
          replace (j - List.length acc) with 0 in Hj by lia. cbn in Hj. inversion Hj; subst b. destruct (Notin i a Hi) as [F _]. congruence.
        - rewrite nth_error_app2 in Hi by assumption. rewrite nth_error_app1 in Hj by assumption.
          replace (i - List.length acc) with 0 in Hi by lia. cbn in Hi. inversion Hi; subst a. destruct (Notin j b Hj) as [_ F]. congruence.
        - lia. }
      destruct (IH (acc ++ [DNum x]) Hl Ha' Hd') as [A [B [C [extra E]]]]. split; [exact A|]. split; [exact B|]. split.
      * intros y. rewrite C, num_mem_app. cbn [num_mem existsb]. rewrite orb_false_r. fold (num_mem y l). rewrite orb_assoc. reflexivity.
      * exists (DNum x :: extra). rewrite E, <- app_assoc. reflexivity.
Qed.

Theorem union_is_a_set env a b la lb :
  ieval env a = Some (DList la) -> ieval env b = Some (DList lb) -> all_nums la = true -> all_nums lb = true ->
  exists u, ieval env (ISet SUnion a b) = Some (DList u) /\ nums_distinct u /\
    forall x, num_mem x u = num_mem x la || num_mem x lb.
Proof.
  intros Ha Hb Na Nb. cbn [ieval]. rewrite Ha, Hb, Na, Nb. cbn [andb]. eexists. split; [reflexivity|].
  destruct (dedup_nums_spec (la ++ lb) [] ltac:(unfold all_nums; rewrite forallb_app; fold (all_nums la); fold (all_nums lb); rewrite Na, Nb; reflexivity) eq_refl
              ltac:(intros i j x y Hi; destruct i; discriminate)) as [_ [D [M _]]].
  split; [exact D|]. intros x. rewrite M, num_mem_app. reflexivity.
Qed.
