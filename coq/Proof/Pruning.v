(* C01 / C02: the dominated-operand pruning of min / max (linearizer.rs:398-425) never removes the operand that decides:
   inside the box, the extreme over the retained operands is the extreme over all of them. *)
From Coq Require Import QArith Qreals Reals ZArith Bool List String Lra Lia.
From Rooc Require Import Base.XQ Model.Exp Model.Sem Model.Bounds Model.Linearize Model.Spec
  Proof.XQFacts Proof.ShrinkSound.
Import ListNotations.
Local Close Scope Q_scope.
Local Open Scope R_scope.

Definition elim (k : ekind) (obs : list bounds) (index other : nat) : bool :=
  let b := nth index obs b_unbounded in
  if Nat.eqb index other then false else
  let ob := nth other obs b_unbounded in
  let dominates := match k with
                   | KMax => xq_geb (lo ob) (hi b)
                   | KMin => xq_leb (hi ob) (lo b) end in
  if negb dominates then false else
  let equal_fixed := xq_eqb (lo b) (hi b) && xq_eqb (lo ob) (hi ob) && xq_eqb (lo b) (lo ob) in
  negb equal_fixed || Nat.ltb other index.
Lemma retained_is_filter k obs :
  retained_indices k obs = filter (fun i => negb (existsb (elim k obs i) (seq O (List.length obs)))) (seq O (List.length obs)).
Proof. reflexivity. Qed.
Lemma retained_spec k obs i : In i (retained_indices k obs) <-> (i < List.length obs)%nat /\ forall j, (j < List.length obs)%nat -> elim k obs i j = false.
Proof.
  rewrite retained_is_filter, filter_In, in_seq. split.
  - intros [[_ Hi] H]. split; [cbn in Hi; lia|]. intros j Hj. apply negb_true_iff in H.
    destruct (elim k obs i j) eqn:E; [|reflexivity]. exfalso.
    assert (X : existsb (elim k obs i) (seq O (List.length obs)) = true) by (apply existsb_exists; exists j; split; [apply in_seq; cbn; lia|exact E]).
    congruence.
  - intros [Hi H]. split; [cbn; lia|]. apply negb_true_iff. destruct (existsb _ _) eqn:E; [|reflexivity]. exfalso.
    apply existsb_exists in E as [j [Hj Ej]]. apply in_seq in Hj. rewrite H in Ej by (cbn in Hj; lia). discriminate.
Qed.
Lemma not_retained k obs i : (i < List.length obs)%nat -> ~ In i (retained_indices k obs) -> exists j, (j < List.length obs)%nat /\ elim k obs i j = true.
Proof.
  intros Hi Hn. destruct (existsb (elim k obs i) (seq O (List.length obs))) eqn:E.
  - apply existsb_exists in E as [j [Hj Ej]]. apply in_seq in Hj. exists j. split; [cbn in Hj; lia|exact Ej].
  - exfalso. apply Hn. rewrite retained_is_filter, filter_In, in_seq. split; [cbn; lia|]. rewrite E. reflexivity.
Qed.
Lemma retained_lt k obs i : In i (retained_indices k obs) -> (i < List.length obs)%nat.
Proof. intros H. apply retained_spec in H. tauto. Qed.

(* a chain  x <= a <= b <= y  through extended numbers *)
Lemma chain_le a b x y : xq_leb a b = true -> R_le_xq x a -> xq_le_R b y -> x <= y.
Proof.
  intros H Hx Hy. pose proof (xq_leb_hi _ _ _ H Hx) as Hb. destruct b as [q| | |]; cbn [R_le_xq xq_le_R] in *; try contradiction. lra.
Qed.
Definition isM (M : R) (x : xq) : Prop := exists q, x = Fin q /\ Q2R q = M.
Lemma chain_eq a b M : xq_leb a b = true -> R_le_xq M a -> xq_le_R b M -> isM M a /\ isM M b.
Proof.
  unfold xq_leb, xq_ltb, xq_eqb. destruct a as [p| | |], b as [q| | |]; cbn [R_le_xq xq_le_R]; intros H Ha Hb; try contradiction; try discriminate.
  assert (Q2R p <= Q2R q) by (apply orb_true_iff in H as [H|H]; [apply q_ltb_true in H; lra|apply q_eqb_true in H; lra]).
  split; eexists; split; try reflexivity; lra.
Qed.
Lemma isM_eqb M a b : isM M a -> isM M b -> xq_eqb a b = true.
Proof.
  intros [p [-> Hp]] [q [-> Hq]]. cbn [xq_eqb]. unfold q_eqb. apply Qeq_bool_iff. apply eqR_Qeq. lra.
Qed.
Lemma above_M M x y w : R_le_xq M x -> ~ isM M x -> xq_leb x y = true -> xq_le_R y w -> M < w.
Proof.
  intros Hv Hn Hl Hw. destruct x as [p| | |]; cbn [R_le_xq] in Hv; try contradiction.
  - assert (M < Q2R p) by (destruct (Rle_lt_or_eq_dec _ _ Hv) as [L|E]; [exact L|exfalso; apply Hn; exists p; split; [reflexivity|lra]]).
    unfold xq_leb, xq_ltb, xq_eqb in Hl. destruct y as [q| | |]; cbn [xq_le_R] in Hw; try contradiction; try discriminate.
    assert (Q2R p <= Q2R q) by (apply orb_true_iff in Hl as [H1|H1]; [apply q_ltb_true in H1; lra|apply q_eqb_true in H1; lra]). lra.
  - unfold xq_leb, xq_ltb, xq_eqb in Hl. destruct y; cbn [xq_le_R] in Hw; try contradiction; discriminate.
Qed.

Section MaxPrune.
  Variables (obs : list bounds) (vs : list R) (M : R).
  Let n := List.length obs.
  Hypothesis Hbox : forall i, (i < n)%nat -> in_b (nth i obs b_unbounded) (nth i vs 0).
  Hypothesis Hmax : forall i, (i < n)%nat -> nth i vs 0 <= M.

  Lemma elim_max_inv i j : elim KMax obs i j = true ->
    xq_leb (hi (nth i obs b_unbounded)) (lo (nth j obs b_unbounded)) = true /\
    (xq_eqb (lo (nth i obs b_unbounded)) (hi (nth i obs b_unbounded)) && xq_eqb (lo (nth j obs b_unbounded)) (hi (nth j obs b_unbounded))
       && xq_eqb (lo (nth i obs b_unbounded)) (lo (nth j obs b_unbounded)) = false \/ (j < i)%nat).
  Proof.
    unfold elim. cbv zeta. destruct (Nat.eqb i j); [discriminate|]. unfold xq_geb.
    destruct (xq_leb (hi (nth i obs b_unbounded)) (lo (nth j obs b_unbounded))) eqn:D; cbn [negb]; [|discriminate].
    intros H. split; [reflexivity|]. apply orb_true_iff in H as [H|H]; [left; apply negb_true_iff; exact H|right; apply Nat.ltb_lt; exact H].
  Qed.
  Lemma elim_max_facts i j : (i < n)%nat -> (j < n)%nat -> elim KMax obs i j = true -> nth i vs 0 = M ->
    nth j vs 0 = M /\ isM M (hi (nth i obs b_unbounded)) /\ isM M (lo (nth j obs b_unbounded)).
  Proof.
    intros Hi Hj E Ei. destruct (elim_max_inv i j E) as [D _]. destruct (Hbox i Hi) as [_ Bi]. destruct (Hbox j Hj) as [Bj _].
    pose proof (chain_le _ _ _ _ D Bi Bj) as L. pose proof (Hmax j Hj) as Lj.
    assert (Ej : nth j vs 0 = M) by lra. split; [exact Ej|]. rewrite Ei in Bi. rewrite Ej in Bj. exact (chain_eq _ _ M D Bi Bj).
  Qed.
  Lemma desc_max : forall j, (j < n)%nat -> nth j vs 0 = M -> isM M (lo (nth j obs b_unbounded)) ->
    exists r, In r (retained_indices KMax obs) /\ nth r vs 0 = M.
  Proof.
    induction j as [j IH] using lt_wf_ind. intros Hj Ej Lj.
    destruct (in_dec Nat.eq_dec j (retained_indices KMax obs)) as [R|NR]; [exists j; split; assumption|].
    destruct (not_retained KMax obs j Hj NR) as [k [Hk Ek]].
    destruct (elim_max_facts j k Hj Hk Ek Ej) as [Evk [Hhj Hlk]].
    destruct (elim_max_inv j k Ek) as [_ [EF|Lt]]; [|exact (IH k Lt Hk Evk Hlk)].
    rewrite (isM_eqb M _ _ Lj Hhj), (isM_eqb M _ _ Lj Hlk), andb_true_r in EF. cbn [andb] in EF.
    assert (Nk : ~ isM M (hi (nth k obs b_unbounded))) by (intros Hk'; rewrite (isM_eqb M _ _ Hlk Hk') in EF; discriminate).
    exists k. split; [|exact Evk].
    destruct (in_dec Nat.eq_dec k (retained_indices KMax obs)) as [R|NR2]; [exact R|]. exfalso.
    destruct (not_retained KMax obs k Hk NR2) as [l [Hl El]]. destruct (elim_max_inv k l El) as [D _].
    destruct (Hbox k Hk) as [_ Bk]. rewrite Evk in Bk. destruct (Hbox l Hl) as [Bl _].
    pose proof (above_M M _ _ _ Bk Nk D Bl). pose proof (Hmax l Hl). lra.
  Qed.
  Theorem prune_max : (exists i, (i < n)%nat /\ nth i vs 0 = M) -> exists r, In r (retained_indices KMax obs) /\ nth r vs 0 = M.
  Proof.
    intros [i [Hi Ei]]. destruct (in_dec Nat.eq_dec i (retained_indices KMax obs)) as [R|NR]; [exists i; split; assumption|].
    destruct (not_retained KMax obs i Hi NR) as [j [Hj Ej]]. destruct (elim_max_facts i j Hi Hj Ej Ei) as [Evj [_ Hlj]].
    exact (desc_max j Hj Evj Hlj).
  Qed.
End MaxPrune.

Lemma below_M M x y w : xq_le_R x M -> ~ isM M x -> xq_leb y x = true -> R_le_xq w y -> w < M.
Proof.
  intros Hv Hn Hl Hw. destruct x as [p| | |]; cbn [xq_le_R] in Hv; try contradiction.
  - assert (Q2R p < M) by (destruct (Rle_lt_or_eq_dec _ _ Hv) as [L|E]; [exact L|exfalso; apply Hn; exists p; split; [reflexivity|lra]]).
    unfold xq_leb, xq_ltb, xq_eqb in Hl. destruct y as [q| | |]; cbn [R_le_xq] in Hw; try contradiction; try discriminate.
    assert (Q2R q <= Q2R p) by (apply orb_true_iff in Hl as [H1|H1]; [apply q_ltb_true in H1; lra|apply q_eqb_true in H1; lra]). lra.
  - unfold xq_leb, xq_ltb, xq_eqb in Hl. destruct y; cbn [R_le_xq] in Hw; try contradiction; discriminate.
Qed.

Section MinPrune.
  Variables (obs : list bounds) (vs : list R) (M : R).
  Let n := List.length obs.
  Hypothesis Hbox : forall i, (i < n)%nat -> in_b (nth i obs b_unbounded) (nth i vs 0).
  Hypothesis Hmin : forall i, (i < n)%nat -> M <= nth i vs 0.

  Lemma elim_min_inv i j : elim KMin obs i j = true ->
    xq_leb (hi (nth j obs b_unbounded)) (lo (nth i obs b_unbounded)) = true /\
    (xq_eqb (lo (nth i obs b_unbounded)) (hi (nth i obs b_unbounded)) && xq_eqb (lo (nth j obs b_unbounded)) (hi (nth j obs b_unbounded))
       && xq_eqb (lo (nth i obs b_unbounded)) (lo (nth j obs b_unbounded)) = false \/ (j < i)%nat).
  Proof.
    unfold elim. cbv zeta. destruct (Nat.eqb i j); [discriminate|].
    destruct (xq_leb (hi (nth j obs b_unbounded)) (lo (nth i obs b_unbounded))) eqn:D; cbn [negb]; [|discriminate].
    intros H. split; [reflexivity|]. apply orb_true_iff in H as [H|H]; [left; apply negb_true_iff; exact H|right; apply Nat.ltb_lt; exact H].
  Qed.
  Lemma elim_min_facts i j : (i < n)%nat -> (j < n)%nat -> elim KMin obs i j = true -> nth i vs 0 = M ->
    nth j vs 0 = M /\ isM M (lo (nth i obs b_unbounded)) /\ isM M (hi (nth j obs b_unbounded)).
  Proof.
    intros Hi Hj E Ei. destruct (elim_min_inv i j E) as [D _]. destruct (Hbox i Hi) as [Bi _]. destruct (Hbox j Hj) as [_ Bj].
    pose proof (chain_le _ _ _ _ D Bj Bi) as L. pose proof (Hmin j Hj) as Lj.
    assert (Ej : nth j vs 0 = M) by lra. split; [exact Ej|]. rewrite Ei in Bi. rewrite Ej in Bj.
    destruct (chain_eq _ _ M D Bj Bi) as [A B]. split; assumption.
  Qed.
  Lemma desc_min : forall j, (j < n)%nat -> nth j vs 0 = M -> isM M (hi (nth j obs b_unbounded)) ->
    exists r, In r (retained_indices KMin obs) /\ nth r vs 0 = M.
  Proof.
    induction j as [j IH] using lt_wf_ind. intros Hj Ej Uj.
    destruct (in_dec Nat.eq_dec j (retained_indices KMin obs)) as [R|NR]; [exists j; split; assumption|].
    destruct (not_retained KMin obs j Hj NR) as [k [Hk Ek]].
    destruct (elim_min_facts j k Hj Hk Ek Ej) as [Evk [Hlj Hhk]].
    destruct (elim_min_inv j k Ek) as [_ [EF|Lt]]; [|exact (IH k Lt Hk Evk Hhk)].
    rewrite (isM_eqb M _ _ Hlj Uj) in EF. cbn [andb] in EF.
    assert (Nk : ~ isM M (lo (nth k obs b_unbounded))).
    { intros Hk'. rewrite (isM_eqb M _ _ Hk' Hhk), (isM_eqb M _ _ Hlj Hk') in EF. discriminate. }
    exists k. split; [|exact Evk].
    destruct (in_dec Nat.eq_dec k (retained_indices KMin obs)) as [R|NR2]; [exact R|]. exfalso.
    destruct (not_retained KMin obs k Hk NR2) as [l [Hl El]]. destruct (elim_min_inv k l El) as [D _].
    destruct (Hbox k Hk) as [Bk _]. rewrite Evk in Bk. destruct (Hbox l Hl) as [_ Bl].
    pose proof (below_M M _ _ _ Bk Nk D Bl). pose proof (Hmin l Hl). lra.
  Qed.
  Theorem prune_min : (exists i, (i < n)%nat /\ nth i vs 0 = M) -> exists r, In r (retained_indices KMin obs) /\ nth r vs 0 = M.
  Proof.
    intros [i [Hi Ei]]. destruct (in_dec Nat.eq_dec i (retained_indices KMin obs)) as [R|NR]; [exists i; split; assumption|].
    destruct (not_retained KMin obs i Hi NR) as [j [Hj Ej]]. destruct (elim_min_facts i j Hi Hj Ej Ei) as [Evj [_ Hhj]].
    exact (desc_min j Hj Evj Hhj).
  Qed.
End MinPrune.
