(* C07: soundness of the interval arithmetic of bounds.rs over the reals. *)
From Coq Require Import QArith Qreals Reals ZArith Bool List String Lra Lia.
From Rooc Require Import Base.XQ Model.Exp Model.Bounds Model.Spec Proof.XQFacts.
Import ListNotations.
Local Close Scope Q_scope.
Local Open Scope R_scope.

Lemma in_b_unbounded v : in_b b_unbounded v.
Proof. split; exact I. Qed.

Lemma in_b_singleton q : in_b (b_singleton (Fin q)) (Q2R q).
Proof. split; cbn; lra. Qed.

Lemma in_b01 v : v = 0 \/ v = 1 -> in_b b01 v.
Proof. intros [-> | ->]; split; cbn; rewrite ?Q2R_0, ?Q2R_1; lra. Qed.

Lemma lower_sum_sound a b x y : xq_le_R a x -> xq_le_R b y -> xq_le_R (lower_sum a b) (x + y).
Proof.
  unfold lower_sum. destruct a as [p| | |], b as [q| | |]; cbn; intros H1 H2; try exact I; try contradiction.
  rewrite Q2R_qn, Q2R_plus. lra.
Qed.
Lemma upper_sum_sound a b x y : R_le_xq x a -> R_le_xq y b -> R_le_xq (x + y) (upper_sum a b).
Proof.
  unfold upper_sum. destruct a as [p| | |], b as [q| | |]; cbn; intros H1 H2; try exact I; try contradiction.
  rewrite Q2R_qn, Q2R_plus. lra.
Qed.

Lemma b_add_sound a b x y : in_b a x -> in_b b y -> in_b (b_add a b) (x + y).
Proof. intros [A1 A2] [B1 B2]. split; cbn; [apply lower_sum_sound|apply upper_sum_sound]; assumption. Qed.

Lemma xq_neg_le a x : R_le_xq x a -> xq_le_R (xq_neg a) (- x).
Proof. destruct a; cbn; auto. rewrite Q2R_qn, Q2R_opp. lra. Qed.
Lemma xq_neg_ge a x : xq_le_R a x -> R_le_xq (- x) (xq_neg a).
Proof. destruct a; cbn; auto. rewrite Q2R_qn, Q2R_opp. lra. Qed.

Lemma b_neg_sound a x : in_b a x -> in_b (b_neg a) (- x).
Proof. intros [A1 A2]. split; cbn; [apply xq_neg_le|apply xq_neg_ge]; assumption. Qed.

Lemma b_sub_sound a b x y : in_b a x -> in_b b y -> in_b (b_sub a b) (x - y).
Proof. intros A B. unfold b_sub. replace (x - y) with (x + - y) by lra. apply b_add_sound; [|apply b_neg_sound]; assumption. Qed.

Lemma q_sgn_pos q : (0 < Q2R q) -> exists p, q_sgn q = Zpos p.
Proof.
  intros H. unfold q_sgn. destruct q as [n d]. cbn. destruct n as [|p|p]; cbn.
  - unfold Q2R in H; cbn in H. lra.
  - eauto.
  - exfalso. unfold Q2R in H; cbn in H.
    assert (0 < / IZR (Zpos d)) by (apply Rinv_0_lt_compat; apply IZR_lt; lia).
    assert (IZR (Zneg p) < 0) by (apply IZR_lt; lia). nra.
Qed.
Lemma q_sgn_neg q : (Q2R q < 0) -> exists p, q_sgn q = Zneg p.
Proof.
  intros H. unfold q_sgn. destruct q as [n d]. cbn. destruct n as [|p|p]; cbn.
  - unfold Q2R in H; cbn in H. lra.
  - exfalso. unfold Q2R in H; cbn in H.
    assert (0 < / IZR (Zpos d)) by (apply Rinv_0_lt_compat; apply IZR_lt; lia).
    assert (0 < IZR (Zpos p)) by (apply IZR_lt; lia). nra.
  - eauto.
Qed.

Lemma xq_gtb_Fin0 c : xq_gtb (Fin c) (Fin 0%Q) = true -> 0 < Q2R c.
Proof. unfold xq_gtb; cbn. intros H. apply q_ltb_true in H. rewrite Q2R_0 in H. exact H. Qed.
Lemma xq_gtb_Fin0_false c : xq_gtb (Fin c) (Fin 0%Q) = false -> Q2R c <= 0.
Proof. unfold xq_gtb; cbn. intros H. apply q_ltb_false in H. rewrite Q2R_0 in H. exact H. Qed.

(* multiplying a bound by a positive / negative finite coefficient *)
Lemma mul_pos_lo a c x : 0 < Q2R c -> xq_le_R a x -> xq_le_R (xq_mul a (Fin c)) (x * Q2R c).
Proof.
  intros Hc H. destruct a as [p| | |]; cbn in *; try exact I; try contradiction.
  - rewrite Q2R_qn, Q2R_mult. nra.
  - destruct (q_sgn_pos c Hc) as [p ->]. exact I.
Qed.
Lemma mul_pos_hi a c x : 0 < Q2R c -> R_le_xq x a -> R_le_xq (x * Q2R c) (xq_mul a (Fin c)).
Proof.
  intros Hc H. destruct a as [p| | |]; cbn in *; try exact I; try contradiction.
  - rewrite Q2R_qn, Q2R_mult. nra.
  - destruct (q_sgn_pos c Hc) as [p ->]. exact I.
Qed.
Lemma mul_neg_lo a c x : Q2R c < 0 -> R_le_xq x a -> xq_le_R (xq_mul a (Fin c)) (x * Q2R c).
Proof.
  intros Hc H. destruct a as [p| | |]; cbn in *; try exact I; try contradiction.
  - rewrite Q2R_qn, Q2R_mult. nra.
  - destruct (q_sgn_neg c Hc) as [p ->]. exact I.
Qed.
Lemma mul_neg_hi a c x : Q2R c < 0 -> xq_le_R a x -> R_le_xq (x * Q2R c) (xq_mul a (Fin c)).
Proof.
  intros Hc H. destruct a as [p| | |]; cbn in *; try exact I; try contradiction.
  - rewrite Q2R_qn, Q2R_mult. nra.
  - destruct (q_sgn_neg c Hc) as [p ->]. exact I.
Qed.

Lemma b_scale_sound a c x : in_b a x -> in_b (b_scale a (Fin c)) (x * Q2R c).
Proof.
  intros [A1 A2]. unfold b_scale. destruct (xq_is_zero (Fin c)) eqn:Z.
  - apply xq_is_zero_Fin in Z. rewrite Z. replace (x * 0) with (Q2R 0%Q) by (rewrite Q2R_0; lra).
    apply in_b_singleton.
  - apply xq_is_zero_Fin_false in Z. destruct (xq_gtb (Fin c) (Fin 0%Q)) eqn:G.
    + apply xq_gtb_Fin0 in G. split; cbn; [apply mul_pos_lo|apply mul_pos_hi]; assumption.
    + apply xq_gtb_Fin0_false in G. assert (Q2R c < 0) by lra.
      split; cbn; [apply mul_neg_lo|apply mul_neg_hi]; assumption.
Qed.

Lemma b_div_by_sound a d x : Q2R d <> 0 -> in_b a x -> in_b (b_div_by a (Fin d)) (x / Q2R d).
Proof.
  intros Hd A. unfold b_div_by. destruct (xq_is_zero (Fin d)) eqn:Z.
  - apply in_b_unbounded.
  - cbn [xq_div]. unfold xq_is_zero in Z; cbn [xq_eqb] in Z. rewrite Z.
    replace (x / Q2R d) with (x * Q2R (qn (1 / d))).
    + apply b_scale_sound. exact A.
    + rewrite Q2R_qn, Q2R_div, Q2R_1. field. exact Hd.
      intro E. apply Qeq_bool_iff in E. unfold q_eqb in Z. congruence.
Qed.

Lemma xq_geb_Fin0 a x : xq_geb a (Fin 0%Q) = true -> xq_le_R a x -> 0 <= x.
Proof.
  unfold xq_geb, xq_leb. destruct a as [p| | |]; cbn; try discriminate; try contradiction.
  intros H L. apply orb_true_iff in H as [H|H].
  - apply q_ltb_true in H. rewrite Q2R_0 in H. lra.
  - apply q_eqb_true in H. rewrite Q2R_0 in H. lra.
Qed.
Lemma xq_leb_Fin0 a x : xq_leb a (Fin 0%Q) = true -> R_le_xq x a -> x <= 0.
Proof.
  unfold xq_leb. destruct a as [p| | |]; cbn; try discriminate; try contradiction.
  intros H L. apply orb_true_iff in H as [H|H].
  - apply q_ltb_true in H. rewrite Q2R_0 in H. lra.
  - apply q_eqb_true in H. rewrite Q2R_0 in H. lra.
Qed.

Lemma xq_max_ub a b x : (R_le_xq x a \/ R_le_xq x b) -> R_le_xq x (xq_max a b).
Proof.
  destruct a as [p| | |], b as [q| | |]; cbn; intros [H|H]; try exact I; try contradiction; try assumption.
  - destruct (xq_max_Fin p q) as [c [E Hc]]. cbn in E. rewrite E. cbn. rewrite Hc. pose proof (Rmax_l (Q2R p) (Q2R q)). lra.
  - destruct (xq_max_Fin p q) as [c [E Hc]]. cbn in E. rewrite E. cbn. rewrite Hc. pose proof (Rmax_r (Q2R p) (Q2R q)). lra.
Qed.

Lemma b_abs_sound a x : in_b a x -> in_b (b_abs a) (Rabs x).
Proof.
  intros [A1 A2]. unfold b_abs. destruct (xq_geb (lo a) (Fin 0%Q)) eqn:G.
  - pose proof (xq_geb_Fin0 _ _ G A1). rewrite Rabs_right; [split; assumption|lra].
  - destruct (xq_leb (hi a) (Fin 0%Q)) eqn:L.
    + pose proof (xq_leb_Fin0 _ _ L A2). rewrite Rabs_left1; [|lra]. apply b_neg_sound. split; assumption.
    + split; cbn.
      * rewrite Q2R_0. apply Rabs_pos.
      * apply xq_max_ub. unfold Rabs. destruct (Rcase_abs x).
        -- left. apply xq_neg_ge. exact A1.
        -- right. exact A2.
Qed.

(* min / max of two bounds, componentwise *)
Lemma xq_min_lo a b x y : xq_le_R a x -> xq_le_R b y -> xq_le_R (xq_min a b) (Rmin x y).
Proof.
  destruct a as [p| | |], b as [q| | |]; cbn; intros H1 H2; try exact I; try contradiction.
  destruct (xq_min_Fin p q) as [c [E Hc]]. cbn in E. rewrite E. cbn. rewrite Hc.
  apply Rmin_glb; [pose proof (Rmin_l (Q2R p) (Q2R q))|pose proof (Rmin_r (Q2R p) (Q2R q))]; lra.
Qed.
Lemma xq_min_hi a b x y : R_le_xq x a -> R_le_xq y b -> R_le_xq (Rmin x y) (xq_min a b).
Proof.
  destruct a as [p| | |], b as [q| | |]; cbn; intros H1 H2; try exact I; try contradiction.
  - destruct (xq_min_Fin p q) as [c [E Hc]]. cbn in E. rewrite E. cbn. rewrite Hc.
    unfold Rmin. destruct (Rle_dec x y), (Rle_dec (Q2R p) (Q2R q)); lra.
  - pose proof (Rmin_l x y). lra.
  - pose proof (Rmin_r x y). lra.
Qed.
Lemma xq_max_lo a b x y : xq_le_R a x -> xq_le_R b y -> xq_le_R (xq_max a b) (Rmax x y).
Proof.
  destruct a as [p| | |], b as [q| | |]; cbn; intros H1 H2; try exact I; try contradiction.
  - destruct (xq_max_Fin p q) as [c [E Hc]]. cbn in E. rewrite E. cbn. rewrite Hc.
    unfold Rmax. destruct (Rle_dec x y), (Rle_dec (Q2R p) (Q2R q)); lra.
  - pose proof (Rmax_l x y). lra.
  - pose proof (Rmax_r x y). lra.
Qed.
Lemma xq_max_hi a b x y : R_le_xq x a -> R_le_xq y b -> R_le_xq (Rmax x y) (xq_max a b).
Proof.
  destruct a as [p| | |], b as [q| | |]; cbn; intros H1 H2; try exact I; try contradiction.
  destruct (xq_max_Fin p q) as [c [E Hc]]. cbn in E. rewrite E. cbn. rewrite Hc.
  apply Rmax_lub; [pose proof (Rmax_l (Q2R p) (Q2R q))|pose proof (Rmax_r (Q2R p) (Q2R q))]; lra.
Qed.

(* intersection keeps every point that lies in both operands *)
Lemma xq_max_lo_both a b x : xq_le_R a x -> xq_le_R b x -> xq_le_R (xq_max a b) x.
Proof. intros H1 H2. pose proof (xq_max_lo a b x x H1 H2) as H. rewrite Rmax_left in H; [exact H|lra]. Qed.
Lemma xq_min_hi_both a b x : R_le_xq x a -> R_le_xq x b -> R_le_xq x (xq_min a b).
Proof. intros H1 H2. pose proof (xq_min_hi a b x x H1 H2) as H. rewrite Rmin_left in H; [exact H|lra]. Qed.

Lemma b_intersection_sound ties tol a b c x :
  in_b a x -> in_b b x -> b_intersection ties tol a b = Some c -> in_b c x.
Proof.
  intros [A1 A2] [B1 B2]. unfold b_intersection.
  destruct (if ties then xq_ltb (xq_max (lo a) (lo b)) (xq_min (hi a) (hi b)) else xq_leb (xq_max (lo a) (lo b)) (xq_min (hi a) (hi b))).
  - intros H; inversion H; subst c. split; cbn; [apply xq_max_lo_both|apply xq_min_hi_both]; assumption.
  - destruct (xq_leb _ tol); [|discriminate]. intros H; inversion H; subst c. split; assumption.
Qed.
