(* A usable induction principle for the nested inductive [exp]. *)
From Coq Require Import List.
From Rooc Require Import Base.XQ Model.Exp.
Import ListNotations.

Section Ind.
  Variable P : exp -> Prop.
  Hypothesis HNum : forall x, P (Num x).
  Hypothesis HVar : forall s, P (Var s).
  Hypothesis HAbs : forall e, P e -> P (Abs e).
  Hypothesis HMin : forall l, Forall P l -> P (Min l).
  Hypothesis HMax : forall l, Forall P l -> P (Max l).
  Hypothesis HAnd : forall l, Forall P l -> P (And l).
  Hypothesis HOr : forall l, Forall P l -> P (Or l).
  Hypothesis HNot : forall e, P e -> P (Not e).
  Hypothesis HXor : forall a b, P a -> P b -> P (Xor a b).
  Hypothesis HImplies : forall a b, P a -> P b -> P (Implies a b).
  Hypothesis HIff : forall a b, P a -> P b -> P (Iff a b).
  Hypothesis HBinOp : forall op a b, P a -> P b -> P (BinOp op a b).
  Hypothesis HUnOp : forall op e, P e -> P (UnOp op e).

  Fixpoint exp_ind' (e : exp) : P e :=
    let fix lind (l : list exp) : Forall P l :=
      match l with
      | [] => Forall_nil P
      | x :: xs => Forall_cons x (exp_ind' x) (lind xs)
      end in
    match e with
    | Num x => HNum x
    | Var s => HVar s
    | Abs x => HAbs x (exp_ind' x)
    | Min l => HMin l (lind l)
    | Max l => HMax l (lind l)
    | And l => HAnd l (lind l)
    | Or l => HOr l (lind l)
    | Not x => HNot x (exp_ind' x)
    | Xor a b => HXor a b (exp_ind' a) (exp_ind' b)
    | Implies a b => HImplies a b (exp_ind' a) (exp_ind' b)
    | Iff a b => HIff a b (exp_ind' a) (exp_ind' b)
    | BinOp op a b => HBinOp op a b (exp_ind' a) (exp_ind' b)
    | UnOp op x => HUnOp op x (exp_ind' x)
    end.
End Ind.
