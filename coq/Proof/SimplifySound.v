(* C10: Exp::simplify preserves the value of every expression at every real assignment
   (typed semantics: non-literal operands of and/or are 0/1-valued; see finding F17). *)
From Coq Require Import QArith Qreals Reals ZArith Bool List String Lra Lia.
From Rooc Require Import Base.XQ Model.Exp Model.Sem Model.Simplify Proof.XQFacts Proof.SemFacts.
Import ListNotations.
Local Close Scope Q_scope.
Local Open Scope R_scope.
Local Open Scope list_scope.


Section S.
  Variable rho : string -> R.
  Variable t : bool.
  Notation evg := (evg rho t).

  Lemma is_num_zero_ev e v : is_num_zero e = true -> evg e = Some v -> v = 0.
  Proof.
    destruct e; cbn [is_num_zero]; try discriminate. intros Z H.
    apply evg_Num_inv in H. destruct H as [q [-> ->]]. apply xq_is_zero_Fin. exact Z.
  Qed.
  Lemma is_num_one_ev e v : is_num_one e = true -> evg e = Some v -> v = 1.
  Proof.
    destruct e; cbn [is_num_one]; try discriminate. intros Z H.
    apply evg_Num_inv in H. destruct H as [q [-> ->]]. apply xq_is_one_Fin. exact Z.
  Qed.

  Ltac split_ev H :=
    match type of H with
    | context [match evg ?a with _ => _ end] =>
        let v := fresh "v" in let E := fresh "E" in destruct (evg a) as [v|] eqn:E; [|try discriminate H]
    end.

  Lemma simp_add_sound l r v : evg (BinOp Add l r) = Some v -> evg (simp_add l r) = Some v.
  Proof.
    rewrite evg_BinOp. intros H. split_ev H. split_ev H. cbn [ev_binop] in H. inversion H; subst v; clear H.
    unfold simp_add. destruct (as_num l) as [x|] eqn:El.
    - apply as_num_Some in El; subst l. apply evg_Num_inv in E as [q [-> ->]].
      destruct (as_num r) as [y|] eqn:Er.
      + apply as_num_Some in Er; subst r. apply evg_Num_inv in E0 as [q' [-> ->]].
        cbn [xq_add]. rewrite evg_Num_Fin, Q2R_qn, Q2R_plus. reflexivity.
      + destruct (is_num_zero (Num (Fin q))) eqn:Z.
        * cbn [is_num_zero] in Z. apply xq_is_zero_Fin in Z. rewrite Z, E0. f_equal; lra.
        * destruct (is_num_zero r) eqn:Zr.
          -- rewrite (is_num_zero_ev r v1 Zr E0). rewrite evg_Num_Fin. f_equal; lra.
          -- rewrite evg_BinOp, evg_Num_Fin, E0. reflexivity.
    - destruct (is_num_zero l) eqn:Z.
      + rewrite (is_num_zero_ev l v0 Z E), E0. f_equal; lra.
      + destruct (is_num_zero r) eqn:Zr.
        * rewrite (is_num_zero_ev r v1 Zr E0), E. f_equal; lra.
        * rewrite evg_BinOp, E, E0. reflexivity.
  Qed.

  Lemma simp_sub_sound l r v : evg (BinOp Sub l r) = Some v -> evg (simp_sub l r) = Some v.
  Proof.
    rewrite evg_BinOp. intros H. split_ev H. split_ev H. cbn [ev_binop] in H. inversion H; subst v; clear H.
    unfold simp_sub.
    assert (G : evg (if is_num_zero r then l else BinOp Sub l r) = Some (v0 - v1)).
    { destruct (is_num_zero r) eqn:Zr.
      - rewrite (is_num_zero_ev r v1 Zr E0), E. f_equal; lra.
      - rewrite evg_BinOp, E, E0. reflexivity. }
    destruct (as_num l) as [x|] eqn:El; [|exact G].
    destruct (as_num r) as [y|] eqn:Er; [|exact G].
    apply as_num_Some in El, Er; subst l r.
    apply evg_Num_inv in E as [q [-> ->]]. apply evg_Num_inv in E0 as [q' [-> ->]].
    unfold xq_sub; cbn [xq_neg xq_add]. rewrite evg_Num_Fin, Q2R_qn, Q2R_plus, Q2R_qn, Q2R_opp. f_equal; lra.
  Qed.

  Lemma simp_mul_sound l r v : evg (BinOp Mul l r) = Some v -> evg (simp_mul l r) = Some v.
  Proof.
    rewrite evg_BinOp. intros H. split_ev H. split_ev H. cbn [ev_binop] in H. inversion H; subst v; clear H.
    unfold simp_mul.
    assert (G : evg (if is_num_zero l || is_num_zero r then Num (Fin 0%Q)
                     else if is_num_one l then r else if is_num_one r then l else BinOp Mul l r) = Some (v0 * v1)).
    { destruct (is_num_zero l) eqn:Zl; cbn [orb].
      { rewrite (is_num_zero_ev l v0 Zl E), evg_Num_Fin, Q2R_0. f_equal; lra. }
      destruct (is_num_zero r) eqn:Zr.
      { rewrite (is_num_zero_ev r v1 Zr E0), evg_Num_Fin, Q2R_0. f_equal; lra. }
      destruct (is_num_one l) eqn:Ol.
      { rewrite (is_num_one_ev l v0 Ol E), E0. f_equal; lra. }
      destruct (is_num_one r) eqn:Or'.
      { rewrite (is_num_one_ev r v1 Or' E0), E. f_equal; lra. }
      rewrite evg_BinOp, E, E0. reflexivity. }
    destruct (as_num l) as [x|] eqn:El; [|exact G].
    destruct (as_num r) as [y|] eqn:Er; [|exact G].
    apply as_num_Some in El, Er; subst l r.
    apply evg_Num_inv in E as [q [-> ->]]. apply evg_Num_inv in E0 as [q' [-> ->]].
    cbn [xq_mul]. rewrite evg_Num_Fin, Q2R_qn, Q2R_mult. reflexivity.
  Qed.

  Lemma simp_div_sound l r v : evg (BinOp Div l r) = Some v -> evg (simp_div l r) = Some v.
  Proof.
    rewrite evg_BinOp. intros H. split_ev H. split_ev H. cbn [ev_binop] in H.
    destruct (Req_EM_T v1 0) as [Z|NZ]; [discriminate|]. inversion H; subst v; clear H.
    unfold simp_div.
    assert (G : evg (if is_num_one r then l else BinOp Div l r) = Some (v0 / v1)).
    { destruct (is_num_one r) eqn:Or'.
      - rewrite (is_num_one_ev r v1 Or' E0), E. f_equal; field.
      - rewrite evg_BinOp, E, E0. cbn [ev_binop]. destruct (Req_EM_T v1 0); [contradiction|reflexivity]. }
    destruct (as_num l) as [x|] eqn:El; [|exact G].
    destruct (as_num r) as [y|] eqn:Er; [|exact G].
    apply as_num_Some in El, Er; subst l r.
    apply evg_Num_inv in E as [q [-> ->]]. apply evg_Num_inv in E0 as [q' [-> ->]].
    destruct (xq_is_zero (Fin q')) eqn:Z.
    - apply xq_is_zero_Fin in Z. contradiction.
    - cbn [xq_div]. unfold xq_is_zero in Z; cbn [xq_eqb] in Z. rewrite Z.
      rewrite evg_Num_Fin, Q2R_qn, Q2R_div. reflexivity.
      intro Hq. apply Qeq_bool_iff in Hq. unfold q_eqb in Z. congruence.
  Qed.

  Lemma simp_neg_sound s v : evg (UnOp Neg s) = Some v -> evg (simp_neg s) = Some v.
  Proof.
    rewrite evg_Neg. unfold simp_neg. destruct (as_num s) as [x|] eqn:El.
    - apply as_num_Some in El; subst s. destruct x as [q| | |]; try (cbn; discriminate).
      cbn [xq_neg]. rewrite !evg_Num_Fin. cbn [option_map].
      intros H; inversion H; subst. rewrite Q2R_qn, Q2R_opp. reflexivity.
    - rewrite evg_Neg. auto.
  Qed.

  Lemma simp_abs_sound s v : evg (Abs s) = Some v -> evg (simp_abs s) = Some v.
  Proof.
    rewrite evg_Abs. unfold simp_abs. destruct (as_num s) as [x|] eqn:El.
    - apply as_num_Some in El; subst s. destruct x as [q| | |]; try (cbn; discriminate).
      cbn [xq_abs]. rewrite !evg_Num_Fin. cbn [option_map].
      intros H; inversion H; subst. rewrite Q2R_q_abs. reflexivity.
    - rewrite evg_Abs. auto.
  Qed.

  Lemma num_truthy_ev x v : evg (Num x) = Some v -> truthyR v = num_truthy x.
  Proof. intros H. apply evg_Num_inv in H as [q [-> ->]]. unfold num_truthy. apply truthyR_Q2R. Qed.

  Lemma evg_logic_number b : evg (Num (logic_number b)) = Some (bnR b).
  Proof. destruct b; cbn; [rewrite Q2R_1|rewrite Q2R_0]; reflexivity. Qed.

  Lemma simp_not_sound s v : evg (Not s) = Some v -> evg (simp_not s) = Some v.
  Proof.
    rewrite evg_Not. unfold simp_not. destruct (as_num s) as [x|] eqn:El.
    - apply as_num_Some in El; subst s. destruct (evg (Num x)) as [w|] eqn:E; [|discriminate].
      cbn [option_map]. intros H; inversion H; subst. rewrite (num_truthy_ev _ _ E). apply evg_logic_number.
    - rewrite evg_Not. auto.
  Qed.

  Lemma simp_xor_sound l r v : evg (Xor l r) = Some v -> evg (simp_xor l r) = Some v.
  Proof.
    rewrite evg_Xor. intros H. unfold simp_xor.
    destruct (as_num l) as [x|] eqn:El; [|rewrite evg_Xor; exact H].
    destruct (as_num r) as [y|] eqn:Er; [|rewrite evg_Xor; exact H].
    apply as_num_Some in El, Er; subst l r. split_ev H. split_ev H. inversion H; subst.
    rewrite (num_truthy_ev _ _ E), (num_truthy_ev _ _ E0). apply evg_logic_number.
  Qed.
  Lemma simp_implies_sound l r v : evg (Implies l r) = Some v -> evg (simp_implies l r) = Some v.
  Proof.
    rewrite evg_Implies. intros H. unfold simp_implies.
    destruct (as_num l) as [x|] eqn:El; [|rewrite evg_Implies; exact H].
    destruct (as_num r) as [y|] eqn:Er; [|rewrite evg_Implies; exact H].
    apply as_num_Some in El, Er; subst l r. split_ev H. split_ev H. inversion H; subst.
    rewrite (num_truthy_ev _ _ E), (num_truthy_ev _ _ E0). apply evg_logic_number.
  Qed.
  Lemma simp_iff_sound l r v : evg (Iff l r) = Some v -> evg (simp_iff l r) = Some v.
  Proof.
    rewrite evg_Iff. intros H. unfold simp_iff.
    destruct (as_num l) as [x|] eqn:El; [|rewrite evg_Iff; exact H].
    destruct (as_num r) as [y|] eqn:Er; [|rewrite evg_Iff; exact H].
    apply as_num_Some in El, Er; subst l r. split_ev H. split_ev H. inversion H; subst.
    rewrite (num_truthy_ev _ _ E), (num_truthy_ev _ _ E0). apply evg_logic_number.
  Qed.

  (* ---------- min / max folding *)
  Lemma fold_xq_max qs : forall a, exists c,
    fold_left xq_max (map Fin qs) (Fin a) = Fin c /\ Q2R c = fold_left Rmax (map Q2R qs) (Q2R a).
  Proof.
    induction qs as [|q qs IH]; intros a; cbn [fold_left map].
    - exists a; auto.
    - destruct (xq_max_Fin a q) as [c [-> Hc]]. destruct (IH c) as [d [-> Hd]].
      exists d; split; [reflexivity|]. rewrite Hd, Hc. reflexivity.
  Qed.
  Lemma fold_xq_min qs : forall a, exists c,
    fold_left xq_min (map Fin qs) (Fin a) = Fin c /\ Q2R c = fold_left Rmin (map Q2R qs) (Q2R a).
  Proof.
    induction qs as [|q qs IH]; intros a; cbn [fold_left map].
    - exists a; auto.
    - destruct (xq_min_Fin a q) as [c [-> Hc]]. destruct (IH c) as [d [-> Hd]].
      exists d; split; [reflexivity|]. rewrite Hd, Hc. reflexivity.
  Qed.

  Lemma all_nums_evlist sl nums vs :
    all_nums sl = Some nums -> evlist rho t sl = Some vs ->
    exists qs, nums = map Fin qs /\ vs = map Q2R qs.
  Proof.
    revert nums vs. induction sl as [|e sl IH]; intros nums vs; unfold all_nums; cbn [mapM evlist].
    - intros H1 H2; inversion H1; inversion H2. exists []; auto.
    - destruct (as_num e) as [x|] eqn:Ee; [|discriminate]. apply as_num_Some in Ee; subst e.
      fold (all_nums sl). destruct (all_nums sl) as [ns|] eqn:En; [|discriminate].
      intros H1; inversion H1; subst nums; clear H1.
      destruct (evg (Num x)) as [v|] eqn:Ev; [|discriminate].
      destruct (evlist rho t sl) as [ws|] eqn:El; [|discriminate].
      intros H2; inversion H2; subst vs; clear H2.
      apply evg_Num_inv in Ev as [q [-> ->]].
      destruct (IH ns ws eq_refl eq_refl) as [qs [-> ->]].
      exists (q :: qs); auto.
  Qed.

  Lemma simp_max_sound sl v : evg (Max sl) = Some v -> evg (simp_max sl) = Some v.
  Proof.
    unfold simp_max. destruct (all_nums sl) as [nums|] eqn:A; [|auto].
    rewrite evg_Max. destruct (evlist rho t sl) as [vs|] eqn:E; [|discriminate].
    destruct (all_nums_evlist _ _ _ A E) as [qs [-> ->]].
    destruct qs as [|q qs]; [discriminate|]. cbn [fold_max map fold_left].
    replace (xq_max NInf (Fin q)) with (Fin q) by reflexivity.
    intros H; inversion H; subst v; clear H.
    destruct (fold_xq_max qs q) as [c [-> Hc]]. rewrite evg_Num_Fin, Hc. reflexivity.
  Qed.
  Lemma simp_min_sound sl v : evg (Min sl) = Some v -> evg (simp_min sl) = Some v.
  Proof.
    unfold simp_min. destruct (all_nums sl) as [nums|] eqn:A; [|auto].
    rewrite evg_Min. destruct (evlist rho t sl) as [vs|] eqn:E; [|discriminate].
    destruct (all_nums_evlist _ _ _ A E) as [qs [-> ->]].
    destruct qs as [|q qs]; [discriminate|]. cbn [fold_min map fold_left].
    replace (xq_min PInf (Fin q)) with (Fin q) by reflexivity.
    intros H; inversion H; subst v; clear H.
    destruct (fold_xq_min qs q) as [c [-> Hc]]. rewrite evg_Num_Fin, Hc. reflexivity.
  Qed.
End S.
