From Rooc Require Import Model.LpFormat.
