(* C17: the independent reader inverts the writer on linear expressions and on whole rows. *)
From Coq Require Import QArith ZArith Bool List String Lia.
From Rooc Require Import Base.XQ Model.Exp Model.Bounds Model.Linearize Model.LpFormat.
Import ListNotations.
Local Close Scope Q_scope.
Local Open Scope list_scope.


Lemma read_terms_S f sign ts acc const :
  read_terms (S f) sign ts acc const =
    match ts with
    | LWord w :: rest =>
        if String.eqb w "+" then read_terms f 1%Q rest acc const
        else if String.eqb w "-" then read_terms f (-1)%Q rest acc const
        else if is_op w then Some (acc, const, ts)
        else read_terms f 1%Q rest (acc ++ [(w, sign)]) const
    | LNum q :: rest =>
        match rest with
        | LWord v :: rest' =>
            if is_op v || is_sign v
            then read_terms f 1%Q rest acc (const + sign * q)%Q
            else read_terms f 1%Q rest' (acc ++ [(v, (sign * q)%Q)]) const
        | _ => read_terms f 1%Q rest acc (const + sign * q)%Q
        end
    | LNL :: _ | [] => Some (acc, const, ts)
    end.
Proof. reflexivity. Qed.

Lemma read_terms_mono : forall f ts sign acc const r,
  read_terms f sign ts acc const = Some r -> read_terms (S f) sign ts acc const = Some r.
Proof.
  induction f as [|f IH]; intros ts sign acc const r H; [discriminate|].
  rewrite read_terms_S in H. rewrite read_terms_S.
  destruct ts as [|[w|q|] rest]; try exact H.
  - destruct (String.eqb w "+"); [apply IH; exact H|]. destruct (String.eqb w "-"); [apply IH; exact H|].
    destruct (is_op w); [exact H|apply IH; exact H].
  - destruct rest as [|[v|q2|] rest'].
    + apply IH; exact H.
    + destruct (is_op v || is_sign v); apply IH; exact H.
    + apply IH; exact H.
    + apply IH; exact H.
Qed.
Lemma read_terms_mono_le f g ts sign acc const r :
  f <= g -> read_terms f sign ts acc const = Some r -> read_terms g sign ts acc const = Some r.
Proof. intros L. induction L as [|g L IH]; [auto|]. intros H. apply read_terms_mono. auto. Qed.

Lemma name_ok_facts v : name_ok v = true ->
  String.eqb v "+" = false /\ String.eqb v "-" = false /\ is_op v = false /\ (is_op v || is_sign v) = false.
Proof.
  unfold name_ok, is_sign. intros H. apply negb_true_iff in H.
  apply orb_false_iff in H as [H1 H2]. apply orb_false_iff in H2 as [H2 H3].
  repeat split; auto. rewrite H1, H2, H3. reflexivity.
Qed.

(* value-level statement: the reader returns term lists equal up to Qeq; we compare with term_eqb *)
Definition terms_eq (a b : list (string * Q)) : Prop := leqb term_eqb a b = true.

Lemma leqb_refl_terms l : leqb term_eqb l l = true.
Proof.
  induction l as [|[v q] l IH]; [reflexivity|]. cbn. unfold term_eqb; cbn. rewrite String.eqb_refl.
  assert (Qeq_bool q q = true) by (apply Qeq_bool_iff; reflexivity). rewrite H. exact IH.
Qed.

(* The reader on the tokens of [lp_terms_from]: if continuing on [rest] from the state that has recorded the
   non-zero terms succeeds, then reading from the start succeeds with a result that differs only in how the
   recorded coefficients are written (sign * magnitude instead of the coefficient itself). *)
Definition signed (neg : bool) (mag : Q) : Q := ((if neg then (-1)%Q else 1%Q) * mag)%Q.

Fixpoint read_spec (coeffs : list xq) (vars : list string) : list (string * Q) :=
  match coeffs, vars with
  | c :: cs, v :: vs =>
      let q := qv c in
      if q_is_zero q then read_spec cs vs
      else (v, if Qeq_bool (q_absv q) 1 then (if q_is_neg q then (-1)%Q else 1%Q) else signed (q_is_neg q) (q_absv q)) :: read_spec cs vs
  | _, _ => []
  end.

Lemma read_terms_written : forall coeffs vars first rest acc const f r,
  Forall (fun v => name_ok v = true) vars ->
  read_terms f 1%Q rest (acc ++ read_spec coeffs vars) const = Some r ->
  read_terms (f + List.length (fst (lp_terms_from first coeffs vars))) 1%Q (fst (lp_terms_from first coeffs vars) ++ rest) acc const = Some r.
Proof.
  induction coeffs as [|c cs IH]; intros vars first rest acc const f r Hn H.
  - cbn. rewrite app_nil_r in H. rewrite Nat.add_0_r. exact H.
  - destruct vars as [|v vs]; [cbn; cbn in H; rewrite app_nil_r in H; rewrite Nat.add_0_r; exact H|].
    inversion Hn as [|? ? Hv Hvs]; subst. destruct (name_ok_facts v Hv) as [Np [Nm [No Nos]]].
    cbn [lp_terms_from read_spec] in *. destruct (q_is_zero (qv c)) eqn:Z; [apply IH; assumption|].
    destruct (lp_terms_from false cs vs) as [rt e] eqn:Ert. cbn [fst].
    assert (IHr : forall acc2, read_terms f 1%Q rest (acc2 ++ read_spec cs vs) const = Some r ->
                  read_terms (f + List.length rt) 1%Q (rt ++ rest) acc2 const = Some r).
    { intros acc2 H2. pose proof (IH vs false rest acc2 const f r Hvs H2) as G. rewrite Ert in G. exact G. }
    assert (H' : read_terms f 1%Q rest ((acc ++ [(v, if Qeq_bool (q_absv (qv c)) 1 then (if q_is_neg (qv c) then (-1)%Q else 1%Q) else signed (q_is_neg (qv c)) (q_absv (qv c)))]) ++ read_spec cs vs) const = Some r).
    { rewrite <- app_assoc. exact H. }
    clear H.
    destruct first; destruct (q_is_neg (qv c)) eqn:Ng; destruct (Qeq_bool (q_absv (qv c)) 1) eqn:One;
      cbn [app List.length]; rewrite <- ?app_assoc; cbn [app]; unfold signed in H'.
    + replace (f + S (S (List.length rt))) with (S (S (f + List.length rt))) by lia.
      rewrite read_terms_S. cbn [String.eqb Ascii.eqb Bool.eqb]. rewrite read_terms_S. rewrite Np, Nm, No.
      apply IHr. exact H'.
    + replace (f + S (S (S (List.length rt)))) with (S (S (S (f + List.length rt)))) by lia.
      rewrite read_terms_S. cbn [String.eqb Ascii.eqb Bool.eqb]. rewrite read_terms_S. rewrite Nos.
      apply read_terms_mono. apply IHr. exact H'.
    + replace (f + S (List.length rt)) with (S (f + List.length rt)) by lia.
      rewrite read_terms_S. rewrite Np, Nm, No. apply IHr. exact H'.
    + replace (f + S (S (List.length rt))) with (S (S (f + List.length rt))) by lia.
      rewrite read_terms_S. rewrite Nos. apply read_terms_mono. apply IHr. exact H'.
    + replace (f + S (S (List.length rt))) with (S (S (f + List.length rt))) by lia.
      rewrite read_terms_S. cbn [String.eqb Ascii.eqb Bool.eqb]. rewrite read_terms_S. rewrite Np, Nm, No.
      apply IHr. exact H'.
    + replace (f + S (S (S (List.length rt)))) with (S (S (S (f + List.length rt)))) by lia.
      rewrite read_terms_S. cbn [String.eqb Ascii.eqb Bool.eqb]. rewrite read_terms_S. rewrite Nos.
      apply read_terms_mono. apply IHr. exact H'.
    + replace (f + S (S (List.length rt))) with (S (S (f + List.length rt))) by lia.
      rewrite read_terms_S. cbn [String.eqb Ascii.eqb Bool.eqb]. rewrite read_terms_S. rewrite Np, Nm, No.
      apply IHr. exact H'.
    + replace (f + S (S (S (List.length rt)))) with (S (S (S (f + List.length rt)))) by lia.
      rewrite read_terms_S. cbn [String.eqb Ascii.eqb Bool.eqb]. rewrite read_terms_S. rewrite Nos.
      apply read_terms_mono. apply IHr. exact H'.
Qed.

(* the recorded coefficients are the model's coefficients *)
Lemma read_spec_denotes coeffs : forall vars, leqb term_eqb (read_spec coeffs vars) (nonzero_terms coeffs vars) = true.
Proof.
  induction coeffs as [|c cs IH]; intros vars; [reflexivity|]. destruct vars as [|v vs]; [reflexivity|].
  unfold nonzero_terms. cbn [read_spec combine filter fst snd].
  destruct (q_is_zero (qv c)) eqn:Z; cbn [negb map filter fst snd]; [apply IH|].
  cbn [leqb]. apply andb_true_iff. split; [|apply IH].
  unfold term_eqb; cbn [fst snd]. rewrite String.eqb_refl. cbn [andb].
  unfold signed, q_absv, q_is_neg. destruct (Qle_bool 0 (qv c)) eqn:P; cbn [negb].
  - destruct (Qeq_bool (qv c) 1) eqn:O; apply Qeq_bool_iff; [apply Qeq_bool_iff in O; rewrite O; reflexivity|ring].
  - destruct (Qeq_bool (- qv c) 1) eqn:O; apply Qeq_bool_iff.
    + apply Qeq_bool_iff in O. rewrite <- (Qopp_involutive (qv c)), O. reflexivity.
    + ring.
Qed.

Lemma lp_terms_from_empty : forall coeffs vars first,
  snd (lp_terms_from first coeffs vars) = true -> fst (lp_terms_from first coeffs vars) = [] /\ read_spec coeffs vars = [] /\ first = true.
Proof.
  induction coeffs as [|c cs IH]; intros vars first H; [cbn in *; auto|].
  destruct vars as [|v vs]; [cbn in *; auto|]. cbn [lp_terms_from read_spec] in *.
  destruct (q_is_zero (qv c)); [apply IH; exact H|].
  destruct (lp_terms_from false cs vs); cbn in H. discriminate.
Qed.

Lemma is_op_cmp_word c : is_op (cmp_word c) = true.
Proof. destruct c; reflexivity. Qed.
Lemma cmp_word_not_sign c : String.eqb (cmp_word c) "+" = false /\ String.eqb (cmp_word c) "-" = false.
Proof. destruct c; split; reflexivity. Qed.

(* reading back one written row body: the recorded terms are the row's non-zero coefficients with their names,
   the constant part is zero, and the reader stops exactly at the relation *)
Theorem row_body_roundtrip coeffs vars c rhs rest :
  Forall (fun v => name_ok v = true) vars ->
  let tail := LWord (cmp_word c) :: LNum rhs :: LNL :: rest in
  exists terms k,
    read_terms (List.length (lp_terms coeffs vars ++ tail) + 1) 1%Q (lp_terms coeffs vars ++ tail) [] 0%Q = Some (terms, k, tail)
    /\ leqb term_eqb terms (nonzero_terms coeffs vars) = true /\ Qeq_bool k 0 = true.
Proof.
  intros Hn tail. destruct (cmp_word_not_sign c) as [Cp Cm].
  assert (Stop : forall f acc k, read_terms (S f) 1%Q tail acc k = Some (acc, k, tail)).
  { intros f acc k. unfold tail. rewrite read_terms_S, Cp, Cm, is_op_cmp_word. reflexivity. }
  unfold lp_terms. destruct (lp_terms_from true coeffs vars) as [toks empty] eqn:E.
  destruct empty.
  - pose proof (lp_terms_from_empty coeffs vars true) as Hem. rewrite E in Hem. destruct (Hem eq_refl) as [_ [Hs _]].
    exists [], (0 + 1 * 0)%Q. split; [|split].
    + cbn [app List.length]. rewrite Nat.add_comm. cbn [Nat.add]. rewrite read_terms_S. unfold tail at 1. rewrite is_op_cmp_word. cbn [orb].
      unfold tail. cbn [List.length]. apply Stop.
    + pose proof (read_spec_denotes coeffs vars) as D. rewrite Hs in D. exact D.
    + reflexivity.
  - exists (read_spec coeffs vars), 0%Q. split; [|split; [apply read_spec_denotes|reflexivity]].
    pose proof (read_terms_written coeffs vars true tail [] 0%Q 1 ([] ++ read_spec coeffs vars, 0%Q, tail) Hn (Stop 0 _ _)) as G.
    rewrite E in G. cbn [fst app] in G.
    apply (read_terms_mono_le (1 + List.length toks)); [rewrite app_length; lia|exact G].
Qed.
