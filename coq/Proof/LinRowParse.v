(* C12: the text of a linear row is read back as the linear form it was printed from, for rows of ANY length.
   For any operator table in which + and - share one left-associative level and prefix operators bind tighter. *)
From Coq Require Import Bool List Arith Lia QArith String.
From Rooc Require Import Model.Exp Model.Pratt Model.Printer Model.LinRow Proof.PrattSound Proof.PrinterParse.
Import ListNotations.
Local Close Scope Q_scope.
Local Open Scope list_scope.

Section T.
  Variable prec : binop -> nat.
  Variable rassoc : binop -> bool.
  Variable pprec : unop -> nat.
  Hypothesis prec_pos : forall op, 0 < prec op.
  Hypothesis prefix_tightest : forall u b, prec b <= pprec u - 1.
  Hypothesis add_sub_level : prec Add = prec Sub.
  Hypothesis add_left : rassoc Add = false.
  Hypothesis sub_left : rassoc Sub = false.
  Notation wfr := (wfr prec rassoc pprec).

  Definition pm (s : bool) : binop := if s then Sub else Add.
  Lemma pm_prec s : prec (pm s) = prec Add.
  Proof. destruct s; cbn; auto. Qed.
  Lemma pm_rb s : rb prec rassoc (pm s) = prec Add.
  Proof. unfold rb. destruct s; cbn; rewrite ?sub_left, ?add_left; auto. Qed.

  (* accumulators that can sit to the left of another + or - *)
  Definition acc_ok (t : tree) : Prop :=
    wfr 0 t /\ match t with Bin op _ _ => prec Add <= rb prec rassoc op | _ => True end.

  Lemma rest_wf : forall signs i acc, acc_ok acc -> acc_ok (row_tree_rest i acc signs).
  Proof.
    induction signs as [|s ss IH]; intros i acc [W O]; cbn [row_tree_rest]; [split; assumption|].
    apply IH. split.
    - change (if s then Sub else Add) with (pm s). cbn [Pratt.wfr]. rewrite pm_prec.
      split; [apply prec_pos|]. split; [exact W|]. split; [exact I|]. destruct acc; auto.
    - change (if s then Sub else Add) with (pm s). rewrite pm_rb. lia.
  Qed.

  Lemma rest_flatten : forall signs i acc,
    map PT (flatten (row_tree_rest i acc signs)) = map PT (flatten acc) ++ row_rest i signs.
  Proof.
    induction signs as [|s ss IH]; intros i acc; cbn [row_tree_rest row_rest]; [rewrite app_nil_r; reflexivity|].
    rewrite IH. cbn [flatten]. rewrite map_app. cbn [map]. rewrite <- app_assoc. reflexivity.
  Qed.

  Lemma rest_eval : forall av signs i acc,
    Qeq (teval av (row_tree_rest i acc signs)) (Qplus (teval av acc) (row_sum av i signs)).
  Proof.
    intros av. induction signs as [|s ss IH]; intros i acc; cbn [row_tree_rest row_sum].
    - ring.
    - rewrite IH. destruct s; cbn [teval]; ring.
  Qed.

  Theorem row_parses signs t :
    row_tree signs = Some t ->
    pparse prec rassoc pprec (row_tokens signs) = Some t /\ forall av, Qeq (teval av t) (row_sum av 0 signs).
  Proof.
    destruct signs as [|s ss]; [discriminate|]. cbn [row_tree]. intros H; inversion H; subst t; clear H.
    set (first := if s then Pre Neg (Leaf 0) else Leaf 0).
    assert (A : acc_ok first).
    { unfold first. destruct s; split; cbn; auto. }
    destruct (rest_wf ss 1 first A) as [W _].
    split.
    - assert (E : row_tokens (s :: ss) = map PT (flatten (row_tree_rest 1 first ss))).
      { rewrite rest_flatten. unfold first. cbn [row_tokens]. destruct s; reflexivity. }
      rewrite E. rewrite pparse_embeds. apply pratt_complete; [exact prefix_tightest|exact W].
    - intros av. rewrite rest_eval. unfold first. cbn [row_sum]. destruct s; cbn [teval]; ring.
  Qed.
End T.
