(* C07: the ranges copied into the emitted domain (apply_to_domain, incl. integer rounding and the
   keep-declared-domain branches) and the re-synchronised box are sound. *)
From Coq Require Import QArith Qreals Qround Reals ZArith Bool List String Lra Lia.
From Rooc Require Import Base.XQ Model.Exp Model.Sem Model.Bounds Model.Spec
  Proof.XQFacts Proof.AListFacts Proof.IntervalSound Proof.TightenSound Proof.PropagateSound.
Import ListNotations.
Local Close Scope Q_scope.
Local Open Scope R_scope.

Definition wf_vtype (t : vtype) : Prop :=
  match t with
  | TIntegerRange l u => (i32_min <= l /\ u <= i32_max)%Z
  | _ => True
  end.

Lemma Q2R_inject_Z z : Q2R (inject_Z z) = IZR z.
Proof. unfold Q2R, inject_Z; cbn. rewrite Rinv_1. lra. Qed.

Lemma ceil_le_int q z : Q2R q <= IZR z -> (Qceiling q <= z)%Z.
Proof.
  intros H. rewrite <- Q2R_inject_Z in H. apply Rle_Qle in H.
  rewrite <- (Qceiling_Z z). apply Qceiling_resp_le. exact H.
Qed.
Lemma int_le_floor q z : IZR z <= Q2R q -> (z <= Qfloor q)%Z.
Proof.
  intros H. rewrite <- Q2R_inject_Z in H. apply Rle_Qle in H.
  rewrite <- (Qfloor_Z z). apply Qfloor_resp_le. exact H.
Qed.

Lemma tol_nonneg : 0 <= Q2R (1 # 1000000000).
Proof. unfold Q2R; cbn. apply Rmult_le_pos; [lra|]. left. apply Rinv_0_lt_compat. lra. Qed.

Lemma as_i32_lower_sound b (z l : Z) tolq :
  0 <= Q2R tolq -> (i32_min <= l <= z)%Z -> xq_le_R b (IZR z) ->
  (xq_as_i32 (xq_ceil (xq_sub b (Fin tolq))) <= z)%Z.
Proof.
  intros Ht Hl Hb. destruct b as [q| | |]; cbn in Hb; try contradiction.
  - cbn [xq_sub xq_neg xq_add xq_ceil xq_as_i32].
    assert (C : (Qceiling (qn (q + qn (- tolq))) <= z)%Z).
    { apply ceil_le_int. rewrite Q2R_qn, Q2R_plus, Q2R_qn, Q2R_opp. lra. }
    set (c := Qceiling _) in *.
    assert (Htr : q_trunc (inject_Z c) = c).
    { unfold q_trunc. destruct (q_leb 0 (inject_Z c)); [apply Qfloor_Z|apply Qceiling_Z]. }
    rewrite Htr. lia.
  - cbn. lia.
Qed.
Lemma as_i32_upper_sound b (z u : Z) tolq :
  0 <= Q2R tolq -> (z <= u <= i32_max)%Z -> R_le_xq (IZR z) b ->
  (z <= xq_as_i32 (xq_floor (xq_add b (Fin tolq))))%Z.
Proof.
  intros Ht Hu Hb. destruct b as [q| | |]; cbn in Hb; try contradiction.
  - cbn [xq_add xq_floor xq_as_i32].
    assert (C : (z <= Qfloor (qn (q + tolq)))%Z).
    { apply int_le_floor. rewrite Q2R_qn, Q2R_plus. lra. }
    set (c := Qfloor _) in *.
    assert (Htr : q_trunc (inject_Z c) = c).
    { unfold q_trunc. destruct (q_leb 0 (inject_Z c)); [apply Qfloor_Z|apply Qceiling_Z]. }
    rewrite Htr. lia.
  - cbn. lia.
Qed.

(* bounds.rs apply_to_domain: a value in the declared type and in the derived box is in the emitted type *)
Theorem tighten_type_sound a n t v :
  a_tol a = default_tolerance -> wf_vtype t ->
  in_dom t v -> in_b (a_get a n) v -> in_dom (tighten_type a n t) v.
Proof.
  intros Htol Hwf Hd Hb. unfold tighten_type, a_get in *.
  destruct (al_get (a_vb a) n) as [b|]; [|exact Hd].
  destruct (b_degenerate b); [exact Hd|].
  destruct t as [|l u|l u|l u].
  - exact Hd.
  - destruct (xq_gtb _ _); [exact Hd|].
    destruct Hd as [z [-> [Hl Hu]]]. cbn in Hwf. destruct Hb as [B1 B2].
    exists z; split; [reflexivity|]. rewrite Htol. unfold default_tolerance. split.
    + apply (as_i32_lower_sound (lo b) z l); [apply tol_nonneg|lia|exact B1].
    + apply (as_i32_upper_sound (hi b) z u); [apply tol_nonneg|lia|exact B2].
  - destruct Hd as [H0 _]. destruct Hb as [B1 B2]. cbn. repeat split; [exact H0| |exact B2].
    apply xq_max_lo_both; [exact B1|]. cbn. rewrite Q2R_0. exact H0.
  - exact Hb.
Qed.

Lemma sync_with_domain_sound a dom rho :
  box_sound a rho -> in_domains dom rho -> box_sound (sync_with_domain a dom) rho.
Proof.
  unfold sync_with_domain. revert a. induction dom as [|[n t] r IH]; intros a Ha Hd; cbn [fold_left]; [exact Ha|].
  apply IH; [|intros m t' Hin; apply (Hd m t'); right; exact Hin].
  assert (Hreset : box_sound (a_set_vb a (al_insert (a_vb a) n (b_of_vtype t))) rho).
  { apply box_sound_insert; [exact Ha|]. apply in_b_of_vtype. apply (Hd n t). left; reflexivity. }
  cbn [fst snd]. destruct (match al_get (a_vb a) n with Some b => b_degenerate b | None => false end); [exact Hreset|].
  destruct t; try exact Hreset; exact Ha.
Qed.

Lemma a_tol_set_vb a vb : a_tol (a_set_vb a vb) = a_tol a.
Proof. reflexivity. Qed.
